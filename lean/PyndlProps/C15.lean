/-
  C15 — Every stage's output is valid input for the next stage.

  Composition only: the stage models are those of C09 (creation), C10
  (filter), C07/C11 (writer, reader, counting), C01 (learners), C12
  (activations).  The separators, the header and the token conventions every
  stage relies on are literals extracted from the source on every run
  (`Generated.lean`): a one-sided edit breaks `conventions_agree`.

  The interfaces (1)–(5): (1) creation writes clean tokens, (2) keep/remove
  filters only delete tokens and renaming yields non-empty tokens, (3) what the
  writer writes the reader parses and the learner learns as the specification
  on the written events, (4) counts of the written file are the counts of those
  events, (5) activations of the learned weights are the sums the learner used.

  Assembled (second half of this file, lemmas in PyndlProofs/Pipeline.lean):
  the stage models' private copies of `split` / `join` are proved to be the
  same functions (`split_join_shared`), the filter is transported to the token
  level (`Pipeline.filterEvent`, `filter_commutes_with_render`), and ONE
  statement runs corpus lines → `create_event_file` → event file →
  `filter_event_file` → event file → `events_from_file` → `dict_ndl`:
  `pipeline` (and without the creator, for arbitrary well-formed events,
  `writer_filter_reader_learner`; on lists of lines `writer_filter_lines`).
  The result is `rwLearn` on the created events filtered on the token level
  (an empty outcome list read back as the outcome `""`).

  Behind the filtered file (third part, lemmas in PyndlProofs/Pipeline2.lean),
  each starting from the same written file as `writer_filter_reader_learner`:
  (A) `pipeline_counts` — `cues_outcomes`, every number of processes;
  (B) `pipeline_ndl` — the `ndl.ndl` model of C01 (both methods) = `rwLearn` at
  every pair of names, and `pipeline_ndl_dict_agree` — it agrees with
  `dict_ndl` at every pair of names; (C) `pipeline_activation` (dict path, any
  cue list; the training events under the learner's duplicate policy),
  `pipeline_activation_matrix` (matrix path, training events),
  `pipeline_next_step` (interface (5) for the weights the pipeline produced).
  `pipeline_all` is the conjunction with the creator in front and shared
  witnesses: one filtered file, its counts, both learners, both activation
  paths, and the labels of the matrix = the names with a positive count.

  partial: still NOT part of the assembled statements
  * `ndl.ndl` enters as the CALL `ndlCall` (C01; = `ndlModel` on at least one
    event): if the filter removes EVERY event the real `ndl.ndl` raises `IOError`
    (`pipeline_ndl_empty_raises`), hence the hypothesis `hne` (the filter leaves
    an event) in every statement with `ndl.ndl`; chunking arguments `hcfg : CfgOK`
    (`2 ≤ events_per_temporary_file < 2³²`, `1 ≤ n_outcomes_per_job`, OpenMP:
    `n_outcomes_per_job < 2³²` and no wrap-around of the part bounds; outside the
    first three the call raises, C01 `ndl_chunk_args_raise`); the hypothesis
    `FileEvents` of the C01 statements (every event has ≥ 1 cue and ≥ 1 outcome)
    is PROVED for the events behind the filter (`filtered_events_file`, a
    conjunct of `pipeline_ndl`), not assumed; trained from scratch (`weights=None`;
    continuing from given weights is C03 alone), constant `α` (hence
    `pipeline_ndl_dict_agree` / `pipeline_all` are for constant `α`; the
    `dict_ndl` statements allow a cue-dependent `α`), within the 32-bit limits
    `Fits32` (a precondition: outside them the real function raises), the parts
    of a method learned one after the other — that the real threads / OpenMP
    schedule give the same matrix is C01/C02 (disjoint rows), not repeated
    here.  Its internal count is `countNames` on the parsed events; that the
    counting stage on the file reports exactly these names is part of
    `pipeline_all`; the ORDER of the labels is first occurrence in `ndlModel`
    (the real `Counter` key order for `n_jobs > 1` may differ; the weight
    statements here read the matrix by name, `LW.get`; that the weights do not
    depend on the label order nor on the order of cues/outcomes inside an
    event — `create_event_file(remove_duplicates=True)` and
    `write_events(remove_duplicates=True)` write in `set` order — is
    `pipeline_ndl_order_irrelevant` below (composed: created file in any token
    order → filter → reader → `ndl.ndl` with any label / id order), on the
    specification alone `pipeline_order_irrelevant`; the
    list equalities `out`, `parsed` are for the model's first-occurrence order).  The two
    representations of `str` (`List Char` in the text model, `String` in the
    `ndl.ndl` / activation models) are related by `String.ofList` (a bijection).
  * the `wh` learners (C08) are not composed at all.
  * activation: the matrix path is composed for the training events only (all
    their cues are labels); for other event files a missing cue raises
    `KeyError` / is skipped — C12 `act_missing` alone.  The multi-process split
    of `activation()` (C12 `events_independent`) and the `xarray` wrapping of
    the result are not composed.
  * the byte level: gzip and UTF-8 are identity (trusted base of C07), and the
    text `create_event_file` writes is taken to be `renderFile false` of the
    created events (header and line format are the extracted literals,
    `create_writes_text_format`; the creation model itself stops at token
    lists); `filter_event_file`'s line iteration is `Pipeline.readLines`
    (universal newlines, `strip('\n')`) and its output is each returned line
    followed by `\n`;
  * `Pool.imap`'s ordering guarantee and `n_jobs` independence remain trusted
    (C10); `str.lower` / `str.strip` tables are parameters (C09).
  The end-to-end statement is also sampled by harness/run_C15.py on the real code.
-/
import PyndlProps.C07
import PyndlProps.C11
import PyndlProofs.Create
import PyndlProofs.Filter
import PyndlProofs.Dict
import PyndlProofs.Activation
import PyndlProofs.Pipeline
import PyndlProofs.Pipeline2
import PyndlProofs.Pipeline3
import PyndlModel.Generated

namespace Pyndl.C15
open Pyndl Pyndl.Text

/-- (constant check) writer, reader, filter and creator agree on the column separator (TAB), the
    token separator (underscore) and the header line -/
theorem conventions_agree :
    Generated.writerColSep = Generated.readerColSep ∧ Generated.readerColSep = Generated.filterColSep ∧
    Generated.writerTokSep = Generated.readerTokSep ∧ Generated.readerTokSep = Generated.filterTokSep ∧
    Generated.readerColSep = "\t" ∧ Generated.readerTokSep = "_" ∧
    Generated.createHeader = "cues\toutcomes\n" ∧ Generated.createLineFormat = "{}\t{}\n" :=
  ⟨rfl, rfl, rfl, rfl, rfl, rfl, rfl, rfl⟩

/-- (the same statement as C09 `tokens_clean`) (1) **creation → file**: every token `create_event_file` writes is non-empty
    and free of blank, underscore and TAB (outcome words also of `#`) -/
theorem create_tokens_wf (t : Create.Tables) (o : Create.Options) (hn : ∀ n, o.cue = .ngrams n → 1 ≤ n)
    (rawLines : List (List Char)) :
    ∀ ev ∈ Create.createEvents t o rawLines,
      (∀ tok ∈ ev.cues, tok ≠ [] ∧ ' ' ∉ tok ∧ '_' ∉ tok ∧ '\t' ∉ tok) ∧
      (∀ tok ∈ ev.outcomes, tok ≠ [] ∧ ' ' ∉ tok ∧ '_' ∉ tok ∧ '\t' ∉ tok ∧ '#' ∉ tok) := by
  intro ev hev
  obtain ⟨h1, h2⟩ := Create.createEvents_clean t o hn rawLines ev hev
  constructor
  · intro tok ht
    obtain ⟨hne, hc⟩ := h1 tok ht
    exact ⟨hne, fun h => (hc _ h).1 rfl, fun h => (hc _ h).2.1 rfl, fun h => (hc _ h).2.2 rfl⟩
  · intro tok ht
    obtain ⟨hne, hc⟩ := h2 tok ht
    refine ⟨hne, fun h => (hc _ h).1 rfl, fun h => ?_, fun h => ?_, fun h => ?_⟩
    · exact (Create.isSpecial_false (hc _ h).2).2.1 rfl
    · exact (Create.isSpecial_false (hc _ h).2).2.2 rfl
    · exact (Create.isSpecial_false (hc _ h).2).1 rfl

/-- (2) **filter keeps tokens well formed**: keep / remove / all only delete
    tokens; a rename yields only non-empty tokens that are images of the map -/
theorem filter_preserves_tokens {χ : Type} [DecidableEq χ] (r : Filter.Rule χ) (ts : List (Filter.Str χ)) :
    (∀ S, r = .keep S ∨ r = .remove S ∨ r = .all → ∀ t ∈ r.apply ts, t ∈ ts) ∧
    (∀ m, r = .map m → ∀ t ∈ r.apply ts, t ≠ [] ∧ ∃ s ∈ ts, t = Filter.lookupD m s) := by
  constructor
  · intro S h t ht
    rcases h with rfl | rfl | rfl
    · simp only [Filter.Rule.apply, List.mem_filter] at ht; exact ht.1
    · simp only [Filter.Rule.apply, List.mem_filter] at ht; exact ht.1
    · simpa [Filter.Rule.apply] using ht
  · intro m h t ht
    subst h
    simp only [Filter.Rule.apply, List.mem_filter, List.mem_map, decide_eq_true_eq] at ht
    obtain ⟨⟨s, hs, rfl⟩, hne⟩ := ht
    exact ⟨hne, s, hs, rfl⟩

/-- (3) **writer → reader → learner**: for events with well-formed tokens, the
    pure-Python learner applied to what the reader parses from what the writer
    wrote returns the Rescorla–Wagner weights of exactly those events (an empty
    outcome list being read back as the outcome named by the empty string) -/
theorem writer_reader_learner {R : Type} [CommRing R] (compatible : Bool) (p : DupPolicy)
    (α : Str → R) (β₁ β₂ lam : R) (es es' : List TEvent) (h : ∀ e ∈ es, C07.WfEvent e)
    (hp : applyPolicyAll p (es.map normalise) = some es') :
    ∃ parsed W, parseFile 0 1 (renderFile compatible es) = some parsed ∧
      dictNdl p α β₁ β₂ lam [] parsed = some W ∧
      wdAbs W = rwLearn α β₁ β₂ lam (wdAbs ([] : WDict Str Str R)) es' := by
  obtain ⟨W, hW, habs⟩ := Pyndl.dictNdl_eq_spec p α β₁ β₂ lam [] (es.map normalise) es' hp
  exact ⟨es.map normalise, W, C07.parse_render compatible es h, hW, habs⟩

/-- (4) **writer → counting**: the counts reported for the written file, for
    every number of counting processes, are the counts of the written events -/
theorem writer_count (compatible : Bool) (n : Nat) (hn : 1 ≤ n) (es : List TEvent) (h : ∀ e ∈ es, C07.WfEvent e) :
    ∃ r, cuesOutcomes n (renderFile compatible es) = some r ∧ r.n = ((es.map normalise).length : Int) ∧
      (∀ x, cGet r.cues x = ((es.map normalise).map (fun e => e.cues.count x)).sum) ∧
      (∀ x, cGet r.outcomes x = ((es.map normalise).map (fun e => e.outcomes.count x)).sum) :=
  C11.cues_outcomes_exact n hn (renderFile compatible es) (es.map normalise) (C07.parse_render compatible es h)

/-- (5) **learner ↔ activation**: one further learning step moves each weight by
    `multiplicity · α · β · (target − activation)`, with the activation being
    the very sum `activation()` computes (C12) -/
theorem learner_activation_consistent {R : Type} [CommRing R] {ι κ : Type} [DecidableEq ι] [DecidableEq κ]
    (α : ι → R) (β₁ β₂ lam : R) (W : κ → ι → R) (e : Event ι κ) (o : κ) (c : ι) :
    rwStep α β₁ β₂ lam W e o c - W o c
      = (e.cues.count c : R) * (α c *
          (if o ∈ e.outcomes then β₁ * (lam - sumOver (W o) e.cues)
           else β₂ * (0 - sumOver (W o) e.cues))) :=
  Pyndl.step_delta α β₁ β₂ lam W e o c

/-! ## the assembled pipeline (lemmas: PyndlProofs/Pipeline.lean) -/

open Pyndl.Pipeline in
/-- **one `split`, one `join`.**  The filter model's private copies of
    `str.split(sep)` / `sep.join(…)`, instantiated at `Char`, ARE the functions
    of the text-format model — so what one stage joins the next one splits. -/
theorem split_join_shared :
    Filter.splitOn (χ := Char) = Text.splitOn ∧ Filter.joinWith (χ := Char) = Text.joinWith :=
  ⟨filter_splitOn_eq_fun, filter_joinWith_eq_fun⟩

/-- (definitional) the domain of the composition is the domain of the round trip C07. -/
theorem wfEvent_iff (e : TEvent) : C07.WfEvent e ↔ Pipeline.EventWf e := Iff.rfl

/-- **writer → filter, one line**: a data line written for an event with
    separator-free tokens has exactly two columns — `job` does not raise. -/
theorem written_line_accepted (e : TEvent) (h : C07.WfEvent e) :
    Filter.WellFormed Filter.colSep (renderEvent false e) :=
  Pipeline.wellFormed_renderEvent e h.ok

/-- **the filter commutes with the writer.**  For an event with ≥ 1 cue and
    well-formed tokens, `job` on the written line returns the written line of
    `Pipeline.filterEvent rc ro e` (rules applied to the token lists; dropped
    iff no cue is left; an event left without outcomes is kept).

    `hro : RuleNilSafe ro` — the outcome rule must not turn the empty token into
    a token: an event without outcomes is written with an empty outcome field,
    which `"".split("_") = [""]` presents to the rule as the token `""`.
    keep / remove / all are always safe (`[""]` and `[]` are both written as
    the empty field); an `outcome_map` is safe iff it has no key `""` or maps
    it to `""` (`Pipeline.ruleNilSafe_of_keys`).  The cue rule needs nothing:
    with ≥ 1 cue the token `""` does not occur. -/
theorem filter_commutes_with_render (rc ro : Filter.Rule Char) (hro : Pipeline.RuleNilSafe ro)
    (e : TEvent) (h : C07.WfEvent e) :
    Filter.applyRules Filter.colSep Filter.tokSep rc ro (renderEvent false e)
      = (Pipeline.filterEvent rc ro e).map (renderEvent false) :=
  Pipeline.applyRules_renderEvent rc ro hro e h

/-- the hypothesis `RuleNilSafe` is needed: the rename `{"": "x"}` on the
    outcome side invents the outcome `x` for an event without outcomes. -/
example :
    let e : TEvent := ⟨[['a']], []⟩
    let ro : Filter.Rule Char := .map [([], ['x'])]
    Filter.applyRules '\t' '_' .all ro (renderEvent false e) = some "a\tx".toList ∧
    (Pipeline.filterEvent .all ro e).map (renderEvent false) = some "a\t".toList := by
  decide +kernel

/-- **writer → filter on the list of lines.**  `filter_event_file` with
    accepted arguments (`hc`, `ho`: the constructor selected `rc`, `ro`), any
    chunk size ≥ 1, on the lines `header :: es.map render` returns
    `header :: (es.filterMap filterEvent).map render`. -/
theorem writer_filter_lines (ca oa : Filter.SideArgs Char) (rc ro : Filter.Rule Char)
    (hc : Filter.selectRule ca = .ok rc) (ho : Filter.selectRule oa = .ok ro)
    (hro : Pipeline.RuleNilSafe ro) (chunk : Nat) (hn : 1 ≤ chunk)
    (es : List TEvent) (h : ∀ e ∈ es, C07.WfEvent e) :
    Filter.filterEventFile Filter.colSep Filter.tokSep ca oa chunk
        (renderHeader false :: es.map (renderEvent false))
      = .ok (renderHeader false :: (es.filterMap (Pipeline.filterEvent rc ro)).map (renderEvent false)) :=
  Pipeline.filterEventFile_renderLines ca oa rc ro hc ho hro chunk hn es h

/-- the line-by-line view of a written file is the list of written lines:
    nothing is lost in the line terminators (tokens contain neither LF nor CR). -/
theorem written_file_lines (es : List TEvent) (h : ∀ e ∈ es, C07.WfEvent e) :
    Pipeline.readLines (renderFile false es) = renderHeader false :: es.map (renderEvent false) :=
  Pipeline.readLines_renderFile false es (fun e he => (h e he).ok)

/-- **writer → filter → reader → learner (files).**  For every list `es` of
    events with ≥ 1 cue and well-formed tokens (`h`), accepted filter arguments
    (`hc`, `ho`), every chunk size ≥ 1 (`hn`; `n_jobs` does not occur: C10):

    * `filter_event_file` on the file `events_to_file(es)` wrote, read line by
      line (`readLines`), succeeds and returns the lines `out` — the header and
      the written lines of `es.filterMap (filterEvent rc ro)`;
    * `events_from_file` on the file made of these lines (`unlines out`: each
      followed by `\n`) parses exactly those events, an empty outcome list
      coming back as the outcome `""` (`normalise`);
    * `dict_ndl` on the parsed events returns the Rescorla–Wagner weights
      `rwLearn` of them (`hp`: the events as the duplicate policy
      `remove_duplicates` accepts/rewrites them — `dictNdl_eq_spec`).

    Rule hypotheses: `hrc`, `hro` — a `cue_map` / `outcome_map` only has
    values that are `""` or well-formed tokens (otherwise the filtered file
    would contain a token with `_`/TAB/LF/CR in it and would not parse back to
    the filtered token lists); `hnil` — see `filter_commutes_with_render`.
    All three hold for keep / remove / all (`Pipeline.ruleOk_of_noMap`). -/
theorem writer_filter_reader_learner {R : Type} [CommRing R] (p : DupPolicy)
    (α : Str → R) (β₁ β₂ lam : R)
    (ca oa : Filter.SideArgs Char) (rc ro : Filter.Rule Char)
    (hc : Filter.selectRule ca = .ok rc) (ho : Filter.selectRule oa = .ok ro)
    (hrc : Pipeline.RuleImgWf rc) (hro : Pipeline.RuleImgWf ro) (hnil : Pipeline.RuleNilSafe ro)
    (chunk : Nat) (hn : 1 ≤ chunk)
    (es es' : List TEvent) (h : ∀ e ∈ es, C07.WfEvent e)
    (hp : applyPolicyAll p ((es.filterMap (Pipeline.filterEvent rc ro)).map normalise) = some es') :
    ∃ out parsed W,
      Filter.filterEventFile Filter.colSep Filter.tokSep ca oa chunk
          (Pipeline.readLines (renderFile false es)) = .ok out ∧
      out = renderHeader false :: (es.filterMap (Pipeline.filterEvent rc ro)).map (renderEvent false) ∧
      parseFile 0 1 (unlines out) = some parsed ∧
      parsed = (es.filterMap (Pipeline.filterEvent rc ro)).map normalise ∧
      dictNdl p α β₁ β₂ lam [] parsed = some W ∧
      wdAbs W = rwLearn α β₁ β₂ lam (wdAbs ([] : WDict Str Str R)) es' :=
  Pipeline.writer_filter_reader_learner p α β₁ β₂ lam ca oa rc ro hc ho hrc hro hnil chunk hn es es' h hp

/-- the same for filters without a rename: no hypothesis on the rules left. -/
theorem writer_select_reader_learner {R : Type} [CommRing R] (p : DupPolicy)
    (α : Str → R) (β₁ β₂ lam : R)
    (ca oa : Filter.SideArgs Char) (hca : Filter.NoMap ca) (hoa : Filter.NoMap oa)
    (rc ro : Filter.Rule Char)
    (hc : Filter.selectRule ca = .ok rc) (ho : Filter.selectRule oa = .ok ro)
    (chunk : Nat) (hn : 1 ≤ chunk)
    (es es' : List TEvent) (h : ∀ e ∈ es, C07.WfEvent e)
    (hp : applyPolicyAll p ((es.filterMap (Pipeline.filterEvent rc ro)).map normalise) = some es') :
    ∃ out parsed W,
      Filter.filterEventFile Filter.colSep Filter.tokSep ca oa chunk
          (Pipeline.readLines (renderFile false es)) = .ok out ∧
      parseFile 0 1 (unlines out) = some parsed ∧
      parsed = (es.filterMap (Pipeline.filterEvent rc ro)).map normalise ∧
      dictNdl p α β₁ β₂ lam [] parsed = some W ∧
      wdAbs W = rwLearn α β₁ β₂ lam (wdAbs ([] : WDict Str Str R)) es' := by
  obtain ⟨out, parsed, W, h1, _, h3, h4, h5, h6⟩ :=
    writer_filter_reader_learner p α β₁ β₂ lam ca oa rc ro hc ho
      (Pipeline.ruleOk_of_noMap ca hca rc hc).1 (Pipeline.ruleOk_of_noMap oa hoa ro ho).1
      (Pipeline.ruleOk_of_noMap oa hoa ro ho).2 chunk hn es es' h hp
  exact ⟨out, parsed, W, h1, h3, h4, h5, h6⟩

/-- (definitional) the text `create_event_file` writes is the text format of the writer: its
    header literal is the writer's header line plus `\n`, its line format is
    `cues TAB outcomes \n` (the `{}` being the `_`-joined token lists,
    `Pipeline.toTEvent`). -/
theorem create_writes_text_format :
    Generated.createHeader.toList = renderHeader false ++ [LF] ∧
    Generated.createLineFormat.toList = "{}".toList ++ TAB :: "{}".toList ++ [LF] := by
  decide

/-- **creation → text format.**  Every event `create_event_file` writes has at
    least one cue and well-formed tokens, i.e. is in the domain of C07 and of
    the composition.  `hn`: the n-gram size is 1, 2 or 3 (`bigrams_to_word`,
    `trigrams_to_word` are the only ones the real function offers; for a phrase
    shorter than `n` `ngrams_to_word` writes a line with an EMPTY cue field,
    see `Pipeline.processWords_cues_ne`); `hraw`: no raw corpus line contains LF
    or CR (the corpus is iterated line by line); `hlower`: with
    `lower_case=True` no entry of the lower-casing table contains LF or CR
    (C09 `tokens_no_newline`, `tokens_no_cr`, `tokens_clean`). -/
theorem created_events_wf (t : Create.Tables) (o : Create.Options)
    (hn : ∀ n, o.cue = .ngrams n → 1 ≤ n ∧ n ≤ 3) (rawLines : List (List Char))
    (hraw : ∀ raw ∈ rawLines, '\n' ∉ raw ∧ '\r' ∉ raw)
    (hlower : o.lowerCase = true → ∀ p ∈ t.lower, '\n' ∉ p.2 ∧ '\r' ∉ p.2) :
    ∀ ev ∈ Create.createEvents t o rawLines, C07.WfEvent (Pipeline.toTEvent ev) :=
  Pipeline.createEvents_eventWf t o hn rawLines hraw hlower

/-- the bound on the n-gram size is needed: with 4-grams the one-letter
    context `a` (phrase `#a#`) is written with an empty cue field. -/
example : Create.createEvents ⟨[' '], []⟩ ⟨.all, .line, .line, .ngrams 4, false, false⟩ ["a".toList]
    = [⟨[], ["a".toList]⟩] := by decide +kernel

/-- **pipeline.**  corpus lines → `create_event_file` → event file →
    `filter_event_file` → event file → `events_from_file` → `dict_ndl`
    = `rwLearn` on the created events, filtered on the token level and
    normalised.  Hypotheses: those of `created_events_wf` (creation side) and
    of `writer_filter_reader_learner` (filter side, learner side). -/
theorem pipeline {R : Type} [CommRing R] (p : DupPolicy) (α : Str → R) (β₁ β₂ lam : R)
    (t : Create.Tables) (o : Create.Options)
    (hng : ∀ n, o.cue = .ngrams n → 1 ≤ n ∧ n ≤ 3) (rawLines : List (List Char))
    (hraw : ∀ raw ∈ rawLines, '\n' ∉ raw ∧ '\r' ∉ raw)
    (hlower : o.lowerCase = true → ∀ p ∈ t.lower, '\n' ∉ p.2 ∧ '\r' ∉ p.2)
    (ca oa : Filter.SideArgs Char) (rc ro : Filter.Rule Char)
    (hc : Filter.selectRule ca = .ok rc) (ho : Filter.selectRule oa = .ok ro)
    (hrc : Pipeline.RuleImgWf rc) (hro : Pipeline.RuleImgWf ro) (hnil : Pipeline.RuleNilSafe ro)
    (chunk : Nat) (hn : 1 ≤ chunk) (es' : List TEvent)
    (hp : applyPolicyAll p
      ((((Create.createEvents t o rawLines).map Pipeline.toTEvent).filterMap
          (Pipeline.filterEvent rc ro)).map normalise) = some es') :
    ∃ out parsed W,
      Filter.filterEventFile Filter.colSep Filter.tokSep ca oa chunk
        (Pipeline.readLines (renderFile false ((Create.createEvents t o rawLines).map Pipeline.toTEvent)))
          = .ok out ∧
      parseFile 0 1 (unlines out) = some parsed ∧
      parsed = (((Create.createEvents t o rawLines).map Pipeline.toTEvent).filterMap
                  (Pipeline.filterEvent rc ro)).map normalise ∧
      dictNdl p α β₁ β₂ lam [] parsed = some W ∧
      wdAbs W = rwLearn α β₁ β₂ lam (wdAbs ([] : WDict Str Str R)) es' :=
  Pipeline.pipeline p α β₁ β₂ lam t o hng rawLines hraw hlower ca oa rc ro hc ho hrc hro hnil chunk hn es' hp

/-! Non-vacuity: a two-line corpus, bigram cues over whole lines, keep the cues
    `#a`/`a#`/`b#` and remove the outcome `b`: the first event (`a`) is kept,
    the second (`b`) keeps the cue `b#` and loses its outcome (read back as `""`);
    every hypothesis of `pipeline` holds for these values. -/
example :
    let t : Create.Tables := ⟨[' '], []⟩
    let o : Create.Options := ⟨.all, .line, .line, .ngrams 2, false, false⟩
    let raw : List (List Char) := ["a".toList, "b".toList]
    let ca : Filter.SideArgs Char := ⟨some ["#a".toList, "a#".toList, "b#".toList], none, none⟩
    let oa : Filter.SideArgs Char := ⟨none, some ["b".toList], none⟩
    let created := (Create.createEvents t o raw).map Pipeline.toTEvent
    created = [⟨["#a".toList, "a#".toList], ["a".toList]⟩, ⟨["#b".toList, "b#".toList], ["b".toList]⟩] ∧
    (∀ r ∈ raw, '\n' ∉ r ∧ '\r' ∉ r) ∧
    Filter.filterEventFile '\t' '_' ca oa 2 (Pipeline.readLines (renderFile false created))
      = .ok ["cues\toutcomes".toList, "#a_a#\ta".toList, "b#\t".toList] ∧
    parseFile 0 1 (unlines ["cues\toutcomes".toList, "#a_a#\ta".toList, "b#\t".toList])
      = some [⟨["#a".toList, "a#".toList], ["a".toList]⟩, ⟨["b#".toList], [[]]⟩] := by
  decide +kernel

/-- … the rules the constructor selects for these arguments; they contain no
    rename, so `RuleImgWf` / `RuleNilSafe` hold (`Pipeline.ruleOk_of_noMap`). -/
example :
    Filter.selectRule (⟨some ["#a".toList, "a#".toList, "b#".toList], none, none⟩ : Filter.SideArgs Char)
      = .ok (.keep ["#a".toList, "a#".toList, "b#".toList]) ∧
    Filter.selectRule (⟨none, some ["b".toList], none⟩ : Filter.SideArgs Char)
      = .ok (.remove ["b".toList]) := ⟨rfl, rfl⟩

/-! ## the stages behind the filtered file (lemmas: PyndlProofs/Pipeline2.lean)

Two representations of a Python `str` meet: the text model has
`Str = List Char`, the models of `ndl.ndl` and `activation()` have `String`.
`Pipeline.toS` is `String.ofList` on every token of an event, `Pipeline.wdToS`
the same on the keys of a weight dict; `String.ofList` is a bijection. -/

/-- the change of representation loses nothing. -/
theorem toS_injective : Function.Injective Pipeline.toS := Pipeline.toS_injective

/-- **(A) writer → filter → counting.**  Under the hypotheses of
    `writer_filter_reader_learner` (the duplicate policy plays no role), for
    every number of counting processes `n ≥ 1`, `cues_outcomes` on the filtered
    file `unlines out` returns `n_events` = the number of token-level filtered
    events, and for every name `x` the number of its occurrences as a cue /
    as an outcome in those events as `events_from_file` reads them (an empty
    outcome list counting as one occurrence of the outcome `""`). -/
theorem pipeline_counts
    (ca oa : Filter.SideArgs Char) (rc ro : Filter.Rule Char)
    (hc : Filter.selectRule ca = .ok rc) (ho : Filter.selectRule oa = .ok ro)
    (hrc : Pipeline.RuleImgWf rc) (hro : Pipeline.RuleImgWf ro) (hnil : Pipeline.RuleNilSafe ro)
    (chunk : Nat) (hn : 1 ≤ chunk)
    (es : List TEvent) (h : ∀ e ∈ es, C07.WfEvent e) (n : Nat) (hn1 : 1 ≤ n) :
    ∃ out r,
      Filter.filterEventFile Filter.colSep Filter.tokSep ca oa chunk
          (Pipeline.readLines (renderFile false es)) = .ok out ∧
      cuesOutcomes n (unlines out) = some r ∧
      r.n = ((es.filterMap (Pipeline.filterEvent rc ro)).length : Int) ∧
      (∀ x, cGet r.cues x
          = (((es.filterMap (Pipeline.filterEvent rc ro)).map normalise).map (fun e => e.cues.count x)).sum) ∧
      (∀ x, cGet r.outcomes x
          = (((es.filterMap (Pipeline.filterEvent rc ro)).map normalise).map
              (fun e => e.outcomes.count x)).sum) :=
  Pipeline.pipeline_counts ca oa rc ro hc ho hrc hro hnil chunk hn es h n hn1

/-- non-vacuity of (A): the filtered file of the example above, counted by 3
    processes (one more than there are events): 2 events, the cue `a#` once,
    `b` (filtered out) never, the outcome `a` once, the outcome `""` once. -/
example :
    (cuesOutcomes 3 (unlines ["cues\toutcomes".toList, "#a_a#\ta".toList, "b#\t".toList])).map
        (fun r => (r.n, cGet r.cues "a#".toList, cGet r.cues "b".toList,
                   cGet r.outcomes "a".toList, cGet r.outcomes []))
      = some (2, 1, 0, 1, 1) := by decide +kernel

/-- **(B) writer → filter → reader → `ndl.ndl`.**  Under the hypotheses of
    `writer_filter_reader_learner` (`hp` for `cfg.policy`) and those of C01
    `ndl_call_eq_spec` (`hcfg : CfgOK`: `2 ≤ events_per_temporary_file < 2³²`,
    `1 ≤ n_outcomes_per_job`, OpenMP `n_outcomes_per_job < 2³²` and no wrap-around
    of the part bounds;
    `hfit`: the 32-bit limits of the chunk format — outside them the real
    function raises; `hne`: the filter leaves at least one event — otherwise
    the real `ndl.ndl` raises `IOError`, see `pipeline_ndl_empty_raises`), with the magic number / version
    extracted from the source: the model of `ndl.ndl` (both methods; counting,
    id maps, duplicate policy on ids, binary chunk files, kernels, labelling)
    on the events parsed from the filtered file succeeds, reports the number
    of parsed events, and the labelled matrix is at EVERY pair of names the
    Rescorla–Wagner specification on the policy-processed filtered events
    (for `String` names on `es'.map toS`; through `String.ofList` for the
    `List Char` names on `es'` itself — the right-hand side of `pipeline`).
    Last conjunct: the events handed to `ndl.ndl` are `FileEvents` — the
    hypothesis `hfile` of C01 `ndl_call_eq_spec` / `ndl_call_labels` is a
    consequence of the filter and reader models here. -/
theorem pipeline_ndl {R : Type} [CommRing R]
    (cfg : NdlCfg) (alpha β₁ β₂ lam : R)
    (ca oa : Filter.SideArgs Char) (rc ro : Filter.Rule Char)
    (hc : Filter.selectRule ca = .ok rc) (ho : Filter.selectRule oa = .ok ro)
    (hrc : Pipeline.RuleImgWf rc) (hro : Pipeline.RuleImgWf ro) (hnil : Pipeline.RuleNilSafe ro)
    (chunk : Nat) (hn : 1 ≤ chunk)
    (es es' : List TEvent) (h : ∀ e ∈ es, C07.WfEvent e)
    (hp : applyPolicyAll cfg.policy ((es.filterMap (Pipeline.filterEvent rc ro)).map normalise) = some es')
    (hfit : Fits32 (((es.filterMap (Pipeline.filterEvent rc ro)).map normalise).map Pipeline.toS))
    (hcfg : CfgOK cfg
      (countNames (((es.filterMap (Pipeline.filterEvent rc ro)).map normalise).map Pipeline.toS)).2.length)
    (hne : es.filterMap (Pipeline.filterEvent rc ro) ≠ []) :
    ∃ out parsed w,
      Filter.filterEventFile Filter.colSep Filter.tokSep ca oa chunk
          (Pipeline.readLines (renderFile false es)) = .ok out ∧
      parseFile 0 1 (unlines out) = some parsed ∧
      parsed = (es.filterMap (Pipeline.filterEvent rc ro)).map normalise ∧
      ndlCall Generated.pyMagic Generated.pyVersion cfg alpha β₁ β₂ lam none (parsed.map Pipeline.toS)
        = .ok (w, parsed.length) ∧
      (∀ o c : String, w.get o c
          = rwLearn (fun _ => alpha) β₁ β₂ lam (fun _ _ => (0 : R)) (es'.map Pipeline.toS) o c) ∧
      (∀ o c : Str, w.get (String.ofList o) (String.ofList c)
          = rwLearn (fun _ => alpha) β₁ β₂ lam (wdAbs ([] : WDict Str Str R)) es' o c) ∧
      FileEvents (parsed.map Pipeline.toS) := by
  obtain ⟨out, parsed, w, h1, h2, h3, h4, h5, h6⟩ :=
    Pipeline.pipeline_ndl Generated.pyMagic Generated.pyVersion (by decide) (by decide) cfg
      alpha β₁ β₂ lam ca oa rc ro hc ho hrc hro hnil chunk hn es es' h hp hfit hcfg hne
  exact ⟨out, parsed, w, h1, h2, h3, h4, h5, h6, by rw [h3]; exact Pipeline.filtered_fileEvents rc ro es⟩

/-- **the events behind the filter are what an event file can hold** (`FileEvents`:
    ≥ 1 cue — the filter drops an event left without cues — and ≥ 1 outcome — an
    empty outcome field reads back as the outcome `""`), for every rule pair and
    every event list.  This discharges the hypothesis `hfile` of the C01
    statements about `ndl.ndl` for the pipeline. -/
theorem filtered_events_file (rc ro : Filter.Rule Char) (es : List TEvent) :
    FileEvents (((es.filterMap (Pipeline.filterEvent rc ro)).map normalise).map Pipeline.toS) :=
  Pipeline.filtered_fileEvents rc ro es

/-- **(B, error direction) the filter removes EVERY event ⇒ `ndl.ndl` raises
    `IOError`** (OpenMP; legal chunk arguments): the filtered file has only its
    header line, no chunk file is written, the kernel entry point reports its
    initial error code.  `dict_ndl` returns the empty dict there, and
    `method='threading'` the empty matrix (`ndlCall_empty_threading`) — so the
    hypothesis `hne` of `pipeline_ndl` / `pipeline_all` cannot be dropped.
    (One of three wrappers of `ndlCall_nil_raises`: C01 `ndl_call_empty_openmp`,
    C03 `ndl_call_empty_part_raises`.) -/
theorem pipeline_ndl_empty_raises {R : Type} [CommRing R]
    (cfg : NdlCfg) (hm : cfg.method = .openmp) (hper : 2 ≤ cfg.perFile) (hperU : cfg.perFile < 4294967296)
    (hjob : cfg.perJob < 4294967296) (alpha β₁ β₂ lam : R)
    (rc ro : Filter.Rule Char) (es : List TEvent) (hall : es.filterMap (Pipeline.filterEvent rc ro) = []) :
    ndlCall Generated.pyMagic Generated.pyVersion cfg alpha β₁ β₂ lam none
      (((es.filterMap (Pipeline.filterEvent rc ro)).map normalise).map Pipeline.toS) = .error .io := by
  rw [hall]
  exact ndlCall_nil_raises _ _ cfg alpha β₁ β₂ lam none hper hperU (fun h => by rw [hm] at h; cases h)
    (fun _ => hjob) (Or.inl hm)

/-- **the order of cues / outcomes inside an event is irrelevant** for every
    weight statement of this file: `create_event_file(remove_duplicates=True)`
    and `write_events(remove_duplicates=True)` write the elements of a Python
    `set`, i.e. in hash order, where the models write first occurrences.  Any
    event list that agrees with the model's event by event up to the order of
    the cues and of the outcomes gives the same Rescorla–Wagner weights, from
    any initial weights (lifts C01 `dedup_perm_invariant` to sequences).  The
    list-valued conclusions (`out`, `parsed`, label order) are for the models'
    order only.  This is the statement on the SPECIFICATION; composed with the
    filter, the reader and the `ndl.ndl` model: `pipeline_ndl_order_irrelevant`. -/
theorem pipeline_order_irrelevant {R : Type} [CommRing R] {ι κ : Type} [DecidableEq ι] [DecidableEq κ]
    (α : ι → R) (β₁ β₂ lam : R) (W : κ → ι → R) (es₀ es : List (Event ι κ))
    (h : List.Forall₂ (fun a b => List.Perm a.cues b.cues ∧ List.Perm a.outcomes b.outcomes) es₀ es) :
    rwLearn α β₁ β₂ lam W es₀ = rwLearn α β₁ β₂ lam W es :=
  rwLearn_perm_events α β₁ β₂ lam W es₀ es h

/-- **(B, order) token order of the created file, label order and id order are
    irrelevant for `ndl.ndl` behind the pipeline.**  `es`: the created events as
    the creation model writes them (first occurrences); `esReal`: ANY event list
    that agrees with `es` event by event up to the order of the cues and of the
    outcomes (`EventsPerm` — what `create_event_file(remove_duplicates=True)`
    really writes: `"_".join(set(cues))`); `cues`, `outs`: any permutations of
    the names (the merged `Counter` order of any `n_jobs`); `reorder`: any order
    of the ids inside the binary events (`write_events` over `set(ids)`).
    Hypotheses `hp`, `hfit`, `hcfg` as in `pipeline_ndl`, on the MODEL's list.
    Then `ndl.ndl` generalised over these orders (`ndlModelWith`, C01
    `ndl_label_order_irrelevant`), on the events the filter and the reader make
    of the REAL file, succeeds, reports their number, is labelled as given, gets
    `FileEvents`, and its weight at every pair of names is the right-hand side
    of `pipeline_ndl`.  (`Pipeline.pipeS rc ro es` is
    `((es.filterMap (filterEvent rc ro)).map normalise).map toS`.) -/
theorem pipeline_ndl_order_irrelevant {R : Type} [CommRing R]
    (reorder : Event Nat Nat → Event Nat Nat)
    (hre : ∀ e, List.Perm (reorder e).cues e.cues ∧ List.Perm (reorder e).outcomes e.outcomes)
    (cfg : NdlCfg) (alpha β₁ β₂ lam : R) (rc ro : Filter.Rule Char)
    (es es' esReal : List TEvent) (hreal : EventsPerm es esReal)
    (hp : applyPolicyAll cfg.policy ((es.filterMap (Pipeline.filterEvent rc ro)).map normalise) = some es')
    (hfit : Fits32 (Pipeline.pipeS rc ro es)) (hcfg : CfgOK cfg (countNames (Pipeline.pipeS rc ro es)).2.length)
    (cues outs : List String) (hpc : List.Perm cues (countNames (Pipeline.pipeS rc ro es)).1)
    (hpo : List.Perm outs (countNames (Pipeline.pipeS rc ro es)).2) :
    ∃ w, ndlModelWith reorder Generated.pyMagic Generated.pyVersion cfg alpha β₁ β₂ lam cues outs
          (Pipeline.pipeS rc ro esReal) = .ok (w, (Pipeline.pipeS rc ro esReal).length) ∧
      w.cues = cues ∧ w.outcomes = outs ∧ FileEvents (Pipeline.pipeS rc ro esReal) ∧
      (∀ o c : String, w.get o c
          = rwLearn (fun _ => alpha) β₁ β₂ lam (fun _ _ => (0 : R)) (es'.map Pipeline.toS) o c) ∧
      (∀ o c : Str, w.get (String.ofList o) (String.ofList c)
          = rwLearn (fun _ => alpha) β₁ β₂ lam (wdAbs ([] : WDict Str Str R)) es' o c) :=
  Pipeline.pipeline_ndl_order_irrelevant reorder hre Generated.pyMagic Generated.pyVersion (by decide) (by decide)
    cfg alpha β₁ β₂ lam rc ro es es' esReal hreal hp hfit hcfg cues outs hpc hpo

/-- **(B′) `ndl.ndl` = `dict_ndl` behind the filter.**  On the events parsed
    from the same filtered file both learners succeed and the labelled matrix
    and the weight dict denote the same function of (outcome name, cue name):
    for the `List Char` names through `String.ofList`, and for ALL `String`
    names through `String.toList`. -/
theorem pipeline_ndl_dict_agree {R : Type} [CommRing R]
    (cfg : NdlCfg) (alpha β₁ β₂ lam : R)
    (ca oa : Filter.SideArgs Char) (rc ro : Filter.Rule Char)
    (hc : Filter.selectRule ca = .ok rc) (ho : Filter.selectRule oa = .ok ro)
    (hrc : Pipeline.RuleImgWf rc) (hro : Pipeline.RuleImgWf ro) (hnil : Pipeline.RuleNilSafe ro)
    (chunk : Nat) (hn : 1 ≤ chunk)
    (es es' : List TEvent) (h : ∀ e ∈ es, C07.WfEvent e)
    (hp : applyPolicyAll cfg.policy ((es.filterMap (Pipeline.filterEvent rc ro)).map normalise) = some es')
    (hfit : Fits32 (((es.filterMap (Pipeline.filterEvent rc ro)).map normalise).map Pipeline.toS))
    (hcfg : CfgOK cfg
      (countNames (((es.filterMap (Pipeline.filterEvent rc ro)).map normalise).map Pipeline.toS)).2.length)
    (hne : es.filterMap (Pipeline.filterEvent rc ro) ≠ []) :
    ∃ out parsed W w,
      Filter.filterEventFile Filter.colSep Filter.tokSep ca oa chunk
          (Pipeline.readLines (renderFile false es)) = .ok out ∧
      parseFile 0 1 (unlines out) = some parsed ∧
      parsed = (es.filterMap (Pipeline.filterEvent rc ro)).map normalise ∧
      dictNdl cfg.policy (fun _ => alpha) β₁ β₂ lam [] parsed = some W ∧
      ndlCall Generated.pyMagic Generated.pyVersion cfg alpha β₁ β₂ lam none (parsed.map Pipeline.toS)
        = .ok (w, parsed.length) ∧
      (∀ o c : Str, w.get (String.ofList o) (String.ofList c) = wdAbs W o c) ∧
      (∀ o c : String, w.get o c = wdAbs W o.toList c.toList) :=
  Pipeline.pipeline_ndl_dict_agree Generated.pyMagic Generated.pyVersion (by decide) (by decide) cfg
    alpha β₁ β₂ lam ca oa rc ro hc ho hrc hro hnil chunk hn es es' h hp hfit hcfg hne

/-- example data: the events parsed from the filtered file of the example after
    `pipeline` (`#a_a# → a`, `b# → ""`). -/
def exampleParsed : List TEvent := [⟨["#a".toList, "a#".toList], ["a".toList]⟩, ⟨["b#".toList], [[]]⟩]

/-- non-vacuity of (B), (B′) on the events parsed in the example above
    (`#a_a# → a`, `b# → ""`), policy `None`, threading, one outcome per job, two
    events per temporary file, ℤ with `α = 1, β₁ = 2, β₂ = 3, λ = 5`: the policy
    accepts the events unchanged, the 32-bit limits hold, `ndl.ndl` returns the
    labels in order of first occurrence, 2 events, and weights that are not
    trivial; `dict_ndl` returns the same weights. -/
example :
    applyPolicyAll .error exampleParsed = some exampleParsed ∧
    (match ndlCall Generated.pyMagic Generated.pyVersion ⟨.error, .threading, 1, 2⟩ (1 : ℤ) 2 3 5 none
        (exampleParsed.map Pipeline.toS) with
     | .ok (w, k) => some (w.outcomes, w.cues, w.get "a" "a#", w.get "" "b#", w.get "a" "b#", k)
     | .error _ => none)
      = some (["a", ""], ["#a", "a#", "b#"], 10, 10, 0, 2) ∧
    (dictNdl .error (fun _ => (1 : ℤ)) 2 3 5 [] exampleParsed).map
        (fun W => (wdAbs W "a".toList "a#".toList, wdAbs W [] "b#".toList, wdAbs W "a".toList "b#".toList))
      = some (10, 10, 0) :=
  ⟨by decide +kernel, by decide +kernel, by decide +kernel⟩

/-- (definitional — example data, not a property theorem) … and the 32-bit limits for these events. -/
theorem exampleParsed_fits :
    Fits32 (exampleParsed.map Pipeline.toS) :=
  ⟨by decide +kernel, by decide +kernel, by decide +kernel, by decide +kernel⟩

/-- the written events of the example after `pipeline` -/
def exampleCreated : List TEvent :=
  [⟨["#a".toList, "a#".toList], ["a".toList]⟩, ⟨["#b".toList, "b#".toList], ["b".toList]⟩]

/-- (definitional — example data, not a property theorem) -/
theorem exampleCreated_wf : ∀ e ∈ exampleCreated, C07.WfEvent e := by
  intro e he
  simp only [exampleCreated, List.mem_cons, List.not_mem_nil, or_false] at he
  rcases he with rfl | rfl <;>
    exact ⟨by decide, by unfold C07.WfTok; decide +kernel, by unfold C07.WfTok; decide +kernel⟩

/-- (definitional — example data, not a property theorem) -/
theorem exampleCreated_parsed :
    (exampleCreated.filterMap (Pipeline.filterEvent (.keep ["#a".toList, "a#".toList, "b#".toList])
      (.remove ["b".toList]))).map normalise = exampleParsed := by decide +kernel

/-- `pipeline_ndl` ITSELF applied (threading, one outcome per job, two events per
    temporary file, filter chunk size 2): every hypothesis instantiated; the
    projection shows the call, the weights clause and the `FileEvents` clause -/
example :
    ∃ w : LW ℤ, ndlCall Generated.pyMagic Generated.pyVersion ⟨.error, .threading, 1, 2⟩ (1 : ℤ) 2 3 5 none
        (exampleParsed.map Pipeline.toS) = .ok (w, 2) ∧
      (∀ o c : String, w.get o c
        = rwLearn (fun _ => (1 : ℤ)) 2 3 5 (fun _ _ => (0 : ℤ)) (exampleParsed.map Pipeline.toS) o c) ∧
      FileEvents (exampleParsed.map Pipeline.toS) := by
  obtain ⟨out, parsed, w, _, _, hpar, hw, hget, _, hf⟩ :=
    pipeline_ndl (R := ℤ) ⟨.error, .threading, 1, 2⟩ 1 2 3 5
      ⟨some ["#a".toList, "a#".toList, "b#".toList], none, none⟩ ⟨none, some ["b".toList], none⟩
      (.keep ["#a".toList, "a#".toList, "b#".toList]) (.remove ["b".toList]) rfl rfl trivial trivial trivial
      2 (by decide) exampleCreated exampleParsed exampleCreated_wf
      (by rw [exampleCreated_parsed]; decide +kernel)
      (by rw [exampleCreated_parsed]; exact exampleParsed_fits)
      (by rw [exampleCreated_parsed]; decide +kernel) (by decide +kernel)
  rw [exampleCreated_parsed] at hpar
  subst hpar
  exact ⟨w, hw, hget, hf⟩

/-- `pipeline_order_irrelevant` applied: the two cues of the first created event
    swapped, the specification does not move (and is not trivial) -/
example :
    rwLearn (fun _ => (1 : ℤ)) 2 3 5 (fun _ _ => 0) exampleParsed
      = rwLearn (fun _ => (1 : ℤ)) 2 3 5 (fun _ _ => 0)
          [⟨["a#".toList, "#a".toList], ["a".toList]⟩, ⟨["b#".toList], [[]]⟩] ∧
    rwLearn (fun _ => (1 : ℤ)) 2 3 5 (fun _ _ => 0) exampleParsed "a".toList "a#".toList = 10 :=
  ⟨pipeline_order_irrelevant _ 2 3 5 _ _ _
      (List.Forall₂.cons ⟨by decide, by decide⟩ (List.Forall₂.cons ⟨by decide, by decide⟩ List.Forall₂.nil)),
    by decide +kernel⟩

/-- `pipeline_ndl_order_irrelevant` ITSELF applied: the REAL created file has the
    cues of both events in the other order (`a#_#a`, `b#_#b`), the counting stage
    lists the labels in reversed order, the binary events have their ids
    reversed (OpenMP, one outcome per job) — same weights as `pipeline_ndl` -/
example :
    ∃ w : LW ℤ, ndlModelWith (fun e => ⟨e.cues.reverse, e.outcomes.reverse⟩) Generated.pyMagic Generated.pyVersion
        ⟨.error, .openmp, 1, 2⟩ (1 : ℤ) 2 3 5 ["b#", "a#", "#a"] ["", "a"]
        (Pipeline.pipeS (.keep ["#a".toList, "a#".toList, "b#".toList]) (.remove ["b".toList])
          [⟨["a#".toList, "#a".toList], ["a".toList]⟩, ⟨["b#".toList, "#b".toList], ["b".toList]⟩])
        = .ok (w, (Pipeline.pipeS (.keep ["#a".toList, "a#".toList, "b#".toList]) (.remove ["b".toList])
          [⟨["a#".toList, "#a".toList], ["a".toList]⟩, ⟨["b#".toList, "#b".toList], ["b".toList]⟩]).length) ∧
      w.cues = ["b#", "a#", "#a"] ∧ w.outcomes = ["", "a"] ∧
      ∀ o c : String, w.get o c
        = rwLearn (fun _ => (1 : ℤ)) 2 3 5 (fun _ _ => (0 : ℤ)) (exampleParsed.map Pipeline.toS) o c := by
  have hS : Pipeline.pipeS (.keep ["#a".toList, "a#".toList, "b#".toList]) (.remove ["b".toList]) exampleCreated
      = exampleParsed.map Pipeline.toS := by rw [Pipeline.pipeS_eq, exampleCreated_parsed]
  obtain ⟨w, hw, lc, lo, _, hget, _⟩ :=
    pipeline_ndl_order_irrelevant (R := ℤ) (fun e => ⟨e.cues.reverse, e.outcomes.reverse⟩)
      (fun e => ⟨List.reverse_perm _, List.reverse_perm _⟩) ⟨.error, .openmp, 1, 2⟩ 1 2 3 5
      (.keep ["#a".toList, "a#".toList, "b#".toList]) (.remove ["b".toList])
      exampleCreated exampleParsed
      [⟨["a#".toList, "#a".toList], ["a".toList]⟩, ⟨["b#".toList, "#b".toList], ["b".toList]⟩]
      (List.Forall₂.cons ⟨by decide, by decide⟩ (List.Forall₂.cons ⟨by decide, by decide⟩ List.Forall₂.nil))
      (by rw [exampleCreated_parsed]; decide +kernel) (by rw [hS]; exact exampleParsed_fits)
      (by rw [hS]; decide +kernel) ["b#", "a#", "#a"] ["", "a"] (by rw [hS]; decide +kernel)
      (by rw [hS]; decide +kernel)
  exact ⟨w, hw, lc, lo, hget⟩

/-- **(C) … → `dict_ndl` → `activation()`, dict path.**  Under the hypotheses
    of `writer_filter_reader_learner`, on the weight dict `W` the learner
    returns for the filtered file (handed to `activation()` with `String` keys,
    `Pipeline.wdToS`):

    * for EVERY outcome `o` and EVERY cue list `cs` the dict path returns the
      sum over the cue occurrences of the Rescorla–Wagner weights `rwLearn` on
      the policy-processed filtered events (C12 `act_dict_eq_sum` composed with
      the learner equation; a `defaultdict` row never raises);
    * for every parsed (training) event `e`, `activation()` under the learner's
      own `remove_duplicates` does not raise and uses exactly the cues of the
      policy-processed event `e'` (C12 `act_cues_policy`), so its value for
      `e'` is the sum `sumOver (rwLearn … o) e'.cues` of interface (5). -/
theorem pipeline_activation {R : Type} [CommRing R] (p : DupPolicy)
    (α : Str → R) (β₁ β₂ lam : R)
    (ca oa : Filter.SideArgs Char) (rc ro : Filter.Rule Char)
    (hc : Filter.selectRule ca = .ok rc) (ho : Filter.selectRule oa = .ok ro)
    (hrc : Pipeline.RuleImgWf rc) (hro : Pipeline.RuleImgWf ro) (hnil : Pipeline.RuleNilSafe ro)
    (chunk : Nat) (hn : 1 ≤ chunk)
    (es es' : List TEvent) (h : ∀ e ∈ es, C07.WfEvent e)
    (hp : applyPolicyAll p ((es.filterMap (Pipeline.filterEvent rc ro)).map normalise) = some es') :
    ∃ out parsed W,
      Filter.filterEventFile Filter.colSep Filter.tokSep ca oa chunk
          (Pipeline.readLines (renderFile false es)) = .ok out ∧
      parseFile 0 1 (unlines out) = some parsed ∧
      parsed = (es.filterMap (Pipeline.filterEvent rc ro)).map normalise ∧
      dictNdl p α β₁ β₂ lam [] parsed = some W ∧
      (∀ (o : Str) (cs : List Str),
        dictRowAct false (wdRow (Pipeline.wdToS W) (String.ofList o)) (cs.map String.ofList)
          = .ok (sumOver (rwLearn α β₁ β₂ lam (wdAbs ([] : WDict Str Str R)) es' o) cs)) ∧
      (∀ e ∈ parsed, ∃ e' ∈ es', applyPolicy p e = some e' ∧
        actCues p (Pipeline.toS e).cues = .ok (Pipeline.toS e').cues ∧
        ∀ o : Str, dictRowAct false (wdRow (Pipeline.wdToS W) (String.ofList o)) (Pipeline.toS e').cues
          = .ok (sumOver (rwLearn α β₁ β₂ lam (wdAbs ([] : WDict Str Str R)) es' o) e'.cues)) :=
  Pipeline.pipeline_activation_dict p α β₁ β₂ lam ca oa rc ro hc ho hrc hro hnil chunk hn es es' h hp

/-- **(C) … → `ndl.ndl` → `activation()`, matrix path.**  Under the hypotheses
    of `pipeline_ndl`, on the labelled matrix `w` that `ndl.ndl` returns for the
    filtered file: the outcome labels are duplicate free, and for every parsed
    (training) event, under the learner's own `remove_duplicates`, with or
    without `ignore_missing_cues`: the duplicate check does not raise, every
    cue of the policy-processed event `e'` is a label (no `KeyError`, nothing
    skipped), and entry `i` of the event's activation column is the sum over
    `e'.cues` of the Rescorla–Wagner weights of the outcome labelled `i`
    (C12 `act_eq_sum` composed with `pipeline_ndl`). -/
theorem pipeline_activation_matrix {R : Type} [CommRing R]
    (cfg : NdlCfg) (alpha β₁ β₂ lam : R)
    (ca oa : Filter.SideArgs Char) (rc ro : Filter.Rule Char)
    (hc : Filter.selectRule ca = .ok rc) (ho : Filter.selectRule oa = .ok ro)
    (hrc : Pipeline.RuleImgWf rc) (hro : Pipeline.RuleImgWf ro) (hnil : Pipeline.RuleNilSafe ro)
    (chunk : Nat) (hn : 1 ≤ chunk)
    (es es' : List TEvent) (h : ∀ e ∈ es, C07.WfEvent e)
    (hp : applyPolicyAll cfg.policy ((es.filterMap (Pipeline.filterEvent rc ro)).map normalise) = some es')
    (hfit : Fits32 (((es.filterMap (Pipeline.filterEvent rc ro)).map normalise).map Pipeline.toS))
    (hcfg : CfgOK cfg
      (countNames (((es.filterMap (Pipeline.filterEvent rc ro)).map normalise).map Pipeline.toS)).2.length)
    (hne : es.filterMap (Pipeline.filterEvent rc ro) ≠ [])
    (ig : Bool) :
    ∃ out parsed w,
      Filter.filterEventFile Filter.colSep Filter.tokSep ca oa chunk
          (Pipeline.readLines (renderFile false es)) = .ok out ∧
      parseFile 0 1 (unlines out) = some parsed ∧
      parsed = (es.filterMap (Pipeline.filterEvent rc ro)).map normalise ∧
      ndlCall Generated.pyMagic Generated.pyVersion cfg alpha β₁ β₂ lam none (parsed.map Pipeline.toS)
        = .ok (w, parsed.length) ∧
      w.outcomes.Nodup ∧
      (∀ e ∈ parsed, ∃ e' ∈ es', applyPolicy cfg.policy e = some e' ∧
        actCues cfg.policy (Pipeline.toS e).cues = .ok (Pipeline.toS e').cues ∧
        cueIndices ig w.cues (Pipeline.toS e').cues
          = .ok ((Pipeline.toS e').cues.map (w.cues.idxOf ·)) ∧
        ∀ (i : Nat) (hi : i < w.outcomes.length),
          (actColumn w ((Pipeline.toS e').cues.map (w.cues.idxOf ·))).getD i 0
            = sumOver (rwLearn (fun _ => alpha) β₁ β₂ lam (wdAbs ([] : WDict Str Str R)) es'
                (w.outcomes[i]).toList) e'.cues) :=
  Pipeline.pipeline_activation_matrix Generated.pyMagic Generated.pyVersion (by decide) (by decide) cfg
    alpha β₁ β₂ lam ca oa rc ro hc ho hrc hro hnil chunk hn es es' h hp hfit hcfg hne ig

/-- **(C) interface (5) at the end of the pipeline.**
    `learner_activation_consistent` for the weights the pipeline produced: if
    learning is continued with one further event `e` on the dict `W` that
    `dict_ndl` returned for the filtered file (`wdAbs W = rwLearn … es'`), each
    weight moves by `multiplicity · α · β · (target − A)` where `A` is the value
    the dict path of `activation()` returns for `e`'s cues on that very dict. -/
theorem pipeline_next_step {R : Type} [CommRing R] (p : DupPolicy)
    (α : Str → R) (β₁ β₂ lam : R)
    (ca oa : Filter.SideArgs Char) (rc ro : Filter.Rule Char)
    (hc : Filter.selectRule ca = .ok rc) (ho : Filter.selectRule oa = .ok ro)
    (hrc : Pipeline.RuleImgWf rc) (hro : Pipeline.RuleImgWf ro) (hnil : Pipeline.RuleNilSafe ro)
    (chunk : Nat) (hn : 1 ≤ chunk)
    (es es' : List TEvent) (h : ∀ e ∈ es, C07.WfEvent e)
    (hp : applyPolicyAll p ((es.filterMap (Pipeline.filterEvent rc ro)).map normalise) = some es') :
    ∃ out parsed W,
      Filter.filterEventFile Filter.colSep Filter.tokSep ca oa chunk
          (Pipeline.readLines (renderFile false es)) = .ok out ∧
      parseFile 0 1 (unlines out) = some parsed ∧
      parsed = (es.filterMap (Pipeline.filterEvent rc ro)).map normalise ∧
      dictNdl p α β₁ β₂ lam [] parsed = some W ∧
      wdAbs W = rwLearn α β₁ β₂ lam (wdAbs ([] : WDict Str Str R)) es' ∧
      ∀ (e : TEvent) (o c : Str), ∃ A,
        dictRowAct false (wdRow (Pipeline.wdToS W) (String.ofList o)) (Pipeline.toS e).cues = .ok A ∧
        rwStep α β₁ β₂ lam (wdAbs W) e o c - wdAbs W o c
          = (e.cues.count c : R) * (α c *
              (if o ∈ e.outcomes then β₁ * (lam - A) else β₂ * (0 - A))) :=
  Pipeline.pipeline_next_step p α β₁ β₂ lam ca oa rc ro hc ho hrc hro hnil chunk hn es es' h hp

/-- non-vacuity of (C) on the same parsed events and weights (ℤ): the dict
    path on the learner's dict and the matrix path on the learner's matrix
    return, for the two training events, the activations `20, 0` of the outcome
    `a` and `0, 10` of the outcome `""`; under `remove_duplicates=None` the
    repeated cue of `a#_a#` raises, under `True` it counts once. -/
example :
    (dictNdl .error (fun _ => (1 : ℤ)) 2 3 5 [] exampleParsed).map (fun W =>
        (dictRowAct false (wdRow (Pipeline.wdToS W) "a") ["#a", "a#"],
         dictRowAct false (wdRow (Pipeline.wdToS W) "a") ["b#"],
         dictRowAct false (wdRow (Pipeline.wdToS W) "") ["b#"]))
      = some (.ok 20, .ok 0, .ok 10) ∧
    (match ndlCall Generated.pyMagic Generated.pyVersion ⟨.error, .threading, 1, 2⟩ (1 : ℤ) 2 3 5 none
        (exampleParsed.map Pipeline.toS) with
     | .ok (w, _) => some (activationMatrix .error false w ((exampleParsed.map Pipeline.toS).map (·.cues)),
                           activationMatrix .error false w [["a#", "a#"]],
                           activationMatrix .dedup false w [["a#", "a#"]])
     | .error _ => none)
      = some (.ok [[20, 0], [0, 10]], .error .value, .ok [[10, 0]]) :=
  ⟨by decide +kernel, by decide +kernel⟩

/-- **everything behind one filtered file.**  corpus lines →
    `create_event_file` → event file → `filter_event_file` → ONE event file
    `unlines out` → { `cues_outcomes`, `events_from_file` → `dict_ndl`,
    `events_from_file` → `ndl.ndl`, `activation()` on both results }, with
    shared witnesses: the conjunction of `pipeline`, `pipeline_counts`,
    `pipeline_ndl_dict_agree`, `pipeline_activation`,
    `pipeline_activation_matrix` (`α` constant, as `ndl.ndl` has it), and

    * the labels of the `ndl.ndl` matrix are duplicate free and are exactly the
      names to which the counting stage assigns a positive count;
    * the whole matrix path `activationMatrix` over the training events
      succeeds, one column per policy-processed event.

    `hes` names the created events; the other hypotheses are those of
    `pipeline` (creation, filter, policy) and `pipeline_ndl` (`hcfg`, `hne`,
    `hfit`); `n ≥ 1` counting processes; `ig` = `ignore_missing_cues`. -/
theorem pipeline_all {R : Type} [CommRing R]
    (cfg : NdlCfg) (alpha β₁ β₂ lam : R)
    (t : Create.Tables) (o : Create.Options)
    (hng : ∀ n, o.cue = .ngrams n → 1 ≤ n ∧ n ≤ 3) (rawLines : List (List Char))
    (hraw : ∀ raw ∈ rawLines, '\n' ∉ raw ∧ '\r' ∉ raw)
    (hlower : o.lowerCase = true → ∀ p ∈ t.lower, '\n' ∉ p.2 ∧ '\r' ∉ p.2)
    (ca oa : Filter.SideArgs Char) (rc ro : Filter.Rule Char)
    (hc : Filter.selectRule ca = .ok rc) (ho : Filter.selectRule oa = .ok ro)
    (hrc : Pipeline.RuleImgWf rc) (hro : Pipeline.RuleImgWf ro) (hnil : Pipeline.RuleNilSafe ro)
    (chunk : Nat) (hn : 1 ≤ chunk)
    (es es' : List TEvent) (hes : es = (Create.createEvents t o rawLines).map Pipeline.toTEvent)
    (hp : applyPolicyAll cfg.policy ((es.filterMap (Pipeline.filterEvent rc ro)).map normalise) = some es')
    (hfit : Fits32 (((es.filterMap (Pipeline.filterEvent rc ro)).map normalise).map Pipeline.toS))
    (hcfg : CfgOK cfg
      (countNames (((es.filterMap (Pipeline.filterEvent rc ro)).map normalise).map Pipeline.toS)).2.length)
    (hne : es.filterMap (Pipeline.filterEvent rc ro) ≠ [])
    (n : Nat) (hn1 : 1 ≤ n) (ig : Bool) :
    ∃ out parsed r W w,
      Filter.filterEventFile Filter.colSep Filter.tokSep ca oa chunk
          (Pipeline.readLines (renderFile false es)) = .ok out ∧
      parseFile 0 1 (unlines out) = some parsed ∧
      parsed = (es.filterMap (Pipeline.filterEvent rc ro)).map normalise ∧
      cuesOutcomes n (unlines out) = some r ∧ r.n = (parsed.length : Int) ∧
      (∀ x, cGet r.cues x = (parsed.map (fun e => e.cues.count x)).sum) ∧
      (∀ x, cGet r.outcomes x = (parsed.map (fun e => e.outcomes.count x)).sum) ∧
      dictNdl cfg.policy (fun _ => alpha) β₁ β₂ lam [] parsed = some W ∧
      wdAbs W = rwLearn (fun _ => alpha) β₁ β₂ lam (wdAbs ([] : WDict Str Str R)) es' ∧
      ndlCall Generated.pyMagic Generated.pyVersion cfg alpha β₁ β₂ lam none (parsed.map Pipeline.toS)
        = .ok (w, parsed.length) ∧
      (∀ o c : String, w.get o c = wdAbs W o.toList c.toList) ∧
      w.cues.Nodup ∧ w.outcomes.Nodup ∧
      (∀ x : Str, String.ofList x ∈ w.cues ↔ 0 < cGet r.cues x) ∧
      (∀ x : Str, String.ofList x ∈ w.outcomes ↔ 0 < cGet r.outcomes x) ∧
      activationMatrix cfg.policy ig w ((parsed.map Pipeline.toS).map (·.cues))
        = .ok ((es'.map Pipeline.toS).map (fun e' => actColumn w (e'.cues.map (w.cues.idxOf ·)))) ∧
      (∀ e ∈ parsed, ∃ e' ∈ es', applyPolicy cfg.policy e = some e' ∧
        actCues cfg.policy (Pipeline.toS e).cues = .ok (Pipeline.toS e').cues ∧
        (∀ o : Str, dictRowAct false (wdRow (Pipeline.wdToS W) (String.ofList o)) (Pipeline.toS e').cues
          = .ok (sumOver (wdAbs W o) e'.cues)) ∧
        ∀ (i : Nat) (hi : i < w.outcomes.length),
          (actColumn w ((Pipeline.toS e').cues.map (w.cues.idxOf ·))).getD i 0
            = sumOver (wdAbs W (w.outcomes[i]).toList) e'.cues) :=
  Pipeline.pipeline_all Generated.pyMagic Generated.pyVersion (by decide) (by decide) cfg
    alpha β₁ β₂ lam t o hng rawLines hraw hlower ca oa rc ro hc ho hrc hro hnil chunk hn es es' hes hp hfit
    hcfg hne n hn1 ig

/-- non-vacuity of `pipeline_all`: for the corpus, options and filter
    arguments of the example after `pipeline`, the created events filtered and
    normalised are the `parsed` of the examples above, for which `hp` and `hfit`
    were checked there. -/
example :
    let t : Create.Tables := ⟨[' '], []⟩
    let o : Create.Options := ⟨.all, .line, .line, .ngrams 2, false, false⟩
    let es := (Create.createEvents t o ["a".toList, "b".toList]).map Pipeline.toTEvent
    ((es.filterMap (Pipeline.filterEvent (.keep ["#a".toList, "a#".toList, "b#".toList])
        (.remove ["b".toList]))).map normalise)
      = exampleParsed := by
  decide +kernel

/-- … and `pipeline_all` ITSELF applied to these values (OpenMP, one outcome per
    job, two events per temporary file, two counting processes): all its
    hypotheses — creation, filter rules, policy, `Fits32`, `CfgOK`, "the filter
    leaves an event" — are instantiated; projected to the `ndl.ndl` clause. -/
example :
    ∃ w : LW ℤ, ndlCall Generated.pyMagic Generated.pyVersion ⟨.error, .openmp, 1, 2⟩ (1 : ℤ) 2 3 5 none
        (exampleParsed.map Pipeline.toS) = .ok (w, 2) ∧ w.cues.Nodup ∧ w.outcomes.Nodup := by
  have hpar : ((((Create.createEvents ⟨[' '], []⟩ ⟨.all, .line, .line, .ngrams 2, false, false⟩
        ["a".toList, "b".toList]).map Pipeline.toTEvent).filterMap
        (Pipeline.filterEvent (.keep ["#a".toList, "a#".toList, "b#".toList]) (.remove ["b".toList]))).map
        normalise) = exampleParsed := by decide +kernel
  obtain ⟨out, parsed, r, W, w, _, _, hparsed, _, _, _, _, _, _, hw, _, hnc, hno, _⟩ :=
    pipeline_all (R := ℤ) ⟨.error, .openmp, 1, 2⟩ 1 2 3 5 ⟨[' '], []⟩ ⟨.all, .line, .line, .ngrams 2, false, false⟩
      (by intro n h; cases h; exact ⟨by decide, by decide⟩) ["a".toList, "b".toList] (by decide +kernel)
      (by intro h; cases h)
      ⟨some ["#a".toList, "a#".toList, "b#".toList], none, none⟩ ⟨none, some ["b".toList], none⟩
      (.keep ["#a".toList, "a#".toList, "b#".toList]) (.remove ["b".toList]) rfl rfl trivial trivial trivial
      2 (by decide) _ exampleParsed rfl (by rw [hpar]; decide +kernel)
      (by rw [hpar]; exact ⟨by decide +kernel, by decide +kernel, by decide +kernel, by decide +kernel⟩)
      (by rw [hpar]; decide +kernel) (by decide +kernel) 2 (by decide) false
  rw [hpar] at hparsed
  subst hparsed
  exact ⟨w, hw, hnc, hno⟩

end Pyndl.C15
