/-
  C15 — Every stage's output is valid input for the next stage.

  Composition only: the stage models are those of C09 (creation), C10
  (filter), C07/C11 (writer, reader, counting), C01 (learners), C12
  (activations).  The separators, the header and the token conventions every
  stage relies on are literals extracted from the source on every run
  (`Generated.lean`): a one-sided edit breaks `conventions_agree`.

  The interfaces (1)–(5): (1) creation writes clean tokens, (2) keep/remove
  filters only delete tokens and renaming yields non-empty tokens, (3) what the
  writer writes the reader parses and the learner learns as the specification
  on the written events, (4) counts of the written file are the counts of those
  events, (5) activations of the learned weights are the sums the learner used.

  Assembled (second half of this file, lemmas in PyndlProofs/Pipeline.lean):
  the stage models' private copies of `split` / `join` are proved to be the
  same functions (`split_join_shared`), the filter is transported to the token
  level (`Pipeline.filterEvent`, `filter_commutes_with_render`), and ONE
  statement runs corpus lines → `create_event_file` → event file →
  `filter_event_file` → event file → `events_from_file` → `dict_ndl`:
  `pipeline` (and without the creator, for arbitrary well-formed events,
  `writer_filter_reader_learner`; on lists of lines `writer_filter_lines`).
  The result is `rwLearn` on the created events filtered on the token level
  (an empty outcome list read back as the outcome `""`).

  partial: still NOT part of the one statement
  * the activation stage (C12) — (5) stays a separate interface theorem, and
    the counting stage (4) is a side branch, not composed after the filter;
  * the other learners (`ndl.ndl` threading/OpenMP, `wh`): `pipeline` ends in
    `dict_ndl`; their equality with the same specification is C01/C02/C08;
  * the byte level: gzip and UTF-8 are identity (trusted base of C07), and the
    text `create_event_file` writes is taken to be `renderFile false` of the
    created events (header and line format are the extracted literals,
    `create_writes_text_format`; the creation model itself stops at token
    lists); `filter_event_file`'s line iteration is `Pipeline.readLines`
    (universal newlines, `strip('\n')`) and its output is each returned line
    followed by `\n`;
  * `Pool.imap`'s ordering guarantee and `n_jobs` independence remain trusted
    (C10); `str.lower` / `str.strip` tables are parameters (C09).
  The end-to-end statement is also sampled by harness/run_C15.py on the real code.
-/
import PyndlProps.C07
import PyndlProps.C11
import PyndlProofs.Create
import PyndlProofs.Filter
import PyndlProofs.Dict
import PyndlProofs.Activation
import PyndlProofs.Pipeline
import PyndlModel.Generated

namespace Pyndl.C15
open Pyndl Pyndl.Text

/-- writer, reader, filter and creator agree on the column separator (TAB), the
    token separator (underscore) and the header line -/
theorem conventions_agree :
    Generated.writerColSep = Generated.readerColSep ∧ Generated.readerColSep = Generated.filterColSep ∧
    Generated.writerTokSep = Generated.readerTokSep ∧ Generated.readerTokSep = Generated.filterTokSep ∧
    Generated.readerColSep = "\t" ∧ Generated.readerTokSep = "_" ∧
    Generated.createHeader = "cues\toutcomes\n" ∧ Generated.createLineFormat = "{}\t{}\n" :=
  ⟨rfl, rfl, rfl, rfl, rfl, rfl, rfl, rfl⟩

/-- (1) **creation → file**: every token `create_event_file` writes is non-empty
    and free of blank, underscore and TAB (outcome words also of `#`) -/
theorem create_tokens_wf (t : Create.Tables) (o : Create.Options) (hn : ∀ n, o.cue = .ngrams n → 1 ≤ n)
    (rawLines : List (List Char)) :
    ∀ ev ∈ Create.createEvents t o rawLines,
      (∀ tok ∈ ev.cues, tok ≠ [] ∧ ' ' ∉ tok ∧ '_' ∉ tok ∧ '\t' ∉ tok) ∧
      (∀ tok ∈ ev.outcomes, tok ≠ [] ∧ ' ' ∉ tok ∧ '_' ∉ tok ∧ '\t' ∉ tok ∧ '#' ∉ tok) := by
  intro ev hev
  obtain ⟨h1, h2⟩ := Create.createEvents_clean t o hn rawLines ev hev
  constructor
  · intro tok ht
    obtain ⟨hne, hc⟩ := h1 tok ht
    exact ⟨hne, fun h => (hc _ h).1 rfl, fun h => (hc _ h).2.1 rfl, fun h => (hc _ h).2.2 rfl⟩
  · intro tok ht
    obtain ⟨hne, hc⟩ := h2 tok ht
    refine ⟨hne, fun h => (hc _ h).1 rfl, fun h => ?_, fun h => ?_, fun h => ?_⟩
    · exact (Create.isSpecial_false (hc _ h).2).2.1 rfl
    · exact (Create.isSpecial_false (hc _ h).2).2.2 rfl
    · exact (Create.isSpecial_false (hc _ h).2).1 rfl

/-- (2) **filter keeps tokens well formed**: keep / remove / all only delete
    tokens; a rename yields only non-empty tokens that are images of the map -/
theorem filter_preserves_tokens {χ : Type} [DecidableEq χ] (r : Filter.Rule χ) (ts : List (Filter.Str χ)) :
    (∀ S, r = .keep S ∨ r = .remove S ∨ r = .all → ∀ t ∈ r.apply ts, t ∈ ts) ∧
    (∀ m, r = .map m → ∀ t ∈ r.apply ts, t ≠ [] ∧ ∃ s ∈ ts, t = Filter.lookupD m s) := by
  constructor
  · intro S h t ht
    rcases h with rfl | rfl | rfl
    · simp only [Filter.Rule.apply, List.mem_filter] at ht; exact ht.1
    · simp only [Filter.Rule.apply, List.mem_filter] at ht; exact ht.1
    · simpa [Filter.Rule.apply] using ht
  · intro m h t ht
    subst h
    simp only [Filter.Rule.apply, List.mem_filter, List.mem_map, decide_eq_true_eq] at ht
    obtain ⟨⟨s, hs, rfl⟩, hne⟩ := ht
    exact ⟨hne, s, hs, rfl⟩

/-- (3) **writer → reader → learner**: for events with well-formed tokens, the
    pure-Python learner applied to what the reader parses from what the writer
    wrote returns the Rescorla–Wagner weights of exactly those events (an empty
    outcome list being read back as the outcome named by the empty string) -/
theorem writer_reader_learner {R : Type} [CommRing R] (compatible : Bool) (p : DupPolicy)
    (α : Str → R) (β₁ β₂ lam : R) (es es' : List TEvent) (h : ∀ e ∈ es, C07.WfEvent e)
    (hp : applyPolicyAll p (es.map normalise) = some es') :
    ∃ parsed W, parseFile 0 1 (renderFile compatible es) = some parsed ∧
      dictNdl p α β₁ β₂ lam [] parsed = some W ∧
      wdAbs W = rwLearn α β₁ β₂ lam (wdAbs ([] : WDict Str Str R)) es' := by
  obtain ⟨W, hW, habs⟩ := Pyndl.dictNdl_eq_spec p α β₁ β₂ lam [] (es.map normalise) es' hp
  exact ⟨es.map normalise, W, C07.parse_render compatible es h, hW, habs⟩

/-- (4) **writer → counting**: the counts reported for the written file, for
    every number of counting processes, are the counts of the written events -/
theorem writer_count (compatible : Bool) (n : Nat) (hn : 1 ≤ n) (es : List TEvent) (h : ∀ e ∈ es, C07.WfEvent e) :
    ∃ r, cuesOutcomes n (renderFile compatible es) = some r ∧ r.n = ((es.map normalise).length : Int) ∧
      (∀ x, cGet r.cues x = ((es.map normalise).map (fun e => e.cues.count x)).sum) ∧
      (∀ x, cGet r.outcomes x = ((es.map normalise).map (fun e => e.outcomes.count x)).sum) :=
  C11.cues_outcomes_exact n hn (renderFile compatible es) (es.map normalise) (C07.parse_render compatible es h)

/-- (5) **learner ↔ activation**: one further learning step moves each weight by
    `multiplicity · α · β · (target − activation)`, with the activation being
    the very sum `activation()` computes (C12) -/
theorem learner_activation_consistent {R : Type} [CommRing R] {ι κ : Type} [DecidableEq ι] [DecidableEq κ]
    (α : ι → R) (β₁ β₂ lam : R) (W : κ → ι → R) (e : Event ι κ) (o : κ) (c : ι) :
    rwStep α β₁ β₂ lam W e o c - W o c
      = (e.cues.count c : R) * (α c *
          (if o ∈ e.outcomes then β₁ * (lam - sumOver (W o) e.cues)
           else β₂ * (0 - sumOver (W o) e.cues))) :=
  Pyndl.step_delta α β₁ β₂ lam W e o c

/-! ## the assembled pipeline (lemmas: PyndlProofs/Pipeline.lean) -/

open Pyndl.Pipeline in
/-- **one `split`, one `join`.**  The filter model's private copies of
    `str.split(sep)` / `sep.join(…)`, instantiated at `Char`, ARE the functions
    of the text-format model — so what one stage joins the next one splits. -/
theorem split_join_shared :
    Filter.splitOn (χ := Char) = Text.splitOn ∧ Filter.joinWith (χ := Char) = Text.joinWith :=
  ⟨filter_splitOn_eq_fun, filter_joinWith_eq_fun⟩

/-- the domain of the composition is the domain of the round trip C07. -/
theorem wfEvent_iff (e : TEvent) : C07.WfEvent e ↔ Pipeline.EventWf e := Iff.rfl

/-- **writer → filter, one line**: a data line written for an event with
    separator-free tokens has exactly two columns — `job` does not raise. -/
theorem written_line_accepted (e : TEvent) (h : C07.WfEvent e) :
    Filter.WellFormed Filter.colSep (renderEvent false e) :=
  Pipeline.wellFormed_renderEvent e h.ok

/-- **the filter commutes with the writer.**  For an event with ≥ 1 cue and
    well-formed tokens, `job` on the written line returns the written line of
    `Pipeline.filterEvent rc ro e` (rules applied to the token lists; dropped
    iff no cue is left; an event left without outcomes is kept).

    `hro : RuleNilSafe ro` — the outcome rule must not turn the empty token into
    a token: an event without outcomes is written with an empty outcome field,
    which `"".split("_") = [""]` presents to the rule as the token `""`.
    keep / remove / all are always safe (`[""]` and `[]` are both written as
    the empty field); an `outcome_map` is safe iff it has no key `""` or maps
    it to `""` (`Pipeline.ruleNilSafe_of_keys`).  The cue rule needs nothing:
    with ≥ 1 cue the token `""` does not occur. -/
theorem filter_commutes_with_render (rc ro : Filter.Rule Char) (hro : Pipeline.RuleNilSafe ro)
    (e : TEvent) (h : C07.WfEvent e) :
    Filter.applyRules Filter.colSep Filter.tokSep rc ro (renderEvent false e)
      = (Pipeline.filterEvent rc ro e).map (renderEvent false) :=
  Pipeline.applyRules_renderEvent rc ro hro e h

/-- the hypothesis `RuleNilSafe` is needed: the rename `{"": "x"}` on the
    outcome side invents the outcome `x` for an event without outcomes. -/
example :
    let e : TEvent := ⟨[['a']], []⟩
    let ro : Filter.Rule Char := .map [([], ['x'])]
    Filter.applyRules '\t' '_' .all ro (renderEvent false e) = some "a\tx".toList ∧
    (Pipeline.filterEvent .all ro e).map (renderEvent false) = some "a\t".toList := by
  decide +kernel

/-- **writer → filter on the list of lines.**  `filter_event_file` with
    accepted arguments (`hc`, `ho`: the constructor selected `rc`, `ro`), any
    chunk size ≥ 1, on the lines `header :: es.map render` returns
    `header :: (es.filterMap filterEvent).map render`. -/
theorem writer_filter_lines (ca oa : Filter.SideArgs Char) (rc ro : Filter.Rule Char)
    (hc : Filter.selectRule ca = .ok rc) (ho : Filter.selectRule oa = .ok ro)
    (hro : Pipeline.RuleNilSafe ro) (chunk : Nat) (hn : 1 ≤ chunk)
    (es : List TEvent) (h : ∀ e ∈ es, C07.WfEvent e) :
    Filter.filterEventFile Filter.colSep Filter.tokSep ca oa chunk
        (renderHeader false :: es.map (renderEvent false))
      = .ok (renderHeader false :: (es.filterMap (Pipeline.filterEvent rc ro)).map (renderEvent false)) :=
  Pipeline.filterEventFile_renderLines ca oa rc ro hc ho hro chunk hn es h

/-- the line-by-line view of a written file is the list of written lines:
    nothing is lost in the line terminators (tokens contain neither LF nor CR). -/
theorem written_file_lines (es : List TEvent) (h : ∀ e ∈ es, C07.WfEvent e) :
    Pipeline.readLines (renderFile false es) = renderHeader false :: es.map (renderEvent false) :=
  Pipeline.readLines_renderFile false es (fun e he => (h e he).ok)

/-- **writer → filter → reader → learner (files).**  For every list `es` of
    events with ≥ 1 cue and well-formed tokens (`h`), accepted filter arguments
    (`hc`, `ho`), every chunk size ≥ 1 (`hn`; `n_jobs` does not occur: C10):

    * `filter_event_file` on the file `events_to_file(es)` wrote, read line by
      line (`readLines`), succeeds and returns the lines `out` — the header and
      the written lines of `es.filterMap (filterEvent rc ro)`;
    * `events_from_file` on the file made of these lines (`unlines out`: each
      followed by `\n`) parses exactly those events, an empty outcome list
      coming back as the outcome `""` (`normalise`);
    * `dict_ndl` on the parsed events returns the Rescorla–Wagner weights
      `rwLearn` of them (`hp`: the events as the duplicate policy
      `remove_duplicates` accepts/rewrites them — `dictNdl_eq_spec`).

    Rule hypotheses: `hrc`, `hro` — a `cue_map` / `outcome_map` only has
    values that are `""` or well-formed tokens (otherwise the filtered file
    would contain a token with `_`/TAB/LF/CR in it and would not parse back to
    the filtered token lists); `hnil` — see `filter_commutes_with_render`.
    All three hold for keep / remove / all (`Pipeline.ruleOk_of_noMap`). -/
theorem writer_filter_reader_learner {R : Type} [CommRing R] (p : DupPolicy)
    (α : Str → R) (β₁ β₂ lam : R)
    (ca oa : Filter.SideArgs Char) (rc ro : Filter.Rule Char)
    (hc : Filter.selectRule ca = .ok rc) (ho : Filter.selectRule oa = .ok ro)
    (hrc : Pipeline.RuleImgWf rc) (hro : Pipeline.RuleImgWf ro) (hnil : Pipeline.RuleNilSafe ro)
    (chunk : Nat) (hn : 1 ≤ chunk)
    (es es' : List TEvent) (h : ∀ e ∈ es, C07.WfEvent e)
    (hp : applyPolicyAll p ((es.filterMap (Pipeline.filterEvent rc ro)).map normalise) = some es') :
    ∃ out parsed W,
      Filter.filterEventFile Filter.colSep Filter.tokSep ca oa chunk
          (Pipeline.readLines (renderFile false es)) = .ok out ∧
      out = renderHeader false :: (es.filterMap (Pipeline.filterEvent rc ro)).map (renderEvent false) ∧
      parseFile 0 1 (unlines out) = some parsed ∧
      parsed = (es.filterMap (Pipeline.filterEvent rc ro)).map normalise ∧
      dictNdl p α β₁ β₂ lam [] parsed = some W ∧
      wdAbs W = rwLearn α β₁ β₂ lam (wdAbs ([] : WDict Str Str R)) es' :=
  Pipeline.writer_filter_reader_learner p α β₁ β₂ lam ca oa rc ro hc ho hrc hro hnil chunk hn es es' h hp

/-- the same for filters without a rename: no hypothesis on the rules left. -/
theorem writer_select_reader_learner {R : Type} [CommRing R] (p : DupPolicy)
    (α : Str → R) (β₁ β₂ lam : R)
    (ca oa : Filter.SideArgs Char) (hca : Filter.NoMap ca) (hoa : Filter.NoMap oa)
    (rc ro : Filter.Rule Char)
    (hc : Filter.selectRule ca = .ok rc) (ho : Filter.selectRule oa = .ok ro)
    (chunk : Nat) (hn : 1 ≤ chunk)
    (es es' : List TEvent) (h : ∀ e ∈ es, C07.WfEvent e)
    (hp : applyPolicyAll p ((es.filterMap (Pipeline.filterEvent rc ro)).map normalise) = some es') :
    ∃ out parsed W,
      Filter.filterEventFile Filter.colSep Filter.tokSep ca oa chunk
          (Pipeline.readLines (renderFile false es)) = .ok out ∧
      parseFile 0 1 (unlines out) = some parsed ∧
      parsed = (es.filterMap (Pipeline.filterEvent rc ro)).map normalise ∧
      dictNdl p α β₁ β₂ lam [] parsed = some W ∧
      wdAbs W = rwLearn α β₁ β₂ lam (wdAbs ([] : WDict Str Str R)) es' := by
  obtain ⟨out, parsed, W, h1, _, h3, h4, h5, h6⟩ :=
    writer_filter_reader_learner p α β₁ β₂ lam ca oa rc ro hc ho
      (Pipeline.ruleOk_of_noMap ca hca rc hc).1 (Pipeline.ruleOk_of_noMap oa hoa ro ho).1
      (Pipeline.ruleOk_of_noMap oa hoa ro ho).2 chunk hn es es' h hp
  exact ⟨out, parsed, W, h1, h3, h4, h5, h6⟩

/-- the text `create_event_file` writes is the text format of the writer: its
    header literal is the writer's header line plus `\n`, its line format is
    `cues TAB outcomes \n` (the `{}` being the `_`-joined token lists,
    `Pipeline.toTEvent`). -/
theorem create_writes_text_format :
    Generated.createHeader.toList = renderHeader false ++ [LF] ∧
    Generated.createLineFormat.toList = "{}".toList ++ TAB :: "{}".toList ++ [LF] := by
  decide

/-- **creation → text format.**  Every event `create_event_file` writes has at
    least one cue and well-formed tokens, i.e. is in the domain of C07 and of
    the composition.  `hn`: the n-gram size is 1, 2 or 3 (`bigrams_to_word`,
    `trigrams_to_word` are the only ones the real function offers; for a phrase
    shorter than `n` `ngrams_to_word` writes a line with an EMPTY cue field,
    see `Pipeline.processWords_cues_ne`); `hraw`: no raw corpus line contains LF
    or CR (the corpus is iterated line by line); `hlower`: with
    `lower_case=True` no entry of the lower-casing table contains LF or CR
    (C09 `tokens_no_newline`, `tokens_no_cr`, `tokens_clean`). -/
theorem created_events_wf (t : Create.Tables) (o : Create.Options)
    (hn : ∀ n, o.cue = .ngrams n → 1 ≤ n ∧ n ≤ 3) (rawLines : List (List Char))
    (hraw : ∀ raw ∈ rawLines, '\n' ∉ raw ∧ '\r' ∉ raw)
    (hlower : o.lowerCase = true → ∀ p ∈ t.lower, '\n' ∉ p.2 ∧ '\r' ∉ p.2) :
    ∀ ev ∈ Create.createEvents t o rawLines, C07.WfEvent (Pipeline.toTEvent ev) :=
  Pipeline.createEvents_eventWf t o hn rawLines hraw hlower

/-- the bound on the n-gram size is needed: with 4-grams the one-letter
    context `a` (phrase `#a#`) is written with an empty cue field. -/
example : Create.createEvents ⟨[' '], []⟩ ⟨.all, .line, .line, .ngrams 4, false, false⟩ ["a".toList]
    = [⟨[], ["a".toList]⟩] := by decide +kernel

/-- **pipeline.**  corpus lines → `create_event_file` → event file →
    `filter_event_file` → event file → `events_from_file` → `dict_ndl`
    = `rwLearn` on the created events, filtered on the token level and
    normalised.  Hypotheses: those of `created_events_wf` (creation side) and
    of `writer_filter_reader_learner` (filter side, learner side). -/
theorem pipeline {R : Type} [CommRing R] (p : DupPolicy) (α : Str → R) (β₁ β₂ lam : R)
    (t : Create.Tables) (o : Create.Options)
    (hng : ∀ n, o.cue = .ngrams n → 1 ≤ n ∧ n ≤ 3) (rawLines : List (List Char))
    (hraw : ∀ raw ∈ rawLines, '\n' ∉ raw ∧ '\r' ∉ raw)
    (hlower : o.lowerCase = true → ∀ p ∈ t.lower, '\n' ∉ p.2 ∧ '\r' ∉ p.2)
    (ca oa : Filter.SideArgs Char) (rc ro : Filter.Rule Char)
    (hc : Filter.selectRule ca = .ok rc) (ho : Filter.selectRule oa = .ok ro)
    (hrc : Pipeline.RuleImgWf rc) (hro : Pipeline.RuleImgWf ro) (hnil : Pipeline.RuleNilSafe ro)
    (chunk : Nat) (hn : 1 ≤ chunk) (es' : List TEvent)
    (hp : applyPolicyAll p
      ((((Create.createEvents t o rawLines).map Pipeline.toTEvent).filterMap
          (Pipeline.filterEvent rc ro)).map normalise) = some es') :
    ∃ out parsed W,
      Filter.filterEventFile Filter.colSep Filter.tokSep ca oa chunk
        (Pipeline.readLines (renderFile false ((Create.createEvents t o rawLines).map Pipeline.toTEvent)))
          = .ok out ∧
      parseFile 0 1 (unlines out) = some parsed ∧
      parsed = (((Create.createEvents t o rawLines).map Pipeline.toTEvent).filterMap
                  (Pipeline.filterEvent rc ro)).map normalise ∧
      dictNdl p α β₁ β₂ lam [] parsed = some W ∧
      wdAbs W = rwLearn α β₁ β₂ lam (wdAbs ([] : WDict Str Str R)) es' :=
  Pipeline.pipeline p α β₁ β₂ lam t o hng rawLines hraw hlower ca oa rc ro hc ho hrc hro hnil chunk hn es' hp

/-! Non-vacuity: a two-line corpus, bigram cues over whole lines, keep the cues
    `#a`/`a#`/`b#` and remove the outcome `b`: the first event (`a`) is kept,
    the second (`b`) keeps the cue `b#` and loses its outcome (read back as `""`);
    every hypothesis of `pipeline` holds for these values. -/
example :
    let t : Create.Tables := ⟨[' '], []⟩
    let o : Create.Options := ⟨.all, .line, .line, .ngrams 2, false, false⟩
    let raw : List (List Char) := ["a".toList, "b".toList]
    let ca : Filter.SideArgs Char := ⟨some ["#a".toList, "a#".toList, "b#".toList], none, none⟩
    let oa : Filter.SideArgs Char := ⟨none, some ["b".toList], none⟩
    let created := (Create.createEvents t o raw).map Pipeline.toTEvent
    created = [⟨["#a".toList, "a#".toList], ["a".toList]⟩, ⟨["#b".toList, "b#".toList], ["b".toList]⟩] ∧
    (∀ r ∈ raw, '\n' ∉ r ∧ '\r' ∉ r) ∧
    Filter.filterEventFile '\t' '_' ca oa 2 (Pipeline.readLines (renderFile false created))
      = .ok ["cues\toutcomes".toList, "#a_a#\ta".toList, "b#\t".toList] ∧
    parseFile 0 1 (unlines ["cues\toutcomes".toList, "#a_a#\ta".toList, "b#\t".toList])
      = some [⟨["#a".toList, "a#".toList], ["a".toList]⟩, ⟨["b#".toList], [[]]⟩] := by
  decide +kernel

/-- … the rules the constructor selects for these arguments; they contain no
    rename, so `RuleImgWf` / `RuleNilSafe` hold (`Pipeline.ruleOk_of_noMap`). -/
example :
    Filter.selectRule (⟨some ["#a".toList, "a#".toList, "b#".toList], none, none⟩ : Filter.SideArgs Char)
      = .ok (.keep ["#a".toList, "a#".toList, "b#".toList]) ∧
    Filter.selectRule (⟨none, some ["b".toList], none⟩ : Filter.SideArgs Char)
      = .ok (.remove ["b".toList]) := ⟨rfl, rfl⟩

end Pyndl.C15
