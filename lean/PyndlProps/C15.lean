/-
  C15 — Every stage's output is valid input for the next stage.

  Composition only: the stage models are those of C09 (creation), C10
  (filter), C07/C11 (writer, reader, counting), C01 (learners), C12
  (activations).  The separators, the header and the token conventions every
  stage relies on are literals extracted from the source on every run
  (`Generated.lean`): a one-sided edit breaks `conventions_agree`.

  partial: the full `pipeline` statement of DESIGN §6 C15 (one theorem from
  corpus text to activations) is not assembled, because the three agents'
  stage models carry their own copies of `splitOn`; what is proved is each
  interface: (1) creation writes clean tokens, (2) keep/remove filters only
  delete tokens and renaming yields non-empty tokens, (3) what the writer
  writes the reader parses and the learner learns as the specification on the
  written events, (4) counts of the written file are the counts of those
  events, (5) activations of the learned weights are the sums the learner used.
  The end-to-end statement is sampled by harness/run_C15.py on the real code.
-/
import PyndlProps.C07
import PyndlProps.C11
import PyndlProofs.Create
import PyndlProofs.Filter
import PyndlProofs.Dict
import PyndlProofs.Activation
import PyndlModel.Generated

namespace Pyndl.C15
open Pyndl Pyndl.Text

/-- writer, reader, filter and creator agree on the column separator (TAB), the
    token separator (underscore) and the header line -/
theorem conventions_agree :
    Generated.writerColSep = Generated.readerColSep ∧ Generated.readerColSep = Generated.filterColSep ∧
    Generated.writerTokSep = Generated.readerTokSep ∧ Generated.readerTokSep = Generated.filterTokSep ∧
    Generated.readerColSep = "\t" ∧ Generated.readerTokSep = "_" ∧
    Generated.createHeader = "cues\toutcomes\n" ∧ Generated.createLineFormat = "{}\t{}\n" :=
  ⟨rfl, rfl, rfl, rfl, rfl, rfl, rfl, rfl⟩

/-- (1) **creation → file**: every token `create_event_file` writes is non-empty
    and free of blank, underscore and TAB (outcome words also of `#`) -/
theorem create_tokens_wf (t : Create.Tables) (o : Create.Options) (hn : ∀ n, o.cue = .ngrams n → 1 ≤ n)
    (rawLines : List (List Char)) :
    ∀ ev ∈ Create.createEvents t o rawLines,
      (∀ tok ∈ ev.cues, tok ≠ [] ∧ ' ' ∉ tok ∧ '_' ∉ tok ∧ '\t' ∉ tok) ∧
      (∀ tok ∈ ev.outcomes, tok ≠ [] ∧ ' ' ∉ tok ∧ '_' ∉ tok ∧ '\t' ∉ tok ∧ '#' ∉ tok) := by
  intro ev hev
  obtain ⟨h1, h2⟩ := Create.createEvents_clean t o hn rawLines ev hev
  constructor
  · intro tok ht
    obtain ⟨hne, hc⟩ := h1 tok ht
    exact ⟨hne, fun h => (hc _ h).1 rfl, fun h => (hc _ h).2.1 rfl, fun h => (hc _ h).2.2 rfl⟩
  · intro tok ht
    obtain ⟨hne, hc⟩ := h2 tok ht
    refine ⟨hne, fun h => (hc _ h).1 rfl, fun h => ?_, fun h => ?_, fun h => ?_⟩
    · exact (Create.isSpecial_false (hc _ h).2).2.1 rfl
    · exact (Create.isSpecial_false (hc _ h).2).2.2 rfl
    · exact (Create.isSpecial_false (hc _ h).2).1 rfl

/-- (2) **filter keeps tokens well formed**: keep / remove / all only delete
    tokens; a rename yields only non-empty tokens that are images of the map -/
theorem filter_preserves_tokens {χ : Type} [DecidableEq χ] (r : Filter.Rule χ) (ts : List (Filter.Str χ)) :
    (∀ S, r = .keep S ∨ r = .remove S ∨ r = .all → ∀ t ∈ r.apply ts, t ∈ ts) ∧
    (∀ m, r = .map m → ∀ t ∈ r.apply ts, t ≠ [] ∧ ∃ s ∈ ts, t = Filter.lookupD m s) := by
  constructor
  · intro S h t ht
    rcases h with rfl | rfl | rfl
    · simp only [Filter.Rule.apply, List.mem_filter] at ht; exact ht.1
    · simp only [Filter.Rule.apply, List.mem_filter] at ht; exact ht.1
    · simpa [Filter.Rule.apply] using ht
  · intro m h t ht
    subst h
    simp only [Filter.Rule.apply, List.mem_filter, List.mem_map, decide_eq_true_eq] at ht
    obtain ⟨⟨s, hs, rfl⟩, hne⟩ := ht
    exact ⟨hne, s, hs, rfl⟩

/-- (3) **writer → reader → learner**: for events with well-formed tokens, the
    pure-Python learner applied to what the reader parses from what the writer
    wrote returns the Rescorla–Wagner weights of exactly those events (an empty
    outcome list being read back as the outcome named by the empty string) -/
theorem writer_reader_learner {R : Type} [CommRing R] (compatible : Bool) (p : DupPolicy)
    (α : Str → R) (β₁ β₂ lam : R) (es es' : List TEvent) (h : ∀ e ∈ es, C07.WfEvent e)
    (hp : applyPolicyAll p (es.map normalise) = some es') :
    ∃ parsed W, parseFile 0 1 (renderFile compatible es) = some parsed ∧
      dictNdl p α β₁ β₂ lam [] parsed = some W ∧
      wdAbs W = rwLearn α β₁ β₂ lam (wdAbs ([] : WDict Str Str R)) es' := by
  obtain ⟨W, hW, habs⟩ := Pyndl.dictNdl_eq_spec p α β₁ β₂ lam [] (es.map normalise) es' hp
  exact ⟨es.map normalise, W, C07.parse_render compatible es h, hW, habs⟩

/-- (4) **writer → counting**: the counts reported for the written file, for
    every number of counting processes, are the counts of the written events -/
theorem writer_count (compatible : Bool) (n : Nat) (hn : 1 ≤ n) (es : List TEvent) (h : ∀ e ∈ es, C07.WfEvent e) :
    ∃ r, cuesOutcomes n (renderFile compatible es) = some r ∧ r.n = ((es.map normalise).length : Int) ∧
      (∀ x, cGet r.cues x = ((es.map normalise).map (fun e => e.cues.count x)).sum) ∧
      (∀ x, cGet r.outcomes x = ((es.map normalise).map (fun e => e.outcomes.count x)).sum) :=
  C11.cues_outcomes_exact n hn (renderFile compatible es) (es.map normalise) (C07.parse_render compatible es h)

/-- (5) **learner ↔ activation**: one further learning step moves each weight by
    `multiplicity · α · β · (target − activation)`, with the activation being
    the very sum `activation()` computes (C12) -/
theorem learner_activation_consistent {R : Type} [CommRing R] {ι κ : Type} [DecidableEq ι] [DecidableEq κ]
    (α : ι → R) (β₁ β₂ lam : R) (W : κ → ι → R) (e : Event ι κ) (o : κ) (c : ι) :
    rwStep α β₁ β₂ lam W e o c - W o c
      = (e.cues.count c : R) * (α c *
          (if o ∈ e.outcomes then β₁ * (lam - sumOver (W o) e.cues)
           else β₂ * (0 - sumOver (W o) e.cues))) :=
  Pyndl.step_delta α β₁ β₂ lam W e o c

end Pyndl.C15
