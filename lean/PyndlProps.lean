import PyndlProps.C01
import PyndlProps.C13
