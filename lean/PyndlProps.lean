import PyndlProps.C01
import PyndlProps.C13
import PyndlProps.C02
import PyndlProps.C06
import PyndlProps.C04
import PyndlProps.C09
