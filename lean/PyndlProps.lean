import PyndlProps.C01
