import PyndlProofs.RW
import PyndlProofs.Dict
import PyndlProofs.Kernel
import PyndlProofs.Schedule
import PyndlProofs.Laws
import PyndlProofs.Queue
import PyndlProofs.Partition
import PyndlProofs.SeqSchedule
