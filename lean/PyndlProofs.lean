import PyndlProofs.RW
import PyndlProofs.Dict
import PyndlProofs.Kernel
import PyndlProofs.Schedule
