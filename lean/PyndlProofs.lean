import PyndlProofs.RW
import PyndlProofs.Dict
