import PyndlModel
def main : IO Unit := IO.println "driver"
