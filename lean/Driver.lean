/-
  Driver — one JSON object per line in, one per line out.
  Imports the executable model only (no Mathlib), so it links as a native
  executable.  Every op is a thin JSON wrapper around a model definition.
-/
import Lean.Data.Json
import PyndlModel
import PyndlDriver.Ops

open Lean Pyndl

partial def loop (h : IO.FS.Stream) (out : IO.FS.Stream) : IO Unit := do
  let line ← h.getLine
  if line.isEmpty then return ()
  let reply : Json :=
    match Json.parse line with
    | .error e => Json.mkObj [("fatal", Json.str s!"json: {e}")]
    | .ok j =>
      match PyndlDriver.handle j with
      | .ok r => r
      | .error e => Json.mkObj [("fatal", Json.str e)]
  let idv := match Json.parse line with
    | .ok j => (j.getObjVal? "id").toOption.getD Json.null
    | .error _ => Json.null
  out.putStrLn (reply.setObjVal! "id" idv).compress
  out.flush
  loop h out

def main : IO Unit := do
  loop (← IO.getStdin) (← IO.getStdout)
