/- JSON ops evaluating the C20 model (PyndlModel/Band.lean) over `Rat`. -/
import PyndlDriver.Json
import PyndlModel.Band

open Lean

namespace PyndlDriver
open Pyndl Pyndl.Band

def ratStr (q : Rat) : String := s!"{q.num}/{q.den}"

def asRatJ (j : Json) : M Rat := do
  let s ← asStr j
  parseRat s

def asWordFreq (j : Json) : M (String × Rat) := do
  let a ← asArr j
  match a.toList with
  | [w, f] => pure (← asStr w, ← asRatJ f)
  | _ => .error "population entry must be [word, freq]"

/-- op bandsample: `population` = the items of the argument dict **in the order
    the patched shuffle leaves them** (the harness' shuffle shim sorts by a
    rank table, so filtering commutes with it), `cutoff`, `sample_size`. -/
def opBandsample (j : Json) : M Json := do
  let pop ← (← getArr j "population").toList.mapM asWordFreq
  let cutoff ← parseRat (← getStr j "cutoff")
  let n ← asInt (← j.getObjVal? "sample_size")
  let shuffled := filterCutoff cutoff pop
  match bandsampleShuffled shuffled n with
  | .ok sample =>
    let d := toDict sample
    pure (Json.mkObj [
      ("sample", Json.arr (d.map (fun (w, f) => Json.arr #[Json.str w, Json.str (ratStr f)])).toArray),
      ("picks", jNat sample.length),
      ("filtered", jNat shuffled.length)])
  | .zeroDivision => pure (Json.mkObj [("err", Json.str "Raised:Other"), ("cls", Json.str "ZeroDivisionError")])
  | .indexError => pure (Json.mkObj [("err", Json.str "Raised:Other"), ("cls", Json.str "IndexError")])
  | .diverged => pure (Json.mkObj [("err", Json.str "Timeout")])

def asItem (j : Json) : M (Str × Int) := do
  let a ← asArr j
  match a.toList with
  | [k, n] => pure ((← asStr k).toList, ← asInt n)
  | _ => .error "counter item must be [key, count]"

/-- strings travel back as arrays of code points: the harness splits the reply
    stream with `str.splitlines`, which also breaks at U+0085 / U+2028 / U+2029
    (emitted unescaped by `Json.compress`) -/
def jCodes (s : Str) : Json := jNats (s.map Char.toNat)

def jItems (c : List (Str × Int)) : Json :=
  Json.arr (c.map (fun (k, n) => Json.arr #[jCodes k, Json.num (JsonNumber.fromInt n)])).toArray

def jLoaded : Option (List (Str × Int)) → List (String × Json)
  | some c => [("loaded", jItems c)]
  | none => [("err", Json.str "Raised:Value")]

/-- op counter_io: `save_counter` then `load_counter` on the items of a Counter
    (insertion order); optional `header`. -/
def opCounterIo (j : Json) : M Json := do
  let items ← (← getArr j "items").toList.mapM asItem
  let header := match j.getObjVal? "header" with
    | .ok (.str s) => s
    | _ => Generated.counterHeader
  let text := saveCounter header.toList items
  pure (Json.mkObj ([("text", jCodes text)] ++ jLoaded (loadCounter text)))

/-- op counter_load: `load_counter` on a given file text -/
def opCounterLoad (j : Json) : M Json := do
  let text ← getStr j "text"
  pure (Json.mkObj (jLoaded (loadCounter text.toList)))

def handleBand? (op : String) (j : Json) : Option (M Json) :=
  match op with
  | "bandsample" => some (opBandsample j)
  | "counter_io" => some (opCounterIo j)
  | "counter_load" => some (opCounterLoad j)
  | _ => none

end PyndlDriver
