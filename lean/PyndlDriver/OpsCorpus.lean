/- JSON ops evaluating the corpus model (`PyndlModel/Corpus.lean`) for C19 -/
import PyndlDriver.Json
import PyndlModel.Corpus

open Lean

namespace PyndlDriver
open Pyndl Pyndl.Corpus

def ofStr (s : String) : Str := s.toList
def toStr (s : Str) : String := String.ofList s

def asOptStr : Json → M (Option Str)
  | .null => .ok none
  | .str s => .ok (some (ofStr s))
  | _ => .error "expected string or null"

def asTimeTag (j : Json) : M TimeTag := do
  match (← asArr j).toList with
  | [i, v] => pure ⟨ofStr (← asStr i), ofStr (← asStr v)⟩
  | _ => .error "time tag must be [id, value]"

/-- {"w": [text|null …], "t": [[id, value] …]} -/
def asSentence (j : Json) : M Sentence := do
  let ws ← (← getArr j "w").toList.mapM asOptStr
  let ts ← (← getArr j "t").toList.mapM asTimeTag
  pure ⟨ws, ts⟩

def asDocument (j : Json) : M Document := do
  (← asArr j).toList.mapM asSentence

/-- "dangling" | "notgzip" | "dir" | {"doc": [sentence …]} -/
def asEntry : Json → M Entry
  | .str "dangling" => .ok .dangling
  | .str "notgzip" => .ok .notGzip
  | .str "dir" => .ok .dir
  | j => do
    let d ← j.getObjVal? "doc"
    pure (.doc (← asDocument d))

def asTreeItem (j : Json) : M (Str × Entry) := do
  match (← asArr j).toList with
  | [p, e] => pure (ofStr (← asStr p), ← asEntry e)
  | _ => .error "tree item must be [path, entry]"

def jOptStr : Option String → Json
  | none => Json.null
  | some s => Json.str s

/-- break duration: "break" as a rational string (default 5) -/
def getBreak (j : Json) : M Rat := do
  match j.getObjVal? "break" with
  | .ok (.str s) => parseRat s
  | _ => pure specBreak

/-- optional field "arith": "float" (default — IEEE doubles, what the code
    computes) or "rat" (exact times, the specification side of C19) -/
def wantsRat (j : Json) : Bool :=
  match j.getObjVal? "arith" with
  | .ok (.str "rat") => true
  | _ => false

def corpusOutcomeJson (o : Outcome) : Json :=
  Json.mkObj [
    ("raised", jOptStr (o.raised.map errName)),
    ("corpus", jOptStr (o.corpus.map (fun ps => toStr ps.flatten))),
    ("not_found_name", jOptStr (o.notFound.map (fun p => toStr p.1))),
    ("not_found", jOptStr (o.notFound.map (fun p => toStr p.2.flatten)))]

/-- the two decidable predicates of `PyndlModel/Corpus.lean` evaluated on one
    document: `times_exact` = `TimesExact fps brk d` (the document is in the
    class for which the rounding argument is made), `compare_agrees` =
    `CodeCompareAgrees fps brk d` (the hypothesis of the exact-time theorems of
    C19: doubles and rationals order every comparable pair of times alike),
    `lit_domain` = every time value of the document is in `LitDomain` (the
    model's `float()` is the code's; implied by `times_exact`) -/
def docFlags (brk : Rat) (d : Document) : List (String × Json) :=
  [("times_exact", Json.bool (decide (TimesExact specFps brk d))),
   ("lit_domain", Json.bool ((allTags d).all (fun t => LitDomain t.value))),
   ("compare_agrees", Json.bool (decide (CodeCompareAgrees specFps brk d)))]

/-- add fields to a JSON object -/
def withFields (j : Json) (fs : List (String × Json)) : Json :=
  fs.foldl (fun acc kv => acc.setObjVal! kv.1 kv.2) j

/-- per document among the `.gz` files (sorted order, joined path): its flags -/
def treeFlags (directory : Str) (tree : List (Str × Entry)) : List (String × Json) :=
  let docs := (gzFiles directory tree).filterMap (fun p =>
    match p.2 with
    | .doc d => some (p.1, d)
    | _ => none)
  [("docs", Json.arr (docs.map (fun pd =>
      Json.mkObj (("path", Json.str (toStr pd.1)) :: docFlags specBreak pd.2))).toArray),
   ("all_times_exact", Json.bool (docs.all (fun pd => decide (TimesExact specFps specBreak pd.2)))),
   ("all_compare_agrees", Json.bool (docs.all (fun pd => decide (CodeCompareAgrees specFps specBreak pd.2))))]

/-- op corpus_create: the model of `pyndl.corpus.create_corpus_from_gz`.
    Besides the outcome: `docs` = for every document among the `.gz` files (in
    sorted order) `{path, times_exact, compare_agrees}`, and the conjunctions
    `all_times_exact`, `all_compare_agrees` (the hypothesis `hC` of
    `C19.corpus_eq` / `not_found_listed` / `corpus_error_prefix` for this
    request). -/
def opCorpusCreate (j : Json) : M Json := do
  let tree ← (← getArr j "tree").toList.mapM asTreeItem
  let directory := ofStr (← getStr j "directory")
  let outfile := ofStr (← getStr j "outfile")
  let n ← getNat j "n_threads"
  let existing := (← asStrList (← j.getObjVal? "existing")).map ofStr
  let w : World := ⟨getBoolD j "dir_exists" true, existing⟩
  let flags := treeFlags directory tree
  if wantsRat j then
    pure (withFields (corpusOutcomeJson (createCorpus specCfg n directory outfile w tree)) flags)
  else
    pure (withFields (corpusOutcomeJson (createCorpus specCfgF n directory outfile w tree)) flags)

/-- op corpus_read_clean: `list(read_clean_gzfile(path, break_duration=…))`.
    Besides `lines` / `err`: `times_exact` and `compare_agrees` for the document
    and the break duration of the request (the hypothesis `hC` of
    `C19.clean_document_code`). -/
def opCorpusReadClean (j : Json) : M Json := do
  let d ← asDocument (← j.getObjVal? "doc")
  let brk ← getBreak j
  let r := if wantsRat j then readClean (cfgQ specFps brk specMarker) d
           else readClean (cfgF specFps brk specMarker) d
  match r with
  | .error e => pure (withFields (jErr e) (docFlags brk d))
  | .ok ls => pure (withFields (Json.mkObj [("lines", jStrs (ls.map toStr))]) (docFlags brk d))

/-- op corpus_parse_time: `_parse_time_string` as an exact rational -/
def opCorpusParseTime (j : Json) : M Json := do
  let s ← getStr j "value"
  match parseTime (ratArith specFps specBreak) (ofStr s) with
  | .error e => pure (jErr e)
  | .ok q => pure (Json.mkObj [("time", Json.str s!"{q.num}/{q.den}")])

def handleCorpus? (op : String) (j : Json) : Option (M Json) :=
  match op with
  | "corpus_create" => some (opCorpusCreate j)
  | "corpus_read_clean" => some (opCorpusReadClean j)
  | "corpus_parse_time" => some (opCorpusParseTime j)
  | _ => none

end PyndlDriver
