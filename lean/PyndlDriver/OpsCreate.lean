/- JSON ops for the model of `create_event_file` (C09) -/
import PyndlDriver.Json
import PyndlModel.Create

open Lean

namespace PyndlDriver
open Pyndl Pyndl.Create

private def oneChar (s : String) : M Char :=
  match s.toList with
  | [c] => .ok c
  | _ => .error s!"expected a one-character string, got {s.quote}"

private def getAllowed (j : Json) : M Allowed := do
  let a ← j.getObjVal? "allowed"
  match ← getStr a "kind" with
  | "all" => pure .all
  | "expr" => pure (.expr (← getStr a "expr").toList)
  | "table" => do
    let rs ← getArr a "ranges"
    let rs ← rs.toList.mapM fun r => do
      match (← asArr r).toList with
      | [lo, hi] => pure ((← oneChar (← asStr lo)), (← oneChar (← asStr hi)))
      | _ => throw "range must be [lo, hi]"
    pure (.table rs)
  | k => throw s!"bad allowed kind {k}"

private def getEventStructure (j : Json) : M EventStructure := do
  match ← getStr j "event" with
  | "consecutive_words" =>
    match (← getArr j "options").toList with
    | [n] => pure (.consecutiveWords (← asInt n))
    | _ => throw "consecutive_words needs (number_of_words,)"
  | "word_to_word" =>
    match (← getArr j "options").toList with
    | [b, a] => pure (.wordToWord (← asNat b) (← asNat a))
    | _ => throw "word_to_word needs (before, after)"
  | "line" => pure .line
  | e => throw s!"bad event structure {e}"

private def getCue (j : Json) : M CueStructure := do
  match ← getStr j "cue" with
  | "bigrams_to_word" => pure (.ngrams 2)
  | "trigrams_to_word" => pure (.ngrams 3)
  | "word_to_word" => pure .wordToWord
  | c => throw s!"bad cue structure {c}"

private def getTables (j : Json) : M Tables := do
  let ws := (← getStr j "ws").toList
  let lo ← getArr j "lower"
  let lo ← lo.toList.mapM fun p => do
    match (← asArr p).toList with
    | [c, l] => pure ((← oneChar (← asStr c)), (← asStr l).toList)
    | _ => throw "lower entry must be [char, string]"
  pure ⟨ws, lo⟩

private def evJson (e : Ev Word) : Json :=
  Json.arr #[jStrs (e.cues.map String.ofList), jStrs (e.outcomes.map String.ofList)]

private def getRanges (j : Json) (k : String) : M (List (Char × Char)) :=
  match getOpt j k with
  | none => pure []
  | some v => do
    let rs ← asArr v
    rs.toList.mapM fun r => do
      match (← asArr r).toList with
      | [lo, hi] => pure ((← oneChar (← asStr lo)), (← oneChar (← asStr hi)))
      | _ => throw "range must be [lo, hi]"

/-- op create_events: the data lines `create_event_file` writes, or the
    exception class and what the call leaves behind.

    Optional inputs (absent = the behaviour before they existed):
      "exists": true        the event file exists already
      "unreadable": true    the corpus is not valid UTF-8: the line iterator
                            yields "lines" and then raises UnicodeDecodeError
      "raises": [[lo,hi]…]  the `allowed_symbols` callable (kind "table") raises
                            on these characters
    Replies:
      {"events": …}                                            normal return
      {"err":"Raised:IO","file_unchanged":b}                   event file exists
      {"err":"Raised:IO"}                                      corpus missing
      {"err":"Raised:Other","left":null}                       re.error (bad set expression), nothing created
      {"err":"Raised:Value","left":[events]}                   UnicodeDecodeError; header + "left" stay behind
      {"err":"Raised:Callable","left":[events]}                the callable raised; header + "left" stay behind -/
def opCreateEvents (j : Json) : M Json := do
  let t ← getTables j
  let ctx ← match ← getStr j "context" with
    | "document" => pure ContextStructure.document
    | "line" => pure ContextStructure.line
    | c => throw s!"bad context structure {c}"
  let o : Create.Options := {
    allowed := ← getAllowed j
    context := ctx
    event := ← getEventStructure j
    cue := ← getCue j
    lowerCase := getBoolD j "lower_case" false
    removeDuplicates := getBoolD j "remove_duplicates" true }
  let lines := (← asStrList (← j.getObjVal? "lines")).map String.toList
  let raiseRanges ← getRanges j "raises"
  let unreadable := getBoolD j "unreadable" false
  let fs0 : FS := fun p =>
    if p == "corpus" then some (if unreadable then .badText lines else .corpus lines)
    else if p == "events" && getBoolD j "exists" false then some (.other 0)
    else none
  let left (fs1 : FS) : Json := match fs1 "events" with
    | some (.events es) => Json.arr (es.map evJson).toArray
    | _ => Json.null
  match createEventFileX (inRanges raiseRanges) t.ops o "corpus" "events" fs0 with
  | (.error .eventFileExists, fs1) =>
    let same := match fs1 "events", fs1 "corpus" with
      | some (.other 0), some (.corpus _) => true
      | some (.other 0), some (.badText _) => true
      | _, _ => false
    pure (Json.mkObj [("err", Json.str "Raised:IO"), ("file_unchanged", Json.bool same)])
  | (.error .corpusMissing, _) => pure (Json.mkObj [("err", Json.str "Raised:IO")])
  | (.error .badPattern, fs1) => pure (Json.mkObj [("err", Json.str "Raised:Other"), ("left", left fs1)])
  | (.error .corpusNotText, fs1) => pure (Json.mkObj [("err", Json.str "Raised:Value"), ("left", left fs1)])
  | (.error .callableRaised, fs1) => pure (Json.mkObj [("err", Json.str "Raised:Callable"), ("left", left fs1)])
  | (.ok (), fs1) =>
    match fs1 "events" with
    | some (.events es) => pure (Json.mkObj [("events", Json.arr (es.map evJson).toArray)])
    | _ => throw "model wrote no event file"

def handleCreate? (op : String) (j : Json) : Option (M Json) :=
  match op with
  | "create_events" => some (opCreateEvents j)
  | _ => none

end PyndlDriver
