/-
  Driver ops of the text model (C07, C11).  Every string travels as an array
  of Unicode code points (the reply side of the line protocol is cut with
  Python's `splitlines`, which would break on a raw U+2028/U+0085).

  Python's `int()` of the frequency column: the ops run the instance
  `Text.pyInt`; an optional input field `"ints": [[cps, int | null], …]`
  (Python-supplied `int(s)` per third-column string, `null` = `ValueError`)
  takes precedence (`Text.intOfTable`) — needed only for non-ASCII digits.
  `step = 0` and `n_jobs = 0` reply `{"err": "Raised:Value"}`.
-/
import PyndlDriver.Json
import PyndlModel.Text

open Lean

namespace PyndlDriver
open Pyndl Pyndl.Text

def asCps (j : Json) : M Str := do
  let a ← asNatList j
  pure (a.map Char.ofNat)

def jCps (s : Str) : Json := jNats (s.map Char.toNat)
def jCpsList (xs : List Str) : Json := Json.arr (xs.map jCps).toArray

def asCpsList (j : Json) : M (List Str) := do
  let a ← asArr j
  a.toList.mapM asCps

def jTEvent (e : TEvent) : Json := Json.arr #[jCpsList e.cues, jCpsList e.outcomes]
def jTEvents (es : List TEvent) : Json := Json.arr (es.map jTEvent).toArray

def asTEvent (container : String) (j : Json) : M TEvent := do
  let a ← asArr j
  match a.toList with
  | [c, o] =>
    if container == "strings" then
      pure (eventOfStrings (← asCps c) (← asCps o))
    else
      pure ⟨← asCpsList c, ← asCpsList o⟩
  | _ => .error "event must be [cues, outcomes]"

/-- the optional Python-supplied `int` table -/
def getIntOf (j : Json) : M (Str → Option Int) :=
  match getOpt j "ints" with
  | none => pure pyInt
  | some t => do
    let a ← asArr t
    let tbl ← a.toList.mapM (fun p => do
      let q ← asArr p
      match q.toList with
      | [x, v] =>
        let vv : Option Int ← (if v.isNull then pure none else do pure (some (← asInt v)))
        pure ((← asCps x), vv)
      | _ => .error "ints entry must be [cps, int | null]")
    pure (intOfTable tbl)

def valueErr : Json := Json.mkObj [("err", Json.str "Raised:Value")]

def jCounter (c : Counter) : Json :=
  Json.arr (c.map (fun kn => Json.arr #[jCps kn.1, jNat kn.2])).toArray

def jCO : Option CO → Json
  | none => valueErr
  | some r => Json.mkObj [("n_events", Json.num (JsonNumber.fromInt r.n)),
                          ("cues", jCounter r.cues), ("outcomes", jCounter r.outcomes)]

/-- op text_roundtrip: `events_to_file` then `list(events_from_file)` -/
def opTextRoundtrip (j : Json) : M Json := do
  let container := (getStr j "container").toOption.getD "lists"
  let compatible := getBoolD j "compatible" false
  let es ← (← getArr j "events").toList.mapM (asTEvent container)
  -- `delimiter=` (code points) / `columns=` (list of code point lists) when the call passes them
  let delim ← match getOpt j "delimiter" with
    | some d => do pure (some (← asCps d))
    | none => pure none
  let columns ← match getOpt j "columns" with
    | some c => do pure (some (← asCpsList c))
    | none => pure none
  let content := match delim, columns with
    | none, none => renderFile compatible es
    | _, _ => renderFileWith (delim.getD [TAB]) (columns.getD defaultColumns) compatible es
  let start := getNatD j "start" 0
  let step := getNatD j "step" 1
  let intOf ← getIntOf j
  let parsed := match parseFileWith intOf start step content with
    | some r => Json.mkObj [("events", jTEvents r)]
    | none => valueErr
  let parsed := match getNat j "count_jobs" with
    | .ok n => parsed.setObjVal! "count" (jCO (cuesOutcomesWith intOf n content))
    | .error _ => parsed
  pure (parsed.setObjVal! "content" (jCps content))

def getContent (j : Json) : M Str := do
  match j.getObjVal? "content" with
  | .ok v => asCps v
  | .error _ => .error "missing content"

/-- op text_parse: `list(events_from_file(path, start=, step=))` -/
def opTextParse (j : Json) : M Json := do
  let content ← getContent j
  let start := getNatD j "start" 0
  let step := getNatD j "step" 1
  let intOf ← getIntOf j
  let parsed := match parseFileWith intOf start step content with
    | some r => Json.mkObj [("events", jTEvents r)]
    | none => valueErr
  match getNat j "count_jobs" with
  | .ok n => pure ((parsed.setObjVal! "count" (jCO (cuesOutcomesWith intOf n content))).setObjVal! "direct"
                    (jCO (directCuesOutcomesWith intOf content)))
  | .error _ => pure parsed

def jWS : Option WS → Json
  | none => Json.mkObj [("err", Json.str "missing_lower")]
  | some r => Json.mkObj [("words", jCounter r.words), ("symbols", jCounter r.symbols)]

/-- op text_words: `words_symbols(path, n_jobs=, lower_case=)` on the
    Python-supplied tables `lines[i] = [w.strip() for w in line_i.split()]`,
    `lower = [[x, x.lower()], …]` (null when `lower_case=False`) -/
def opTextWords (j : Json) : M Json := do
  let lines ← (← getArr j "lines").toList.mapM asCpsList
  let n ← getNat j "n_jobs"
  let lower ← match getOpt j "lower" with
    | none => pure none
    | some t => do
      let a ← asArr t
      let tbl ← a.toList.mapM (fun p => do
        let q ← asArr p
        match q.toList with
        | [x, y] => pure ((← asCps x), (← asCps y))
        | _ => .error "lower table entry must be [x, lower x]")
      pure (some tbl)
  let nLines := match getOpt j "content" with
    | some c => match asCps c with
      | .ok s => jNat (fileLines s).length
      | .error _ => Json.null
    | none => Json.null
  let strided := match wordsSymbolsE lower n lines with
    | .ok r => jWS (some r)
    | .error .value => valueErr
    | .error .missingLower => jWS none
  pure (Json.mkObj [("strided", strided),
                    ("direct", jWS (directWordsSymbols lower lines)),
                    ("n_lines", nLines)])

def handleText? (op : String) (j : Json) : Option (M Json) :=
  match op with
  | "text_roundtrip" => some (opTextRoundtrip j)
  | "text_parse" => some (opTextParse j)
  | "text_words" => some (opTextWords j)
  | _ => none

end PyndlDriver
