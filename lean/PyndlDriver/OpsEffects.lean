/-
  Driver op for C17 (PyndlModel/Effects.lean: `bracketC`, `opsBody`,
  `generatorCallC` on worlds with contents).

  op "effects_call": the file-system effect of ONE learner call, per the model.
    request: {"initial": [[path components, hash | null (directory)], …]   the listing before the call
              "tmp_root": path components        the directory the call's TemporaryDirectory()s are made in
                                                 (temporary_directory given, or the default TMPDIR)
              "shape": "path" | "generator"      events given as a path / as a generator (spooled first)
              "dirs": [{"name": s, "ops": [["write", name] | ["remove", name], …]}, …]
                                                 the temporary directories the call was OBSERVED to create
                                                 directly below tmp_root, in creation order, each with the
                                                 entries it was observed to create / remove inside
                                                 (the model's bodies are abstract: any op list)
              "exit": "returned" | "raised", "spool_exit": "returned" | "raised" (generator; default returned)}
    reply:   {"final": [[path components, hash | null], …] (sorted by path), "exit": "returned" | "raised"}
          or {"unmodelled": reason}              (more temporary directories than the call shape has brackets)
    model:   no directory        → `opsBody [] exit`                        (nothing happens in the world)
             path, one directory → `bracketC d (opsBody ops exit)`
             generator, one      → `bracketC s (opsBody spoolOps exit)`     (spooling, or the learner before its
                                                                             own bracket, raised)
             generator, two      → `generatorCallC s d spoolOps spoolExit ops exit`
    Content of a file = the bytes of its hash string (the listing identifies content by sha256); files written
    inside a temporary directory have unknown content (empty): they never survive the bracket.
-/
import PyndlDriver.Json
import PyndlModel.Effects

open Lean

namespace PyndlDriver
open Pyndl.Effects

private def hashBytes (s : String) : List UInt8 := s.toList.map (fun c => UInt8.ofNat c.toNat)
private def bytesHash (b : List UInt8) : String := String.ofList (b.map (fun x => Char.ofNat x.toNat))

private def asEntry (j : Json) : M (Path × Node) := do
  match (← asArr j).toList with
  | [p, .null] => pure (← asStrList p, Node.dir)
  | [p, .str h] => pure (← asStrList p, Node.file (hashBytes h))
  | _ => .error "listing entry must be [path, hash | null]"

private def asFsOp (j : Json) : M Op := do
  match (← asArr j).toList with
  | [.str "write", .str n] => pure (Op.write n [])
  | [.str "remove", .str n] => pure (Op.remove n)
  | _ => .error "op must be [\"write\" | \"remove\", name]"

private def getExit (j : Json) (k : String) (d : Exit) : M Exit :=
  match j.getObjVal? k with
  | .ok (.str "returned") => pure .returned
  | .ok (.str "raised") => pure .raised
  | .ok _ => .error s!"bad exit {k}"
  | .error _ => pure d

/-- the distinct paths of a world with what `FS.get` finds there, sorted -/
private def fsListing (fs : FS) : List (Path × Node) :=
  let paths := fs.foldl (fun acc x => if acc.contains x.1 then acc else acc ++ [x.1]) ([] : List Path)
  let l := paths.filterMap (fun p => (fs.get p).map (fun n => (p, n)))
  (l.toArray.qsort (fun a b => a.1 < b.1)).toList

private def jListing (l : List (Path × Node)) : Json :=
  Json.arr (l.map (fun (p, n) => Json.arr #[jStrs p, match n with
    | .dir => Json.null
    | .file b => Json.str (bytesHash b)])).toArray

def opEffectsCall (j : Json) : M Json := do
  let init ← (← getArr j "initial").toList.mapM asEntry
  let root ← asStrList (← j.getObjVal? "tmp_root")
  let shape ← getStr j "shape"
  let e ← getExit j "exit" .returned
  let se ← getExit j "spool_exit" .returned
  let dirs ← (← getArr j "dirs").toList.mapM (fun d => do
    let name ← getStr d "name"
    let ops ← (← getArr d "ops").toList.mapM asFsOp
    pure (root ++ [name], ops))
  let fs : FS := init
  let res : Option (FS × Exit) := match shape, dirs with
    | _, [] => some (opsBody [] e root fs)
    | "path", [(d, ops)] => some (bracketC d (opsBody ops e) fs)
    | "generator", [(s, sops)] => some (bracketC s (opsBody sops e) fs)
    | "generator", [(s, sops), (d, ops)] => some (generatorCallC s d sops se ops e fs)
    | _, _ => none
  match res with
  | none => pure (Json.mkObj [("unmodelled", Json.str s!"{dirs.length} temporary directories for call shape {shape}")])
  | some (fs', ex) =>
    pure (Json.mkObj [("final", jListing (fsListing fs')),
                      ("exit", Json.str (match ex with | .returned => "returned" | .raised => "raised"))])

def handleEffects? (op : String) (j : Json) : Option (M Json) :=
  match op with
  | "effects_call" => some (opEffectsCall j)
  | _ => none

end PyndlDriver
