/-
  Driver ops for C16 (run metadata): thin JSON wrappers around PyndlModel/Attrs.lean.

  op "attrs_chain":
    {"hostname": s, "username": s,
     "ops": [ {"kind": "call", "learner": "ndl"|"dict_ndl"|"wh_r2r"|"wh_b2r"|"wh_r2b"|"dict_wh",
               "path": s | null, "number_events": s, "alpha_scalar": bool, "alpha_repr": s,
               "betas": s, "lambda": s, "method": s},
              {"kind": "save_load"} ]}
  reply: {"steps": [ per op: {"<key>": {"stored": s, "entries": [s,…]}, …} ]}
    — the model's attrs after that op; `entries` = split at ' | ' with the
    model's own `splitBar`, each entry `rstrip`ped.
  op "attrs_split": {"s": s} → {"entries": [...], "raw": [...]}  (the split alone)
-/
import PyndlDriver.Json

open Lean

namespace PyndlDriver
open Pyndl Pyndl.Attrs

def sL (s : String) : Str := s.toList
def lS (l : Str) : String := String.ofList l

def getLearner (j : Json) : M Learner :=
  match j.getObjVal? "learner" with
  | .ok (.str "ndl") => .ok .ndl
  | .ok (.str "dict_ndl") => .ok .dictNdl
  | .ok (.str "wh_r2r") => .ok .whR2R
  | .ok (.str "wh_b2r") => .ok .whB2R
  | .ok (.str "wh_r2b") => .ok .whR2B
  | .ok (.str "dict_wh") => .ok .dictWh
  | _ => .error "bad learner"

def getStrD (j : Json) (k : String) (d : String) : String :=
  match getStr j k with | .ok s => s | .error _ => d

def attrsJson (a : Attrs) : Json :=
  Json.mkObj (a.map (fun kv =>
    (keyName kv.1, Json.mkObj [("stored", Json.str (lS kv.2)),
                               ("entries", jStrs ((entries kv.2).map lS))])))

def opAttrsChain (j : Json) : M Json := do
  let host ← getStr j "hostname"
  let user ← getStr j "username"
  -- date, times and versions do not enter the width and are compared by
  -- entry count only: opaque placeholders
  let env : Env := { date := sL "D", cpuTime := sL "C", wallTime := sL "W", hostname := sL host,
                     username := sL user, pyndl := sL "V", numpy := sL "V", pandas := sL "V",
                     xarray := sL "V", cython := sL "V" }
  let opsJ ← getArr j "ops"
  let ops ← opsJ.toList.mapM (fun (o : Json) => do
    let kind ← getStr o "kind"
    match kind with
    | "save_load" => pure Op.saveLoad
    | "call" =>
      let l ← getLearner o
      let path : Option Str := match o.getObjVal? "path" with
        | .ok (.str p) => some (sL p)
        | _ => none
      let inp : CallInput := {
        path := path
        numberEvents := sL (← getStr o "number_events")
        alphaScalar := getBoolD o "alpha_scalar" true
        alphaRepr := sL (getStrD o "alpha_repr" "")
        betas := sL (getStrD o "betas" "")
        lambda := sL (← getStr o "lambda")
        method := sL (getStrD o "method" "None")
        env := env }
      pure (Op.call (mkCall l inp))
    | _ => throw s!"bad op kind {kind}")
  -- the attrs after every prefix of the op list
  let prefixes := (List.range ops.length).map (fun n => ops.take (n + 1))
  let steps := prefixes.map (fun p => match runOps p with
    | none => Json.null
    | some a => attrsJson a)
  pure (Json.mkObj [("steps", Json.arr steps.toArray)])

def opAttrsSplit (j : Json) : M Json := do
  let s ← getStr j "s"
  pure (Json.mkObj [("raw", jStrs ((splitBar (sL s)).map lS)),
                    ("entries", jStrs ((entries (sL s)).map lS))])

def handleAttrs? (op : String) (j : Json) : Option (M Json) :=
  match op with
  | "attrs_chain" => some (opAttrsChain j)
  | "attrs_split" => some (opAttrsSplit j)
  | _ => none

end PyndlDriver
