/-
  Driver ops for C16 (run metadata): thin JSON wrappers around PyndlModel/Attrs.lean.

  op "attrs_chain":
    {"hostname": s, "username": s,
     "ops": [ {"kind": "call", "learner": "ndl"|"dict_ndl"|"wh_r2r"|"wh_b2r"|"wh_r2b"|"dict_wh",
               "path": s | null, "number_events": s, "alpha_scalar": bool, "alpha_repr": s,
               "betas": s, "lambda": s, "method": s},
              {"kind": "save_load"} ]}
  reply: {"steps": [ per op: {"<key>": {"stored": s, "entries": [s,…]}, …} ]}
    — the model's attrs after that op; `entries` = split at ' | ' with the
    model's own `splitBar`, each entry `rstrip`ped.
  op "ndl_chain_meta": a chain of `ndl.ndl` calls WITH the learner model: `ndlChainMetaD`
    (= `Pyndl.ndlChainMeta`, PyndlProofs/AttrsNdl.lean, the subject of C16
    `ndl_chain_reports`; equality: PyndlProofs/DriverBridge.lean `ndlChainMetaD_eq`).
    `number_events` is NOT supplied: it is the count `ndlCall` returns on the events.
    {"hostname": s, "username": s,
     "runs": [ {"path": s, "events": [[cues, outcomes], …]  (what the file MEANS, frequencies expanded),
                "policy": "error"|"dedup"|"keep", "method": "threading"|"openmp", "per_job": n, "per_file": n,
                "alpha": q, "beta1": q, "beta2": q, "lambda": q        (the numbers the learner gets, "num/den"),
                "alpha_repr": s, "betas": s, "lambda_repr": s}         (their Python str() forms) ]}
    reply: {"steps": [ per run: the attrs after the chain up to and including it, as in
                       attrs_chain, plus "n_events": the count ndlCall returned;
                       or {"err": "Raised:…"} from the first failing call on ]}
-/
import PyndlDriver.Json
import PyndlDriver.ModelCopies
import PyndlModel.Generated

open Lean

namespace PyndlDriver
open Pyndl Pyndl.Attrs

def sL (s : String) : Str := s.toList
def lS (l : Str) : String := String.ofList l

def getLearner (j : Json) : M Learner :=
  match j.getObjVal? "learner" with
  | .ok (.str "ndl") => .ok .ndl
  | .ok (.str "dict_ndl") => .ok .dictNdl
  | .ok (.str "wh_r2r") => .ok .whR2R
  | .ok (.str "wh_b2r") => .ok .whB2R
  | .ok (.str "wh_r2b") => .ok .whR2B
  | .ok (.str "dict_wh") => .ok .dictWh
  | _ => .error "bad learner"

def getStrD (j : Json) (k : String) (d : String) : String :=
  match getStr j k with | .ok s => s | .error _ => d

def attrsJson (a : Attrs) : Json :=
  Json.mkObj (a.map (fun kv =>
    (keyName kv.1, Json.mkObj [("stored", Json.str (lS kv.2)),
                               ("entries", jStrs ((entries kv.2).map lS))])))

def opAttrsChain (j : Json) : M Json := do
  let host ← getStr j "hostname"
  let user ← getStr j "username"
  -- date, times and versions do not enter the width and are compared by
  -- entry count only: opaque placeholders
  let env : Env := { date := sL "D", cpuTime := sL "C", wallTime := sL "W", hostname := sL host,
                     username := sL user, pyndl := sL "V", numpy := sL "V", pandas := sL "V",
                     xarray := sL "V", cython := sL "V" }
  let opsJ ← getArr j "ops"
  let ops ← opsJ.toList.mapM (fun (o : Json) => do
    let kind ← getStr o "kind"
    match kind with
    | "save_load" => pure Op.saveLoad
    | "call" =>
      let l ← getLearner o
      let path : Option Str := match o.getObjVal? "path" with
        | .ok (.str p) => some (sL p)
        | _ => none
      let inp : CallInput := {
        path := path
        numberEvents := sL (← getStr o "number_events")
        alphaScalar := getBoolD o "alpha_scalar" true
        alphaRepr := sL (getStrD o "alpha_repr" "")
        betas := sL (getStrD o "betas" "")
        lambda := sL (← getStr o "lambda")
        method := sL (getStrD o "method" "None")
        env := env }
      pure (Op.call (mkCall l inp))
    | _ => throw s!"bad op kind {kind}")
  -- the attrs after every prefix of the op list
  let prefixes := (List.range ops.length).map (fun n => ops.take (n + 1))
  let steps := prefixes.map (fun p => match runOps p with
    | none => Json.null
    | some a => attrsJson a)
  pure (Json.mkObj [("steps", Json.arr steps.toArray)])

def asNdlRunD (env : Env) (o : Json) : M (NdlRunD TR) := do
  let method ← match o.getObjVal? "method" with
    | .ok (.str "threading") => pure Method.threading
    | .ok (.str "openmp") => pure Method.openmp
    | _ => throw "bad method"
  pure { cfg := { policy := ← getPolicy o "policy", method := method, perJob := getNatD o "per_job" 10,
                  perFile := getNatD o "per_file" 10000000 }
         alpha := ← getTR o "alpha", β₁ := ← getTR o "beta1", β₂ := ← getTR o "beta2", lam := ← getTR o "lambda"
         path := sL (← getStr o "path"), events := ← getEvents o "events"
         alphaRepr := sL (← getStr o "alpha_repr"), betasRepr := sL (← getStr o "betas")
         lambdaRepr := sL (← getStr o "lambda_repr"), env := env }

def opNdlChainMeta (j : Json) : M Json := do
  let host ← getStr j "hostname"
  let user ← getStr j "username"
  let env : Env := { date := sL "D", cpuTime := sL "C", wallTime := sL "W", hostname := sL host,
                     username := sL user, pyndl := sL "V", numpy := sL "V", pandas := sL "V",
                     xarray := sL "V", cython := sL "V" }
  let runs ← (← getArr j "runs").toList.mapM (asNdlRunD env)
  let steps := (List.range runs.length).map (fun n =>
    match ndlChainMetaD Generated.pyMagic Generated.pyVersion none (runs.take (n + 1)) with
    | .error e => jErr e
    | .ok none => Json.null
    | .ok (some (_, a)) =>
      -- the count of THIS call alone (for the evidence; the attrs above already contain it)
      let cnt := match ndlChainMetaD Generated.pyMagic Generated.pyVersion none (runs.take n), runs[n]? with
        | .ok s, some r =>
          match ndlCall Generated.pyMagic Generated.pyVersion r.cfg r.alpha r.β₁ r.β₂ r.lam (s.map (·.1)) r.events with
          | .ok (_, c) => jNat c
          | .error _ => Json.null
        | _, _ => Json.null
      (attrsJson a).setObjVal! "n_events" cnt)
  pure (Json.mkObj [("steps", Json.arr steps.toArray)])

def handleAttrs? (op : String) (j : Json) : Option (M Json) :=
  match op with
  | "attrs_chain" => some (opAttrsChain j)
  | "ndl_chain_meta" => some (opNdlChainMeta j)
  | _ => none

end PyndlDriver
