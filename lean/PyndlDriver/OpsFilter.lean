/-
  Driver ops for C10: the model of `filter_event_file` on explicit lines.

  op "filter": {"lines": [str], "cues": side, "outcomes": side, "chunksize": n}
     side = {"keep": [str] | null, "remove": [str] | null, "map": [[key, value]] | null}
     (null / missing = the Python default: keep 'all', remove None, map None)
  reply: {"lines": [str]} or {"err": "Raised:Value"}.
  The separators are the documented ones (`Filter.colSep`, `Filter.tokSep`);
  `C10.seps_match_source` ties them to what the extractor read from the source.
-/
import PyndlDriver.Json
import PyndlModel.Filter

open Lean

namespace PyndlDriver
open Pyndl Pyndl.Filter

def asPair (j : Json) : M (List Char × List Char) := do
  let a ← asArr j
  match a.toList with
  | [k, v] => pure ((← asStr k).toList, (← asStr v).toList)
  | _ => .error "map entry must be [key, value]"

def getSide (j : Json) (k : String) : M (SideArgs Char) :=
  match getOpt j k with
  | none => pure ⟨none, none, none⟩
  | some s => do
    let keep ← match getOpt s "keep" with
      | none => pure none
      | some v => do pure (some ((← asStrList v).map String.toList))
    let remove ← match getOpt s "remove" with
      | none => pure none
      | some v => do pure (some ((← asStrList v).map String.toList))
    let map ← match getOpt s "map" with
      | none => pure none
      | some v => do pure (some (← (← asArr v).toList.mapM asPair))
    pure ⟨keep, remove, map⟩

/-- op filter -/
def opFilter (j : Json) : M Json := do
  let lines := (← asStrList (← j.getObjVal? "lines")).map String.toList
  let ca ← getSide j "cues"
  let oa ← getSide j "outcomes"
  let chunk ← getNat j "chunksize"
  match filterEventFile colSep tokSep ca oa chunk lines with
  | .error e => pure (jErr e)
  | .ok out => pure (Json.mkObj [("lines", jStrs (out.map String.ofList))])

def handleFilter? (op : String) (j : Json) : Option (M Json) :=
  match op with
  | "filter" => some (opFilter j)
  | _ => none

end PyndlDriver
