import PyndlDriver.Json
import PyndlDriver.Plugins
import PyndlDriver.ModelCopies

open Lean

namespace PyndlDriver
open Pyndl

/-- alpha: a rational string, or {"default": r, "map": {cue: r}} -/
def getAlpha (j : Json) : M (String → TR) :=
  match j.getObjVal? "alpha" with
  | .ok (.str s) => do
    let q ← parseRat s
    pure (fun _ => TR.ofRat q)
  | .ok (.obj _) => do
    let aj ← (j.getObjVal? "alpha")
    let d ← getTR aj "default"
    let mp := match aj.getObjVal? "map" with
      | .ok (.obj kvs) => kvs.toList
      | _ => []
    let tbl ← mp.mapM (fun (kv : String × Json) => do
      let t ← asTR kv.2
      pure (kv.1, t))
    pure (fun c => match tbl.find? (fun p => p.1 == c) with
      | some p => p.2
      | none => d)
  | _ => .error "missing alpha"

def getInitDict (j : Json) : M (WDict String String TR) :=
  match getOpt j "init" with
  | none => pure []
  | some (.arr cells) =>
    cells.toList.foldlM (fun (W : WDict String String TR) cell => do
      let a ← asArr cell
      match a.toList with
      | [o, c, v] =>
        let o ← asStr o
        let c ← asStr c
        let v ← asTR v
        pure (wdSetRow W o (alSet (wdRow W o) c v))
      | _ => .error "init cell must be [o, c, v]") []
  | some _ => .error "init must be an array"

def maxBits (vs : List TR) : Nat := vs.foldl (fun m v => max m v.bits) 0

def cellsJson (cells : List (String × String × TR)) : Json :=
  Json.arr (cells.map (fun (o, c, v) =>
    Json.arr #[Json.str o, Json.str c, Json.str v.toStr])).toArray

/-- op dict_ndl: the model of `pyndl.ndl.dict_ndl` -/
def opDictNdl (j : Json) : M Json := do
  let es ← getEvents j "events"
  let α ← getAlpha j
  let b1 ← getTR j "beta1"
  let b2 ← getTR j "beta2"
  let lam ← getTR j "lambda"
  let p ← getPolicy j "policy"
  let W0 ← getInitDict j
  match dictNdl p α b1 b2 lam W0 es with
  | none => pure (jErr .value)
  | some W =>
    let cells := W.flatMap (fun (o, row) => row.map (fun (c, v) => (o, c, v)))
    pure (Json.mkObj [("cells", cellsJson cells),
                      ("bits", jNat (maxBits (cells.map (·.2.2))))])

def getMethod (j : Json) (k : String) : M Method :=
  match j.getObjVal? k with
  | .ok (.str "threading") => .ok .threading
  | .ok (.str "openmp") => .ok .openmp
  | _ => .error s!"bad method field {k}"

def getLW (j : Json) : M (Option (LW TR)) :=
  match getOpt j "init" with
  | none => pure none
  | some w => do
    let outs ← asStrList (← w.getObjVal? "outcomes")
    let cues ← asStrList (← w.getObjVal? "cues")
    let vals ← (← getArr w "vals").toList.mapM asTR
    pure (some ⟨outs, cues, vals.toArray⟩)

def lwJson (w : LW TR) : Json :=
  let n := w.cues.length
  let cells := (List.range w.vals.size).filterMap (fun k =>
    let v := w.vals.getD k 0
    if v.v == 0 then none
    else some (Json.arr #[jNat (k / n), jNat (k % n), Json.str v.toStr]))
  Json.mkObj [("outcomes", jStrs w.outcomes), ("cues", jStrs w.cues),
              ("cells", Json.arr cells.toArray),
              ("bits", jNat (maxBits w.vals.toList))]

/-- op ndl: the model of `pyndl.ndl.ndl` -/
def opNdl (j : Json) : M Json := do
  let es ← getEvents j "events"
  let alpha ← getTR j "alpha"
  let b1 ← getTR j "beta1"
  let b2 ← getTR j "beta2"
  let lam ← getTR j "lambda"
  let cfg : NdlCfg := {
    policy := ← getPolicy j "policy"
    method := ← getMethod j "method"
    perJob := ← getNat j "per_job"
    perFile := ← getNat j "per_file" }
  let W0 ← getLW j
  match ndlCallFile Generated.pyMagic Generated.pyVersion cfg alpha b1 b2 lam W0 es with
  | .error e => pure (jErr e)
  | .ok (w, n) => pure ((lwJson w).setObjVal! "n_events" (jNat n))

/-- one part of a chain request: `learner` "dict_ndl" (with `make_data_array`) or
    "ndl" (with `method`, `per_job`, `per_file`), its `policy` (default: the
    request's), its `events` -/
def asPartD (dflt : Json) (pc : Json) : M PartD := do
  let es ← getEvents pc "events"
  let p ← match getOpt pc "policy" with
    | some _ => getPolicy pc "policy"
    | none => getPolicy dflt "policy"
  match (← getStr pc "learner") with
  | "dict_ndl" => pure (.dict p (getBoolD pc "make_data_array" false), es)
  | "ndl" =>
    pure (.ndl { policy := p, method := ← getMethod pc "method", perJob := getNatD pc "per_job" 10,
                 perFile := getNatD pc "per_file" 10000000 }, es)
  | l => .error s!"bad learner {l}"

/-- op chain: `chainRunD` (= `Pyndl.chainRun`, PyndlProofs/DriverBridge.lean
    `chainRunD_eq`) on the list of parts a real chain of learner calls executes:
    per part the learner, its configuration and its events; between two parts the
    model's own hand-over conversions (`dictFromLW`, `lwFromDict`, `extendLW`
    inside `ndlCall`).
    request: {"op":"chain","alpha":q,"beta1":q,"beta2":q,"lambda":q,"policy":p,
              "pieces":[{"learner":"dict_ndl"|"ndl","make_data_array":bool,"method":"threading"|"openmp",
                         "per_job":n,"per_file":n,"policy":p (optional),"events":[[cues,outcomes],…]},…]}
    reply:   {"kind":"none"|"dict"|"matrix","outcomes":[…],"cues":[…]   (labels IN ORDER; dict: keys / union of row keys)
              "cells":[[outcome,cue,"num/den"],…] (non-zero cells),"bits":n}
          or {"err":"Raised:Value|IO|Other","failed_piece":k}  (k: the first part whose prefix of the chain fails) -/
def opChain (j : Json) : M Json := do
  let alpha ← getTR j "alpha"
  let b1 ← getTR j "beta1"
  let b2 ← getTR j "beta2"
  let lam ← getTR j "lambda"
  let parts ← (← getArr j "pieces").toList.mapM (asPartD j)
  let run (ps : List PartD) := chainRunD Generated.pyMagic Generated.pyVersion alpha b1 b2 lam none ps
  match run parts with
  | .error e =>
    let k := ((List.range parts.length).find? (fun k =>
      match run (parts.take (k + 1)) with | .error _ => true | .ok _ => false)).getD 0
    pure ((jErr e).setObjVal! "failed_piece" (jNat k))
  | .ok none =>
    pure (Json.mkObj [("kind", "none"), ("outcomes", jStrs []), ("cues", jStrs []), ("cells", Json.arr #[]), ("bits", jNat 0)])
  | .ok (some (.dict W)) =>
    let cells := W.flatMap (fun (o, row) => row.map (fun (c, v) => (o, c, v)))
    pure (Json.mkObj [("kind", "dict"), ("outcomes", jStrs (W.map (·.1))),
                      ("cues", jStrs (dedupKeepFirst (W.flatMap (fun r => r.2.map (·.1))))),
                      ("cells", cellsJson (cells.filter (fun x => x.2.2.v != 0))),
                      ("bits", jNat (maxBits (cells.map (·.2.2))))])
  | .ok (some (.matrix w)) =>
    let cells := w.outcomes.flatMap (fun o => w.cues.map (fun c => (o, c, w.get o c)))
    pure (Json.mkObj [("kind", "matrix"), ("outcomes", jStrs w.outcomes), ("cues", jStrs w.cues),
                      ("cells", cellsJson (cells.filter (fun x => x.2.2.v != 0))),
                      ("bits", jNat (maxBits w.vals.toList))])

/-- op queue_trace: replay an observed history of the work-queue protocol
    through the Lean transition system (`qRun`); actions `["take"|"exit"|"finish"|"fail", thread]`
    (`fail`: the kernel call of that worker raised).  Reply: accepted / first_rejected, final (`qFinal`),
    raises (`qRaises`: `if worker_errors: raise` after the join — C05 worker_fault_raises), taken, measure -/
def opQueueTrace (j : Json) : M Json := do
  let p ← getNat j "parts"
  let t ← getNat j "threads"
  let tr ← getArr j "trace"
  let acts ← tr.toList.mapM (fun a => do
    let a ← asArr a
    match a.toList with
    | [k, th] =>
      let k ← asStr k
      let th ← asNat th
      match k with
      | "take" => pure (QAction.take th)
      | "exit" => pure (QAction.exit th)
      | "finish" => pure (QAction.finish th)
      | "fail" => pure (QAction.fail th)
      | _ => .error "bad action"
    | _ => .error "bad action")
  let s0 := qInit p t
  match qRun s0 acts with
  | none =>
    let i := (qFirstRejected s0 acts).getD 0
    pure (Json.mkObj [("accepted", Json.bool false), ("first_rejected", jNat i)])
  | some s =>
    pure (Json.mkObj [("accepted", Json.bool true), ("final", Json.bool (qFinal s)),
                      ("raises", Json.bool (qRaises s)), ("taken", jNats s.taken), ("measure_left", jNat (qMeasure s)),
                      ("bound", jNat (2 * p + t))])

/-- op partition: the partitioners on `List.range n`: `sliceList` (threading),
    `ompParts32` (what `ndlCore` runs for openmp: the Cython `unsigned int`
    bounds) and the unbounded `ompParts` the partition theorems of C02 are about
    (`ompParts32_eq`: equal when `n + chunk < 2³²`) -/
def opPartition (j : Json) : M Json := do
  let n ← getNat j "n"
  let c ← getNat j "chunk"
  let xs := List.range n
  pure (Json.mkObj [("slice_list", Json.arr ((sliceList xs c).map jNats).toArray),
                    ("omp_parts", Json.arr ((ompParts32 xs c).map jNats).toArray),
                    ("omp_parts_unbounded", Json.arr ((ompParts xs c).map jNats).toArray)])

def readErrName : ReadErr → String
  | .badMagic => "badMagic" | .badVersion => "badVersion" | .truncated => "truncated"
  | .noFile => "noFile"

/-- op encode: `write_events(events, file, start, stop, remove_duplicates)` -/
def opEncode (j : Json) : M Json := do
  let es ← getIdEvents j "events"
  let start ← getNat j "start"
  let stop ← getNat j "stop"
  let p ← getPolicy j "policy"
  let (bytes, res) := writeEvents Generated.pyMagic Generated.pyVersion p es start stop
  let kind : Json := match res with
    | .ok n => Json.mkObj [("kind", "ok"), ("n", jNat n)]
    | .stopped n => Json.mkObj [("kind", "stopped"), ("n", jNat n)]
    | .empty => Json.mkObj [("kind", "empty"), ("n", jNat 0)]
    | .dupError i => Json.mkObj [("kind", "dup_error"), ("n", jNat i)]
    -- OverflowError of `to_bytes(stop - start)`: harness/impl_bytes.py reports every
    -- exception that is neither StopIteration nor ValueError as kind 'other_error'
    | .overflow => Json.mkObj [("kind", "other_error"), ("n", jNat 0)]
  pure (kind.setObjVal! "bytes" (match bytes with | some b => Json.str (toHex b) | none => Json.null))

/-- op decode: both readers on a byte string -/
def opDecode (j : Json) : M Json := do
  let bs := fromHex (← getStr j "bytes")
  let py : Json := match decodeChunkPy Generated.pyMagic Generated.pyVersion bs with
    | .ok es => Json.mkObj [("events", Json.arr (es.map jEvent).toArray)]
    | .error e => Json.mkObj [("err", Json.str (readErrName e))]
  let ke : Json := match decodeChunkKernel Generated.kernelMagic Generated.kernelVersion bs with
    | .ok (es, hist) => Json.mkObj [("events", Json.arr (es.map jEvent).toArray),
        ("max_block", jNat (hist.foldl (fun m p => max m p.1) 0)),
        ("cap_ok", Json.bool (hist.all (fun p => p.1 ≤ p.2)))]
    | .error e => Json.mkObj [("err", Json.str (readErrName e))]
  pure (Json.mkObj [("py", py), ("kernel", ke)])

/-- op kernel_b2b: an entry point of the binary-to-binary kernel on a list of
    chunk byte strings (direct kernel call, no id maps) -/
def opKernelB2B (j : Json) : M Json := do
  let chunks := (← (← getArr j "chunks").toList.mapM asStr).map fromHex
  let nCues ← getNat j "n_cues"
  let nOut ← getNat j "n_out"
  let rows ← asNatList (← j.getObjVal? "rows")
  let alpha ← getTR j "alpha"
  let b1 ← getTR j "beta1"
  let b2 ← getTR j "beta2"
  let lam ← getTR j "lambda"
  let entry ← getStr j "entry"
  let chunk := getNatD j "chunk" 10
  let w0 : Array TR := match getOpt j "init" with
    | some (.arr a) => a.map (fun v => match asTR v with | .ok t => t | .error _ => 0)
    | _ => Array.replicate (nCues * nOut) 0
  -- the event loop of one chunk file is the model's own schedule of ONE file: `learnOpenmpSeq32`
  -- (openmp entry point: the 32-bit parts of `rows`, what `ndlCore` runs) resp. `kernelPart`
  -- (threading entry point: one call = one part over the files it is given)
  let learnFile : Array TR → List (Event Nat Nat) → Array TR := fun w es =>
    if entry == "openmp" then learnOpenmpSeq32 alpha b1 b2 lam nCues [es] rows chunk w
    else kernelPart alpha b1 b2 lam nCues [es] w rows
  let (w, e) := learnChunksB2B Generated.kernelMagic Generated.kernelVersion learnFile chunks w0
  let cells := (List.range w.size).filterMap (fun k =>
    let v := w.getD k 0
    if v.v == 0 then none else some (Json.arr #[jNat k, Json.str v.toStr]))
  pure (Json.mkObj [("cells", Json.arr cells.toArray), ("bits", jNat (maxBits w.toList)),
    ("err", match e with | some _ => Json.str "Raised:IO" | none => Json.null)])

/-- op chunk_files: what `create_binary_event_files` leaves in the directory
    (names + decoded contents in numeric order), the count it returns, and the
    submit-loop simulation for the given completion delays -/
def opChunkFiles (j : Json) : M Json := do
  let es ← getIdEvents j "events"
  let per ← getNat j "per"
  let p ← getPolicy j "policy"
  let burst := getNatD j "burst" 4
  let delays ← match getOpt j "delays" with
    | some d => asNatList d
    | none => pure []
  -- argument / conversion errors are `ndlCore`'s own (its `events_per_temporary_file < 2` guard, the
  -- overflow guard and the duplicate policy of `makeChunks`): the id events are read as events whose
  -- names are the decimal ids, labelled in id order (so `toIds` gives the ids back)
  let width (f : Event Nat Nat → List Nat) := es.foldl (fun m e => (f e).foldl (fun m x => max m (x + 1)) m) 0
  let names (k : Nat) : List String := (List.range k).map toString
  let named : List (Event String String) := es.map (fun e => ⟨e.cues.map toString, e.outcomes.map toString⟩)
  match ndlCore (R := Int) Generated.pyMagic Generated.pyVersion
      { policy := p, method := .threading, perJob := 1, perFile := per } 0 0 0 0
      (names (width (·.cues))) (names (width (·.outcomes))) #[] named with
  | .error e => pure (jErr e)
  | .ok _ =>
  match makeChunks Generated.pyMagic Generated.pyVersion p es per with
  | .error e => pure (jErr e)
  | .ok (files, total) =>
    match decodeAll Generated.pyMagic Generated.pyVersion files with
    | .error e => pure (jErr e)
    | .ok chunks =>
      let named := (List.range chunks.length).zip chunks |>.map (fun (i, c) =>
        Json.mkObj [("name", Json.str (String.ofList (chunkName i))), ("key", jNat (chunkKey (chunkName i))),
                    ("events", Json.arr (c.map jEvent).toArray)])
      let delay : Nat → Nat := fun k => delays.getD k 0
      let n := es.length
      let H := tDone delay burst (n / per)
      let (c, k, tot) := simulate n per burst delay H
      -- the step semantics of the same loop (C04 `submit_loop_step_semantics`: equal to the closed form)
      let loop := match runLoop n per burst delay (H + 2) loopInit with
        | some s => Json.mkObj [("submitted", jNat s.ii), ("now", jNat s.now), ("total", jNat (loopCount n per s))]
        | none => Json.null
      pure (Json.mkObj [("files", Json.arr named.toArray), ("total", jNat total),
        ("first_closing", jNat (n / per)), ("sim_close_time", jNat c), ("sim_submitted", jNat k),
        ("sim_total", jNat tot), ("sim_horizon", jNat H), ("loop", loop)])

/-- op storage_fault: byte sizes of the chunk files of a conversion and whether a
    per-file byte budget makes some conversion job fail (C05/C17).  Sizes are the
    theorem-backed `encodedSize` of every job's window (C06 `encoded_size` /
    C05 `storage_need`: a job needs exactly that many bytes); the jobs are
    `0 … n / per` — up to the first job whose result closes the pool (`firstClosing`;
    job 0 is always submitted; a job with an empty window still needs the 12 header
    bytes, `encodedSize [] = 12`).
    request: {"events": id events, "per": n, "budget": b}
    reply:   {"sizes": [bytes of the non-empty chunk files], "job_sizes": [bytes job 0 … n/per needs],
              "raises": some job needs more than b bytes} -/
def opStorageFault (j : Json) : M Json := do
  let es ← getIdEvents j "events"
  let per ← getNat j "per"
  let budget ← getNat j "budget"
  if per == 0 then pure (jErr .value) else
  let jobSizes := (List.range (firstClosing es.length per + 1)).map (fun k => encodedSize (chunkOf per es k))
  let sizes := (List.range (nChunks es.length per)).map (fun k => encodedSize (chunkOf per es k))
  pure (Json.mkObj [("sizes", jNats sizes), ("encoded_sizes", jNats sizes), ("job_sizes", jNats jobSizes),
                    ("raises", Json.bool (jobSizes.any (fun s => decide (s > budget))))])

/-- op conversion_faults: what the LEARNER MODEL decides for a run with a fault the
    model knows — a repeated cue / outcome under a policy, `events_per_temporary_file
    ≥ 2³²` (or `< 2`), an event file with zero events, `n_outcomes_per_job` out of
    range, a cue / outcome without a vector (Widrow–Hoff) — and, for the learners
    that write chunk files, what the conversion model decides: the failing-job
    oracle of the event file (`failingJobD` = `Pyndl.failingJob`,
    PyndlProofs/DriverBridge.lean) and the submit loop `simulateF` run with it.
    request: {"learner": "dict_ndl"|"ndl_threading"|"ndl_openmp"|"wh_r2r"|"wh_b2r"|"wh_r2b"|"wh_numpy"|"dict_wh",
              "events": [[cues,outcomes],…], "policy": p, "per_file": n, "per_job": n,
              "alpha","beta1","beta2","lambda","eta": q (defaults 1/4, 1/2, 1/4, 1, 1/4),
              "cue_vectors","outcome_vectors": tables as for op wh (wh learners),
              "burst": n (throttle × n_jobs, default 8), "delays": [ticks of job 0, 1, …] (default 0)}
    reply:   {"learner": "Returned" | "Raised:Value|IO|Key|Other|Assertion"   (dictNdl / ndlCall / whModel /
                                                                              whNumpyModel / dictWhModel),
              "conversion": null (no chunk files), or
                 {"failing_jobs": [j ≤ n/per with failingJob], "first_closing": f0, "sim_raises": bool,
                  "sim_close_time": t, "sim_count": events written by the jobs that did not fail}} -/
def opConversionFaults (j : Json) : M Json := do
  let learner ← getStr j "learner"
  let es ← getEvents j "events"
  let p ← getPolicy j "policy"
  let per := getNatD j "per_file" 10000000
  let perJob := getNatD j "per_job" 10
  let q (k : String) (d : Rat) : TR := trD j k (TR.ofRat d)
  let alpha := q "alpha" (1/4)
  let b1 := q "beta1" (1/2)
  let b2 := q "beta2" (1/4)
  let lam := q "lambda" 1
  let eta := q "eta" (1/4)
  let ct ← getTableOpt j "cue_vectors"
  let ot ← getTableOpt j "outcome_vectors"
  let ofErr : {α : Type} → Except Err α → String := fun r =>
    match r with | .ok _ => "Returned" | .error e => errName e
  let ofPy : {α : Type} → Except PyErr α → String := fun r =>
    match r with | .ok _ => "Returned" | .error e => pyErrName e
  let ndlOf (m : Method) : String :=
    ofErr (ndlCall Generated.pyMagic Generated.pyVersion
      { policy := p, method := m, perJob := perJob, perFile := per } alpha b1 b2 lam none es)
  let tabs : M (VecTable TR × VecTable TR) := match ct, ot with
    | some c, some o => pure (c, o)
    | _, _ => .error "cue_vectors and outcome_vectors needed"
  let res ← match learner with
    | "dict_ndl" =>
      pure (match dictNdl p (fun _ => alpha) b1 b2 lam ([] : WDict String String TR) es with
        | none => errName .value | some _ => "Returned")
    | "ndl_threading" => pure (ndlOf .threading)
    | "ndl_openmp" => pure (ndlOf .openmp)
    | "wh_r2r" => pure (ofErr (whModel .r2r p eta b1 b2 lam ct ot perJob none es))
    | "wh_b2r" => pure (ofErr (whModel .b2r p eta b1 b2 lam none ot perJob none es))
    -- wh.py:140-141: real → binary runs with betas = (eta, eta), lambda = 1
    | "wh_r2b" => pure (ofErr (whModel .r2b p eta eta eta (TR.ofRat 1) ct none perJob none es))
    | "wh_numpy" => do
      let (c, o) ← tabs
      pure (ofPy (whNumpyModel p eta c o none es))
    | "dict_wh" => do
      let (c, o) ← tabs
      pure (ofPy (dictWhModel p eta c o [] es))
    | l => .error s!"bad learner {l}"
  let writesChunks := ["ndl_threading", "ndl_openmp", "wh_r2r", "wh_b2r", "wh_r2b"].contains learner
  let conv : Json :=
    if !writesChunks || per == 0 then Json.null else
    let (cues, outs) := countNames es
    let ids := es.map (toIds cues outs)
    let failing := failingJobD Generated.pyMagic Generated.pyVersion p ids per
    let n := ids.length
    let burst := getNatD j "burst" 8
    let delays : List Nat := match getOpt j "delays" with
      | some d => match asNatList d with | .ok l => l | .error _ => []
      | none => []
    let delay : Nat → Nat := fun k => delays.getD k 0
    let jobs := List.range (n / per + 1)
    let f0 := (jobs.find? (closesF n per failing)).getD (n / per)
    let H := tDone delay burst f0
    let (c, raises, cnt) := simulateF n per burst delay failing f0 H
    Json.mkObj [("failing_jobs", jNats (jobs.filter failing)), ("first_closing", jNat f0),
                ("sim_raises", Json.bool raises), ("sim_close_time", jNat c), ("sim_count", jNat cnt)]
  pure (Json.mkObj [("learner", Json.str res), ("conversion", conv)])

def handle (j : Json) : M Json := do
  let op ← getStr j "op"
  match op with
  | "ping" => pure (Json.mkObj [("pong", Json.bool true)])
  | "dict_ndl" => opDictNdl j
  | "ndl" => opNdl j
  | "chain" => opChain j
  | "queue_trace" => opQueueTrace j
  | "partition" => opPartition j
  | "chunk_files" => opChunkFiles j
  | "storage_fault" => opStorageFault j
  | "conversion_faults" => opConversionFaults j
  | "encode" => opEncode j
  | "decode" => opDecode j
  | "kernel_b2b" => opKernelB2B j
  | _ =>
    match handlePlugin? op j with
    | some r => r
    | none => .error s!"unknown op {op}"

end PyndlDriver
