import PyndlDriver.Json
import PyndlDriver.Plugins

open Lean

namespace PyndlDriver
open Pyndl

/-- alpha: a rational string, or {"default": r, "map": {cue: r}} -/
def getAlpha (j : Json) : M (String → TR) :=
  match j.getObjVal? "alpha" with
  | .ok (.str s) => do
    let q ← parseRat s
    pure (fun _ => TR.ofRat q)
  | .ok (.obj _) => do
    let aj ← (j.getObjVal? "alpha")
    let d ← getTR aj "default"
    let mp := match aj.getObjVal? "map" with
      | .ok (.obj kvs) => kvs.toList
      | _ => []
    let tbl ← mp.mapM (fun (kv : String × Json) => do
      let t ← asTR kv.2
      pure (kv.1, t))
    pure (fun c => match tbl.find? (fun p => p.1 == c) with
      | some p => p.2
      | none => d)
  | _ => .error "missing alpha"

def getInitDict (j : Json) : M (WDict String String TR) :=
  match getOpt j "init" with
  | none => pure []
  | some (.arr cells) =>
    cells.toList.foldlM (fun (W : WDict String String TR) cell => do
      let a ← asArr cell
      match a.toList with
      | [o, c, v] =>
        let o ← asStr o
        let c ← asStr c
        let v ← asTR v
        pure (wdSetRow W o (alSet (wdRow W o) c v))
      | _ => .error "init cell must be [o, c, v]") []
  | some _ => .error "init must be an array"

def maxBits (vs : List TR) : Nat := vs.foldl (fun m v => max m v.bits) 0

def cellsJson (cells : List (String × String × TR)) : Json :=
  Json.arr (cells.map (fun (o, c, v) =>
    Json.arr #[Json.str o, Json.str c, Json.str v.toStr])).toArray

/-- op dict_ndl: the model of `pyndl.ndl.dict_ndl` -/
def opDictNdl (j : Json) : M Json := do
  let es ← getEvents j "events"
  let α ← getAlpha j
  let b1 ← getTR j "beta1"
  let b2 ← getTR j "beta2"
  let lam ← getTR j "lambda"
  let p ← getPolicy j "policy"
  let W0 ← getInitDict j
  match dictNdl p α b1 b2 lam W0 es with
  | none => pure (jErr .value)
  | some W =>
    let cells := W.flatMap (fun (o, row) => row.map (fun (c, v) => (o, c, v)))
    pure (Json.mkObj [("cells", cellsJson cells),
                      ("bits", jNat (maxBits (cells.map (·.2.2))))])

/-- op rw_spec: the specification `rwLearn` itself, evaluated on the total
    weight function, read back at every (outcome, cue) that occurs -/
def opRwSpec (j : Json) : M Json := do
  let es ← getEvents j "events"
  let α ← getAlpha j
  let b1 ← getTR j "beta1"
  let b2 ← getTR j "beta2"
  let lam ← getTR j "lambda"
  let p ← getPolicy j "policy"
  let W0 ← getInitDict j
  match applyPolicyAll p es with
  | none => pure (jErr .value)
  | some es' =>
    let W := rwLearn α b1 b2 lam (wdAbs W0) es'
    let outs := dedupKeepFirst (W0.map (·.1) ++ es'.flatMap (·.outcomes))
    let cues := dedupKeepFirst (W0.flatMap (fun r => r.2.map (·.1)) ++ es'.flatMap (·.cues))
    let cells := outs.flatMap (fun o => cues.map (fun c => (o, c, W o c)))
    pure (Json.mkObj [("cells", cellsJson cells),
                      ("bits", jNat (maxBits (cells.map (·.2.2))))])

def getMethod (j : Json) (k : String) : M Method :=
  match j.getObjVal? k with
  | .ok (.str "threading") => .ok .threading
  | .ok (.str "openmp") => .ok .openmp
  | _ => .error s!"bad method field {k}"

def getLW (j : Json) : M (Option (LW TR)) :=
  match getOpt j "init" with
  | none => pure none
  | some w => do
    let outs ← asStrList (← w.getObjVal? "outcomes")
    let cues ← asStrList (← w.getObjVal? "cues")
    let vals ← (← getArr w "vals").toList.mapM asTR
    pure (some ⟨outs, cues, vals.toArray⟩)

def lwJson (w : LW TR) : Json :=
  let n := w.cues.length
  let cells := (List.range w.vals.size).filterMap (fun k =>
    let v := w.vals.getD k 0
    if v.v == 0 then none
    else some (Json.arr #[jNat (k / n), jNat (k % n), Json.str v.toStr]))
  Json.mkObj [("outcomes", jStrs w.outcomes), ("cues", jStrs w.cues),
              ("cells", Json.arr cells.toArray),
              ("bits", jNat (maxBits w.vals.toList))]

/-- op ndl: the model of `pyndl.ndl.ndl` -/
def opNdl (j : Json) : M Json := do
  let es ← getEvents j "events"
  let alpha ← getTR j "alpha"
  let b1 ← getTR j "beta1"
  let b2 ← getTR j "beta2"
  let lam ← getTR j "lambda"
  let cfg : NdlCfg := {
    policy := ← getPolicy j "policy"
    method := ← getMethod j "method"
    perJob := ← getNat j "per_job"
    perFile := ← getNat j "per_file" }
  let W0 ← getLW j
  match ndlCall Generated.pyMagic Generated.pyVersion cfg alpha b1 b2 lam W0 es with
  | .error e => pure (jErr e)
  | .ok (w, n) => pure ((lwJson w).setObjVal! "n_events" (jNat n))

/-- op queue_trace: replay an observed history of the work-queue protocol
    through the Lean transition system -/
def opQueueTrace (j : Json) : M Json := do
  let p ← getNat j "parts"
  let t ← getNat j "threads"
  let tr ← getArr j "trace"
  let acts ← tr.toList.mapM (fun a => do
    let a ← asArr a
    match a.toList with
    | [k, th] =>
      let k ← asStr k
      let th ← asNat th
      match k with
      | "take" => pure (QAction.take th)
      | "exit" => pure (QAction.exit th)
      | "finish" => pure (QAction.finish th)
      | _ => .error "bad action"
    | _ => .error "bad action")
  let s0 := qInit p t
  match qRun s0 acts with
  | none =>
    let i := (qFirstRejected s0 acts).getD 0
    pure (Json.mkObj [("accepted", Json.bool false), ("first_rejected", jNat i)])
  | some s =>
    pure (Json.mkObj [("accepted", Json.bool true), ("final", Json.bool (qFinal s)),
                      ("taken", jNats s.taken), ("measure_left", jNat (qMeasure s)),
                      ("bound", jNat (2 * p + t))])

/-- op partition: both partitioners on `List.range n` -/
def opPartition (j : Json) : M Json := do
  let n ← getNat j "n"
  let c ← getNat j "chunk"
  let xs := List.range n
  pure (Json.mkObj [("slice_list", Json.arr ((sliceList xs c).map jNats).toArray),
                    ("omp_parts", Json.arr ((ompParts xs c).map jNats).toArray)])

def readErrName : ReadErr → String
  | .badMagic => "badMagic" | .badVersion => "badVersion" | .truncated => "truncated"
  | .noFile => "noFile"

/-- op encode: `write_events(events, file, start, stop, remove_duplicates)` -/
def opEncode (j : Json) : M Json := do
  let es ← getIdEvents j "events"
  let start ← getNat j "start"
  let stop ← getNat j "stop"
  let p ← getPolicy j "policy"
  let (bytes, res) := writeEvents Generated.pyMagic Generated.pyVersion p es start stop
  let kind : Json := match res with
    | .ok n => Json.mkObj [("kind", "ok"), ("n", jNat n)]
    | .stopped n => Json.mkObj [("kind", "stopped"), ("n", jNat n)]
    | .empty => Json.mkObj [("kind", "empty"), ("n", jNat 0)]
    | .dupError i => Json.mkObj [("kind", "dup_error"), ("n", jNat i)]
    -- OverflowError of `to_bytes(stop - start)`: harness/impl_bytes.py reports every
    -- exception that is neither StopIteration nor ValueError as kind 'other_error'
    | .overflow => Json.mkObj [("kind", "other_error"), ("n", jNat 0)]
  pure (kind.setObjVal! "bytes" (match bytes with | some b => Json.str (toHex b) | none => Json.null))

/-- op decode: both readers on a byte string -/
def opDecode (j : Json) : M Json := do
  let bs := fromHex (← getStr j "bytes")
  let py : Json := match decodeChunkPy Generated.pyMagic Generated.pyVersion bs with
    | .ok es => Json.mkObj [("events", Json.arr (es.map jEvent).toArray)]
    | .error e => Json.mkObj [("err", Json.str (readErrName e))]
  let ke : Json := match decodeChunkKernel Generated.kernelMagic Generated.kernelVersion bs with
    | .ok (es, hist) => Json.mkObj [("events", Json.arr (es.map jEvent).toArray),
        ("max_block", jNat (hist.foldl (fun m p => max m p.1) 0)),
        ("cap_ok", Json.bool (hist.all (fun p => p.1 ≤ p.2)))]
    | .error e => Json.mkObj [("err", Json.str (readErrName e))]
  pure (Json.mkObj [("py", py), ("kernel", ke)])

/-- op kernel_b2b: an entry point of the binary-to-binary kernel on a list of
    chunk byte strings (direct kernel call, no id maps) -/
def opKernelB2B (j : Json) : M Json := do
  let chunks := (← (← getArr j "chunks").toList.mapM asStr).map fromHex
  let nCues ← getNat j "n_cues"
  let nOut ← getNat j "n_out"
  let rows ← asNatList (← j.getObjVal? "rows")
  let alpha ← getTR j "alpha"
  let b1 ← getTR j "beta1"
  let b2 ← getTR j "beta2"
  let lam ← getTR j "lambda"
  let entry ← getStr j "entry"
  let chunk := getNatD j "chunk" 10
  let w0 : Array TR := match getOpt j "init" with
    | some (.arr a) => a.map (fun v => match asTR v with | .ok t => t | .error _ => 0)
    | _ => Array.replicate (nCues * nOut) 0
  let learnFile : Array TR → List (Event Nat Nat) → Array TR := fun w es =>
    if entry == "openmp" then
      (ompParts rows chunk).foldl (fun w part => kernelFile alpha b1 b2 lam nCues part w es) w
    else kernelFile alpha b1 b2 lam nCues rows w es
  let (w, e) := learnChunksB2B Generated.kernelMagic Generated.kernelVersion learnFile chunks w0
  let cells := (List.range w.size).filterMap (fun k =>
    let v := w.getD k 0
    if v.v == 0 then none else some (Json.arr #[jNat k, Json.str v.toStr]))
  pure (Json.mkObj [("cells", Json.arr cells.toArray), ("bits", jNat (maxBits w.toList)),
    ("err", match e with | some _ => Json.str "Raised:IO" | none => Json.null)])

/-- op chunk_files: what `create_binary_event_files` leaves in the directory
    (names + decoded contents in numeric order), the count it returns, and the
    submit-loop simulation for the given completion delays -/
def opChunkFiles (j : Json) : M Json := do
  let es ← getIdEvents j "events"
  let per ← getNat j "per"
  let p ← getPolicy j "policy"
  let burst := getNatD j "burst" 4
  let delays ← match getOpt j "delays" with
    | some d => asNatList d
    | none => pure []
  if per < 2 then pure (jErr .value) else
  match makeChunks Generated.pyMagic Generated.pyVersion p es per with
  | .error e => pure (jErr e)
  | .ok (files, total) =>
    match decodeAll Generated.pyMagic Generated.pyVersion files with
    | .error e => pure (jErr e)
    | .ok chunks =>
      let named := (List.range chunks.length).zip chunks |>.map (fun (i, c) =>
        Json.mkObj [("name", Json.str (String.ofList (chunkName i))), ("key", jNat (chunkKey (chunkName i))),
                    ("events", Json.arr (c.map jEvent).toArray)])
      let delay : Nat → Nat := fun k => delays.getD k 0
      let n := es.length
      let H := tDone delay burst (n / per)
      let (c, k, tot) := simulate n per burst delay H
      pure (Json.mkObj [("files", Json.arr named.toArray), ("total", jNat total),
        ("first_closing", jNat (n / per)), ("sim_close_time", jNat c), ("sim_submitted", jNat k),
        ("sim_total", jNat tot), ("sim_horizon", jNat H)])

/-- op storage_fault: byte sizes of the chunk files of a conversion and whether a
    per-file byte budget makes some conversion job fail (C05/C17) -/
def opStorageFault (j : Json) : M Json := do
  let es ← getIdEvents j "events"
  let per ← getNat j "per"
  let budget ← getNat j "budget"
  match makeChunks Generated.pyMagic Generated.pyVersion .keep es per with
  | .error e => pure (jErr e)
  | .ok (files, _) =>
    let sizes := files.map (·.length)
    -- a job behind the end still writes the 12 byte header before it removes the file
    let fails := sizes.any (fun s => decide (s > budget)) || decide (budget < 12)
    pure (Json.mkObj [("sizes", jNats sizes), ("raises", Json.bool fails),
                      ("encoded_sizes", jNats ((List.range files.length).map (fun k => encodedSize (chunkOf per es k))))])

def handle (j : Json) : M Json := do
  let op ← getStr j "op"
  match op with
  | "ping" => pure (Json.mkObj [("pong", Json.bool true)])
  | "dict_ndl" => opDictNdl j
  | "rw_spec" => opRwSpec j
  | "ndl" => opNdl j
  | "queue_trace" => opQueueTrace j
  | "partition" => opPartition j
  | "chunk_files" => opChunkFiles j
  | "storage_fault" => opStorageFault j
  | "encode" => opEncode j
  | "decode" => opDecode j
  | "kernel_b2b" => opKernelB2B j
  | _ =>
    match handlePlugin? op j with
    | some r => r
    | none => .error s!"unknown op {op}"

end PyndlDriver
