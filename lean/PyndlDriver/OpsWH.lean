/- JSON ops for the Widrow–Hoff models (C08, C14, C03, C06) -/
import PyndlDriver.Json
import PyndlModel.WHModel
import PyndlModel.WHPy
import PyndlModel.Generated
import PyndlDriver.ModelCopies

open Lean

namespace PyndlDriver
open Pyndl

private def maxBitsL (vs : List TR) : Nat := vs.foldl (fun m v => max m v.bits) 0

def asTable (j : Json) : M (VecTable TR) := do
  let names ← asStrList (← j.getObjVal? "names")
  let dims ← asStrList (← j.getObjVal? "dims")
  let rows ← (← getArr j "rows").toList.mapM (fun r => do (← asArr r).toList.mapM asTR)
  pure ⟨names, dims, (rows.flatMap id).toArray⟩

def getTableOpt (j : Json) (k : String) : M (Option (VecTable TR)) :=
  match getOpt j k with
  | none => pure none
  | some t => do pure (some (← asTable t))

def getLWOpt (j : Json) (k : String) : M (Option (LW TR)) :=
  match getOpt j k with
  | none => pure none
  | some w => do
    let outs ← asStrList (← w.getObjVal? "rows")
    let cues ← asStrList (← w.getObjVal? "cols")
    let vals ← (← getArr w "vals").toList.mapM asTR
    pure (some ⟨outs, cues, vals.toArray⟩)

def lwJsonRC (w : LW TR) : Json :=
  let n := w.cues.length
  let cells := (List.range w.vals.size).filterMap (fun k =>
    let v := w.vals.getD k 0
    if v.v == 0 then none else some (Json.arr #[jNat (k / n), jNat (k % n), Json.str v.toStr]))
  Json.mkObj [("rows", jStrs w.outcomes), ("cols", jStrs w.cues), ("cells", Json.arr cells.toArray),
              ("bits", jNat (maxBitsL w.vals.toList))]

def trD (j : Json) (k : String) (d : TR) : TR :=
  match getTR j k with | .ok t => t | .error _ => d

/-- op wh: the model of `pyndl.wh.wh` (openmp) for one flavour -/
def opWh (j : Json) : M Json := do
  let fl ← match (← getStr j "flavour") with
    | "r2r" => pure WhFlavour.r2r | "b2r" => pure WhFlavour.b2r | "r2b" => pure WhFlavour.r2b
    | _ => .error "bad flavour"
  let es ← getEvents j "events"
  let p ← getPolicy j "policy"
  let ct ← getTableOpt j "cue_vectors"
  let ot ← getTableOpt j "outcome_vectors"
  let W0 ← getLWOpt j "init"
  let one : TR := TR.ofRat 1
  match whModel fl p (trD j "eta" 0) (trD j "beta1" 0) (trD j "beta2" 0) (trD j "lambda" one) ct ot
      (getNatD j "chunk" 10) W0 es with
  | .error e => pure (jErr e)
  | .ok w => pure (lwJsonRC w)

/-- op kernel_wh: a compiled Widrow–Hoff entry point on chunk byte strings -/
def opKernelWh (j : Json) : M Json := do
  let chunks := (← (← getArr j "chunks").toList.mapM asStr).map fromHex
  let entry ← getStr j "entry"
  let nRows ← getNat j "n_rows"
  let nCols ← getNat j "n_cols"
  let chunk := getNatD j "chunk" 10
  let tabVals (k : String) : M (Array TR) := do
    match getOpt j k with
    | none => pure #[]
    | some t =>
      let rows ← (← asArr t).toList.mapM (fun r => do (← asArr r).toList.mapM asTR)
      pure (rows.flatMap id).toArray
  let cv ← tabVals "cue_vectors"
  let ov ← tabVals "outcome_vectors"
  let nOutDims := getNatD j "n_out_dims" nRows
  let one : TR := TR.ofRat 1
  let eta := trD j "eta" 0
  let b1 := trD j "beta1" 0
  let b2 := trD j "beta2" 0
  let lam := trD j "lambda" one
  let step : Array TR → Nat → Event Nat Nat → Array TR :=
    if entry == "omp_b2r" then fun w d e => whB2RRowEvent eta ov nOutDims nCols w d e.cues e.outcomes
    else if entry == "omp_r2b" then fun w ii e => whR2BRowEvent b1 b2 lam cv nCols w ii e.cues e.outcomes
    else fun w d e => whR2RRowEvent eta cv ov nCols nOutDims w d e.cues e.outcomes
  let w0 : Array TR := match getOpt j "init" with
    | some (.arr a) => a.map (fun v => match asTR v with | .ok t => t | .error _ => 0)
    | _ => Array.replicate (nRows * nCols) 0
  let learnFile : Array TR → List (Event Nat Nat) → Array TR := fun w es =>
    learnOmpWith step [es] (List.range nRows) chunk w
  let (w, e) := learnChunks Generated.kernelMagic Generated.kernelVersion learnFile chunks w0
  let cells := (List.range w.size).filterMap (fun k =>
    let v := w.getD k 0
    if v.v == 0 then none else some (Json.arr #[jNat k, Json.str v.toStr]))
  pure (Json.mkObj [("cells", Json.arr cells.toArray), ("bits", jNat (maxBitsL w.toList)),
    ("err", match e with | some _ => Json.str "Raised:IO" | none => Json.null)])

def pyErrName : PyErr → String
  | .std e => errName e
  | .assertion => "Raised:Assertion"

def jPyErr (e : PyErr) (piece : Nat) : Json :=
  Json.mkObj [("err", Json.str (pyErrName e)), ("failed_piece", jNat piece)]

/-- the event lists of the successive calls: `pieces` (each call continues from
    the previous result), or the single list `events` -/
def getPieces (j : Json) : M (List (List (Event String String))) :=
  match getOpt j "pieces" with
  | some (.arr a) => a.toList.mapM (fun p => do (← asArr p).toList.mapM asEvent)
  | _ => do pure [← getEvents j "events"]

/-- op wh_numpy: the model of `wh.wh(method='numpy')` (`whNumpyModel`): request of
    op `wh` (flavour r2r: cue_vectors, outcome_vectors, eta, policy, optional init)
    plus optional `pieces` — a chain of calls, each continuing from the previous
    DataArray.  Errors: `Raised:Value|Key|Other|Assertion` with `failed_piece`. -/
def opWhNumpy (j : Json) : M Json := do
  let pieces ← getPieces j
  let p ← getPolicy j "policy"
  let ct ← asTable (← j.getObjVal? "cue_vectors")
  let ot ← asTable (← j.getObjVal? "outcome_vectors")
  let W0 ← getLWOpt j "init"
  let eta := trD j "eta" 0
  let rec go (k : Nat) (w : Option (LW TR)) : List (List (Event String String)) → Except (PyErr × Nat) (Option (LW TR))
    | [] => .ok w
    | es :: rest =>
      match whNumpyModel p eta ct ot w es with
      | .error e => .error (e, k)
      | .ok r => go (k + 1) (some r) rest
  match go 0 W0 pieces with
  | .error (e, k) => pure (jPyErr e k)
  | .ok none => .error "wh_numpy: no call"
  | .ok (some w) => pure (lwJsonRC w)

/-- op dict_wh: the model of `dict_wh` (`dictWhModel`; `make_data_array` on the
    LAST call: `dictWhModelArray`): request as `wh_numpy` (no `init`); every call
    of `pieces` continues from the previous `WeightDict`.  The reply lists the
    dict through `lwFromDict` (rows = keys, cols = union of the row keys) and says
    which type the real call returns. -/
def opDictWh (j : Json) : M Json := do
  let pieces ← getPieces j
  let p ← getPolicy j "policy"
  let ct ← asTable (← j.getObjVal? "cue_vectors")
  let ot ← asTable (← j.getObjVal? "outcome_vectors")
  let eta := trD j "eta" 0
  let rec go (k : Nat) (W : WDict String String TR) :
      List (List (Event String String)) → Except (PyErr × Nat) (WDict String String TR)
    | [] => .ok W
    | es :: rest =>
      match dictWhModel p eta ct ot W es with
      | .error e => .error (e, k)
      | .ok D => go (k + 1) D rest
  match go 0 [] pieces with
  | .error (e, k) => pure (jPyErr e k)
  | .ok D =>
    let r := lwJsonRC (lwFromDict D)
    pure (r.setObjVal! "result_type"
      (Json.str (if getBoolD j "make_data_array" false then "DataArray" else "WeightDict")))

/-- op wh_chain: `whChainRunD` (= `Pyndl.whChainRun`, PyndlProofs/DriverBridge.lean
    `whChainRunD_eq`): a chain of `wh.wh` calls, every call continuing from the
    matrix the previous one returned (`weights=`), through the model's own
    continuation branch of `whModel` (label checks, re-alignment, extension).
    request: as op `wh` (flavour, policy, chunk, eta | beta1/beta2/lambda, cue_vectors, outcome_vectors,
             optional init) with "pieces": [[[cues,outcomes],…],…] instead of "events"
    reply:   {"rows":[…],"cols":[…],"cells":[[i,j,"num/den"],…],"bits":n}
          or {"err":"Raised:…","failed_piece":k} -/
def opWhChain (j : Json) : M Json := do
  let fl ← match (← getStr j "flavour") with
    | "r2r" => pure WhFlavour.r2r | "b2r" => pure WhFlavour.b2r | "r2b" => pure WhFlavour.r2b
    | _ => .error "bad flavour"
  let pieces ← getPieces j
  let p ← getPolicy j "policy"
  let ct ← getTableOpt j "cue_vectors"
  let ot ← getTableOpt j "outcome_vectors"
  let W0 ← getLWOpt j "init"
  let one : TR := TR.ofRat 1
  let parts : List WhPartD := pieces.map (fun es => ⟨p, getNatD j "chunk" 10, es⟩)
  let run (ps : List WhPartD) :=
    whChainRunD fl (trD j "eta" 0) (trD j "beta1" 0) (trD j "beta2" 0) (trD j "lambda" one) ct ot W0 ps
  match run parts with
  | .error e =>
    let k := ((List.range parts.length).find? (fun k =>
      match run (parts.take (k + 1)) with | .error _ => true | .ok _ => false)).getD 0
    pure ((jErr e).setObjVal! "failed_piece" (jNat k))
  | .ok none => .error "wh_chain: no call"
  | .ok (some w) => pure (lwJsonRC w)

def handleWH? (op : String) (j : Json) : Option (M Json) :=
  if op == "wh" then some (opWh j)
  else if op == "kernel_wh" then some (opKernelWh j)
  else if op == "wh_chain" then some (opWhChain j)
  else if op == "wh_numpy" then some (opWhNumpy j)
  else if op == "dict_wh" then some (opDictWh j)
  else none

end PyndlDriver
