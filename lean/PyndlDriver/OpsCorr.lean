/-
  Driver ops for C18 (PyndlModel.Corr).

  op "corr": {"sem": rows, "act": rows, "allow_nan": bool, "chunksize": n,
              "order": [chunk indices in execution order]}
    entries: JSON integers, or strings "num/den", "nan", "inf", "-inf"
    → {"err": "Raised:Assertion" | "Raised:Value"}
    | {"cells": [[null | ["num/den" (= nom²/den²), sign nom] …] …]}   (row jj, column ii)
-/
import PyndlDriver.Json
import PyndlModel.Corr

open Lean

namespace PyndlDriver
open Pyndl Pyndl.Corr

def asExt (j : Json) : M (Ext Rat) :=
  match j with
  | .str "nan" => pure .nan
  | .str "inf" => pure .pinf
  | .str "-inf" => pure .ninf
  | .str s => do pure (.fin (← parseRat s))
  | _ => match j.getInt? with
    | .ok i => pure (.fin (i : Rat))
    | .error _ => .error "matrix entry must be an integer or a string"

def getExtMat (j : Json) (k : String) : M (List (List (Ext Rat))) := do
  let rows ← getArr j k
  rows.toList.mapM (fun r => do (← asArr r).toList.mapM asExt)

def ratStrC (q : Rat) : String := s!"{q.num}/{q.den}"

def corrErrName : CorrErr → String
  | .assertion => "Raised:Assertion"
  | .value => "Raised:Value"

def opCorr (j : Json) : M Json := do
  let sem ← getExtMat j "sem"
  let act ← getExtMat j "act"
  let allowNan := getBoolD j "allow_nan" false
  let c := getNatD j "chunksize" 10
  if c = 0 then .error "chunksize must be ≥ 1"
  let order ← match getOpt j "order" with
    | some o => asNatList o
    -- default: the chunks in index order — a permutation of the chunk indices, as the theorems assume
    | none => pure (List.range (prangeChunks (nCols act) c).length)
  match correlation (0, 0) execCell allowNan sem act c order with
  | .error e => pure (Json.mkObj [("err", Json.str (corrErrName e))])
  | .ok rows =>
    let cj : Option (Rat × Int) → Json
      | none => Json.null
      | some (q, s) => Json.arr #[Json.str (ratStrC q), Json.num (JsonNumber.fromInt s)]
    pure (Json.mkObj [("cells", Json.arr (rows.map (fun r => Json.arr (r.map cj).toArray)).toArray),
                      ("n_chunks", jNat (prangeChunks (nCols act) c).length)])

def handleCorr? (op : String) (j : Json) : Option (M Json) :=
  match op with
  | "corr" => some (opCorr j)
  | _ => none

end PyndlDriver
