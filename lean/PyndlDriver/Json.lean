/- JSON helpers for the driver -/
import Lean.Data.Json
import PyndlModel

open Lean

namespace PyndlDriver
open Pyndl

abbrev M := Except String

def getStr (j : Json) (k : String) : M String :=
  match j.getObjVal? k with
  | .ok (.str s) => .ok s
  | _ => .error s!"missing string field {k}"

def getNat (j : Json) (k : String) : M Nat :=
  match j.getObjVal? k with
  | .ok v => match v.getNat? with
    | .ok n => .ok n
    | .error _ => .error s!"field {k} is not a natural number"
  | .error _ => .error s!"missing field {k}"

def getNatD (j : Json) (k : String) (d : Nat) : Nat :=
  match getNat j k with | .ok n => n | .error _ => d

def getBoolD (j : Json) (k : String) (d : Bool) : Bool :=
  match j.getObjVal? k with
  | .ok (.bool b) => b
  | _ => d

def getArr (j : Json) (k : String) : M (Array Json) :=
  match j.getObjVal? k with
  | .ok (.arr a) => .ok a
  | _ => .error s!"missing array field {k}"

def getOpt (j : Json) (k : String) : Option Json :=
  match j.getObjVal? k with
  | .ok .null => none
  | .ok v => some v
  | .error _ => none

def asStr : Json → M String
  | .str s => .ok s
  | _ => .error "expected string"

def asNat (j : Json) : M Nat :=
  match j.getNat? with
  | .ok n => .ok n
  | .error _ => .error "expected nat"

def asInt (j : Json) : M Int :=
  match j.getInt? with
  | .ok n => .ok n
  | .error _ => .error "expected int"

def asArr : Json → M (Array Json)
  | .arr a => .ok a
  | _ => .error "expected array"

def asStrList (j : Json) : M (List String) := do
  let a ← asArr j
  a.toList.mapM asStr

def asNatList (j : Json) : M (List Nat) := do
  let a ← asArr j
  a.toList.mapM asNat

/-- "num/den" or "num" -/
def parseRat (s : String) : M Rat :=
  match s.splitOn "/" with
  | [n] => match n.toInt? with
    | some i => .ok (i : Rat)
    | none => .error s!"bad rational {s}"
  | [n, d] => match n.toInt?, d.toNat? with
    | some i, some k => if k == 0 then .error "zero denominator" else .ok (mkRat i k)
    | _, _ => .error s!"bad rational {s}"
  | _ => .error s!"bad rational {s}"

def asTR (j : Json) : M TR := do
  let s ← asStr j
  let q ← parseRat s
  pure (TR.ofRat q)

def getTR (j : Json) (k : String) : M TR :=
  match j.getObjVal? k with
  | .ok v => asTR v
  | .error _ => .error s!"missing rational field {k}"

def asEvent (j : Json) : M (Event String String) := do
  let a ← asArr j
  match a.toList with
  | [c, o] => pure ⟨← asStrList c, ← asStrList o⟩
  | _ => .error "event must be [cues, outcomes]"

def getEvents (j : Json) (k : String) : M (List (Event String String)) := do
  let a ← getArr j k
  a.toList.mapM asEvent

def asIdEvent (j : Json) : M (Event Nat Nat) := do
  let a ← asArr j
  match a.toList with
  | [c, o] => pure ⟨← asNatList c, ← asNatList o⟩
  | _ => .error "event must be [cues, outcomes]"

def getIdEvents (j : Json) (k : String) : M (List (Event Nat Nat)) := do
  let a ← getArr j k
  a.toList.mapM asIdEvent

def getPolicy (j : Json) (k : String) : M DupPolicy :=
  match j.getObjVal? k with
  | .ok (.str "error") => .ok .error
  | .ok (.str "dedup") => .ok .dedup
  | .ok (.str "keep") => .ok .keep
  | _ => .error s!"bad policy field {k}"

def errName : Err → String
  | .value => "Raised:Value" | .io => "Raised:IO" | .key => "Raised:Key"
  | .type => "Raised:Type" | .other => "Raised:Other"

def jErr (e : Err) : Json := Json.mkObj [("err", Json.str (errName e))]

def jStrs (xs : List String) : Json := Json.arr (xs.map Json.str).toArray
def jNat (n : Nat) : Json := Json.num (JsonNumber.fromNat n)
def jNats (xs : List Nat) : Json := Json.arr (xs.map jNat).toArray

def hexDigit (n : Nat) : Char := "0123456789abcdef".toList.getD n '0'
def toHex (bs : Bytes) : String :=
  String.ofList (bs.flatMap (fun b => [hexDigit (b.toNat / 16), hexDigit (b.toNat % 16)]))

def hexVal (c : Char) : Nat :=
  if '0' ≤ c ∧ c ≤ '9' then c.toNat - '0'.toNat
  else if 'a' ≤ c ∧ c ≤ 'f' then c.toNat - 'a'.toNat + 10 else 0

def fromHex (s : String) : Bytes :=
  let rec go : List Char → Bytes
    | a :: b :: rest => UInt8.ofNat (hexVal a * 16 + hexVal b) :: go rest
    | _ => []
  go s.toList

def jEvent (e : Event Nat Nat) : Json := Json.arr #[jNats e.cues, jNats e.outcomes]
def jSEvent (e : Event String String) : Json := Json.arr #[jStrs e.cues, jStrs e.outcomes]

end PyndlDriver
