/-
  PyndlDriver.ModelCopies — Mathlib-free COPIES of the model definitions that
  live in proof files (PyndlProofs/Chain.lean, WHChain.lean, AttrsNdl.lean,
  Faults.lean import Mathlib, so the native driver cannot import them).

  Every definition here is the definition of the proof file, token for token,
  with the suffix `D`; `PyndlProofs/DriverBridge.lean` imports BOTH files and
  proves each copy equal to the original (`chainRunD_eq`, `whChainRunD_eq`,
  `ndlChainMetaD_eq`, `failingJobD_eq`): what the driver evaluates is, by a
  kernel-checked equation, the function the theorems of C03 / C08 / C16 / C05
  are about.  (Moving the originals into PyndlModel/ would make the copies
  unnecessary.)
-/
import PyndlModel

namespace PyndlDriver
open Pyndl

/-! ## PyndlProofs/Chain.lean: chains of learner calls -/

/-- copy of `Pyndl.ChainState` -/
inductive ChainStateD (R : Type) where
  | dict (W : WDict String String R)
  | matrix (w : LW R)

/-- copy of `Pyndl.PartLearner` -/
inductive PartLearnerD where
  | dict (p : DupPolicy) (makeDataArray : Bool)
  | ndl (cfg : NdlCfg)

abbrev PartD := PartLearnerD × List (Event String String)

section Chain
variable {R : Type} [Add R] [Sub R] [Mul R] [Zero R]

/-- copy of `Pyndl.toDictArg` -/
def toDictArgD : Option (ChainStateD R) → WDict String String R
  | none => []
  | some (.dict W) => W
  | some (.matrix w) => dictFromLW w

/-- copy of `Pyndl.toNdlArg` -/
def toNdlArgD : Option (ChainStateD R) → Option (LW R)
  | none => none
  | some (.dict W) => some (lwFromDict W)
  | some (.matrix w) => some w

/-- copy of `Pyndl.chainStep` -/
def chainStepD (magic version : Nat) (alpha β₁ β₂ lam : R) (s : Option (ChainStateD R)) :
    PartLearnerD → List (Event String String) → Except Err (ChainStateD R)
  | .dict p mk, es =>
    match dictNdl p (fun _ => alpha) β₁ β₂ lam (toDictArgD s) es with
    | none => .error .value
    | some W => .ok (if mk then .matrix (lwFromDict W) else .dict W)
  | .ndl cfg, es =>
    match ndlCall magic version cfg alpha β₁ β₂ lam (toNdlArgD s) es with
    | .error e => .error e
    | .ok (w, _) => .ok (.matrix w)

/-- copy of `Pyndl.chainRun` -/
def chainRunD (magic version : Nat) (alpha β₁ β₂ lam : R) :
    Option (ChainStateD R) → List PartD → Except Err (Option (ChainStateD R))
  | s, [] => .ok s
  | s, pt :: ps =>
    match chainStepD magic version alpha β₁ β₂ lam s pt.1 pt.2 with
    | .error e => .error e
    | .ok s' => chainRunD magic version alpha β₁ β₂ lam (some s') ps

end Chain

/-! ## PyndlProofs/WHChain.lean: chains of `wh.wh` calls -/

/-- copy of `Pyndl.WhPart` -/
structure WhPartD where
  policy : DupPolicy
  chunk : Nat
  events : List (Event String String)

section WhChain
variable {R : Type} [Add R] [Sub R] [Mul R] [Zero R]

/-- copy of `Pyndl.whChainRun` -/
def whChainRunD (fl : WhFlavour) (eta β₁ β₂ lam : R) (cueTab outTab : Option (VecTable R)) :
    Option (LW R) → List WhPartD → Except Err (Option (LW R))
  | s, [] => .ok s
  | s, pt :: ps =>
    match whModel fl pt.policy eta β₁ β₂ lam cueTab outTab pt.chunk s pt.events with
    | .error e => .error e
    | .ok w => whChainRunD fl eta β₁ β₂ lam cueTab outTab (some w) ps

end WhChain

/-! ## PyndlProofs/AttrsNdl.lean: `ndl.ndl` composed with `_attributes` -/

open Pyndl.Attrs in
/-- copy of `Pyndl.methodStr` -/
def methodStrD : Method → Str
  | .threading => "threading".toList
  | .openmp => "openmp".toList

open Pyndl.Attrs in
/-- copy of `Pyndl.decStr` -/
def decStrD (n : Nat) : Str := Nat.toDigits 10 n

open Pyndl.Attrs in
/-- copy of `Pyndl.NdlRun` -/
structure NdlRunD (R : Type) where
  cfg : NdlCfg
  alpha : R
  β₁ : R
  β₂ : R
  lam : R
  path : Str
  events : List (Event String String)
  alphaRepr : Str
  betasRepr : Str
  lambdaRepr : Str
  env : Env

section NdlMeta
open Pyndl.Attrs
variable {R : Type} [Add R] [Sub R] [Mul R] [Zero R]

/-- copy of `Pyndl.NdlRun.input` -/
def NdlRunD.input (r : NdlRunD R) (n : Nat) : CallInput :=
  { path := some r.path, numberEvents := decStrD n, alphaScalar := true, alphaRepr := r.alphaRepr,
    betas := r.betasRepr, lambda := r.lambdaRepr, method := methodStrD r.cfg.method, env := r.env }

/-- copy of `Pyndl.ndlCallMeta` -/
def ndlCallMetaD (magic version : Nat) (r : NdlRunD R) (s : Option (LW R × Attrs)) : Except Err (LW R × Attrs) :=
  match ndlCall magic version r.cfg r.alpha r.β₁ r.β₂ r.lam (s.map (·.1)) r.events with
  | .error e => .error e
  | .ok (w, n) => .ok (w, attributes (mkCall .ndl (r.input n)) (s.map (·.2)))

/-- copy of `Pyndl.ndlChainMeta` -/
def ndlChainMetaD (magic version : Nat) : Option (LW R × Attrs) → List (NdlRunD R) → Except Err (Option (LW R × Attrs))
  | s, [] => .ok s
  | s, r :: rs =>
    match ndlCallMetaD magic version r s with
    | .error e => .error e
    | .ok x => ndlChainMetaD magic version (some x) rs

end NdlMeta

/-! ## PyndlProofs/Faults.lean: the failing-job oracle of an event file -/

/-- copy of `Pyndl.failingJob` -/
def failingJobD (magic version : Nat) (p : DupPolicy) (ids : List (Event Nat Nat)) (per j : Nat) : Bool :=
  match (writeEvents magic version p ids (j * per) ((j + 1) * per)).2 with
  | .dupError _ => true
  | .overflow => true
  | _ => false

end PyndlDriver
