/- JSON op for the model of `pyndl.activation.activation` (C12) -/
import PyndlDriver.Json
import PyndlModel.Activation
import PyndlModel.ActivationMP

open Lean

namespace PyndlDriver
open Pyndl

private def jTRs (xs : List TR) : Json := Json.arr (xs.map (fun v => Json.str v.toStr)).toArray

/-- op activation: {kind: "matrix"|"dict", policy, ignore_missing, strict,
    outcomes, cues, vals (matrix)  |  rows: [[o, [[c, v], ...]], ...] (dict), events: [[cues...], ...]} -/
def opActivation (j : Json) : M Json := do
  let kind ← getStr j "kind"
  let p ← getPolicy j "policy"
  let evs ← (← getArr j "events").toList.mapM asStrList
  if kind == "matrix" then
    let outs ← asStrList (← j.getObjVal? "outcomes")
    let cues ← asStrList (← j.getObjVal? "cues")
    let vals ← (← getArr j "vals").toList.mapM asTR
    let w : LW TR := ⟨outs, cues, vals.toArray⟩
    match activationMatrix p (getBoolD j "ignore_missing" false) w evs with
    | .error e => pure (jErr e)
    | .ok rows => pure (Json.mkObj [("outcomes", jStrs outs), ("by_event", Json.arr (rows.map jTRs).toArray)])
  else
    let rowsJ ← getArr j "rows"
    let rows ← rowsJ.toList.mapM (fun r => do
      let a ← asArr r
      match a.toList with
      | [o, cells] =>
        let o ← asStr o
        let cells ← (← asArr cells).toList.mapM (fun c => do
          let ca ← asArr c
          match ca.toList with
          | [k, v] => pure ((← asStr k), (← asTR v))
          | _ => .error "bad cell")
        pure (o, cells)
      | _ => .error "bad row")
    let strict := getBoolD j "strict" false
    -- events are consumed lazily: the policy error of an earlier event wins
    let cuesPerEvent : Except Err (List (List String)) := evs.mapM (actCues p)
    match cuesPerEvent with
    | .error e => pure (jErr e)
    | .ok ces =>
      let res : Except Err (List (String × List TR)) := rows.mapM (fun (o, row) => do
        let vs ← ces.mapM (dictRowAct strict row)
        pure (o, vs))
      match res with
      | .error e => pure (jErr e)
      | .ok rs => pure (Json.mkObj [("by_outcome", Json.arr (rs.map (fun (o, vs) =>
          Json.arr #[Json.str o, jTRs vs])).toArray)])

/-- op activation_mp: the matrix request of `activation` plus `"order": [k, ...]`
    (the completion order of the per-event tasks; the harness sends a permutation of
    `0 … n_events-1`): the model of the `n_jobs >= 2` path on a zero-initialised
    shared buffer.  A store outside the buffer (an `order` entry that is no event
    index) is answered `Raised:Other`. -/
def opActivationMP (j : Json) : M Json := do
  let p ← getPolicy j "policy"
  let evs ← (← getArr j "events").toList.mapM asStrList
  let outs ← asStrList (← j.getObjVal? "outcomes")
  let cues ← asStrList (← j.getObjVal? "cues")
  let vals ← (← getArr j "vals").toList.mapM asTR
  let order ← asNatList (← j.getObjVal? "order")
  let w : LW TR := ⟨outs, cues, vals.toArray⟩
  match activationMatrixMP p (getBoolD j "ignore_missing" false) w evs order (mpZeros outs.length evs.length) with
  | .error e => pure (jErr e)
  | .ok rows => pure (Json.mkObj [("outcomes", jStrs outs), ("by_event", Json.arr (rows.map jTRs).toArray)])

def handleAct? (op : String) (j : Json) : Option (M Json) :=
  if op == "activation" then some (opActivation j)
  else if op == "activation_mp" then some (opActivationMP j) else none

end PyndlDriver
