/- op plugins: every topic file contributes `handle<Topic>? : String → Json → Option (M Json)` -/
import PyndlDriver.OpsCreate

open Lean

namespace PyndlDriver

def plugins : List (String → Json → Option (M Json)) :=
  [handleCreate?]

def handlePlugin? (op : String) (j : Json) : Option (M Json) :=
  plugins.findSome? (fun h => h op j)

end PyndlDriver
