/- op plugins: every topic file contributes `handle<Topic>? : String → Json → Option (M Json)` -/
import PyndlDriver.OpsCreate
import PyndlDriver.OpsText
import PyndlDriver.OpsCorpus
import PyndlDriver.OpsAct
import PyndlDriver.OpsWH
import PyndlDriver.OpsAttrs
import PyndlDriver.OpsBand
import PyndlDriver.OpsCorr
import PyndlDriver.OpsFilter
import PyndlDriver.OpsEffects

open Lean

namespace PyndlDriver

def plugins : List (String → Json → Option (M Json)) :=
  [handleCreate?, handleText?, handleCorpus?, handleAct?, handleWH?, handleAttrs?, handleBand?, handleCorr?, handleFilter?, handleEffects?]

def handlePlugin? (op : String) (j : Json) : Option (M Json) :=
  plugins.findSome? (fun h => h op j)

end PyndlDriver
