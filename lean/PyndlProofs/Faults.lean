/-
  PyndlProofs.Faults — learner-level fault theorems (C05).

  * the oracle `failing : Nat → Bool` of `simulateF` (PyndlModel.Chunking) is
    INSTANTIATED from an event file: `failingJob` = "`write_events` of job `j`
    raises" (`writeEvents … = dupError / overflow`), characterised by the
    events of window `j` (`failingJob_iff`), and `conversion_dup_raises` /
    `conversion_overflow_raises` run the submit-loop model with it;
  * `jobResult` (the hand-written callback view) is tied to `writeEvents`
    (`jobResult_eq_writeEvents`);
  * the Widrow-Hoff learner's fault theorems are re-exported from
    PyndlProofs.WHSpec (owned by another work package: only wrapped here).
  The `ndl.ndl` statements themselves are in PyndlProofs.NdlSpec / NdlCall
  (`ndlCall_dup_raises`, `ndlCall_perFile_overflow`, `ndlModel_perJob_errors`).
-/
import PyndlProofs.NdlCall
import PyndlProofs.WHSpec

set_option linter.unusedSectionVars false
set_option linter.unusedVariables false

namespace Pyndl
open List

/-! ## the failing-job oracle of an event file -/

/-- job `j` of the conversion FAILS (its `write_events` raises something that is
    not the `StopIteration` protocol): a rejected duplicate in its window, or
    the header estimate does not fit 32 bits -/
def failingJob (magic version : Nat) (p : DupPolicy) (ids : List (Event Nat Nat)) (per j : Nat) : Bool :=
  match (writeEvents magic version p ids (j * per) ((j + 1) * per)).2 with
  | .dupError _ => true
  | .overflow => true
  | _ => false

theorem windowEvents_window (p : DupPolicy) (ids : List (Event Nat Nat)) (per j : Nat) :
    windowEvents p ids (j * per) ((j + 1) * per) = windowEvents.go p (j * per) (chunkOf per ids j) := by
  unfold windowEvents chunkOf
  rw [window_width]

/-- `write_events` of job `j`, completely: overflow / the first rejected event /
    the window's policy-processed events with the three result kinds -/
theorem writeEvents_job (magic version : Nat) (p : DupPolicy) (ids : List (Event Nat Nat)) (per j : Nat)
    (hU : per < 4294967296) :
    (applyPolicyAll p (chunkOf per ids j) = none ∧
      ∃ i, writeEvents magic version p ids (j * per) ((j + 1) * per) = (none, .dupError i)) ∨
    (∃ win, applyPolicyAll p (chunkOf per ids j) = some win ∧ win.length = (chunkOf per ids j).length ∧
      writeEvents magic version p ids (j * per) ((j + 1) * per) =
        if win.length = 0 then (none, .empty)
        else if win.length ≠ per then (some (encodeChunk magic version win), .stopped win.length)
        else (some (encodeChunk magic version win), .ok win.length)) := by
  cases hp : applyPolicyAll p (chunkOf per ids j) with
  | none =>
    left
    obtain ⟨i, hi⟩ := windowEvents_go_error p _ (j * per) hp
    refine ⟨rfl, i, ?_⟩
    unfold writeEvents
    rw [if_neg (window_no_overflow per j hU), windowEvents_window, hi]
  | some win =>
    right
    refine ⟨win, rfl, applyPolicyAll_length p _ win hp, ?_⟩
    unfold writeEvents
    rw [if_neg (window_no_overflow per j hU), windowEvents_window,
      windowEvents_go_ok p _ win (j * per) hp, window_width]
    rfl

/-- **the oracle is the event file**: for a legal chunk size job `j` fails iff the
    duplicate policy rejects some event of ITS window -/
theorem failingJob_iff (magic version : Nat) (p : DupPolicy) (ids : List (Event Nat Nat)) (per j : Nat)
    (hU : per < 4294967296) :
    failingJob magic version p ids per j = true ↔ ∃ e ∈ chunkOf per ids j, applyPolicy p e = none := by
  rw [← applyPolicyAll_none_iff]
  unfold failingJob
  rcases writeEvents_job magic version p ids per j hU with ⟨hn, i, hw⟩ | ⟨win, hs, _, hw⟩
  · rw [hw]; simp [hn]
  · rw [hw, hs]
    constructor
    · intro h
      split_ifs at h
    · intro h; cases h

/-- … and `writeEvents … = dupError` says exactly that -/
theorem writeEvents_dupError_iff (magic version : Nat) (p : DupPolicy) (ids : List (Event Nat Nat)) (per j : Nat)
    (hU : per < 4294967296) :
    (∃ i, (writeEvents magic version p ids (j * per) ((j + 1) * per)).2 = .dupError i) ↔
      failingJob magic version p ids per j = true := by
  unfold failingJob
  rcases writeEvents_job magic version p ids per j hU with ⟨hn, i, hw⟩ | ⟨win, hs, _, hw⟩
  · rw [hw]; simp
  · rw [hw]
    constructor
    · rintro ⟨i, h⟩
      split_ifs at h
    · intro h
      split_ifs at h

/-- with `events_per_file ≥ 2³²` EVERY job fails (`OverflowError`) -/
theorem failingJob_overflow (magic version : Nat) (p : DupPolicy) (ids : List (Event Nat Nat)) (per j : Nat)
    (hU : 4294967296 ≤ per) : failingJob magic version p ids per j = true := by
  unfold failingJob
  rw [writeEvents_overflow magic version p ids per j hU]

/-- **`jobResult` is what `write_events` reports**: for a job whose window the
    policy accepts, the number of events written is `(jobResult n per j).count`,
    and the job "closes the pool" (`StopIteration` for a partly filled file, or
    the return value 0) exactly when `jobResult` says so -/
theorem jobResult_eq_writeEvents (magic version : Nat) (p : DupPolicy) (ids : List (Event Nat Nat)) (per j : Nat)
    (hp1 : 1 ≤ per) (hU : per < 4294967296) (hacc : failingJob magic version p ids per j = false) :
    let c := (jobResult ids.length per j).count
    (writeEvents magic version p ids (j * per) ((j + 1) * per)).2 =
      (if c = 0 then .empty else if c < per then .stopped c else .ok c) ∧
    ((jobResult ids.length per j).closes = true ↔
      (writeEvents magic version p ids (j * per) ((j + 1) * per)).2 ≠ .ok per) := by
  intro c
  have hc : c = (chunkOf per ids j).length := jobResult_count ids.length per j ids rfl
  have hclose : (jobResult ids.length per j).closes = decide (c < per) := rfl
  clear_value c
  have hcle : c ≤ per := by rw [hc, length_chunkOf]; omega
  rcases writeEvents_job magic version p ids per j hU with ⟨hn, i, hw⟩ | ⟨win, hs, hl, hw⟩
  · unfold failingJob at hacc
    rw [hw] at hacc; cases hacc
  · rw [hw, hl, ← hc, hclose]
    by_cases h0 : c = 0
    · subst h0
      have : (0 : Nat) < per := by omega
      simp [this]
    · by_cases hlt : c < per
      · have hne : c ≠ per := by omega
        simp [h0, hne, hlt]
      · have heq : c = per := by omega
        subst heq
        simp [h0]

/-! ## the submit loop with the oracle of the file -/

/-- **a rejected duplicate anywhere ⇒ the conversion raises, for every
    completion order**: with the failing-job oracle OF THE EVENT FILE, the first
    failing job `f0` is at or before the job of the first offending event, no
    earlier job closes the pool, and for every delay oracle `simulateF` reports
    the error no later than `f0` completes.  (The sequential model `makeChunks`
    returns `ValueError` on the same hypothesis: `makeChunks_error`.) -/
theorem conversion_dup_raises (magic version : Nat) (p : DupPolicy) (ids : List (Event Nat Nat))
    (per burst : Nat) (delay : Nat → Nat) (hp1 : 1 ≤ per) (hU : per < 4294967296)
    (h : applyPolicyAll p ids = none) :
    ∃ f0, failingJob magic version p ids per f0 = true ∧ f0 ≤ ids.length / per ∧
      (∀ j, j < f0 → closesF ids.length per (failingJob magic version p ids per) j = false) ∧
      (let H := tDone delay burst f0
       let r := simulateF ids.length per burst delay (failingJob magic version p ids per) f0 H
       r.1 ≤ H ∧ r.2.1 = true) := by
  obtain ⟨e, he, hpe⟩ := (applyPolicyAll_none_iff p ids).mp h
  obtain ⟨i, hi, rfl⟩ := List.getElem_of_mem he
  have hex : ∃ j, failingJob magic version p ids per j = true :=
    ⟨i / per, (failingJob_iff magic version p ids per _ hU).mpr
      ⟨ids[i], by unfold chunkOf; exact mem_window ids i per (by omega) hi, hpe⟩⟩
  have hle : Nat.find hex ≤ i / per := Nat.find_le
    ((failingJob_iff magic version p ids per _ hU).mpr
      ⟨ids[i], by unfold chunkOf; exact mem_window ids i per (by omega) hi, hpe⟩)
  have hdiv : i / per ≤ ids.length / per := Nat.div_le_div_right (by omega)
  have hfirst : ∀ j, j < Nat.find hex → closesF ids.length per (failingJob magic version p ids per) j = false := by
    intro j hj
    unfold closesF
    have h1 : failingJob magic version p ids per j = false := by
      have := Nat.find_min hex hj
      simpa using this
    have h2 : (jobResult ids.length per j).closes = false := by
      cases hc : (jobResult ids.length per j).closes with
      | false => rfl
      | true =>
        have := (jobResult_closes_iff ids.length per j hp1).mp hc
        omega
    rw [h1, h2]; rfl
  exact ⟨Nat.find hex, Nat.find_spec hex, by omega, hfirst,
    convert_raises ids.length per burst delay _ (Nat.find hex) hfirst (Nat.find_spec hex)⟩

/-- **`events_per_file ≥ 2³²` ⇒ the conversion raises, for every completion
    order**: job 0 fails (`OverflowError`) and is always submitted -/
theorem conversion_overflow_raises (magic version : Nat) (p : DupPolicy) (ids : List (Event Nat Nat))
    (per burst : Nat) (delay : Nat → Nat) (hU : 4294967296 ≤ per) :
    let H := tDone delay burst 0
    let r := simulateF ids.length per burst delay (failingJob magic version p ids per) 0 H
    r.1 ≤ H ∧ r.2.1 = true :=
  convert_raises ids.length per burst delay _ 0 (fun j hj => by omega)
    (failingJob_overflow magic version p ids per 0 hU)

/-- no duplicate, legal chunk size ⇒ no job fails, and the submit loop does not raise -/
theorem conversion_no_fault (magic version : Nat) (p : DupPolicy) (ids ids' : List (Event Nat Nat))
    (per burst : Nat) (delay : Nat → Nat) (hU : per < 4294967296)
    (h : applyPolicyAll p ids = some ids') (f0 H : Nat) :
    (∀ j, failingJob magic version p ids per j = false) ∧
    (simulateF ids.length per burst delay (failingJob magic version p ids per) f0 H).2.1 = false := by
  have hall : ∀ j, failingJob magic version p ids per j = false := by
    intro j
    cases hf : failingJob magic version p ids per j with
    | false => rfl
    | true =>
      obtain ⟨e, he, hpe⟩ := (failingJob_iff magic version p ids per j hU).mp hf
      have hmem : e ∈ ids := by
        unfold chunkOf at he
        exact List.mem_of_mem_drop (List.mem_of_mem_take he)
      have := (applyPolicyAll_none_iff p ids).mpr ⟨e, hmem, hpe⟩
      rw [h] at this; cases this
  refine ⟨hall, ?_⟩
  have : failingJob magic version p ids per = fun _ => false := funext hall
  rw [this]
  exact convert_no_fault ids.length per burst delay f0 H

end Pyndl
