/-
  PyndlProofs.DriverBridge — the definitions the native driver evaluates
  (`PyndlDriver/ModelCopies.lean`, Mathlib-free copies with the suffix `D`) ARE
  the definitions the theorems are about (`PyndlProofs/Chain.lean`,
  `WHChain.lean`, `AttrsNdl.lean`, `Faults.lean`).

  * `chainRunD_eq`     : driver op `chain`             ↔ `Pyndl.chainRun`     (C03)
  * `whChainRunD_eq`   : driver op `wh_chain`          ↔ `Pyndl.whChainRun`   (C03, C08)
  * `ndlChainMetaD_eq` : driver op `ndl_chain_meta`    ↔ `Pyndl.ndlChainMeta` (C16)
  * `failingJobD_eq`   : driver op `conversion_faults` ↔ `Pyndl.failingJob`   (C05)

  The inductive types / structures are copied too, so the statements go through
  the obvious conversions `up`.
-/
import PyndlDriver.ModelCopies
import PyndlProofs.Chain
import PyndlProofs.WHChain
import PyndlProofs.AttrsNdl
import PyndlProofs.Faults

set_option linter.unusedSectionVars false

namespace PyndlDriver
open Pyndl

/-! ## chains (C03) -/

def ChainStateD.up {R : Type} : ChainStateD R → ChainState R
  | .dict W => .dict W
  | .matrix w => .matrix w

def PartLearnerD.up : PartLearnerD → PartLearner
  | .dict p mk => .dict p mk
  | .ndl cfg => .ndl cfg

def PartD.up (pt : PartD) : Part := (pt.1.up, pt.2)

section
variable {R : Type} [Add R] [Sub R] [Mul R] [Zero R]

theorem toDictArgD_eq (s : Option (ChainStateD R)) : toDictArgD s = toDictArg (s.map ChainStateD.up) := by
  rcases s with _ | (W | w) <;> rfl

theorem toNdlArgD_eq (s : Option (ChainStateD R)) : toNdlArgD s = toNdlArg (s.map ChainStateD.up) := by
  rcases s with _ | (W | w) <;> rfl

theorem chainStepD_eq (magic version : Nat) (alpha β₁ β₂ lam : R) (s : Option (ChainStateD R))
    (l : PartLearnerD) (es : List (Event String String)) :
    (chainStepD magic version alpha β₁ β₂ lam s l es).map ChainStateD.up =
      chainStep magic version alpha β₁ β₂ lam (s.map ChainStateD.up) l.up es := by
  cases l with
  | dict p mk =>
    simp only [chainStepD, chainStep, PartLearnerD.up, toDictArgD_eq]
    cases dictNdl p (fun _ => alpha) β₁ β₂ lam (toDictArg (s.map ChainStateD.up)) es with
    | none => rfl
    | some W => cases mk <;> rfl
  | ndl cfg =>
    simp only [chainStepD, chainStep, PartLearnerD.up, toNdlArgD_eq]
    cases ndlCall magic version cfg alpha β₁ β₂ lam (toNdlArg (s.map ChainStateD.up)) es with
    | error e => rfl
    | ok r => rfl

/-- **what the driver op `chain` evaluates is `chainRun`** -/
theorem chainRunD_eq (magic version : Nat) (alpha β₁ β₂ lam : R) (s : Option (ChainStateD R)) (parts : List PartD) :
    (chainRunD magic version alpha β₁ β₂ lam s parts).map (Option.map ChainStateD.up) =
      chainRun magic version alpha β₁ β₂ lam (s.map ChainStateD.up) (parts.map PartD.up) := by
  induction parts generalizing s with
  | nil => rfl
  | cons pt ps ih =>
    have h := chainStepD_eq magic version alpha β₁ β₂ lam s pt.1 pt.2
    simp only [chainRunD, List.map_cons, chainRun, PartD.up]
    rw [← h]
    cases chainStepD magic version alpha β₁ β₂ lam s pt.1 pt.2 with
    | error e => rfl
    | ok s' => exact ih (some s')

end

/-! ## chains of `wh.wh` calls (C03, C08) -/

def WhPartD.up (pt : WhPartD) : WhPart := ⟨pt.policy, pt.chunk, pt.events⟩

section
variable {R : Type} [Add R] [Sub R] [Mul R] [Zero R]

/-- **what the driver op `wh_chain` evaluates is `whChainRun`** -/
theorem whChainRunD_eq (fl : WhFlavour) (eta β₁ β₂ lam : R) (cueTab outTab : Option (VecTable R))
    (s : Option (LW R)) (parts : List WhPartD) :
    whChainRunD fl eta β₁ β₂ lam cueTab outTab s parts =
      whChainRun fl eta β₁ β₂ lam cueTab outTab s (parts.map WhPartD.up) := by
  induction parts generalizing s with
  | nil => rfl
  | cons pt ps ih =>
    simp only [whChainRunD, List.map_cons, whChainRun, WhPartD.up]
    cases whModel fl pt.policy eta β₁ β₂ lam cueTab outTab pt.chunk s pt.events with
    | error e => rfl
    | ok w => exact ih (some w)

end

/-! ## `ndl.ndl` with its metadata (C16) -/

theorem methodStrD_eq (m : Method) : methodStrD m = methodStr m := by cases m <;> rfl

theorem decStrD_eq (n : Nat) : decStrD n = decStr n := rfl

def NdlRunD.up {R : Type} (r : NdlRunD R) : NdlRun R :=
  { cfg := r.cfg, alpha := r.alpha, β₁ := r.β₁, β₂ := r.β₂, lam := r.lam, path := r.path, events := r.events,
    alphaRepr := r.alphaRepr, betasRepr := r.betasRepr, lambdaRepr := r.lambdaRepr, env := r.env }

section
open Pyndl.Attrs
variable {R : Type} [Add R] [Sub R] [Mul R] [Zero R]

theorem NdlRunD.input_eq (r : NdlRunD R) (n : Nat) : r.input n = r.up.input n := by
  simp only [NdlRunD.input, NdlRun.input, NdlRunD.up, methodStrD_eq, decStrD_eq]

theorem ndlCallMetaD_eq (magic version : Nat) (r : NdlRunD R) (s : Option (LW R × Attrs)) :
    ndlCallMetaD magic version r s = ndlCallMeta magic version r.up s := by
  simp only [ndlCallMetaD, ndlCallMeta, NdlRunD.input_eq]
  rfl

/-- **what the driver op `ndl_chain_meta` evaluates is `ndlChainMeta`** -/
theorem ndlChainMetaD_eq (magic version : Nat) (s : Option (LW R × Attrs)) (rs : List (NdlRunD R)) :
    ndlChainMetaD magic version s rs = ndlChainMeta magic version s (rs.map NdlRunD.up) := by
  induction rs generalizing s with
  | nil => rfl
  | cons r rs ih =>
    simp only [ndlChainMetaD, List.map_cons, ndlChainMeta, ndlCallMetaD_eq]
    cases ndlCallMeta magic version r.up s with
    | error e => rfl
    | ok x => exact ih (some x)

end

/-! ## the failing-job oracle (C05) -/

/-- **what the driver op `conversion_faults` evaluates is `failingJob`** -/
theorem failingJobD_eq (magic version : Nat) (p : DupPolicy) (ids : List (Event Nat Nat)) (per j : Nat) :
    failingJobD magic version p ids per j = failingJob magic version p ids per j := rfl

end PyndlDriver
