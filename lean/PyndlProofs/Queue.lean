import PyndlModel.Queue
import Mathlib.Algebra.BigOperators.Group.List.Basic
import Mathlib.Tactic.Ring

set_option linter.unusedSectionVars false
set_option linter.unusedSimpArgs false

namespace Pyndl
open List

theorem qMeasure_eq (s : QState) :
    qMeasure s = 2 * s.queue.length + (s.threads.map tWeight).sum := rfl

theorem sum_set (l : List TState) (t : Nat) (y x : TState) (h : l[t]? = some y) :
    ((l.set t x).map tWeight).sum + tWeight y = (l.map tWeight).sum + tWeight x := by
  induction l generalizing t with
  | nil => simp at h
  | cons a l ih =>
    cases t with
    | zero =>
      simp at h; subst h
      simp only [List.set_cons_zero, List.map_cons, List.sum_cons]; omega
    | succ t =>
      simp at h
      have := ih t h
      simp only [List.set_cons_succ, List.map_cons, List.sum_cons]; omega

/-- every transition decreases the measure by at least one -/
theorem qStep_measure (s s' : QState) (a : QAction) (h : qStep s a = some s') :
    qMeasure s' + 1 ≤ qMeasure s := by
  rw [qMeasure_eq, qMeasure_eq]
  cases a with
  | take t =>
    simp only [qStep] at h
    split at h
    · rename_i p rest ht hq
      simp only [Option.some.injEq] at h; subst h
      have := sum_set s.threads t .atHead (.running p) ht
      simp only [tWeight] at this
      simp only [hq, List.length_cons]
      omega
    · simp at h
  | exit t =>
    simp only [qStep] at h
    split at h
    · rename_i ht hq
      simp only [Option.some.injEq] at h; subst h
      have := sum_set s.threads t .atHead .done ht
      simp only [tWeight] at this
      simp only [hq, List.length_nil]
      omega
    · simp at h
  | finish t =>
    simp only [qStep] at h
    split at h
    · rename_i p ht
      simp only [Option.some.injEq] at h; subst h
      have := sum_set s.threads t (.running p) .atHead ht
      simp only [tWeight] at this
      show 2 * s.queue.length + ((s.threads.set t TState.atHead).map tWeight).sum + 1 ≤ _
      omega
    · simp at h
  | fail t =>
    simp only [qStep] at h
    split at h
    · rename_i p ht
      simp only [Option.some.injEq] at h; subst h
      have := sum_set s.threads t (.running p) .failed ht
      simp only [tWeight] at this
      show 2 * s.queue.length + ((s.threads.set t TState.failed).map tWeight).sum + 1 ≤ _
      omega
    · simp at h

/-- protocol invariant: nothing is lost, nothing handed out twice; a worker
    has only left the loop if the queue was seen empty -/
structure QInv (parts : List Nat) (s : QState) : Prop where
  conserve : s.taken ++ s.queue = parts
  done_empty : (∃ t : Nat, s.threads[t]? = some TState.done) → s.queue = []

theorem getElem?_set_cases {α : Type} (l : List α) (t u : Nat) (x y : α)
    (h : (l.set t x)[u]? = some y) : y = x ∨ l[u]? = some y := by
  by_cases htu : t = u
  · subst htu
    by_cases hlt : t < l.length
    · rw [List.getElem?_set_self hlt] at h
      simp at h; exact Or.inl h.symm
    · rw [List.getElem?_eq_none (by simp; omega)] at h; simp at h
  · rw [List.getElem?_set_ne htu] at h; exact Or.inr h

theorem qStep_inv (parts : List Nat) (s s' : QState) (a : QAction) (hi : QInv parts s)
    (h : qStep s a = some s') : QInv parts s' := by
  cases a with
  | take t =>
    simp only [qStep] at h
    split at h
    · rename_i p rest ht hq
      simp only [Option.some.injEq] at h; subst h
      refine ⟨?_, ?_⟩
      · simp only [List.append_assoc, List.singleton_append]
        rw [← hq]; exact hi.conserve
      · rintro ⟨u, hu⟩
        rcases getElem?_set_cases _ _ _ _ _ hu with h1 | h1
        · cases h1
        · have := hi.done_empty ⟨u, h1⟩
          rw [hq] at this; cases this
    · simp at h
  | exit t =>
    simp only [qStep] at h
    split at h
    · rename_i ht hq
      simp only [Option.some.injEq] at h; subst h
      refine ⟨?_, fun _ => rfl⟩
      rw [← hq]; exact hi.conserve
    · simp at h
  | finish t =>
    simp only [qStep] at h
    split at h
    · rename_i p ht
      simp only [Option.some.injEq] at h; subst h
      refine ⟨hi.conserve, ?_⟩
      rintro ⟨u, hu⟩
      rcases getElem?_set_cases _ _ _ _ _ hu with h1 | h1
      · cases h1
      · exact hi.done_empty ⟨u, h1⟩
    · simp at h
  | fail t =>
    simp only [qStep] at h
    split at h
    · rename_i p ht
      simp only [Option.some.injEq] at h; subst h
      refine ⟨hi.conserve, ?_⟩
      rintro ⟨u, hu⟩
      rcases getElem?_set_cases _ _ _ _ _ hu with h1 | h1
      · cases h1
      · exact hi.done_empty ⟨u, h1⟩
    · simp at h

theorem qInit_inv (p t : Nat) : QInv (List.range p) (qInit p t) := by
  refine ⟨by simp [qInit], ?_⟩
  rintro ⟨u, hu⟩
  simp only [qInit] at hu
  rw [List.getElem?_replicate] at hu
  split at hu <;> simp at hu

theorem qRun_inv (parts : List Nat) (s s' : QState) (as : List QAction) (hi : QInv parts s)
    (h : qRun s as = some s') : QInv parts s' ∧ as.length + qMeasure s' ≤ qMeasure s := by
  induction as generalizing s with
  | nil => simp [qRun] at h; subst h; exact ⟨hi, by simp⟩
  | cons a as ih =>
    simp only [qRun] at h
    cases hs : qStep s a with
    | none => simp [hs] at h
    | some s₁ =>
      simp only [hs] at h
      obtain ⟨i1, i2⟩ := ih s₁ (qStep_inv parts s s₁ a hi hs) h
      refine ⟨i1, ?_⟩
      have h3 := qStep_measure s s₁ a hs
      rw [List.length_cons]
      omega

theorem qInit_measure (p t : Nat) : qMeasure (qInit p t) = 2 * p + t := by
  rw [qMeasure_eq]
  simp [qInit, tWeight]

end Pyndl

namespace Pyndl
open List

def QAction.isFail : QAction → Bool
  | .fail _ => true
  | _ => false

theorem any_set (l : List TState) (t : Nat) (y x : TState) (P : TState → Bool) (h : l[t]? = some y) :
    (l.set t x).any P = ((l.eraseIdx t).any P || P x) := by
  induction l generalizing t with
  | nil => simp at h
  | cons a l ih =>
    cases t with
    | zero => simp [List.set, Bool.or_comm]
    | succ t =>
      simp at h
      simp only [List.set_cons_succ, List.any_cons, List.eraseIdx_cons_succ, ih t h, Bool.or_assoc]

theorem any_eq_erase (l : List TState) (t : Nat) (y : TState) (P : TState → Bool) (h : l[t]? = some y) :
    l.any P = ((l.eraseIdx t).any P || P y) := by
  induction l generalizing t with
  | nil => simp at h
  | cons a l ih =>
    cases t with
    | zero => simp at h; subst h; simp [Bool.or_comm]
    | succ t =>
      simp at h
      simp only [List.any_cons, List.eraseIdx_cons_succ, ih t h, Bool.or_assoc]

/-- a transition makes the run "raising" iff it is a failing kernel call -/
theorem qStep_raises (s s' : QState) (a : QAction) (h : qStep s a = some s') :
    qRaises s' = (qRaises s || a.isFail) := by
  unfold qRaises
  cases a with
  | take t =>
    simp only [qStep] at h
    split at h
    · rename_i p rest ht hq
      simp only [Option.some.injEq] at h; subst h
      rw [any_set _ t _ _ _ ht, any_eq_erase s.threads t _ _ ht]
      simp [QAction.isFail]
    · simp at h
  | exit t =>
    simp only [qStep] at h
    split at h
    · rename_i ht hq
      simp only [Option.some.injEq] at h; subst h
      rw [any_set _ t _ _ _ ht, any_eq_erase s.threads t _ _ ht]
      simp [QAction.isFail]
    · simp at h
  | finish t =>
    simp only [qStep] at h
    split at h
    · rename_i p ht
      simp only [Option.some.injEq] at h; subst h
      rw [any_set _ t _ _ _ ht, any_eq_erase s.threads t _ _ ht]
      simp [QAction.isFail]
    · simp at h
  | fail t =>
    simp only [qStep] at h
    split at h
    · rename_i p ht
      simp only [Option.some.injEq] at h; subst h
      rw [any_set _ t _ _ _ ht]
      simp [QAction.isFail]
    · simp at h

theorem qRun_raises (s s' : QState) (as : List QAction) (h : qRun s as = some s') :
    qRaises s' = (qRaises s || as.any QAction.isFail) := by
  induction as generalizing s with
  | nil => simp [qRun] at h; subst h; simp
  | cons a as ih =>
    simp only [qRun] at h
    cases hs : qStep s a with
    | none => simp [hs] at h
    | some s₁ =>
      simp only [hs] at h
      rw [ih s₁ h, qStep_raises s s₁ a hs]
      simp [Bool.or_assoc]

theorem qInit_not_raises (p t : Nat) : qRaises (qInit p t) = false := by
  simp [qRaises, qInit]

end Pyndl
