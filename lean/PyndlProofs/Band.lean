/-
  PyndlProofs.Band — helper lemmas for C20 (band sampling; counter files).

  Part 1 (structure of the walk) needs no property of the scalar order at all:
  whatever `≤` decides, the sample together with what is left of the
  population is a permutation of the sorted population, the back-walk never
  indexes out of range, and the iteration budget is never exhausted.
-/
import PyndlModel.Band
import Mathlib.Data.List.Perm.Basic
import Mathlib.Algebra.Order.Field.Basic
import Mathlib.Algebra.Order.BigOperators.Group.List
import Mathlib.Tactic.Linarith
import Mathlib.Tactic.Ring

set_option linter.unusedSectionVars false
set_option linter.unusedSimpArgs false
set_option linter.unusedVariables false

namespace Pyndl.Band
open List

section Structure
variable {α R : Type} [Add R] [Sub R] [Div R] [Zero R] [IntCast R] [LE R] [DecidableLE R]

/-! ### the sort is a permutation (the only fact about it the theorems need) -/

theorem insertByFreq_perm (x : α × R) (l : List (α × R)) : insertByFreq x l ~ x :: l := by
  induction l with
  | nil => exact Perm.refl _
  | cons y ys ih =>
    simp only [insertByFreq]
    split
    · exact Perm.refl _
    · exact (Perm.cons y ih).trans (Perm.swap x y ys)

theorem sortByFreq_perm (l : List (α × R)) : sortByFreq l ~ l := by
  induction l with
  | nil => exact Perm.refl _
  | cons x xs ih =>
    simp only [sortByFreq]
    exact (insertByFreq_perm x _).trans (Perm.cons x ih)

/-! ### deleting position `i` moves exactly `l[i]` out of the list -/

theorem perm_cons_eraseIdx {β : Type} (l : List β) (i : Nat) (e : β) (h : l[i]? = some e) :
    l ~ e :: l.eraseIdx i := by
  induction l generalizing i with
  | nil => simp at h
  | cons x xs ih =>
    cases i with
    | zero =>
      simp only [getElem?_cons_zero, Option.some.injEq] at h
      subst h
      exact Perm.refl _
    | succ j =>
      simp only [getElem?_cons_succ] at h
      simp only [eraseIdx_cons_succ]
      exact (Perm.cons x (ih j h)).trans (Perm.swap e x _)

/-- moving `l[i]` from the population to the end of the sample keeps the multiset `sample ++ population` -/
theorem pick_perm {β : Type} (sample pop orig : List β) (i : Nat) (e : β) (h : pop[i]? = some e)
    (hinv : sample ++ pop ~ orig) : (sample ++ [e]) ++ pop.eraseIdx i ~ orig := by
  have h1 : (sample ++ [e]) ++ pop.eraseIdx i ~ sample ++ (e :: pop.eraseIdx i) := by
    simp only [append_assoc, singleton_append]; exact Perm.refl _
  have h2 : sample ++ (e :: pop.eraseIdx i) ~ sample ++ pop :=
    Perm.append_left sample (perm_cons_eraseIdx pop i e h).symm
  exact h1.trans (h2.trans hinv)

/-! ### the back-walk -/

/-- multiset invariant through the back-walk -/
theorem backWalk_perm (step : R) (orig : List (α × R)) :
    ∀ (i : Nat) (pop : List (α × R)) (acc : R) (sample : List (α × R)) (ie : Bool),
      sample ++ pop ~ orig →
      (backWalk step i pop acc sample ie).1.sample ++ (backWalk step i pop acc sample ie).1.pop ~ orig := by
  intro i
  induction i with
  | zero => intro pop acc sample ie h; simpa only [backWalk] using h
  | succ i ih =>
    intro pop acc sample ie h
    simp only [backWalk]
    split
    · split
      · rename_i e he
        exact ih _ _ _ _ (pick_perm sample pop orig i e he h)
      · exact h
    · exact h

/-- `population[index]` inside the back-walk is always in range, the index never
    grows, and every iteration removes one element and lowers the index by one -/
theorem backWalk_shape (step : R) :
    ∀ (i : Nat) (pop : List (α × R)) (acc : R) (sample : List (α × R)) (ie : Bool),
      i ≤ pop.length →
      (backWalk step i pop acc sample ie).2 = ie ∧
      (backWalk step i pop acc sample ie).1.index ≤ i ∧
      (backWalk step i pop acc sample ie).1.pop.length + i
        = pop.length + (backWalk step i pop acc sample ie).1.index := by
  intro i
  induction i with
  | zero => intro pop acc sample ie _; simp [backWalk]
  | succ i ih =>
    intro pop acc sample ie hle
    simp only [backWalk]
    split
    · have hi : i < pop.length := hle
      rw [getElem?_eq_getElem hi]
      simp only
      have hlen : (pop.eraseIdx i).length = pop.length - 1 := by
        rw [length_eraseIdx, if_pos hi]
      have hle' : i ≤ (pop.eraseIdx i).length := by rw [hlen]; omega
      obtain ⟨h1, h2, h3⟩ := ih (pop.eraseIdx i) (acc - step) (sample ++ [pop[i]]) ie hle'
      refine ⟨h1, by omega, ?_⟩
      rw [hlen] at h3
      omega
    · exact ⟨rfl, Nat.le_refl _, rfl⟩

/-! ### the outer loop -/

/-- multiset invariant through the whole walk -/
theorem walk_perm (step : R) (orig : List (α × R)) :
    ∀ (fuel : Nat) (s s' : WalkState α R) (ie : Bool),
      walk step fuel s = some (s', ie) → s.sample ++ s.pop ~ orig → s'.sample ++ s'.pop ~ orig := by
  intro fuel
  induction fuel with
  | zero => intro s s' ie h; simp [walk] at h
  | succ fuel ih =>
    intro s s' ie h hinv
    simp only [walk] at h
    split at h
    · simp only [Option.some.injEq, Prod.mk.injEq] at h
      rw [← h.1]; exact hinv
    · rename_i e he
      split at h
      · have hb := backWalk_perm step orig s.index (s.pop.eraseIdx s.index) (s.acc + e.2 - step)
          (s.sample ++ [e]) false (pick_perm s.sample s.pop orig s.index e he hinv)
        split at h
        · simp only [Option.some.injEq, Prod.mk.injEq] at h
          rw [← h.1]; exact hb
        · exact ih _ _ _ h hb
      · exact ih _ _ _ h hinv

/-- **termination**: with `index ≤ len(population)` the measure
    `2·len(population) − index` strictly decreases in every iteration of the
    outer loop, so a budget larger than the measure is never exhausted, and the
    back-walk never raises `IndexError`. -/
theorem walk_terminates (step : R) :
    ∀ (fuel : Nat) (s : WalkState α R), s.index ≤ s.pop.length → 2 * s.pop.length - s.index < fuel →
      ∃ s', walk step fuel s = some (s', false) := by
  intro fuel
  induction fuel with
  | zero => intro s _ h; omega
  | succ fuel ih =>
    intro s hle hm
    simp only [walk]
    split
    · exact ⟨s, rfl⟩
    · rename_i e he
      have hi : s.index < s.pop.length := by
        rcases Nat.lt_or_ge s.index s.pop.length with h | h
        · exact h
        · rw [getElem?_eq_none h] at he; cases he
      have hlen : (s.pop.eraseIdx s.index).length = s.pop.length - 1 := by
        rw [length_eraseIdx, if_pos hi]
      split
      · have hle' : s.index ≤ (s.pop.eraseIdx s.index).length := by rw [hlen]; omega
        obtain ⟨h1, h2, h3⟩ := backWalk_shape step s.index (s.pop.eraseIdx s.index) (s.acc + e.2 - step)
          (s.sample ++ [e]) false hle'
        rw [hlen] at h3
        generalize backWalk step s.index (s.pop.eraseIdx s.index) (s.acc + e.2 - step) (s.sample ++ [e]) false = r at *
        obtain ⟨s1, ie1⟩ := r
        simp only at h1 h2 h3
        subst h1
        simp only [Bool.false_eq_true, if_false]
        exact ih s1 (by omega) (by omega)
      · exact ih _ (by simp only; omega) (by simp only; omega)

/-- the result does not depend on the budget once it suffices -/
theorem walk_fuel_mono (step : R) :
    ∀ (fuel : Nat) (s : WalkState α R) (r : WalkState α R × Bool) (k : Nat),
      walk step fuel s = some r → walk step (fuel + k) s = some r := by
  intro fuel
  induction fuel with
  | zero => intro s r k h; simp [walk] at h
  | succ fuel ih =>
    intro s r k h
    rw [Nat.add_right_comm]
    simp only [walk] at h ⊢
    split
    · rename_i hn; rw [hn] at h; exact h
    · rename_i e he
      rw [he] at h
      simp only at h
      split
      · rename_i hc
        rw [if_pos hc] at h
        generalize backWalk step s.index (s.pop.eraseIdx s.index) (s.acc + e.2 - step) (s.sample ++ [e]) false = b at *
        obtain ⟨s1, ie1⟩ := b
        simp only at h ⊢
        split
        · rename_i hie; rw [if_pos hie] at h; exact h
        · rename_i hie; rw [if_neg hie] at h; exact ih _ _ _ h
      · rename_i hc
        rw [if_neg hc] at h
        exact ih _ _ _ h

/-- every run returns a sample, whatever the step (no budget exhaustion, no `IndexError`) -/
theorem bandsampleRun_ok (shuffled : List (α × R)) (step : R) :
    ∃ s : WalkState α R,
      walk step (walkFuel (sortByFreq shuffled)) ⟨sortByFreq shuffled, 0, 0, []⟩ = some (s, false) ∧
      bandsampleRun shuffled step = .ok s.sample := by
  obtain ⟨s, hs⟩ := walk_terminates step (walkFuel (sortByFreq shuffled))
    ⟨sortByFreq shuffled, 0, 0, []⟩ (Nat.zero_le _) (by simp only [walkFuel]; omega)
  refine ⟨s, hs, ?_⟩
  simp only [bandsampleRun, hs]

/-- what a returned sample is: the `sample` component of a terminated walk from the sorted list -/
theorem bandsampleRun_eq_ok (shuffled : List (α × R)) (step : R) (sample : List (α × R))
    (h : bandsampleRun shuffled step = .ok sample) :
    ∃ s : WalkState α R,
      walk step (walkFuel (sortByFreq shuffled)) ⟨sortByFreq shuffled, 0, 0, []⟩ = some (s, false) ∧
      s.sample = sample := by
  obtain ⟨s, hs, hok⟩ := bandsampleRun_ok shuffled step
  rw [hok] at h
  exact ⟨s, hs, by injection h⟩

/-- the returned sample, together with the rest of the list, is a permutation of the shuffled (= filtered) list -/
theorem run_rest_perm (shuffled : List (α × R)) (step : R) (sample : List (α × R))
    (h : bandsampleRun shuffled step = .ok sample) : ∃ rest, sample ++ rest ~ shuffled := by
  obtain ⟨s, hs, rfl⟩ := bandsampleRun_eq_ok shuffled step sample h
  exact ⟨s.pop, (walk_perm _ (sortByFreq shuffled) _ _ _ _ hs (by simp)).trans
    (sortByFreq_perm shuffled)⟩

/-- a call with an `int` sample size that returns is a run with the step of line 42 -/
theorem bandsampleShuffled_eq_run (shuffled : List (α × R)) (n : Int) (sample : List (α × R))
    (h : bandsampleShuffled shuffled n = .ok sample) :
    n ≠ 0 ∧ bandsampleRun shuffled (totalFreq (sortByFreq shuffled) / (n : R)) = .ok sample := by
  by_cases hn : n = 0
  · simp [bandsampleShuffled, hn] at h
  · exact ⟨hn, by simpa [bandsampleShuffled, hn] using h⟩

/-- every run with `sample_size ≠ 0` returns a sample (no budget exhaustion, no `IndexError`) -/
theorem bandsampleShuffled_ok (shuffled : List (α × R)) (n : Int) (hn : n ≠ 0) :
    ∃ s : WalkState α R,
      walk (totalFreq (sortByFreq shuffled) / (n : R)) (walkFuel (sortByFreq shuffled))
        ⟨sortByFreq shuffled, 0, 0, []⟩ = some (s, false) ∧
      bandsampleShuffled shuffled n = .ok s.sample := by
  obtain ⟨s, hs, hok⟩ := bandsampleRun_ok shuffled (totalFreq (sortByFreq shuffled) / (n : R))
  refine ⟨s, hs, ?_⟩
  simp only [bandsampleShuffled, if_neg hn, hok]

/-- what a returned sample is: the `sample` component of a terminated walk from the sorted list -/
theorem bandsampleShuffled_eq_ok (shuffled : List (α × R)) (n : Int) (sample : List (α × R))
    (h : bandsampleShuffled shuffled n = .ok sample) :
    n ≠ 0 ∧ ∃ s : WalkState α R,
      walk (totalFreq (sortByFreq shuffled) / (n : R)) (walkFuel (sortByFreq shuffled))
        ⟨sortByFreq shuffled, 0, 0, []⟩ = some (s, false) ∧ s.sample = sample := by
  obtain ⟨hn, hr⟩ := bandsampleShuffled_eq_run shuffled n sample h
  exact ⟨hn, bandsampleRun_eq_ok shuffled _ sample hr⟩

/-- the returned sample, together with some rest, is a permutation of the shuffled (= filtered) list -/
theorem sample_rest_perm (shuffled : List (α × R)) (n : Int) (sample : List (α × R))
    (h : bandsampleShuffled shuffled n = .ok sample) : ∃ rest, sample ++ rest ~ shuffled :=
  run_rest_perm shuffled _ sample (bandsampleShuffled_eq_run shuffled n sample h).2

theorem mem_filterCutoff (cutoff : R) (pop : List (α × R)) (e : α × R) :
    e ∈ filterCutoff cutoff pop ↔ e ∈ pop ∧ cutoff ≤ e.2 := by
  simp [filterCutoff]

/-! ### the dict comprehension of line 75 -/

theorem dictSet_fresh [DecidableEq α] {β : Type} (d : List (α × β)) (k : α) (v : β)
    (h : k ∉ d.map Prod.fst) : dictSet d k v = d ++ [(k, v)] := by
  induction d with
  | nil => rfl
  | cons x xs ih =>
    obtain ⟨k', v'⟩ := x
    simp only [map_cons, mem_cons, not_or] at h
    have hne : ¬ k' = k := fun e => h.1 e.symm
    simp only [dictSet, if_neg hne, ih h.2, cons_append]

theorem toDict_aux [DecidableEq α] {β : Type} (kvs d : List (α × β))
    (h : ((d ++ kvs).map Prod.fst).Nodup) :
    kvs.foldl (fun d kv => dictSet d kv.1 kv.2) d = d ++ kvs := by
  induction kvs generalizing d with
  | nil => simp
  | cons x xs ih =>
    have hx : x.1 ∉ d.map Prod.fst := by
      simp only [map_append, map_cons] at h
      have := (nodup_append.mp h).2.2
      intro hm
      exact this _ hm _ (mem_cons_self) rfl
    simp only [foldl_cons, dictSet_fresh d x.1 x.2 hx]
    have : d ++ [(x.1, x.2)] ++ xs = d ++ x :: xs := by simp
    rw [ih (d ++ [(x.1, x.2)]) (by rw [this]; exact h), this]

/-- with pairwise distinct words the Counter built at line 75 has exactly the sample's entries -/
theorem toDict_of_nodup [DecidableEq α] {β : Type} (kvs : List (α × β)) (h : (kvs.map Prod.fst).Nodup) :
    toDict kvs = kvs := by
  simpa [toDict] using toDict_aux kvs [] (by simpa using h)

theorem dictSet_length_le [DecidableEq α] {β : Type} (d : List (α × β)) (k : α) (v : β) :
    (dictSet d k v).length ≤ d.length + 1 := by
  induction d with
  | nil => simp [dictSet]
  | cons x xs ih =>
    obtain ⟨k', v'⟩ := x
    simp only [dictSet]
    split
    · simp
    · simp only [length_cons]; omega

theorem toDict_aux_length [DecidableEq α] {β : Type} (kvs d : List (α × β)) :
    (kvs.foldl (fun d kv => dictSet d kv.1 kv.2) d).length ≤ d.length + kvs.length := by
  induction kvs generalizing d with
  | nil => simp
  | cons x xs ih =>
    simp only [foldl_cons, length_cons]
    have := ih (dictSet d x.1 x.2)
    have := dictSet_length_le d x.1 x.2
    omega

/-- the Counter of line 75 never has more entries than picks were made -/
theorem toDict_length_le [DecidableEq α] {β : Type} (kvs : List (α × β)) :
    (toDict kvs).length ≤ kvs.length := by
  simpa [toDict] using toDict_aux_length kvs []

end Structure

/-! ## the size bound: needs an ordered field -/

section Size
variable {α R : Type} [Field R] [LinearOrder R] [IsStrictOrderedRing R]

/-- sum of the frequencies of a list of entries -/
def sumF (l : List (α × R)) : R := (l.map Prod.snd).sum

theorem sumF_append (a b : List (α × R)) : sumF (a ++ b) = sumF a + sumF b := by
  simp [sumF]

theorem sumF_single (e : α × R) : sumF [e] = e.2 := by simp [sumF]

theorem sumF_perm {a b : List (α × R)} (h : a ~ b) : sumF a = sumF b :=
  (h.map Prod.snd).sum_eq

theorem totalFreq_aux (l : List (α × R)) (a : R) : l.foldl (fun s e => s + e.2) a = a + sumF l := by
  induction l generalizing a with
  | nil => simp [sumF]
  | cons x xs ih => simp only [foldl_cons, ih, sumF, map_cons, sum_cons]; ring

theorem totalFreq_eq (l : List (α × R)) : totalFreq l = sumF l := by
  simp only [totalFreq, totalFreq_aux, zero_add]

theorem sumF_nonneg (l : List (α × R)) (h : ∀ e ∈ l, 0 ≤ e.2) : 0 ≤ sumF l := by
  apply List.sum_nonneg
  intro x hx
  obtain ⟨e, he, rfl⟩ := mem_map.mp hx
  exact h e he

theorem sumF_take_le (l : List (α × R)) (i : Nat) (h : ∀ e ∈ l, 0 ≤ e.2) : sumF (l.take i) ≤ sumF l := by
  have h1 : sumF l = sumF (l.take i) + sumF (l.drop i) := by rw [← sumF_append, take_append_drop]
  have h2 : 0 ≤ sumF (l.drop i) := sumF_nonneg _ (fun e he => h e (mem_of_mem_drop he))
  linarith

theorem sumF_take_succ (l : List (α × R)) (i : Nat) (e : α × R) (h : l[i]? = some e) :
    sumF (l.take (i + 1)) = sumF (l.take i) + e.2 := by
  rw [take_add_one, h, sumF_append]; simp [sumF]

/-- the accumulator invariant: never negative, and
    `picks · step + accumulator = (frequencies picked) + (frequencies passed over and still in the list)` -/
structure SizeInv (step : R) (s : WalkState α R) : Prop where
  nonneg : ∀ e ∈ s.pop, 0 ≤ e.2
  acc : 0 ≤ s.acc
  bal : (s.sample.length : R) * step + s.acc = sumF s.sample + sumF (s.pop.take s.index)

theorem backWalk_size (step : R) :
    ∀ (i : Nat) (pop : List (α × R)) (acc : R) (sample : List (α × R)) (ie : Bool),
      (∀ e ∈ pop, 0 ≤ e.2) → 0 ≤ acc →
      (sample.length : R) * step + acc = sumF sample + sumF (pop.take i) →
      SizeInv step (backWalk step i pop acc sample ie).1 := by
  intro i
  induction i with
  | zero => intro pop acc sample ie h1 h2 h3; simp only [backWalk]; exact ⟨h1, h2, h3⟩
  | succ i ih =>
    intro pop acc sample ie h1 h2 h3
    simp only [backWalk]
    split
    · rename_i hc
      split
      · rename_i e he
        apply ih
        · exact fun x hx => h1 x (mem_of_mem_eraseIdx hx)
        · linarith
        · rw [take_eraseIdx_eq_take_of_le _ _ _ (Nat.le_refl i), sumF_append, sumF_single]
          rw [sumF_take_succ pop i e he] at h3
          simp only [length_append, length_singleton, Nat.cast_add, Nat.cast_one]
          linarith
      · rename_i hn
        refine ⟨h1, h2, ?_⟩
        have hl : pop.length ≤ i := by
          rcases Nat.lt_or_ge i pop.length with h | h
          · rw [getElem?_eq_getElem h] at hn; cases hn
          · exact h
        simp only
        rw [take_of_length_le hl]
        rw [take_of_length_le (Nat.le_succ_of_le hl)] at h3
        exact h3
    · exact ⟨h1, h2, h3⟩

theorem walk_size (step : R) :
    ∀ (fuel : Nat) (s s' : WalkState α R) (ie : Bool),
      walk step fuel s = some (s', ie) → SizeInv step s → SizeInv step s' := by
  intro fuel
  induction fuel with
  | zero => intro s s' ie h; simp [walk] at h
  | succ fuel ih =>
    intro s s' ie h hinv
    simp only [walk] at h
    split at h
    · simp only [Option.some.injEq, Prod.mk.injEq] at h
      rw [← h.1]; exact hinv
    · rename_i e he
      have hbal := hinv.bal
      have hacc := hinv.acc
      have he0 : 0 ≤ e.2 := hinv.nonneg e (mem_of_getElem? he)
      split at h
      · rename_i hc
        have hb : SizeInv step (backWalk step s.index (s.pop.eraseIdx s.index) (s.acc + e.2 - step)
            (s.sample ++ [e]) false).1 := by
          apply backWalk_size
          · exact fun x hx => hinv.nonneg x (mem_of_mem_eraseIdx hx)
          · linarith
          · rw [take_eraseIdx_eq_take_of_le _ _ _ (Nat.le_refl _), sumF_append, sumF_single]
            simp only [length_append, length_singleton, Nat.cast_add, Nat.cast_one]
            linarith
        split at h
        · simp only [Option.some.injEq, Prod.mk.injEq] at h
          rw [← h.1]; exact hb
        · exact ih _ _ _ h hb
      · apply ih _ _ _ h
        refine ⟨hinv.nonneg, by simp only; linarith, ?_⟩
        simp only
        rw [sumF_take_succ s.pop s.index e he]
        linarith

/-- **size bound**: with all retained frequencies positive, at most `sample_size` picks -/
theorem sample_length_le (shuffled : List (α × R)) (n : Int) (hn0 : 0 < n) (sample : List (α × R))
    (hpos : ∀ e ∈ shuffled, 0 < e.2) (h : bandsampleShuffled shuffled n = .ok sample) :
    (sample.length : Int) ≤ n := by
  obtain ⟨hn, s, hs, rfl⟩ := bandsampleShuffled_eq_ok shuffled n sample h
  have hsort := sortByFreq_perm shuffled
  have hperm : s.sample ++ s.pop ~ sortByFreq shuffled :=
    walk_perm _ (sortByFreq shuffled) _ _ _ _ hs (by simp)
  by_cases hempty : shuffled = []
  · subst hempty
    have : s.sample ++ s.pop = [] := by
      have := hperm.trans hsort
      exact perm_nil.mp this
    have : s.sample = [] := (append_eq_nil_iff.mp this).1
    rw [this]; exact le_of_lt hn0
  · have hpos' : ∀ e ∈ sortByFreq shuffled, 0 < e.2 := fun e he => hpos e (hsort.mem_iff.mp he)
    have hinv0 : SizeInv (totalFreq (sortByFreq shuffled) / (n : R))
        (⟨sortByFreq shuffled, 0, 0, []⟩ : WalkState α R) :=
      ⟨fun e he => le_of_lt (hpos' e he), le_refl _, by simp [sumF]⟩
    have hinv := walk_size _ _ _ _ _ hs hinv0
    have htotal : totalFreq (sortByFreq shuffled) = sumF s.sample + sumF s.pop := by
      rw [totalFreq_eq, ← sumF_append, sumF_perm hperm]
    have hne : sortByFreq shuffled ≠ [] := fun e => hempty (perm_nil.mp (e ▸ hsort.symm))
    have htpos : 0 < totalFreq (sortByFreq shuffled) := by
      rw [totalFreq_eq]
      apply List.sum_pos
      · intro x hx
        obtain ⟨e, he, rfl⟩ := mem_map.mp hx
        exact hpos' e he
      · simpa using hne
    have hnpos : (0 : R) < (n : R) := by exact_mod_cast hn0
    have hstep : 0 < totalFreq (sortByFreq shuffled) / (n : R) := div_pos htpos hnpos
    have hmul : (n : R) * (totalFreq (sortByFreq shuffled) / (n : R)) = totalFreq (sortByFreq shuffled) :=
      mul_div_cancel₀ _ (ne_of_gt hnpos)
    have htake := sumF_take_le s.pop s.index hinv.nonneg
    have hbal := hinv.bal
    have hacc := hinv.acc
    have hle : (s.sample.length : R) * (totalFreq (sortByFreq shuffled) / (n : R))
        ≤ (n : R) * (totalFreq (sortByFreq shuffled) / (n : R)) := by
      rw [hmul]; linarith
    have := le_of_mul_le_mul_right hle hstep
    have h2 : (((s.sample.length : Int) : R)) ≤ (n : R) := by exact_mod_cast this
    exact_mod_cast h2

/-! ### a negative `sample_size` returns every retained word -/

/-- with a negative step and positive frequencies the walk never advances: every
    iteration picks the word at index 0 (the accumulator stays non-negative,
    hence `≥ step`), so it ends with an empty population -/
theorem walk_negative_step (step : R) (hstep : step < 0) :
    ∀ (fuel : Nat) (s s' : WalkState α R) (ie : Bool),
      walk step fuel s = some (s', ie) → s.index = 0 → 0 ≤ s.acc → (∀ e ∈ s.pop, 0 < e.2) →
      s'.pop = [] := by
  intro fuel
  induction fuel with
  | zero => intro s s' ie h; simp [walk] at h
  | succ fuel ih =>
    intro s s' ie h hidx hacc hpos
    simp only [walk] at h
    split at h
    · rename_i hnone
      simp only [Option.some.injEq, Prod.mk.injEq] at h
      rw [← h.1]
      rw [hidx] at hnone
      cases hp : s.pop with
      | nil => rfl
      | cons x xs => rw [hp] at hnone; simp at hnone
    · rename_i e he
      have hmem : e ∈ s.pop := List.mem_of_getElem? he
      have hle : step ≤ s.acc + e.2 := by
        have := hpos e hmem
        linarith
      rw [if_pos hle] at h
      rw [hidx] at h
      simp only [backWalk, Bool.false_eq_true, if_false] at h
      refine ih _ _ _ h rfl ?_ ?_
      · simp only
        have := hpos e hmem
        linarith
      · intro x hx
        exact hpos x ((List.eraseIdx_sublist s.pop 0).subset hx)

theorem sample_all_of_negative (shuffled : List (α × R)) (n : Int) (hn : n < 0) (sample : List (α × R))
    (hpos : ∀ e ∈ shuffled, 0 < e.2) (h : bandsampleShuffled shuffled n = .ok sample) :
    sample ~ shuffled := by
  obtain ⟨_, s, hs, rfl⟩ := bandsampleShuffled_eq_ok shuffled n sample h
  have hsort := sortByFreq_perm shuffled
  have hperm : s.sample ++ s.pop ~ sortByFreq shuffled :=
    walk_perm _ (sortByFreq shuffled) _ _ _ _ hs (by simp)
  have hpos' : ∀ e ∈ sortByFreq shuffled, 0 < e.2 := fun e he => hpos e (hsort.mem_iff.mp he)
  by_cases hempty : shuffled = []
  · subst hempty
    have : s.sample ++ s.pop = [] := perm_nil.mp (hperm.trans hsort)
    rw [(append_eq_nil_iff.mp this).1]
  · have hne : sortByFreq shuffled ≠ [] := fun e => hempty (perm_nil.mp (e ▸ hsort.symm))
    have htpos : 0 < totalFreq (sortByFreq shuffled) := by
      rw [totalFreq_eq]
      apply List.sum_pos
      · intro x hx
        obtain ⟨e, he, rfl⟩ := mem_map.mp hx
        exact hpos' e he
      · simpa using hne
    have hnneg : (n : R) < 0 := by exact_mod_cast hn
    have hstep : totalFreq (sortByFreq shuffled) / (n : R) < 0 := div_neg_of_pos_of_neg htpos hnneg
    have hpop : s.pop = [] :=
      walk_negative_step _ hstep _ _ _ _ hs rfl (le_refl _) hpos'
    rw [hpop, append_nil] at hperm
    exact hperm.trans hsort


end Size

/-! ## counter files -/

section Counter

theorem digit_facts : ∀ d, d < 10 →
    isDigit (Char.ofNat (48 + d)) = true ∧ (Char.ofNat (48 + d)).toNat - 48 = d := by decide

theorem isDigit_clean (c : Char) (h : isDigit c = true) :
    c ≠ '\t' ∧ c ≠ '\n' ∧ c ≠ '\r' ∧ c ≠ '-' := by
  refine ⟨?_, ?_, ?_, ?_⟩ <;> (intro e; subst e; revert h; decide)

/-- `str(n)` is a non-empty string of ASCII digits whose value is `n` -/
theorem showNatF_spec : ∀ (f n : Nat), n < f →
    (showNatF f n ≠ [] ∧ (∀ c ∈ showNatF f n, isDigit c = true)) ∧
    ∀ a, (showNatF f n).foldl (fun a c => 10 * a + (c.toNat - 48)) a = a * 10 ^ (showNatF f n).length + n := by
  intro f
  induction f with
  | zero => intro n h; omega
  | succ f ih =>
    intro n h
    simp only [showNatF]
    split
    · rename_i h10
      obtain ⟨d1, d2⟩ := digit_facts n h10
      refine ⟨⟨by simp, ?_⟩, ?_⟩
      · intro c hc; simp only [mem_singleton] at hc; subst hc; exact d1
      · intro a; simp only [foldl_cons, foldl_nil, d2, length_singleton]; omega
    · rename_i h10
      have hlt : n / 10 < f := by omega
      obtain ⟨⟨i1, i2⟩, i3⟩ := ih (n / 10) hlt
      obtain ⟨d1, d2⟩ := digit_facts (n % 10) (Nat.mod_lt _ (by decide))
      refine ⟨⟨by simp, ?_⟩, ?_⟩
      · intro c hc
        simp only [mem_append, mem_singleton] at hc
        rcases hc with hc | hc
        · exact i2 c hc
        · subst hc; exact d1
      · intro a
        simp only [foldl_append, foldl_cons, foldl_nil, i3, d2, length_append, length_singleton,
          Nat.pow_succ]
        have := Nat.div_add_mod n 10
        generalize 10 ^ (showNatF f (n / 10)).length = p
        rw [Nat.mul_add, Nat.mul_comm 10 (a * p), Nat.mul_assoc]
        omega

theorem showNat_digits (n : Nat) : showNat n ≠ [] ∧ ∀ c ∈ showNat n, isDigit c = true :=
  (showNatF_spec (n + 1) n (Nat.lt_succ_self n)).1

theorem parseNat_showNat (n : Nat) : parseNat (showNat n) = some n := by
  obtain ⟨⟨h1, h2⟩, h3⟩ := showNatF_spec (n + 1) n (Nat.lt_succ_self n)
  have hall : (showNat n).all isDigit = true := by
    rw [all_eq_true]; exact h2
  have hne : (showNat n).isEmpty = false := by
    cases hs : showNat n with
    | nil => exact absurd hs h1
    | cons _ _ => rfl
  simp only [parseNat, hne, hall, Bool.not_true, Bool.or_false, Bool.false_eq_true, if_false]
  have := h3 0
  simp only [Nat.zero_mul, Nat.zero_add] at this
  exact congrArg some this

theorem parseInt_of_not_minus (s : Str) (h : ∀ ds, s ≠ '-' :: ds) :
    parseInt s = (parseNat s).map (fun n => (n : Int)) := by
  unfold parseInt
  split
  · exact absurd rfl (h _)
  · rfl

/-- `int(str(z)) == z` -/
theorem parseInt_showInt (z : Int) : parseInt (showInt z) = some z := by
  cases z with
  | ofNat n =>
    simp only [showInt]
    rw [parseInt_of_not_minus, parseNat_showNat]
    · rfl
    · intro ds hds
      have := (showNat_digits n).2 '-' (by rw [hds]; exact mem_cons_self)
      exact absurd this (by decide)
  | negSucc n =>
    simp only [showInt, parseInt, parseNat_showNat, Option.map_some]
    rfl

/-- `str(z)` contains no TAB, LF or CR -/
theorem showInt_clean (z : Int) : '\t' ∉ showInt z ∧ '\n' ∉ showInt z ∧ '\r' ∉ showInt z := by
  have key : ∀ c ∈ showInt z, isDigit c = true ∨ c = '-' := by
    intro c hc
    cases z with
    | ofNat n => exact Or.inl ((showNat_digits n).2 c hc)
    | negSucc n =>
      simp only [showInt, mem_cons] at hc
      rcases hc with hc | hc
      · exact Or.inr hc
      · exact Or.inl ((showNat_digits (n + 1)).2 c hc)
  refine ⟨?_, ?_, ?_⟩ <;> intro hm <;> rcases key _ hm with h | h
  · exact absurd h (by decide)
  · exact absurd h (by decide)
  · exact absurd h (by decide)
  · exact absurd h (by decide)
  · exact absurd h (by decide)
  · exact absurd h (by decide)

/-! ### split, lines, strip -/

theorem splitOn_ne_nil (sep : Char) (s : Str) : splitOn sep s ≠ [] := by
  induction s with
  | nil => simp [splitOn]
  | cons c cs ih =>
    simp only [splitOn]
    split
    · simp
    · split <;> simp

theorem splitOn_noSep (sep : Char) (s : Str) (h : sep ∉ s) : splitOn sep s = [s] := by
  induction s with
  | nil => rfl
  | cons c cs ih =>
    simp only [mem_cons, not_or] at h
    have hc : ¬ c = sep := fun e => h.1 e.symm
    simp only [splitOn, if_neg hc, ih h.2]

theorem splitOn_append_sep (sep : Char) (a b : Str) (h : sep ∉ a) :
    splitOn sep (a ++ sep :: b) = a :: splitOn sep b := by
  induction a with
  | nil => simp [splitOn]
  | cons c cs ih =>
    simp only [mem_cons, not_or] at h
    have hc : ¬ c = sep := fun e => h.1 e.symm
    simp only [cons_append, splitOn, if_neg hc, ih h.2]

theorem fileLines_line (a rest : Str) (h : '\n' ∉ a) :
    fileLines (a ++ '\n' :: rest) = (a ++ ['\n']) :: fileLines rest := by
  induction a with
  | nil => simp [fileLines]
  | cons c cs ih =>
    simp only [mem_cons, not_or] at h
    have hc : ¬ c = '\n' := fun e => h.1 e.symm
    simp only [cons_append, fileLines, if_neg hc, ih h.2]

theorem rstripNl_line (a : Str) (h : '\n' ∉ a) : rstripNl (a ++ ['\n']) = a := by
  induction a with
  | nil => simp [rstripNl]
  | cons c cs ih =>
    simp only [mem_cons, not_or] at h
    have hc : ¬ c = '\n' := fun e => h.1 e.symm
    simp only [cons_append, rstripNl, ih h.2, hc, decide_false, Bool.and_false, Bool.false_eq_true, if_false]

theorem univNl_id (s : Str) (h : '\r' ∉ s) : univNl s = s := by
  induction s with
  | nil => rfl
  | cons c cs ih =>
    simp only [mem_cons, not_or] at h
    have hc : c ≠ '\r' := fun e => h.1 e.symm
    unfold univNl
    split <;> rename_i heq <;> cases heq <;> first | exact (hc rfl).elim | rw [ih h.2]

/-! ### one line, all lines -/

/-- the text `save_counter` writes for one entry (count.py:173) -/
def lineOf (e : Str × Int) : Str := e.1 ++ '\t' :: showInt e.2 ++ ['\n']

theorem lineOf_body_noNl (e : Str × Int) (h : '\n' ∉ e.1) : '\n' ∉ e.1 ++ '\t' :: showInt e.2 := by
  simp only [mem_append, mem_cons, not_or]
  exact ⟨h, by decide, (showInt_clean e.2).2.1⟩

theorem hasKey_false (k : Str) (c : List (Str × Int)) (h : k ∉ c.map Prod.fst) : hasKey k c = false := by
  induction c with
  | nil => rfl
  | cons x xs ih =>
    simp only [map_cons, mem_cons, not_or] at h
    have hne : ¬ x.1 = k := fun e => h.1 e.symm
    simp only [hasKey, any_cons, hne, decide_false, Bool.false_or] at ih ⊢
    exact ih h.2

theorem loadLine_lineOf (counter : List (Str × Int)) (e : Str × Int)
    (ht : '\t' ∉ e.1) (hn : '\n' ∉ e.1) (hk : e.1 ∉ counter.map Prod.fst) :
    loadLine counter (lineOf e) = some (counter ++ [e]) := by
  have h1 : rstripNl (lineOf e) = e.1 ++ '\t' :: showInt e.2 := by
    have : lineOf e = (e.1 ++ '\t' :: showInt e.2) ++ ['\n'] := by simp [lineOf]
    rw [this, rstripNl_line _ (lineOf_body_noNl e hn)]
  have h2 : splitOn '\t' (e.1 ++ '\t' :: showInt e.2) = [e.1, showInt e.2] := by
    rw [splitOn_append_sep _ _ _ ht, splitOn_noSep _ _ (showInt_clean e.2).1]
  simp only [loadLine, h1, h2, hasKey_false e.1 counter hk, parseInt_showInt, Bool.false_eq_true, if_false]

theorem fileLines_flatMap (es : List (Str × Int)) (h : ∀ e ∈ es, '\n' ∉ e.1) :
    fileLines (es.flatMap lineOf) = es.map lineOf := by
  induction es with
  | nil => rfl
  | cons e es ih =>
    have he := h e mem_cons_self
    have : lineOf e ++ es.flatMap lineOf = (e.1 ++ '\t' :: showInt e.2) ++ '\n' :: es.flatMap lineOf := by
      simp [lineOf]
    rw [flatMap_cons, this, fileLines_line _ _ (lineOf_body_noNl e he),
      ih (fun x hx => h x (mem_cons_of_mem _ hx))]
    simp [lineOf]

theorem foldlM_loadLine (es counter : List (Str × Int))
    (ht : ∀ e ∈ es, '\t' ∉ e.1) (hn : ∀ e ∈ es, '\n' ∉ e.1)
    (hnd : ((counter ++ es).map Prod.fst).Nodup) :
    (es.map lineOf).foldlM loadLine counter = some (counter ++ es) := by
  induction es generalizing counter with
  | nil => simp
  | cons e es ih =>
    have hk : e.1 ∉ counter.map Prod.fst := by
      simp only [map_append, map_cons] at hnd
      intro hm
      exact (nodup_append.mp hnd).2.2 _ hm _ mem_cons_self rfl
    have hassoc : counter ++ [e] ++ es = counter ++ e :: es := by simp
    simp only [map_cons, foldlM_cons, loadLine_lineOf counter e (ht e mem_cons_self) (hn e mem_cons_self) hk,
      Option.bind_eq_bind, Option.bind_some]
    rw [ih (counter ++ [e]) (fun x hx => ht x (mem_cons_of_mem _ hx)) (fun x hx => hn x (mem_cons_of_mem _ hx))
      (by rw [hassoc]; exact hnd), hassoc]

theorem lineOf_noCr (e : Str × Int) (h : '\r' ∉ e.1) : '\r' ∉ lineOf e := by
  simp only [lineOf, mem_append, mem_cons, not_or, mem_singleton, not_mem_nil, or_false]
  exact ⟨⟨h, by decide, (showInt_clean e.2).2.2⟩, by decide⟩

/-- reading back any list of entries written one per line after a header line -/
theorem loadCounter_lines (hdr : Str) (es : List (Str × Int))
    (hh : '\n' ∉ hdr ∧ '\r' ∉ hdr)
    (hk : ∀ e ∈ es, '\t' ∉ e.1 ∧ '\n' ∉ e.1 ∧ '\r' ∉ e.1)
    (hnd : (es.map Prod.fst).Nodup) :
    loadCounter ((hdr ++ ['\n']) ++ es.flatMap lineOf) = some es := by
  have hcr : '\r' ∉ (hdr ++ ['\n']) ++ es.flatMap lineOf := by
    simp only [mem_append, mem_flatMap, not_or, not_exists, not_and, mem_singleton]
    refine ⟨⟨hh.2, by decide⟩, ?_⟩
    intro e he
    exact lineOf_noCr e (hk e he).2.2
  have hshape : (hdr ++ ['\n']) ++ es.flatMap lineOf = hdr ++ '\n' :: es.flatMap lineOf := by simp
  unfold loadCounter
  rw [univNl_id _ hcr, hshape, fileLines_line _ _ hh.1, fileLines_flatMap es (fun e he => (hk e he).2.1)]
  simp only [drop_succ_cons, drop_zero]
  simpa using foldlM_loadLine es [] (fun e he => (hk e he).1) (fun e he => (hk e he).2.1) (by simpa using hnd)

theorem insertByCount_perm (x : Str × Int) (l : List (Str × Int)) : insertByCount x l ~ x :: l := by
  induction l with
  | nil => exact Perm.refl _
  | cons y ys ih =>
    simp only [insertByCount]
    split
    · exact Perm.refl _
    · exact (Perm.cons y ih).trans (Perm.swap x y ys)

/-- `most_common()` lists exactly the items of the counter -/
theorem mostCommon_perm (l : List (Str × Int)) : mostCommon l ~ l := by
  induction l with
  | nil => exact Perm.refl _
  | cons x xs ih =>
    simp only [mostCommon]
    exact (insertByCount_perm x _).trans (Perm.cons x ih)

end Counter

end Pyndl.Band
