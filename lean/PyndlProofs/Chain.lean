/-
  PyndlProofs.Chain — chains of learner calls of ARBITRARY length through the
  `weights=` argument, a DIFFERENT learner per part (C03).

  Model of what harness/impl.py `op_chain` does (one process, `w = None`, then
  for every part: hand `w` to the part's learner, keep what it returns):

    * between two calls Python holds either a weight dict (`WeightDict`, result
      of `dict_ndl(..., make_data_array=False)`) or a labelled matrix
      (`xarray.DataArray`, result of `dict_ndl(..., make_data_array=True)` and
      of `ndl.ndl`)                                            — `ChainState`;
    * `dict_ndl(weights=DataArray)` copies every cell into a fresh dict
      (ndl.py:421-428)                                         — `dictFromLW`;
    * `ndl.ndl` only takes a DataArray, so the harness converts a dict with
      `ndl.data_array(w)` first (impl.py `op_chain`, ndl.py:488-538)
                                                               — `lwFromDict`;
    * `dict_ndl(make_data_array=True)` returns `data_array(weights)` of the
      dict it learned (ndl.py:481-482)                         — `lwFromDict`.

  An `ndl.ndl` part is the CALL (`ndlCall`): on a part with zero events it raises
  `IOError` as soon as a kernel entry point is called (`ndlCall_nil_raises`), so
  the success theorems carry "every `ndl.ndl` part has at least one event"
  (`hne`), and `chainRun_empty_ndl_part_raises` is the error direction.

  Main results: `chainRun_spec` (induction over the list of parts, with the
  label invariant `StateOK`), `chain_any_length`, `chain_eq_single_call`,
  `chain_split_irrelevant`.  The 32-bit size condition is stated once, a
  priori, on the concatenation of all parts (`Fits32 (allEvents parts)`); the
  conditions `Fits32With w es` for every intermediate matrix `w` are DERIVED
  from the invariant "labels of the state are duplicate free and are names
  occurring in the events of the chain".
-/
import PyndlProofs.NdlCall
import PyndlProofs.DictArray

set_option linter.unusedSectionVars false
set_option linter.unusedSimpArgs false
set_option linter.unusedVariables false

namespace Pyndl
open List

/-! ## the model of a chain -/

/-- what Python holds between two learner calls of a chain -/
inductive ChainState (R : Type) where
  | dict (W : WDict String String R)
  | matrix (w : LW R)

/-- the learner of one part: `dict_ndl(remove_duplicates=p, make_data_array=…)`
    or `ndl.ndl(method, n_outcomes_per_job, events_per_temporary_file,
    remove_duplicates)` -/
inductive PartLearner where
  | dict (p : DupPolicy) (makeDataArray : Bool)
  | ndl (cfg : NdlCfg)

/-- the duplicate policy a part's learner runs with -/
def PartLearner.policy : PartLearner → DupPolicy
  | .dict p _ => p
  | .ndl cfg => cfg.policy

/-- the chunking arguments an `ndl.ndl` part runs through with (`CfgOK`:
    `2 ≤ events_per_temporary_file < 2³²`, `1 ≤ n_outcomes_per_job`, and for
    OpenMP `n_outcomes_per_job < 2³²` and `⌈nOut / n_outcomes_per_job⌉ ·
    n_outcomes_per_job < 2³²` (no wrap-around of the part bounds), where `nOut`
    bounds the number of outcome labels any state of the chain can have — `CfgOK`
    is monotone in it, `CfgOK.mono`); none for `dict_ndl` -/
def PartLearner.ChunksOK (nOut : Nat) : PartLearner → Prop
  | .dict _ _ => True
  | .ndl cfg => CfgOK cfg nOut

instance (nOut : Nat) : DecidablePred (PartLearner.ChunksOK nOut) := fun l => by
  cases l <;> unfold PartLearner.ChunksOK <;> infer_instance

/-- is the part run by `ndl.ndl`? (then it must have at least one event, or the
    call raises `IOError`) -/
def PartLearner.isNdl : PartLearner → Bool
  | .dict _ _ => false
  | .ndl _ => true

abbrev Part := PartLearner × List (Event String String)

/-- the whole file: all parts one after the other -/
def allEvents (parts : List Part) : List (Event String String) := (parts.map (·.2)).flatten

/-- every part under the duplicate policy of ITS learner; `none` as soon as one
    part is rejected (`ValueError`) -/
def chainPolicy : List Part → Option (List (Event String String))
  | [] => some []
  | pt :: ps =>
    match applyPolicyAll pt.1.policy pt.2 with
    | none => none
    | some es' =>
      match chainPolicy ps with
      | none => none
      | some r => some (es' ++ r)

section Model
variable {R : Type} [Add R] [Sub R] [Mul R] [Zero R]

/-- the weight function a state denotes -/
def ChainState.get : ChainState R → String → String → R
  | .dict W => wdAbs W
  | .matrix w => fun o c => w.get o c

/-- … and `None` (no weights yet) denotes all zeros -/
def stateGet : Option (ChainState R) → String → String → R
  | none => fun _ _ => 0
  | some s => s.get

/-- `weights=` as `dict_ndl` sees it: `None` ↦ empty dict, dict as is,
    DataArray ↦ every cell copied into a dict -/
def toDictArg : Option (ChainState R) → WDict String String R
  | none => []
  | some (.dict W) => W
  | some (.matrix w) => dictFromLW w

/-- `weights=` as `ndl.ndl` sees it: `None`, DataArray as is, dict through
    `ndl.data_array` -/
def toNdlArg : Option (ChainState R) → Option (LW R)
  | none => none
  | some (.dict W) => some (lwFromDict W)
  | some (.matrix w) => some w

/-- one call of the chain -/
def chainStep (magic version : Nat) (alpha β₁ β₂ lam : R) (s : Option (ChainState R)) :
    PartLearner → List (Event String String) → Except Err (ChainState R)
  | .dict p mk, es =>
    match dictNdl p (fun _ => alpha) β₁ β₂ lam (toDictArg s) es with
    | none => .error .value
    | some W => .ok (if mk then .matrix (lwFromDict W) else .dict W)
  | .ndl cfg, es =>
    match ndlCall magic version cfg alpha β₁ β₂ lam (toNdlArg s) es with
    | .error e => .error e
    | .ok (w, _) => .ok (.matrix w)

/-- the chain: every part's result is the next part's `weights=` -/
def chainRun (magic version : Nat) (alpha β₁ β₂ lam : R) :
    Option (ChainState R) → List Part → Except Err (Option (ChainState R))
  | s, [] => .ok s
  | s, pt :: ps =>
    match chainStep magic version alpha β₁ β₂ lam s pt.1 pt.2 with
    | .error e => .error e
    | .ok s' => chainRun magic version alpha β₁ β₂ lam (some s') ps

end Model

/-! ## the duplicate policy distributes over concatenation -/

section Policy
variable {ι κ : Type} [DecidableEq ι] [DecidableEq κ]

theorem applyPolicyAll_append (p : DupPolicy) (xs ys : List (Event ι κ)) :
    applyPolicyAll p (xs ++ ys) =
      match applyPolicyAll p xs with
      | none => none
      | some xs' =>
        match applyPolicyAll p ys with
        | none => none
        | some ys' => some (xs' ++ ys') := by
  induction xs with
  | nil =>
    simp only [List.nil_append, applyPolicyAll]
    cases applyPolicyAll p ys <;> rfl
  | cons x xs ih =>
    simp only [List.cons_append, applyPolicyAll, ih]
    cases applyPolicy p x with
    | none => rfl
    | some x' =>
      cases applyPolicyAll p xs with
      | none => rfl
      | some xs' =>
        cases applyPolicyAll p ys with
        | none => rfl
        | some ys' => rfl

theorem applyPolicyAll_append_some (p : DupPolicy) (xs ys xs' ys' : List (Event ι κ))
    (hx : applyPolicyAll p xs = some xs') (hy : applyPolicyAll p ys = some ys') :
    applyPolicyAll p (xs ++ ys) = some (xs' ++ ys') := by
  rw [applyPolicyAll_append, hx, hy]

/-- all pieces accepted ⇒ the concatenation is accepted, with the concatenated result -/
theorem applyPolicyAll_flatten (p : DupPolicy) (pieces pieces' : List (List (Event ι κ)))
    (h : List.Forall₂ (fun es es' => applyPolicyAll p es = some es') pieces pieces') :
    applyPolicyAll p pieces.flatten = some pieces'.flatten := by
  induction h with
  | nil => rfl
  | cons h1 _ ih => simp only [List.flatten_cons]; exact applyPolicyAll_append_some p _ _ _ _ h1 ih

end Policy

/-- when every part runs with the same policy `p`, the parts are accepted
    exactly when the whole file is, with the same processed events -/
theorem chainPolicy_uniform (p : DupPolicy) (parts : List Part) (h : ∀ pt ∈ parts, pt.1.policy = p) :
    chainPolicy parts = applyPolicyAll p (allEvents parts) := by
  induction parts with
  | nil => rfl
  | cons pt ps ih =>
    have h1 : pt.1.policy = p := h pt (List.mem_cons_self ..)
    have h2 := ih (fun q hq => h q (List.mem_cons_of_mem _ hq))
    show chainPolicy (pt :: ps) = applyPolicyAll p (pt.2 ++ allEvents ps)
    rw [applyPolicyAll_append, chainPolicy, h1, h2]
    cases applyPolicyAll p pt.2 with
    | none => rfl
    | some a => cases applyPolicyAll p (allEvents ps) <;> rfl

/-! ## which keys `dict_ndl` can create -/

section Keys
variable {R : Type} [CommRing R]
variable {ι κ : Type} [DecidableEq ι] [DecidableEq κ]

/-- the outcome keys of a weight dict -/
def outKeys (W : WDict ι κ R) : List κ := W.map (·.1)
/-- all cue keys of all rows of a weight dict -/
def cueKeys (W : WDict ι κ R) : List ι := W.flatMap (fun r => r.2.map (·.1))

theorem mem_keys_alSet (d : List (ι × R)) (c : ι) (v : R) (x : ι)
    (h : x ∈ (alSet d c v).map (·.1)) : x = c ∨ x ∈ d.map (·.1) := by
  induction d with
  | nil =>
    simp only [alSet, List.map_cons, List.map_nil, List.mem_singleton] at h
    exact Or.inl h
  | cons kx d ih =>
    obtain ⟨k, y⟩ := kx
    by_cases hk : k = c
    · simp only [alSet, hk, if_true, List.map_cons, List.mem_cons] at h ⊢
      rcases h with h | h
      · exact Or.inl h
      · exact Or.inr (Or.inr h)
    · simp only [alSet, hk, if_false, List.map_cons, List.mem_cons] at h ⊢
      rcases h with h | h
      · exact Or.inr (Or.inl h)
      · rcases ih h with h' | h'
        · exact Or.inl h'
        · exact Or.inr (Or.inr h')

theorem mem_keys_foldSet (g : List (ι × R) → ι → R) (cs : List ι) (row : List (ι × R)) (x : ι)
    (h : x ∈ (cs.foldl (fun r c => alSet r c (g r c)) row).map (·.1)) : x ∈ cs ∨ x ∈ row.map (·.1) := by
  induction cs generalizing row with
  | nil => exact Or.inr h
  | cons c cs ih =>
    simp only [List.foldl_cons] at h
    rcases ih _ h with h' | h'
    · exact Or.inl (List.mem_cons_of_mem _ h')
    · rcases mem_keys_alSet _ _ _ _ h' with h'' | h''
      · exact Or.inl (by rw [h'']; exact List.mem_cons_self ..)
      · exact Or.inr h''

theorem mem_keys_dictRow (α : ι → R) (β₁ β₂ lam : R) (row : List (ι × R)) (cs : List ι) (p : Bool) (x : ι)
    (h : x ∈ (dictRow α β₁ β₂ lam row cs p).map (·.1)) : x ∈ cs ∨ x ∈ row.map (·.1) := by
  unfold dictRow at h
  exact mem_keys_foldSet (fun r c => alGet r c + α c * _) cs row x h

theorem mem_outKeys_wdSetRow (W : WDict ι κ R) (o : κ) (r : List (ι × R)) (x : κ)
    (h : x ∈ outKeys (wdSetRow W o r)) : x = o ∨ x ∈ outKeys W := by
  unfold outKeys at h ⊢
  induction W with
  | nil =>
    simp only [wdSetRow, List.map_cons, List.map_nil, List.mem_singleton] at h
    exact Or.inl h
  | cons kx W ih =>
    obtain ⟨k, y⟩ := kx
    by_cases hk : k = o
    · simp only [wdSetRow, hk, if_true, List.map_cons, List.mem_cons] at h ⊢
      rcases h with h | h
      · exact Or.inl h
      · exact Or.inr (Or.inr h)
    · simp only [wdSetRow, hk, if_false, List.map_cons, List.mem_cons] at h ⊢
      rcases h with h | h
      · exact Or.inr (Or.inl h)
      · rcases ih h with h' | h'
        · exact Or.inl h'
        · exact Or.inr (Or.inr h')

theorem mem_cueKeys_wdSetRow (W : WDict ι κ R) (o : κ) (r : List (ι × R)) (c : ι)
    (h : c ∈ cueKeys (wdSetRow W o r)) : c ∈ r.map (·.1) ∨ c ∈ cueKeys W := by
  unfold cueKeys at h ⊢
  induction W with
  | nil =>
    simp only [wdSetRow, List.flatMap_cons, List.flatMap_nil, List.append_nil] at h
    exact Or.inl h
  | cons kx W ih =>
    obtain ⟨k, y⟩ := kx
    by_cases hk : k = o
    · simp only [wdSetRow, hk, if_true, List.flatMap_cons, List.mem_append] at h ⊢
      rcases h with h | h
      · exact Or.inl h
      · exact Or.inr (Or.inr h)
    · simp only [wdSetRow, hk, if_false, List.flatMap_cons, List.mem_append] at h ⊢
      rcases h with h | h
      · exact Or.inr (Or.inl h)
      · rcases ih h with h' | h'
        · exact Or.inl h'
        · exact Or.inr (Or.inr h')

theorem wdRow_keys_sub (W : WDict ι κ R) (o : κ) (c : ι)
    (h : c ∈ (wdRow W o).map (·.1)) : c ∈ cueKeys W := by
  unfold cueKeys
  induction W with
  | nil => simp [wdRow] at h
  | cons kr W ih =>
    obtain ⟨k, r⟩ := kr
    simp only [wdRow] at h
    simp only [List.flatMap_cons, List.mem_append]
    by_cases hk : k = o
    · simp only [hk, if_true] at h; exact Or.inl h
    · simp only [hk, if_false] at h; exact Or.inr (ih h)

/-- the row loop of one event creates only keys of that event -/
theorem keys_fold_rows (α : ι → R) (β₁ β₂ lam : R) (cs : List ι) (pr : κ → Bool) (ks : List κ) (W : WDict ι κ R) :
    (∀ x ∈ outKeys (ks.foldl (fun W o => wdSetRow W o (dictRow α β₁ β₂ lam (wdRow W o) cs (pr o))) W),
        x ∈ ks ∨ x ∈ outKeys W) ∧
    (∀ c ∈ cueKeys (ks.foldl (fun W o => wdSetRow W o (dictRow α β₁ β₂ lam (wdRow W o) cs (pr o))) W),
        c ∈ cs ∨ c ∈ cueKeys W) := by
  induction ks generalizing W with
  | nil => exact ⟨fun x h => Or.inr h, fun c h => Or.inr h⟩
  | cons k ks ih =>
    simp only [List.foldl_cons]
    obtain ⟨i1, i2⟩ := ih (wdSetRow W k (dictRow α β₁ β₂ lam (wdRow W k) cs (pr k)))
    constructor
    · intro x hx
      rcases i1 x hx with h | h
      · exact Or.inl (List.mem_cons_of_mem _ h)
      · rcases mem_outKeys_wdSetRow _ _ _ _ h with h' | h'
        · exact Or.inl (by rw [h']; exact List.mem_cons_self ..)
        · exact Or.inr h'
    · intro c hc
      rcases i2 c hc with h | h
      · exact Or.inl h
      · rcases mem_cueKeys_wdSetRow _ _ _ _ h with h' | h'
        · rcases mem_keys_dictRow _ _ _ _ _ _ _ _ h' with h'' | h''
          · exact Or.inl h''
          · exact Or.inr (wdRow_keys_sub _ _ _ h'')
        · exact Or.inr h'

/-- all keys of a `dict_ndl` state are names from `C` / `O` -/
structure KeysIn (C : ι → Prop) (O : κ → Prop) (s : DictState ι κ R) : Prop where
  all : ∀ x ∈ s.all, O x
  outs : ∀ x ∈ outKeys s.W, O x
  cues : ∀ c ∈ cueKeys s.W, C c

theorem dictStep_keys (C : ι → Prop) (O : κ → Prop) (α : ι → R) (β₁ β₂ lam : R) (s : DictState ι κ R)
    (e : Event ι κ) (h : KeysIn C O s) (hc : ∀ c ∈ e.cues, C c) (ho : ∀ o ∈ e.outcomes, O o) :
    KeysIn C O (dictStep α β₁ β₂ lam s e) := by
  have hall : ∀ x ∈ unionNew s.all e.outcomes, O x := by
    intro x hx
    rcases (unionNew_mem _ _ _).mp hx with h' | h'
    · exact h.all x h'
    · exact ho x h'
  obtain ⟨k1, k2⟩ := keys_fold_rows α β₁ β₂ lam e.cues (fun o => decide (o ∈ e.outcomes))
    (unionNew s.all e.outcomes) s.W
  refine ⟨hall, ?_, ?_⟩
  · intro x hx
    rcases k1 x hx with h' | h'
    · exact hall x h'
    · exact h.outs x h'
  · intro c hx
    rcases k2 c hx with h' | h'
    · exact hc c h'
    · exact h.cues c h'

theorem dictNdl_go_keys (C : ι → Prop) (O : κ → Prop) (p : DupPolicy) (α : ι → R) (β₁ β₂ lam : R)
    (s : DictState ι κ R) (h : KeysIn C O s) (es : List (Event ι κ))
    (hes : ∀ e ∈ es, (∀ c ∈ e.cues, C c) ∧ (∀ o ∈ e.outcomes, O o))
    (W : WDict ι κ R) (hW : dictNdl.go p α β₁ β₂ lam s es = some W) :
    (∀ x ∈ outKeys W, O x) ∧ (∀ c ∈ cueKeys W, C c) := by
  induction es generalizing s with
  | nil =>
    simp only [dictNdl.go, Option.some.injEq] at hW
    subst hW
    exact ⟨h.outs, h.cues⟩
  | cons e es ih =>
    simp only [dictNdl.go] at hW
    cases hpe : applyPolicy p e with
    | none => simp [hpe] at hW
    | some e' =>
      simp only [hpe] at hW
      obtain ⟨s1, s2, _, _⟩ := applyPolicy_sub p e e' hpe
      obtain ⟨hc, ho⟩ := hes e (List.mem_cons_self ..)
      exact ih _ (dictStep_keys C O α β₁ β₂ lam s e' h (fun c hc' => hc c ((s1 c).mp hc'))
        (fun o ho' => ho o ((s2 o).mp ho'))) (fun e he => hes e (List.mem_cons_of_mem _ he)) hW

/-- **`dict_ndl` creates no keys but the names in its events**: the outcome
    keys / cue keys of the returned dict are keys of the dict handed in or
    outcomes / cues of the events -/
theorem dictNdl_keys (C : ι → Prop) (O : κ → Prop) (p : DupPolicy) (α : ι → R) (β₁ β₂ lam : R)
    (W₀ W : WDict ι κ R) (es : List (Event ι κ))
    (h0o : ∀ x ∈ outKeys W₀, O x) (h0c : ∀ c ∈ cueKeys W₀, C c)
    (hes : ∀ e ∈ es, (∀ c ∈ e.cues, C c) ∧ (∀ o ∈ e.outcomes, O o))
    (hW : dictNdl p α β₁ β₂ lam W₀ es = some W) :
    (∀ x ∈ outKeys W, O x) ∧ (∀ c ∈ cueKeys W, C c) := by
  refine dictNdl_go_keys C O p α β₁ β₂ lam (dictInit W₀) ⟨?_, h0o, h0c⟩ es hes W hW
  intro x hx
  rcases (unionNew_mem _ _ _).mp hx with h' | h'
  · cases h'
  · exact h0o x h'

end Keys

/-! ## the labels `ndl.ndl` returns -/

section Labels
variable {R : Type} [CommRing R]

/-- `ndl.ndl` labels its result with the old labels followed by the new names
    (from scratch: the names in order of first occurrence) -/
theorem ndlModel_labels (magic version : Nat) (cfg : NdlCfg) (alpha β₁ β₂ lam : R) (W0 : Option (LW R))
    (es : List (Event String String)) (r : LW R) (n : Nat)
    (h : ndlModel magic version cfg alpha β₁ β₂ lam W0 es = .ok (r, n)) :
    r.cues = (match W0 with
      | none => (countNames es).1
      | some w => w.cues ++ (countNames es).1.filter (fun c => !w.cues.contains c)) ∧
    r.outcomes = (match W0 with
      | none => (countNames es).2
      | some w => w.outcomes ++ (countNames es).2.filter (fun o => !w.outcomes.contains o)) := by
  cases W0 with
  | none =>
    rw [ndlModel_none] at h
    exact ndlCore_labels _ _ _ _ _ _ _ _ _ _ _ _ _ h
  | some w =>
    rw [ndlModel_some] at h
    exact ndlCore_labels _ _ _ _ _ _ _ _ _ _ _ _ _ h

end Labels

/-! ## the invariant of a chain: labels are duplicate free names of the chain's events -/

section Inv
variable {R : Type} [CommRing R]

/-- a labelled matrix whose labels are duplicate free and are names from `C` / `O` -/
structure MatOK (C O : List String) (w : LW R) : Prop where
  ndC : w.cues.Nodup
  ndO : w.outcomes.Nodup
  subC : ∀ c ∈ w.cues, c ∈ C
  subO : ∀ o ∈ w.outcomes, o ∈ O

/-- a weight dict all of whose keys are names from `C` / `O` -/
structure DictOK (C O : List String) (W : WDict String String R) : Prop where
  subO : ∀ o ∈ outKeys W, o ∈ O
  subC : ∀ c ∈ cueKeys W, c ∈ C

/-- the invariant on what Python holds between two calls -/
def StateOK (C O : List String) : Option (ChainState R) → Prop
  | none => True
  | some (.dict W) => DictOK C O W
  | some (.matrix w) => MatOK C O w

/-- the events of one part: names from `C` / `O`, 32-bit counts -/
structure PartFits (C O : List String) (es : List (Event String String)) : Prop where
  nEvents : es.length < 4294967296
  names : ∀ e ∈ es, (∀ c ∈ e.cues, c ∈ C) ∧ (∀ o ∈ e.outcomes, o ∈ O)
  perEvent : ∀ e ∈ es, e.cues.length < 4294967296 ∧ e.outcomes.length < 4294967296

theorem length_le_of_nodup_sub (l C : List String) (hn : l.Nodup) (hs : ∀ x ∈ l, x ∈ C) :
    l.length ≤ (dedupKeepFirst C).length := by
  have hsub : l ⊆ dedupKeepFirst C := fun x hx => (mem_dedupKeepFirst C x).mpr (hs x hx)
  exact (List.subperm_of_subset hn hsub).length_le

theorem merged_nodup (old new : List String) (ho : old.Nodup) (hn : new.Nodup) :
    (old ++ new.filter (fun c => !old.contains c)).Nodup := by
  rw [List.nodup_append]
  refine ⟨ho, hn.filter _, ?_⟩
  intro a ha b hb hab
  subst hab
  have hb2 := (List.mem_filter.mp hb).2
  have : old.contains a = true := List.contains_iff_mem.mpr ha
  rw [this] at hb2
  exact absurd hb2 (by decide)

theorem merged_sub (old new C : List String) (ho : ∀ x ∈ old, x ∈ C) (hn : ∀ x ∈ new, x ∈ C) :
    ∀ x ∈ old ++ new.filter (fun c => !old.contains c), x ∈ C := by
  intro x hx
  rcases List.mem_append.mp hx with h | h
  · exact ho x h
  · exact hn x (List.mem_filter.mp h).1

theorem countNames_sub (C O : List String) (es : List (Event String String)) (h : PartFits C O es) :
    (∀ c ∈ (countNames es).1, c ∈ C) ∧ (∀ o ∈ (countNames es).2, o ∈ O) := by
  unfold countNames
  constructor
  · intro c hc
    obtain ⟨e, he, hce⟩ := List.mem_flatMap.mp ((mem_dedupKeepFirst _ c).mp hc)
    exact (h.names e he).1 c hce
  · intro o ho
    obtain ⟨e, he, hoe⟩ := List.mem_flatMap.mp ((mem_dedupKeepFirst _ o).mp ho)
    exact (h.names e he).2 o hoe

theorem countNames_nodup (es : List (Event String String)) :
    (countNames es).1.Nodup ∧ (countNames es).2.Nodup :=
  ⟨nodup_dedupKeepFirst _, nodup_dedupKeepFirst _⟩

/-- first call (no weights): the part alone fits -/
theorem fits32_of_partFits (C O : List String) (hC : (dedupKeepFirst C).length < 4294967296)
    (hO : (dedupKeepFirst O).length < 4294967296) (es : List (Event String String)) (h : PartFits C O es) :
    Fits32 es := by
  obtain ⟨s1, s2⟩ := countNames_sub C O es h
  obtain ⟨n1, n2⟩ := countNames_nodup es
  refine ⟨h.nEvents, ?_, ?_, h.perEvent⟩
  · have := length_le_of_nodup_sub _ C n1 s1; omega
  · have := length_le_of_nodup_sub _ O n2 s2; omega

/-- continued call: the merged label lists are duplicate free names of the
    chain, hence no longer than the a-priori bound -/
theorem fits32With_of_ok (C O : List String) (hC : (dedupKeepFirst C).length < 4294967296)
    (hO : (dedupKeepFirst O).length < 4294967296) (w : LW R) (hw : MatOK C O w)
    (es : List (Event String String)) (h : PartFits C O es) : Fits32With w es := by
  obtain ⟨s1, s2⟩ := countNames_sub C O es h
  obtain ⟨n1, n2⟩ := countNames_nodup es
  refine ⟨h.nEvents, ?_, ?_, h.perEvent⟩
  · have := length_le_of_nodup_sub _ C (merged_nodup _ _ hw.ndC n1) (merged_sub _ _ C hw.subC s1); omega
  · have := length_le_of_nodup_sub _ O (merged_nodup _ _ hw.ndO n2) (merged_sub _ _ O hw.subO s2); omega

theorem lwFromDict_ok (C O : List String) (W : WDict String String R) (h : DictOK C O W) :
    MatOK C O (lwFromDict W) := by
  refine ⟨nodup_dedupKeepFirst _, nodup_dedupKeepFirst _, ?_, ?_⟩
  · intro c hc
    exact h.subC c ((mem_dedupKeepFirst _ c).mp hc)
  · intro o ho
    exact h.subO o ((mem_dedupKeepFirst _ o).mp ho)

theorem dictFromLW_ok (C O : List String) (w : LW R) (h : MatOK C O w) : DictOK C O (dictFromLW w) := by
  constructor
  · intro o ho
    unfold outKeys dictFromLW at ho
    rw [List.map_map] at ho
    obtain ⟨o', ho', rfl⟩ := List.mem_map.mp ho
    exact h.subO o' ho'
  · intro c hc
    unfold cueKeys dictFromLW at hc
    obtain ⟨r, hr, hcr⟩ := List.mem_flatMap.mp hc
    obtain ⟨o', _, rfl⟩ := List.mem_map.mp hr
    simp only [List.map_map] at hcr
    obtain ⟨c', hc', rfl⟩ := List.mem_map.mp hcr
    exact h.subC c' hc'

theorem toDictArg_ok (C O : List String) (s : Option (ChainState R)) (h : StateOK C O s) :
    DictOK C O (toDictArg s) := by
  cases s with
  | none => exact ⟨fun o ho => (List.not_mem_nil ho).elim, fun c hc => (List.not_mem_nil hc).elim⟩
  | some s =>
    cases s with
    | dict W => exact h
    | matrix w => exact dictFromLW_ok C O w h

theorem toDictArg_abs (s : Option (ChainState R)) : wdAbs (toDictArg s) = stateGet s := by
  cases s with
  | none => rfl
  | some s =>
    cases s with
    | dict W => rfl
    | matrix w => funext o c; exact dictFromLW_abs w o c

end Inv

/-! ## one call of the chain, then the chain by induction over the list of parts -/

section Chain
variable {R : Type} [CommRing R]

theorem rwLearn_congr_init {ι κ : Type} [DecidableEq ι] [DecidableEq κ] (α : ι → R) (β₁ β₂ lam : R)
    (V V' : κ → ι → R) (h : ∀ o c, V o c = V' o c) (es : List (Event ι κ)) :
    rwLearn α β₁ β₂ lam V es = rwLearn α β₁ β₂ lam V' es := by
  have : V = V' := by funext o c; exact h o c
  rw [this]

/-- **one call of the chain** — whatever the state handed in (nothing, a dict,
    a matrix) and whatever the learner: the call succeeds, the new state
    denotes the specification continued from the weight function the old state
    denotes, and the label invariant is kept. -/
theorem chainStep_spec (magic version : Nat) (hm : magic < 4294967296) (hv : version < 4294967296)
    (C O : List String) (hC : (dedupKeepFirst C).length < 4294967296)
    (hO : (dedupKeepFirst O).length < 4294967296) (alpha β₁ β₂ lam : R)
    (s : Option (ChainState R)) (hs : StateOK C O s) (l : PartLearner)
    (hl : l.ChunksOK (dedupKeepFirst O).length)
    (es es' : List (Event String String)) (hne : l.isNdl = true → es ≠ [])
    (hp : applyPolicyAll l.policy es = some es')
    (hfit : PartFits C O es) :
    ∃ s', chainStep magic version alpha β₁ β₂ lam s l es = .ok s' ∧ StateOK C O (some s') ∧
      ∀ o c, s'.get o c = rwLearn (fun _ => alpha) β₁ β₂ lam (stateGet s) es' o c := by
  cases l with
  | dict p mk =>
    obtain ⟨W, hW, habs⟩ := dictNdl_eq_spec p (fun _ => alpha) β₁ β₂ lam (toDictArg s) es es' hp
    rw [toDictArg_abs] at habs
    have h0 := toDictArg_ok C O s hs
    obtain ⟨k1, k2⟩ := dictNdl_keys (· ∈ C) (· ∈ O) p (fun _ => alpha) β₁ β₂ lam (toDictArg s) W es
      h0.subO h0.subC hfit.names hW
    have hWok : DictOK C O W := ⟨k1, k2⟩
    cases mk with
    | false =>
      refine ⟨.dict W, ?_, hWok, ?_⟩
      · simp only [chainStep, hW]; rfl
      · intro o c
        show wdAbs W o c = _
        rw [habs]
    | true =>
      refine ⟨.matrix (lwFromDict W), ?_, lwFromDict_ok C O W hWok, ?_⟩
      · simp only [chainStep, hW]; rfl
      · intro o c
        show (lwFromDict W).get o c = _
        rw [lwFromDict_get, habs]
  | ndl cfg =>
    have hl : CfgOK cfg (dedupKeepFirst O).length := hl
    have hne : es ≠ [] := hne rfl
    -- what `ndl.ndl` receives
    have harg : (toNdlArg s = none ∧ s = none) ∨
        ∃ w, toNdlArg s = some w ∧ MatOK C O w ∧ ∀ o c, w.get o c = stateGet s o c := by
      cases s with
      | none => exact Or.inl ⟨rfl, rfl⟩
      | some s =>
        cases s with
        | dict W => exact Or.inr ⟨lwFromDict W, rfl, lwFromDict_ok C O W hs, fun o c => lwFromDict_get W o c⟩
        | matrix w => exact Or.inr ⟨w, rfl, hs, fun o c => rfl⟩
    obtain ⟨sc, so⟩ := countNames_sub C O es hfit
    obtain ⟨nc, no⟩ := countNames_nodup es
    rcases harg with ⟨ha, hsn⟩ | ⟨w, ha, hwok, hwget⟩
    · subst hsn
      obtain ⟨r, hr, hrget⟩ := ndlModel_eq_spec magic version hm hv cfg alpha β₁ β₂ lam es es'
        (hl.mono (length_le_of_nodup_sub _ O no so)) hp (fits32_of_partFits C O hC hO es hfit)
      obtain ⟨lc, lo⟩ := ndlModel_labels magic version cfg alpha β₁ β₂ lam none es r es.length hr
      simp only at lc lo
      refine ⟨.matrix r, ?_, ?_, ?_⟩
      · simp only [chainStep, ha, ndlCall_nonempty _ _ _ _ _ _ _ _ _ hne, hr]
      · exact ⟨by rw [lc]; exact nc, by rw [lo]; exact no, by rw [lc]; exact sc, by rw [lo]; exact so⟩
      · intro o c
        exact hrget o c
    · obtain ⟨r, hr, hrget⟩ := ndlModel_continue_eq_spec magic version hm hv cfg alpha β₁ β₂ lam
        w es es' (hl.mono (length_le_of_nodup_sub _ O (merged_nodup _ _ hwok.ndO no) (merged_sub _ _ O hwok.subO so)))
        hp (fits32With_of_ok C O hC hO w hwok es hfit)
      obtain ⟨lc, lo⟩ := ndlModel_labels magic version cfg alpha β₁ β₂ lam (some w) es r es.length hr
      simp only at lc lo
      refine ⟨.matrix r, ?_, ?_, ?_⟩
      · simp only [chainStep, ha, ndlCall_nonempty _ _ _ _ _ _ _ _ _ hne, hr]
      · exact ⟨by rw [lc]; exact merged_nodup _ _ hwok.ndC nc, by rw [lo]; exact merged_nodup _ _ hwok.ndO no,
          by rw [lc]; exact merged_sub _ _ C hwok.subC sc, by rw [lo]; exact merged_sub _ _ O hwok.subO so⟩
      · intro o c
        show r.get o c = _
        rw [hrget o c, rwLearn_congr_init (fun _ => alpha) β₁ β₂ lam _ (stateGet s) hwget]

/-- **the chain, by induction over the list of parts**, from any state that
    satisfies the label invariant -/
theorem chainRun_spec (magic version : Nat) (hm : magic < 4294967296) (hv : version < 4294967296)
    (C O : List String) (hC : (dedupKeepFirst C).length < 4294967296)
    (hO : (dedupKeepFirst O).length < 4294967296) (alpha β₁ β₂ lam : R)
    (parts : List Part) (s : Option (ChainState R)) (hs : StateOK C O s)
    (es' : List (Event String String)) (hp : chainPolicy parts = some es')
    (hl : ∀ pt ∈ parts, pt.1.ChunksOK (dedupKeepFirst O).length)
    (hne : ∀ pt ∈ parts, pt.1.isNdl = true → pt.2 ≠ [])
    (hfit : ∀ pt ∈ parts, PartFits C O pt.2) :
    ∃ s', chainRun magic version alpha β₁ β₂ lam s parts = .ok s' ∧ StateOK C O s' ∧
      ∀ o c, stateGet s' o c = rwLearn (fun _ => alpha) β₁ β₂ lam (stateGet s) es' o c := by
  induction parts generalizing s es' with
  | nil =>
    simp only [chainPolicy, Option.some.injEq] at hp
    subst hp
    exact ⟨s, rfl, hs, fun o c => rfl⟩
  | cons pt ps ih =>
    simp only [chainPolicy] at hp
    cases h1 : applyPolicyAll pt.1.policy pt.2 with
    | none => simp [h1] at hp
    | some e1 =>
      simp only [h1] at hp
      cases h2 : chainPolicy ps with
      | none => simp [h2] at hp
      | some e2 =>
        simp only [h2, Option.some.injEq] at hp
        subst hp
        obtain ⟨s1, r1, ok1, g1⟩ := chainStep_spec magic version hm hv C O hC hO alpha β₁ β₂ lam s hs pt.1
          (hl pt (List.mem_cons_self ..)) pt.2 e1 (hne pt (List.mem_cons_self ..)) h1
          (hfit pt (List.mem_cons_self ..))
        obtain ⟨s2, r2, ok2, g2⟩ := ih (some s1) ok1 e2 h2 (fun q hq => hl q (List.mem_cons_of_mem _ hq))
          (fun q hq => hne q (List.mem_cons_of_mem _ hq))
          (fun q hq => hfit q (List.mem_cons_of_mem _ hq))
        refine ⟨s2, ?_, ok2, ?_⟩
        · simp only [chainRun, r1]; exact r2
        · intro o c
          rw [g2 o c, rwLearn_append]
          exact congrFun (congrFun (rwLearn_congr_init (fun _ => alpha) β₁ β₂ lam _ _ g1 e2) o) c

end Chain

/-! ## the a-priori size condition, and the theorems about whole chains -/

section Whole
variable {R : Type} [CommRing R]

theorem mem_allEvents (parts : List Part) (pt : Part) (hpt : pt ∈ parts) (e : Event String String)
    (he : e ∈ pt.2) : e ∈ allEvents parts :=
  List.mem_flatten.mpr ⟨pt.2, List.mem_map.mpr ⟨pt, hpt, rfl⟩, he⟩

theorem length_le_allEvents (parts : List Part) (pt : Part) (hpt : pt ∈ parts) :
    pt.2.length ≤ (allEvents parts).length := by
  induction parts with
  | nil => cases hpt
  | cons q qs ih =>
    show pt.2.length ≤ (q.2 ++ allEvents qs).length
    rw [List.length_append]
    rcases List.mem_cons.mp hpt with h | h
    · subst h; omega
    · have := ih h; omega

/-- the size condition on the whole file gives the per-part conditions, with
    `C`, `O` = all cue / outcome occurrences of the whole file -/
theorem partFits_of_fits32 (parts : List Part) (h : Fits32 (allEvents parts)) (pt : Part) (hpt : pt ∈ parts) :
    PartFits ((allEvents parts).flatMap (fun e : Event String String => e.cues))
      ((allEvents parts).flatMap (fun e : Event String String => e.outcomes)) pt.2 := by
  refine ⟨?_, ?_, ?_⟩
  · have := length_le_allEvents parts pt hpt
    have := h.nEvents
    omega
  · intro e he
    have hm := mem_allEvents parts pt hpt e he
    exact ⟨fun c hc => List.mem_flatMap.mpr ⟨e, hm, hc⟩, fun o ho => List.mem_flatMap.mpr ⟨e, hm, ho⟩⟩
  · intro e he
    exact h.perEvent e (mem_allEvents parts pt hpt e he)

/-- **chains of any length, any learner per part**: if every part is accepted
    by the duplicate policy of its learner (`chainPolicy parts = some es'`),
    the `ndl.ndl` parts have legal chunking arguments (`ChunksOK`, w.r.t. the
    number of distinct outcome names of the whole file) and at least one event
    each, and the WHOLE file fits the 32-bit limits (`Fits32 (allEvents parts)`
    — a condition on the inputs only), then the chain of CALLS runs through and
    its final state denotes the specification learned from all-zero weights on
    the policy-processed concatenation. -/
theorem chain_any_length (magic version : Nat) (hm : magic < 4294967296) (hv : version < 4294967296)
    (alpha β₁ β₂ lam : R) (parts : List Part) (es' : List (Event String String))
    (hp : chainPolicy parts = some es')
    (hl : ∀ pt ∈ parts, pt.1.ChunksOK (countNames (allEvents parts)).2.length)
    (hne : ∀ pt ∈ parts, pt.1.isNdl = true → pt.2 ≠ [])
    (hfit : Fits32 (allEvents parts)) :
    ∃ s, chainRun magic version alpha β₁ β₂ lam none parts = .ok s ∧
      ∀ o c, stateGet s o c = rwLearn (fun _ => alpha) β₁ β₂ lam (fun _ _ => (0 : R)) es' o c := by
  obtain ⟨s, r, _, g⟩ := chainRun_spec magic version hm hv
    ((allEvents parts).flatMap (fun e : Event String String => e.cues))
    ((allEvents parts).flatMap (fun e : Event String String => e.outcomes)) hfit.nCues hfit.nOuts
    alpha β₁ β₂ lam parts none trivial es' hp hl hne (partFits_of_fits32 parts hfit)
  exact ⟨s, r, g⟩

/-- the stepwise form: from ANY state satisfying the label invariant w.r.t. name
    lists `C`, `O` (in particular from given initial weights), with the size
    conditions per part -/
theorem chain_any_length_stepwise (magic version : Nat) (hm : magic < 4294967296) (hv : version < 4294967296)
    (C O : List String) (hC : (dedupKeepFirst C).length < 4294967296)
    (hO : (dedupKeepFirst O).length < 4294967296) (alpha β₁ β₂ lam : R)
    (parts : List Part) (s : Option (ChainState R)) (hs : StateOK C O s)
    (es' : List (Event String String)) (hp : chainPolicy parts = some es')
    (hl : ∀ pt ∈ parts, pt.1.ChunksOK (dedupKeepFirst O).length)
    (hne : ∀ pt ∈ parts, pt.1.isNdl = true → pt.2 ≠ [])
    (hfit : ∀ pt ∈ parts, PartFits C O pt.2) :
    ∃ s', chainRun magic version alpha β₁ β₂ lam s parts = .ok s' ∧
      ∀ o c, stateGet s' o c = rwLearn (fun _ => alpha) β₁ β₂ lam (stateGet s) es' o c := by
  obtain ⟨s', r, _, g⟩ := chainRun_spec magic version hm hv C O hC hO alpha β₁ β₂ lam parts s hs es' hp hl hne hfit
  exact ⟨s', r, g⟩

/-- **the chain equals ONE call over the whole file**, of `ndl.ndl` (any method
    and legal chunking arguments) and of `dict_ndl`, when all parts and the single
    call run with the same duplicate policy `p`. That the whole file is accepted
    follows from the parts being accepted (`chainPolicy_uniform`).  The single
    `ndl.ndl` call is the CALL (`ndlCall`), hence `hall`: the file has an event. -/
theorem chain_eq_single_call (magic version : Nat) (hm : magic < 4294967296) (hv : version < 4294967296)
    (alpha β₁ β₂ lam : R) (parts : List Part) (p : DupPolicy) (hpol : ∀ pt ∈ parts, pt.1.policy = p)
    (es' : List (Event String String)) (hp : chainPolicy parts = some es')
    (hl : ∀ pt ∈ parts, pt.1.ChunksOK (countNames (allEvents parts)).2.length)
    (hne : ∀ pt ∈ parts, pt.1.isNdl = true → pt.2 ≠ [])
    (hfit : Fits32 (allEvents parts)) (hall : allEvents parts ≠ [])
    (cfg : NdlCfg) (hcp : cfg.policy = p) (hcfg : CfgOK cfg (countNames (allEvents parts)).2.length) :
    ∃ s w W, chainRun magic version alpha β₁ β₂ lam none parts = .ok s ∧
      ndlCall magic version cfg alpha β₁ β₂ lam none (allEvents parts) = .ok (w, (allEvents parts).length) ∧
      dictNdl p (fun _ => alpha) β₁ β₂ lam [] (allEvents parts) = some W ∧
      ∀ o c, stateGet s o c = w.get o c ∧ stateGet s o c = wdAbs W o c := by
  have hallp : applyPolicyAll p (allEvents parts) = some es' := by
    rw [← chainPolicy_uniform p parts hpol]; exact hp
  obtain ⟨s, r, g⟩ := chain_any_length magic version hm hv alpha β₁ β₂ lam parts es' hp hl hne hfit
  obtain ⟨w, rw', gw⟩ := ndlCall_eq_spec magic version hm hv cfg alpha β₁ β₂ lam (allEvents parts) es' hall
    hcfg (by rw [hcp]; exact hallp) hfit
  obtain ⟨W, rW, gW⟩ := dictNdl_eq_spec p (fun _ => alpha) β₁ β₂ lam ([] : WDict String String R)
    (allEvents parts) es' hallp
  refine ⟨s, w, W, r, rw', rW, fun o c => ⟨?_, ?_⟩⟩
  · rw [g o c, gw o c]
  · rw [g o c, gW]; rfl

/-- **the split does not matter** (general form): two chains — different
    numbers of parts, cut positions, learners — whose policy-processed
    concatenations agree end in the same weight function -/
theorem chain_split_irrelevant_gen (magic version : Nat) (hm : magic < 4294967296) (hv : version < 4294967296)
    (alpha β₁ β₂ lam : R) (parts₁ parts₂ : List Part) (es' : List (Event String String))
    (hp₁ : chainPolicy parts₁ = some es') (hp₂ : chainPolicy parts₂ = some es')
    (hl₁ : ∀ pt ∈ parts₁, pt.1.ChunksOK (countNames (allEvents parts₁)).2.length)
    (hl₂ : ∀ pt ∈ parts₂, pt.1.ChunksOK (countNames (allEvents parts₂)).2.length)
    (hne₁ : ∀ pt ∈ parts₁, pt.1.isNdl = true → pt.2 ≠ [])
    (hne₂ : ∀ pt ∈ parts₂, pt.1.isNdl = true → pt.2 ≠ [])
    (hfit₁ : Fits32 (allEvents parts₁)) (hfit₂ : Fits32 (allEvents parts₂)) :
    ∃ s₁ s₂, chainRun magic version alpha β₁ β₂ lam none parts₁ = .ok s₁ ∧
      chainRun magic version alpha β₁ β₂ lam none parts₂ = .ok s₂ ∧
      ∀ o c, (stateGet s₁ o c : R) = stateGet s₂ o c := by
  obtain ⟨s₁, r₁, g₁⟩ := chain_any_length magic version hm hv alpha β₁ β₂ lam parts₁ es' hp₁ hl₁ hne₁ hfit₁
  obtain ⟨s₂, r₂, g₂⟩ := chain_any_length magic version hm hv alpha β₁ β₂ lam parts₂ es' hp₂ hl₂ hne₂ hfit₂
  exact ⟨s₁, s₂, r₁, r₂, fun o c => by rw [g₁ o c, g₂ o c]⟩

/-- **the split does not matter**: two splits of the SAME file (any numbers of
    parts, cut positions, learner assignments), all with duplicate policy `p`
    which accepts the file -/
theorem chain_split_irrelevant (magic version : Nat) (hm : magic < 4294967296) (hv : version < 4294967296)
    (alpha β₁ β₂ lam : R) (parts₁ parts₂ : List Part) (p : DupPolicy)
    (hpol₁ : ∀ pt ∈ parts₁, pt.1.policy = p) (hpol₂ : ∀ pt ∈ parts₂, pt.1.policy = p)
    (hsame : allEvents parts₁ = allEvents parts₂)
    (es' : List (Event String String)) (hacc : applyPolicyAll p (allEvents parts₁) = some es')
    (hl₁ : ∀ pt ∈ parts₁, pt.1.ChunksOK (countNames (allEvents parts₁)).2.length)
    (hl₂ : ∀ pt ∈ parts₂, pt.1.ChunksOK (countNames (allEvents parts₁)).2.length)
    (hne₁ : ∀ pt ∈ parts₁, pt.1.isNdl = true → pt.2 ≠ [])
    (hne₂ : ∀ pt ∈ parts₂, pt.1.isNdl = true → pt.2 ≠ [])
    (hfit : Fits32 (allEvents parts₁)) :
    ∃ s₁ s₂, chainRun magic version alpha β₁ β₂ lam none parts₁ = .ok s₁ ∧
      chainRun magic version alpha β₁ β₂ lam none parts₂ = .ok s₂ ∧
      ∀ o c, (stateGet s₁ o c : R) = stateGet s₂ o c :=
  chain_split_irrelevant_gen magic version hm hv alpha β₁ β₂ lam parts₁ parts₂ es'
    (by rw [chainPolicy_uniform p parts₁ hpol₁]; exact hacc)
    (by rw [chainPolicy_uniform p parts₂ hpol₂, ← hsame]; exact hacc)
    hl₁ (by rw [← hsame]; exact hl₂) hne₁ hne₂ hfit (by rw [← hsame]; exact hfit)

/-! ### two `ndl.ndl` calls, with the reported counts -/

/-- **two chained `ndl.ndl` CALLS = the specification over the concatenation**
    (possibly different methods and chunk sizes in the two calls, later part
    with new cues/outcomes), under ONE a-priori size condition on the inputs:
    `Fits32 (xs ++ ys)`.  The condition `Fits32With w₁ ys` for the intermediate
    matrix is DERIVED (its labels are the duplicate-free names of `xs`). -/
theorem ndlCall_chain_two (magic version : Nat) (hm : magic < 4294967296) (hv : version < 4294967296)
    (cfg₁ cfg₂ : NdlCfg) (alpha β₁ β₂ lam : R)
    (xs xs' ys ys' : List (Event String String)) (hxne : xs ≠ []) (hyne : ys ≠ [])
    (hc₁ : CfgOK cfg₁ (countNames (xs ++ ys)).2.length) (hc₂ : CfgOK cfg₂ (countNames (xs ++ ys)).2.length)
    (hx : applyPolicyAll cfg₁.policy xs = some xs') (hy : applyPolicyAll cfg₂.policy ys = some ys')
    (fxy : Fits32 (xs ++ ys)) :
    ∃ w₁ w₂, ndlCall magic version cfg₁ alpha β₁ β₂ lam none xs = .ok (w₁, xs.length) ∧
      ndlCall magic version cfg₂ alpha β₁ β₂ lam (some w₁) ys = .ok (w₂, ys.length) ∧
      ∀ o c, w₂.get o c = rwLearn (fun _ => alpha) β₁ β₂ lam (fun _ _ => (0 : R)) (xs' ++ ys') o c := by
  set C := (xs ++ ys).flatMap (fun e : Event String String => e.cues) with hCdef
  set O := (xs ++ ys).flatMap (fun e : Event String String => e.outcomes) with hOdef
  have hC : (dedupKeepFirst C).length < 4294967296 := fxy.nCues
  have hO : (dedupKeepFirst O).length < 4294967296 := fxy.nOuts
  have hlen := fxy.nEvents
  rw [List.length_append] at hlen
  have fx : PartFits C O xs := ⟨by omega,
    fun e he => ⟨fun c hc => List.mem_flatMap.mpr ⟨e, List.mem_append_left _ he, hc⟩,
      fun o ho => List.mem_flatMap.mpr ⟨e, List.mem_append_left _ he, ho⟩⟩,
    fun e he => fxy.perEvent e (List.mem_append_left _ he)⟩
  have fy : PartFits C O ys := ⟨by omega,
    fun e he => ⟨fun c hc => List.mem_flatMap.mpr ⟨e, List.mem_append_right _ he, hc⟩,
      fun o ho => List.mem_flatMap.mpr ⟨e, List.mem_append_right _ he, ho⟩⟩,
    fun e he => fxy.perEvent e (List.mem_append_right _ he)⟩
  obtain ⟨scx, sox⟩ := countNames_sub C O xs fx
  obtain ⟨ncx, nox⟩ := countNames_nodup xs
  obtain ⟨scy, soy⟩ := countNames_sub C O ys fy
  obtain ⟨ncy, noy⟩ := countNames_nodup ys
  have hc₁' : CfgOK cfg₁ (dedupKeepFirst O).length := hc₁
  have hc₂' : CfgOK cfg₂ (dedupKeepFirst O).length := hc₂
  obtain ⟨w₁, e1, a1⟩ := ndlModel_eq_spec magic version hm hv cfg₁ alpha β₁ β₂ lam xs xs'
    (hc₁'.mono (length_le_of_nodup_sub _ O nox sox)) hx (fits32_of_partFits C O hC hO xs fx)
  obtain ⟨lc, lo⟩ := ndlModel_labels magic version cfg₁ alpha β₁ β₂ lam none xs w₁ xs.length e1
  simp only at lc lo
  have hw₁ : MatOK C O w₁ :=
    ⟨by rw [lc]; exact ncx, by rw [lo]; exact nox, by rw [lc]; exact scx, by rw [lo]; exact sox⟩
  obtain ⟨w₂, e2, a2⟩ := ndlModel_continue_eq_spec magic version hm hv cfg₂ alpha β₁ β₂ lam w₁ ys ys'
    (hc₂'.mono (length_le_of_nodup_sub _ O (merged_nodup _ _ hw₁.ndO noy) (merged_sub _ _ O hw₁.subO soy)))
    hy (fits32With_of_ok C O hC hO w₁ hw₁ ys fy)
  refine ⟨w₁, w₂, by rw [ndlCall_nonempty _ _ _ _ _ _ _ _ _ hxne]; exact e1,
    by rw [ndlCall_nonempty _ _ _ _ _ _ _ _ _ hyne]; exact e2, ?_⟩
  intro o c
  rw [a2, rwLearn_append]
  congr 1
  funext o c
  exact a1 o c

/-! ### the error direction: an EMPTY `ndl.ndl` part -/

theorem chainRun_append (magic version : Nat) (alpha β₁ β₂ lam : R) (s : Option (ChainState R))
    (pre post : List Part) :
    chainRun magic version alpha β₁ β₂ lam s (pre ++ post) =
      match chainRun magic version alpha β₁ β₂ lam s pre with
      | .error e => .error e
      | .ok s' => chainRun magic version alpha β₁ β₂ lam s' post := by
  induction pre generalizing s with
  | nil => rfl
  | cons pt ps ih =>
    simp only [List.cons_append, chainRun]
    cases chainStep magic version alpha β₁ β₂ lam s pt.1 pt.2 with
    | error e => rfl
    | ok s' => exact ih (some s')

/-- **an `ndl.ndl` part with ZERO events makes the chain raise `IOError`** — with
    OpenMP always, with threading as soon as the state handed to it has at least
    one outcome label (i.e. after any earlier part that saw an outcome) — wherever
    the part stands and whatever follows.  (`dict_ndl` on an empty part is a
    no-op; this is where the learners differ.) -/
theorem chainRun_empty_ndl_part_raises (magic version : Nat) (alpha β₁ β₂ lam : R)
    (s : Option (ChainState R)) (pre post : List Part) (s₁ : Option (ChainState R))
    (hpre : chainRun magic version alpha β₁ β₂ lam s pre = .ok s₁)
    (cfg : NdlCfg) (hper : 2 ≤ cfg.perFile) (hperU : cfg.perFile < 4294967296)
    (hjt : cfg.method = .threading → 1 ≤ cfg.perJob)
    (hjo : cfg.method = .openmp → cfg.perJob < 4294967296)
    (hout : cfg.method = .openmp ∨ ∃ w, toNdlArg s₁ = some w ∧ w.outcomes ≠ []) :
    chainRun magic version alpha β₁ β₂ lam s (pre ++ (.ndl cfg, []) :: post) = .error .io := by
  rw [chainRun_append, hpre]
  simp only [chainRun, chainStep,
    ndlCall_nil_raises magic version cfg alpha β₁ β₂ lam (toNdlArg s₁) hper hperU hjt hjo hout]

end Whole

end Pyndl
