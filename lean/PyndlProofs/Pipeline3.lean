/-
  PyndlProofs.Pipeline3 — two facts about the events `ndl.ndl` receives at the end
  of the pipeline (feeds C15):

  * `filtered_fileEvents`: the events parsed from the filtered file are what an
    event file can hold (`FileEvents`: ≥ 1 cue — the filter drops an event left
    without cues — and ≥ 1 outcome — an empty outcome field reads back as `""`).
    PROVED from the filter / reader models, not assumed: the hypothesis `hfile`
    of the C01 theorems is discharged here.
  * `pipeline_ndl_order_irrelevant`: the ORDER of the tokens inside the events
    of the created file (`create_event_file(remove_duplicates=True)` writes
    `set(cues)`: hash order, where the creation model writes first occurrences),
    the order of the labels the counting stage produces and the order of the ids
    inside the binary events are all irrelevant for the weights `ndl.ndl`
    returns: for ANY created event list that agrees with the model's event by
    event up to the order inside the events, the filter, the reader and the
    generalised `ndl.ndl` model (`ndlModelWith`) give the same weight at every
    pair of names as `pipeline_ndl` states for the model's order.
-/
import PyndlProofs.Pipeline2
import PyndlProofs.LabelOrder
import PyndlProofs.FileEvents

set_option linter.unusedSectionVars false
set_option linter.unusedVariables false

namespace Pyndl.Pipeline
open Pyndl Pyndl.Text List

/-- the `String` events `ndl.ndl` receives behind the filter -/
def pipeS (rc ro : Filter.Rule Char) (es : List TEvent) : List (Event String String) :=
  ((es.filterMap (filterEvent rc ro)).map normalise).map toS

theorem pipeS_eq (rc ro : Filter.Rule Char) (es : List TEvent) :
    pipeS rc ro es = ((es.filterMap (filterEvent rc ro)).map normalise).map toS := rfl

theorem normList_ne_nil (xs : List Str) : normList xs ≠ [] := by
  unfold normList
  split
  · simp
  · assumption

/-- **the events behind the filter are `FileEvents`** — for every rule pair and
    every event list, no hypothesis -/
theorem filtered_fileEvents (rc ro : Filter.Rule Char) (es : List TEvent) : FileEvents (pipeS rc ro es) := by
  intro e he
  unfold pipeS at he
  obtain ⟨e1, he1, rfl⟩ := List.mem_map.mp he
  obtain ⟨e0, he0, rfl⟩ := List.mem_map.mp he1
  obtain ⟨e00, _, hf⟩ := List.mem_filterMap.mp he0
  unfold filterEvent at hf
  simp only at hf
  split at hf
  · cases hf
  · rename_i hcs
    simp only [Option.some.injEq] at hf
    subst hf
    refine ⟨?_, ?_⟩
    · simpa [toS, normalise] using hcs
    · simpa [toS, normalise] using normList_ne_nil _

/-! ### the filter respects the order relation -/

theorem rule_apply_perm (r : Filter.Rule Char) {ts ts' : List Str} (h : ts ~ ts') : r.apply ts ~ r.apply ts' := by
  cases r with
  | all => exact h
  | keep S => exact h.filter _
  | remove S => exact h.filter _
  | map m => exact (h.map _).filter _

theorem filterEvent_perm (rc ro : Filter.Rule Char) (a b : TEvent)
    (h : a.cues ~ b.cues ∧ a.outcomes ~ b.outcomes) :
    (filterEvent rc ro a = none ∧ filterEvent rc ro b = none) ∨
    ∃ a' b', filterEvent rc ro a = some a' ∧ filterEvent rc ro b = some b' ∧
      a'.cues ~ b'.cues ∧ a'.outcomes ~ b'.outcomes := by
  have hc := rule_apply_perm rc h.1
  have ho := rule_apply_perm ro h.2
  unfold filterEvent
  simp only
  by_cases ha : rc.apply a.cues = []
  · have hb : rc.apply b.cues = [] := List.Perm.eq_nil (ha ▸ hc.symm)
    left; simp [ha, hb]
  · have hb : rc.apply b.cues ≠ [] := fun hb => ha (List.Perm.eq_nil (hb ▸ hc))
    right
    exact ⟨⟨rc.apply a.cues, ro.apply a.outcomes⟩, ⟨rc.apply b.cues, ro.apply b.outcomes⟩,
      by simp [ha], by simp [hb], hc, ho⟩

theorem normList_perm {xs ys : List Str} (h : xs ~ ys) : normList xs ~ normList ys := by
  unfold normList
  by_cases hx : xs = []
  · have hy : ys = [] := List.Perm.eq_nil (hx ▸ h.symm)
    simp [hx, hy]
  · have hy : ys ≠ [] := fun hy => hx (List.Perm.eq_nil (hy ▸ h))
    simp [hx, hy, h]

/-- created event lists that agree up to the order inside the events give
    parsed event lists that agree up to the order inside the events -/
theorem pipeS_perm (rc ro : Filter.Rule Char) (es₁ es₂ : List TEvent) (h : EventsPerm es₁ es₂) :
    EventsPerm (pipeS rc ro es₁) (pipeS rc ro es₂) := by
  unfold pipeS EventsPerm
  induction h with
  | nil => exact List.Forall₂.nil
  | @cons a b t₁ t₂ hab _ ih =>
    rcases filterEvent_perm rc ro a b hab with ⟨n1, n2⟩ | ⟨a', b', ha, hb, hc, ho⟩
    · simp only [List.filterMap_cons, n1, n2]
      exact ih
    · simp only [List.filterMap_cons, ha, hb, List.map_cons]
      refine List.Forall₂.cons ⟨?_, ?_⟩ ih
      · exact hc.map _
      · exact (normList_perm ho).map _

/-- **behind the pipeline, token order, label order and id order are irrelevant
    for `ndl.ndl`.**  `es`: the created events as the creation model writes them
    (first occurrences); `esReal`: ANY event list that agrees with `es` event by
    event up to the order of the cues and of the outcomes (what
    `create_event_file(remove_duplicates=True)` really writes: `set` order);
    `cues`, `outs`: any permutations of the names (any `n_jobs` of the counting
    stage); `reorder`: any order of the ids inside the binary events
    (`write_events(remove_duplicates=True)`).  Hypotheses `hp`, `hfit`, `hcfg`
    exactly as in `pipeline_ndl`, on the MODEL's list.  Then the generalised
    `ndl.ndl` model on the events parsed from the filtered REAL file succeeds,
    reports their number, is labelled as given, and its weight at every pair of
    names is the right-hand side of `pipeline_ndl`. -/
theorem pipeline_ndl_order_irrelevant {R : Type} [CommRing R]
    (reorder : Event Nat Nat → Event Nat Nat)
    (hre : ∀ e, (reorder e).cues ~ e.cues ∧ (reorder e).outcomes ~ e.outcomes)
    (magic version : Nat) (hm : magic < 4294967296) (hv : version < 4294967296)
    (cfg : NdlCfg) (alpha β₁ β₂ lam : R) (rc ro : Filter.Rule Char)
    (es es' esReal : List TEvent) (hreal : EventsPerm es esReal)
    (hp : applyPolicyAll cfg.policy ((es.filterMap (filterEvent rc ro)).map normalise) = some es')
    (hfit : Fits32 (pipeS rc ro es)) (hcfg : CfgOK cfg (countNames (pipeS rc ro es)).2.length)
    (cues outs : List String) (hpc : cues ~ (countNames (pipeS rc ro es)).1)
    (hpo : outs ~ (countNames (pipeS rc ro es)).2) :
    ∃ w, ndlModelWith reorder magic version cfg alpha β₁ β₂ lam cues outs (pipeS rc ro esReal)
        = .ok (w, (pipeS rc ro esReal).length) ∧
      w.cues = cues ∧ w.outcomes = outs ∧ FileEvents (pipeS rc ro esReal) ∧
      (∀ o c : String, w.get o c
          = rwLearn (fun _ => alpha) β₁ β₂ lam (fun _ _ => (0 : R)) (es'.map toS) o c) ∧
      (∀ o c : Str, w.get (String.ofList o) (String.ofList c)
          = rwLearn (fun _ => alpha) β₁ β₂ lam (wdAbs ([] : WDict Str Str R)) es' o c) := by
  obtain ⟨w, hw, lc, lo, g⟩ := ndlModelWith_events_perm reorder hre magic version hm hv cfg alpha β₁ β₂ lam
    (pipeS rc ro es) (es'.map toS) (pipeS rc ro esReal) (pipeS_perm rc ro es esReal hreal) cues outs hpc hpo hcfg
    (applyPolicyAll_toS cfg.policy _ es' hp) hfit
  refine ⟨w, hw, lc, lo, filtered_fileEvents rc ro esReal, g, ?_⟩
  intro o c
  rw [g, rwLearn_toS, wdAbs_nil]

end Pyndl.Pipeline
