/-
  PyndlProofs.FileEvents — the event lists `ndl.ndl` can receive.

  `ndl.ndl` reads its events from a text event file (a path, or the spool file
  it writes for a generator): an event with no outcome — or no cue — comes back
  with the ONE name `""` on that side (`fileNorm`, PyndlModel/Ndl.lean; C07
  `parse_render_general`).  So the code's function of an arbitrary event list
  `es` is `ndlCallFile … es = ndlCall … (es.map fileNorm)`, and `ndlCall … es`
  itself is the call only for `FileEvents es` (every event has a cue and an
  outcome).  Without that hypothesis the statements about `ndlCall` would
  quantify over inputs the code never sees and be FALSE about it there:
  `[⟨["a"], []⟩]` — model labels `[]`, code labels `[""]`.

  Here: `fileNorm` is idempotent, its image is `FileEvents`, it is the identity
  on `FileEvents`; the end-to-end theorems for `ndlCallFile` on ARBITRARY event
  lists (result = `rwLearn` on the policy-processed NORMALISED events; labels =
  the names of the normalised events).
-/
import PyndlProofs.NdlCall
import PyndlProofs.Chain

set_option linter.unusedSectionVars false
set_option linter.unusedVariables false

namespace Pyndl
open List

theorem fileNormList_ne_nil (xs : List String) : fileNormList xs ≠ [] := by
  cases xs <;> simp [fileNormList]

theorem fileNormList_of_ne_nil (xs : List String) (h : xs ≠ []) : fileNormList xs = xs := by
  cases xs with
  | nil => exact absurd rfl h
  | cons _ _ => rfl

/-- reading a written file twice changes nothing more -/
theorem fileNorm_idem (e : Event String String) : fileNorm (fileNorm e) = fileNorm e := by
  unfold fileNorm
  simp only [fileNormList_of_ne_nil _ (fileNormList_ne_nil _)]

theorem fileNorm_of_ne_nil (e : Event String String) (hc : e.cues ≠ []) (ho : e.outcomes ≠ []) :
    fileNorm e = e := by
  unfold fileNorm
  rw [fileNormList_of_ne_nil _ hc, fileNormList_of_ne_nil _ ho]

/-- what a file presents is a `FileEvents` list -/
theorem fileEvents_map_fileNorm (es : List (Event String String)) : FileEvents (es.map fileNorm) := by
  intro e he
  obtain ⟨e0, _, rfl⟩ := List.mem_map.mp he
  exact ⟨fileNormList_ne_nil _, fileNormList_ne_nil _⟩

/-- on `FileEvents` the file changes nothing -/
theorem map_fileNorm_of_fileEvents (es : List (Event String String)) (h : FileEvents es) :
    es.map fileNorm = es := by
  conv_rhs => rw [← List.map_id es]
  apply List.map_congr_left
  intro e he
  exact fileNorm_of_ne_nil e (h e he).1 (h e he).2

theorem fileEvents_append {xs ys : List (Event String String)} :
    FileEvents (xs ++ ys) ↔ FileEvents xs ∧ FileEvents ys := by
  unfold FileEvents
  constructor
  · intro h
    exact ⟨fun e he => h e (List.mem_append_left _ he), fun e he => h e (List.mem_append_right _ he)⟩
  · rintro ⟨h1, h2⟩ e he
    rcases List.mem_append.mp he with h | h
    · exact h1 e h
    · exact h2 e h

/-- names of a `FileEvents` list: every event contributes a cue and an outcome
    label — in particular the label lists of a non-empty file are non-empty -/
theorem countNames_ne_nil_of_fileEvents (es : List (Event String String)) (h : FileEvents es) (hne : es ≠ []) :
    (countNames es).1 ≠ [] ∧ (countNames es).2 ≠ [] := by
  cases es with
  | nil => exact absurd rfl hne
  | cons e rest =>
    obtain ⟨hc, ho⟩ := h e (List.mem_cons_self)
    obtain ⟨c, hc'⟩ := List.exists_mem_of_ne_nil _ hc
    obtain ⟨o, ho'⟩ := List.exists_mem_of_ne_nil _ ho
    have m := countNames_mem (e :: rest) e (List.mem_cons_self)
    exact ⟨List.ne_nil_of_mem (m.1 c hc'), List.ne_nil_of_mem (m.2 o ho')⟩

section
variable {R : Type} [Add R] [Sub R] [Mul R] [Zero R]

/-- `ndlCall` IS the call on a path / generator for `FileEvents` -/
theorem ndlCallFile_of_fileEvents (magic version : Nat) (cfg : NdlCfg) (alpha β₁ β₂ lam : R) (W0 : Option (LW R))
    (es : List (Event String String)) (h : FileEvents es) :
    ndlCallFile magic version cfg alpha β₁ β₂ lam W0 es = ndlCall magic version cfg alpha β₁ β₂ lam W0 es := by
  unfold ndlCallFile
  rw [map_fileNorm_of_fileEvents es h]

/-- the call on a path / generator normalises once: calling it on the normalised
    list is the same call -/
theorem ndlCallFile_fileNorm (magic version : Nat) (cfg : NdlCfg) (alpha β₁ β₂ lam : R) (W0 : Option (LW R))
    (es : List (Event String String)) :
    ndlCallFile magic version cfg alpha β₁ β₂ lam W0 (es.map fileNorm)
      = ndlCallFile magic version cfg alpha β₁ β₂ lam W0 es :=
  ndlCallFile_of_fileEvents _ _ _ _ _ _ _ _ _ (fileEvents_map_fileNorm es)

end

section
variable {R : Type} [CommRing R]

/-- **`ndl.ndl(events=path/generator)` = specification, for EVERY event list**
    with at least one event: the result is `rwLearn` on the policy-processed
    NORMALISED events (an event without outcomes trains the outcome `""`
    positively and every other outcome negatively — it is NOT the outcome-less
    event of `dict_ndl` on an in-memory list), the reported count is the number
    of events.  `hcfg`, `hp`, `hfit` are about the normalised list. -/
theorem ndlCallFile_eq_spec (magic version : Nat) (hm : magic < 4294967296) (hv : version < 4294967296)
    (cfg : NdlCfg) (alpha β₁ β₂ lam : R) (es es' : List (Event String String)) (hne : es ≠ [])
    (hcfg : CfgOK cfg (countNames (es.map fileNorm)).2.length)
    (hp : applyPolicyAll cfg.policy (es.map fileNorm) = some es') (hfit : Fits32 (es.map fileNorm)) :
    ∃ w, ndlCallFile magic version cfg alpha β₁ β₂ lam none es = .ok (w, es.length) ∧
      ∀ o c, w.get o c = rwLearn (fun _ => alpha) β₁ β₂ lam (fun _ _ => (0 : R)) es' o c := by
  obtain ⟨w, h1, h2⟩ := ndlCall_eq_spec magic version hm hv cfg alpha β₁ β₂ lam (es.map fileNorm) es'
    (by simpa using hne) hcfg hp hfit
  rw [List.length_map] at h1
  exact ⟨w, h1, h2⟩

/-- **the labels of `ndl.ndl(events=path/generator)`** are exactly the names of
    the NORMALISED events, each once, in order of first occurrence; a name is a
    cue (outcome) label iff some event mentions it — or it is `""` and some
    event has no cue (outcome). -/
theorem ndlCallFile_labels (magic version : Nat) (cfg : NdlCfg) (alpha β₁ β₂ lam : R)
    (es : List (Event String String)) (w : LW R) (n : Nat)
    (h : ndlCallFile magic version cfg alpha β₁ β₂ lam none es = .ok (w, n)) :
    w.cues = (countNames (es.map fileNorm)).1 ∧ w.outcomes = (countNames (es.map fileNorm)).2 ∧
    w.cues.Nodup ∧ w.outcomes.Nodup ∧
    (∀ c, c ∈ w.cues ↔ ∃ e ∈ es, c ∈ e.cues ∨ (e.cues = [] ∧ c = "")) ∧
    (∀ o, o ∈ w.outcomes ↔ ∃ e ∈ es, o ∈ e.outcomes ∨ (e.outcomes = [] ∧ o = "")) := by
  obtain ⟨lc, lo⟩ := ndlModel_labels _ _ cfg alpha β₁ β₂ lam none _ w n (ndlCall_ok _ _ _ _ _ _ _ _ _ _ h)
  simp only at lc lo
  have hmem : ∀ (xs : List String) (x : String), x ∈ fileNormList xs ↔ x ∈ xs ∨ (xs = [] ∧ x = "") := by
    intro xs x
    cases xs with
    | nil => simp [fileNormList]
    | cons a t => simp [fileNormList]
  refine ⟨lc, lo, by rw [lc]; exact (countNames_nodup _).1, by rw [lo]; exact (countNames_nodup _).2, ?_, ?_⟩
  · intro c
    rw [lc]
    unfold countNames
    rw [mem_dedupKeepFirst, List.mem_flatMap]
    constructor
    · rintro ⟨e, he, hc⟩
      obtain ⟨e0, he0, rfl⟩ := List.mem_map.mp he
      exact ⟨e0, he0, (hmem _ _).mp hc⟩
    · rintro ⟨e, he, hc⟩
      exact ⟨fileNorm e, List.mem_map_of_mem he, (hmem _ _).mpr hc⟩
  · intro o
    rw [lo]
    unfold countNames
    rw [mem_dedupKeepFirst, List.mem_flatMap]
    constructor
    · rintro ⟨e, he, hc⟩
      obtain ⟨e0, he0, rfl⟩ := List.mem_map.mp he
      exact ⟨e0, he0, (hmem _ _).mp hc⟩
    · rintro ⟨e, he, hc⟩
      exact ⟨fileNorm e, List.mem_map_of_mem he, (hmem _ _).mpr hc⟩

/-- continued call on a path / generator -/
theorem ndlCallFile_continue_eq_spec (magic version : Nat) (hm : magic < 4294967296) (hv : version < 4294967296)
    (cfg : NdlCfg) (alpha β₁ β₂ lam : R) (w : LW R) (es es' : List (Event String String)) (hne : es ≠ [])
    (hcfg : CfgOK cfg (mergedOutcomes w (es.map fileNorm)).length)
    (hp : applyPolicyAll cfg.policy (es.map fileNorm) = some es') (hfit : Fits32With w (es.map fileNorm)) :
    ∃ r, ndlCallFile magic version cfg alpha β₁ β₂ lam (some w) es = .ok (r, es.length) ∧
      ∀ o c, r.get o c = rwLearn (fun _ => alpha) β₁ β₂ lam (fun o c => w.get o c) es' o c := by
  obtain ⟨r, h1, h2⟩ := ndlCall_continue_eq_spec magic version hm hv cfg alpha β₁ β₂ lam w (es.map fileNorm) es'
    (by simpa using hne) hcfg hp hfit
  rw [List.length_map] at h1
  exact ⟨r, h1, h2⟩

end

end Pyndl
