import PyndlModel.RW
import Mathlib.Tactic.Ring
import Mathlib.Algebra.BigOperators.Group.List.Basic
import Mathlib.Data.List.Count

set_option linter.unusedSectionVars false
set_option linter.unusedSimpArgs false

namespace Pyndl
open List

variable {R : Type} [CommRing R]
variable {ι κ : Type} [DecidableEq ι] [DecidableEq κ]

@[simp] theorem upd_same {α β : Type} [DecidableEq α] (f : α → β) (a : α) (v : β) :
    upd f a v a = v := by simp [upd]

theorem upd_other {α β : Type} [DecidableEq α] (f : α → β) (a : α) (v : β) (x : α) (h : x ≠ a) :
    upd f a v x = f x := by simp [upd, h]

theorem sumOver_foldl (w : ι → R) (cs : List ι) (a : R) :
    cs.foldl (fun acc c => acc + w c) a = a + (cs.map w).sum := by
  induction cs generalizing a with
  | nil => simp
  | cons c cs ih => simp [ih, add_assoc]

theorem sumOver_eq (w : ι → R) (cs : List ι) : sumOver w cs = (cs.map w).sum := by
  simp [sumOver, sumOver_foldl]

theorem addCues_apply (α : ι → R) (u : R) (w : ι → R) (cs : List ι) (c : ι) :
    addCues α u w cs c = w c + (cs.count c : R) * (α c * u) := by
  unfold addCues
  induction cs generalizing w with
  | nil => simp
  | cons d cs ih =>
    simp only [List.foldl_cons]
    rw [ih]
    by_cases h : d = c
    · subst h; simp [List.count_cons_self]; ring
    · have h' : c ≠ d := fun e => h e.symm
      simp [upd_other _ _ _ _ h', List.count_cons_of_ne h]

/-- the update factor of one row for one event -/
def rwU (β₁ β₂ lam : R) (w : ι → R) (cs : List ι) (present : Bool) : R :=
  if present then β₁ * (lam - (cs.map w).sum) else β₂ * (0 - (cs.map w).sum)

theorem rwRow_apply (α : ι → R) (β₁ β₂ lam : R) (w : ι → R) (cs : List ι) (p : Bool) (c : ι) :
    rwRow α β₁ β₂ lam w cs p c = w c + (cs.count c : R) * (α c * rwU β₁ β₂ lam w cs p) := by
  unfold rwRow rwU
  simp only [addCues_apply, sumOver_eq]

/-- a cue that does not occur in the event keeps its weight -/
theorem rwRow_absent (α : ι → R) (β₁ β₂ lam : R) (w : ι → R) (cs : List ι) (p : Bool) (c : ι)
    (h : c ∉ cs) : rwRow α β₁ β₂ lam w cs p c = w c := by
  rw [rwRow_apply, List.count_eq_zero_of_not_mem h]; simp

/-- the step depends on the cue list only through its multiset -/
theorem rwRow_perm (α : ι → R) (β₁ β₂ lam : R) (w : ι → R) {cs cs' : List ι} (h : cs ~ cs')
    (p : Bool) : rwRow α β₁ β₂ lam w cs p = rwRow α β₁ β₂ lam w cs' p := by
  funext c
  simp only [rwRow_apply, rwU, h.count_eq, (h.map w).sum_eq]

end Pyndl
