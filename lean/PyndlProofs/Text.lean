/-
  PyndlProofs.Text — lemmas about the text-format model (C07) and the strided
  counters (C11).
-/
import PyndlModel.Text
import Mathlib.Algebra.BigOperators.Group.List.Basic
import Mathlib.Data.List.Count
import Mathlib.Data.List.Perm.Basic
import Mathlib.Data.Nat.Digits.Defs

set_option linter.unusedSectionVars false
set_option linter.unusedSimpArgs false
set_option linter.unusedVariables false
set_option linter.unnecessarySeqFocus false

namespace Pyndl.Text
open List

/-! ## splitOn / joinWith -/

theorem splitOn_nil (sep : Char) : splitOn sep [] = [[]] := rfl

theorem splitOn_cons_sep (sep : Char) (cs : Str) : splitOn sep (sep :: cs) = [] :: splitOn sep cs := by
  simp [splitOn]

theorem splitOn_ne_nil (sep : Char) (s : Str) : splitOn sep s ≠ [] := by
  induction s with
  | nil => simp [splitOn]
  | cons c cs ih =>
    by_cases h : c = sep
    · simp [splitOn, h]
    · simp only [splitOn, if_neg h]
      cases hs : splitOn sep cs with
      | nil => simp
      | cons a t => simp

theorem splitOn_cons_ne (sep c : Char) (cs h : Str) (t : List Str) (hc : c ≠ sep)
    (hs : splitOn sep cs = h :: t) : splitOn sep (c :: cs) = (c :: h) :: t := by
  simp only [splitOn, if_neg hc, hs]

/-- `(x + sep + r).split(sep) == [x] + r.split(sep)` when `sep ∉ x`. -/
theorem splitOn_append_sep (sep : Char) (x r : Str) (h : sep ∉ x) :
    splitOn sep (x ++ sep :: r) = x :: splitOn sep r := by
  induction x with
  | nil => simp [splitOn]
  | cons c x ih =>
    have hc : c ≠ sep := fun e => h (by simp [e])
    have hx : sep ∉ x := fun m => h (by simp [m])
    exact splitOn_cons_ne sep c _ _ _ hc (ih hx)

theorem splitOn_no_sep (sep : Char) (x : Str) (h : sep ∉ x) : splitOn sep x = [x] := by
  induction x with
  | nil => rfl
  | cons c x ih =>
    have hc : c ≠ sep := fun e => h (by simp [e])
    have hx : sep ∉ x := fun m => h (by simp [m])
    exact splitOn_cons_ne sep c _ _ _ hc (ih hx)

/-- **`sep.join(xs).split(sep) == xs`** for a non-empty list of strings none of
    which contains `sep`. -/
theorem splitOn_joinWith (sep : Char) (xs : List Str) (hne : xs ≠ [])
    (h : ∀ x ∈ xs, sep ∉ x) : splitOn sep (joinWith sep xs) = xs := by
  induction xs with
  | nil => exact absurd rfl hne
  | cons x r ih =>
    cases r with
    | nil => simpa [joinWith] using splitOn_no_sep sep x (h x (by simp))
    | cons y r =>
      have hx : sep ∉ x := h x (by simp)
      have hr : ∀ z ∈ y :: r, sep ∉ z := fun z hz => h z (by simp [hz])
      simp only [joinWith]
      rw [splitOn_append_sep sep x _ hx, ih (by simp) hr]

/-- `sep.join(s.split(sep)) == s`, always. -/
theorem joinWith_splitOn (sep : Char) (s : Str) : joinWith sep (splitOn sep s) = s := by
  induction s with
  | nil => rfl
  | cons c cs ih =>
    by_cases h : c = sep
    · rw [h, splitOn_cons_sep]
      cases hs : splitOn sep cs with
      | nil => exact absurd hs (splitOn_ne_nil sep cs)
      | cons a t =>
        rw [hs] at ih
        simp [joinWith, ih]
    · cases hs : splitOn sep cs with
      | nil => exact absurd hs (splitOn_ne_nil sep cs)
      | cons a t =>
        rw [splitOn_cons_ne sep c cs a t h hs]
        rw [hs] at ih
        cases t with
        | nil => simp [joinWith] at ih ⊢; exact ih
        | cons b t => simp [joinWith] at ih ⊢; exact ih

theorem not_mem_joinWith (c sep : Char) (xs : List Str) (hc : c ≠ sep) (h : ∀ x ∈ xs, c ∉ x) :
    c ∉ joinWith sep xs := by
  induction xs with
  | nil => simp [joinWith]
  | cons x r ih =>
    cases r with
    | nil => simpa [joinWith] using h x (by simp)
    | cons y r =>
      have hx : c ∉ x := h x (by simp)
      have hr : c ∉ joinWith sep (y :: r) := ih (fun z hz => h z (by simp [hz]))
      simp only [joinWith, mem_append, mem_cons, not_or]
      exact ⟨hx, hc, hr⟩

/-- splitting the joined token list gives the list back, `[]` becoming `[""]`. -/
theorem splitOn_joinWith_norm (sep : Char) (xs : List Str) (h : ∀ x ∈ xs, sep ∉ x) :
    splitOn sep (joinWith sep xs) = normList xs := by
  by_cases hx : xs = []
  · subst hx; rfl
  · rw [splitOn_joinWith sep xs hx h]; simp [normList, hx]

/-! ## strip -/

theorem dropWhile_of_head {p : Char → Bool} : ∀ (s : Str), (∀ c t, s = c :: t → p c = false) →
    s.dropWhile p = s
  | [], _ => rfl
  | c :: t, h => by simp [dropWhile, h c t rfl]

theorem stripLF_append_LF (l : Str) (h : LF ∉ l) : stripLF (l ++ [LF]) = l := by
  unfold stripLF strip lstrip rstrip
  cases l with
  | nil => simp [dropWhile, LF]
  | cons a l =>
    have ha : (a == LF) = false := by
      simp only [beq_eq_false_iff_ne]; intro e; exact h (by simp [e])
    have h1 : dropWhile (fun c => c == LF) (a :: l ++ [LF]) = a :: l ++ [LF] := by
      simp [dropWhile, ha]
    rw [h1]
    have h2 : (a :: l ++ [LF]).reverse = LF :: (a :: l).reverse := by simp
    rw [h2]
    have h3 : dropWhile (fun c => c == LF) (LF :: (a :: l).reverse) = (a :: l).reverse := by
      have : (LF == LF) = true := by simp
      simp only [dropWhile, this]
      apply dropWhile_of_head
      intro c t hct
      have hm : c ∈ (a :: l).reverse := by rw [hct]; simp
      have hm' : c ∈ a :: l := by
        have := hm
        simp only [reverse_cons, mem_append, mem_reverse, mem_cons, mem_nil_iff, or_false] at this
        simp only [mem_cons]; tauto
      simp only [beq_eq_false_iff_ne]
      intro e; exact h (e ▸ hm')
    rw [h3]; simp

theorem stripLF_no_LF (l : Str) (h : LF ∉ l) : stripLF l = l := by
  unfold stripLF strip lstrip rstrip
  have hp : ∀ c ∈ l, (c == LF) = false := by
    intro c hc; simp only [beq_eq_false_iff_ne]; intro e; exact h (e ▸ hc)
  have h1 : dropWhile (fun c => c == LF) l = l :=
    dropWhile_of_head l (fun c t e => hp c (by rw [e]; simp))
  rw [h1]
  have h2 : dropWhile (fun c => c == LF) l.reverse = l.reverse :=
    dropWhile_of_head _ (fun c t e => hp c (by
      have : c ∈ l.reverse := by rw [e]; simp
      simpa using this))
  rw [h2]; simp

/-! ## text layer -/

theorem universalNewlines_id (s : Str) (h : CR ∉ s) : universalNewlines s = s := by
  fun_induction universalNewlines s <;> simp_all

theorem linesKeepEnds_cons_ne (c : Char) (cs h : Str) (t : List Str) (hc : c ≠ LF)
    (hs : linesKeepEnds cs = h :: t) : linesKeepEnds (c :: cs) = (c :: h) :: t := by
  simp only [linesKeepEnds, if_neg hc, hs]

theorem linesKeepEnds_line (l rest : Str) (h : LF ∉ l) :
    linesKeepEnds (l ++ LF :: rest) = (l ++ [LF]) :: linesKeepEnds rest := by
  induction l with
  | nil => simp [linesKeepEnds]
  | cons c l ih =>
    have hc : c ≠ LF := fun e => h (by simp [e])
    have hl : LF ∉ l := fun m => h (by simp [m])
    exact linesKeepEnds_cons_ne c _ _ _ hc (ih hl)

theorem linesKeepEnds_unlines (ls : List Str) (h : ∀ l ∈ ls, LF ∉ l) :
    linesKeepEnds (unlines ls) = ls.map (· ++ [LF]) := by
  induction ls with
  | nil => rfl
  | cons l ls ih =>
    simp only [unlines, map_cons]
    rw [linesKeepEnds_line l _ (h l (by simp)), ih (fun x hx => h x (by simp [hx]))]

theorem not_mem_unlines (c : Char) (ls : List Str) (hc : c ≠ LF) (h : ∀ l ∈ ls, c ∉ l) :
    c ∉ unlines ls := by
  induction ls with
  | nil => simp [unlines]
  | cons l ls ih =>
    simp only [unlines, mem_append, mem_cons, not_or]
    exact ⟨h l (by simp), hc, ih (fun x hx => h x (by simp [hx]))⟩

/-! ## stride -/

theorem everyNth_map {α β : Type} (f : α → β) (step : Nat) : ∀ (k : Nat) (xs : List α),
    everyNth step k (xs.map f) = (everyNth step k xs).map f
  | _, [] => by simp [everyNth]
  | 0, x :: xs => by simp [everyNth, everyNth_map f step (step - 1) xs]
  | k + 1, x :: xs => by simp [everyNth, everyNth_map f step k xs]

theorem mem_everyNth {α : Type} (step : Nat) : ∀ (k : Nat) (xs : List α) (x : α),
    x ∈ everyNth step k xs → x ∈ xs
  | _, [], x, h => by simp [everyNth] at h
  | 0, y :: ys, x, h => by
    simp only [everyNth, mem_cons] at h ⊢
    rcases h with h | h
    · exact Or.inl h
    · exact Or.inr (mem_everyNth step _ ys x h)
  | k + 1, y :: ys, x, h => by
    simp only [everyNth] at h
    exact mem_cons_of_mem _ (mem_everyNth step k ys x h)

theorem everyNth_one_zero {α : Type} : ∀ (xs : List α), everyNth 1 0 xs = xs
  | [] => rfl
  | x :: xs => by simp [everyNth, everyNth_one_zero xs]

theorem stride_zero_one {α : Type} (xs : List α) : stride 0 1 xs = xs := everyNth_one_zero xs

theorem stride_nil {α : Type} (k n : Nat) : stride k n ([] : List α) = [] := by
  cases k <;> rfl

theorem stride_cons_zero {α : Type} (n : Nat) (x : α) (xs : List α) :
    stride 0 n (x :: xs) = x :: stride (n - 1) n xs := rfl

theorem stride_cons_succ {α : Type} (k n : Nat) (x : α) (xs : List α) :
    stride (k + 1) n (x :: xs) = stride k n xs := rfl

/-! ## render / parse -/

/-- token lists the format can carry: no TAB, LF, CR, underscore inside a token. -/
def TokOk (t : Str) : Prop := TAB ∉ t ∧ LF ∉ t ∧ CR ∉ t ∧ US ∉ t

def EventOk (e : TEvent) : Prop := (∀ t ∈ e.cues, TokOk t) ∧ (∀ t ∈ e.outcomes, TokOk t)

theorem not_mem_renderEvent (c : Char) (b : Bool) (e : TEvent) (h1 : c ≠ TAB) (h2 : c ≠ US) (h3 : c ≠ '1')
    (hc : ∀ t ∈ e.cues, c ∉ t) (ho : ∀ t ∈ e.outcomes, c ∉ t) : c ∉ renderEvent b e := by
  have a1 := not_mem_joinWith c US e.cues h2 hc
  have a2 := not_mem_joinWith c US e.outcomes h2 ho
  unfold renderEvent
  cases b <;> simp [a1, a2, h1, h3]

theorem parseNat_one : parseNat? ['1'] = some 1 := by decide

/-- the instance reads the `1` that `compatible=True` writes -/
theorem pyInt_one : pyInt ['1'] = some 1 := by decide +kernel

/-- one written line parses to the one (normalised) event — for every `int`
    that reads `"1"` as 1 (only needed for `compatible=True`). -/
theorem parseLineWith_renderEvent (intOf : Str → Option Int) (b : Bool) (e : TEvent) (h : EventOk e)
    (hone : b = true → intOf ['1'] = some 1) :
    parseLineWith intOf (renderEvent b e ++ [LF]) = some [normaliseAll e] := by
  obtain ⟨hc, ho⟩ := h
  have hLF : LF ∉ renderEvent b e :=
    not_mem_renderEvent LF b e (by decide) (by decide) (by decide)
      (fun t ht => (hc t ht).2.1) (fun t ht => (ho t ht).2.1)
  have tc : TAB ∉ joinWith US e.cues :=
    not_mem_joinWith TAB US e.cues (by decide) (fun t ht => (hc t ht).1)
  have tco : TAB ∉ joinWith US e.outcomes :=
    not_mem_joinWith TAB US e.outcomes (by decide) (fun t ht => (ho t ht).1)
  have sc := splitOn_joinWith_norm US e.cues (fun t ht => (hc t ht).2.2.2)
  have so := splitOn_joinWith_norm US e.outcomes (fun t ht => (ho t ht).2.2.2)
  unfold parseLineWith
  rw [stripLF_append_LF _ hLF]
  unfold renderEvent
  cases b with
  | false =>
    simp only [Bool.false_eq_true, if_false, append_nil]
    rw [splitOn_append_sep TAB _ _ tc, splitOn_no_sep TAB _ tco]
    simp only [sc, so, normaliseAll]
  | true =>
    simp only [if_true]
    have e0 : joinWith US e.cues ++ TAB :: joinWith US e.outcomes ++ [TAB, '1']
        = joinWith US e.cues ++ TAB :: (joinWith US e.outcomes ++ TAB :: ['1']) := by simp
    rw [e0, splitOn_append_sep TAB _ _ tc, splitOn_append_sep TAB _ _ tco]
    have s1 : splitOn TAB ['1'] = [['1']] := by decide
    rw [s1]
    simp only [hone rfl, sc, so, normaliseAll, Int.toNat_one, replicate_one]

theorem parseLine_renderEvent (b : Bool) (e : TEvent) (h : EventOk e) :
    parseLine (renderEvent b e ++ [LF]) = some [normaliseAll e] :=
  parseLineWith_renderEvent pyInt b e h (fun _ => pyInt_one)

/-- a line with a third column `f` that `int` reads as `v` parses to
    `max v 0` copies of the event (`range(v)` is empty for `v ≤ 0`). -/
theorem parseLineWith_freq (intOf : Str → Option Int) (e : TEvent) (h : EventOk e) (f : Str) (v : Int)
    (hf : intOf f = some v) (hft : TAB ∉ f) (hfl : LF ∉ f) :
    parseLineWith intOf (renderEvent false e ++ TAB :: f ++ [LF])
      = some (List.replicate v.toNat (normaliseAll e)) := by
  obtain ⟨hc, ho⟩ := h
  have hLF : LF ∉ renderEvent false e ++ TAB :: f := by
    have := not_mem_renderEvent LF false e (by decide) (by decide) (by decide)
      (fun t ht => (hc t ht).2.1) (fun t ht => (ho t ht).2.1)
    simp only [mem_append, mem_cons, not_or]
    exact ⟨this, by decide, hfl⟩
  have tc : TAB ∉ joinWith US e.cues :=
    not_mem_joinWith TAB US e.cues (by decide) (fun t ht => (hc t ht).1)
  have tco : TAB ∉ joinWith US e.outcomes :=
    not_mem_joinWith TAB US e.outcomes (by decide) (fun t ht => (ho t ht).1)
  have sc := splitOn_joinWith_norm US e.cues (fun t ht => (hc t ht).2.2.2)
  have so := splitOn_joinWith_norm US e.outcomes (fun t ht => (ho t ht).2.2.2)
  unfold parseLineWith
  have e1 : renderEvent false e ++ TAB :: f ++ [LF] = (renderEvent false e ++ TAB :: f) ++ [LF] := by simp
  rw [e1, stripLF_append_LF _ hLF]
  unfold renderEvent
  simp only [Bool.false_eq_true, if_false, append_nil]
  have e2 : joinWith US e.cues ++ TAB :: joinWith US e.outcomes ++ TAB :: f
      = joinWith US e.cues ++ TAB :: (joinWith US e.outcomes ++ TAB :: f) := by simp
  rw [e2, splitOn_append_sep TAB _ _ tc, splitOn_append_sep TAB _ _ tco, splitOn_no_sep TAB _ hft]
  simp only [hf, sc, so, normaliseAll]

/-- a third column that `int` rejects: `ValueError` -/
theorem parseLineWith_freq_error (intOf : Str → Option Int) (e : TEvent) (h : EventOk e) (f : Str)
    (hf : intOf f = none) (hft : TAB ∉ f) (hfl : LF ∉ f) :
    parseLineWith intOf (renderEvent false e ++ TAB :: f ++ [LF]) = none := by
  obtain ⟨hc, ho⟩ := h
  have hLF : LF ∉ renderEvent false e ++ TAB :: f := by
    have := not_mem_renderEvent LF false e (by decide) (by decide) (by decide)
      (fun t ht => (hc t ht).2.1) (fun t ht => (ho t ht).2.1)
    simp only [mem_append, mem_cons, not_or]
    exact ⟨this, by decide, hfl⟩
  have tc : TAB ∉ joinWith US e.cues :=
    not_mem_joinWith TAB US e.cues (by decide) (fun t ht => (hc t ht).1)
  have tco : TAB ∉ joinWith US e.outcomes :=
    not_mem_joinWith TAB US e.outcomes (by decide) (fun t ht => (ho t ht).1)
  unfold parseLineWith
  have e1 : renderEvent false e ++ TAB :: f ++ [LF] = (renderEvent false e ++ TAB :: f) ++ [LF] := by simp
  rw [e1, stripLF_append_LF _ hLF]
  unfold renderEvent
  simp only [Bool.false_eq_true, if_false, append_nil]
  have e2 : joinWith US e.cues ++ TAB :: joinWith US e.outcomes ++ TAB :: f
      = joinWith US e.cues ++ TAB :: (joinWith US e.outcomes ++ TAB :: f) := by simp
  rw [e2, splitOn_append_sep TAB _ _ tc, splitOn_append_sep TAB _ _ tco, splitOn_no_sep TAB _ hft]
  simp only [hf]

theorem collectAll_single {α β γ : Type} (f : α → Option (List β)) (r : γ → α) (g : γ → β) :
    ∀ (xs : List γ), (∀ x ∈ xs, f (r x) = some [g x]) → collectAll f (xs.map r) = some (xs.map g)
  | [], _ => rfl
  | x :: xs, h => by
    simp only [map_cons, collectAll, h x (by simp),
      collectAll_single f r g xs (fun y hy => h y (by simp [hy]))]
    simp

theorem renderHeader_clean (b : Bool) : LF ∉ renderHeader b ∧ CR ∉ renderHeader b := by
  cases b <;> decide

/-- the body lines the reader sees of a written file. -/
theorem bodyLines_renderFile (b : Bool) (es : List TEvent) (h : ∀ e ∈ es, EventOk e) :
    bodyLines (renderFile b es) = es.map (fun e => renderEvent b e ++ [LF]) := by
  have hl : ∀ l ∈ renderLines b es, LF ∉ l ∧ CR ∉ l := by
    intro l hl
    simp only [renderLines, mem_cons, mem_map] at hl
    rcases hl with rfl | ⟨e, he, rfl⟩
    · exact renderHeader_clean b
    · obtain ⟨hc, ho⟩ := h e he
      exact ⟨not_mem_renderEvent LF b e (by decide) (by decide) (by decide)
               (fun t ht => (hc t ht).2.1) (fun t ht => (ho t ht).2.1),
             not_mem_renderEvent CR b e (by decide) (by decide) (by decide)
               (fun t ht => (hc t ht).2.2.1) (fun t ht => (ho t ht).2.2.1)⟩
  have hcr : CR ∉ renderFile b es :=
    not_mem_unlines CR _ (by decide) (fun l hl' => (hl l hl').2)
  unfold bodyLines fileLines
  rw [universalNewlines_id _ hcr]
  unfold renderFile
  rw [linesKeepEnds_unlines _ (fun l hl' => (hl l hl').1)]
  simp [renderLines]

/-- `step ≥ 1`: the reader is the line parser over the slice -/
theorem parseFileWith_pos (intOf : Str → Option Int) (start step : Nat) (hstep : 1 ≤ step) (content : Str) :
    parseFileWith intOf start step content
      = collectAll (parseLineWith intOf) (stride start step (bodyLines content)) := by
  unfold parseFileWith parseLinesWith
  rw [if_neg (by omega)]

/-- **`step = 0` raises** (`itertools.islice`: `ValueError`), whatever the file,
    the start and the `int` are. -/
theorem parseFileWith_step_zero (intOf : Str → Option Int) (start : Nat) (content : Str) :
    parseFileWith intOf start 0 content = none := by
  simp [parseFileWith]

/-- reading a written file with `start`/`step ≥ 1`: the slice of the events. -/
theorem parseFileWith_renderFile (intOf : Str → Option Int) (b : Bool) (start step : Nat)
    (hstep : 1 ≤ step) (es : List TEvent) (h : ∀ e ∈ es, EventOk e)
    (hone : b = true → intOf ['1'] = some 1) :
    parseFileWith intOf start step (renderFile b es) = some ((stride start step es).map normaliseAll) := by
  rw [parseFileWith_pos intOf start step hstep, bodyLines_renderFile b es h]
  unfold stride
  rw [everyNth_map]
  exact collectAll_single (parseLineWith intOf) (fun e => renderEvent b e ++ [LF]) normaliseAll _
    (fun e he => parseLineWith_renderEvent intOf b e (h e (mem_everyNth step start es e he)) hone)

/-- the instance (`hstep` is discharged by `omega` at literal call sites). -/
theorem parseFile_renderFile (b : Bool) (start step : Nat) (es : List TEvent)
    (h : ∀ e ∈ es, EventOk e) (hstep : 1 ≤ step := by omega) :
    parseFile start step (renderFile b es) = some ((stride start step es).map normaliseAll) :=
  parseFileWith_renderFile pyInt b start step hstep es h (fun _ => pyInt_one)


/-! ## C11: the strided partition -/

/-- **the `n` strided slices partition the list** (as a multiset), for every
    `n ≥ 1` — also `n` larger than the list, also the empty list. -/
theorem stride_perm {α : Type} (n : Nat) (hn : 1 ≤ n) (xs : List α) :
    ((List.range n).flatMap (fun k => stride k n xs)).Perm xs := by
  obtain ⟨m, rfl⟩ : ∃ m, n = m + 1 := ⟨n - 1, by omega⟩
  induction xs with
  | nil => simp [stride_nil]
  | cons x xs ih =>
    rw [List.range_succ_eq_map, List.flatMap_cons, List.flatMap_map]
    rw [List.range_succ, List.flatMap_append] at ih
    simp only [flatMap_cons, flatMap_nil, append_nil] at ih
    simp only [stride_cons_zero, stride_cons_succ, Nat.add_sub_cancel, Function.comp_def, cons_append]
    exact List.Perm.cons x (List.perm_append_comm.trans ih)

theorem sum_flatMap_map {M : Type} [AddCommMonoid M] {α β : Type} (L : List α) (h : α → List β)
    (f : β → M) : ((L.flatMap h).map f).sum = (L.map (fun k => ((h k).map f).sum)).sum := by
  induction L with
  | nil => simp
  | cons a L ih => simp [flatMap_cons, map_append, sum_append, ih]

theorem sum_flatten_map {M : Type} [AddCommMonoid M] {β : Type} (L : List (List β)) (f : β → M) :
    (L.flatten.map f).sum = (L.map (fun l => (l.map f).sum)).sum := by
  induction L with
  | nil => simp
  | cons a L ih => simp only [flatten_cons, map_append, sum_append, map_cons, sum_cons, ih]

/-- **summing over the strided slices = summing over the list**, for every
    function into a commutative monoid. -/
theorem strided_sum {M : Type} [AddCommMonoid M] {α : Type} (f : α → M) (n : Nat) (hn : 1 ≤ n)
    (xs : List α) :
    ((List.range n).map (fun k => ((stride k n xs).map f).sum)).sum = (xs.map f).sum := by
  rw [← sum_flatMap_map]
  exact ((stride_perm n hn xs).map f).sum_eq

/-! ## collectAll, line by line -/

def eachAll {α β : Type} (f : α → Option (List β)) : List α → Option (List (List β))
  | [] => some []
  | x :: xs =>
    match f x, eachAll f xs with
    | some a, some b => some (a :: b)
    | _, _ => none

theorem collectAll_eq {α β : Type} (f : α → Option (List β)) :
    ∀ xs, collectAll f xs = (eachAll f xs).map List.flatten
  | [] => rfl
  | x :: xs => by
    simp only [collectAll, eachAll, collectAll_eq f xs]
    cases f x <;> cases eachAll f xs <;> simp

theorem eachAll_cons_some {α β : Type} (f : α → Option (List β)) (x : α) (xs : List α)
    (per : List (List β)) (h : eachAll f (x :: xs) = some per) :
    ∃ a b, f x = some a ∧ eachAll f xs = some b ∧ per = a :: b := by
  simp only [eachAll] at h
  cases hfx : f x with
  | none => simp [hfx] at h
  | some a =>
    cases hr : eachAll f xs with
    | none => simp [hfx, hr] at h
    | some b =>
      simp only [hfx, hr, Option.some.injEq] at h
      exact ⟨a, b, rfl, rfl, h.symm⟩

theorem eachAll_everyNth {α β : Type} (f : α → Option (List β)) (step : Nat) :
    ∀ (k : Nat) (xs : List α) (per : List (List β)), eachAll f xs = some per →
      eachAll f (everyNth step k xs) = some (everyNth step k per)
  | k, [], per, h => by
    simp only [eachAll, Option.some.injEq] at h
    subst h
    cases k <;> simp [everyNth, eachAll]
  | 0, x :: xs, per, h => by
    obtain ⟨a, b, hfx, hr, rfl⟩ := eachAll_cons_some f x xs per h
    simp only [everyNth, eachAll, hfx, eachAll_everyNth f step (step - 1) xs b hr]
  | k + 1, x :: xs, per, h => by
    obtain ⟨a, b, hfx, hr, rfl⟩ := eachAll_cons_some f x xs per h
    simp only [everyNth]
    exact eachAll_everyNth f step k xs b hr

/-- if the whole list can be processed, so can every strided slice, and it
    yields the slice of the per-element results. -/
theorem collectAll_stride {α β : Type} (f : α → Option (List β)) (xs : List α) (per : List (List β))
    (h : eachAll f xs = some per) (k n : Nat) :
    collectAll f (stride k n xs) = some (stride k n per).flatten := by
  rw [collectAll_eq, stride, eachAll_everyNth f n k xs per h]; rfl

theorem collectAll_some_each {α β : Type} (f : α → Option (List β)) (xs : List α) (r : List β)
    (h : collectAll f xs = some r) : ∃ per, eachAll f xs = some per ∧ r = per.flatten := by
  rw [collectAll_eq] at h
  cases he : eachAll f xs with
  | none => simp [he] at h
  | some per => simp [he] at h; exact ⟨per, rfl, h.symm⟩

/-! ## counters -/

theorem cGet_cAdd (c : Counter) (a : Str) (n : Nat) (b : Str) :
    cGet (cAdd c a n) b = cGet c b + (if a = b then n else 0) := by
  induction c with
  | nil => simp [cAdd, cGet]
  | cons kn c ih =>
    obtain ⟨k, m⟩ := kn
    by_cases hk : k = a
    · subst hk
      simp only [cAdd, if_true, cGet]
      by_cases hb : k = b <;> simp [hb] <;> omega
    · simp only [cAdd, if_neg hk, cGet, ih]; omega

theorem cGet_cCountList (xs : List Str) : ∀ (c : Counter) (b : Str),
    cGet (cCountList c xs) b = cGet c b + xs.count b := by
  induction xs with
  | nil => intro c b; simp [cCountList]
  | cons x xs ih =>
    intro c b
    have : cCountList c (x :: xs) = cCountList (cAdd c x 1) xs := rfl
    rw [this, ih, cGet_cAdd, List.count_cons]
    by_cases h : x = b <;> simp [h] <;> omega

theorem cGet_cMerge (b : Counter) : ∀ (a : Counter) (x : Str),
    cGet (cMerge a b) x = cGet a x + cGet b x := by
  induction b with
  | nil => intro a x; simp [cMerge, cGet]
  | cons kn b ih =>
    intro a x
    obtain ⟨k, n⟩ := kn
    have : cMerge a ((k, n) :: b) = cMerge (cAdd a k n) b := rfl
    rw [this, ih, cGet_cAdd]
    simp only [cGet]; omega

/-- keys of a counter built with `cAdd` stay unique: `cGet` (a sum over
    matching entries) is the value of the one entry with that key. -/
theorem cAdd_keys_nodup (c : Counter) (a : Str) (n : Nat) (h : (c.map Prod.fst).Nodup) :
    ((cAdd c a n).map Prod.fst).Nodup ∧ ∀ k, k ∈ (cAdd c a n).map Prod.fst ↔ (k = a ∨ k ∈ c.map Prod.fst) := by
  induction c with
  | nil => simp [cAdd]
  | cons kn c ih =>
    obtain ⟨k, m⟩ := kn
    simp only [map_cons, nodup_cons] at h
    by_cases hk : k = a
    · subst hk
      simp only [cAdd, if_true, map_cons, nodup_cons, mem_cons]
      exact ⟨h, fun k' => by tauto⟩
    · obtain ⟨ih1, ih2⟩ := ih h.2
      simp only [cAdd, if_neg hk, map_cons, nodup_cons, mem_cons]
      refine ⟨⟨?_, ih1⟩, fun k' => ?_⟩
      · rw [ih2]; intro hh; rcases hh with hh | hh
        · exact hk hh
        · exact h.1 hh
      · rw [ih2]; tauto

/-! ## `_job_cues_outcomes` -/

theorem lastIndex_fold {α : Type} (xs : List α) : ∀ (st : Int × Nat),
    (xs.foldl (fun (st : Int × Nat) _ => ((st.2 : Int), st.2 + 1)) st).2 = st.2 + xs.length ∧
    (xs ≠ [] → (xs.foldl (fun (st : Int × Nat) _ => ((st.2 : Int), st.2 + 1)) st).1
        = ((st.2 + xs.length : Nat) : Int) - 1) := by
  induction xs with
  | nil => intro st; simp
  | cons x xs ih =>
    intro st
    simp only [foldl_cons, length_cons]
    obtain ⟨h1, h2⟩ := ih ((st.2 : Int), st.2 + 1)
    refine ⟨by rw [h1]; simp; omega, fun _ => ?_⟩
    by_cases hx : xs = []
    · subst hx; simp
    · rw [h2 hx]; simp; omega

/-- `nn + 1` is the number of events of the slice — `0` for an empty slice
    thanks to the initial `nn = -1`. -/
theorem lastIndex_succ {α : Type} (xs : List α) : lastIndex xs + 1 = (xs.length : Int) := by
  unfold lastIndex
  by_cases hx : xs = []
  · subst hx; simp
  · rw [(lastIndex_fold xs (-1, 0)).2 hx]; simp

theorem job_fold (es : List TEvent) : ∀ (st : Counter × Counter) (x : Str),
    cGet (es.foldl (fun (st : Counter × Counter) e =>
      (cCountList st.1 e.cues, cCountList st.2 e.outcomes)) st).1 x
        = cGet st.1 x + (es.map (fun e => e.cues.count x)).sum ∧
    cGet (es.foldl (fun (st : Counter × Counter) e =>
      (cCountList st.1 e.cues, cCountList st.2 e.outcomes)) st).2 x
        = cGet st.2 x + (es.map (fun e => e.outcomes.count x)).sum := by
  induction es with
  | nil => intro st x; simp
  | cons e es ih =>
    intro st x
    simp only [foldl_cons, map_cons, sum_cons]
    obtain ⟨h1, h2⟩ := ih (cCountList st.1 e.cues, cCountList st.2 e.outcomes) x
    rw [h1, h2, cGet_cCountList, cGet_cCountList]
    constructor <;> omega

theorem job_n (es : List TEvent) : (jobCuesOutcomes es).n = (es.length : Int) := lastIndex_succ es

theorem job_cues (es : List TEvent) (x : Str) :
    cGet (jobCuesOutcomes es).cues x = (es.map (fun e => e.cues.count x)).sum := by
  have := (job_fold es ([], []) x).1
  simpa [jobCuesOutcomes, cGet] using this

theorem job_outcomes (es : List TEvent) (x : Str) :
    cGet (jobCuesOutcomes es).outcomes x = (es.map (fun e => e.outcomes.count x)).sum := by
  have := (job_fold es ([], []) x).2
  simpa [jobCuesOutcomes, cGet] using this

/-! ## `cues_outcomes` -/

theorem co_fold (intOf : Str → Option Int) (n : Nat) (content : Str) (J : Nat → List TEvent) :
    ∀ (ks : List Nat) (a : CO),
    (∀ k ∈ ks, parseFileWith intOf k n content = some (J k)) →
    ∃ r, ks.foldl (coStepWith intOf n content) (some a) = some r ∧
      r.n = a.n + (((ks.map (fun k => (J k).length)).sum : Nat) : Int) ∧
      (∀ x, cGet r.cues x = cGet a.cues x
          + (ks.map (fun k => ((J k).map (fun e => e.cues.count x)).sum)).sum) ∧
      (∀ x, cGet r.outcomes x = cGet a.outcomes x
          + (ks.map (fun k => ((J k).map (fun e => e.outcomes.count x)).sum)).sum) := by
  intro ks
  induction ks with
  | nil => intro a _; exact ⟨a, rfl, by simp, by simp, by simp⟩
  | cons k ks ih =>
    intro a h
    have hk := h k (by simp)
    have hstep : coStepWith intOf n content (some a) k = some (mergeCO a (jobCuesOutcomes (J k))) := by
      simp [coStepWith, hk]
    obtain ⟨r, hr, hn, hc, ho⟩ := ih (mergeCO a (jobCuesOutcomes (J k))) (fun k' hk' => h k' (by simp [hk']))
    refine ⟨r, by rw [foldl_cons, hstep, hr], ?_, ?_, ?_⟩
    · rw [hn]; simp only [mergeCO, job_n, map_cons, sum_cons]; push_cast; omega
    · intro x; rw [hc x]; simp only [mergeCO, cGet_cMerge, job_cues, map_cons, sum_cons]; omega
    · intro x; rw [ho x]; simp only [mergeCO, cGet_cMerge, job_outcomes, map_cons, sum_cons]; omega

/-- **`cues_outcomes` with `n ≥ 1` jobs = the direct count** of all events of
    the file (with a frequency column: of the repeated events), for every `int`. -/
theorem cuesOutcomesWith_exact (intOf : Str → Option Int) (n : Nat) (hn : 1 ≤ n) (content : Str)
    (evs : List TEvent) (h : parseFileWith intOf 0 1 content = some evs) :
    ∃ r, cuesOutcomesWith intOf n content = some r ∧ r.n = (evs.length : Int) ∧
      (∀ x, cGet r.cues x = (evs.map (fun e => e.cues.count x)).sum) ∧
      (∀ x, cGet r.outcomes x = (evs.map (fun e => e.outcomes.count x)).sum) := by
  rw [parseFileWith_pos intOf 0 1 (by omega), stride_zero_one] at h
  obtain ⟨per, hper, rfl⟩ := collectAll_some_each (parseLineWith intOf) _ _ h
  have hJ : ∀ k ∈ List.range n, parseFileWith intOf k n content = some ((stride k n per).flatten) := by
    intro k _
    rw [parseFileWith_pos intOf k n hn]
    exact collectAll_stride (parseLineWith intOf) _ per hper k n
  obtain ⟨r, hr, hnn, hc, ho⟩ := co_fold intOf n content (fun k => (stride k n per).flatten) (List.range n)
    ⟨0, [], []⟩ hJ
  have hcu : cuesOutcomesWith intOf n content
      = (List.range n).foldl (coStepWith intOf n content) (some ⟨0, [], []⟩) := by
    unfold cuesOutcomesWith; rw [if_neg (by omega)]
  refine ⟨r, by rw [hcu, hr], ?_, ?_, ?_⟩
  · rw [hnn]
    have := strided_sum (fun l : List TEvent => l.length) n hn per
    simp only [length_flatten] at *
    rw [this]; simp
  · intro x
    rw [hc x]
    have := strided_sum (fun l : List TEvent => (l.map (fun e => e.cues.count x)).sum) n hn per
    simp only [sum_flatten_map, cGet, Nat.zero_add]
    exact this
  · intro x
    rw [ho x]
    have := strided_sum (fun l : List TEvent => (l.map (fun e => e.outcomes.count x)).sum) n hn per
    simp only [sum_flatten_map, cGet, Nat.zero_add]
    exact this

/-- the instance -/
theorem cuesOutcomes_exact (n : Nat) (hn : 1 ≤ n) (content : Str) (evs : List TEvent)
    (h : parseFile 0 1 content = some evs) :
    ∃ r, cuesOutcomes n content = some r ∧ r.n = (evs.length : Int) ∧
      (∀ x, cGet r.cues x = (evs.map (fun e => e.cues.count x)).sum) ∧
      (∀ x, cGet r.outcomes x = (evs.map (fun e => e.outcomes.count x)).sum) :=
  cuesOutcomesWith_exact pyInt n hn content evs h

/-- **`n_jobs = 0` raises** (`multiprocessing.Pool(0)`: `ValueError`). -/
theorem cuesOutcomesWith_zero (intOf : Str → Option Int) (content : Str) :
    cuesOutcomesWith intOf 0 content = none := by
  simp [cuesOutcomesWith]


/-! ## `words_symbols` -/

theorem count_eq_sum_indicator (ws : List Str) (x : Str) :
    ws.count x = (ws.map (fun w => if w = x then 1 else 0)).sum := by
  induction ws with
  | nil => simp
  | cons w ws ih =>
    rw [List.count_cons, ih, map_cons, sum_cons]
    by_cases h : w = x <;> simp [h] <;> omega

/-- the number of occurrences of the one-character string `x` in `w`. -/
def symCount (x : Str) (w : Str) : Nat := (w.map (fun c => [c])).count x

theorem countWords_fold (ws : List Str) : ∀ (st : WS) (x : Str),
    cGet (ws.foldl (fun (st : WS) w =>
      (⟨cAdd st.words w 1, cMerge st.symbols (cCountList [] (w.map (fun c => [c])))⟩ : WS)) st).words x
        = cGet st.words x + (ws.map (fun w => if w = x then 1 else 0)).sum ∧
    cGet (ws.foldl (fun (st : WS) w =>
      (⟨cAdd st.words w 1, cMerge st.symbols (cCountList [] (w.map (fun c => [c])))⟩ : WS)) st).symbols x
        = cGet st.symbols x + (ws.map (symCount x)).sum := by
  induction ws with
  | nil => intro st x; simp
  | cons w ws ih =>
    intro st x
    simp only [foldl_cons, map_cons, sum_cons]
    obtain ⟨h1, h2⟩ := ih ⟨cAdd st.words w 1, cMerge st.symbols (cCountList [] (w.map (fun c => [c])))⟩ x
    rw [h1, h2]
    simp only [cGet_cAdd, cGet_cMerge, cGet_cCountList, cGet, symCount]
    constructor <;> omega

theorem countWords_words (ws : List Str) (x : Str) :
    cGet (countWords ws).words x = (ws.map (fun w => if w = x then 1 else 0)).sum := by
  have := (countWords_fold ws ⟨[], []⟩ x).1
  simpa [countWords, cGet] using this

theorem countWords_symbols (ws : List Str) (x : Str) :
    cGet (countWords ws).symbols x = (ws.map (symCount x)).sum := by
  have := (countWords_fold ws ⟨[], []⟩ x).2
  simpa [countWords, cGet] using this

theorem ws_fold (lower : Option (List (Str × Str))) (n : Nat) (lines : List (List Str))
    (J : Nat → List Str) : ∀ (ks : List Nat) (a : WS),
    (∀ k ∈ ks, linesWords lower (stride k n lines) = some (J k)) →
    ∃ r, ks.foldl (wsStep lower n lines) (some a) = some r ∧
      (∀ x, cGet r.words x = cGet a.words x
          + (ks.map (fun k => ((J k).map (fun w => if w = x then 1 else 0)).sum)).sum) ∧
      (∀ x, cGet r.symbols x = cGet a.symbols x
          + (ks.map (fun k => ((J k).map (symCount x)).sum)).sum) := by
  intro ks
  induction ks with
  | nil => intro a _; exact ⟨a, rfl, by simp, by simp⟩
  | cons k ks ih =>
    intro a h
    have hk := h k (by simp)
    have hstep : wsStep lower n lines (some a) k = some (mergeWS a (countWords (J k))) := by
      simp [wsStep, jobWordsSymbols, hk]
    obtain ⟨r, hr, hw, hs⟩ := ih (mergeWS a (countWords (J k))) (fun k' hk' => h k' (by simp [hk']))
    refine ⟨r, by rw [foldl_cons, hstep, hr], ?_, ?_⟩
    · intro x; rw [hw x]; simp only [mergeWS, cGet_cMerge, countWords_words, map_cons, sum_cons]; omega
    · intro x; rw [hs x]; simp only [mergeWS, cGet_cMerge, countWords_symbols, map_cons, sum_cons]; omega

/-- **`words_symbols` with `n ≥ 1` jobs = the direct count** of the words of all
    lines and of their characters. -/
theorem wordsSymbols_exact (lower : Option (List (Str × Str))) (n : Nat) (hn : 1 ≤ n)
    (lines : List (List Str)) (ws : List Str) (h : linesWords lower lines = some ws) :
    ∃ r, wordsSymbols lower n lines = some r ∧
      (∀ x, cGet r.words x = ws.count x) ∧
      (∀ x, cGet r.symbols x = (ws.map (symCount x)).sum) := by
  unfold linesWords at h
  obtain ⟨per, hper, rfl⟩ := collectAll_some_each (lineWords lower) _ _ h
  have hJ : ∀ k ∈ List.range n, linesWords lower (stride k n lines) = some ((stride k n per).flatten) := by
    intro k _
    unfold linesWords
    exact collectAll_stride (lineWords lower) _ per hper k n
  obtain ⟨r, hr, hw, hs⟩ := ws_fold lower n lines (fun k => (stride k n per).flatten) (List.range n)
    ⟨[], []⟩ hJ
  refine ⟨r, hr, ?_, ?_⟩
  · intro x
    rw [hw x, count_eq_sum_indicator]
    have := strided_sum (fun l : List Str => (l.map (fun w => if w = x then 1 else 0)).sum) n hn per
    simp only [sum_flatten_map, cGet, Nat.zero_add]
    exact this
  · intro x
    rw [hs x]
    have := strided_sum (fun l : List Str => (l.map (symCount x)).sum) n hn per
    simp only [sum_flatten_map, cGet, Nat.zero_add]
    exact this


/-! ## the error direction -/

theorem collectAll_none_iff {α β : Type} (f : α → Option (List β)) :
    ∀ xs, collectAll f xs = none ↔ ∃ x ∈ xs, f x = none
  | [] => by simp [collectAll]
  | x :: xs => by
    have ih := collectAll_none_iff f xs
    simp only [collectAll, mem_cons, exists_eq_or_imp]
    cases hfx : f x with
    | none => simp
    | some a =>
      cases hr : collectAll f xs with
      | none => simp only [hr, true_iff] at ih; simp [ih]
      | some b =>
        have : ¬ ∃ y ∈ xs, f y = none := by rw [← ih, hr]; simp
        simp [this]

theorem coStep_none (intOf : Str → Option Int) (n : Nat) (content : Str) :
    ∀ ks : List Nat, ks.foldl (coStepWith intOf n content) none = none
  | [] => rfl
  | k :: ks => by simp [foldl_cons, coStepWith, coStep_none intOf n content ks]

theorem co_fold_none (intOf : Str → Option Int) (n : Nat) (content : Str) (k : Nat)
    (hk : parseFileWith intOf k n content = none) :
    ∀ (ks : List Nat) (acc : Option CO), k ∈ ks → ks.foldl (coStepWith intOf n content) acc = none
  | [], _, h => by simp at h
  | j :: ks, acc, h => by
    rw [foldl_cons]
    by_cases hj : j = k
    · subst hj
      have : coStepWith intOf n content acc j = none := by cases acc <;> simp [coStepWith, hk]
      rw [this, coStep_none]
    · have : k ∈ ks := by
        rcases mem_cons.mp h with h | h
        · exact absurd h.symm hj
        · exact h
      exact co_fold_none intOf n content k hk ks _ this

/-- a line that raises is read by one of the `n` jobs: the count raises too —
    for every `int` (a line "raises" when THAT `int` rejects its third column or
    it has not 2 or 3 columns). -/
theorem cuesOutcomesWith_error (intOf : Str → Option Int) (n : Nat) (hn : 1 ≤ n) (content : Str)
    (h : parseFileWith intOf 0 1 content = none) : cuesOutcomesWith intOf n content = none := by
  rw [parseFileWith_pos intOf 0 1 (by omega), stride_zero_one, collectAll_none_iff] at h
  obtain ⟨line, hmem, hline⟩ := h
  have hp := (stride_perm n hn (bodyLines content)).mem_iff (a := line)
  rw [mem_flatMap] at hp
  obtain ⟨k, hk, hin⟩ := hp.mpr hmem
  have hnone : parseFileWith intOf k n content = none := by
    rw [parseFileWith_pos intOf k n hn, collectAll_none_iff]
    exact ⟨line, hin, hline⟩
  unfold cuesOutcomesWith
  rw [if_neg (by omega)]
  exact co_fold_none intOf n content k hnone _ _ hk

theorem cuesOutcomes_error (n : Nat) (hn : 1 ≤ n) (content : Str)
    (h : parseFile 0 1 content = none) : cuesOutcomes n content = none :=
  cuesOutcomesWith_error pyInt n hn content h

/-! ### the same for `words_symbols`, and the function the driver runs -/

theorem wsStep_none (lower : Option (List (Str × Str))) (n : Nat) (lines : List (List Str)) :
    ∀ ks : List Nat, ks.foldl (wsStep lower n lines) none = none
  | [] => rfl
  | k :: ks => by simp [foldl_cons, wsStep, wsStep_none lower n lines ks]

theorem ws_fold_none (lower : Option (List (Str × Str))) (n : Nat) (lines : List (List Str)) (k : Nat)
    (hk : linesWords lower (stride k n lines) = none) :
    ∀ (ks : List Nat) (acc : Option WS), k ∈ ks → ks.foldl (wsStep lower n lines) acc = none
  | [], _, h => by simp at h
  | j :: ks, acc, h => by
    rw [foldl_cons]
    by_cases hj : j = k
    · subst hj
      have : wsStep lower n lines acc j = none := by
        cases acc <;> simp [wsStep, jobWordsSymbols, hk]
      rw [this, wsStep_none]
    · have : k ∈ ks := by
        rcases mem_cons.mp h with h | h
        · exact absurd h.symm hj
        · exact h
      exact ws_fold_none lower n lines k hk ks _ this

/-- a word the `lower` table lacks is read by one of the `n ≥ 1` jobs -/
theorem wordsSymbols_error (lower : Option (List (Str × Str))) (n : Nat) (hn : 1 ≤ n)
    (lines : List (List Str)) (h : linesWords lower lines = none) : wordsSymbols lower n lines = none := by
  unfold linesWords at h
  rw [collectAll_none_iff] at h
  obtain ⟨line, hmem, hline⟩ := h
  have hp := (stride_perm n hn lines).mem_iff (a := line)
  rw [mem_flatMap] at hp
  obtain ⟨k, hk, hin⟩ := hp.mpr hmem
  have hnone : linesWords lower (stride k n lines) = none := by
    unfold linesWords
    rw [collectAll_none_iff]
    exact ⟨line, hin, hline⟩
  exact ws_fold_none lower n lines k hnone _ _ hk

/-- **`wordsSymbolsE` (what the driver runs) for `n ≥ 1`** is `wordsSymbols` with
    `none` reported as the harness-side `missingLower`. -/
theorem wordsSymbolsE_pos (lower : Option (List (Str × Str))) (n : Nat) (hn : 1 ≤ n)
    (lines : List (List Str)) :
    (∀ r, wordsSymbols lower n lines = some r → wordsSymbolsE lower n lines = .ok r) ∧
    (wordsSymbols lower n lines = none → wordsSymbolsE lower n lines = .error .missingLower) := by
  have : n ≠ 0 := by omega
  constructor
  · intro r h; simp only [wordsSymbolsE, if_neg this, h]
  · intro h; simp only [wordsSymbolsE, if_neg this, h]

theorem wordsSymbolsE_ok_iff (lower : Option (List (Str × Str))) (n : Nat) (hn : 1 ≤ n)
    (lines : List (List Str)) (r : WS) :
    wordsSymbolsE lower n lines = .ok r ↔ wordsSymbols lower n lines = some r := by
  obtain ⟨h1, h2⟩ := wordsSymbolsE_pos lower n hn lines
  cases h : wordsSymbols lower n lines with
  | none => rw [h2 h]; simp
  | some r' => rw [h1 r' h]; simp

/-- `wordsSymbolsE` never returns `.ok` at `n = 0` -/
theorem wordsSymbolsE_ok_pos (lower : Option (List (Str × Str))) (n : Nat)
    (lines : List (List Str)) (r : WS) (h : wordsSymbolsE lower n lines = .ok r) : 1 ≤ n := by
  cases n with
  | zero => simp [wordsSymbolsE] at h
  | succ n => omega

/-! ## decimal frequency literals -/

def digitChar (d : Nat) : Char := Char.ofNat (48 + d)

/-- `str(k)` for a natural number. -/
def decimal (k : Nat) : Str := if k = 0 then ['0'] else (Nat.digits 10 k).reverse.map digitChar

theorem digitVal_digitChar (d : Nat) (h : d < 10) : digitVal (digitChar d) = some d := by
  have : ∀ d < 10, digitVal (digitChar d) = some d := by decide
  exact this d h

theorem digitChar_ne (d : Nat) (h : d < 10) : digitChar d ≠ TAB ∧ digitChar d ≠ LF := by
  have : ∀ d < 10, digitChar d ≠ TAB ∧ digitChar d ≠ LF := by decide
  exact this d h

def pstep (acc : Option Nat) (c : Char) : Option Nat :=
  match acc, digitVal c with
  | some a, some d => some (a * 10 + d)
  | _, _ => none

theorem parseNat_eq (s : Str) (h : s ≠ []) : parseNat? s = s.foldl pstep (some 0) := by
  cases s with
  | nil => exact absurd rfl h
  | cons c s => rfl

theorem pfold_digits : ∀ (ds : List Nat) (a : Nat), (∀ d ∈ ds, d < 10) →
    (ds.map digitChar).foldl pstep (some a) = some (ds.foldl (fun a d => a * 10 + d) a)
  | [], a, _ => rfl
  | d :: ds, a, h => by
    simp only [map_cons, foldl_cons, pstep, digitVal_digitChar d (h d (by simp))]
    exact pfold_digits ds _ (fun x hx => h x (by simp [hx]))

theorem foldr_ofDigits (L : List Nat) : L.foldr (fun d a => a * 10 + d) 0 = Nat.ofDigits 10 L := by
  induction L with
  | nil => rfl
  | cons d L ih => simp only [foldr_cons, ih, Nat.ofDigits_cons]; omega

theorem parseNat_decimal (k : Nat) : parseNat? (decimal k) = some k := by
  unfold decimal
  by_cases hk : k = 0
  · subst hk; decide
  · rw [if_neg hk, parseNat_eq]
    · rw [pfold_digits _ 0 (fun d hd => Nat.digits_lt_base (by norm_num) (by simpa using hd))]
      rw [foldl_reverse]
      have := foldr_ofDigits (Nat.digits 10 k)
      rw [this, Nat.ofDigits_digits]
    · simp [Nat.digits_ne_nil_iff_ne_zero.mpr hk]

theorem decimal_clean (k : Nat) : TAB ∉ decimal k ∧ LF ∉ decimal k := by
  unfold decimal
  by_cases hk : k = 0
  · subst hk; decide
  · rw [if_neg hk]
    constructor <;> intro hm <;> simp only [mem_map, mem_reverse] at hm <;>
      obtain ⟨d, hd, he⟩ := hm <;>
      have := digitChar_ne d (Nat.digits_lt_base (by norm_num) hd)
    · exact this.1 he
    · exact this.2 he

/-! ## the `int` instance on decimal numerals -/

theorem digitChar_props (d : Nat) (h : d < 10) :
    pyIsSpace (digitChar d) = false ∧ digitChar d ≠ '-' ∧ digitChar d ≠ '+' ∧ digitChar d ≠ '_' := by
  have : ∀ d < 10, pyIsSpace (digitChar d) = false ∧ digitChar d ≠ '-' ∧ digitChar d ≠ '+'
      ∧ digitChar d ≠ '_' := by decide
  exact this d h

/-- the characters of `str(k)` are ASCII digits -/
theorem decimal_digits (k : Nat) : ∀ c ∈ decimal k, ∃ d, d < 10 ∧ c = digitChar d := by
  unfold decimal
  by_cases hk : k = 0
  · subst hk; intro c hc; simp at hc; exact ⟨0, by omega, by rw [hc]; rfl⟩
  · rw [if_neg hk]
    intro c hc
    simp only [mem_map, mem_reverse] at hc
    obtain ⟨d, hd, rfl⟩ := hc
    exact ⟨d, Nat.digits_lt_base (by norm_num) hd, rfl⟩

theorem decimal_ne_nil (k : Nat) : decimal k ≠ [] := by
  unfold decimal
  by_cases hk : k = 0
  · simp [hk]
  · simp [hk, Nat.digits_ne_nil_iff_ne_zero.mpr hk]

theorem dropUS_of_no_us : ∀ (s : Str), '_' ∉ s → dropUS s = some s
  | [], _ => rfl
  | c :: r, h => by
    have hc : c ≠ '_' := fun e => h (by simp [e])
    have hr : '_' ∉ r := fun m => h (by simp [m])
    simp [dropUS, hc, dropUS_of_no_us r hr]

theorem strip_of_ends (p : Char → Bool) (s : Str)
    (h1 : ∀ c t, s = c :: t → p c = false) (h2 : ∀ c t, s.reverse = c :: t → p c = false) :
    strip p s = s := by
  unfold strip lstrip rstrip
  rw [dropWhile_of_head s h1, dropWhile_of_head s.reverse h2, reverse_reverse]

/-- **`int(str(k)) == k`** for the instance, for every `k` whose numeral has at
    most 4300 digits (`k < 10^4300`; beyond that CPython ≥ 3.11 raises). -/
theorem pyInt_decimal (k : Nat) (hlen : (decimal k).length ≤ intMaxStrDigits) :
    pyInt (decimal k) = some (k : Int) := by
  have hd := decimal_digits k
  have hne := decimal_ne_nil k
  have hstrip : strip pyIsSpace (decimal k) = decimal k := by
    apply strip_of_ends
    · intro c t e
      obtain ⟨d, hd10, rfl⟩ := hd c (by rw [e]; simp)
      exact (digitChar_props d hd10).1
    · intro c t e
      have : c ∈ decimal k := by
        have : c ∈ (decimal k).reverse := by rw [e]; simp
        simpa using this
      obtain ⟨d, hd10, rfl⟩ := hd c this
      exact (digitChar_props d hd10).1
  have hus : '_' ∉ decimal k := by
    intro h
    obtain ⟨d, hd10, e⟩ := hd _ h
    exact (digitChar_props d hd10).2.2.2 e.symm
  unfold pyInt
  simp only [hstrip]
  cases hs : decimal k with
  | nil => exact absurd hs hne
  | cons c t =>
    obtain ⟨d, hd10, rfl⟩ := hd c (by rw [hs]; simp)
    obtain ⟨_, hm, hp, hu⟩ := digitChar_props d hd10
    have hsign : splitSign (digitChar d :: t) = (false, digitChar d :: t) := by
      unfold splitSign
      split
      · rename_i r heq; exact absurd (List.cons.inj heq).1 hm
      · rename_i r heq; exact absurd (List.cons.inj heq).1 hp
      · rfl
    have hbody : natOfBody (digitChar d :: t) = some k := by
      unfold natOfBody
      split
      · rename_i r heq; exact absurd (List.cons.inj heq).1 hu
      · rw [← hs, dropUS_of_no_us _ hus]
        simp only []
        rw [if_neg (by omega), parseNat_decimal k]
    rw [hsign]
    simp [hbody]

/-! ## counters: distinct keys, positive counts -/

/-- a `collections.Counter` as these functions build it: every key once, every
    count positive -/
def CounterOk (c : Counter) : Prop := (c.map Prod.fst).Nodup ∧ ∀ kn ∈ c, 0 < kn.2

theorem CounterOk.nil : CounterOk [] := ⟨by simp, by simp⟩

theorem cAdd_pos (a : Str) (n : Nat) (hn : 0 < n) : ∀ (c : Counter), (∀ kn ∈ c, 0 < kn.2) →
    ∀ kn ∈ cAdd c a n, 0 < kn.2
  | [], _, kn, hkn => by simp [cAdd] at hkn; subst hkn; exact hn
  | (k, m) :: c, hpos, kn, hkn => by
    by_cases hk : k = a
    · simp only [cAdd, if_pos hk, mem_cons] at hkn
      rcases hkn with rfl | hkn
      · have := hpos (k, m) (by simp); simp at this ⊢; omega
      · exact hpos kn (by simp [hkn])
    · simp only [cAdd, if_neg hk, mem_cons] at hkn
      rcases hkn with rfl | hkn
      · exact hpos (k, m) (by simp)
      · exact cAdd_pos a n hn c (fun x hx => hpos x (by simp [hx])) kn hkn

theorem cAdd_ok (c : Counter) (a : Str) (n : Nat) (hn : 0 < n) (h : CounterOk c) : CounterOk (cAdd c a n) :=
  ⟨(cAdd_keys_nodup c a n h.1).1, cAdd_pos a n hn c h.2⟩

theorem cCountList_ok (xs : List Str) : ∀ (c : Counter), CounterOk c → CounterOk (cCountList c xs) := by
  induction xs with
  | nil => intro c h; exact h
  | cons x xs ih =>
    intro c h
    have : cCountList c (x :: xs) = cCountList (cAdd c x 1) xs := rfl
    rw [this]
    exact ih _ (cAdd_ok c x 1 (by omega) h)

theorem cMerge_ok (b : Counter) : ∀ (a : Counter), CounterOk a → (∀ kn ∈ b, 0 < kn.2) → CounterOk (cMerge a b) := by
  induction b with
  | nil => intro a h _; exact h
  | cons kn b ih =>
    intro a h hb
    obtain ⟨k, n⟩ := kn
    have : cMerge a ((k, n) :: b) = cMerge (cAdd a k n) b := rfl
    rw [this]
    exact ih _ (cAdd_ok a k n (hb (k, n) (by simp)) h) (fun x hx => hb x (by simp [hx]))

/-- with distinct keys and positive counts, the keys are exactly the names
    with a non-zero count (`cGet`), and `cGet` is the count stored under the key -/
theorem CounterOk.mem_iff {c : Counter} (h : CounterOk c) (a : Str) :
    a ∈ c.map Prod.fst ↔ 0 < cGet c a := by
  induction c with
  | nil => simp [cGet]
  | cons kn c ih =>
    obtain ⟨k, n⟩ := kn
    have hc : CounterOk c := ⟨(List.nodup_cons.mp h.1).2, fun x hx => h.2 x (by simp [hx])⟩
    have hn : 0 < n := h.2 (k, n) (by simp)
    simp only [map_cons, mem_cons, cGet]
    by_cases hk : k = a
    · subst hk; simp; omega
    · rw [if_neg hk, Nat.zero_add, ← ih hc]
      constructor
      · rintro (e | e)
        · exact absurd e.symm hk
        · exact e
      · exact Or.inr

theorem CounterOk.get_eq {c : Counter} (h : CounterOk c) (a : Str) (n : Nat) (hm : (a, n) ∈ c) :
    cGet c a = n := by
  induction c with
  | nil => simp at hm
  | cons kn c ih =>
    obtain ⟨k, m⟩ := kn
    have hc : CounterOk c := ⟨(List.nodup_cons.mp h.1).2, fun x hx => h.2 x (by simp [hx])⟩
    have hnd := (List.nodup_cons.mp h.1).1
    simp only [mem_cons, Prod.mk.injEq] at hm
    simp only [cGet]
    rcases hm with ⟨rfl, rfl⟩ | hm
    · have : cGet c a = 0 := by
        by_contra hne
        have := (hc.mem_iff a).mpr (by omega)
        exact hnd this
      simp [this]
    · have hka : k ≠ a := by
        intro e; subst e
        exact hnd (by simp only [mem_map]; exact ⟨(k, n), hm, rfl⟩)
      rw [if_neg hka, Nat.zero_add]
      exact ih hc hm

theorem job_ok (es : List TEvent) :
    CounterOk (jobCuesOutcomes es).cues ∧ CounterOk (jobCuesOutcomes es).outcomes := by
  have key : ∀ (es : List TEvent) (st : Counter × Counter), CounterOk st.1 → CounterOk st.2 →
      CounterOk (es.foldl (fun (st : Counter × Counter) e =>
        (cCountList st.1 e.cues, cCountList st.2 e.outcomes)) st).1 ∧
      CounterOk (es.foldl (fun (st : Counter × Counter) e =>
        (cCountList st.1 e.cues, cCountList st.2 e.outcomes)) st).2 := by
    intro es
    induction es with
    | nil => intro st h1 h2; exact ⟨h1, h2⟩
    | cons e es ih =>
      intro st h1 h2
      simp only [foldl_cons]
      exact ih _ (cCountList_ok _ _ h1) (cCountList_ok _ _ h2)
  exact key es ([], []) CounterOk.nil CounterOk.nil

theorem mergeCO_ok (a r : CO) (ha : CounterOk a.cues ∧ CounterOk a.outcomes)
    (hr : CounterOk r.cues ∧ CounterOk r.outcomes) :
    CounterOk (mergeCO a r).cues ∧ CounterOk (mergeCO a r).outcomes :=
  ⟨cMerge_ok _ _ ha.1 hr.1.2, cMerge_ok _ _ ha.2 hr.2.2⟩

theorem co_fold_ok (intOf : Str → Option Int) (n : Nat) (content : Str) :
    ∀ (ks : List Nat) (acc : Option CO) (r : CO),
      (∀ a, acc = some a → CounterOk a.cues ∧ CounterOk a.outcomes) →
      ks.foldl (coStepWith intOf n content) acc = some r → CounterOk r.cues ∧ CounterOk r.outcomes := by
  intro ks
  induction ks with
  | nil => intro acc r h hr; exact h r hr
  | cons k ks ih =>
    intro acc r h hr
    rw [foldl_cons] at hr
    refine ih _ r ?_ hr
    intro a ha
    cases acc with
    | none => simp [coStepWith] at ha
    | some a0 =>
      cases hp : parseFileWith intOf k n content with
      | none => simp [coStepWith, hp] at ha
      | some es =>
        simp only [coStepWith, hp, Option.some.injEq] at ha
        subst ha
        exact mergeCO_ok a0 _ (h a0 rfl) (job_ok es)

/-- **the counters `cues_outcomes` returns have distinct keys and no zero (or
    negative) counts**, for every `int`, every number of jobs, every file. -/
theorem cuesOutcomesWith_ok (intOf : Str → Option Int) (n : Nat) (content : Str) (r : CO)
    (h : cuesOutcomesWith intOf n content = some r) : CounterOk r.cues ∧ CounterOk r.outcomes := by
  unfold cuesOutcomesWith at h
  by_cases hn : n = 0
  · simp [hn] at h
  · rw [if_neg hn] at h
    refine co_fold_ok intOf n content _ _ r ?_ h
    intro a ha
    simp only [Option.some.injEq] at ha
    subst ha
    exact ⟨CounterOk.nil, CounterOk.nil⟩

theorem countWords_ok (ws : List Str) : CounterOk (countWords ws).words ∧ CounterOk (countWords ws).symbols := by
  have key : ∀ (ws : List Str) (st : WS), CounterOk st.words → CounterOk st.symbols →
      CounterOk (ws.foldl (fun (st : WS) w =>
        (⟨cAdd st.words w 1, cMerge st.symbols (cCountList [] (w.map (fun c => [c])))⟩ : WS)) st).words ∧
      CounterOk (ws.foldl (fun (st : WS) w =>
        (⟨cAdd st.words w 1, cMerge st.symbols (cCountList [] (w.map (fun c => [c])))⟩ : WS)) st).symbols := by
    intro ws
    induction ws with
    | nil => intro st h1 h2; exact ⟨h1, h2⟩
    | cons w ws ih =>
      intro st h1 h2
      simp only [foldl_cons]
      exact ih _ (cAdd_ok _ _ 1 (by omega) h1)
        (cMerge_ok _ _ h2 (cCountList_ok _ _ CounterOk.nil).2)
  exact key ws ⟨[], []⟩ CounterOk.nil CounterOk.nil

theorem ws_fold_ok (lower : Option (List (Str × Str))) (n : Nat) (lines : List (List Str)) :
    ∀ (ks : List Nat) (acc : Option WS) (r : WS),
      (∀ a, acc = some a → CounterOk a.words ∧ CounterOk a.symbols) →
      ks.foldl (wsStep lower n lines) acc = some r → CounterOk r.words ∧ CounterOk r.symbols := by
  intro ks
  induction ks with
  | nil => intro acc r h hr; exact h r hr
  | cons k ks ih =>
    intro acc r h hr
    rw [foldl_cons] at hr
    refine ih _ r ?_ hr
    intro a ha
    cases acc with
    | none => simp [wsStep] at ha
    | some a0 =>
      cases hp : jobWordsSymbols lower (stride k n lines) with
      | none => simp [wsStep, hp] at ha
      | some w =>
        simp only [wsStep, hp, Option.some.injEq] at ha
        subst ha
        have hw : CounterOk w.words ∧ CounterOk w.symbols := by
          simp only [jobWordsSymbols] at hp
          split at hp
          · simp only [Option.some.injEq] at hp; subst hp; exact countWords_ok _
          · cases hp
        exact ⟨cMerge_ok _ _ (h a0 rfl).1 hw.1.2, cMerge_ok _ _ (h a0 rfl).2 hw.2.2⟩

theorem wordsSymbols_ok (lower : Option (List (Str × Str))) (n : Nat) (lines : List (List Str)) (r : WS)
    (h : wordsSymbols lower n lines = some r) : CounterOk r.words ∧ CounterOk r.symbols := by
  refine ws_fold_ok lower n lines _ _ r ?_ h
  intro a ha
  simp only [Option.some.injEq] at ha
  subst ha
  exact ⟨CounterOk.nil, CounterOk.nil⟩

/-! ## the writer with `delimiter=` / `columns=` (C07): the header never reaches the reader -/

theorem universalNewlines_cons_ne (c : Char) (s : Str) (hc : c ≠ CR) (hs : s ≠ []) :
    universalNewlines (c :: s) = c :: universalNewlines s := by
  cases s with
  | nil => exact absurd rfl hs
  | cons d r => simp [universalNewlines, hc]

theorem universalNewlines_line (h rest : Str) (hcr : CR ∉ h) :
    universalNewlines (h ++ LF :: rest) = h ++ LF :: universalNewlines rest := by
  induction h with
  | nil =>
    have hne : LF ≠ CR := by decide
    cases rest with
    | nil => simp [universalNewlines, hne]
    | cons d r => simp [universalNewlines, hne]
  | cons c h ih =>
    have hc : c ≠ CR := fun e => hcr (by simp [e])
    have hh : CR ∉ h := fun m => hcr (by simp [m])
    rw [cons_append, universalNewlines_cons_ne c _ hc (by simp), ih hh]
    rfl

/-- the body lines of a file whose first line `hd` is free of LF and CR do not
    depend on that line (the reader skips it, io.py:51) — whatever the other
    lines contain. -/
theorem bodyLines_unlines_cons (hd : Str) (ls : List Str) (h : LF ∉ hd ∧ CR ∉ hd) :
    bodyLines (unlines (hd :: ls)) = linesKeepEnds (universalNewlines (unlines ls)) := by
  unfold bodyLines fileLines
  simp only [unlines]
  rw [universalNewlines_line hd _ h.2, linesKeepEnds_line hd _ h.1]
  rfl

end Pyndl.Text
