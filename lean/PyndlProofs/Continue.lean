import PyndlModel.Ndl
import PyndlProofs.Dict
import PyndlProofs.Laws

set_option linter.unusedSectionVars false
set_option linter.unusedSimpArgs false
set_option linter.unusedVariables false

namespace Pyndl
open List

variable {R : Type} [CommRing R]

/-! ## DataArray → dict (`dict_ndl(weights=DataArray)`) -/

theorem alGet_map_pairs (cs : List String) (f : String → R) (x : String) :
    alGet (cs.map (fun c => (c, f c))) x = if x ∈ cs then f x else 0 := by
  induction cs with
  | nil => simp [alGet]
  | cons c cs ih =>
    simp only [List.map_cons, alGet, ih, List.mem_cons]
    by_cases h : c = x
    · subst h; simp
    · have h' : ¬ x = c := fun e => h e.symm
      simp [h, h']

theorem wdRow_map_pairs (os : List String) (g : String → List (String × R)) (x : String) :
    wdRow (os.map (fun o => (o, g o))) x = if x ∈ os then g x else [] := by
  induction os with
  | nil => simp [wdRow]
  | cons o os ih =>
    simp only [List.map_cons, wdRow, ih, List.mem_cons]
    by_cases h : o = x
    · subst h; simp
    · have h' : ¬ x = o := fun e => h e.symm
      simp [h, h']

theorem LW.get_not_outcome (w : LW R) (o c : String) (h : o ∉ w.outcomes) : w.get o c = 0 := by
  unfold LW.get
  have : ¬ (w.outcomes.idxOf o < w.outcomes.length) := by
    rw [List.idxOf_lt_length_iff]; exact h
  simp [this]

theorem LW.get_not_cue (w : LW R) (o c : String) (h : c ∉ w.cues) : w.get o c = 0 := by
  unfold LW.get
  have : ¬ (w.cues.idxOf c < w.cues.length) := by
    rw [List.idxOf_lt_length_iff]; exact h
  simp [this]

/-- handing a labelled matrix to `dict_ndl` yields a dict denoting the same
    total weight function -/
theorem dictFromLW_abs (w : LW R) (o c : String) : wdAbs (dictFromLW w) o c = w.get o c := by
  unfold wdAbs dictFromLW
  rw [wdRow_map_pairs]
  by_cases ho : o ∈ w.outcomes
  · simp only [ho, if_true, alGet_map_pairs]
    by_cases hc : c ∈ w.cues
    · simp [hc]
    · simp [hc, LW.get_not_cue w o c hc]
  · simp [ho, alGet, LW.get_not_outcome w o c ho]

/-! ## extension of given weights by new labels (`ndl.ndl(weights=DataArray)`) -/

theorem getD_ofFn (n : Nat) (f : Fin n → R) (k : Nat) :
    (Array.ofFn f).getD k 0 = if h : k < n then f ⟨k, h⟩ else 0 := by
  simp only [Array.getD_eq_getD_getElem?]
  by_cases h : k < n
  · simp [h]
  · simp [h]

theorem extendVals_get (old : Array R) (oldRows oldCols newRows newCols i j : Nat)
    (hi : i < newRows) (hj : j < newCols) :
    (extendVals old oldRows oldCols newRows newCols).getD (i * newCols + j) 0
      = if i < oldRows ∧ j < oldCols then old.getD (i * oldCols + j) 0 else 0 := by
  unfold extendVals
  rw [getD_ofFn]
  have hk : i * newCols + j < newRows * newCols := by
    calc i * newCols + j < i * newCols + newCols := by omega
      _ = (i + 1) * newCols := by ring
      _ ≤ newRows * newCols := Nat.mul_le_mul_right _ hi
  simp only [hk, dif_pos]
  have h1 : (i * newCols + j) / newCols = i := by
    rw [Nat.mul_comm, Nat.mul_add_div (by omega), Nat.div_eq_of_lt hj]; simp
  have h2 : (i * newCols + j) % newCols = j := by
    rw [Nat.mul_comm, Nat.mul_add_mod]; exact Nat.mod_eq_of_lt hj
  rw [h1, h2]

theorem idxOf_append_mem (xs ys : List String) (x : String) (h : x ∈ xs) :
    (xs ++ ys).idxOf x = xs.idxOf x := List.idxOf_append_of_mem h

/-- **extending given weights by new cues/outcomes does not change the weight
    function they denote** (zero rows / columns are added), whatever the new
    labels and their order. -/
theorem extendLW_get (w : LW R) (cuesNew outsNew : List String) (o c : String) :
    (extendLW w cuesNew outsNew).get o c = w.get o c := by
  unfold extendLW LW.get
  simp only
  set cues' := w.cues ++ cuesNew.filter (fun c => !w.cues.contains c) with hcues
  set outs' := w.outcomes ++ outsNew.filter (fun o => !w.outcomes.contains o) with houts
  by_cases hi : outs'.idxOf o < outs'.length
  · by_cases hj : cues'.idxOf c < cues'.length
    · rw [if_pos ⟨hi, hj⟩, extendVals_get _ _ _ _ _ _ _ hi hj]
      by_cases ho : o ∈ w.outcomes
      · by_cases hc : c ∈ w.cues
        · have e1 : outs'.idxOf o = w.outcomes.idxOf o := idxOf_append_mem _ _ _ ho
          have e2 : cues'.idxOf c = w.cues.idxOf c := idxOf_append_mem _ _ _ hc
          have l1 : w.outcomes.idxOf o < w.outcomes.length := List.idxOf_lt_length_iff.mpr ho
          have l2 : w.cues.idxOf c < w.cues.length := List.idxOf_lt_length_iff.mpr hc
          rw [e1, e2, if_pos ⟨l1, l2⟩]
        · have l2 : ¬ (w.cues.idxOf c < w.cues.length) := by rw [List.idxOf_lt_length_iff]; exact hc
          have g2 : ¬ (cues'.idxOf c < w.cues.length) := by
            rw [hcues, List.idxOf_append_of_notMem hc]; omega
          simp [l2, g2]
      · have l1 : ¬ (w.outcomes.idxOf o < w.outcomes.length) := by rw [List.idxOf_lt_length_iff]; exact ho
        have g1 : ¬ (outs'.idxOf o < w.outcomes.length) := by
          rw [houts, List.idxOf_append_of_notMem ho]; omega
        simp [l1, g1]
    · have hc : c ∉ w.cues := fun h => hj (List.idxOf_lt_length_iff.mpr (by rw [hcues]; simp [h]))
      have l2 : ¬ (w.cues.idxOf c < w.cues.length) := by rw [List.idxOf_lt_length_iff]; exact hc
      simp [hj, l2]
  · have ho : o ∉ w.outcomes := fun h => hi (List.idxOf_lt_length_iff.mpr (by rw [houts]; simp [h]))
    have l1 : ¬ (w.outcomes.idxOf o < w.outcomes.length) := by rw [List.idxOf_lt_length_iff]; exact ho
    simp [hi, l1]

/-! ## chains -/

/-- learning piece after piece, handing the weights on, is learning the
    concatenation — for any number of pieces and any split positions -/
theorem chain_rwLearn {ι κ : Type} [DecidableEq ι] [DecidableEq κ]
    (α : ι → R) (β₁ β₂ lam : R) (W : κ → ι → R) (pieces : List (List (Event ι κ))) :
    pieces.foldl (rwLearn α β₁ β₂ lam) W = rwLearn α β₁ β₂ lam W pieces.flatten := by
  induction pieces generalizing W with
  | nil => rfl
  | cons p ps ih => simp only [List.foldl_cons, List.flatten_cons, rwLearn_append, ih]

end Pyndl
