import PyndlProofs.Schedule

set_option linter.unusedSectionVars false
set_option linter.unusedSimpArgs false

namespace Pyndl
open List

/-! ## `slice_list` -/

theorem sliceList_go_flatten {α : Type} (n : Nat) (hn : 1 ≤ n) (fuel : Nat) (xs : List α)
    (hf : xs.length ≤ fuel) : (sliceList.go n fuel xs).flatten = xs := by
  induction fuel generalizing xs with
  | zero =>
    have : xs = [] := List.length_eq_zero_iff.mp (by omega)
    subst this; simp [sliceList.go]
  | succ fuel ih =>
    cases xs with
    | nil => simp [sliceList.go]
    | cons x xs =>
      simp only [sliceList.go, List.flatten_cons]
      rw [ih]
      · exact List.take_append_drop n (x :: xs)
      · simp only [List.length_drop, List.length_cons] at *; omega

/-- the sublists of `slice_list`, concatenated in order, are the input list:
    no element lost, none duplicated, order kept — for every `len_sublists ≥ 1`
    (also larger than the list, also an exact divisor of its length). -/
theorem sliceList_flatten {α : Type} (xs : List α) (n : Nat) (hn : 1 ≤ n) :
    (sliceList xs n).flatten = xs :=
  sliceList_go_flatten n hn xs.length xs (Nat.le_refl _)

theorem sliceList_go_len {α : Type} (n : Nat) (fuel : Nat) (xs : List α) :
    ∀ p ∈ sliceList.go n fuel xs, p.length ≤ n := by
  induction fuel generalizing xs with
  | zero => simp [sliceList.go]
  | succ fuel ih =>
    cases xs with
    | nil => simp [sliceList.go]
    | cons x xs =>
      simp only [sliceList.go, List.mem_cons]
      rintro p (rfl | hp)
      · simp [List.length_take]
      · exact ih _ p hp

/-! ## from "flatten is duplicate-free" to `PartsOk` -/

theorem getD_lt {parts : List (List Nat)} {k : Nat} (hk : k < parts.length) :
    parts.getD k [] = parts[k] := by
  rw [List.getD_eq_getElem?_getD, List.getElem?_eq_getElem hk]; rfl

theorem getD_mem_flatten {parts : List (List Nat)} {k : Nat} (hk : k < parts.length) {x : Nat}
    (hx : x ∈ parts.getD k []) : x ∈ parts.flatten := by
  rw [List.mem_flatten]
  refine ⟨parts.getD k [], ?_, hx⟩
  rw [getD_lt hk]; exact List.getElem_mem hk

theorem mem_flatten_getD {parts : List (List Nat)} {x : Nat} (hx : x ∈ parts.flatten) :
    ∃ k, k < parts.length ∧ x ∈ parts.getD k [] := by
  rw [List.mem_flatten] at hx
  obtain ⟨l, hl, hxl⟩ := hx
  obtain ⟨k, hk, rfl⟩ := List.getElem_of_mem hl
  exact ⟨k, hk, by rw [getD_lt hk]; exact hxl⟩

theorem partsOk_of_nodup_flatten (parts : List (List Nat)) (h : parts.flatten.Nodup) : PartsOk parts := by
  induction parts with
  | nil => exact ⟨fun k hk => by simp at hk, fun i j hi => by simp at hi⟩
  | cons p parts ih =>
    rw [List.flatten_cons, List.nodup_append] at h
    obtain ⟨hp, hrest, hdis⟩ := h
    have ih' := ih hrest
    refine ⟨?_, ?_⟩
    · intro k hk
      cases k with
      | zero => simpa using hp
      | succ k =>
        have := ih'.nodup k (by simpa using hk)
        simpa using this
    · intro i j hi hj hij x hxi hxj
      cases i with
      | zero =>
        cases j with
        | zero => exact hij rfl
        | succ j =>
          simp only [List.getD_cons_zero] at hxi
          simp only [List.getD_cons_succ] at hxj
          have hj' : j < parts.length := by simpa using hj
          exact hdis x hxi x (getD_mem_flatten hj' hxj) rfl
      | succ i =>
        cases j with
        | zero =>
          simp only [List.getD_cons_zero] at hxj
          simp only [List.getD_cons_succ] at hxi
          have hi' : i < parts.length := by simpa using hi
          exact hdis x hxj x (getD_mem_flatten hi' hxi) rfl
        | succ j =>
          simp only [List.getD_cons_succ] at hxi hxj
          exact ih'.disjoint i j (by simpa using hi) (by simpa using hj) (by omega) x hxi hxj

/-! ## OpenMP bounds -/

theorem windows_flatten {α : Type} (xs : List α) (c : Nat) (k : Nat) :
    ((List.range k).map (fun i => (xs.drop (i * c)).take c)).flatten = xs.take (k * c) := by
  induction k with
  | zero => simp
  | succ k ih =>
    rw [List.range_succ, List.map_append, List.flatten_append, ih]
    simp only [List.map_cons, List.map_nil, List.flatten_cons, List.flatten_nil, List.append_nil]
    rw [Nat.succ_mul, List.take_add]

theorem ompBounds_eq (n chunk : Nat) (hc : 1 ≤ chunk) :
    ompBounds n chunk = (List.range ((n + chunk - 1) / chunk)).map
      (fun ii => (ii * chunk, min (ii * chunk + chunk) n)) := by
  unfold ompBounds
  simp only
  rw [← List.filterMap_eq_map]
  apply List.filterMap_congr
  intro ii hii
  rw [List.mem_range] at hii
  have h1 : (ii + 1) * chunk ≤ n + chunk - 1 := by
    have := Nat.mul_le_of_le_div chunk (ii + 1) (n + chunk - 1) (by omega)
    simpa [Nat.mul_comm] using this
  have h2 : ii * chunk < n := by
    have : (ii + 1) * chunk = ii * chunk + chunk := by ring
    omega
  have h3 : ¬ (ii * chunk = n) := by omega
  simp [h3]

/-- the OpenMP parts, concatenated in order, are the outcome list, for every
    chunk size ≥ 1 -/
theorem ompParts_flatten {α : Type} (xs : List α) (chunk : Nat) (hc : 1 ≤ chunk) :
    (ompParts xs chunk).flatten = xs := by
  unfold ompParts
  rw [ompBounds_eq _ _ hc, List.map_map]
  have hwin : ∀ ii, ((fun (p : Nat × Nat) => (xs.drop p.1).take (p.2 - p.1)) ∘
      (fun ii => (ii * chunk, min (ii * chunk + chunk) xs.length))) ii
      = (xs.drop (ii * chunk)).take chunk := by
    intro ii
    simp only [Function.comp]
    by_cases h : ii * chunk + chunk ≤ xs.length
    · rw [Nat.min_eq_left h]; congr 1; omega
    · rw [Nat.min_eq_right (by omega)]
      rw [List.take_of_length_le (by simp), List.take_of_length_le (by simp; omega)]
  have : (fun x => ((fun (p : Nat × Nat) => (xs.drop p.1).take (p.2 - p.1)) ∘
      (fun ii => (ii * chunk, min (ii * chunk + chunk) xs.length))) x)
      = fun ii => (xs.drop (ii * chunk)).take chunk := funext hwin
  show (map ((fun (p : Nat × Nat) => (xs.drop p.1).take (p.2 - p.1)) ∘ _) _).flatten = xs
  rw [show ((fun (p : Nat × Nat) => (xs.drop p.1).take (p.2 - p.1)) ∘
      (fun ii => (ii * chunk, min (ii * chunk + chunk) xs.length)))
      = fun ii => (xs.drop (ii * chunk)).take chunk from funext hwin]
  rw [windows_flatten]
  apply List.take_of_length_le
  have : xs.length ≤ (xs.length + chunk - 1) / chunk * chunk := by
    have h := Nat.div_add_mod (xs.length + chunk - 1) chunk
    have hm := Nat.mod_lt (xs.length + chunk - 1) (show 0 < chunk by omega)
    rw [Nat.mul_comm] at h
    omega
  exact this

end Pyndl
