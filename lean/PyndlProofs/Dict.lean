import PyndlProofs.RW

set_option linter.unusedSectionVars false
set_option linter.unusedSimpArgs false

namespace Pyndl
open List

variable {R : Type} [CommRing R]
variable {ι κ : Type} [DecidableEq ι] [DecidableEq κ]

theorem alGet_alSet (d : List (ι × R)) (c : ι) (v : R) (x : ι) :
    alGet (alSet d c v) x = if x = c then v else alGet d x := by
  induction d with
  | nil =>
    by_cases h : x = c
    · subst h; simp [alSet, alGet]
    · have h' : ¬ c = x := fun e => h e.symm
      simp [alSet, alGet, h, h']
  | cons kx d ih =>
    obtain ⟨k, y⟩ := kx
    by_cases hk : k = c
    · subst hk
      by_cases h : x = k
      · subst h; simp [alSet, alGet]
      · have h' : ¬ k = x := fun e => h e.symm
        simp [alSet, alGet, h, h']
    · by_cases h : x = c
      · subst h; simp [alSet, alGet, hk, ih]
      · simp only [alSet, hk, if_false, alGet, ih, h]

theorem alGet_alSet_fun (d : List (ι × R)) (c : ι) (v : R) :
    alGet (alSet d c v) = upd (alGet d) c v := by
  funext x; simp [alGet_alSet, upd]

theorem wdRow_wdSetRow (W : WDict ι κ R) (o : κ) (r : List (ι × R)) (x : κ) :
    wdRow (wdSetRow W o r) x = if x = o then r else wdRow W x := by
  induction W with
  | nil =>
    by_cases h : x = o
    · subst h; simp [wdSetRow, wdRow]
    · have h' : ¬ o = x := fun e => h e.symm
      simp [wdSetRow, wdRow, h, h']
  | cons kx W ih =>
    obtain ⟨k, y⟩ := kx
    by_cases hk : k = o
    · subst hk
      by_cases h : x = k
      · subst h; simp [wdSetRow, wdRow]
      · have h' : ¬ k = x := fun e => h e.symm
        simp [wdSetRow, wdRow, h, h']
    · by_cases h : x = o
      · subst h; simp [wdSetRow, wdRow, hk, ih]
      · simp only [wdSetRow, hk, if_false, wdRow, ih, h]

theorem dictUpd_abs (α : ι → R) (u : R) (row : List (ι × R)) (cs : List ι) :
    alGet (cs.foldl (fun r c => alSet r c (alGet r c + α c * u)) row)
      = cs.foldl (fun w c => upd w c (w c + α c * u)) (alGet row) := by
  induction cs generalizing row with
  | nil => rfl
  | cons c cs ih =>
    simp only [List.foldl_cons]
    rw [ih, alGet_alSet_fun]

/-- the row update of `dict_ndl` is the specification's row update -/
theorem dictRow_abs (α : ι → R) (β₁ β₂ lam : R) (row : List (ι × R)) (cs : List ι) (p : Bool) :
    alGet (dictRow α β₁ β₂ lam row cs p) = rwRow α β₁ β₂ lam (alGet row) cs p := by
  unfold dictRow rwRow sumOver addCues
  exact dictUpd_abs α _ row cs

/-- folding independent keyed row updates over a duplicate-free key list -/
theorem fold_setRow (f : κ → List (ι × R) → List (ι × R)) (keys : List κ) (hn : keys.Nodup)
    (W : WDict ι κ R) (x : κ) :
    wdRow (keys.foldl (fun W o => wdSetRow W o (f o (wdRow W o))) W) x
      = if x ∈ keys then f x (wdRow W x) else wdRow W x := by
  induction keys generalizing W with
  | nil => simp
  | cons k keys ih =>
    simp only [List.foldl_cons]
    rw [ih (List.nodup_cons.mp hn).2]
    have hk : k ∉ keys := (List.nodup_cons.mp hn).1
    by_cases hx : x = k
    · subst hx; simp [hk, wdRow_wdSetRow]
    · by_cases hm : x ∈ keys
      · simp [hm, wdRow_wdSetRow, hx]
      · simp [hm, wdRow_wdSetRow, hx]

theorem unionNew_mem {α : Type} [DecidableEq α] (xs ys : List α) (a : α) :
    a ∈ unionNew xs ys ↔ a ∈ xs ∨ a ∈ ys := by
  induction ys generalizing xs with
  | nil => simp [unionNew]
  | cons y ys ih =>
    unfold unionNew
    by_cases h : y ∈ xs
    · simp only [h, if_true, ih, List.mem_cons]
      constructor
      · rintro (h1 | h1); exact Or.inl h1; exact Or.inr (Or.inr h1)
      · rintro (h1 | h1 | h1)
        · exact Or.inl h1
        · subst h1; exact Or.inl h
        · exact Or.inr h1
    · simp only [h, if_false, ih, List.mem_append, List.mem_cons, List.mem_singleton,
        List.not_mem_nil, or_false]
      tauto

theorem unionNew_nodup {α : Type} [DecidableEq α] (xs ys : List α) (h : xs.Nodup) :
    (unionNew xs ys).Nodup := by
  induction ys generalizing xs with
  | nil => simpa [unionNew]
  | cons y ys ih =>
    unfold unionNew
    by_cases hy : y ∈ xs
    · simp only [hy, if_true]; exact ih xs h
    · simp only [hy, if_false]
      apply ih
      rw [List.nodup_append]
      refine ⟨h, by simp, ?_⟩
      intro a ha b hb
      simp at hb; subst hb
      intro e; subst e; exact hy ha

/-- a row of zeros whose outcome is absent from the event stays zero:
    the lazily growing outcome set of `dict_ndl` equals the full universe -/
theorem unseen_row_stays_zero (α : ι → R) (β₁ β₂ lam : R) (cs : List ι) :
    rwRow α β₁ β₂ lam (fun _ => (0 : R)) cs false = fun _ => 0 := by
  funext c
  rw [rwRow_apply]
  simp [rwU]

/-- invariant linking the dict state to the specification state -/
structure DictInv (s : DictState ι κ R) (V : κ → ι → R) : Prop where
  nodup : s.all.Nodup
  abs : ∀ o, alGet (wdRow s.W o) = V o
  zero : ∀ o, o ∉ s.all → V o = fun _ => 0

theorem dictStep_inv (α : ι → R) (β₁ β₂ lam : R) (s : DictState ι κ R) (V : κ → ι → R)
    (e : Event ι κ) (h : DictInv s V) :
    DictInv (dictStep α β₁ β₂ lam s e) (rwStep α β₁ β₂ lam V e) := by
  have hnd : (unionNew s.all e.outcomes).Nodup := unionNew_nodup _ _ h.nodup
  refine ⟨hnd, ?_, ?_⟩
  · intro o
    show alGet (wdRow (foldl _ s.W (unionNew s.all e.outcomes)) o) = _
    rw [fold_setRow (fun o r => dictRow α β₁ β₂ lam r e.cues (decide (o ∈ e.outcomes))) _ hnd]
    by_cases hm : o ∈ unionNew s.all e.outcomes
    · simp only [hm, if_true, dictRow_abs, h.abs, rwStep]
    · simp only [hm, if_false, h.abs, rwStep]
      have hm' := (not_congr (unionNew_mem s.all e.outcomes o)).mp hm
      have ho : o ∉ e.outcomes := fun x => hm' (Or.inr x)
      have ha : o ∉ s.all := fun x => hm' (Or.inl x)
      rw [h.zero o ha]
      simp [ho, unseen_row_stays_zero]
  · intro o hm
    have hm' := (not_congr (unionNew_mem s.all e.outcomes o)).mp hm
    have ho : o ∉ e.outcomes := fun x => hm' (Or.inr x)
    have ha : o ∉ s.all := fun x => hm' (Or.inl x)
    simp only [rwStep, h.zero o ha]
    simp [ho, unseen_row_stays_zero]

theorem wdRow_not_key (W : WDict ι κ R) (o : κ) (h : o ∉ W.map (·.1)) : wdRow W o = [] := by
  induction W with
  | nil => rfl
  | cons kx W ih =>
    obtain ⟨k, r⟩ := kx
    simp only [List.map_cons, List.mem_cons, not_or] at h
    have : ¬ k = o := fun e => h.1 e.symm
    simp [wdRow, this, ih h.2]

theorem dictInit_inv (W : WDict ι κ R) : DictInv (dictInit W) (wdAbs W) := by
  refine ⟨unionNew_nodup _ _ List.nodup_nil, fun o => rfl, ?_⟩
  intro o ho
  have : o ∉ W.map (·.1) := by
    intro hm; exact ho ((unionNew_mem [] _ o).mpr (Or.inr hm))
  funext c
  simp [wdAbs, wdRow_not_key W o this, alGet]

theorem dictNdl_go_spec (p : DupPolicy) (α : ι → R) (β₁ β₂ lam : R)
    (s : DictState ι κ R) (V : κ → ι → R) (h : DictInv s V)
    (es es' : List (Event ι κ)) (hp : applyPolicyAll p es = some es') :
    ∃ W, dictNdl.go p α β₁ β₂ lam s es = some W ∧ wdAbs W = rwLearn α β₁ β₂ lam V es' := by
  induction es generalizing s V es' with
  | nil =>
    simp [applyPolicyAll] at hp; subst hp
    exact ⟨s.W, rfl, by funext o; exact h.abs o⟩
  | cons e es ih =>
    simp only [applyPolicyAll] at hp
    cases hpe : applyPolicy p e with
    | none => simp [hpe] at hp
    | some e' =>
      simp only [hpe] at hp
      cases hpa : applyPolicyAll p es with
      | none => simp [hpa] at hp
      | some es'' =>
        simp only [hpa, Option.some.injEq] at hp; subst hp
        simp only [dictNdl.go, hpe]
        exact ih _ _ (dictStep_inv α β₁ β₂ lam s V e' h) es'' hpa

/-- **dict_ndl equals the specification** on every (outcome, cue), for every
    initial weight dict, every event list accepted by the duplicate policy,
    including outcomes and cues first seen late. -/
theorem dictNdl_eq_spec (p : DupPolicy) (α : ι → R) (β₁ β₂ lam : R) (W₀ : WDict ι κ R)
    (es es' : List (Event ι κ)) (hp : applyPolicyAll p es = some es') :
    ∃ W, dictNdl p α β₁ β₂ lam W₀ es = some W ∧
      wdAbs W = rwLearn α β₁ β₂ lam (wdAbs W₀) es' :=
  dictNdl_go_spec p α β₁ β₂ lam _ _ (dictInit_inv W₀) es es' hp

/-- and it raises exactly when the policy rejects some event -/
theorem dictNdl_go_none (p : DupPolicy) (α : ι → R) (β₁ β₂ lam : R) (s : DictState ι κ R)
    (es : List (Event ι κ)) (hp : applyPolicyAll p es = none) :
    dictNdl.go p α β₁ β₂ lam s es = none := by
  induction es generalizing s with
  | nil => simp [applyPolicyAll] at hp
  | cons e es ih =>
    simp only [applyPolicyAll] at hp
    cases hpe : applyPolicy p e with
    | none => simp [dictNdl.go, hpe]
    | some e' =>
      simp only [hpe] at hp
      cases hpa : applyPolicyAll p es with
      | none => simp only [dictNdl.go, hpe]; exact ih _ hpa
      | some es'' => simp [hpa] at hp

theorem dictNdl_raises (p : DupPolicy) (α : ι → R) (β₁ β₂ lam : R) (W₀ : WDict ι κ R)
    (es : List (Event ι κ)) (hp : applyPolicyAll p es = none) :
    dictNdl p α β₁ β₂ lam W₀ es = none :=
  dictNdl_go_none p α β₁ β₂ lam _ es hp

end Pyndl
