/-
  PyndlProofs.WHChain — continued Widrow–Hoff learning (`wh.wh(weights=…)`) and
  chains of `wh.wh` calls of arbitrary length (C03 for the Widrow–Hoff
  learners, C08).

  1. the three specifications of `PyndlProofs.WHSpec` started from a GIVEN
     weight function (`whR2BSpecFrom`, `whB2RSpecFrom`, `whR2RSpecFrom`) and
     their append law (the Widrow–Hoff analogue of `rwLearn_append`);
  2. `whModel_*_continue`: the model `whModel` of `wh.py` called with
     `weights = w` whose real-side labels are the dimension labels of the table
     succeeds and returns the specification continued from the weight function
     `w` denotes; new binary-side labels are appended, old ones keep their
     position.  What the code does with OTHER real-side labels differs per
     flavour (see PyndlModel/WHModel.lean): binary → real raises `ValueError`
     (`whModel_b2r_labelError`); real → binary ignores them and uses the values
     by position (`whModel_r2b_continue_pos`, `whModel_r2b_labels_ignored`;
     errors only `whModel_r2b_widthError`, `whModel_r2b_alignError`); real →
     real re-aligns a permutation (`whModel_r2r_continue_perm`) and raises
     `ValueError` / `KeyError` / `InvalidIndexError` otherwise
     (`whModel_r2r_shapeError`, `whModel_r2r_alignError`, `whModel_r2r_keyError`,
     `whModel_r2r_dupError`);
  2b. every matrix `whModel` returns carries the table's labels
     (`whModel_ok_labels`), so in a chain every `weights=` argument has them
     (`whChainRun_state_labels`): the label-tolerant branches are not reached;
  3. chains: `whChainRun` (every call continues from the previous result),
     `wh*_chain_two`, `wh*_chain_any_length` (induction over the list of
     parts), `wh*_chain_eq_single_call`.

  Template: `PyndlProofs.NdlContinue.ndlModel_continue_eq_spec`, `PyndlProofs.Chain`.
-/
import PyndlProofs.WHOneHot
import PyndlProofs.Chain

set_option linter.unusedSectionVars false
set_option linter.unusedSimpArgs false
set_option linter.unusedVariables false

namespace Pyndl
open List

/-! ## the model of a chain of `wh.wh` calls -/

/-- one part of a chain of `wh.wh` calls: its events, its `remove_duplicates`
    and its `n_outcomes_per_job` (flavour, tables and learning parameters are
    those of the chain) -/
structure WhPart where
  policy : DupPolicy
  chunk : Nat
  events : List (Event String String)

/-- the whole file: all parts one after the other -/
def whAllEvents (parts : List WhPart) : List (Event String String) := (parts.map (·.events)).flatten

/-- every part under ITS duplicate policy; `none` as soon as one part is rejected -/
def whChainPolicy : List WhPart → Option (List (Event String String))
  | [] => some []
  | pt :: ps =>
    match applyPolicyAll pt.policy pt.events with
    | none => none
    | some es' =>
      match whChainPolicy ps with
      | none => none
      | some r => some (es' ++ r)

/-- a part of a `wh.wh` chain seen as a part of a chain in the sense of
    `PyndlProofs.Chain` (only policy and events matter for `chainPolicy`) -/
def WhPart.toPart (pt : WhPart) : Part := (.dict pt.policy false, pt.events)

theorem whChainPolicy_eq_chainPolicy (parts : List WhPart) :
    whChainPolicy parts = chainPolicy (parts.map WhPart.toPart) := by
  induction parts with
  | nil => rfl
  | cons pt ps ih =>
    simp only [whChainPolicy, List.map_cons, chainPolicy, ih]
    rfl

theorem whAllEvents_eq_allEvents (parts : List WhPart) :
    whAllEvents parts = allEvents (parts.map WhPart.toPart) := by
  unfold whAllEvents allEvents
  rw [List.map_map]
  rfl

/-- when every part runs with the same policy `p`, the parts are accepted
    exactly when the whole file is, with the same processed events
    (`chainPolicy_uniform`) -/
theorem whChainPolicy_uniform (p : DupPolicy) (parts : List WhPart) (h : ∀ pt ∈ parts, pt.policy = p) :
    whChainPolicy parts = applyPolicyAll p (whAllEvents parts) := by
  rw [whChainPolicy_eq_chainPolicy, whAllEvents_eq_allEvents]
  apply chainPolicy_uniform
  intro q hq
  obtain ⟨pt, hpt, rfl⟩ := List.mem_map.mp hq
  exact h pt hpt

theorem mem_whAllEvents (parts : List WhPart) (pt : WhPart) (hpt : pt ∈ parts) (e : Event String String)
    (he : e ∈ pt.events) : e ∈ whAllEvents parts :=
  List.mem_flatten.mpr ⟨pt.events, List.mem_map.mpr ⟨pt, hpt, rfl⟩, he⟩

theorem whAllEvents_mem (parts : List WhPart) (e : Event String String) (he : e ∈ whAllEvents parts) :
    ∃ pt ∈ parts, e ∈ pt.events := by
  obtain ⟨l, hl, hel⟩ := List.mem_flatten.mp he
  obtain ⟨pt, hpt, rfl⟩ := List.mem_map.mp hl
  exact ⟨pt, hpt, hel⟩

section Model
variable {R : Type} [Add R] [Sub R] [Mul R] [Zero R]

/-- the chain: every part's result is the next part's `weights=`; the first
    call gets `s` (`none` = `weights=None`) -/
def whChainRun (fl : WhFlavour) (eta β₁ β₂ lam : R) (cueTab outTab : Option (VecTable R)) :
    Option (LW R) → List WhPart → Except Err (Option (LW R))
  | s, [] => .ok s
  | s, pt :: ps =>
    match whModel fl pt.policy eta β₁ β₂ lam cueTab outTab pt.chunk s pt.events with
    | .error e => .error e
    | .ok w => whChainRun fl eta β₁ β₂ lam cueTab outTab (some w) ps

/-- the weight function a labelled matrix denotes when its ROWS are addressed
    by name and its columns by position (real cue vectors → binary outcomes:
    rows = outcomes, columns = cue vector dimensions) -/
def LW.byOutcome (w : LW R) : String → Nat → R := fun o k =>
  if w.outcomes.idxOf o < w.outcomes.length ∧ k < w.cues.length
  then w.vals.getD (w.outcomes.idxOf o * w.cues.length + k) 0 else 0

/-- … when its rows are addressed by position and its COLUMNS by name (binary
    cues → real outcome vectors: rows = outcome vector dimensions, columns = cues) -/
def LW.byCue (w : LW R) : Nat → String → R := fun d c =>
  if d < w.outcomes.length ∧ w.cues.idxOf c < w.cues.length
  then w.vals.getD (d * w.cues.length + w.cues.idxOf c) 0 else 0

/-- … when both sides are addressed by position (real → real) -/
def LW.byPos (w : LW R) : Nat → Nat → R := fun d k =>
  if d < w.outcomes.length ∧ k < w.cues.length then w.vals.getD (d * w.cues.length + k) 0 else 0

/-- … when both sides are addressed by position THROUGH two label lists: cell
    `(d, k)` is `w` read at the labels `rows[d]`, `cols[k]` (real → real with
    `weights.loc[…]`: the given matrix re-aligned to the tables' dimensions) -/
def LW.atLabels (w : LW R) (rows cols : List String) : Nat → Nat → R := fun d k =>
  if d < rows.length ∧ k < cols.length then w.get (rows.getD d "") (cols.getD k "") else 0

/-- `weights=None` denotes all zeros -/
def optByOutcome : Option (LW R) → String → Nat → R
  | none => fun _ _ => 0
  | some w => w.byOutcome

def optByCue : Option (LW R) → Nat → String → R
  | none => fun _ _ => 0
  | some w => w.byCue

def optByPos : Option (LW R) → Nat → Nat → R
  | none => fun _ _ => 0
  | some w => w.byPos

/-- what a chain holds read through its labels (nothing yet: all zeros) -/
def optGet : Option (LW R) → String → String → R
  | none => fun _ _ => 0
  | some w => fun o c => w.get o c

end Model

variable {R : Type} [CommRing R]

/-! ## labelled matrices: names on one side, positions on the other -/

theorem LW.get_eq_byOutcome (w : LW R) (o c : String) :
    w.get o c = if c ∈ w.cues then w.byOutcome o (w.cues.idxOf c) else 0 := by
  unfold LW.get LW.byOutcome
  by_cases hc : c ∈ w.cues
  · rw [if_pos hc]
  · have : ¬ (w.cues.idxOf c < w.cues.length) := by rw [List.idxOf_lt_length_iff]; exact hc
    rw [if_neg hc, if_neg (fun h => this h.2)]

theorem LW.get_eq_byCue (w : LW R) (o c : String) :
    w.get o c = if o ∈ w.outcomes then w.byCue (w.outcomes.idxOf o) c else 0 := by
  unfold LW.get LW.byCue
  by_cases ho : o ∈ w.outcomes
  · rw [if_pos ho]
  · have : ¬ (w.outcomes.idxOf o < w.outcomes.length) := by rw [List.idxOf_lt_length_iff]; exact ho
    rw [if_neg ho, if_neg (fun h => this h.1)]

theorem LW.get_eq_byPos (w : LW R) (o c : String) :
    w.get o c = if o ∈ w.outcomes ∧ c ∈ w.cues then w.byPos (w.outcomes.idxOf o) (w.cues.idxOf c) else 0 := by
  unfold LW.get LW.byPos
  by_cases h : o ∈ w.outcomes ∧ c ∈ w.cues
  · rw [if_pos h]
  · have : ¬ (w.outcomes.idxOf o < w.outcomes.length ∧ w.cues.idxOf c < w.cues.length) := by
      rw [List.idxOf_lt_length_iff, List.idxOf_lt_length_iff]; exact h
    rw [if_neg h, if_neg this]

/-- with duplicate-free column labels, the row-by-name reading IS the reading
    through the labels: position `k` holds the weight of the `k`-th label -/
theorem LW.byOutcome_eq_get (w : LW R) (hn : w.cues.Nodup) (o : String) (k : Nat) (hk : k < w.cues.length) :
    w.byOutcome o k = w.get o w.cues[k] := by
  rw [LW.get_eq_byOutcome, if_pos (List.getElem_mem hk), List.Nodup.idxOf_getElem hn k hk]

theorem LW.byCue_eq_get (w : LW R) (hn : w.outcomes.Nodup) (d : Nat) (hd : d < w.outcomes.length) (c : String) :
    w.byCue d c = w.get w.outcomes[d] c := by
  rw [LW.get_eq_byCue, if_pos (List.getElem_mem hd), List.Nodup.idxOf_getElem hn d hd]

theorem LW.byPos_eq_get (w : LW R) (hno : w.outcomes.Nodup) (hnc : w.cues.Nodup) (d k : Nat)
    (hd : d < w.outcomes.length) (hk : k < w.cues.length) :
    w.byPos d k = w.get w.outcomes[d] w.cues[k] := by
  rw [LW.get_eq_byPos, if_pos ⟨List.getElem_mem hd, List.getElem_mem hk⟩,
    List.Nodup.idxOf_getElem hno d hd, List.Nodup.idxOf_getElem hnc k hk]

theorem LW.byOutcome_eq_rowFn (w : LW R) (o : String) (ho : o ∈ w.outcomes) :
    w.byOutcome o = rowFn w.cues.length w.vals (w.outcomes.idxOf o) := by
  funext k
  have hi : w.outcomes.idxOf o < w.outcomes.length := List.idxOf_lt_length_iff.mpr ho
  unfold LW.byOutcome rowFn flatIdx
  by_cases hk : k < w.cues.length
  · rw [if_pos ⟨hi, hk⟩, if_pos hk, Nat.mul_comm]
  · rw [if_neg (fun h => hk h.2), if_neg hk]

theorem LW.byOutcome_not_mem (w : LW R) (o : String) (ho : o ∉ w.outcomes) : w.byOutcome o = fun _ => 0 := by
  funext k
  have hi : ¬ (w.outcomes.idxOf o < w.outcomes.length) := by rw [List.idxOf_lt_length_iff]; exact ho
  unfold LW.byOutcome
  rw [if_neg (fun h => hi h.1)]

theorem LW.byPos_eq_rowFn (w : LW R) (d : Nat) (hd : d < w.outcomes.length) :
    w.byPos d = rowFn w.cues.length w.vals d := by
  funext k
  unfold LW.byPos rowFn flatIdx
  by_cases hk : k < w.cues.length
  · rw [if_pos ⟨hd, hk⟩, if_pos hk, Nat.mul_comm]
  · rw [if_neg (fun h => hk h.2), if_neg hk]

theorem LW.byCue_eq_rowFn (w : LW R) (d : Nat) (hd : d < w.outcomes.length) (c : String) (hc : c ∈ w.cues) :
    w.byCue d c = rowFn w.cues.length w.vals d (w.cues.idxOf c) := by
  have hj : w.cues.idxOf c < w.cues.length := List.idxOf_lt_length_iff.mpr hc
  unfold LW.byCue rowFn flatIdx
  rw [if_pos ⟨hd, hj⟩, if_pos hj, Nat.mul_comm]

theorem LW.byCue_not_mem (w : LW R) (d : Nat) (c : String) (hc : c ∉ w.cues) : w.byCue d c = 0 := by
  have hj : ¬ (w.cues.idxOf c < w.cues.length) := by rw [List.idxOf_lt_length_iff]; exact hc
  unfold LW.byCue
  rw [if_neg (fun h => hj h.2)]

/-! ## 1. the specifications started from given weights, and their append law -/

/-- Widrow–Hoff, real cue vectors → binary outcomes, ON NAMES, continued from
    the weight function `W` (outcome name → cue vector dimension → weight):
    the row of outcome `o` after the events `es`.  `whR2BSpec` is the case
    `W = 0` (`whR2BSpec_eq_from`). -/
def whR2BSpecFrom (β₁ β₂ lam : R) (ct : VecTable R) (W : String → Nat → R)
    (es : List (Event String String)) (o : String) : Nat → R :=
  es.foldl (fun r e => whRowReal ct.dims.length (tabInput ct e.cues)
    (fun a => if o ∈ e.outcomes then β₁ * (lam - a) else β₂ * (0 - a)) r) (W o)

/-- Widrow–Hoff, binary cues → real outcome vectors, ON NAMES, continued from
    `W` (outcome vector dimension → cue name → weight) -/
def whB2RSpecFrom (eta : R) (ot : VecTable R) (W : Nat → String → R)
    (es : List (Event String String)) (d : Nat) : String → R :=
  es.foldl (fun r e => fun c =>
    r c + (e.cues.count c : R) * (eta * (tabInput ot e.outcomes d - (e.cues.map r).sum))) (W d)

/-- Widrow–Hoff, real → real, ON NAMES, continued from `W` (outcome vector
    dimension → cue vector dimension → weight) -/
def whR2RSpecFrom (eta : R) (ct ot : VecTable R) (W : Nat → Nat → R)
    (es : List (Event String String)) (d : Nat) : Nat → R :=
  es.foldl (fun r e => whRowReal ct.dims.length (tabInput ct e.cues)
    (fun a => eta * (tabInput ot e.outcomes d - a)) r) (W d)

theorem whR2BSpec_eq_from (β₁ β₂ lam : R) (ct : VecTable R) (es : List (Event String String)) :
    whR2BSpec β₁ β₂ lam ct es = whR2BSpecFrom β₁ β₂ lam ct (fun _ _ => 0) es := rfl

theorem whB2RSpec_eq_from (eta : R) (ot : VecTable R) (es : List (Event String String)) :
    whB2RSpec eta ot es = whB2RSpecFrom eta ot (fun _ _ => 0) es := rfl

theorem whR2RSpec_eq_from (eta : R) (ct ot : VecTable R) (es : List (Event String String)) :
    whR2RSpec eta ct ot es = whR2RSpecFrom eta ct ot (fun _ _ => 0) es := rfl

theorem whR2BSpecFrom_nil (β₁ β₂ lam : R) (ct : VecTable R) (W : String → Nat → R) :
    whR2BSpecFrom β₁ β₂ lam ct W [] = W := rfl

theorem whB2RSpecFrom_nil (eta : R) (ot : VecTable R) (W : Nat → String → R) :
    whB2RSpecFrom eta ot W [] = W := rfl

theorem whR2RSpecFrom_nil (eta : R) (ct ot : VecTable R) (W : Nat → Nat → R) :
    whR2RSpecFrom eta ct ot W [] = W := rfl

/-- **append law (real → binary)**: learning `xs ++ ys` from `W` is learning `ys`
    from what learning `xs` from `W` gives -/
theorem whR2BSpecFrom_append (β₁ β₂ lam : R) (ct : VecTable R) (W : String → Nat → R)
    (xs ys : List (Event String String)) :
    whR2BSpecFrom β₁ β₂ lam ct W (xs ++ ys)
      = whR2BSpecFrom β₁ β₂ lam ct (whR2BSpecFrom β₁ β₂ lam ct W xs) ys := by
  funext o
  unfold whR2BSpecFrom
  rw [List.foldl_append]

/-- **append law (binary → real)** -/
theorem whB2RSpecFrom_append (eta : R) (ot : VecTable R) (W : Nat → String → R)
    (xs ys : List (Event String String)) :
    whB2RSpecFrom eta ot W (xs ++ ys) = whB2RSpecFrom eta ot (whB2RSpecFrom eta ot W xs) ys := by
  funext d
  unfold whB2RSpecFrom
  rw [List.foldl_append]

/-- **append law (real → real)** -/
theorem whR2RSpecFrom_append (eta : R) (ct ot : VecTable R) (W : Nat → Nat → R)
    (xs ys : List (Event String String)) :
    whR2RSpecFrom eta ct ot W (xs ++ ys) = whR2RSpecFrom eta ct ot (whR2RSpecFrom eta ct ot W xs) ys := by
  funext d
  unfold whR2RSpecFrom
  rw [List.foldl_append]

/-- learning piece after piece is learning the concatenation, any number of pieces -/
theorem whR2BSpecFrom_flatten (β₁ β₂ lam : R) (ct : VecTable R) (W : String → Nat → R)
    (pieces : List (List (Event String String))) :
    pieces.foldl (whR2BSpecFrom β₁ β₂ lam ct) W = whR2BSpecFrom β₁ β₂ lam ct W pieces.flatten := by
  induction pieces generalizing W with
  | nil => rfl
  | cons p ps ih => simp only [List.foldl_cons, List.flatten_cons, whR2BSpecFrom_append, ih]

theorem whB2RSpecFrom_flatten (eta : R) (ot : VecTable R) (W : Nat → String → R)
    (pieces : List (List (Event String String))) :
    pieces.foldl (whB2RSpecFrom eta ot) W = whB2RSpecFrom eta ot W pieces.flatten := by
  induction pieces generalizing W with
  | nil => rfl
  | cons p ps ih => simp only [List.foldl_cons, List.flatten_cons, whB2RSpecFrom_append, ih]

theorem whR2RSpecFrom_flatten (eta : R) (ct ot : VecTable R) (W : Nat → Nat → R)
    (pieces : List (List (Event String String))) :
    pieces.foldl (whR2RSpecFrom eta ct ot) W = whR2RSpecFrom eta ct ot W pieces.flatten := by
  induction pieces generalizing W with
  | nil => rfl
  | cons p ps ih => simp only [List.foldl_cons, List.flatten_cons, whR2RSpecFrom_append, ih]

/-- the row of `d` only depends on the given row of `d` (the rows are independent) -/
theorem whB2RSpecFrom_congr (eta : R) (ot : VecTable R) (W W' : Nat → String → R) (d : Nat) (h : W d = W' d)
    (es : List (Event String String)) : whB2RSpecFrom eta ot W es d = whB2RSpecFrom eta ot W' es d := by
  unfold whB2RSpecFrom
  rw [h]

theorem whR2RSpecFrom_congr (eta : R) (ct ot : VecTable R) (W W' : Nat → Nat → R) (d : Nat) (h : W d = W' d)
    (es : List (Event String String)) : whR2RSpecFrom eta ct ot W es d = whR2RSpecFrom eta ct ot W' es d := by
  unfold whR2RSpecFrom
  rw [h]

theorem whR2BSpecFrom_congr (β₁ β₂ lam : R) (ct : VecTable R) (W W' : String → Nat → R) (o : String)
    (h : W o = W' o) (es : List (Event String String)) :
    whR2BSpecFrom β₁ β₂ lam ct W es o = whR2BSpecFrom β₁ β₂ lam ct W' es o := by
  unfold whR2BSpecFrom
  rw [h]

/-- a zero row whose outcome never occurs stays zero under the real → binary rule -/
theorem whR2BSpecFrom_unseen (β₁ β₂ lam : R) (ct : VecTable R) (W : String → Nat → R)
    (es : List (Event String String)) (o : String) (hW : W o = fun _ => 0)
    (h : ∀ e ∈ es, o ∉ e.outcomes) : whR2BSpecFrom β₁ β₂ lam ct W es o = fun _ => 0 := by
  have := whR2BSpec_unseen β₁ β₂ lam ct es o h
  unfold whR2BSpec at this
  unfold whR2BSpecFrom
  rw [hW]
  exact this

/-- a cue that occurs in no event keeps its weight under the binary → real rule -/
theorem whB2RSpecFrom_unseen_cue (eta : R) (ot : VecTable R) (W : Nat → String → R)
    (es : List (Event String String)) (d : Nat) (c : String) (h : ∀ e ∈ es, c ∉ e.cues) :
    whB2RSpecFrom eta ot W es d c = W d c := by
  unfold whB2RSpecFrom
  have key : ∀ (es : List (Event String String)), (∀ e ∈ es, c ∉ e.cues) → ∀ (r : String → R),
      (es.foldl (fun r e => fun c =>
        r c + (e.cues.count c : R) * (eta * (tabInput ot e.outcomes d - (e.cues.map r).sum))) r) c = r c := by
    intro es
    induction es with
    | nil => intro _ r; rfl
    | cons e es ih =>
      intro h r
      simp only [List.foldl_cons]
      rw [ih (fun x hx => h x (by simp [hx]))]
      simp [List.count_eq_zero_of_not_mem (h e (by simp))]
  exact key es h _

/-! ## 2. continued learning: `wh.wh(weights = w)` -/

/-- `extendVals` of nothing is the zero matrix -/
theorem extendVals_zero_rows (old : Array R) (oldCols newRows newCols : Nat) :
    extendVals old 0 oldCols newRows newCols = Array.replicate (newRows * newCols) 0 := by
  unfold extendVals
  apply Array.ext
  · simp
  · intro i h1 h2
    simp

theorem extendVals_zero_cols (old : Array R) (oldRows newRows newCols : Nat) :
    extendVals old oldRows 0 newRows newCols = Array.replicate (newRows * newCols) 0 := by
  unfold extendVals
  apply Array.ext
  · simp
  · intro i h1 h2
    simp

theorem filter_not_contains_nil (l : List String) :
    l.filter (fun c => !([] : List String).contains c) = l := by
  simp

/-! ### the label checks of the given weights -/

theorem not_alignRaises_self (a : List String) : ¬ alignRaises a a := fun h => h.1 rfl

theorem not_alignRaises_nodup (a b : List String) (ha : a.Nodup) (hb : b.Nodup) : ¬ alignRaises a b :=
  fun h => h.2 ⟨ha, hb⟩

theorem locAxis_eq_none (old wanted : List String) (hn : old.Nodup) (hs : ∀ d ∈ wanted, d ∈ old) :
    locAxis old wanted = none := by
  unfold locAxis
  rw [if_neg (not_not.mpr hn)]
  have : wanted.any (fun d => !old.contains d) = false := by
    apply List.any_eq_false.mpr
    intro d hd
    simpa using hs d hd
  rw [this]
  rfl

theorem locAxis_dup (old wanted : List String) (hn : ¬ old.Nodup) : locAxis old wanted = some .other := by
  unfold locAxis
  rw [if_pos hn]

theorem locAxis_missing (old wanted : List String) (hn : old.Nodup) (hm : ∃ d ∈ wanted, d ∉ old) :
    locAxis old wanted = some .key := by
  unfold locAxis
  rw [if_neg (not_not.mpr hn)]
  have : wanted.any (fun d => !old.contains d) = true := by
    obtain ⟨d, hd, hdo⟩ := hm
    apply List.any_eq_true.mpr
    exact ⟨d, hd, by simpa using hdo⟩
  rw [this]
  rfl

theorem size_realignVals (w : LW R) (rows cols : List String) :
    (realignVals w rows cols).size = rows.length * cols.length := by
  simp [realignVals]

/-- cell `(i, j)` of the re-aligned array is `w` read at the labels `rows[i]`, `cols[j]` -/
theorem realignVals_get (w : LW R) (rows cols : List String) (i j : Nat)
    (hi : i < rows.length) (hj : j < cols.length) :
    (realignVals w rows cols).getD (i * cols.length + j) 0 = w.get (rows.getD i "") (cols.getD j "") := by
  unfold realignVals
  rw [getD_ofFn]
  have hk : i * cols.length + j < rows.length * cols.length := by
    calc i * cols.length + j < i * cols.length + cols.length := by omega
      _ = (i + 1) * cols.length := by ring
      _ ≤ rows.length * cols.length := Nat.mul_le_mul_right _ hi
  simp only [hk, dif_pos]
  have h1 : (i * cols.length + j) / cols.length = i := by
    rw [Nat.mul_comm, Nat.mul_add_div (by omega), Nat.div_eq_of_lt hj]; simp
  have h2 : (i * cols.length + j) % cols.length = j := by
    rw [Nat.mul_comm, Nat.mul_add_mod]; exact Nat.mod_eq_of_lt hj
  rw [h1, h2]

theorem rowFn_realignVals (w : LW R) (rows cols : List String) (d : Nat) (hd : d < rows.length) :
    rowFn cols.length (realignVals w rows cols) d = w.atLabels rows cols d := by
  funext k
  unfold rowFn flatIdx LW.atLabels
  by_cases hk : k < cols.length
  · rw [if_pos hk, if_pos ⟨hd, hk⟩, Nat.mul_comm, realignVals_get w rows cols d k hd hk]
  · rw [if_neg hk, if_neg (fun h => hk h.2)]

/-- read at its OWN (duplicate-free) labels a matrix is what it denotes by position -/
theorem LW.atLabels_self (w : LW R) (hno : w.outcomes.Nodup) (hnc : w.cues.Nodup) :
    w.atLabels w.outcomes w.cues = w.byPos := by
  funext d k
  unfold LW.atLabels
  by_cases h : d < w.outcomes.length ∧ k < w.cues.length
  · rw [if_pos h, LW.byPos_eq_get w hno hnc d k h.1 h.2]
    congr 1
    · simp [List.getD_eq_getElem?_getD, h.1]
    · simp [List.getD_eq_getElem?_getD, h.2]
  · rw [if_neg h]
    unfold LW.byPos
    rw [if_neg h]

/-! ### real cue vectors → binary outcomes -/

/-- the id-level recursion of the real → binary kernel is the name-level
    recursion, read through an outcome id map that contains all outcomes of
    the events -/
theorem whR2B_rename (β₁ β₂ lam : R) (ct : VecTable R) (outs : List String) (o : String) (ho : o ∈ outs)
    (es : List (Event String String)) (hos : ∀ e ∈ es, ∀ x ∈ e.outcomes, x ∈ outs) (r0 : Nat → R) :
    (es.map (toIds ct.names outs)).foldl (fun r e => whRowReal ct.dims.length
        (fun k => summedCue ct.vals ct.dims.length k e.cues)
        (fun a => if outs.idxOf o ∈ e.outcomes then β₁ * (lam - a) else β₂ * (0 - a)) r) r0
      = es.foldl (fun r e => whRowReal ct.dims.length (tabInput ct e.cues)
        (fun a => if o ∈ e.outcomes then β₁ * (lam - a) else β₂ * (0 - a)) r) r0 := by
  rw [List.foldl_map]
  refine foldl_congr_mem _ _ es ?_ _
  intro r e he
  have hmem : outs.idxOf o ∈ (toIds ct.names outs e).outcomes ↔ o ∈ e.outcomes :=
    mem_map_injOn (outs.idxOf ·) o e.outcomes
      (fun x hx hxo => idxOf_injOn _ x o (hos e he x hx) ho hxo)
  have hin : (fun k => summedCue ct.vals ct.dims.length k (toIds ct.names outs e).cues)
      = tabInput ct e.cues := by
    funext k; exact summedCue_map_idxOf ct e.cues k
  rw [hin]
  simp only [hmem]

/-- **continued `wh.wh`, real cue vectors → binary outcomes** (`_wh_real_to_binary`
    with `weights = w`), in the generality of the code: the column labels of `w`
    are NOT compared with the table's dimension labels.

    Hypotheses and their Python counterparts:
    * `hc : 1 ≤ chunk` — `n_outcomes_per_job ≥ 1`;
    * `htab` — every cue of every event is a row label of `cue_vectors`
      (else `ValueError`, `whModel_r2b_tableError`);
    * `hp` — the duplicate policy accepts the events;
    * `hlen : w.cues.length = ct.dims.length` — `w` has as many columns as the
      cue vectors have dimensions (else `np.concatenate` raises `ValueError`,
      `whModel_r2b_widthError`);
    * `hal : ¬ alignRaises ct.dims w.cues` — the xarray comparison
      `all(cue_vector_dimensions == weights['cue_vector_dimensions'])` does not
      raise: the two label lists are identical, or both are duplicate-free
      (else `ValueError`, `whModel_r2b_alignError`).
    Nothing else is assumed about the labels of `w` or the size of `w.vals`.

    Conclusion: the call succeeds; the row labels are the OLD outcomes in their
    old positions followed by the new outcomes of the events in counting order;
    the column labels are the cue vector dimensions OF THE TABLE; and the weight
    function the result denotes (`LW.byOutcome`: outcome name → dimension
    POSITION) is the specification continued from the weight function `w`
    denotes by position, on the policy-processed events — for every chunk size.
    The column labels of `w` occur nowhere in the conclusion. -/
theorem whModel_r2b_continue_pos (p : DupPolicy) (eta β₁ β₂ lam : R) (ct : VecTable R)
    (chunk : Nat) (hc : 1 ≤ chunk) (w : LW R) (es es' : List (Event String String))
    (htab : ∀ e ∈ es, ∀ c ∈ e.cues, c ∈ ct.names)
    (hp : applyPolicyAll p es = some es') (hlen : w.cues.length = ct.dims.length)
    (hal : ¬ alignRaises ct.dims w.cues) :
    ∃ r, whModel .r2b p eta β₁ β₂ lam (some ct) none chunk (some w) es = .ok r ∧
      r.outcomes = w.outcomes ++ (countNames es).2.filter (fun o => !w.outcomes.contains o) ∧
      r.cues = ct.dims ∧ r.vals.size = ct.dims.length * r.outcomes.length ∧
      r.byOutcome = whR2BSpecFrom β₁ β₂ lam ct w.byOutcome es' := by
  have hchk := (tableCheck_cues_iff ct.names es).mpr htab
  have hmem2 : ∀ e ∈ es, ∀ o ∈ e.outcomes, o ∈ (countNames es).2 := fun e he => (countNames_mem es e he).2
  rcases hcn : countNames es with ⟨cuesEv, outsEv⟩
  rw [hcn] at hchk hmem2
  simp only at hchk hmem2 ⊢
  set outs := w.outcomes ++ outsEv.filter (fun o => !w.outcomes.contains o) with houts
  have hos : ∀ e ∈ es, ∀ o ∈ e.outcomes, o ∈ outs := fun e he o ho =>
    mem_append_filter_new _ _ _ (hmem2 e he o ho)
  have hpid := applyPolicyIds_toIds p ct.names outs es es' htab hos hp
  have hes' := applyPolicyAll_outcomes p es es' hp (· ∈ outs) hos
  have hw0 : (extendVals w.vals w.outcomes.length ct.dims.length outs.length ct.dims.length).size
      = ct.dims.length * outs.length := by
    rw [size_extendVals, Nat.mul_comm]
  have hstep := whR2B_rowstep β₁ β₂ lam ct.vals ct.dims.length outs.length
  have hrow := fun i hi => learnOmpWith_row hstep [es'.map (toIds ct.names outs)] chunk hc
    (fun _ _ => trivial) _ hw0 i hi
  have hsize := learnOmpWith_size hstep [es'.map (toIds ct.names outs)] chunk hc (fun _ _ => trivial) _ hw0
  refine ⟨⟨outs, ct.dims, learnOmpWith
      (fun w ii e => whR2BRowEvent β₁ β₂ lam ct.vals ct.dims.length w ii e.cues e.outcomes)
      [es'.map (toIds ct.names outs)] (List.range outs.length) chunk
      (extendVals w.vals w.outcomes.length ct.dims.length outs.length ct.dims.length)⟩,
    ?_, rfl, rfl, hsize, ?_⟩
  · unfold whModel
    rw [hcn]
    have h2 : ¬ chunk < 1 := by omega
    simp only [hchk, hlen, hpid, h2, if_false, Bool.false_eq_true, ne_eq, not_true_eq_false, ← houts,
      if_neg hal]
  · funext o
    by_cases ho : o ∈ outs
    · have hi : outs.idxOf o < outs.length := List.idxOf_lt_length_iff.mpr ho
      rw [LW.byOutcome_eq_rowFn _ o ho]
      simp only
      rw [hrow _ hi]
      simp only [List.flatten_cons, List.flatten_nil, List.append_nil]
      rw [whR2B_rename β₁ β₂ lam ct outs o ho es' hes']
      unfold whR2BSpecFrom
      congr 1
      -- the extended initial array denotes the given weights
      funext k
      unfold rowFn flatIdx LW.byOutcome
      by_cases hk : k < ct.dims.length
      · rw [if_pos hk, Nat.mul_comm, extendVals_get _ _ _ _ _ _ _ hi hk, hlen]
        by_cases how : o ∈ w.outcomes
        · have e1 : outs.idxOf o = w.outcomes.idxOf o := idxOf_append_mem _ _ _ how
          rw [e1]
        · have l1 : ¬ (w.outcomes.idxOf o < w.outcomes.length) := by
            rw [List.idxOf_lt_length_iff]; exact how
          have g1 : ¬ (outs.idxOf o < w.outcomes.length) := by
            rw [houts, List.idxOf_append_of_notMem how]; omega
          rw [if_neg (fun h => g1 h.1), if_neg (fun h => l1 h.1)]
      · rw [if_neg hk, hlen, if_neg (fun h => hk h.2)]
    · have how : o ∉ w.outcomes := fun h => ho (List.mem_append_left _ h)
      rw [LW.byOutcome_not_mem _ o ho,
        whR2BSpecFrom_unseen β₁ β₂ lam ct _ es' o (LW.byOutcome_not_mem w o how)
          (fun e he hoe => ho (hes' e he o hoe))]

/-- **continued `wh.wh`, real → binary, given weights labelled like the table**
    (`hlab : w.cues = ct.dims`; the case of chains): the corollary of
    `whModel_r2b_continue_pos` in which position = label. -/
theorem whModel_r2b_continue (p : DupPolicy) (eta β₁ β₂ lam : R) (ct : VecTable R)
    (chunk : Nat) (hc : 1 ≤ chunk) (w : LW R) (es es' : List (Event String String))
    (htab : ∀ e ∈ es, ∀ c ∈ e.cues, c ∈ ct.names)
    (hp : applyPolicyAll p es = some es') (hlab : w.cues = ct.dims) :
    ∃ r, whModel .r2b p eta β₁ β₂ lam (some ct) none chunk (some w) es = .ok r ∧
      r.outcomes = w.outcomes ++ (countNames es).2.filter (fun o => !w.outcomes.contains o) ∧
      r.cues = ct.dims ∧ r.vals.size = ct.dims.length * r.outcomes.length ∧
      r.byOutcome = whR2BSpecFrom β₁ β₂ lam ct w.byOutcome es' :=
  whModel_r2b_continue_pos p eta β₁ β₂ lam ct chunk hc w es es' htab hp (by rw [hlab])
    (fun h => h.1 hlab.symm)

/-- **real → binary IGNORES the column labels of the given weights**: a call with
    `weights = w` behaves exactly (same result or same error) like the call with
    the same values labelled with the table's dimensions, whenever `w` has the
    right number of columns and the label comparison does not raise. -/
theorem whModel_r2b_labels_ignored (p : DupPolicy) (eta β₁ β₂ lam : R) (ct : VecTable R)
    (chunk : Nat) (w : LW R) (es : List (Event String String))
    (hlen : w.cues.length = ct.dims.length) (hal : ¬ alignRaises ct.dims w.cues) :
    whModel .r2b p eta β₁ β₂ lam (some ct) none chunk (some w) es
      = whModel .r2b p eta β₁ β₂ lam (some ct) none chunk (some ⟨w.outcomes, ct.dims, w.vals⟩) es := by
  rcases hcn : countNames es with ⟨cuesEv, outsEv⟩
  unfold whModel
  rw [hcn]
  simp only [hlen, if_neg hal, if_neg (not_alignRaises_self ct.dims), ne_eq, not_true_eq_false, if_false]

/-- the given weights read through the labels of the result: every (outcome
    name, cue dimension label) holds the specification continued from `w` -/
theorem whModel_r2b_continue_get (p : DupPolicy) (eta β₁ β₂ lam : R) (ct : VecTable R)
    (chunk : Nat) (hc : 1 ≤ chunk) (w : LW R) (es es' : List (Event String String))
    (htab : ∀ e ∈ es, ∀ c ∈ e.cues, c ∈ ct.names)
    (hp : applyPolicyAll p es = some es') (hlab : w.cues = ct.dims) :
    ∃ r, whModel .r2b p eta β₁ β₂ lam (some ct) none chunk (some w) es = .ok r ∧
      ∀ o d, r.get o d = if d ∈ ct.dims
        then whR2BSpecFrom β₁ β₂ lam ct w.byOutcome es' o (ct.dims.idxOf d) else 0 := by
  obtain ⟨r, h1, _, h3, _, h5⟩ := whModel_r2b_continue p eta β₁ β₂ lam ct chunk hc w es es' htab hp hlab
  refine ⟨r, h1, ?_⟩
  intro o d
  rw [LW.get_eq_byOutcome, h3, h5]

/-- **wrong NUMBER of columns ⇒ `ValueError`** (real → binary): `np.concatenate`
    of the given values with the zero rows of the new outcomes (wh.py 635) needs
    equal widths.  (REPLACES `whModel_r2b_labelError`, which claimed `ValueError`
    for every `w.cues ≠ ct.dims` and was FALSE about the code: wh.py 627 compares
    label-aligned and never rejects.) -/
theorem whModel_r2b_widthError (p : DupPolicy) (eta β₁ β₂ lam : R) (ct : VecTable R)
    (chunk : Nat) (w : LW R) (es : List (Event String String)) (hlen : w.cues.length ≠ ct.dims.length) :
    whModel .r2b p eta β₁ β₂ lam (some ct) none chunk (some w) es = .error .value := by
  rcases hcn : countNames es with ⟨cuesEv, outsEv⟩
  unfold whModel
  rw [hcn]
  simp only
  split
  · rfl
  · by_cases hal : alignRaises ct.dims w.cues
    · simp only [hal, if_true]
    · simp only [hal, if_false, ne_eq, hlen, not_false_eq_true, if_true]

/-- **the label comparison itself raises ⇒ `ValueError`** (real → binary): the
    label lists differ and one of them repeats a label (xarray cannot align) -/
theorem whModel_r2b_alignError (p : DupPolicy) (eta β₁ β₂ lam : R) (ct : VecTable R)
    (chunk : Nat) (w : LW R) (es : List (Event String String)) (hal : alignRaises ct.dims w.cues) :
    whModel .r2b p eta β₁ β₂ lam (some ct) none chunk (some w) es = .error .value := by
  rcases hcn : countNames es with ⟨cuesEv, outsEv⟩
  unfold whModel
  rw [hcn]
  simp only
  split
  · rfl
  · simp only [hal, if_true]

/-- **from scratch = continued from the empty matrix** (real → binary): `weights=None`
    behaves like a matrix with no rows whose columns are the cue vector dimensions -/
theorem whModel_r2b_none (p : DupPolicy) (eta β₁ β₂ lam : R) (ct : VecTable R)
    (chunk : Nat) (es : List (Event String String)) :
    whModel .r2b p eta β₁ β₂ lam (some ct) none chunk none es
      = whModel .r2b p eta β₁ β₂ lam (some ct) none chunk (some ⟨[], ct.dims, #[]⟩) es := by
  rcases hcn : countNames es with ⟨cuesEv, outsEv⟩
  unfold whModel
  rw [hcn]
  simp only [ne_eq, not_true_eq_false, if_false, List.nil_append, filter_not_contains_nil,
    List.length_nil, extendVals_zero_rows, if_neg (not_alignRaises_self ct.dims)]

theorem byOutcome_empty (dims : List String) : (⟨[], dims, #[]⟩ : LW R).byOutcome = fun _ _ => 0 := by
  funext o
  exact LW.byOutcome_not_mem _ o (List.not_mem_nil)

/-- **one call of a chain (real → binary)**, from nothing (`none`) or from given
    weights whose column labels are the cue vector dimensions -/
theorem whModel_r2b_step (p : DupPolicy) (eta β₁ β₂ lam : R) (ct : VecTable R)
    (chunk : Nat) (hc : 1 ≤ chunk) (s : Option (LW R)) (hs : ∀ w, s = some w → w.cues = ct.dims)
    (es es' : List (Event String String)) (htab : ∀ e ∈ es, ∀ c ∈ e.cues, c ∈ ct.names)
    (hp : applyPolicyAll p es = some es') :
    ∃ r, whModel .r2b p eta β₁ β₂ lam (some ct) none chunk s es = .ok r ∧ r.cues = ct.dims ∧
      r.byOutcome = whR2BSpecFrom β₁ β₂ lam ct (optByOutcome s) es' := by
  cases s with
  | none =>
    obtain ⟨r, h1, _, h3, _, h5⟩ := whModel_r2b_continue p eta β₁ β₂ lam ct chunk hc
      ⟨[], ct.dims, #[]⟩ es es' htab hp rfl
    refine ⟨r, ?_, h3, ?_⟩
    · rw [whModel_r2b_none]; exact h1
    · rw [h5, byOutcome_empty]; rfl
  | some w =>
    obtain ⟨r, h1, _, h3, _, h5⟩ := whModel_r2b_continue p eta β₁ β₂ lam ct chunk hc w es es' htab hp
      (hs w rfl)
    exact ⟨r, h1, h3, h5⟩

/-! ### binary cues → real outcome vectors -/

/-- **continued `wh.wh`, binary cues → real outcome vectors** (`_wh_binary_to_real`
    with `weights = w`).

    Hypotheses and their Python counterparts:
    * `hc : 1 ≤ chunk` — `n_outcomes_per_job ≥ 1`;
    * `htabo` — every outcome of every event is a row label of `outcome_vectors`
      (else `ValueError`, `whModel_b2r_tableError`);
    * `hp` — the duplicate policy accepts the events;
    * `hlab : w.outcomes = ot.dims` — the row labels of the given weights are the
      outcome vector dimensions of the table, in the same order (wh.py: "outcome
      dimensions in weights need to match dimensions in outcome_vectors" /
      "Outcome vector dimensions in weights and outcome_vectors do not match!"
      otherwise, see `whModel_b2r_labelError`).
    Nothing is assumed about the cue labels or the size of `w.vals`.

    Conclusion: the call succeeds; the row labels are the outcome vector
    dimensions; the column labels are the OLD cues in their old positions
    followed by the new cues of the events in counting order; and for every
    outcome vector dimension `d` the row the result denotes (`LW.byCue`:
    dimension position → cue name) is the specification continued from the
    weight function `w` denotes, on the policy-processed events — at EVERY cue
    name, for every chunk size. -/
theorem whModel_b2r_continue (p : DupPolicy) (eta β₁ β₂ lam : R) (ot : VecTable R)
    (chunk : Nat) (hc : 1 ≤ chunk) (w : LW R) (es es' : List (Event String String))
    (htabo : ∀ e ∈ es, ∀ o ∈ e.outcomes, o ∈ ot.names)
    (hp : applyPolicyAll p es = some es') (hlab : w.outcomes = ot.dims) :
    ∃ r, whModel .b2r p eta β₁ β₂ lam none (some ot) chunk (some w) es = .ok r ∧
      r.outcomes = ot.dims ∧
      r.cues = w.cues ++ (countNames es).1.filter (fun c => !w.cues.contains c) ∧
      r.vals.size = r.cues.length * ot.dims.length ∧
      ∀ d, d < ot.dims.length → r.byCue d = whB2RSpecFrom eta ot w.byCue es' d := by
  have hchko := (tableCheck_outcomes_iff ot.names es).mpr htabo
  have hmem1 : ∀ e ∈ es, ∀ c ∈ e.cues, c ∈ (countNames es).1 := fun e he => (countNames_mem es e he).1
  rcases hcn : countNames es with ⟨cuesEv, outsEv⟩
  rw [hcn] at hchko hmem1
  simp only at hchko hmem1 ⊢
  have hlen : w.outcomes.length = ot.dims.length := by rw [hlab]
  set cues := w.cues ++ cuesEv.filter (fun c => !w.cues.contains c) with hcues
  have hcs : ∀ e ∈ es, ∀ c ∈ e.cues, c ∈ cues := fun e he c hc =>
    mem_append_filter_new _ _ _ (hmem1 e he c hc)
  have hpid := applyPolicyIds_toIds p cues ot.names es es' hcs htabo hp
  have hes' := applyPolicyAll_cues p es es' hp (· ∈ cues) hcs
  have hw0 : (extendVals w.vals ot.dims.length w.cues.length ot.dims.length cues.length).size
      = cues.length * ot.dims.length := by
    rw [size_extendVals, Nat.mul_comm]
  have hev : ∀ e ∈ [es'.map (toIds cues ot.names)].flatten, ∀ c ∈ e.cues, c < cues.length := by
    intro e he c hc
    simp only [List.flatten_cons, List.flatten_nil, List.append_nil] at he
    obtain ⟨e0, he0, rfl⟩ := List.mem_map.mp he
    obtain ⟨c0, hc0, rfl⟩ := List.mem_map.mp hc
    exact List.idxOf_lt_length_iff.mpr (hes' e0 he0 c0 hc0)
  have hstep := whB2R_rowstep eta ot.vals ot.dims.length cues.length
  have hrow := fun i hi => learnOmpWith_row hstep [es'.map (toIds cues ot.names)] chunk hc hev _ hw0 i hi
  have hsize := learnOmpWith_size hstep [es'.map (toIds cues ot.names)] chunk hc hev _ hw0
  refine ⟨⟨ot.dims, cues, learnOmpWith
      (fun w d e => whB2RRowEvent eta ot.vals ot.dims.length cues.length w d e.cues e.outcomes)
      [es'.map (toIds cues ot.names)] (List.range ot.dims.length) chunk
      (extendVals w.vals ot.dims.length w.cues.length ot.dims.length cues.length)⟩,
    ?_, rfl, rfl, hsize, ?_⟩
  · unfold whModel
    rw [hcn]
    have h2 : ¬ chunk < 1 := by omega
    simp only [hchko, hlab, hpid, h2, if_false, Bool.false_eq_true, ne_eq, not_true_eq_false, ← hcues]
  · intro d hd
    funext c
    by_cases hcm : c ∈ cues
    · rw [LW.byCue_eq_rowFn _ d hd c hcm]
      simp only
      rw [hrow _ hd]
      simp only [List.flatten_cons, List.flatten_nil, List.append_nil]
      unfold whB2RSpecFrom
      refine whB2R_rename eta ot cues d es' hes' _ _ ?_ c hcm
      -- the extended initial array denotes the given weights
      intro x hx
      have hj : cues.idxOf x < cues.length := List.idxOf_lt_length_iff.mpr hx
      unfold rowFn flatIdx LW.byCue
      rw [if_pos hj, Nat.mul_comm, extendVals_get _ _ _ _ _ _ _ hd hj, hlen]
      by_cases hxw : x ∈ w.cues
      · have e1 : cues.idxOf x = w.cues.idxOf x := idxOf_append_mem _ _ _ hxw
        rw [e1]
      · have l1 : ¬ (w.cues.idxOf x < w.cues.length) := by
          rw [List.idxOf_lt_length_iff]; exact hxw
        have g1 : ¬ (cues.idxOf x < w.cues.length) := by
          rw [hcues, List.idxOf_append_of_notMem hxw]; omega
        rw [if_neg (fun h => g1 h.2), if_neg (fun h => l1 h.2)]
    · have hcw : c ∉ w.cues := fun h => hcm (List.mem_append_left _ h)
      rw [LW.byCue_not_mem _ d c hcm,
        whB2RSpecFrom_unseen_cue eta ot _ es' d c (fun e he hce => hcm (hes' e he c hce)),
        LW.byCue_not_mem w d c hcw]

/-- the result read through its labels: every (outcome dimension label, cue
    name) holds the specification continued from `w` -/
theorem whModel_b2r_continue_get (p : DupPolicy) (eta β₁ β₂ lam : R) (ot : VecTable R)
    (chunk : Nat) (hc : 1 ≤ chunk) (w : LW R) (es es' : List (Event String String))
    (htabo : ∀ e ∈ es, ∀ o ∈ e.outcomes, o ∈ ot.names)
    (hp : applyPolicyAll p es = some es') (hlab : w.outcomes = ot.dims) :
    ∃ r, whModel .b2r p eta β₁ β₂ lam none (some ot) chunk (some w) es = .ok r ∧
      ∀ dl c, r.get dl c = if dl ∈ ot.dims
        then whB2RSpecFrom eta ot w.byCue es' (ot.dims.idxOf dl) c else 0 := by
  obtain ⟨r, h1, h2, _, _, h5⟩ := whModel_b2r_continue p eta β₁ β₂ lam ot chunk hc w es es' htabo hp hlab
  refine ⟨r, h1, ?_⟩
  intro dl c
  rw [LW.get_eq_byCue, h2]
  by_cases hd : dl ∈ ot.dims
  · rw [if_pos hd, if_pos hd, h5 _ (List.idxOf_lt_length_iff.mpr hd)]
  · rw [if_neg hd, if_neg hd]

/-- **wrong real-side labels ⇒ `ValueError`** (binary → real): the row labels of
    the given weights are not the outcome vector dimensions of the table -/
theorem whModel_b2r_labelError (p : DupPolicy) (eta β₁ β₂ lam : R) (ot : VecTable R)
    (chunk : Nat) (w : LW R) (es : List (Event String String)) (hlab : w.outcomes ≠ ot.dims) :
    whModel .b2r p eta β₁ β₂ lam none (some ot) chunk (some w) es = .error .value := by
  rcases hcn : countNames es with ⟨cuesEv, outsEv⟩
  unfold whModel
  rw [hcn]
  simp only
  split
  · rfl
  · by_cases hl : w.outcomes.length = ot.dims.length
    · simp only [ne_eq, hl, not_true_eq_false, if_false, hlab, not_false_eq_true, if_true]
    · simp only [ne_eq, hl, not_false_eq_true, if_true]

/-- **from scratch = continued from the empty matrix** (binary → real) -/
theorem whModel_b2r_none (p : DupPolicy) (eta β₁ β₂ lam : R) (ot : VecTable R)
    (chunk : Nat) (es : List (Event String String)) :
    whModel .b2r p eta β₁ β₂ lam none (some ot) chunk none es
      = whModel .b2r p eta β₁ β₂ lam none (some ot) chunk (some ⟨ot.dims, [], #[]⟩) es := by
  rcases hcn : countNames es with ⟨cuesEv, outsEv⟩
  unfold whModel
  rw [hcn]
  simp only [ne_eq, not_true_eq_false, if_false, List.nil_append, filter_not_contains_nil,
    List.length_nil, extendVals_zero_cols]

theorem byCue_empty (dims : List String) : (⟨dims, [], #[]⟩ : LW R).byCue = fun _ _ => 0 := by
  funext d c
  exact LW.byCue_not_mem _ d c (List.not_mem_nil)

/-- **one call of a chain (binary → real)** -/
theorem whModel_b2r_step (p : DupPolicy) (eta β₁ β₂ lam : R) (ot : VecTable R)
    (chunk : Nat) (hc : 1 ≤ chunk) (s : Option (LW R)) (hs : ∀ w, s = some w → w.outcomes = ot.dims)
    (es es' : List (Event String String)) (htabo : ∀ e ∈ es, ∀ o ∈ e.outcomes, o ∈ ot.names)
    (hp : applyPolicyAll p es = some es') :
    ∃ r, whModel .b2r p eta β₁ β₂ lam none (some ot) chunk s es = .ok r ∧ r.outcomes = ot.dims ∧
      ∀ d, d < ot.dims.length → r.byCue d = whB2RSpecFrom eta ot (optByCue s) es' d := by
  cases s with
  | none =>
    obtain ⟨r, h1, h2, _, _, h5⟩ := whModel_b2r_continue p eta β₁ β₂ lam ot chunk hc
      ⟨ot.dims, [], #[]⟩ es es' htabo hp rfl
    refine ⟨r, ?_, h2, ?_⟩
    · rw [whModel_b2r_none]; exact h1
    · intro d hd
      rw [h5 d hd, byCue_empty]; rfl
  | some w =>
    obtain ⟨r, h1, h2, _, _, h5⟩ := whModel_b2r_continue p eta β₁ β₂ lam ot chunk hc w es es' htabo hp
      (hs w rfl)
    exact ⟨r, h1, h2, h5⟩

/-! ### real cue vectors → real outcome vectors -/

theorem whR2R_rename (eta : R) (ct ot : VecTable R) (d : Nat) (es : List (Event String String))
    (r0 : Nat → R) :
    (es.map (toIds ct.names ot.names)).foldl (fun r e => whRowReal ct.dims.length
        (fun k => summedCue ct.vals ct.dims.length k e.cues)
        (fun a => eta * (summedOut ot.vals ot.dims.length d e.outcomes - a)) r) r0
      = es.foldl (fun r e => whRowReal ct.dims.length (tabInput ct e.cues)
        (fun a => eta * (tabInput ot e.outcomes d - a)) r) r0 := by
  rw [List.foldl_map]
  refine foldl_congr_mem _ _ es ?_ _
  intro r e he
  have hin : (fun k => summedCue ct.vals ct.dims.length k (toIds ct.names ot.names e).cues)
      = tabInput ct e.cues := by
    funext k; exact summedCue_map_idxOf ct e.cues k
  have hout : summedOut ot.vals ot.dims.length d (toIds ct.names ot.names e).outcomes
      = tabInput ot e.outcomes d := summedOut_map_idxOf ot e.outcomes d
  rw [hin, hout]

/-- **continued `wh.wh`, real → real** (`_wh_real_to_real` with `weights = w`), in
    the generality of the code: the given weights are SELECTED BY LABEL
    (`weights.loc[…]`, wh.py 834), so any permutation of the tables' dimension
    labels is accepted and re-aligned.

    Hypotheses and their Python counterparts:
    * `hc : 1 ≤ chunk` — `n_outcomes_per_job ≥ 1`;
    * `htabc`, `htabo` — every cue / outcome of every event is a row label of
      `cue_vectors` / `outcome_vectors` (else `ValueError`, `whModel_r2r_tableError`);
    * `hp` — the duplicate policy accepts the events;
    * `hpo : w.outcomes.Perm ot.dims`, `hpc : w.cues.Perm ct.dims` — the labels of
      the given weights are the vector dimensions of the two tables, in ANY
      order (a different number ⇒ `ValueError`, `whModel_r2r_shapeError`; a
      table dimension `w` lacks ⇒ `KeyError`, `whModel_r2r_keyError`);
    * `hno`, `hnc` — the dimension labels of the tables are distinct (identical
      label lists with a repeated label ⇒ pandas `InvalidIndexError`,
      `whModel_r2r_dupError`; different ones ⇒ `ValueError`, `whModel_r2r_alignError`).
    Nothing is assumed about the size of `w.vals` (cells outside the array read
    0, as in `LW.get`; the selection allocates a new array).

    Conclusion: the call succeeds, the result is labelled with the TABLES'
    dimensions in the tables' order, and for every outcome vector dimension `d`
    the row the result denotes (`LW.byPos`) is the specification continued from
    the given weights READ AT THE LABELS (`LW.atLabels`: cell `(d, k)` =
    `w.get ot.dims[d] ct.dims[k]`), on the policy-processed events — for every
    chunk size. -/
theorem whModel_r2r_continue_perm (p : DupPolicy) (eta β₁ β₂ lam : R) (ct ot : VecTable R)
    (chunk : Nat) (hc : 1 ≤ chunk) (w : LW R) (es es' : List (Event String String))
    (htabc : ∀ e ∈ es, ∀ c ∈ e.cues, c ∈ ct.names)
    (htabo : ∀ e ∈ es, ∀ o ∈ e.outcomes, o ∈ ot.names)
    (hp : applyPolicyAll p es = some es')
    (hpo : w.outcomes.Perm ot.dims) (hpc : w.cues.Perm ct.dims)
    (hno : ot.dims.Nodup) (hnc : ct.dims.Nodup) :
    ∃ r, whModel .r2r p eta β₁ β₂ lam (some ct) (some ot) chunk (some w) es = .ok r ∧
      r.outcomes = ot.dims ∧ r.cues = ct.dims ∧
      r.vals.size = r.outcomes.length * r.cues.length ∧
      ∀ d, d < ot.dims.length →
        r.byPos d = whR2RSpecFrom eta ct ot (w.atLabels ot.dims ct.dims) es' d := by
  have hchkc := (tableCheck_cues_iff ct.names es).mpr htabc
  have hchko := (tableCheck_outcomes_iff ot.names es).mpr htabo
  rcases hcn : countNames es with ⟨cuesEv, outsEv⟩
  rw [hcn] at hchkc hchko
  simp only at hchkc hchko
  have hleno : w.outcomes.length = ot.dims.length := hpo.length_eq
  have hlenc : w.cues.length = ct.dims.length := hpc.length_eq
  have hwno : w.outcomes.Nodup := hpo.nodup_iff.mpr hno
  have hwnc : w.cues.Nodup := hpc.nodup_iff.mpr hnc
  have hal1 : ¬ alignRaises ot.dims w.outcomes := not_alignRaises_nodup _ _ hno hwno
  have hal2 : ¬ alignRaises ct.dims w.cues := not_alignRaises_nodup _ _ hnc hwnc
  have hloc1 : locAxis w.outcomes ot.dims = none :=
    locAxis_eq_none _ _ hwno (fun d hd => hpo.mem_iff.mpr hd)
  have hloc2 : locAxis w.cues ct.dims = none :=
    locAxis_eq_none _ _ hwnc (fun d hd => hpc.mem_iff.mpr hd)
  have hpid := applyPolicyIds_toIds p ct.names ot.names es es' htabc htabo hp
  have hw0 : (realignVals w ot.dims ct.dims).size = ct.dims.length * ot.dims.length := by
    rw [size_realignVals, Nat.mul_comm]
  have hstep := whR2R_rowstep eta ct.vals ot.vals ct.dims.length ot.dims.length
  have hrow := fun i hi => learnOmpWith_row hstep [es'.map (toIds ct.names ot.names)] chunk hc
    (fun _ _ => trivial) _ hw0 i hi
  have hsize := learnOmpWith_size hstep [es'.map (toIds ct.names ot.names)] chunk hc
    (fun _ _ => trivial) _ hw0
  refine ⟨⟨ot.dims, ct.dims, learnOmpWith
      (fun w d e => whR2RRowEvent eta ct.vals ot.vals ct.dims.length ot.dims.length w d e.cues e.outcomes)
      [es'.map (toIds ct.names ot.names)] (List.range ot.dims.length) chunk
      (realignVals w ot.dims ct.dims)⟩,
    ?_, rfl, rfl, ?_, ?_⟩
  · unfold whModel
    rw [hcn]
    have h2 : ¬ chunk < 1 := by omega
    simp only [hchkc, hchko, hleno, hlenc, hpid, h2, if_false, Bool.false_eq_true, ne_eq,
      not_true_eq_false, or_self, if_neg hal1, if_neg hal2, hloc1, hloc2]
  · simp only
    rw [hsize, Nat.mul_comm]
  · intro d hd
    rw [LW.byPos_eq_rowFn _ d hd]
    simp only
    rw [hrow _ hd]
    simp only [List.flatten_cons, List.flatten_nil, List.append_nil]
    rw [whR2R_rename eta ct ot d es']
    unfold whR2RSpecFrom
    rw [rowFn_realignVals w ot.dims ct.dims d hd]

/-- … read through the labels of the result, at EVERY pair of labels -/
theorem whModel_r2r_continue_perm_get (p : DupPolicy) (eta β₁ β₂ lam : R) (ct ot : VecTable R)
    (chunk : Nat) (hc : 1 ≤ chunk) (w : LW R) (es es' : List (Event String String))
    (htabc : ∀ e ∈ es, ∀ c ∈ e.cues, c ∈ ct.names)
    (htabo : ∀ e ∈ es, ∀ o ∈ e.outcomes, o ∈ ot.names)
    (hp : applyPolicyAll p es = some es')
    (hpo : w.outcomes.Perm ot.dims) (hpc : w.cues.Perm ct.dims)
    (hno : ot.dims.Nodup) (hnc : ct.dims.Nodup) :
    ∃ r, whModel .r2r p eta β₁ β₂ lam (some ct) (some ot) chunk (some w) es = .ok r ∧
      ∀ dlo dlc, r.get dlo dlc = if dlo ∈ ot.dims ∧ dlc ∈ ct.dims
        then whR2RSpecFrom eta ct ot (w.atLabels ot.dims ct.dims) es'
          (ot.dims.idxOf dlo) (ct.dims.idxOf dlc) else 0 := by
  obtain ⟨r, h1, h2, h3, _, h5⟩ :=
    whModel_r2r_continue_perm p eta β₁ β₂ lam ct ot chunk hc w es es' htabc htabo hp hpo hpc hno hnc
  refine ⟨r, h1, ?_⟩
  intro dlo dlc
  rw [LW.get_eq_byPos, h2, h3]
  by_cases hd : dlo ∈ ot.dims ∧ dlc ∈ ct.dims
  · rw [if_pos hd, if_pos hd, h5 _ (List.idxOf_lt_length_iff.mpr hd.1)]
  · rw [if_neg hd, if_neg hd]

/-- **continued `wh.wh`, real → real, given weights labelled like the tables**
    (`hlo`, `hlc`: identical label lists, the case of chains): the corollary of
    `whModel_r2r_continue_perm` in which position = label.  `hno`, `hnc`
    (distinct dimension labels) are needed: with a repeated label the code's
    label-based selection raises (`whModel_r2r_dupError`).  The former
    hypothesis `w.vals.size = rows * cols` is no longer needed (the selection
    allocates a new array). -/
theorem whModel_r2r_continue (p : DupPolicy) (eta β₁ β₂ lam : R) (ct ot : VecTable R)
    (chunk : Nat) (hc : 1 ≤ chunk) (w : LW R) (es es' : List (Event String String))
    (htabc : ∀ e ∈ es, ∀ c ∈ e.cues, c ∈ ct.names)
    (htabo : ∀ e ∈ es, ∀ o ∈ e.outcomes, o ∈ ot.names)
    (hp : applyPolicyAll p es = some es') (hlo : w.outcomes = ot.dims) (hlc : w.cues = ct.dims)
    (hno : ot.dims.Nodup) (hnc : ct.dims.Nodup) :
    ∃ r, whModel .r2r p eta β₁ β₂ lam (some ct) (some ot) chunk (some w) es = .ok r ∧
      r.outcomes = ot.dims ∧ r.cues = ct.dims ∧
      r.vals.size = r.outcomes.length * r.cues.length ∧
      ∀ d, d < ot.dims.length → r.byPos d = whR2RSpecFrom eta ct ot w.byPos es' d := by
  obtain ⟨r, h1, h2, h3, h4, h5⟩ := whModel_r2r_continue_perm p eta β₁ β₂ lam ct ot chunk hc w es es'
    htabc htabo hp (hlo ▸ List.Perm.refl _) (hlc ▸ List.Perm.refl _) hno hnc
  refine ⟨r, h1, h2, h3, h4, ?_⟩
  intro d hd
  rw [h5 d hd, ← hlo, ← hlc, LW.atLabels_self w (hlo ▸ hno) (hlc ▸ hnc)]

/-- the result read through its labels -/
theorem whModel_r2r_continue_get (p : DupPolicy) (eta β₁ β₂ lam : R) (ct ot : VecTable R)
    (chunk : Nat) (hc : 1 ≤ chunk) (w : LW R) (es es' : List (Event String String))
    (htabc : ∀ e ∈ es, ∀ c ∈ e.cues, c ∈ ct.names)
    (htabo : ∀ e ∈ es, ∀ o ∈ e.outcomes, o ∈ ot.names)
    (hp : applyPolicyAll p es = some es') (hlo : w.outcomes = ot.dims) (hlc : w.cues = ct.dims)
    (hno : ot.dims.Nodup) (hnc : ct.dims.Nodup) :
    ∃ r, whModel .r2r p eta β₁ β₂ lam (some ct) (some ot) chunk (some w) es = .ok r ∧
      ∀ dlo dlc, r.get dlo dlc = if dlo ∈ ot.dims ∧ dlc ∈ ct.dims
        then whR2RSpecFrom eta ct ot w.byPos es' (ot.dims.idxOf dlo) (ct.dims.idxOf dlc) else 0 := by
  obtain ⟨r, h1, h2, h3, _, h5⟩ :=
    whModel_r2r_continue p eta β₁ β₂ lam ct ot chunk hc w es es' htabc htabo hp hlo hlc hno hnc
  refine ⟨r, h1, ?_⟩
  intro dlo dlc
  rw [LW.get_eq_byPos, h2, h3]
  by_cases hd : dlo ∈ ot.dims ∧ dlc ∈ ct.dims
  · rw [if_pos hd, if_pos hd, h5 _ (List.idxOf_lt_length_iff.mpr hd.1)]
  · rw [if_neg hd, if_neg hd]

/-- **wrong SHAPE ⇒ `ValueError`** (real → real): `weights.shape == shape` (wh.py 826).
    (Together with the next three theorems this REPLACES `whModel_r2r_labelError`,
    which claimed `ValueError` for every label mismatch and was FALSE about the
    code: permuted labels are re-aligned, missing ones raise `KeyError`.) -/
theorem whModel_r2r_shapeError (p : DupPolicy) (eta β₁ β₂ lam : R) (ct ot : VecTable R)
    (chunk : Nat) (w : LW R) (es : List (Event String String))
    (hsh : w.outcomes.length ≠ ot.dims.length ∨ w.cues.length ≠ ct.dims.length) :
    whModel .r2r p eta β₁ β₂ lam (some ct) (some ot) chunk (some w) es = .error .value := by
  rcases hcn : countNames es with ⟨cuesEv, outsEv⟩
  unfold whModel
  rw [hcn]
  simp only
  split
  · rfl
  · split
    · rfl
    · simp only [hsh, if_true]

/-- **a label comparison itself raises ⇒ `ValueError`** (real → real): on one axis
    the label lists differ and one of them repeats a label -/
theorem whModel_r2r_alignError (p : DupPolicy) (eta β₁ β₂ lam : R) (ct ot : VecTable R)
    (chunk : Nat) (w : LW R) (es : List (Event String String))
    (hal : alignRaises ot.dims w.outcomes ∨ alignRaises ct.dims w.cues) :
    whModel .r2r p eta β₁ β₂ lam (some ct) (some ot) chunk (some w) es = .error .value := by
  rcases hcn : countNames es with ⟨cuesEv, outsEv⟩
  unfold whModel
  rw [hcn]
  simp only
  split
  · rfl
  · split
    · rfl
    · by_cases hsh : w.outcomes.length ≠ ot.dims.length ∨ w.cues.length ≠ ct.dims.length
      · simp only [hsh, if_true]
      · rw [if_neg hsh]
        by_cases h1 : alignRaises ot.dims w.outcomes
        · rw [if_pos h1]
        · rw [if_neg h1, if_pos (hal.resolve_left h1)]

/-- **a table dimension the given weights lack ⇒ `KeyError`** (real → real;
    `weights.loc[…]`), when the table checks pass, the shape fits and all four
    label lists are duplicate-free -/
theorem whModel_r2r_keyError (p : DupPolicy) (eta β₁ β₂ lam : R) (ct ot : VecTable R)
    (chunk : Nat) (w : LW R) (es : List (Event String String))
    (htabc : ∀ e ∈ es, ∀ c ∈ e.cues, c ∈ ct.names)
    (htabo : ∀ e ∈ es, ∀ o ∈ e.outcomes, o ∈ ot.names)
    (hleno : w.outcomes.length = ot.dims.length) (hlenc : w.cues.length = ct.dims.length)
    (hno : ot.dims.Nodup) (hnc : ct.dims.Nodup) (hwno : w.outcomes.Nodup) (hwnc : w.cues.Nodup)
    (hmiss : (∃ d ∈ ot.dims, d ∉ w.outcomes) ∨ (∃ d ∈ ct.dims, d ∉ w.cues)) :
    whModel .r2r p eta β₁ β₂ lam (some ct) (some ot) chunk (some w) es = .error .key := by
  have hchkc := (tableCheck_cues_iff ct.names es).mpr htabc
  have hchko := (tableCheck_outcomes_iff ot.names es).mpr htabo
  rcases hcn : countNames es with ⟨cuesEv, outsEv⟩
  rw [hcn] at hchkc hchko
  simp only at hchkc hchko
  have hal1 : ¬ alignRaises ot.dims w.outcomes := not_alignRaises_nodup _ _ hno hwno
  have hal2 : ¬ alignRaises ct.dims w.cues := not_alignRaises_nodup _ _ hnc hwnc
  unfold whModel
  rw [hcn]
  simp only [hchkc, hchko, hleno, hlenc, if_false, Bool.false_eq_true, ne_eq,
    not_true_eq_false, or_self, if_neg hal1, if_neg hal2]
  by_cases h1 : ∃ d ∈ ot.dims, d ∉ w.outcomes
  · rw [locAxis_missing _ _ hwno h1]
  · have hall : ∀ d ∈ ot.dims, d ∈ w.outcomes := by
      intro d hd
      by_contra hc
      exact h1 ⟨d, hd, hc⟩
    rw [locAxis_eq_none _ _ hwno hall]
    simp only
    rw [locAxis_missing _ _ hwnc (hmiss.resolve_left h1)]

/-- **identical label lists with a repeated label ⇒ pandas `InvalidIndexError`**
    (real → real; error class `other`): `weights.loc[…]` refuses a non-unique index -/
theorem whModel_r2r_dupError (p : DupPolicy) (eta β₁ β₂ lam : R) (ct ot : VecTable R)
    (chunk : Nat) (w : LW R) (es : List (Event String String))
    (htabc : ∀ e ∈ es, ∀ c ∈ e.cues, c ∈ ct.names)
    (htabo : ∀ e ∈ es, ∀ o ∈ e.outcomes, o ∈ ot.names)
    (hlo : w.outcomes = ot.dims) (hlc : w.cues = ct.dims)
    (hdup : ¬ ot.dims.Nodup ∨ ¬ ct.dims.Nodup) :
    whModel .r2r p eta β₁ β₂ lam (some ct) (some ot) chunk (some w) es = .error .other := by
  have hchkc := (tableCheck_cues_iff ct.names es).mpr htabc
  have hchko := (tableCheck_outcomes_iff ot.names es).mpr htabo
  rcases hcn : countNames es with ⟨cuesEv, outsEv⟩
  rw [hcn] at hchkc hchko
  simp only at hchkc hchko
  unfold whModel
  rw [hcn]
  simp only [hchkc, hchko, hlo, hlc, if_false, Bool.false_eq_true, ne_eq,
    not_true_eq_false, or_self, if_neg (not_alignRaises_self _)]
  by_cases h1 : ot.dims.Nodup
  · rw [locAxis_eq_none _ _ h1 (fun d hd => hd)]
    simp only
    rw [locAxis_dup _ _ (hdup.resolve_left (not_not.mpr h1))]
  · rw [locAxis_dup _ _ h1]

/-- **from scratch = continued from the zero matrix** (real → real), for tables
    with distinct dimension labels (with a repeated label the continued call
    raises, `whModel_r2r_dupError`, the call from scratch does not) -/
theorem whModel_r2r_none (p : DupPolicy) (eta β₁ β₂ lam : R) (ct ot : VecTable R)
    (chunk : Nat) (es : List (Event String String)) (hno : ot.dims.Nodup) (hnc : ct.dims.Nodup) :
    whModel .r2r p eta β₁ β₂ lam (some ct) (some ot) chunk none es
      = whModel .r2r p eta β₁ β₂ lam (some ct) (some ot) chunk
          (some ⟨ot.dims, ct.dims, Array.replicate (ot.dims.length * ct.dims.length) 0⟩) es := by
  rcases hcn : countNames es with ⟨cuesEv, outsEv⟩
  have hre : realignVals (⟨ot.dims, ct.dims, Array.replicate (ot.dims.length * ct.dims.length) 0⟩ : LW R)
      ot.dims ct.dims = Array.replicate (ot.dims.length * ct.dims.length) 0 := by
    apply Array.ext
    · simp [realignVals]
    · intro i h1 h2
      simp only [realignVals, Array.getElem_ofFn, Array.getElem_replicate]
      unfold LW.get
      simp only [Array.getD_eq_getD_getElem?]
      split
      · simp only [Array.getElem?_replicate]
        split <;> rfl
      · rfl
  unfold whModel
  rw [hcn]
  simp only [ne_eq, not_true_eq_false, if_false, or_self, if_neg (not_alignRaises_self _),
    locAxis_eq_none _ _ hno (fun d hd => hd), locAxis_eq_none _ _ hnc (fun d hd => hd), hre]

theorem byPos_zero (outs cues : List String) (n : Nat) :
    (⟨outs, cues, Array.replicate n 0⟩ : LW R).byPos = fun _ _ => 0 := by
  funext d k
  unfold LW.byPos
  simp only [Array.getD_eq_getD_getElem?]
  split
  · by_cases h : d * cues.length + k < n
    · simp [h]
    · simp [h]
  · rfl

/-- **one call of a chain (real → real)**; `hno`, `hnc`: the tables' dimension
    labels are distinct (needed by every CONTINUED call, `whModel_r2r_dupError`) -/
theorem whModel_r2r_step (p : DupPolicy) (eta β₁ β₂ lam : R) (ct ot : VecTable R)
    (hno : ot.dims.Nodup) (hnc : ct.dims.Nodup)
    (chunk : Nat) (hc : 1 ≤ chunk) (s : Option (LW R))
    (hs : ∀ w, s = some w → w.outcomes = ot.dims ∧ w.cues = ct.dims)
    (es es' : List (Event String String)) (htabc : ∀ e ∈ es, ∀ c ∈ e.cues, c ∈ ct.names)
    (htabo : ∀ e ∈ es, ∀ o ∈ e.outcomes, o ∈ ot.names) (hp : applyPolicyAll p es = some es') :
    ∃ r, whModel .r2r p eta β₁ β₂ lam (some ct) (some ot) chunk s es = .ok r ∧
      (r.outcomes = ot.dims ∧ r.cues = ct.dims ∧ r.vals.size = r.outcomes.length * r.cues.length) ∧
      ∀ d, d < ot.dims.length → r.byPos d = whR2RSpecFrom eta ct ot (optByPos s) es' d := by
  cases s with
  | none =>
    obtain ⟨r, h1, h2, h3, h4, h5⟩ := whModel_r2r_continue p eta β₁ β₂ lam ct ot chunk hc
      ⟨ot.dims, ct.dims, Array.replicate (ot.dims.length * ct.dims.length) 0⟩ es es' htabc htabo hp rfl rfl
      hno hnc
    refine ⟨r, ?_, ⟨h2, h3, h4⟩, ?_⟩
    · rw [whModel_r2r_none _ _ _ _ _ _ _ _ _ hno hnc]; exact h1
    · intro d hd
      rw [h5 d hd, byPos_zero]; rfl
  | some w =>
    obtain ⟨a, b⟩ := hs w rfl
    obtain ⟨r, h1, h2, h3, h4, h5⟩ := whModel_r2r_continue p eta β₁ β₂ lam ct ot chunk hc w es es'
      htabc htabo hp a b hno hnc
    exact ⟨r, h1, ⟨h2, h3, h4⟩, h5⟩

/-! ## 3. chains of `wh.wh` calls -/

theorem whChainPolicy_cons_some (pt : WhPart) (ps : List WhPart) (es' : List (Event String String))
    (h : whChainPolicy (pt :: ps) = some es') :
    ∃ e1 e2, applyPolicyAll pt.policy pt.events = some e1 ∧ whChainPolicy ps = some e2 ∧ es' = e1 ++ e2 := by
  simp only [whChainPolicy] at h
  cases h1 : applyPolicyAll pt.policy pt.events with
  | none => simp [h1] at h
  | some e1 =>
    simp only [h1] at h
    cases h2 : whChainPolicy ps with
    | none => simp [h2] at h
    | some e2 =>
      simp only [h2, Option.some.injEq] at h
      exact ⟨e1, e2, rfl, rfl, h.symm⟩

theorem optGet_r2b (dims : List String) (s : Option (LW R)) (hs : ∀ w, s = some w → w.cues = dims)
    (o d : String) : optGet s o d = if d ∈ dims then optByOutcome s o (dims.idxOf d) else 0 := by
  cases s with
  | none => simp only [optGet, optByOutcome, ite_self]
  | some w =>
    show w.get o d = if d ∈ dims then w.byOutcome o (dims.idxOf d) else 0
    rw [LW.get_eq_byOutcome, hs w rfl]

theorem optGet_b2r (dims : List String) (s : Option (LW R)) (hs : ∀ w, s = some w → w.outcomes = dims)
    (dl c : String) : optGet s dl c = if dl ∈ dims then optByCue s (dims.idxOf dl) c else 0 := by
  cases s with
  | none => simp only [optGet, optByCue, ite_self]
  | some w =>
    show w.get dl c = if dl ∈ dims then w.byCue (dims.idxOf dl) c else 0
    rw [LW.get_eq_byCue, hs w rfl]

theorem optGet_r2r (odims cdims : List String) (s : Option (LW R))
    (hs : ∀ w, s = some w → w.outcomes = odims ∧ w.cues = cdims) (dlo dlc : String) :
    optGet s dlo dlc = if dlo ∈ odims ∧ dlc ∈ cdims
      then optByPos s (odims.idxOf dlo) (cdims.idxOf dlc) else 0 := by
  cases s with
  | none => simp only [optGet, optByPos, ite_self]
  | some w =>
    show w.get dlo dlc = if dlo ∈ odims ∧ dlc ∈ cdims then w.byPos (odims.idxOf dlo) (cdims.idxOf dlc) else 0
    rw [LW.get_eq_byPos, (hs w rfl).1, (hs w rfl).2]

/-! ### real cue vectors → binary outcomes -/

/-- **the chain (real → binary), by induction over the list of parts**, from any
    state whose column labels are the cue vector dimensions -/
theorem whChainRun_r2b_spec (eta β₁ β₂ lam : R) (ct : VecTable R) (parts : List WhPart)
    (s : Option (LW R)) (hs : ∀ w, s = some w → w.cues = ct.dims)
    (es' : List (Event String String)) (hp : whChainPolicy parts = some es')
    (hchunk : ∀ pt ∈ parts, 1 ≤ pt.chunk)
    (htab : ∀ pt ∈ parts, ∀ e ∈ pt.events, ∀ c ∈ e.cues, c ∈ ct.names) :
    ∃ s', whChainRun .r2b eta β₁ β₂ lam (some ct) none s parts = .ok s' ∧
      (∀ w, s' = some w → w.cues = ct.dims) ∧
      optByOutcome s' = whR2BSpecFrom β₁ β₂ lam ct (optByOutcome s) es' := by
  induction parts generalizing s es' with
  | nil =>
    simp only [whChainPolicy, Option.some.injEq] at hp
    subst hp
    exact ⟨s, rfl, hs, rfl⟩
  | cons pt ps ih =>
    obtain ⟨e1, e2, h1, h2, rfl⟩ := whChainPolicy_cons_some pt ps es' hp
    obtain ⟨r, r1, ok1, g1⟩ := whModel_r2b_step pt.policy eta β₁ β₂ lam ct pt.chunk
      (hchunk pt (List.mem_cons_self ..)) s hs pt.events e1 (htab pt (List.mem_cons_self ..)) h1
    obtain ⟨s2, r2, ok2, g2⟩ := ih (some r) (fun w hw => by cases hw; exact ok1) e2 h2
      (fun q hq => hchunk q (List.mem_cons_of_mem _ hq)) (fun q hq => htab q (List.mem_cons_of_mem _ hq))
    refine ⟨s2, ?_, ok2, ?_⟩
    · simp only [whChainRun, r1]; exact r2
    · rw [g2, whR2BSpecFrom_append]
      show whR2BSpecFrom β₁ β₂ lam ct r.byOutcome e2 = _
      rw [g1]

/-- **chains of `wh.wh` calls of any length (real → binary)**: every part has its
    own duplicate policy and chunk size; every call continues from the matrix
    the previous call returned, the first from `weights=None`.

    Hypotheses: `hp` every part is accepted by its duplicate policy
    (`whChainPolicy parts = some es'`: `es'` is the concatenation of the
    policy-processed parts); `hchunk` every `n_outcomes_per_job ≥ 1`; `htab`
    every cue of every event of every part has a row in the cue table.

    Conclusion: the chain runs through, and what it ends with, read through its
    labels at EVERY (outcome name, cue dimension label), is the specification
    `whR2BSpec` from zero on `es'` — also when later parts bring new outcomes. -/
theorem whR2B_chain_any_length (eta β₁ β₂ lam : R) (ct : VecTable R) (parts : List WhPart)
    (es' : List (Event String String)) (hp : whChainPolicy parts = some es')
    (hchunk : ∀ pt ∈ parts, 1 ≤ pt.chunk)
    (htab : ∀ pt ∈ parts, ∀ e ∈ pt.events, ∀ c ∈ e.cues, c ∈ ct.names) :
    ∃ s, whChainRun .r2b eta β₁ β₂ lam (some ct) none none parts = .ok s ∧
      ∀ o d, optGet s o d = if d ∈ ct.dims then whR2BSpec β₁ β₂ lam ct es' o (ct.dims.idxOf d) else 0 := by
  obtain ⟨s, r, ok, g⟩ := whChainRun_r2b_spec eta β₁ β₂ lam ct parts none (fun w hw => by cases hw)
    es' hp hchunk htab
  refine ⟨s, r, ?_⟩
  intro o d
  rw [optGet_r2b ct.dims s ok o d, g]
  rfl

/-- **the chain equals ONE call over the whole file (real → binary)**, when all
    parts and the single call run with the same duplicate policy `p` (any chunk
    sizes): equal at every pair of labels. -/
theorem whR2B_chain_eq_single_call (eta β₁ β₂ lam : R) (ct : VecTable R) (parts : List WhPart)
    (p : DupPolicy) (hpol : ∀ pt ∈ parts, pt.policy = p)
    (es' : List (Event String String)) (hp : whChainPolicy parts = some es')
    (hchunk : ∀ pt ∈ parts, 1 ≤ pt.chunk)
    (htab : ∀ pt ∈ parts, ∀ e ∈ pt.events, ∀ c ∈ e.cues, c ∈ ct.names)
    (chunk : Nat) (hc : 1 ≤ chunk) :
    ∃ s w, whChainRun .r2b eta β₁ β₂ lam (some ct) none none parts = .ok s ∧
      whModel .r2b p eta β₁ β₂ lam (some ct) none chunk none (whAllEvents parts) = .ok w ∧
      ∀ o d, optGet s o d = w.get o d := by
  have hall : applyPolicyAll p (whAllEvents parts) = some es' := by
    rw [← whChainPolicy_uniform p parts hpol]; exact hp
  have htabAll : ∀ e ∈ whAllEvents parts, ∀ c ∈ e.cues, c ∈ ct.names := by
    intro e he
    obtain ⟨pt, hpt, hept⟩ := whAllEvents_mem parts e he
    exact htab pt hpt e hept
  obtain ⟨s, r, g⟩ := whR2B_chain_any_length eta β₁ β₂ lam ct parts es' hp hchunk htab
  obtain ⟨w, rw', gw⟩ := whModel_r2b_get p eta β₁ β₂ lam ct chunk hc (whAllEvents parts) es' htabAll hall
  exact ⟨s, w, r, rw', fun o d => by rw [g o d, gw o d]⟩

/-- **a chain of two calls (real → binary)**: the second call continues from
    what the first returned; old outcomes keep their rows, the new outcomes of
    the second part are appended; the result is the specification on the
    concatenation of the policy-processed parts. -/
theorem whR2B_chain_two (eta β₁ β₂ lam : R) (ct : VecTable R) (p₁ p₂ : DupPolicy) (chunk₁ chunk₂ : Nat)
    (hc₁ : 1 ≤ chunk₁) (hc₂ : 1 ≤ chunk₂) (es₁ es₂ es₁' es₂' : List (Event String String))
    (htab₁ : ∀ e ∈ es₁, ∀ c ∈ e.cues, c ∈ ct.names) (htab₂ : ∀ e ∈ es₂, ∀ c ∈ e.cues, c ∈ ct.names)
    (hp₁ : applyPolicyAll p₁ es₁ = some es₁') (hp₂ : applyPolicyAll p₂ es₂ = some es₂') :
    ∃ w₁ w₂, whModel .r2b p₁ eta β₁ β₂ lam (some ct) none chunk₁ none es₁ = .ok w₁ ∧
      whModel .r2b p₂ eta β₁ β₂ lam (some ct) none chunk₂ (some w₁) es₂ = .ok w₂ ∧
      w₁.outcomes = (countNames es₁).2 ∧
      w₂.outcomes = w₁.outcomes ++ (countNames es₂).2.filter (fun o => !w₁.outcomes.contains o) ∧
      ∀ o d, w₂.get o d = if d ∈ ct.dims
        then whR2BSpec β₁ β₂ lam ct (es₁' ++ es₂') o (ct.dims.idxOf d) else 0 := by
  obtain ⟨w₁, a1, a2, _⟩ := whModel_r2b_eq_spec_names p₁ eta β₁ β₂ lam ct chunk₁ hc₁ es₁ es₁' htab₁ hp₁
  obtain ⟨r, b1, b2, b3⟩ := whModel_r2b_step p₁ eta β₁ β₂ lam ct chunk₁ hc₁ none (fun w hw => by cases hw)
    es₁ es₁' htab₁ hp₁
  have hr : r = w₁ := by
    rw [b1] at a1
    exact Except.ok.inj a1
  subst hr
  obtain ⟨w₂, c1, c2, c3, _, c5⟩ := whModel_r2b_continue p₂ eta β₁ β₂ lam ct chunk₂ hc₂ r es₂ es₂' htab₂ hp₂ b2
  refine ⟨r, w₂, b1, c1, a2, c2, ?_⟩
  intro o d
  rw [LW.get_eq_byOutcome, c3, c5, b3, ← whR2BSpecFrom_append]
  rfl

/-! ### binary cues → real outcome vectors -/

/-- **the chain (binary → real), by induction over the list of parts** -/
theorem whChainRun_b2r_spec (eta β₁ β₂ lam : R) (ot : VecTable R) (parts : List WhPart)
    (s : Option (LW R)) (hs : ∀ w, s = some w → w.outcomes = ot.dims)
    (es' : List (Event String String)) (hp : whChainPolicy parts = some es')
    (hchunk : ∀ pt ∈ parts, 1 ≤ pt.chunk)
    (htabo : ∀ pt ∈ parts, ∀ e ∈ pt.events, ∀ o ∈ e.outcomes, o ∈ ot.names) :
    ∃ s', whChainRun .b2r eta β₁ β₂ lam none (some ot) s parts = .ok s' ∧
      (∀ w, s' = some w → w.outcomes = ot.dims) ∧
      ∀ d, d < ot.dims.length → optByCue s' d = whB2RSpecFrom eta ot (optByCue s) es' d := by
  induction parts generalizing s es' with
  | nil =>
    simp only [whChainPolicy, Option.some.injEq] at hp
    subst hp
    exact ⟨s, rfl, hs, fun d _ => rfl⟩
  | cons pt ps ih =>
    obtain ⟨e1, e2, h1, h2, rfl⟩ := whChainPolicy_cons_some pt ps es' hp
    obtain ⟨r, r1, ok1, g1⟩ := whModel_b2r_step pt.policy eta β₁ β₂ lam ot pt.chunk
      (hchunk pt (List.mem_cons_self ..)) s hs pt.events e1 (htabo pt (List.mem_cons_self ..)) h1
    obtain ⟨s2, r2, ok2, g2⟩ := ih (some r) (fun w hw => by cases hw; exact ok1) e2 h2
      (fun q hq => hchunk q (List.mem_cons_of_mem _ hq)) (fun q hq => htabo q (List.mem_cons_of_mem _ hq))
    refine ⟨s2, ?_, ok2, ?_⟩
    · simp only [whChainRun, r1]; exact r2
    · intro d hd
      rw [g2 d hd, whB2RSpecFrom_append]
      exact whB2RSpecFrom_congr eta ot _ _ d (g1 d hd) e2

/-- **chains of `wh.wh` calls of any length (binary → real)**.  Hypotheses as in
    `whR2B_chain_any_length`, with `htabo`: every outcome of every event of
    every part has a row in the outcome table.  Conclusion: the chain runs
    through and ends, read through its labels at EVERY (outcome dimension
    label, cue name), with the specification `whB2RSpec` from zero on the
    concatenation of the policy-processed parts — also when later parts bring
    new cues. -/
theorem whB2R_chain_any_length (eta β₁ β₂ lam : R) (ot : VecTable R) (parts : List WhPart)
    (es' : List (Event String String)) (hp : whChainPolicy parts = some es')
    (hchunk : ∀ pt ∈ parts, 1 ≤ pt.chunk)
    (htabo : ∀ pt ∈ parts, ∀ e ∈ pt.events, ∀ o ∈ e.outcomes, o ∈ ot.names) :
    ∃ s, whChainRun .b2r eta β₁ β₂ lam none (some ot) none parts = .ok s ∧
      ∀ dl c, optGet s dl c = if dl ∈ ot.dims then whB2RSpec eta ot es' (ot.dims.idxOf dl) c else 0 := by
  obtain ⟨s, r, ok, g⟩ := whChainRun_b2r_spec eta β₁ β₂ lam ot parts none (fun w hw => by cases hw)
    es' hp hchunk htabo
  refine ⟨s, r, ?_⟩
  intro dl c
  rw [optGet_b2r ot.dims s ok dl c]
  by_cases hd : dl ∈ ot.dims
  · rw [if_pos hd, if_pos hd, g _ (List.idxOf_lt_length_iff.mpr hd)]
    rfl
  · rw [if_neg hd, if_neg hd]

/-- **the chain equals ONE call over the whole file (binary → real)** -/
theorem whB2R_chain_eq_single_call (eta β₁ β₂ lam : R) (ot : VecTable R) (parts : List WhPart)
    (p : DupPolicy) (hpol : ∀ pt ∈ parts, pt.policy = p)
    (es' : List (Event String String)) (hp : whChainPolicy parts = some es')
    (hchunk : ∀ pt ∈ parts, 1 ≤ pt.chunk)
    (htabo : ∀ pt ∈ parts, ∀ e ∈ pt.events, ∀ o ∈ e.outcomes, o ∈ ot.names)
    (chunk : Nat) (hc : 1 ≤ chunk) :
    ∃ s w, whChainRun .b2r eta β₁ β₂ lam none (some ot) none parts = .ok s ∧
      whModel .b2r p eta β₁ β₂ lam none (some ot) chunk none (whAllEvents parts) = .ok w ∧
      ∀ dl c, optGet s dl c = w.get dl c := by
  have hall : applyPolicyAll p (whAllEvents parts) = some es' := by
    rw [← whChainPolicy_uniform p parts hpol]; exact hp
  have htabAll : ∀ e ∈ whAllEvents parts, ∀ o ∈ e.outcomes, o ∈ ot.names := by
    intro e he
    obtain ⟨pt, hpt, hept⟩ := whAllEvents_mem parts e he
    exact htabo pt hpt e hept
  obtain ⟨s, r, g⟩ := whB2R_chain_any_length eta β₁ β₂ lam ot parts es' hp hchunk htabo
  obtain ⟨w, rw', gw⟩ := whModel_b2r_get p eta β₁ β₂ lam ot chunk hc (whAllEvents parts) es' htabAll hall
  exact ⟨s, w, r, rw', fun dl c => by rw [g dl c, gw dl c]⟩

/-- **a chain of two calls (binary → real)**: old cues keep their columns, the
    new cues of the second part are appended -/
theorem whB2R_chain_two (eta β₁ β₂ lam : R) (ot : VecTable R) (p₁ p₂ : DupPolicy) (chunk₁ chunk₂ : Nat)
    (hc₁ : 1 ≤ chunk₁) (hc₂ : 1 ≤ chunk₂) (es₁ es₂ es₁' es₂' : List (Event String String))
    (htab₁ : ∀ e ∈ es₁, ∀ o ∈ e.outcomes, o ∈ ot.names) (htab₂ : ∀ e ∈ es₂, ∀ o ∈ e.outcomes, o ∈ ot.names)
    (hp₁ : applyPolicyAll p₁ es₁ = some es₁') (hp₂ : applyPolicyAll p₂ es₂ = some es₂') :
    ∃ w₁ w₂, whModel .b2r p₁ eta β₁ β₂ lam none (some ot) chunk₁ none es₁ = .ok w₁ ∧
      whModel .b2r p₂ eta β₁ β₂ lam none (some ot) chunk₂ (some w₁) es₂ = .ok w₂ ∧
      w₁.cues = (countNames es₁).1 ∧
      w₂.cues = w₁.cues ++ (countNames es₂).1.filter (fun c => !w₁.cues.contains c) ∧
      ∀ dl c, w₂.get dl c = if dl ∈ ot.dims
        then whB2RSpec eta ot (es₁' ++ es₂') (ot.dims.idxOf dl) c else 0 := by
  obtain ⟨w₁, a1, _, a3, _⟩ := whModel_b2r_eq_spec_names p₁ eta β₁ β₂ lam ot chunk₁ hc₁ es₁ es₁' htab₁ hp₁
  obtain ⟨r, b1, b2, b3⟩ := whModel_b2r_step p₁ eta β₁ β₂ lam ot chunk₁ hc₁ none (fun w hw => by cases hw)
    es₁ es₁' htab₁ hp₁
  have hr : r = w₁ := by
    rw [b1] at a1
    exact Except.ok.inj a1
  subst hr
  obtain ⟨w₂, c1, c2, c3, _, c5⟩ := whModel_b2r_continue p₂ eta β₁ β₂ lam ot chunk₂ hc₂ r es₂ es₂' htab₂ hp₂ b2
  refine ⟨r, w₂, b1, c1, a3, c3, ?_⟩
  intro dl c
  rw [LW.get_eq_byCue, c2]
  by_cases hd : dl ∈ ot.dims
  · have hi := List.idxOf_lt_length_iff.mpr hd
    rw [if_pos hd, if_pos hd, c5 _ hi, whB2RSpec_eq_from, whB2RSpecFrom_append]
    exact congrFun (whB2RSpecFrom_congr eta ot _ _ _ (b3 _ hi) es₂') _
  · rw [if_neg hd, if_neg hd]

/-! ### real cue vectors → real outcome vectors -/

/-- **the chain (real → real), by induction over the list of parts** -/
theorem whChainRun_r2r_spec (eta β₁ β₂ lam : R) (ct ot : VecTable R)
    (hno : ot.dims.Nodup) (hnc : ct.dims.Nodup) (parts : List WhPart)
    (s : Option (LW R))
    (hs : ∀ w, s = some w → w.outcomes = ot.dims ∧ w.cues = ct.dims)
    (es' : List (Event String String)) (hp : whChainPolicy parts = some es')
    (hchunk : ∀ pt ∈ parts, 1 ≤ pt.chunk)
    (htabc : ∀ pt ∈ parts, ∀ e ∈ pt.events, ∀ c ∈ e.cues, c ∈ ct.names)
    (htabo : ∀ pt ∈ parts, ∀ e ∈ pt.events, ∀ o ∈ e.outcomes, o ∈ ot.names) :
    ∃ s', whChainRun .r2r eta β₁ β₂ lam (some ct) (some ot) s parts = .ok s' ∧
      (∀ w, s' = some w → w.outcomes = ot.dims ∧ w.cues = ct.dims) ∧
      ∀ d, d < ot.dims.length → optByPos s' d = whR2RSpecFrom eta ct ot (optByPos s) es' d := by
  induction parts generalizing s es' with
  | nil =>
    simp only [whChainPolicy, Option.some.injEq] at hp
    subst hp
    exact ⟨s, rfl, hs, fun d _ => rfl⟩
  | cons pt ps ih =>
    obtain ⟨e1, e2, h1, h2, rfl⟩ := whChainPolicy_cons_some pt ps es' hp
    obtain ⟨r, r1, ok1, g1⟩ := whModel_r2r_step pt.policy eta β₁ β₂ lam ct ot hno hnc pt.chunk
      (hchunk pt (List.mem_cons_self ..)) s hs pt.events e1 (htabc pt (List.mem_cons_self ..))
      (htabo pt (List.mem_cons_self ..)) h1
    obtain ⟨s2, r2, ok2, g2⟩ := ih (some r) (fun w hw => by cases hw; exact ⟨ok1.1, ok1.2.1⟩) e2 h2
      (fun q hq => hchunk q (List.mem_cons_of_mem _ hq)) (fun q hq => htabc q (List.mem_cons_of_mem _ hq))
      (fun q hq => htabo q (List.mem_cons_of_mem _ hq))
    refine ⟨s2, ?_, ok2, ?_⟩
    · simp only [whChainRun, r1]; exact r2
    · intro d hd
      rw [g2 d hd, whR2RSpecFrom_append]
      exact whR2RSpecFrom_congr eta ct ot _ _ d (g1 d hd) e2

/-- **chains of `wh.wh` calls of any length (real → real)** -/
theorem whR2R_chain_any_length (eta β₁ β₂ lam : R) (ct ot : VecTable R)
    (hno : ot.dims.Nodup) (hnc : ct.dims.Nodup) (parts : List WhPart)
    (es' : List (Event String String)) (hp : whChainPolicy parts = some es')
    (hchunk : ∀ pt ∈ parts, 1 ≤ pt.chunk)
    (htabc : ∀ pt ∈ parts, ∀ e ∈ pt.events, ∀ c ∈ e.cues, c ∈ ct.names)
    (htabo : ∀ pt ∈ parts, ∀ e ∈ pt.events, ∀ o ∈ e.outcomes, o ∈ ot.names) :
    ∃ s, whChainRun .r2r eta β₁ β₂ lam (some ct) (some ot) none parts = .ok s ∧
      ∀ dlo dlc, optGet s dlo dlc = if dlo ∈ ot.dims ∧ dlc ∈ ct.dims
        then whR2RSpec eta ct ot es' (ot.dims.idxOf dlo) (ct.dims.idxOf dlc) else 0 := by
  obtain ⟨s, r, ok, g⟩ := whChainRun_r2r_spec eta β₁ β₂ lam ct ot hno hnc parts none (fun w hw => by cases hw)
    es' hp hchunk htabc htabo
  refine ⟨s, r, ?_⟩
  intro dlo dlc
  rw [optGet_r2r ot.dims ct.dims s ok dlo dlc]
  by_cases hd : dlo ∈ ot.dims ∧ dlc ∈ ct.dims
  · rw [if_pos hd, if_pos hd, g _ (List.idxOf_lt_length_iff.mpr hd.1)]
    rfl
  · rw [if_neg hd, if_neg hd]

/-- **the chain equals ONE call over the whole file (real → real)** -/
theorem whR2R_chain_eq_single_call (eta β₁ β₂ lam : R) (ct ot : VecTable R)
    (hno : ot.dims.Nodup) (hnc : ct.dims.Nodup) (parts : List WhPart)
    (p : DupPolicy) (hpol : ∀ pt ∈ parts, pt.policy = p)
    (es' : List (Event String String)) (hp : whChainPolicy parts = some es')
    (hchunk : ∀ pt ∈ parts, 1 ≤ pt.chunk)
    (htabc : ∀ pt ∈ parts, ∀ e ∈ pt.events, ∀ c ∈ e.cues, c ∈ ct.names)
    (htabo : ∀ pt ∈ parts, ∀ e ∈ pt.events, ∀ o ∈ e.outcomes, o ∈ ot.names)
    (chunk : Nat) (hc : 1 ≤ chunk) :
    ∃ s w, whChainRun .r2r eta β₁ β₂ lam (some ct) (some ot) none parts = .ok s ∧
      whModel .r2r p eta β₁ β₂ lam (some ct) (some ot) chunk none (whAllEvents parts) = .ok w ∧
      ∀ dlo dlc, optGet s dlo dlc = w.get dlo dlc := by
  have hall : applyPolicyAll p (whAllEvents parts) = some es' := by
    rw [← whChainPolicy_uniform p parts hpol]; exact hp
  have htabcAll : ∀ e ∈ whAllEvents parts, ∀ c ∈ e.cues, c ∈ ct.names := by
    intro e he
    obtain ⟨pt, hpt, hept⟩ := whAllEvents_mem parts e he
    exact htabc pt hpt e hept
  have htaboAll : ∀ e ∈ whAllEvents parts, ∀ o ∈ e.outcomes, o ∈ ot.names := by
    intro e he
    obtain ⟨pt, hpt, hept⟩ := whAllEvents_mem parts e he
    exact htabo pt hpt e hept
  obtain ⟨s, r, g⟩ := whR2R_chain_any_length eta β₁ β₂ lam ct ot hno hnc parts es' hp hchunk htabc htabo
  obtain ⟨w, rw', gw⟩ := whModel_r2r_get p eta β₁ β₂ lam ct ot chunk hc (whAllEvents parts) es'
    htabcAll htaboAll hall
  exact ⟨s, w, r, rw', fun dlo dlc => by rw [g dlo dlc, gw dlo dlc]⟩

/-- **a chain of two calls (real → real)** -/
theorem whR2R_chain_two (eta β₁ β₂ lam : R) (ct ot : VecTable R)
    (hno : ot.dims.Nodup) (hnc : ct.dims.Nodup) (p₁ p₂ : DupPolicy) (chunk₁ chunk₂ : Nat)
    (hc₁ : 1 ≤ chunk₁) (hc₂ : 1 ≤ chunk₂) (es₁ es₂ es₁' es₂' : List (Event String String))
    (htabc₁ : ∀ e ∈ es₁, ∀ c ∈ e.cues, c ∈ ct.names) (htabo₁ : ∀ e ∈ es₁, ∀ o ∈ e.outcomes, o ∈ ot.names)
    (htabc₂ : ∀ e ∈ es₂, ∀ c ∈ e.cues, c ∈ ct.names) (htabo₂ : ∀ e ∈ es₂, ∀ o ∈ e.outcomes, o ∈ ot.names)
    (hp₁ : applyPolicyAll p₁ es₁ = some es₁') (hp₂ : applyPolicyAll p₂ es₂ = some es₂') :
    ∃ w₁ w₂, whModel .r2r p₁ eta β₁ β₂ lam (some ct) (some ot) chunk₁ none es₁ = .ok w₁ ∧
      whModel .r2r p₂ eta β₁ β₂ lam (some ct) (some ot) chunk₂ (some w₁) es₂ = .ok w₂ ∧
      ∀ dlo dlc, w₂.get dlo dlc = if dlo ∈ ot.dims ∧ dlc ∈ ct.dims
        then whR2RSpec eta ct ot (es₁' ++ es₂') (ot.dims.idxOf dlo) (ct.dims.idxOf dlc) else 0 := by
  obtain ⟨r, b1, ⟨b2, b3, b4⟩, b5⟩ := whModel_r2r_step p₁ eta β₁ β₂ lam ct ot hno hnc chunk₁ hc₁ none
    (fun w hw => by cases hw) es₁ es₁' htabc₁ htabo₁ hp₁
  obtain ⟨w₂, c1, c2, c3, _, c5⟩ := whModel_r2r_continue p₂ eta β₁ β₂ lam ct ot chunk₂ hc₂ r es₂ es₂'
    htabc₂ htabo₂ hp₂ b2 b3 hno hnc
  refine ⟨r, w₂, b1, c1, ?_⟩
  intro dlo dlc
  rw [LW.get_eq_byPos, c2, c3]
  by_cases hd : dlo ∈ ot.dims ∧ dlc ∈ ct.dims
  · have hi := List.idxOf_lt_length_iff.mpr hd.1
    rw [if_pos hd, if_pos hd, c5 _ hi, whR2RSpec_eq_from, whR2RSpecFrom_append]
    exact congrFun (whR2RSpecFrom_congr eta ct ot _ _ _ (b5 _ hi) es₂') _
  · rw [if_neg hd, if_neg hd]

/-! ## all three flavours in one statement -/

/-- the tables fit the flavour (`wh.wh` dispatches on which of `cue_vectors` /
    `outcome_vectors` are given), their ROW labels are distinct (`names.Nodup`:
    wh.py's `OrderedDict` id map takes the LAST row of a repeated name, the
    model's `idxOf` the FIRST — with distinct names they are the same map; the
    proofs do not use it, it delimits where the model is the code), every name
    on a real side of the events has a row in its table (else `ValueError`),
    and — real → real only — the DIMENSION labels of both tables are distinct
    (every continued real → real call selects the given weights by label,
    `weights.loc[…]`, which pandas refuses on a non-unique index:
    `whModel_r2r_dupError`). -/
def WhTablesOK (fl : WhFlavour) (cueTab outTab : Option (VecTable R))
    (es : List (Event String String)) : Prop :=
  match fl, cueTab, outTab with
  | .r2b, some ct, none => ct.names.Nodup ∧ ∀ e ∈ es, ∀ c ∈ e.cues, c ∈ ct.names
  | .b2r, none, some ot => ot.names.Nodup ∧ ∀ e ∈ es, ∀ o ∈ e.outcomes, o ∈ ot.names
  | .r2r, some ct, some ot =>
    (ct.names.Nodup ∧ ot.names.Nodup) ∧ (ot.dims.Nodup ∧ ct.dims.Nodup) ∧
    (∀ e ∈ es, ∀ c ∈ e.cues, c ∈ ct.names) ∧ (∀ e ∈ es, ∀ o ∈ e.outcomes, o ∈ ot.names)
  | _, _, _ => False

instance (fl : WhFlavour) (cueTab outTab : Option (VecTable R)) (es : List (Event String String)) :
    Decidable (WhTablesOK fl cueTab outTab es) := by
  cases fl <;> cases cueTab <;> cases outTab <;> unfold WhTablesOK <;> infer_instance

/-- the specification of a flavour from zero weights, as a function of the two
    LABELS of the returned matrix (row label, column label): names on a binary
    side, vector dimension labels (read at their position in the table's
    dimension list) on a real side; 0 for labels that are no dimension -/
def whSpecGet (fl : WhFlavour) (eta β₁ β₂ lam : R) (cueTab outTab : Option (VecTable R))
    (es : List (Event String String)) : String → String → R :=
  match fl, cueTab, outTab with
  | .r2b, some ct, none => fun o d =>
    if d ∈ ct.dims then whR2BSpec β₁ β₂ lam ct es o (ct.dims.idxOf d) else 0
  | .b2r, none, some ot => fun dl c =>
    if dl ∈ ot.dims then whB2RSpec eta ot es (ot.dims.idxOf dl) c else 0
  | .r2r, some ct, some ot => fun dlo dlc =>
    if dlo ∈ ot.dims ∧ dlc ∈ ct.dims
    then whR2RSpec eta ct ot es (ot.dims.idxOf dlo) (ct.dims.idxOf dlc) else 0
  | _, _, _ => fun _ _ => 0

theorem WhTablesOK_part (fl : WhFlavour) (cueTab outTab : Option (VecTable R)) (parts : List WhPart)
    (h : WhTablesOK fl cueTab outTab (whAllEvents parts)) (pt : WhPart) (hpt : pt ∈ parts) :
    WhTablesOK fl cueTab outTab pt.events := by
  cases fl <;> cases cueTab <;> cases outTab <;> simp only [WhTablesOK] at h ⊢
  · exact ⟨h.1, h.2.1, fun e he => h.2.2.1 e (mem_whAllEvents parts pt hpt e he),
      fun e he => h.2.2.2 e (mem_whAllEvents parts pt hpt e he)⟩
  · exact ⟨h.1, fun e he => h.2 e (mem_whAllEvents parts pt hpt e he)⟩
  · exact ⟨h.1, fun e he => h.2 e (mem_whAllEvents parts pt hpt e he)⟩

/-- **`whChain_any_length`** — chains of `wh.wh` calls of arbitrary length, all
    three vector flavours.

    A chain: the same flavour `fl`, tables, `eta`, `betas`, `lambda_` for every
    call; per part its own events, duplicate policy (`remove_duplicates`) and
    chunk size (`n_outcomes_per_job`); the first call gets `weights=None`, every
    later call the matrix the previous call returned (`whChainRun`).

    Hypotheses:
    * `hp : whChainPolicy parts = some es'` — every part is accepted by ITS
      duplicate policy; `es'` is the concatenation of the policy-processed parts;
    * `hchunk` — every `n_outcomes_per_job ≥ 1`;
    * `htab : WhTablesOK fl cueTab outTab (whAllEvents parts)` — the tables fit
      the flavour and every name on a real side of the whole file has a row in
      its table (`wh.wh` raises `ValueError` otherwise).
    No hypothesis on the intermediate matrices: that their real-side labels are
    the table's dimension labels (what the code checks) and that they have the
    right shape is an invariant of the chain, proved by induction.

    Conclusion: the chain runs through, and its result read through its labels
    (`LW.get`; `optGet`) is, at EVERY pair of labels, the specification of the
    flavour from zero weights on `es'` — also when later parts introduce new
    cues (binary → real) or outcomes (real → binary). -/
theorem whChain_any_length (fl : WhFlavour) (eta β₁ β₂ lam : R) (cueTab outTab : Option (VecTable R))
    (parts : List WhPart) (es' : List (Event String String)) (hp : whChainPolicy parts = some es')
    (hchunk : ∀ pt ∈ parts, 1 ≤ pt.chunk) (htab : WhTablesOK fl cueTab outTab (whAllEvents parts)) :
    ∃ s, whChainRun fl eta β₁ β₂ lam cueTab outTab none parts = .ok s ∧
      ∀ a b, optGet s a b = whSpecGet fl eta β₁ β₂ lam cueTab outTab es' a b := by
  have hpart := WhTablesOK_part fl cueTab outTab parts htab
  cases fl <;> cases cueTab <;> cases outTab <;> simp only [WhTablesOK] at htab hpart
  · rename_i ct ot
    exact whR2R_chain_any_length eta β₁ β₂ lam ct ot htab.2.1.1 htab.2.1.2 parts es' hp hchunk
      (fun pt hpt => (hpart pt hpt).2.2.1) (fun pt hpt => (hpart pt hpt).2.2.2)
  · rename_i ot
    exact whB2R_chain_any_length eta β₁ β₂ lam ot parts es' hp hchunk (fun pt hpt => (hpart pt hpt).2)
  · rename_i ct
    exact whR2B_chain_any_length eta β₁ β₂ lam ct parts es' hp hchunk (fun pt hpt => (hpart pt hpt).2)

/-- **`whChain_eq_single_call`** — the chain equals ONE `wh.wh` call over the
    whole file from `weights=None` (any chunk size ≥ 1), at every pair of labels,
    when all parts and the single call use the same duplicate policy `p`.  That
    the whole file is accepted by `p` follows from the parts being accepted. -/
theorem whChain_eq_single_call (fl : WhFlavour) (eta β₁ β₂ lam : R) (cueTab outTab : Option (VecTable R))
    (parts : List WhPart) (p : DupPolicy) (hpol : ∀ pt ∈ parts, pt.policy = p)
    (es' : List (Event String String)) (hp : whChainPolicy parts = some es')
    (hchunk : ∀ pt ∈ parts, 1 ≤ pt.chunk) (htab : WhTablesOK fl cueTab outTab (whAllEvents parts))
    (chunk : Nat) (hc : 1 ≤ chunk) :
    ∃ s w, whChainRun fl eta β₁ β₂ lam cueTab outTab none parts = .ok s ∧
      whModel fl p eta β₁ β₂ lam cueTab outTab chunk none (whAllEvents parts) = .ok w ∧
      ∀ a b, optGet s a b = w.get a b := by
  have hpart := WhTablesOK_part fl cueTab outTab parts htab
  cases fl <;> cases cueTab <;> cases outTab <;> simp only [WhTablesOK] at htab hpart
  · rename_i ct ot
    exact whR2R_chain_eq_single_call eta β₁ β₂ lam ct ot htab.2.1.1 htab.2.1.2 parts p hpol es' hp hchunk
      (fun pt hpt => (hpart pt hpt).2.2.1) (fun pt hpt => (hpart pt hpt).2.2.2) chunk hc
  · rename_i ot
    exact whB2R_chain_eq_single_call eta β₁ β₂ lam ot parts p hpol es' hp hchunk
      (fun pt hpt => (hpart pt hpt).2) chunk hc
  · rename_i ct
    exact whR2B_chain_eq_single_call eta β₁ β₂ lam ct parts p hpol es' hp hchunk
      (fun pt hpt => (hpart pt hpt).2) chunk hc

/-- **`whChain_two`** — two calls, the second continuing from the first, all
    three flavours: both succeed and the second result is, at every pair of
    labels, the specification on the concatenation of the policy-processed parts -/
theorem whChain_two (fl : WhFlavour) (eta β₁ β₂ lam : R) (cueTab outTab : Option (VecTable R))
    (p₁ p₂ : DupPolicy) (chunk₁ chunk₂ : Nat) (hc₁ : 1 ≤ chunk₁) (hc₂ : 1 ≤ chunk₂)
    (es₁ es₂ es₁' es₂' : List (Event String String))
    (htab₁ : WhTablesOK fl cueTab outTab es₁) (htab₂ : WhTablesOK fl cueTab outTab es₂)
    (hp₁ : applyPolicyAll p₁ es₁ = some es₁') (hp₂ : applyPolicyAll p₂ es₂ = some es₂') :
    ∃ w₁ w₂, whModel fl p₁ eta β₁ β₂ lam cueTab outTab chunk₁ none es₁ = .ok w₁ ∧
      whModel fl p₂ eta β₁ β₂ lam cueTab outTab chunk₂ (some w₁) es₂ = .ok w₂ ∧
      ∀ a b, w₂.get a b = whSpecGet fl eta β₁ β₂ lam cueTab outTab (es₁' ++ es₂') a b := by
  cases fl <;> cases cueTab <;> cases outTab <;> simp only [WhTablesOK] at htab₁ htab₂
  · rename_i ct ot
    exact whR2R_chain_two eta β₁ β₂ lam ct ot htab₁.2.1.1 htab₁.2.1.2 p₁ p₂ chunk₁ chunk₂ hc₁ hc₂
      es₁ es₂ es₁' es₂' htab₁.2.2.1 htab₁.2.2.2 htab₂.2.2.1 htab₂.2.2.2 hp₁ hp₂
  · rename_i ot
    obtain ⟨w₁, w₂, a, b, _, _, c⟩ := whB2R_chain_two eta β₁ β₂ lam ot p₁ p₂ chunk₁ chunk₂ hc₁ hc₂
      es₁ es₂ es₁' es₂' htab₁.2 htab₂.2 hp₁ hp₂
    exact ⟨w₁, w₂, a, b, c⟩
  · rename_i ct
    obtain ⟨w₁, w₂, a, b, _, _, c⟩ := whR2B_chain_two eta β₁ β₂ lam ct p₁ p₂ chunk₁ chunk₂ hc₁ hc₂
      es₁ es₂ es₁' es₂' htab₁.2 htab₂.2 hp₁ hp₂
    exact ⟨w₁, w₂, a, b, c⟩

/-! ## 2b. what `whModel` returns carries the table's labels: chains never reach
   the label-tolerant branches -/

/-- the real-side labels of `w` are IDENTICAL to the dimension labels of the
    table(s) of the flavour -/
def RealLabelsMatch (fl : WhFlavour) (cueTab outTab : Option (VecTable R)) (w : LW R) : Prop :=
  match fl, cueTab, outTab with
  | .r2b, some ct, none => w.cues = ct.dims
  | .b2r, none, some ot => w.outcomes = ot.dims
  | .r2r, some ct, some ot => w.outcomes = ot.dims ∧ w.cues = ct.dims
  | _, _, _ => False

/-- **every matrix `wh.wh` returns carries the table's dimension labels** — no
    hypothesis: whatever the events, the policy, the chunk size and the given
    weights (also wrongly labelled ones the code accepts), a successful call
    labels its result with the dimensions of the table(s) -/
theorem whModel_ok_labels (fl : WhFlavour) (p : DupPolicy) (eta β₁ β₂ lam : R)
    (cueTab outTab : Option (VecTable R)) (chunk : Nat) (W0 : Option (LW R))
    (es : List (Event String String)) (r : LW R)
    (h : whModel fl p eta β₁ β₂ lam cueTab outTab chunk W0 es = .ok r) :
    RealLabelsMatch fl cueTab outTab r := by
  rcases hcn : countNames es with ⟨cuesEv, outsEv⟩
  unfold whModel at h
  rw [hcn] at h
  cases fl <;> cases cueTab <;> cases outTab <;> simp only [RealLabelsMatch] <;> simp only at h
  all_goals try (cases h)
  all_goals
    repeat' split at h
    all_goals first
      | (cases h; done)
      | (cases h; exact rfl)
      | (cases h; exact ⟨rfl, rfl⟩)

/-- **real → binary accepts given weights ONLY IF** they have the table's number
    of columns and the label comparison does not raise (converse of
    `whModel_r2b_continue_pos`) -/
theorem whModel_r2b_ok_only_if (p : DupPolicy) (eta β₁ β₂ lam : R) (ct : VecTable R)
    (chunk : Nat) (w : LW R) (es : List (Event String String)) (r : LW R)
    (h : whModel .r2b p eta β₁ β₂ lam (some ct) none chunk (some w) es = .ok r) :
    w.cues.length = ct.dims.length ∧ ¬ alignRaises ct.dims w.cues := by
  by_cases hal : alignRaises ct.dims w.cues
  · rw [whModel_r2b_alignError p eta β₁ β₂ lam ct chunk w es hal] at h; cases h
  · by_cases hlen : w.cues.length = ct.dims.length
    · exact ⟨hlen, hal⟩
    · rw [whModel_r2b_widthError p eta β₁ β₂ lam ct chunk w es hlen] at h; cases h

/-- **binary → real accepts given weights ONLY IF** their row labels are the
    table's outcome vector dimensions, in order -/
theorem whModel_b2r_ok_only_if (p : DupPolicy) (eta β₁ β₂ lam : R) (ot : VecTable R)
    (chunk : Nat) (w : LW R) (es : List (Event String String)) (r : LW R)
    (h : whModel .b2r p eta β₁ β₂ lam none (some ot) chunk (some w) es = .ok r) :
    w.outcomes = ot.dims := by
  by_contra hne
  rw [whModel_b2r_labelError p eta β₁ β₂ lam ot chunk w es hne] at h
  cases h

/-- **real → real accepts given weights ONLY IF** their labels are permutations
    of the tables' dimension labels and those are duplicate-free (converse of
    `whModel_r2r_continue_perm`) -/
theorem whModel_r2r_ok_only_if (p : DupPolicy) (eta β₁ β₂ lam : R) (ct ot : VecTable R)
    (chunk : Nat) (w : LW R) (es : List (Event String String)) (r : LW R)
    (h : whModel .r2r p eta β₁ β₂ lam (some ct) (some ot) chunk (some w) es = .ok r) :
    w.outcomes.Perm ot.dims ∧ w.cues.Perm ct.dims ∧ ot.dims.Nodup ∧ ct.dims.Nodup := by
  have hsh : ¬ (w.outcomes.length ≠ ot.dims.length ∨ w.cues.length ≠ ct.dims.length) := by
    intro hsh
    rw [whModel_r2r_shapeError p eta β₁ β₂ lam ct ot chunk w es hsh] at h; cases h
  have hal : ¬ (alignRaises ot.dims w.outcomes ∨ alignRaises ct.dims w.cues) := by
    intro hal
    rw [whModel_r2r_alignError p eta β₁ β₂ lam ct ot chunk w es hal] at h; cases h
  have hleno : w.outcomes.length = ot.dims.length := by
    by_contra hc; exact hsh (Or.inl hc)
  have hlenc : w.cues.length = ct.dims.length := by
    by_contra hc; exact hsh (Or.inr hc)
  have hal1 : ¬ alignRaises ot.dims w.outcomes := fun x => hal (Or.inl x)
  have hal2 : ¬ alignRaises ct.dims w.cues := fun x => hal (Or.inr x)
  -- the two label selections succeeded
  have hloc : locAxis w.outcomes ot.dims = none ∧ locAxis w.cues ct.dims = none := by
    rcases hcn : countNames es with ⟨cuesEv, outsEv⟩
    unfold whModel at h
    rw [hcn] at h
    simp only [hleno, hlenc, ne_eq, not_true_eq_false, or_self, if_false, if_neg hal1, if_neg hal2] at h
    split at h
    · cases h
    · split at h
      · cases h
      · cases h1 : locAxis w.outcomes ot.dims with
        | some e => rw [h1] at h; simp only at h; cases h
        | none =>
          cases h2 : locAxis w.cues ct.dims with
          | some e => rw [h1, h2] at h; simp only at h; cases h
          | none => exact ⟨rfl, rfl⟩
  have key : ∀ (old wanted : List String), old.length = wanted.length → ¬ alignRaises wanted old →
      locAxis old wanted = none → old.Perm wanted ∧ wanted.Nodup := by
    intro old wanted hlen hal hl
    have hn : old.Nodup := by
      by_contra hn
      rw [locAxis_dup old wanted hn] at hl; cases hl
    have hsub : ∀ d ∈ wanted, d ∈ old := by
      intro d hd
      by_contra hdo
      rw [locAxis_missing old wanted hn ⟨d, hd, hdo⟩] at hl; cases hl
    have hwn : wanted.Nodup := by
      by_cases he : wanted = old
      · rw [he]; exact hn
      · by_contra hwn
        exact hal ⟨he, fun hh => hwn hh.1⟩
    refine ⟨?_, hwn⟩
    exact ((List.subperm_of_subset hwn hsub).perm_of_length_le (by omega)).symm
  obtain ⟨p1, n1⟩ := key _ _ hleno hal1 hloc.1
  obtain ⟨p2, n2⟩ := key _ _ hlenc hal2 hloc.2
  exact ⟨p1, p2, n1, n2⟩

/-- **in a chain every `weights=` argument carries the table's labels**: started
    from `weights=None` (or from weights with the table's labels), the state a
    chain hands to its next call always has real-side labels IDENTICAL to the
    table's dimensions — so the branches of `whModel` that tolerate other labels
    (real → binary: positional use; real → real: re-alignment) are never reached
    inside a chain, and the chain theorems are unaffected by them.  No
    hypothesis on events, policies or chunk sizes. -/
theorem whChainRun_state_labels (fl : WhFlavour) (eta β₁ β₂ lam : R) (cueTab outTab : Option (VecTable R))
    (parts : List WhPart) (s s' : Option (LW R))
    (hs : ∀ w, s = some w → RealLabelsMatch fl cueTab outTab w)
    (h : whChainRun fl eta β₁ β₂ lam cueTab outTab s parts = .ok s') :
    ∀ w, s' = some w → RealLabelsMatch fl cueTab outTab w := by
  induction parts generalizing s with
  | nil =>
    simp only [whChainRun, Except.ok.injEq] at h
    subst h
    exact hs
  | cons pt ps ih =>
    simp only [whChainRun] at h
    cases hm : whModel fl pt.policy eta β₁ β₂ lam cueTab outTab pt.chunk s pt.events with
    | error e => rw [hm] at h; cases h
    | ok r =>
      rw [hm] at h
      exact ih (some r) (fun w hw => by
        cases hw
        exact whModel_ok_labels fl pt.policy eta β₁ β₂ lam cueTab outTab pt.chunk s pt.events r hm) h

/-- a chain over `ps₁ ++ ps₂` is the chain over `ps₁` followed by the chain over `ps₂` -/
theorem whChainRun_append (fl : WhFlavour) (eta β₁ β₂ lam : R) (cueTab outTab : Option (VecTable R))
    (ps₁ ps₂ : List WhPart) (s : Option (LW R)) :
    whChainRun fl eta β₁ β₂ lam cueTab outTab s (ps₁ ++ ps₂)
      = match whChainRun fl eta β₁ β₂ lam cueTab outTab s ps₁ with
        | .error e => .error e
        | .ok s₁ => whChainRun fl eta β₁ β₂ lam cueTab outTab s₁ ps₂ := by
  induction ps₁ generalizing s with
  | nil => rfl
  | cons pt ps ih =>
    simp only [List.cons_append, whChainRun]
    cases hm : whModel fl pt.policy eta β₁ β₂ lam cueTab outTab pt.chunk s pt.events with
    | error e => rfl
    | ok r => exact ih (some r)

/-! ## 4. the ORDER of the appended binary-side labels is irrelevant

wh.py appends `list(set(new) - set(old))` — Python's set order — where the model
`whModel` appends in counting order.  `whModelWith nl` takes the appended block
as a parameter; the continuation theorems hold for EVERY block that contains
the new names of the events (`NewCovers`), with the same right-hand side, so
the weights read through the labels do not depend on the order
(`whModelWith_b2r_get_eq`, `whModelWith_r2b_get_eq`). -/

/-- the block `nl old ev` appended to `old` contains every name of `ev` that is
    not in `old` (true of every arrangement of `set(ev) - set(old)`) -/
def NewCovers (nl : List String → List String → List String) (old ev : List String) : Prop :=
  ∀ x ∈ ev, x ∈ old ++ nl old ev

theorem newCovers_of_perm (nl : List String → List String → List String) (old ev : List String)
    (h : (nl old ev).Perm (countingNew old ev)) : NewCovers nl old ev := by
  intro x hx
  have := mem_append_filter_new old ev x hx
  rcases List.mem_append.mp this with h1 | h1
  · exact List.mem_append_left _ h1
  · exact List.mem_append_right _ (h.mem_iff.mpr h1)

theorem newCovers_counting (old ev : List String) : NewCovers countingNew old ev :=
  newCovers_of_perm countingNew old ev (List.Perm.refl _)

/-- `whModel` is `whModelWith` with the counting order -/
theorem whModel_eq_with (fl : WhFlavour) (p : DupPolicy) (eta β₁ β₂ lam : R)
    (cueTab outTab : Option (VecTable R)) (chunk : Nat) (W0 : Option (LW R))
    (es : List (Event String String)) :
    whModel fl p eta β₁ β₂ lam cueTab outTab chunk W0 es
      = whModelWith countingNew fl p eta β₁ β₂ lam cueTab outTab chunk W0 es := by
  unfold whModelWith
  cases fl <;> cases cueTab <;> cases outTab <;> rfl

/-- **continued binary → real call, ANY order of the appended cue labels**
    (`whModel_b2r_continue` for `whModelWith nl`): same hypotheses plus
    `NewCovers`; the cue labels are `w.cues ++ nl …` and the row every outcome
    dimension denotes is the SAME specification `whB2RSpecFrom … w.byCue es'`. -/
theorem whModelWith_b2r_continue (nl : List String → List String → List String)
    (p : DupPolicy) (eta β₁ β₂ lam : R) (ot : VecTable R)
    (chunk : Nat) (hc : 1 ≤ chunk) (w : LW R) (es es' : List (Event String String))
    (htabo : ∀ e ∈ es, ∀ o ∈ e.outcomes, o ∈ ot.names)
    (hp : applyPolicyAll p es = some es') (hlab : w.outcomes = ot.dims)
    (hnl : NewCovers nl w.cues (countNames es).1) :
    ∃ r, whModelWith nl .b2r p eta β₁ β₂ lam none (some ot) chunk (some w) es = .ok r ∧
      r.outcomes = ot.dims ∧
      r.cues = w.cues ++ nl w.cues (countNames es).1 ∧
      r.vals.size = r.cues.length * ot.dims.length ∧
      ∀ d, d < ot.dims.length → r.byCue d = whB2RSpecFrom eta ot w.byCue es' d := by
  have hchko := (tableCheck_outcomes_iff ot.names es).mpr htabo
  have hmem1 : ∀ e ∈ es, ∀ c ∈ e.cues, c ∈ (countNames es).1 := fun e he => (countNames_mem es e he).1
  rcases hcn : countNames es with ⟨cuesEv, outsEv⟩
  rw [hcn] at hchko hmem1 hnl
  simp only at hchko hmem1 hnl ⊢
  have hlen : w.outcomes.length = ot.dims.length := by rw [hlab]
  set cues := w.cues ++ nl w.cues cuesEv with hcues
  have hcs : ∀ e ∈ es, ∀ c ∈ e.cues, c ∈ cues := fun e he c hc => hnl c (hmem1 e he c hc)
  have hpid := applyPolicyIds_toIds p cues ot.names es es' hcs htabo hp
  have hes' := applyPolicyAll_cues p es es' hp (· ∈ cues) hcs
  have hw0 : (extendVals w.vals ot.dims.length w.cues.length ot.dims.length cues.length).size
      = cues.length * ot.dims.length := by
    rw [size_extendVals, Nat.mul_comm]
  have hev : ∀ e ∈ [es'.map (toIds cues ot.names)].flatten, ∀ c ∈ e.cues, c < cues.length := by
    intro e he c hc
    simp only [List.flatten_cons, List.flatten_nil, List.append_nil] at he
    obtain ⟨e0, he0, rfl⟩ := List.mem_map.mp he
    obtain ⟨c0, hc0, rfl⟩ := List.mem_map.mp hc
    exact List.idxOf_lt_length_iff.mpr (hes' e0 he0 c0 hc0)
  have hstep := whB2R_rowstep eta ot.vals ot.dims.length cues.length
  have hrow := fun i hi => learnOmpWith_row hstep [es'.map (toIds cues ot.names)] chunk hc hev _ hw0 i hi
  have hsize := learnOmpWith_size hstep [es'.map (toIds cues ot.names)] chunk hc hev _ hw0
  refine ⟨⟨ot.dims, cues, learnOmpWith
      (fun w d e => whB2RRowEvent eta ot.vals ot.dims.length cues.length w d e.cues e.outcomes)
      [es'.map (toIds cues ot.names)] (List.range ot.dims.length) chunk
      (extendVals w.vals ot.dims.length w.cues.length ot.dims.length cues.length)⟩,
    ?_, rfl, rfl, hsize, ?_⟩
  · unfold whModelWith
    rw [hcn]
    have h2 : ¬ chunk < 1 := by omega
    simp only [hchko, hlab, hpid, h2, if_false, Bool.false_eq_true, ne_eq, not_true_eq_false, ← hcues]
  · intro d hd
    funext c
    by_cases hcm : c ∈ cues
    · rw [LW.byCue_eq_rowFn _ d hd c hcm]
      simp only
      rw [hrow _ hd]
      simp only [List.flatten_cons, List.flatten_nil, List.append_nil]
      unfold whB2RSpecFrom
      refine whB2R_rename eta ot cues d es' hes' _ _ ?_ c hcm
      intro x hx
      have hj : cues.idxOf x < cues.length := List.idxOf_lt_length_iff.mpr hx
      unfold rowFn flatIdx LW.byCue
      rw [if_pos hj, Nat.mul_comm, extendVals_get _ _ _ _ _ _ _ hd hj, hlen]
      by_cases hxw : x ∈ w.cues
      · have e1 : cues.idxOf x = w.cues.idxOf x := idxOf_append_mem _ _ _ hxw
        rw [e1]
      · have l1 : ¬ (w.cues.idxOf x < w.cues.length) := by
          rw [List.idxOf_lt_length_iff]; exact hxw
        have g1 : ¬ (cues.idxOf x < w.cues.length) := by
          rw [hcues, List.idxOf_append_of_notMem hxw]; omega
        rw [if_neg (fun h => g1 h.2), if_neg (fun h => l1 h.2)]
    · have hcw : c ∉ w.cues := fun h => hcm (List.mem_append_left _ h)
      rw [LW.byCue_not_mem _ d c hcm,
        whB2RSpecFrom_unseen_cue eta ot _ es' d c (fun e he hce => hcm (hes' e he c hce)),
        LW.byCue_not_mem w d c hcw]

/-- **continued real → binary call, ANY order of the appended outcome labels**
    (`whModel_r2b_continue_pos` for `whModelWith nl`) -/
theorem whModelWith_r2b_continue_pos (nl : List String → List String → List String)
    (p : DupPolicy) (eta β₁ β₂ lam : R) (ct : VecTable R)
    (chunk : Nat) (hc : 1 ≤ chunk) (w : LW R) (es es' : List (Event String String))
    (htab : ∀ e ∈ es, ∀ c ∈ e.cues, c ∈ ct.names)
    (hp : applyPolicyAll p es = some es') (hlen : w.cues.length = ct.dims.length)
    (hal : ¬ alignRaises ct.dims w.cues)
    (hnl : NewCovers nl w.outcomes (countNames es).2) :
    ∃ r, whModelWith nl .r2b p eta β₁ β₂ lam (some ct) none chunk (some w) es = .ok r ∧
      r.outcomes = w.outcomes ++ nl w.outcomes (countNames es).2 ∧
      r.cues = ct.dims ∧ r.vals.size = ct.dims.length * r.outcomes.length ∧
      r.byOutcome = whR2BSpecFrom β₁ β₂ lam ct w.byOutcome es' := by
  have hchk := (tableCheck_cues_iff ct.names es).mpr htab
  have hmem2 : ∀ e ∈ es, ∀ o ∈ e.outcomes, o ∈ (countNames es).2 := fun e he => (countNames_mem es e he).2
  rcases hcn : countNames es with ⟨cuesEv, outsEv⟩
  rw [hcn] at hchk hmem2 hnl
  simp only at hchk hmem2 hnl ⊢
  set outs := w.outcomes ++ nl w.outcomes outsEv with houts
  have hos : ∀ e ∈ es, ∀ o ∈ e.outcomes, o ∈ outs := fun e he o ho => hnl o (hmem2 e he o ho)
  have hpid := applyPolicyIds_toIds p ct.names outs es es' htab hos hp
  have hes' := applyPolicyAll_outcomes p es es' hp (· ∈ outs) hos
  have hw0 : (extendVals w.vals w.outcomes.length ct.dims.length outs.length ct.dims.length).size
      = ct.dims.length * outs.length := by
    rw [size_extendVals, Nat.mul_comm]
  have hstep := whR2B_rowstep β₁ β₂ lam ct.vals ct.dims.length outs.length
  have hrow := fun i hi => learnOmpWith_row hstep [es'.map (toIds ct.names outs)] chunk hc
    (fun _ _ => trivial) _ hw0 i hi
  have hsize := learnOmpWith_size hstep [es'.map (toIds ct.names outs)] chunk hc (fun _ _ => trivial) _ hw0
  refine ⟨⟨outs, ct.dims, learnOmpWith
      (fun w ii e => whR2BRowEvent β₁ β₂ lam ct.vals ct.dims.length w ii e.cues e.outcomes)
      [es'.map (toIds ct.names outs)] (List.range outs.length) chunk
      (extendVals w.vals w.outcomes.length ct.dims.length outs.length ct.dims.length)⟩,
    ?_, rfl, rfl, hsize, ?_⟩
  · unfold whModelWith
    rw [hcn]
    have h2 : ¬ chunk < 1 := by omega
    simp only [hchk, hlen, hpid, h2, if_false, Bool.false_eq_true, ne_eq, not_true_eq_false, ← houts,
      if_neg hal]
  · funext o
    by_cases ho : o ∈ outs
    · have hi : outs.idxOf o < outs.length := List.idxOf_lt_length_iff.mpr ho
      rw [LW.byOutcome_eq_rowFn _ o ho]
      simp only
      rw [hrow _ hi]
      simp only [List.flatten_cons, List.flatten_nil, List.append_nil]
      rw [whR2B_rename β₁ β₂ lam ct outs o ho es' hes']
      unfold whR2BSpecFrom
      congr 1
      funext k
      unfold rowFn flatIdx LW.byOutcome
      by_cases hk : k < ct.dims.length
      · rw [if_pos hk, Nat.mul_comm, extendVals_get _ _ _ _ _ _ _ hi hk, hlen]
        by_cases how : o ∈ w.outcomes
        · have e1 : outs.idxOf o = w.outcomes.idxOf o := idxOf_append_mem _ _ _ how
          rw [e1]
        · have l1 : ¬ (w.outcomes.idxOf o < w.outcomes.length) := by
            rw [List.idxOf_lt_length_iff]; exact how
          have g1 : ¬ (outs.idxOf o < w.outcomes.length) := by
            rw [houts, List.idxOf_append_of_notMem how]; omega
          rw [if_neg (fun h => g1 h.1), if_neg (fun h => l1 h.1)]
      · rw [if_neg hk, hlen, if_neg (fun h => hk h.2)]
    · have how : o ∉ w.outcomes := fun h => ho (List.mem_append_left _ h)
      rw [LW.byOutcome_not_mem _ o ho,
        whR2BSpecFrom_unseen β₁ β₂ lam ct _ es' o (LW.byOutcome_not_mem w o how)
          (fun e he hoe => ho (hes' e he o hoe))]

/-- **binary → real: any order of the appended cue labels gives the same
    weights through the labels** as the model's counting order -/
theorem whModelWith_b2r_get_eq (nl : List String → List String → List String)
    (p : DupPolicy) (eta β₁ β₂ lam : R) (ot : VecTable R)
    (chunk : Nat) (hc : 1 ≤ chunk) (w : LW R) (es es' : List (Event String String))
    (htabo : ∀ e ∈ es, ∀ o ∈ e.outcomes, o ∈ ot.names)
    (hp : applyPolicyAll p es = some es') (hlab : w.outcomes = ot.dims)
    (hnl : NewCovers nl w.cues (countNames es).1) :
    ∃ r r', whModel .b2r p eta β₁ β₂ lam none (some ot) chunk (some w) es = .ok r ∧
      whModelWith nl .b2r p eta β₁ β₂ lam none (some ot) chunk (some w) es = .ok r' ∧
      r'.outcomes = r.outcomes ∧
      r.cues = w.cues ++ countingNew w.cues (countNames es).1 ∧
      r'.cues = w.cues ++ nl w.cues (countNames es).1 ∧
      ∀ a b, r'.get a b = r.get a b := by
  obtain ⟨r, h1, h2, h3, _, h5⟩ := whModel_b2r_continue p eta β₁ β₂ lam ot chunk hc w es es' htabo hp hlab
  obtain ⟨r', g1, g2, g3, _, g5⟩ :=
    whModelWith_b2r_continue nl p eta β₁ β₂ lam ot chunk hc w es es' htabo hp hlab hnl
  refine ⟨r, r', h1, g1, by rw [g2, h2], h3, g3, ?_⟩
  intro a b
  rw [LW.get_eq_byCue, LW.get_eq_byCue, g2, h2]
  by_cases hd : a ∈ ot.dims
  · rw [if_pos hd, if_pos hd, g5 _ (List.idxOf_lt_length_iff.mpr hd), h5 _ (List.idxOf_lt_length_iff.mpr hd)]
  · rw [if_neg hd, if_neg hd]

/-- **real → binary: any order of the appended outcome labels gives the same
    weights through the labels** -/
theorem whModelWith_r2b_get_eq (nl : List String → List String → List String)
    (p : DupPolicy) (eta β₁ β₂ lam : R) (ct : VecTable R)
    (chunk : Nat) (hc : 1 ≤ chunk) (w : LW R) (es es' : List (Event String String))
    (htab : ∀ e ∈ es, ∀ c ∈ e.cues, c ∈ ct.names)
    (hp : applyPolicyAll p es = some es') (hlen : w.cues.length = ct.dims.length)
    (hal : ¬ alignRaises ct.dims w.cues)
    (hnl : NewCovers nl w.outcomes (countNames es).2) :
    ∃ r r', whModel .r2b p eta β₁ β₂ lam (some ct) none chunk (some w) es = .ok r ∧
      whModelWith nl .r2b p eta β₁ β₂ lam (some ct) none chunk (some w) es = .ok r' ∧
      r'.cues = r.cues ∧
      r.outcomes = w.outcomes ++ countingNew w.outcomes (countNames es).2 ∧
      r'.outcomes = w.outcomes ++ nl w.outcomes (countNames es).2 ∧
      ∀ a b, r'.get a b = r.get a b := by
  obtain ⟨r, h1, h2, h3, _, h5⟩ := whModel_r2b_continue_pos p eta β₁ β₂ lam ct chunk hc w es es' htab hp hlen hal
  obtain ⟨r', g1, g2, g3, _, g5⟩ :=
    whModelWith_r2b_continue_pos nl p eta β₁ β₂ lam ct chunk hc w es es' htab hp hlen hal hnl
  refine ⟨r, r', h1, g1, by rw [g3, h3], h2, g2, ?_⟩
  intro a b
  rw [LW.get_eq_byOutcome, LW.get_eq_byOutcome, g3, h3, g5, h5]

end Pyndl
