/-
  PyndlProofs.NdlEntry — `ndl.ndl` assembled from the kernel ENTRY POINTS as
  they are called (`learnChunksB2B`, PyndlModel/Bytes.lean), and the proof that
  this is `ndlCall`.

  `ndlCore` (PyndlModel/Ndl.lean) decodes the chunk files once and folds the
  kernels over the decoded events; the zero-event behaviour of the real call —
  `IOError` because an entry point that is called with an EMPTY file list keeps
  its `INITIAL_ERROR_CODE` — is added by hand in `ndlCall`.  Here the same
  function is built the way the code runs it:

    * threading: `part_lists = slice_list(all_outcome_indices, n_outcomes_per_job)`,
      ONE call `ndl_parallel.learn_inplace_binary_to_binary(binary_files, …, part)`
      per part (worker loop, ndl.py:253-274), the first exception is raised
      after all workers have joined;
    * OpenMP: ONE call `ndl_openmp.learn_inplace_binary_to_binary(binary_files, …)`
      whose loop over the files runs the parts (`ompParts32`) inside each file;
    * every entry-point call is `learnChunksB2B` on the chunk FILES (bytes): it
      decodes each file with the kernel reader, and reports `noFile` on `[]`.

  `ndlCallEntry_nil`: on an event file with ZERO events this model gives exactly
  `ndlCall`'s hand-written rule — for every method, chunking argument and
  `weights=` — so "OpenMP: always `IOError`; threading: `IOError` iff there is a
  part, i.e. an outcome row" is a theorem about `learnChunksB2B` and `sliceList`.
  `ndlCoreEntry_eq_ndlCore` / `ndlCallEntry_eq_ndlCall`: on at least one event,
  under the hypotheses of the end-to-end theorems, it IS `ndlCore` / `ndlCall`.
-/
import PyndlProofs.NdlCall

set_option linter.unusedSectionVars false
set_option linter.unusedVariables false

namespace Pyndl
open List

section
variable {R : Type} [Add R] [Sub R] [Mul R] [Zero R]

/-- the worker loop of `method='threading'`: one entry-point call per part over
    ALL chunk files; the first error is kept (raised after `join`) -/
def threadingEntryCalls (magic version : Nat) (alpha β₁ β₂ lam : R) (nCues : Nat) (files : List Bytes)
    (parts : List (List Nat)) (w : Array R) : Array R × Option ReadErr :=
  parts.foldl (fun acc rows =>
    let r := learnChunksB2B magic version (fun w es => kernelFile alpha β₁ β₂ lam nCues rows w es) files acc.1
    (r.1, match acc.2 with | some e => some e | none => r.2)) (w, none)

/-- the one entry-point call of `method='openmp'` -/
def openmpEntryCall (magic version : Nat) (alpha β₁ β₂ lam : R) (nCues : Nat) (files : List Bytes)
    (allOut : List Nat) (chunk : Nat) (w : Array R) : Array R × Option ReadErr :=
  learnChunksB2B magic version
    (fun w f => (ompParts32 allOut chunk).foldl (fun w rows => kernelFile alpha β₁ β₂ lam nCues rows w f) w) files w

/-- `ndlCore` with the learning stage run through the entry points on the chunk
    FILES; an error an entry point reports becomes `IOError` (ndl_parallel.pyx:84-87,
    ndl_openmp.pyx:65-67) -/
def ndlCoreEntry (magic version : Nat) (cfg : NdlCfg) (alpha β₁ β₂ lam : R) (cues outs : List String)
    (vals : Array R) (es : List (Event String String)) : Except Err (LW R × Nat) :=
  if cfg.perFile < 2 then .error .value else
  let ids := es.map (toIds cues outs)
  match makeChunks magic version cfg.policy ids cfg.perFile with
  | .error e => .error e
  | .ok (files, total) =>
    let allOut := List.range outs.length
    match cfg.method with
    | .threading =>
      if cfg.perJob < 1 then .error .value else
      match threadingEntryCalls magic version alpha β₁ β₂ lam cues.length files (sliceList allOut cfg.perJob) vals with
      | (_, some _) => .error .io
      | (v, none) => .ok (⟨outs, cues, v⟩, total)
    | .openmp =>
      if 4294967296 ≤ cfg.perJob then .error .other
      else if cfg.perJob < 1 ∧ !files.isEmpty then .error .other
      else
        match openmpEntryCall magic version alpha β₁ β₂ lam cues.length files allOut cfg.perJob vals with
        | (_, some _) => .error .io
        | (v, none) => .ok (⟨outs, cues, v⟩, total)

/-- `ndl.ndl` as called, through the entry points: labels and initial values as in
    `ndlModel`, then `ndlCoreEntry` — NO separate zero-event rule -/
def ndlCallEntry (magic version : Nat) (cfg : NdlCfg) (alpha β₁ β₂ lam : R) (W0 : Option (LW R))
    (es : List (Event String String)) : Except Err (LW R × Nat) :=
  let (cuesNew, outsNew) := countNames es
  match W0 with
  | none =>
    ndlCoreEntry magic version cfg alpha β₁ β₂ lam cuesNew outsNew
      (Array.replicate (outsNew.length * cuesNew.length) 0) es
  | some w =>
    let cues := w.cues ++ cuesNew.filter (fun c => !w.cues.contains c)
    let outs := w.outcomes ++ outsNew.filter (fun o => !w.outcomes.contains o)
    ndlCoreEntry magic version cfg alpha β₁ β₂ lam cues outs
      (extendVals w.vals w.outcomes.length w.cues.length outs.length cues.length) es

/-! ### an entry point on decodable files is the fold over the decoded events -/

theorem learnChunks_of_decodeAll {σ : Type} (magic version : Nat) (learnFile : σ → List (Event Nat Nat) → σ)
    (files : List Bytes) (chunks : List (List (Event Nat Nat)))
    (h : decodeAll magic version files = .ok chunks) (w : σ) :
    learnChunks magic version learnFile files w = (chunks.foldl learnFile w, none) := by
  induction files generalizing chunks w with
  | nil =>
    simp only [decodeAll, Except.ok.injEq] at h
    subst h; rfl
  | cons f fs ih =>
    unfold decodeAll at h
    cases hd : decodeChunkKernel magic version f with
    | error e => rw [hd] at h; cases h
    | ok r =>
      obtain ⟨es, hist⟩ := r
      rw [hd] at h
      simp only at h
      cases hr : decodeAll magic version fs with
      | error e => rw [hr] at h; cases h
      | ok rest =>
        rw [hr] at h
        simp only [Except.ok.injEq] at h
        subst h
        simp only [learnChunks, hd, List.foldl_cons]
        exact ih rest hr _

theorem threadingEntryCalls_nil_files (magic version : Nat) (alpha β₁ β₂ lam : R) (nCues : Nat)
    (parts : List (List Nat)) (w : Array R) :
    threadingEntryCalls magic version alpha β₁ β₂ lam nCues [] parts w
      = (w, if parts.isEmpty then none else some .noFile) := by
  unfold threadingEntryCalls
  have gen : ∀ (parts : List (List Nat)) (e : Option ReadErr),
      parts.foldl (fun (acc : Array R × Option ReadErr) (_ : List Nat) =>
        (acc.1, match acc.2 with | some e => some e | none => some ReadErr.noFile)) (w, e)
      = (w, match e with | some e => some e | none => if parts.isEmpty then none else some .noFile) := by
    intro parts
    induction parts with
    | nil => intro e; cases e <;> rfl
    | cons p ps ih =>
      intro e
      simp only [List.foldl_cons]
      rw [ih]
      cases e <;> simp
  simp only [learnChunksB2B]
  exact gen parts none

theorem threadingEntryCalls_of_decodeAll (magic version : Nat) (alpha β₁ β₂ lam : R) (nCues : Nat)
    (files : List Bytes) (hne : files ≠ []) (chunks : List (List (Event Nat Nat)))
    (h : decodeAll magic version files = .ok chunks) (parts : List (List Nat)) (w : Array R) :
    threadingEntryCalls magic version alpha β₁ β₂ lam nCues files parts w
      = (parts.foldl (kernelPart alpha β₁ β₂ lam nCues chunks) w, none) := by
  unfold threadingEntryCalls
  induction parts generalizing w with
  | nil => rfl
  | cons p ps ih =>
    simp only [List.foldl_cons]
    rw [learnChunksB2B_of_ne_nil _ _ _ _ hne, learnChunks_of_decodeAll _ _ _ _ _ h]
    exact ih _

theorem sliceList_isEmpty {α : Type} (xs : List α) (n : Nat) : (sliceList xs n).isEmpty = xs.isEmpty := by
  unfold sliceList
  cases xs with
  | nil => rfl
  | cons a t => rfl

/-! ### zero events: the hand-written rule of `ndlCall` is what the entry points do -/

theorem ndlCoreEntry_nil (magic version : Nat) (cfg : NdlCfg) (alpha β₁ β₂ lam : R) (cues outs : List String)
    (vals : Array R) :
    ndlCoreEntry magic version cfg alpha β₁ β₂ lam cues outs vals []
      = match ndlCore magic version cfg alpha β₁ β₂ lam cues outs vals [] with
        | .error e => .error e
        | .ok (w, n) =>
          match cfg.method with
          | .openmp => .error .io
          | .threading => if w.outcomes.isEmpty then .ok (w, n) else .error .io := by
  unfold ndlCoreEntry ndlCore
  by_cases h1 : cfg.perFile < 2
  · simp only [h1, if_true]
  · simp only [h1, if_false, List.map_nil]
    by_cases h2 : 4294967296 ≤ cfg.perFile
    · have : makeChunks magic version cfg.policy [] cfg.perFile = .error .other := by
        unfold makeChunks; rw [if_pos h2]
      simp only [this]
    · rw [makeChunks_nil magic version cfg.policy cfg.perFile (by omega) (by omega)]
      simp only [decodeAll]
      cases hmeth : cfg.method with
      | threading =>
        simp only
        by_cases h3 : cfg.perJob < 1
        · simp only [h3, if_true]
        · simp only [h3, if_false]
          rw [threadingEntryCalls_nil_files, sliceList_isEmpty]
          cases houts : outs with
          | nil => simp [learnThreadingSeq, sliceList, sliceList.go]
          | cons o os => simp
      | openmp =>
        simp only
        by_cases h3 : 4294967296 ≤ cfg.perJob
        · simp only [h3, if_true]
        · simp only [h3, if_false, List.isEmpty_nil, Bool.not_true, Bool.false_eq_true, and_false]
          rfl

/-- **the zero-event rule of `ndlCall` is a theorem about the entry points**: on an
    event file with zero events, `ndl.ndl` assembled from `learnChunksB2B` calls
    (one per part for threading, one for OpenMP) IS `ndlCall` — for every
    configuration and every `weights=`.  In words: the argument checks and the
    conversion come first; then OpenMP always raises `IOError` (its one call sees
    no file), threading raises iff `slice_list` yields a part, i.e. iff there is
    an outcome row. -/
theorem ndlCallEntry_nil (magic version : Nat) (cfg : NdlCfg) (alpha β₁ β₂ lam : R) (W0 : Option (LW R)) :
    ndlCallEntry magic version cfg alpha β₁ β₂ lam W0 []
      = ndlCall magic version cfg alpha β₁ β₂ lam W0 [] := by
  unfold ndlCallEntry ndlCall ndlModel
  cases W0 with
  | none =>
    simp only [List.isEmpty_nil, if_true]
    rw [ndlCoreEntry_nil]
    generalize ndlCore (R := R) _ _ _ _ _ _ _ _ _ _ _ = x
    cases x with
    | error e => rfl
    | ok r => rfl
  | some w =>
    simp only [List.isEmpty_nil, if_true]
    rw [ndlCoreEntry_nil]
    generalize ndlCore (R := R) _ _ _ _ _ _ _ _ _ _ _ = x
    cases x with
    | error e => rfl
    | ok r => rfl

end

section
variable {R : Type} [CommRing R]

/-! ### at least one event: the entry-point model is `ndlCore` -/

/-- under the hypotheses of the end-to-end theorem (the policy accepts the events,
    labels contain the names, 32-bit limits, legal `events_per_temporary_file`)
    and at least one event, running the entry points on the chunk files is
    `ndlCore` — whatever `n_outcomes_per_job` and the method are (also where both
    raise) -/
theorem ndlCoreEntry_eq_ndlCore (magic version : Nat) (hm : magic < 4294967296) (hv : version < 4294967296)
    (cfg : NdlCfg) (alpha β₁ β₂ lam : R) (cues outs : List String)
    (hper : 2 ≤ cfg.perFile) (hperU : cfg.perFile < 4294967296)
    (hnc : cues.length < 4294967296) (hno : outs.length < 4294967296) (vals : Array R)
    (es es' : List (Event String String)) (hne : es ≠ []) (hp : applyPolicyAll cfg.policy es = some es')
    (hmemc : ∀ e ∈ es, ∀ c ∈ e.cues, c ∈ cues) (hmemo : ∀ e ∈ es, ∀ o ∈ e.outcomes, o ∈ outs)
    (hn : es.length < 4294967296)
    (hpe : ∀ e ∈ es, e.cues.length < 4294967296 ∧ e.outcomes.length < 4294967296) :
    ndlCoreEntry magic version cfg alpha β₁ β₂ lam cues outs vals es
      = ndlCore magic version cfg alpha β₁ β₂ lam cues outs vals es := by
  obtain ⟨chunks, hmk, hdec, _, hcne, _⟩ := convert_ok magic version hm hv cfg.policy cfg.perFile
    (by omega) hperU cues outs hnc hno es es' hp hmemc hmemo hn hpe
  have hfne : chunks.map (encodeChunk magic version) ≠ [] := by
    intro h
    exact hcne hne (List.map_eq_nil_iff.mp h)
  have hfe : (chunks.map (encodeChunk magic version)).isEmpty = chunks.isEmpty := by
    cases chunks <;> rfl
  unfold ndlCoreEntry ndlCore
  have h1 : ¬ cfg.perFile < 2 := by omega
  simp only [h1, if_false, hmk, hdec]
  cases hmeth : cfg.method with
  | threading =>
    simp only
    by_cases h3 : cfg.perJob < 1
    · simp only [h3, if_true]
    · simp only [h3, if_false]
      rw [threadingEntryCalls_of_decodeAll _ _ _ _ _ _ _ _ hfne chunks hdec]
      rfl
  | openmp =>
    simp only
    by_cases h3 : 4294967296 ≤ cfg.perJob
    · simp only [h3, if_true]
    · simp only [h3, if_false, hfe]
      by_cases h4 : cfg.perJob < 1 ∧ (!chunks.isEmpty) = true
      · simp only [h4, and_self, if_true]
      · simp only [h4, if_false]
        unfold openmpEntryCall
        rw [learnChunksB2B_of_ne_nil _ _ _ _ hfne, learnChunks_of_decodeAll _ _ _ _ _ hdec]
        rfl

/-- **`ndl.ndl` through the entry points = `ndlCall`**, from scratch, on at least
    one event, under the hypotheses of C01 `ndl_call_eq_spec` minus `CfgOK`'s
    `n_outcomes_per_job` clauses (the two agree also where both raise) -/
theorem ndlCallEntry_eq_ndlCall (magic version : Nat) (hm : magic < 4294967296) (hv : version < 4294967296)
    (cfg : NdlCfg) (alpha β₁ β₂ lam : R) (hper : 2 ≤ cfg.perFile) (hperU : cfg.perFile < 4294967296)
    (es es' : List (Event String String)) (hne : es ≠ [])
    (hp : applyPolicyAll cfg.policy es = some es') (hfit : Fits32 es) :
    ndlCallEntry magic version cfg alpha β₁ β₂ lam none es
      = ndlCall magic version cfg alpha β₁ β₂ lam none es := by
  rw [ndlCall_nonempty _ _ _ _ _ _ _ _ _ hne, ndlModel_none]
  have : ndlCallEntry magic version cfg alpha β₁ β₂ lam none es
      = ndlCoreEntry magic version cfg alpha β₁ β₂ lam (countNames es).1 (countNames es).2
          (Array.replicate ((countNames es).2.length * (countNames es).1.length) 0) es := by
    unfold ndlCallEntry
    rcases countNames es with ⟨cues, outs⟩
    rfl
  rw [this]
  exact ndlCoreEntry_eq_ndlCore magic version hm hv cfg alpha β₁ β₂ lam _ _ hper hperU hfit.nCues hfit.nOuts _
    es es' hne hp (fun e he c hc => (countNames_mem es e he).1 c hc)
    (fun e he o ho => (countNames_mem es e he).2 o ho) hfit.nEvents hfit.perEvent

/-- … and continued from given weights -/
theorem ndlCallEntry_continue_eq_ndlCall (magic version : Nat) (hm : magic < 4294967296)
    (hv : version < 4294967296) (cfg : NdlCfg) (alpha β₁ β₂ lam : R)
    (hper : 2 ≤ cfg.perFile) (hperU : cfg.perFile < 4294967296) (w : LW R)
    (es es' : List (Event String String)) (hne : es ≠ [])
    (hp : applyPolicyAll cfg.policy es = some es') (hfit : Fits32With w es) :
    ndlCallEntry magic version cfg alpha β₁ β₂ lam (some w) es
      = ndlCall magic version cfg alpha β₁ β₂ lam (some w) es := by
  rw [ndlCall_nonempty _ _ _ _ _ _ _ _ _ hne, ndlModel_some]
  have : ndlCallEntry magic version cfg alpha β₁ β₂ lam (some w) es
      = ndlCoreEntry magic version cfg alpha β₁ β₂ lam
          (w.cues ++ (countNames es).1.filter (fun c => !w.cues.contains c))
          (w.outcomes ++ (countNames es).2.filter (fun o => !w.outcomes.contains o))
          (extendVals w.vals w.outcomes.length w.cues.length
            (w.outcomes ++ (countNames es).2.filter (fun o => !w.outcomes.contains o)).length
            (w.cues ++ (countNames es).1.filter (fun c => !w.cues.contains c)).length) es := by
    unfold ndlCallEntry
    rcases countNames es with ⟨cues, outs⟩
    rfl
  rw [this]
  exact ndlCoreEntry_eq_ndlCore magic version hm hv cfg alpha β₁ β₂ lam _ _ hper hperU hfit.nCues hfit.nOuts _
    es es' hne hp (fun e he c hc => mem_append_filter_new _ _ _ ((countNames_mem es e he).1 c hc))
    (fun e he o ho => mem_append_filter_new _ _ _ ((countNames_mem es e he).2 o ho))
    hfit.nEvents hfit.perEvent

end

end Pyndl
