import PyndlModel.Ndl
import PyndlProofs.SeqSchedule
import PyndlProofs.Bytes
import PyndlProofs.Chunking
import PyndlProofs.Laws
import PyndlProofs.Continue
import PyndlProofs.Bounds32

set_option linter.unusedSectionVars false
set_option linter.unusedSimpArgs false
set_option linter.unusedVariables false

namespace Pyndl
open List

variable {R : Type} [CommRing R]

/-! ## first-occurrence de-duplication -/

theorem mem_dedupKeepFirst {α : Type} [DecidableEq α] (xs : List α) (a : α) :
    a ∈ dedupKeepFirst xs ↔ a ∈ xs := by
  induction xs with
  | nil => simp [dedupKeepFirst]
  | cons x xs ih =>
    simp only [dedupKeepFirst, List.mem_cons, List.mem_filter, ih, decide_eq_true_eq]
    constructor
    · rintro (h | ⟨h, _⟩)
      · exact Or.inl h
      · exact Or.inr h
    · rintro (h | h)
      · exact Or.inl h
      · by_cases hax : a = x
        · exact Or.inl hax
        · exact Or.inr ⟨h, hax⟩

theorem nodup_dedupKeepFirst {α : Type} [DecidableEq α] (xs : List α) : (dedupKeepFirst xs).Nodup := by
  induction xs with
  | nil => simp [dedupKeepFirst]
  | cons x xs ih =>
    simp only [dedupKeepFirst, List.nodup_cons, List.mem_filter, decide_eq_true_eq, ne_eq,
      not_true_eq_false, and_false, not_false_eq_true, true_and]
    exact ih.filter _

/-! ## renaming with a map that is injective only on the names that occur -/

theorem count_map_injOn {α β : Type} [DecidableEq α] [DecidableEq β] (f : α → β) (c : α) (cs : List α)
    (h : ∀ x ∈ cs, f x = f c → x = c) : (cs.map f).count (f c) = cs.count c := by
  induction cs with
  | nil => simp
  | cons d cs ih =>
    have ih' := ih (fun x hx => h x (by simp [hx]))
    by_cases hd : d = c
    · subst hd; simp [ih']
    · have : ¬ f d = f c := fun e => hd (h d (by simp) e)
      simp only [List.map_cons]
      rw [List.count_cons_of_ne this, List.count_cons_of_ne hd, ih']

theorem mem_map_injOn {α β : Type} (g : α → β) (o : α) (os : List α)
    (h : ∀ x ∈ os, g x = g o → x = o) : g o ∈ os.map g ↔ o ∈ os := by
  constructor
  · intro hm
    obtain ⟨x, hx, e⟩ := List.mem_map.mp hm
    exact (h x hx e) ▸ hx
  · exact fun hm => List.mem_map.mpr ⟨o, hm, rfl⟩

/-- renaming equivariance for maps injective on a set `S`/`T` that contains the
    names of all events and the query point -/
theorem rwLearn_rename_on {ι κ ι' κ' : Type} [DecidableEq ι] [DecidableEq κ] [DecidableEq ι'] [DecidableEq κ']
    (f : ι → ι') (g : κ → κ') (S : ι → Prop) (T : κ → Prop)
    (hf : ∀ a b, S a → S b → f a = f b → a = b) (hg : ∀ a b, T a → T b → g a = g b → a = b)
    (alpha β₁ β₂ lam : R) (W : κ → ι → R) (W' : κ' → ι' → R)
    (es : List (Event ι κ)) (hes : ∀ e ∈ es, (∀ c ∈ e.cues, S c) ∧ (∀ o ∈ e.outcomes, T o))
    (hW : ∀ o c, T o → S c → W' (g o) (f c) = W o c) (o : κ) (c : ι) (ho : T o) (hc : S c) :
    rwLearn (fun _ => alpha) β₁ β₂ lam W' (es.map (fun e => ⟨e.cues.map f, e.outcomes.map g⟩)) (g o) (f c)
      = rwLearn (fun _ => alpha) β₁ β₂ lam W es o c := by
  induction es generalizing W W' with
  | nil => exact hW o c ho hc
  | cons e es ih =>
    simp only [List.map_cons, rwLearn_cons]
    have he := hes e (by simp)
    refine ih _ _ (fun x hx => hes x (by simp [hx])) ?_
    intro o c ho hc
    simp only [rwStep, rwRow_apply, rwU]
    have h1 : (e.cues.map f).count (f c) = e.cues.count c :=
      count_map_injOn f c e.cues (fun x hx e' => hf x c (he.1 x hx) hc e')
    have h2 : ((e.cues.map f).map (W' (g o))).sum = (e.cues.map (W o)).sum := by
      rw [List.map_map]; congr 1; apply List.map_congr_left; intro x hx; exact hW o x ho (he.1 x hx)
    have h3 : decide (g o ∈ e.outcomes.map g) = decide (o ∈ e.outcomes) := by
      congr 1; exact propext (mem_map_injOn g o e.outcomes (fun x hx e' => hg x o (he.2 x hx) ho e'))
    rw [h1, h2, h3, hW o c ho hc]

/-! ## rows and columns the events never mention keep their initial value -/

theorem rwLearn_unseen_cue {ι κ : Type} [DecidableEq ι] [DecidableEq κ] (α : ι → R) (β₁ β₂ lam : R)
    (W : κ → ι → R) (es : List (Event ι κ)) (o : κ) (c : ι) (h : ∀ e ∈ es, c ∉ e.cues) :
    rwLearn α β₁ β₂ lam W es o c = W o c := by
  induction es generalizing W with
  | nil => rfl
  | cons e es ih =>
    rw [rwLearn_cons, ih _ (fun x hx => h x (by simp [hx]))]
    simp only [rwStep]
    exact rwRow_absent α β₁ β₂ lam (W o) e.cues _ c (h e (by simp))

theorem rwLearn_unseen_outcome {ι κ : Type} [DecidableEq ι] [DecidableEq κ] (α : ι → R) (β₁ β₂ lam : R)
    (W : κ → ι → R) (es : List (Event ι κ)) (o : κ) (h : ∀ e ∈ es, o ∉ e.outcomes)
    (hz : W o = fun _ => 0) : rwLearn α β₁ β₂ lam W es o = fun _ => 0 := by
  induction es generalizing W with
  | nil => exact hz
  | cons e es ih =>
    rw [rwLearn_cons]
    refine ih _ (fun x hx => h x (by simp [hx])) ?_
    simp only [rwStep, hz, h e (by simp), decide_false]
    exact unseen_row_stays_zero α β₁ β₂ lam e.cues

/-! ## the duplicate policy commutes with the id maps -/

theorem hasDup_map_injOn {α β : Type} [DecidableEq α] [DecidableEq β] (f : α → β) (xs : List α)
    (h : ∀ a ∈ xs, ∀ b ∈ xs, f a = f b → a = b) : hasDup (xs.map f) = hasDup xs := by
  induction xs with
  | nil => rfl
  | cons x xs ih =>
    simp only [List.map_cons, hasDup]
    rw [ih (fun a ha b hb => h a (by simp [ha]) b (by simp [hb]))]
    congr 1
    have : f x ∈ xs.map f ↔ x ∈ xs :=
      mem_map_injOn f x xs (fun y hy e => h y (by simp [hy]) x (by simp) e)
    exact decide_eq_decide.mpr this

theorem dedupKeepFirst_map_injOn {α β : Type} [DecidableEq α] [DecidableEq β] (f : α → β) (xs : List α)
    (h : ∀ a ∈ xs, ∀ b ∈ xs, f a = f b → a = b) :
    dedupKeepFirst (xs.map f) = (dedupKeepFirst xs).map f := by
  induction xs with
  | nil => rfl
  | cons x xs ih =>
    have hx : ∀ a ∈ xs, ∀ b ∈ xs, f a = f b → a = b := fun a ha b hb => h a (by simp [ha]) b (by simp [hb])
    simp only [List.map_cons, dedupKeepFirst, ih hx, List.filter_map]
    congr 2
    apply List.filter_congr
    intro y hy
    have hy' : y ∈ xs := (mem_dedupKeepFirst xs y).mp hy
    simp only [Function.comp, ne_eq, decide_not]
    congr 1
    apply decide_eq_decide.mpr
    constructor
    · intro e; exact h y (by simp [hy']) x (by simp) e
    · intro e; rw [e]

end Pyndl

namespace Pyndl
open List

variable {R : Type} [CommRing R]

/-! ## policy applied event-wise; windows -/

theorem applyPolicyAll_length {ι κ : Type} [DecidableEq ι] [DecidableEq κ] (p : DupPolicy)
    (xs ys : List (Event ι κ)) (h : applyPolicyAll p xs = some ys) : ys.length = xs.length := by
  induction xs generalizing ys with
  | nil => simp [applyPolicyAll] at h; subst h; rfl
  | cons x xs ih =>
    simp only [applyPolicyAll] at h
    cases h1 : applyPolicy p x with
    | none => simp [h1] at h
    | some x' =>
      simp only [h1] at h
      cases h2 : applyPolicyAll p xs with
      | none => simp [h2] at h
      | some r =>
        simp only [h2, Option.some.injEq] at h; subst h
        simp [ih r h2]

theorem applyPolicyAll_drop {ι κ : Type} [DecidableEq ι] [DecidableEq κ] (p : DupPolicy)
    (xs ys : List (Event ι κ)) (h : applyPolicyAll p xs = some ys) (k : Nat) :
    applyPolicyAll p (xs.drop k) = some (ys.drop k) := by
  induction k generalizing xs ys with
  | zero => simpa using h
  | succ k ih =>
    cases xs with
    | nil => simp [applyPolicyAll] at h; subst h; simp [applyPolicyAll]
    | cons x xs =>
      simp only [applyPolicyAll] at h
      cases h1 : applyPolicy p x with
      | none => simp [h1] at h
      | some x' =>
        simp only [h1] at h
        cases h2 : applyPolicyAll p xs with
        | none => simp [h2] at h
        | some r =>
          simp only [h2, Option.some.injEq] at h; subst h
          simpa using ih xs r h2

theorem applyPolicyAll_take {ι κ : Type} [DecidableEq ι] [DecidableEq κ] (p : DupPolicy)
    (xs ys : List (Event ι κ)) (h : applyPolicyAll p xs = some ys) (k : Nat) :
    applyPolicyAll p (xs.take k) = some (ys.take k) := by
  induction k generalizing xs ys with
  | zero => simp [applyPolicyAll]
  | succ k ih =>
    cases xs with
    | nil => simp [applyPolicyAll] at h; subst h; simp [applyPolicyAll]
    | cons x xs =>
      simp only [applyPolicyAll] at h
      cases h1 : applyPolicy p x with
      | none => simp [h1] at h
      | some x' =>
        simp only [h1] at h
        cases h2 : applyPolicyAll p xs with
        | none => simp [h2] at h
        | some r =>
          simp only [h2, Option.some.injEq] at h; subst h
          simp [applyPolicyAll, h1, ih xs r h2]

theorem windowEvents_go_ok (p : DupPolicy) (win win' : List (Event Nat Nat)) (idx : Nat)
    (h : applyPolicyAll p win = some win') : windowEvents.go p idx win = .ok win' := by
  induction win generalizing win' idx with
  | nil => simp [applyPolicyAll] at h; subst h; rfl
  | cons e win ih =>
    simp only [applyPolicyAll] at h
    cases h1 : applyPolicy p e with
    | none => simp [h1] at h
    | some e' =>
      simp only [h1] at h
      cases h2 : applyPolicyAll p win with
      | none => simp [h2] at h
      | some r =>
        simp only [h2, Option.some.injEq] at h; subst h
        simp [windowEvents.go, h1, ih r (idx + 1) h2]

theorem windowEvents_ok (p : DupPolicy) (ids ids' : List (Event Nat Nat))
    (h : applyPolicyAll p ids = some ids') (per j : Nat) :
    windowEvents p ids (j * per) ((j + 1) * per) = .ok (chunkOf per ids' j) := by
  unfold windowEvents chunkOf
  have e : (j + 1) * per - j * per = per := by
    rw [Nat.add_mul, Nat.one_mul, Nat.add_sub_cancel_left]
  rw [e]
  exact windowEvents_go_ok p _ _ _ (applyPolicyAll_take p _ _ (applyPolicyAll_drop p ids ids' h (j * per)) per)

theorem chunk_nonempty {α : Type} (xs : List α) (per j : Nat) (hp : 1 ≤ per) (hj : j < nChunks xs.length per) :
    chunkOf per xs j ≠ [] := by
  have h1 : (j + 1) * per ≤ xs.length + per - 1 := by
    unfold nChunks at hj
    have := Nat.mul_le_of_le_div per (j + 1) (xs.length + per - 1) (by omega)
    simpa [Nat.mul_comm] using this
  have h2 : j * per < xs.length := by
    have : (j + 1) * per = j * per + per := by ring
    omega
  intro hnil
  have := congrArg List.length hnil
  rw [length_chunkOf] at this
  simp at this
  omega

theorem window_width (per j : Nat) : (j + 1) * per - j * per = per := by
  rw [Nat.add_mul, Nat.one_mul, Nat.add_sub_cancel_left]

theorem window_no_overflow (per j : Nat) (hU : per < 4294967296) :
    ¬ ((j + 1) * per < j * per ∨ 4294967296 ≤ (j + 1) * per - j * per) := by
  rw [window_width]
  have : j * per ≤ (j + 1) * per := Nat.mul_le_mul_right _ (Nat.le_succ j)
  omega

/-- **`events_per_file ≥ 2³²`: every conversion job raises `OverflowError`**
    (the header estimate `stop - start` does not fit `to_bytes(4)`) -/
theorem writeEvents_overflow (magic version : Nat) (p : DupPolicy) (ids : List (Event Nat Nat)) (per j : Nat)
    (hU : 4294967296 ≤ per) :
    writeEvents magic version p ids (j * per) ((j + 1) * per) = (none, .overflow) := by
  unfold writeEvents
  rw [window_width, if_pos (Or.inr hU)]

/-- `write_events` for a non-empty window leaves exactly the encoded window -/
theorem writeEvents_chunk (magic version : Nat) (p : DupPolicy) (ids ids' : List (Event Nat Nat))
    (h : applyPolicyAll p ids = some ids') (per j : Nat) (hU : per < 4294967296)
    (hne : chunkOf per ids' j ≠ []) :
    ∃ r, writeEvents magic version p ids (j * per) ((j + 1) * per)
        = (some (encodeChunk magic version (chunkOf per ids' j)), r) ∧
      (r = .ok (chunkOf per ids' j).length ∨ r = .stopped (chunkOf per ids' j).length) := by
  unfold writeEvents
  rw [if_neg (window_no_overflow per j hU)]
  rw [windowEvents_ok p ids ids' h per j]
  have hlen : (chunkOf per ids' j).length ≠ 0 := fun e => hne (List.length_eq_zero_iff.mp e)
  simp only [hlen, if_false]
  split
  · exact ⟨_, rfl, Or.inr rfl⟩
  · exact ⟨_, rfl, Or.inl rfl⟩

theorem makeChunks_go_ok (magic version : Nat) (p : DupPolicy) (ids ids' : List (Event Nat Nat))
    (h : applyPolicyAll p ids = some ids') (per : Nat) (hU : per < 4294967296)
    (fuel j : Nat) (files : List Bytes) (total : Nat)
    (hne : ∀ k, j ≤ k → k < j + fuel → chunkOf per ids' k ≠ []) :
    makeChunks.go magic version p ids per fuel j files total
      = .ok (files.reverse ++ (List.range' j fuel).map (fun k => encodeChunk magic version (chunkOf per ids' k)),
             total + ((List.range' j fuel).map (fun k => (chunkOf per ids' k).length)).sum) := by
  induction fuel generalizing j files total with
  | zero => simp [makeChunks.go]
  | succ fuel ih =>
    obtain ⟨r, hw, hr⟩ := writeEvents_chunk magic version p ids ids' h per j hU (hne j (Nat.le_refl _) (by omega))
    simp only [makeChunks.go, hw]
    rcases hr with rfl | rfl
    · simp only
      rw [ih (j + 1) _ _ (fun k h1 h2 => hne k (by omega) (by omega))]
      simp [List.range'_succ, Nat.add_assoc]
    · simp only
      rw [ih (j + 1) _ _ (fun k h1 h2 => hne k (by omega) (by omega))]
      simp [List.range'_succ, Nat.add_assoc]

theorem sum_chunk_lengths {α : Type} (xs : List α) (per : Nat) (hp : 1 ≤ per) :
    ((List.range (nChunks xs.length per)).map (fun k => (chunkOf per xs k).length)).sum = xs.length := by
  have h := chunks_flatten xs per hp _ (nChunks_covers xs.length per hp)
  have := congrArg List.length h
  rw [List.length_flatten, List.map_map] at this
  exact this

/-- **the conversion stage**: for events the policy accepts, the chunk files in
    numeric order are the encoded windows of the policy-processed events, and
    the reported count is the number of events -/
theorem makeChunks_ok (magic version : Nat) (p : DupPolicy) (ids ids' : List (Event Nat Nat))
    (h : applyPolicyAll p ids = some ids') (per : Nat) (hp : 1 ≤ per) (hU : per < 4294967296) :
    makeChunks magic version p ids per
      = .ok ((List.range (nChunks ids.length per)).map (fun k => encodeChunk magic version (chunkOf per ids' k)),
             ids.length) := by
  unfold makeChunks
  rw [if_neg (by omega)]
  have hl := applyPolicyAll_length p ids ids' h
  rw [makeChunks_go_ok magic version p ids ids' h per hU _ 0 [] 0
    (fun k _ hk => chunk_nonempty ids' per k hp (by rw [hl]; omega))]
  simp only [List.reverse_nil, List.nil_append, Nat.zero_add, List.range_eq_range']
  congr 2
  have := sum_chunk_lengths ids' per hp
  rw [hl, List.range_eq_range'] at this
  exact this

/-- the policy rejects ⇒ the conversion raises `ValueError` -/
theorem makeChunks_go_error (magic version : Nat) (p : DupPolicy) (ids : List (Event Nat Nat)) (per fuel j : Nat)
    (hU : per < 4294967296) (files : List Bytes) (total : Nat)
    (hbad : ∃ k, j ≤ k ∧ k < j + fuel ∧ ∃ i, windowEvents p ids (k * per) ((k + 1) * per) = .error i) :
    makeChunks.go magic version p ids per fuel j files total = .error .value := by
  induction fuel generalizing j files total with
  | zero => obtain ⟨k, h1, h2, _⟩ := hbad; omega
  | succ fuel ih =>
    simp only [makeChunks.go]
    cases hw : windowEvents p ids (j * per) ((j + 1) * per) with
    | error i => simp [writeEvents, hw, if_neg (window_no_overflow per j hU)]
    | ok win =>
      have hrest : ∃ k, j + 1 ≤ k ∧ k < j + 1 + fuel ∧ ∃ i, windowEvents p ids (k * per) ((k + 1) * per) = .error i := by
        obtain ⟨k, h1, h2, i, hi⟩ := hbad
        by_cases hk : k = j
        · subst hk; rw [hw] at hi; cases hi
        · exact ⟨k, by omega, by omega, i, hi⟩
      simp only [writeEvents, hw, if_neg (window_no_overflow per j hU)]
      split
      · rename_i heq
        split at heq <;> [skip; split at heq] <;> simp at heq
      · rfl
      · exact ih (j + 1) _ _ hrest
      · exact ih (j + 1) _ _ hrest
      · exact ih (j + 1) _ _ hrest

end Pyndl

namespace Pyndl
open List

variable {R : Type} [CommRing R]

/-! ## decoding what was encoded -/

theorem decodeAll_encode (magic version : Nat) (hm : magic < 4294967296) (hv : version < 4294967296)
    (chunks : List (List (Event Nat Nat)))
    (hw : ∀ c ∈ chunks, c.length < 4294967296 ∧ Wf32 c) :
    decodeAll magic version (chunks.map (encodeChunk magic version)) = .ok chunks := by
  induction chunks with
  | nil => rfl
  | cons c cs ih =>
    have hc := hw c (by simp)
    have hpy := decodeChunkPy_encodeChunk magic version hm hv c hc.1 hc.2
    rw [← decodeChunkKernel_eq_py] at hpy
    simp only [List.map_cons, decodeAll]
    cases hk : decodeChunkKernel magic version (encodeChunk magic version c) with
    | error e => rw [hk] at hpy; cases hpy
    | ok r =>
      rw [hk] at hpy
      simp only [Except.map, Except.ok.injEq] at hpy
      obtain ⟨es, hist⟩ := r
      simp only at hpy
      subst hpy
      simp only [ih (fun x hx => hw x (by simp [hx]))]

/-! ## policy-processed events keep their names and get no longer -/

theorem dedup_sub {α : Type} [DecidableEq α] (xs : List α) : (dedupKeepFirst xs).length ≤ xs.length := by
  induction xs with
  | nil => simp [dedupKeepFirst]
  | cons x xs ih =>
    simp only [dedupKeepFirst, List.length_cons]
    have := List.length_filter_le (fun y => decide (y ≠ x)) (dedupKeepFirst xs)
    omega

theorem applyPolicy_sub {ι κ : Type} [DecidableEq ι] [DecidableEq κ] (p : DupPolicy) (e e' : Event ι κ)
    (h : applyPolicy p e = some e') :
    (∀ c, c ∈ e'.cues ↔ c ∈ e.cues) ∧ (∀ o, o ∈ e'.outcomes ↔ o ∈ e.outcomes) ∧
    e'.cues.length ≤ e.cues.length ∧ e'.outcomes.length ≤ e.outcomes.length := by
  cases p with
  | error =>
    simp only [applyPolicy] at h
    split at h
    · cases h
    · cases h; exact ⟨fun _ => Iff.rfl, fun _ => Iff.rfl, Nat.le_refl _, Nat.le_refl _⟩
  | dedup =>
    simp only [applyPolicy, Option.some.injEq] at h
    subst h
    exact ⟨fun c => mem_dedupKeepFirst _ c, fun o => mem_dedupKeepFirst _ o, dedup_sub _, dedup_sub _⟩
  | keep =>
    simp only [applyPolicy, Option.some.injEq] at h
    subst h
    exact ⟨fun _ => Iff.rfl, fun _ => Iff.rfl, Nat.le_refl _, Nat.le_refl _⟩

theorem applyPolicyAll_mem {ι κ : Type} [DecidableEq ι] [DecidableEq κ] (p : DupPolicy)
    (xs ys : List (Event ι κ)) (h : applyPolicyAll p xs = some ys) :
    ∀ e' ∈ ys, ∃ e ∈ xs, applyPolicy p e = some e' := by
  induction xs generalizing ys with
  | nil => simp [applyPolicyAll] at h; subst h; simp
  | cons x xs ih =>
    simp only [applyPolicyAll] at h
    cases h1 : applyPolicy p x with
    | none => simp [h1] at h
    | some x' =>
      simp only [h1] at h
      cases h2 : applyPolicyAll p xs with
      | none => simp [h2] at h
      | some r =>
        simp only [h2, Option.some.injEq] at h; subst h
        intro e' he'
        simp only [List.mem_cons] at he'
        rcases he' with rfl | he'
        · exact ⟨x, by simp, h1⟩
        · obtain ⟨e, he, hp⟩ := ih r h2 e' he'
          exact ⟨e, by simp [he], hp⟩

/-- the duplicate policy on names and on ids (an injective renaming of the
    names that occur) give corresponding results -/
theorem applyPolicy_map {ι κ ι' κ' : Type} [DecidableEq ι] [DecidableEq κ] [DecidableEq ι'] [DecidableEq κ']
    (f : ι → ι') (g : κ → κ') (p : DupPolicy) (e : Event ι κ)
    (hf : ∀ a ∈ e.cues, ∀ b ∈ e.cues, f a = f b → a = b)
    (hg : ∀ a ∈ e.outcomes, ∀ b ∈ e.outcomes, g a = g b → a = b) :
    applyPolicy p (⟨e.cues.map f, e.outcomes.map g⟩ : Event ι' κ')
      = (applyPolicy p e).map (fun e' => ⟨e'.cues.map f, e'.outcomes.map g⟩) := by
  cases p with
  | error =>
    simp only [applyPolicy, hasDup_map_injOn f e.cues hf, hasDup_map_injOn g e.outcomes hg]
    split <;> rfl
  | dedup =>
    simp only [applyPolicy, dedupKeepFirst_map_injOn f e.cues hf, dedupKeepFirst_map_injOn g e.outcomes hg,
      Option.map_some]
  | keep => rfl

theorem applyPolicyAll_map {ι κ ι' κ' : Type} [DecidableEq ι] [DecidableEq κ] [DecidableEq ι'] [DecidableEq κ']
    (f : ι → ι') (g : κ → κ') (p : DupPolicy) (es es' : List (Event ι κ))
    (hf : ∀ e ∈ es, ∀ a ∈ e.cues, ∀ b ∈ e.cues, f a = f b → a = b)
    (hg : ∀ e ∈ es, ∀ a ∈ e.outcomes, ∀ b ∈ e.outcomes, g a = g b → a = b)
    (h : applyPolicyAll p es = some es') :
    applyPolicyAll p (es.map (fun e => (⟨e.cues.map f, e.outcomes.map g⟩ : Event ι' κ')))
      = some (es'.map (fun e => ⟨e.cues.map f, e.outcomes.map g⟩)) := by
  induction es generalizing es' with
  | nil => simp [applyPolicyAll] at h; subst h; rfl
  | cons e es ih =>
    simp only [applyPolicyAll] at h
    cases h1 : applyPolicy p e with
    | none => simp [h1] at h
    | some e' =>
      simp only [h1] at h
      cases h2 : applyPolicyAll p es with
      | none => simp [h2] at h
      | some r =>
        simp only [h2, Option.some.injEq] at h; subst h
        simp only [List.map_cons, applyPolicyAll, applyPolicy_map f g p e (hf e (by simp)) (hg e (by simp)), h1,
          Option.map_some, ih r (fun x hx => hf x (by simp [hx])) (fun x hx => hg x (by simp [hx])) h2]

end Pyndl

namespace Pyndl
open List

variable {R : Type} [CommRing R]

/-! ## a rejected duplicate anywhere in the file makes the conversion raise -/

theorem applyPolicyAll_none_iff {ι κ : Type} [DecidableEq ι] [DecidableEq κ] (p : DupPolicy)
    (xs : List (Event ι κ)) : applyPolicyAll p xs = none ↔ ∃ e ∈ xs, applyPolicy p e = none := by
  induction xs with
  | nil => simp [applyPolicyAll]
  | cons x xs ih =>
    simp only [applyPolicyAll, List.mem_cons, exists_eq_or_imp]
    cases h1 : applyPolicy p x with
    | none => simp
    | some x' =>
      simp only [reduceCtorEq, false_or]
      cases h2 : applyPolicyAll p xs with
      | none => simp only [true_iff]; exact ih.mp h2
      | some r =>
        simp only [reduceCtorEq, false_iff]
        intro hx
        have := ih.mpr hx
        rw [h2] at this; cases this

theorem windowEvents_go_error (p : DupPolicy) (win : List (Event Nat Nat)) (idx : Nat)
    (h : applyPolicyAll p win = none) : ∃ i, windowEvents.go p idx win = .error i := by
  induction win generalizing idx with
  | nil => simp [applyPolicyAll] at h
  | cons e win ih =>
    simp only [applyPolicyAll] at h
    cases h1 : applyPolicy p e with
    | none => exact ⟨idx, by simp [windowEvents.go, h1]⟩
    | some e' =>
      simp only [h1] at h
      cases h2 : applyPolicyAll p win with
      | some r => simp [h2] at h
      | none =>
        obtain ⟨i, hi⟩ := ih (idx + 1) h2
        exact ⟨i, by simp [windowEvents.go, h1, hi]⟩

theorem windowEvents_go_some (p : DupPolicy) (win win' : List (Event Nat Nat)) (idx : Nat)
    (h : windowEvents.go p idx win = .ok win') : applyPolicyAll p win = some win' := by
  cases hp : applyPolicyAll p win with
  | none =>
    obtain ⟨i, hi⟩ := windowEvents_go_error p win idx hp
    rw [hi] at h; cases h
  | some r =>
    rw [windowEvents_go_ok p win r idx hp] at h
    cases h; rfl

theorem mem_window {α : Type} (xs : List α) (i per : Nat) (hper : 0 < per) (hi : i < xs.length) :
    xs[i] ∈ (xs.drop (i / per * per)).take per := by
  have hdm := Nat.div_add_mod i per
  have hml := Nat.mod_lt i hper
  have hmul : per * (i / per) = i / per * per := Nat.mul_comm _ _
  rw [List.mem_iff_getElem]
  refine ⟨i % per, ?_, ?_⟩
  · simp only [List.length_take, List.length_drop]; omega
  · simp only [List.getElem_take, List.getElem_drop]
    congr 1; omega

/-- **the conversion stage raises `ValueError`** whenever the duplicate policy
    rejects some event of the file — wherever it stands, whatever the chunk size -/
theorem makeChunks_error (magic version : Nat) (p : DupPolicy) (ids : List (Event Nat Nat)) (per : Nat)
    (hp : 1 ≤ per) (hU : per < 4294967296) (h : applyPolicyAll p ids = none) :
    makeChunks magic version p ids per = .error .value := by
  obtain ⟨e, he, hpe⟩ := (applyPolicyAll_none_iff p ids).mp h
  obtain ⟨i, hi, rfl⟩ := List.getElem_of_mem he
  unfold makeChunks
  rw [if_neg (by omega)]
  apply makeChunks_go_error magic version p ids per _ 0 hU
  refine ⟨i / per, Nat.zero_le _, ?_, ?_⟩
  · rw [Nat.zero_add]
    unfold nChunks
    have h1 : i / per * per ≤ i := Nat.div_mul_le_self i per
    have h2 : (i / per + 1) * per ≤ ids.length + per - 1 := by
      have : (i / per + 1) * per = i / per * per + per := by ring
      omega
    exact (Nat.le_div_iff_mul_le (by omega)).mpr h2
  · unfold windowEvents
    rw [window_width]
    apply windowEvents_go_error
    exact (applyPolicyAll_none_iff p _).mpr ⟨ids[i], mem_window ids i per (by omega) hi, hpe⟩

/-- `events_per_file ≥ 2³²` ⇒ `OverflowError`, for EVERY event file (also one
    with zero events: job 0 is always submitted) and every policy -/
theorem makeChunks_overflow (magic version : Nat) (p : DupPolicy) (ids : List (Event Nat Nat)) (per : Nat)
    (hU : 4294967296 ≤ per) : makeChunks magic version p ids per = .error .other := by
  unfold makeChunks
  rw [if_pos hU]

/-! ## `write_events` with an arbitrary window -/

/-- **what `write_events(start, stop)` leaves on disk decodes to the window**:
    for `start ≤ stop`, `stop - start < 2³²` and 32-bit events, a file that is
    left behind holds exactly the policy-processed events `[start, stop)` of the
    stream (fewer when the stream ends early: header count rewritten), and the
    Python reader returns them -/
theorem writeEvents_window_general (magic version : Nat) (hm : magic < 4294967296) (hv : version < 4294967296)
    (p : DupPolicy) (es : List (Event Nat Nat)) (start stop : Nat) (hle : start ≤ stop)
    (hfit : stop - start < 4294967296) (hwf : Wf32 es) (bytes : Bytes) (r : WriteResult)
    (h : writeEvents magic version p es start stop = (some bytes, r)) :
    ∃ win, windowEvents p es start stop = .ok win ∧
      applyPolicyAll p ((es.drop start).take (stop - start)) = some win ∧ win ≠ [] ∧
      bytes = encodeChunk magic version win ∧
      decodeChunkPy magic version bytes = .ok win ∧
      (r = .ok win.length ∨ r = .stopped win.length) := by
  unfold writeEvents at h
  rw [if_neg (by omega)] at h
  cases hw : windowEvents p es start stop with
  | error i => rw [hw] at h; cases h
  | ok win =>
    rw [hw] at h
    have hpa : applyPolicyAll p ((es.drop start).take (stop - start)) = some win := by
      unfold windowEvents at hw
      exact windowEvents_go_some p _ win start hw
    have hlen := applyPolicyAll_length p _ win hpa
    have hwl : win.length < 4294967296 := by
      rw [hlen, List.length_take]; omega
    have hwwf : Wf32 win := by
      intro e' he'
      obtain ⟨e, he, hpe⟩ := applyPolicyAll_mem p _ win hpa e' he'
      have hees : e ∈ es := List.mem_of_mem_drop (List.mem_of_mem_take he)
      obtain ⟨s1, s2, s3, s4⟩ := applyPolicy_sub p e e' hpe
      have hw := hwf e hees
      exact ⟨fun i hi => hw.cues i ((s1 i).mp hi), fun i hi => hw.outcomes i ((s2 i).mp hi),
        by have := hw.ncues; omega, by have := hw.nouts; omega⟩
    have hdec := decodeChunkPy_encodeChunk magic version hm hv win hwl hwwf
    simp only at h
    split at h
    · cases h
    · rename_i hne
      have hne' : win ≠ [] := fun e => hne (by rw [e]; rfl)
      split at h
      · simp only [Prod.mk.injEq, Option.some.injEq] at h
        obtain ⟨hb, hr⟩ := h
        exact ⟨win, rfl, hpa, hne', hb.symm, by rw [← hb]; exact hdec, Or.inr hr.symm⟩
      · simp only [Prod.mk.injEq, Option.some.injEq] at h
        obtain ⟨hb, hr⟩ := h
        exact ⟨win, rfl, hpa, hne', hb.symm, by rw [← hb]; exact hdec, Or.inl hr.symm⟩

/-- outside these windows `write_events` raises `OverflowError` before it looks at
    any event (`to_bytes(stop - start)`: negative, or too big) -/
theorem writeEvents_overflow_of (magic version : Nat) (p : DupPolicy) (es : List (Event Nat Nat))
    (start stop : Nat) (h : stop < start ∨ 4294967296 ≤ stop - start) :
    writeEvents magic version p es start stop = (none, .overflow) := by
  unfold writeEvents
  rw [if_pos h]

/-! ## the 32-bit OpenMP parts -/

/-- **no wrap-around**: with `n_outcomes + n_outcomes_per_job < 2³²` the parts
    computed in `unsigned int` arithmetic are the unbounded ones -/
theorem ompParts32_eq {α : Type} (xs : List α) (chunk : Nat) (hc : 1 ≤ chunk)
    (hfit : xs.length + chunk < 4294967296) : ompParts32 xs chunk = ompParts xs chunk := by
  have hn : (UInt32.ofNat xs.length).toNat = xs.length := by
    rw [UInt32.toNat_ofNat']; exact Nat.mod_eq_of_lt (by omega)
  have hk : (UInt32.ofNat chunk).toNat = chunk := by
    rw [UInt32.toNat_ofNat']; exact Nat.mod_eq_of_lt (by omega)
  have h := ompBounds32_eq (UInt32.ofNat xs.length) (UInt32.ofNat chunk) (by rw [hk]; exact hc)
    (by rw [hn, hk]; exact hfit)
  rw [hn, hk] at h
  unfold ompParts32 ompParts
  rw [← h, List.map_map]
  rfl

theorem learnOpenmpSeq32_eq (alpha β₁ β₂ lam : R) (nCues : Nat) (files : List (List (Event Nat Nat)))
    (allOutcomes : List Nat) (chunk : Nat) (hc : 1 ≤ chunk)
    (hfit : allOutcomes.length + chunk < 4294967296) (w : Array R) :
    learnOpenmpSeq32 alpha β₁ β₂ lam nCues files allOutcomes chunk w
      = learnOpenmpSeq alpha β₁ β₂ lam nCues files allOutcomes chunk w := by
  unfold learnOpenmpSeq32 learnOpenmpSeq
  rw [ompParts32_eq allOutcomes chunk hc hfit]

/-- **the exact no-wrap condition** of the `unsigned int` part bounds: the last
    `start_val + chunksize` the loop computes is `⌈n / chunk⌉ · chunk`; when THAT
    is below 2³² (and `n`, `chunk` fit `unsigned int`) no bound wraps.  Weaker
    than `n + chunk < 2³²` (`ompBounds32_eq`): e.g. `chunk ≥ n` — one part —
    never wraps, whatever `n + chunk` is.  When it fails the LAST part wraps
    (`ompBounds32_wraps_example`). -/
theorem ompBounds32_eq_nowrap (n chunk : UInt32) (hc : 1 ≤ chunk.toNat)
    (hfit : (n.toNat + chunk.toNat - 1) / chunk.toNat * chunk.toNat < 4294967296) :
    (ompBounds32 n chunk).map (fun p => (p.1.toNat, p.2.toNat)) = ompBounds n.toNat chunk.toNat := by
  unfold ompBounds32 ompBounds
  simp only
  rw [List.map_filterMap]
  apply List.filterMap_congr
  intro ii hii
  rw [List.mem_range] at hii
  have hnlt : n.toNat < 4294967296 := n.toNat_lt
  have hpc : (ii + 1) * chunk.toNat ≤ (n.toNat + chunk.toNat - 1) / chunk.toNat * chunk.toNat :=
    Nat.mul_le_mul_right _ hii
  have h1 : (ii + 1) * chunk.toNat ≤ n.toNat + chunk.toNat - 1 :=
    le_trans hpc (Nat.div_mul_le_self _ _)
  have hexp : (ii + 1) * chunk.toNat = ii * chunk.toNat + chunk.toNat := by ring
  have h2 : ii * chunk.toNat < n.toNat := by omega
  have hiilt : ii < 4294967296 := by
    have : ii ≤ ii * chunk.toNat := Nat.le_mul_of_pos_right ii (by omega)
    omega
  have hs : (UInt32.ofNat ii * chunk).toNat = ii * chunk.toNat := by
    have hm : ii % 2 ^ 32 = ii := Nat.mod_eq_of_lt (by omega)
    rw [UInt32.toNat_mul, UInt32.toNat_ofNat', hm]
    exact Nat.mod_eq_of_lt (by omega)
  have hse : (UInt32.ofNat ii * chunk + chunk).toNat = ii * chunk.toNat + chunk.toNat := by
    rw [UInt32.toNat_add, hs]
    exact Nat.mod_eq_of_lt (by omega)
  have hne : ¬ (UInt32.ofNat ii * chunk = n) := by
    intro e
    have := congrArg UInt32.toNat e
    rw [hs] at this; omega
  have hne' : ¬ (ii * chunk.toNat = n.toNat) := by omega
  simp only [beq_iff_eq, hne, if_false, hne', Option.map_some, Option.some.injEq, Prod.mk.injEq, hs,
    true_and]
  by_cases hle : UInt32.ofNat ii * chunk + chunk ≤ n
  · have hle' : ii * chunk.toNat + chunk.toNat ≤ n.toNat := by
      have := UInt32.le_iff_toNat_le.mp hle; rw [hse] at this; exact this
    rw [if_pos hle, hse, Nat.min_eq_left hle']
  · have hle' : ¬ (ii * chunk.toNat + chunk.toNat ≤ n.toNat) := by
      intro h; apply hle; rw [UInt32.le_iff_toNat_le, hse]; exact h
    rw [if_neg hle, Nat.min_eq_right (by omega)]

/-- outside the no-wrap condition a bound DOES wrap (so the condition is exact,
    not merely sufficient): `2³² − 1` outcomes in parts of `2³¹` — the second part
    is `[2³¹, 0)`, an empty range: the rows `2³¹ … 2³² − 2` are silently not
    trained (no exception).  Not reachable in practice (the weight matrix would
    need ≥ 2³¹ rows). -/
theorem ompBounds32_wraps_example :
    ompBounds32 4294967295 2147483648 = [(0, 2147483648), (2147483648, 0)] := by decide +kernel

theorem ompParts32_eq_nowrap {α : Type} (xs : List α) (chunk : Nat) (hc : 1 ≤ chunk)
    (hn : xs.length < 4294967296) (hk : chunk < 4294967296)
    (hfit : (xs.length + chunk - 1) / chunk * chunk < 4294967296) : ompParts32 xs chunk = ompParts xs chunk := by
  have hn' : (UInt32.ofNat xs.length).toNat = xs.length := by
    rw [UInt32.toNat_ofNat']; exact Nat.mod_eq_of_lt (by omega)
  have hk' : (UInt32.ofNat chunk).toNat = chunk := by
    rw [UInt32.toNat_ofNat']; exact Nat.mod_eq_of_lt (by omega)
  have h := ompBounds32_eq_nowrap (UInt32.ofNat xs.length) (UInt32.ofNat chunk) (by rw [hk']; exact hc)
    (by rw [hn', hk']; exact hfit)
  rw [hn', hk'] at h
  unfold ompParts32 ompParts
  rw [← h, List.map_map]
  rfl

theorem learnOpenmpSeq32_eq_nowrap (alpha β₁ β₂ lam : R) (nCues : Nat) (files : List (List (Event Nat Nat)))
    (allOutcomes : List Nat) (chunk : Nat) (hc : 1 ≤ chunk)
    (hn : allOutcomes.length < 4294967296) (hk : chunk < 4294967296)
    (hfit : (allOutcomes.length + chunk - 1) / chunk * chunk < 4294967296) (w : Array R) :
    learnOpenmpSeq32 alpha β₁ β₂ lam nCues files allOutcomes chunk w
      = learnOpenmpSeq alpha β₁ β₂ lam nCues files allOutcomes chunk w := by
  unfold learnOpenmpSeq32 learnOpenmpSeq
  rw [ompParts32_eq_nowrap allOutcomes chunk hc hn hk hfit]

end Pyndl

namespace Pyndl
open List

variable {R : Type} [CommRing R]

/-! ## the specification does not see the order of cues / outcomes inside an event -/

theorem rwStep_perm {ι κ : Type} [DecidableEq ι] [DecidableEq κ] (α : ι → R) (β₁ β₂ lam : R) (W : κ → ι → R)
    (e e' : Event ι κ) (hc : e.cues ~ e'.cues) (ho : e.outcomes ~ e'.outcomes) :
    rwStep α β₁ β₂ lam W e = rwStep α β₁ β₂ lam W e' := by
  funext o
  simp only [rwStep]
  have : decide (o ∈ e.outcomes) = decide (o ∈ e'.outcomes) := by
    apply decide_eq_decide.mpr; exact ho.mem_iff
  rw [this]
  exact rwRow_perm α β₁ β₂ lam (W o) hc _

/-- **any per-event order**: events that agree up to the order of their cues and
    of their outcomes (e.g. two iteration orders of Python's `set`) give the same
    weights -/
theorem rwLearn_perm_events {ι κ : Type} [DecidableEq ι] [DecidableEq κ] (α : ι → R) (β₁ β₂ lam : R)
    (W : κ → ι → R) (es es' : List (Event ι κ))
    (h : List.Forall₂ (fun a b => a.cues ~ b.cues ∧ a.outcomes ~ b.outcomes) es es') :
    rwLearn α β₁ β₂ lam W es = rwLearn α β₁ β₂ lam W es' := by
  induction h generalizing W with
  | nil => rfl
  | cons hab _ ih =>
    rw [rwLearn_cons, rwLearn_cons, rwStep_perm α β₁ β₂ lam W _ _ hab.1 hab.2]
    exact ih _

theorem rwLearn_map_reorder {ι κ : Type} [DecidableEq ι] [DecidableEq κ] (α : ι → R) (β₁ β₂ lam : R)
    (W : κ → ι → R) (ρ : Event ι κ → Event ι κ)
    (hρ : ∀ e, (ρ e).cues ~ e.cues ∧ (ρ e).outcomes ~ e.outcomes) (es : List (Event ι κ)) :
    rwLearn α β₁ β₂ lam W (es.map ρ) = rwLearn α β₁ β₂ lam W es := by
  apply rwLearn_perm_events
  induction es with
  | nil => exact List.Forall₂.nil
  | cons e es ih => exact List.Forall₂.cons (hρ e) ih

/-! ## conversion + decoding, for ANY label lists that contain the names -/

theorem toIds_eq (cues outs : List String) (e : Event String String) :
    toIds cues outs e = ⟨e.cues.map (cues.idxOf ·), e.outcomes.map (outs.idxOf ·)⟩ := rfl

theorem idxOf_injOn (l : List String) (a b : String) (ha : a ∈ l) (hb : b ∈ l)
    (h : l.idxOf a = l.idxOf b) : a = b := (List.idxOf_inj ha).mp h

/-- the duplicate policy sees the same thing on names and on ids: also the rejection -/
theorem applyPolicyAll_map_none {ι κ ι' κ' : Type} [DecidableEq ι] [DecidableEq κ] [DecidableEq ι'] [DecidableEq κ']
    (f : ι → ι') (g : κ → κ') (p : DupPolicy) (es : List (Event ι κ))
    (hf : ∀ e ∈ es, ∀ a ∈ e.cues, ∀ b ∈ e.cues, f a = f b → a = b)
    (hg : ∀ e ∈ es, ∀ a ∈ e.outcomes, ∀ b ∈ e.outcomes, g a = g b → a = b)
    (h : applyPolicyAll p es = none) :
    applyPolicyAll p (es.map (fun e => (⟨e.cues.map f, e.outcomes.map g⟩ : Event ι' κ'))) = none := by
  obtain ⟨e, he, hpe⟩ := (applyPolicyAll_none_iff p es).mp h
  refine (applyPolicyAll_none_iff p _).mpr ⟨_, List.mem_map.mpr ⟨e, he, rfl⟩, ?_⟩
  rw [applyPolicy_map f g p e (hf e he) (hg e he), hpe]; rfl

theorem nChunks_pos (n per : Nat) (hp : 1 ≤ per) (hn : 1 ≤ n) : 1 ≤ nChunks n per := by
  unfold nChunks
  exact (Nat.le_div_iff_mul_le (by omega)).mpr (by omega)

/-- **the conversion stage and the kernels' reader, composed**: for label lists
    `cues`, `outs` that contain every name of the events (any order), legal
    chunk size and 32-bit counts, the chunk files decode to the windows of the
    policy-processed events with names replaced by their positions -/
theorem convert_ok (magic version : Nat) (hm : magic < 4294967296) (hv : version < 4294967296)
    (p : DupPolicy) (per : Nat) (hper1 : 1 ≤ per) (hperU : per < 4294967296)
    (cues outs : List String) (hnc : cues.length < 4294967296) (hno : outs.length < 4294967296)
    (es es' : List (Event String String)) (hp : applyPolicyAll p es = some es')
    (hmemc : ∀ e ∈ es, ∀ c ∈ e.cues, c ∈ cues) (hmemo : ∀ e ∈ es, ∀ o ∈ e.outcomes, o ∈ outs)
    (hn : es.length < 4294967296)
    (hpe : ∀ e ∈ es, e.cues.length < 4294967296 ∧ e.outcomes.length < 4294967296) :
    ∃ chunks : List (List (Event Nat Nat)),
      makeChunks magic version p (es.map (toIds cues outs)) per
        = .ok (chunks.map (encodeChunk magic version), es.length) ∧
      decodeAll magic version (chunks.map (encodeChunk magic version)) = .ok chunks ∧
      chunks.flatten = es'.map (toIds cues outs) ∧
      (es ≠ [] → chunks ≠ []) ∧
      (∀ e' ∈ es', (∀ c ∈ e'.cues, c ∈ cues) ∧ (∀ o ∈ e'.outcomes, o ∈ outs)) := by
  set f : String → Nat := (cues.idxOf ·) with hf
  set g : String → Nat := (outs.idxOf ·) with hg
  have hmap : es.map (toIds cues outs) = es.map (fun e => (⟨e.cues.map f, e.outcomes.map g⟩ : Event Nat Nat)) := rfl
  have hmap' : es'.map (toIds cues outs) = es'.map (fun e => (⟨e.cues.map f, e.outcomes.map g⟩ : Event Nat Nat)) := rfl
  have hpid : applyPolicyAll p (es.map (toIds cues outs)) = some (es'.map (toIds cues outs)) := by
    rw [hmap, hmap']
    apply applyPolicyAll_map f g p es es' _ _ hp
    · intro e he a ha b hb hab
      exact idxOf_injOn cues a b (hmemc e he a ha) (hmemc e he b hb) hab
    · intro e he a ha b hb hab
      exact idxOf_injOn outs a b (hmemo e he a ha) (hmemo e he b hb) hab
  set ids' := es'.map (toIds cues outs) with hids'
  have hes' : ∀ e' ∈ es', (∀ c ∈ e'.cues, c ∈ cues) ∧ (∀ o ∈ e'.outcomes, o ∈ outs) ∧
      e'.cues.length < 4294967296 ∧ e'.outcomes.length < 4294967296 := by
    intro e' he'
    obtain ⟨e, he, hpe'⟩ := applyPolicyAll_mem p es es' hp e' he'
    obtain ⟨s1, s2, s3, s4⟩ := applyPolicy_sub p e e' hpe'
    have hb := hpe e he
    exact ⟨fun c hc => hmemc e he c ((s1 c).mp hc), fun o ho => hmemo e he o ((s2 o).mp ho),
      by omega, by omega⟩
  have hlen : (es.map (toIds cues outs)).length = es.length := by simp
  have hmk := makeChunks_ok magic version p (es.map (toIds cues outs)) ids' hpid per hper1 hperU
  rw [hlen] at hmk
  set chunks := (List.range (nChunks es.length per)).map (chunkOf per ids') with hchunks
  have hfiles : (List.range (nChunks es.length per)).map
      (fun k => encodeChunk magic version (chunkOf per ids' k)) = chunks.map (encodeChunk magic version) := by
    rw [hchunks, List.map_map]; rfl
  have hlen' : ids'.length = es.length := by
    rw [hids', List.length_map]; exact applyPolicyAll_length p es es' hp
  have hflat : chunks.flatten = ids' := by
    rw [hchunks]
    exact chunks_flatten ids' per hper1 _ (by rw [hlen']; exact nChunks_covers es.length per hper1)
  have hidwf : ∀ e ∈ ids', EventWf e := by
    intro e he
    rw [hids'] at he
    obtain ⟨e', he', rfl⟩ := List.mem_map.mp he
    obtain ⟨a1, a2, a3, a4⟩ := hes' e' he'
    refine ⟨?_, ?_, by simpa [toIds] using a3, by simpa [toIds] using a4⟩
    · intro i hi
      obtain ⟨c, hc, rfl⟩ := List.mem_map.mp hi
      have := List.idxOf_lt_length_iff.mpr (a1 c hc)
      show cues.idxOf c < 4294967296
      omega
    · intro i hi
      obtain ⟨o, ho, rfl⟩ := List.mem_map.mp hi
      have := List.idxOf_lt_length_iff.mpr (a2 o ho)
      show outs.idxOf o < 4294967296
      omega
  have hchunkwf : ∀ c ∈ chunks, c.length < 4294967296 ∧ Wf32 c := by
    intro c hc
    have hsub : ∀ e ∈ c, e ∈ ids' := by
      intro e he
      rw [← hflat]; exact List.mem_flatten.mpr ⟨c, hc, he⟩
    constructor
    · rw [hchunks] at hc
      obtain ⟨k, _, rfl⟩ := List.mem_map.mp hc
      rw [length_chunkOf]
      have : min per (ids'.length - k * per) ≤ ids'.length := by omega
      omega
    · intro e he; exact hidwf e (hsub e he)
  have hdec := decodeAll_encode magic version hm hv chunks hchunkwf
  refine ⟨chunks, by rw [hmk, hfiles], hdec, hflat, ?_, fun e' he' => ⟨(hes' e' he').1, (hes' e' he').2.1⟩⟩
  intro hne hnil
  have h1 : 1 ≤ es.length := by
    cases es with
    | nil => exact absurd rfl hne
    | cons _ _ => simp
  have := nChunks_pos es.length per hper1 h1
  have hl := congrArg List.length hnil
  rw [hchunks, List.length_map, List.length_range] at hl
  simp at hl
  omega

end Pyndl

namespace Pyndl
open List

variable {R : Type} [CommRing R]

/-! ## the learner once the labels are fixed — for ANY label order and ANY order
of the ids inside an event -/

/-- `ndlCore` where, in addition, the kernels see every event through `reorder`
    (with `remove_duplicates=True` the writer iterates over `set(cue_ids)`: the
    order of the de-duplicated ids inside an event is hash order, not the first
    occurrence order `dedupKeepFirst` fixes).  `ndlCore` is the instance
    `reorder = id` (`ndlCoreWith_id`). -/
def ndlCoreWith (reorder : Event Nat Nat → Event Nat Nat) (magic version : Nat) (cfg : NdlCfg)
    (alpha β₁ β₂ lam : R) (cues outs : List String) (vals : Array R)
    (es : List (Event String String)) : Except Err (LW R × Nat) :=
  if cfg.perFile < 2 then .error .value else
  let ids := es.map (toIds cues outs)
  match makeChunks magic version cfg.policy ids cfg.perFile with
  | .error e => .error e
  | .ok (files, total) =>
    match decodeAll magic version files with
    | .error e => .error e
    | .ok chunks0 =>
      let chunks := chunks0.map (List.map reorder)
      let allOut := List.range outs.length
      match cfg.method with
      | .threading =>
        if cfg.perJob < 1 then .error .value else
        .ok (⟨outs, cues, learnThreadingSeq alpha β₁ β₂ lam cues.length chunks allOut cfg.perJob vals⟩, total)
      | .openmp =>
        if 4294967296 ≤ cfg.perJob then .error .other
        else if cfg.perJob < 1 ∧ !chunks.isEmpty then .error .other
        else .ok (⟨outs, cues, learnOpenmpSeq32 alpha β₁ β₂ lam cues.length chunks allOut cfg.perJob vals⟩, total)

theorem ndlCoreWith_id (magic version : Nat) (cfg : NdlCfg) (alpha β₁ β₂ lam : R) (cues outs : List String)
    (vals : Array R) (es : List (Event String String)) :
    ndlCoreWith id magic version cfg alpha β₁ β₂ lam cues outs vals es
      = ndlCore magic version cfg alpha β₁ β₂ lam cues outs vals es := by
  unfold ndlCoreWith ndlCore
  simp only [List.map_id_fun, id_eq, List.map_id]
  by_cases h : cfg.perFile < 2
  · simp only [h, if_true]
  · simp only [h, if_false]
    cases makeChunks magic version cfg.policy (es.map (toIds cues outs)) cfg.perFile with
    | error e => rfl
    | ok r =>
      obtain ⟨files, total⟩ := r
      simp only
      cases decodeAll magic version files with
      | error e => rfl
      | ok chunks => cases cfg.method <;> rfl

/-- the chunking arguments `ndl.ndl` runs through with, for `nOut` outcome labels:
    `2 ≤ events_per_temporary_file < 2³²`, `1 ≤ n_outcomes_per_job`, and for
    OpenMP `n_outcomes_per_job < 2³²` (`unsigned int chunksize`, else
    `OverflowError`) and `⌈nOut / n_outcomes_per_job⌉ · n_outcomes_per_job < 2³²`
    — the EXACT condition under which no `unsigned int` part bound of
    ndl_openmp.pyx:47-54 wraps (`ompBounds32_eq_nowrap`; it holds whenever
    `nOut + n_outcomes_per_job ≤ 2³²` and whenever `nOut ≤ n_outcomes_per_job`:
    `CfgOK.of_sum`, `CfgOK.of_one_part`).  Outside this last clause the code does
    NOT raise: the last part's `end_val` wraps below its `start_val`, the part is
    an empty range and its rows are silently left untrained
    (`ompBounds32_wraps_example`) — so no success theorem and no error theorem
    holds there; it needs more than 2³¹ outcome rows.
    (Earlier the clause was `nOut + n_outcomes_per_job < 2³²`, which is sufficient
    but not necessary: for `n_outcomes_per_job ∈ [2³² − nOut, 2³²)` code and model
    succeed.) -/
structure CfgOK (cfg : NdlCfg) (nOut : Nat) : Prop where
  perFileLo : 2 ≤ cfg.perFile
  perFileHi : cfg.perFile < 4294967296
  perJobLo : 1 ≤ cfg.perJob
  omp32 : cfg.method = .openmp →
    cfg.perJob < 4294967296 ∧ (nOut + cfg.perJob - 1) / cfg.perJob * cfg.perJob < 4294967296

instance (cfg : NdlCfg) (nOut : Nat) : Decidable (CfgOK cfg nOut) :=
  decidable_of_iff (2 ≤ cfg.perFile ∧ cfg.perFile < 4294967296 ∧ 1 ≤ cfg.perJob ∧
      (cfg.method = .openmp →
        cfg.perJob < 4294967296 ∧ (nOut + cfg.perJob - 1) / cfg.perJob * cfg.perJob < 4294967296))
    ⟨fun ⟨a, b, c, d⟩ => ⟨a, b, c, d⟩, fun ⟨a, b, c, d⟩ => ⟨a, b, c, d⟩⟩

theorem CfgOK.mono {cfg : NdlCfg} {n m : Nat} (h : CfgOK cfg n) (hmn : m ≤ n) : CfgOK cfg m :=
  ⟨h.perFileLo, h.perFileHi, h.perJobLo, fun hm => by
    obtain ⟨a, b⟩ := h.omp32 hm
    refine ⟨a, lt_of_le_of_lt (Nat.mul_le_mul_right _ (Nat.div_le_div_right (by omega))) b⟩⟩

/-- the earlier, stronger clause `nOut + n_outcomes_per_job < 2³²` (even `≤`, with
    `n_outcomes_per_job < 2³²`) suffices -/
theorem CfgOK.of_sum {cfg : NdlCfg} {nOut : Nat} (h1 : 2 ≤ cfg.perFile) (h2 : cfg.perFile < 4294967296)
    (h3 : 1 ≤ cfg.perJob)
    (h4 : cfg.method = .openmp → cfg.perJob < 4294967296 ∧ nOut + cfg.perJob ≤ 4294967296) : CfgOK cfg nOut :=
  ⟨h1, h2, h3, fun hm => by
    obtain ⟨a, b⟩ := h4 hm
    have hd := Nat.div_mul_le_self (nOut + cfg.perJob - 1) cfg.perJob
    exact ⟨a, by omega⟩⟩

/-- one part (`n_outcomes_per_job ≥ nOut`, the default 10 on small data) never wraps -/
theorem CfgOK.of_one_part {cfg : NdlCfg} {nOut : Nat} (h1 : 2 ≤ cfg.perFile) (h2 : cfg.perFile < 4294967296)
    (h3 : 1 ≤ cfg.perJob) (h4 : cfg.method = .openmp → cfg.perJob < 4294967296 ∧ nOut ≤ cfg.perJob) :
    CfgOK cfg nOut :=
  ⟨h1, h2, h3, fun hm => by
    obtain ⟨a, b⟩ := h4 hm
    refine ⟨a, ?_⟩
    have : (nOut + cfg.perJob - 1) / cfg.perJob ≤ 1 := by
      rw [Nat.div_le_iff_le_mul_add_pred (by omega)]; omega
    calc (nOut + cfg.perJob - 1) / cfg.perJob * cfg.perJob ≤ 1 * cfg.perJob := Nat.mul_le_mul_right _ this
      _ < 4294967296 := by omega⟩

/-- **the generic end-to-end statement.**  Label lists `cues`, `outs` in ANY order
    that contain the names of the events; initial values `vals` denoting a weight
    function `W` on the labels; any reordering of the ids inside each event.
    Then the learner succeeds, labels its result with `outs`, `cues`, reports the
    number of events, and the value at every labelled (outcome, cue) is the
    specification continued from `W` on the policy-processed events. -/
theorem ndlCoreWith_spec (reorder : Event Nat Nat → Event Nat Nat)
    (hre : ∀ e, (reorder e).cues ~ e.cues ∧ (reorder e).outcomes ~ e.outcomes)
    (magic version : Nat) (hm : magic < 4294967296) (hv : version < 4294967296)
    (cfg : NdlCfg) (alpha β₁ β₂ lam : R) (cues outs : List String) (hcfg : CfgOK cfg outs.length)
    (hnc : cues.length < 4294967296) (hno : outs.length < 4294967296)
    (vals : Array R) (hsz : vals.size = cues.length * outs.length)
    (es es' : List (Event String String)) (hp : applyPolicyAll cfg.policy es = some es')
    (hmemc : ∀ e ∈ es, ∀ c ∈ e.cues, c ∈ cues) (hmemo : ∀ e ∈ es, ∀ o ∈ e.outcomes, o ∈ outs)
    (hn : es.length < 4294967296)
    (hpe : ∀ e ∈ es, e.cues.length < 4294967296 ∧ e.outcomes.length < 4294967296)
    (W : String → String → R)
    (hW : ∀ o c, o ∈ outs → c ∈ cues → rowFn cues.length vals (outs.idxOf o) (cues.idxOf c) = W o c) :
    ∃ vals', ndlCoreWith reorder magic version cfg alpha β₁ β₂ lam cues outs vals es
        = .ok (⟨outs, cues, vals'⟩, es.length) ∧
      ∀ o c, o ∈ outs → c ∈ cues →
        (LW.get ⟨outs, cues, vals'⟩ o c : R) = rwLearn (fun _ => alpha) β₁ β₂ lam W es' o c := by
  obtain ⟨hper, hperU, hjob, h32⟩ := hcfg
  obtain ⟨chunks0, hmk, hdec, hflat, _, hes'⟩ := convert_ok magic version hm hv cfg.policy cfg.perFile
    (by omega) hperU cues outs hnc hno es es' hp hmemc hmemo hn hpe
  set f : String → Nat := (cues.idxOf ·) with hf
  set g : String → Nat := (outs.idxOf ·) with hg
  set ids' := es'.map (toIds cues outs) with hids'
  set chunks := chunks0.map (List.map reorder) with hchunks
  have hflatR : chunks.flatten = ids'.map reorder := by
    rw [hchunks, ← List.map_flatten, hflat]
  set n := cues.length with hn'
  set nOut := outs.length with hnOut
  have hw0 : vals.size = n * nOut := hsz
  have hcuesok : ∀ e ∈ chunks.flatten, ∀ c ∈ e.cues, c < n := by
    intro e he c hc
    rw [hflatR] at he
    obtain ⟨e0, he0, rfl⟩ := List.mem_map.mp he
    have hc0 : c ∈ e0.cues := (hre e0).1.mem_iff.mp hc
    rw [hids'] at he0
    obtain ⟨e', he', rfl⟩ := List.mem_map.mp he0
    obtain ⟨c', hc', rfl⟩ := List.mem_map.mp hc0
    exact List.idxOf_lt_length_iff.mpr ((hes' e' he').1 c' hc')
  have hrows : ∀ o ∈ List.range nOut, o < nOut := fun o ho => List.mem_range.mp ho
  let vals' : Array R := match cfg.method with
    | .threading => learnThreadingSeq alpha β₁ β₂ lam n chunks (List.range nOut) cfg.perJob vals
    | .openmp => learnOpenmpSeq32 alpha β₁ β₂ lam n chunks (List.range nOut) cfg.perJob vals
  have hrow : ∀ i, i < nOut →
      rowFn n vals' i = rwLearn (fun _ => alpha) β₁ β₂ lam (fun o => rowFn n vals o) ids' i := by
    intro i hi
    show rowFn n (match cfg.method with
      | .threading => learnThreadingSeq alpha β₁ β₂ lam n chunks (List.range nOut) cfg.perJob vals
      | .openmp => learnOpenmpSeq32 alpha β₁ β₂ lam n chunks (List.range nOut) cfg.perJob vals) i = _
    cases hmeth : cfg.method with
    | threading =>
      simp only
      rw [learnThreadingSeq_eq_spec alpha β₁ β₂ lam n nOut chunks (List.range nOut) cfg.perJob hjob
        List.nodup_range hrows hcuesok _ hw0 i (List.mem_range.mpr hi), hflatR,
        rwLearn_map_reorder _ _ _ _ _ reorder hre]
    | openmp =>
      simp only
      rw [learnOpenmpSeq32_eq_nowrap alpha β₁ β₂ lam n chunks (List.range nOut) cfg.perJob hjob
        (by rw [List.length_range]; exact hno) (h32 hmeth).1
        (by rw [List.length_range]; exact (h32 hmeth).2),
        learnOpenmpSeq_eq_spec alpha β₁ β₂ lam n nOut chunks (List.range nOut) cfg.perJob hjob
        List.nodup_range hrows hcuesok _ hw0 i (List.mem_range.mpr hi), hflatR,
        rwLearn_map_reorder _ _ _ _ _ reorder hre]
  refine ⟨vals', ?_, ?_⟩
  · unfold ndlCoreWith
    have h1 : ¬ cfg.perFile < 2 := by omega
    have h2 : ¬ cfg.perJob < 1 := by omega
    simp only [h1, if_false, hmk, hdec]
    show (match cfg.method with
      | .threading => _
      | .openmp => _) = _
    cases hmeth : cfg.method with
    | threading =>
      simp only [h2, if_false]
      show Except.ok _ = Except.ok _
      congr 3
      show _ = (match cfg.method with
        | .threading => learnThreadingSeq alpha β₁ β₂ lam n chunks (List.range nOut) cfg.perJob vals
        | .openmp => learnOpenmpSeq32 alpha β₁ β₂ lam n chunks (List.range nOut) cfg.perJob vals)
      rw [hmeth]
    | openmp =>
      have h3 : ¬ 4294967296 ≤ cfg.perJob := by have := (h32 hmeth).1; omega
      simp only [h3, h2, if_false, false_and]
      show Except.ok _ = Except.ok _
      congr 3
      show _ = (match cfg.method with
        | .threading => learnThreadingSeq alpha β₁ β₂ lam n chunks (List.range nOut) cfg.perJob vals
        | .openmp => learnOpenmpSeq32 alpha β₁ β₂ lam n chunks (List.range nOut) cfg.perJob vals)
      rw [hmeth]
  · intro o c ho hc
    have hi : outs.idxOf o < nOut := List.idxOf_lt_length_iff.mpr ho
    have hj : cues.idxOf c < n := List.idxOf_lt_length_iff.mpr hc
    have hget : (LW.get ⟨outs, cues, vals'⟩ o c : R) = rowFn n vals' (outs.idxOf o) (cues.idxOf c) := by
      unfold LW.get rowFn flatIdx
      have hi' : outs.idxOf o < outs.length := hi
      have hj' : cues.idxOf c < cues.length := hj
      simp only [hj]
      rw [if_pos ⟨hi', hj'⟩, if_pos trivial, Nat.mul_comm]
    rw [hget, hrow _ hi, hids']
    exact rwLearn_rename_on f g (· ∈ cues) (· ∈ outs)
      (fun a b ha hb h => idxOf_injOn cues a b ha hb h)
      (fun a b ha hb h => idxOf_injOn outs a b ha hb h)
      alpha β₁ β₂ lam W (fun i j => rowFn n vals i j) es'
      (fun e he => hes' e he) (fun o c ho hc => hW o c ho hc) o c ho hc

end Pyndl

namespace Pyndl
open List

variable {R : Type} [CommRing R]

/-- `ndlCoreWith_spec` for the model itself (`reorder = id`) -/
theorem ndlCore_spec (magic version : Nat) (hm : magic < 4294967296) (hv : version < 4294967296)
    (cfg : NdlCfg) (alpha β₁ β₂ lam : R) (cues outs : List String) (hcfg : CfgOK cfg outs.length)
    (hnc : cues.length < 4294967296) (hno : outs.length < 4294967296)
    (vals : Array R) (hsz : vals.size = cues.length * outs.length)
    (es es' : List (Event String String)) (hp : applyPolicyAll cfg.policy es = some es')
    (hmemc : ∀ e ∈ es, ∀ c ∈ e.cues, c ∈ cues) (hmemo : ∀ e ∈ es, ∀ o ∈ e.outcomes, o ∈ outs)
    (hn : es.length < 4294967296)
    (hpe : ∀ e ∈ es, e.cues.length < 4294967296 ∧ e.outcomes.length < 4294967296)
    (W : String → String → R)
    (hW : ∀ o c, o ∈ outs → c ∈ cues → rowFn cues.length vals (outs.idxOf o) (cues.idxOf c) = W o c) :
    ∃ vals', ndlCore magic version cfg alpha β₁ β₂ lam cues outs vals es
        = .ok (⟨outs, cues, vals'⟩, es.length) ∧
      ∀ o c, o ∈ outs → c ∈ cues →
        (LW.get ⟨outs, cues, vals'⟩ o c : R) = rwLearn (fun _ => alpha) β₁ β₂ lam W es' o c := by
  rw [← ndlCoreWith_id]
  exact ndlCoreWith_spec id (fun e => ⟨List.Perm.refl _, List.Perm.refl _⟩) magic version hm hv cfg
    alpha β₁ β₂ lam cues outs hcfg hnc hno vals hsz es es' hp hmemc hmemo hn hpe W hW

/-! ### the error branches of `ndlCore` -/

/-- `events_per_temporary_file ≥ 2³²` ⇒ `OverflowError` — for every event file
    (empty included), labels, method, policy -/
theorem ndlCore_perFile_overflow (magic version : Nat) (cfg : NdlCfg) (alpha β₁ β₂ lam : R)
    (cues outs : List String) (vals : Array R) (es : List (Event String String))
    (h : 4294967296 ≤ cfg.perFile) :
    ndlCore magic version cfg alpha β₁ β₂ lam cues outs vals es = .error .other := by
  unfold ndlCore
  have h1 : ¬ cfg.perFile < 2 := by omega
  simp only [h1, if_false, makeChunks_overflow _ _ _ _ _ h]

/-- `events_per_temporary_file < 2` ⇒ `ValueError` -/
theorem ndlCore_perFile_small (magic version : Nat) (cfg : NdlCfg) (alpha β₁ β₂ lam : R)
    (cues outs : List String) (vals : Array R) (es : List (Event String String))
    (h : cfg.perFile < 2) :
    ndlCore magic version cfg alpha β₁ β₂ lam cues outs vals es = .error .value := by
  unfold ndlCore
  rw [if_pos h]

/-- **a duplicate the policy rejects, anywhere in the file ⇒ `ValueError`** — every
    method, chunk sizes (legal `events_per_temporary_file`), labels that contain
    the names, initial values -/
theorem ndlCore_dup_raises (magic version : Nat) (cfg : NdlCfg) (alpha β₁ β₂ lam : R)
    (cues outs : List String) (vals : Array R) (es : List (Event String String))
    (hper : 2 ≤ cfg.perFile) (hperU : cfg.perFile < 4294967296)
    (hmemc : ∀ e ∈ es, ∀ c ∈ e.cues, c ∈ cues) (hmemo : ∀ e ∈ es, ∀ o ∈ e.outcomes, o ∈ outs)
    (h : applyPolicyAll cfg.policy es = none) :
    ndlCore magic version cfg alpha β₁ β₂ lam cues outs vals es = .error .value := by
  have hid : applyPolicyAll cfg.policy (es.map (toIds cues outs)) = none :=
    applyPolicyAll_map_none (cues.idxOf ·) (outs.idxOf ·) cfg.policy es
      (fun e he a ha b hb hab => idxOf_injOn cues a b (hmemc e he a ha) (hmemc e he b hb) hab)
      (fun e he a ha b hb hab => idxOf_injOn outs a b (hmemo e he a ha) (hmemo e he b hb) hab) h
  unfold ndlCore
  have h1 : ¬ cfg.perFile < 2 := by omega
  simp only [h1, if_false, makeChunks_error magic version cfg.policy _ cfg.perFile (by omega) hperU hid]

/-- **illegal `n_outcomes_per_job`**, after a conversion that went through:
    threading, `< 1`: `ValueError` (`slice_list`); OpenMP, `≥ 2³²`:
    `OverflowError` (`unsigned int chunksize`); OpenMP, `0` and at least one
    event: `ZeroDivisionError` (`.other`) -/
theorem ndlCore_perJob_errors (magic version : Nat) (hm : magic < 4294967296) (hv : version < 4294967296)
    (cfg : NdlCfg) (alpha β₁ β₂ lam : R) (cues outs : List String)
    (hper : 2 ≤ cfg.perFile) (hperU : cfg.perFile < 4294967296)
    (hnc : cues.length < 4294967296) (hno : outs.length < 4294967296) (vals : Array R)
    (es es' : List (Event String String)) (hp : applyPolicyAll cfg.policy es = some es')
    (hmemc : ∀ e ∈ es, ∀ c ∈ e.cues, c ∈ cues) (hmemo : ∀ e ∈ es, ∀ o ∈ e.outcomes, o ∈ outs)
    (hn : es.length < 4294967296)
    (hpe : ∀ e ∈ es, e.cues.length < 4294967296 ∧ e.outcomes.length < 4294967296) :
    (cfg.method = .threading → cfg.perJob < 1 →
      ndlCore magic version cfg alpha β₁ β₂ lam cues outs vals es = .error .value) ∧
    (cfg.method = .openmp → 4294967296 ≤ cfg.perJob →
      ndlCore magic version cfg alpha β₁ β₂ lam cues outs vals es = .error .other) ∧
    (cfg.method = .openmp → cfg.perJob < 1 → es ≠ [] →
      ndlCore magic version cfg alpha β₁ β₂ lam cues outs vals es = .error .other) := by
  obtain ⟨chunks, hmk, hdec, _, hne, _⟩ := convert_ok magic version hm hv cfg.policy cfg.perFile
    (by omega) hperU cues outs hnc hno es es' hp hmemc hmemo hn hpe
  have h1 : ¬ cfg.perFile < 2 := by omega
  refine ⟨?_, ?_, ?_⟩
  · intro hmeth hj
    unfold ndlCore
    simp only [h1, if_false, hmk, hdec, hmeth, hj, if_true]
  · intro hmeth hj
    unfold ndlCore
    simp only [h1, if_false, hmk, hdec, hmeth, hj, if_true]
  · intro hmeth hj hes
    have hj2 : ¬ 4294967296 ≤ cfg.perJob := by omega
    have hce : chunks.isEmpty = false := by
      cases hc : chunks with
      | nil => exact absurd hc (hne hes)
      | cons _ _ => rfl
    unfold ndlCore
    simp only [h1, if_false, hmk, hdec, hmeth, hj, hj2, hce, Bool.not_false, and_self, if_true]

end Pyndl

namespace Pyndl
open List

variable {R : Type} [CommRing R]

/-- size side conditions of the 32-bit chunk format and of the shape guard of
    `ndl.ndl` (it raises ValueError / OverflowError outside) -/
structure Fits32 (es : List (Event String String)) : Prop where
  nEvents : es.length < 4294967296
  nCues : (countNames es).1.length < 4294967296
  nOuts : (countNames es).2.length < 4294967296
  perEvent : ∀ e ∈ es, e.cues.length < 4294967296 ∧ e.outcomes.length < 4294967296

theorem rowFn_replicate_zero (n k o : Nat) : rowFn n (Array.replicate k (0 : R)) o = fun _ => 0 := by
  funext c
  unfold rowFn
  split
  · simp only [Array.getD_eq_getD_getElem?]
    by_cases h : flatIdx n o c < k
    · simp [h]
    · simp [h]
  · rfl

theorem countNames_mem (es : List (Event String String)) (e : Event String String) (he : e ∈ es) :
    (∀ c ∈ e.cues, c ∈ (countNames es).1) ∧ (∀ o ∈ e.outcomes, o ∈ (countNames es).2) := by
  unfold countNames
  constructor
  · intro c hc
    exact (mem_dedupKeepFirst _ c).mpr (List.mem_flatMap.mpr ⟨e, he, hc⟩)
  · intro o ho
    exact (mem_dedupKeepFirst _ o).mpr (List.mem_flatMap.mpr ⟨e, he, ho⟩)

/-- from scratch, `ndlModel` is `ndlCore` on the counted names and zeros -/
theorem ndlModel_none (magic version : Nat) (cfg : NdlCfg) (alpha β₁ β₂ lam : R)
    (es : List (Event String String)) :
    ndlModel magic version cfg alpha β₁ β₂ lam none es
      = ndlCore magic version cfg alpha β₁ β₂ lam (countNames es).1 (countNames es).2
          (Array.replicate ((countNames es).2.length * (countNames es).1.length) 0) es := by
  unfold ndlModel
  rcases countNames es with ⟨cues, outs⟩
  rfl

/-- with `weights=`, `ndlModel` is `ndlCore` on the merged labels and the
    zero-extended values -/
theorem ndlModel_some (magic version : Nat) (cfg : NdlCfg) (alpha β₁ β₂ lam : R) (w : LW R)
    (es : List (Event String String)) :
    ndlModel magic version cfg alpha β₁ β₂ lam (some w) es
      = ndlCore magic version cfg alpha β₁ β₂ lam
          (w.cues ++ (countNames es).1.filter (fun c => !w.cues.contains c))
          (w.outcomes ++ (countNames es).2.filter (fun o => !w.outcomes.contains o))
          (extendVals w.vals w.outcomes.length w.cues.length
            (w.outcomes ++ (countNames es).2.filter (fun o => !w.outcomes.contains o)).length
            (w.cues ++ (countNames es).1.filter (fun c => !w.cues.contains c)).length) es := by
  unfold ndlModel
  rcases countNames es with ⟨cues, outs⟩
  rfl

/-- **`ndl.ndl` = specification, end to end** (training from scratch): for every
    event list the duplicate policy accepts, every method, and chunking arguments
    `CfgOK` (`2 ≤ events_per_temporary_file < 2³²`, `1 ≤ n_outcomes_per_job`,
    OpenMP: `n_outcomes_per_job < 2³²` and no wrap-around of the part bounds), the model of `ndl.ndl` —
    counting, id maps, duplicate policy on ids, binary chunk files (encode,
    numeric order, kernel reader), kernels per part (OpenMP: in 32-bit
    arithmetic), labelling — returns a labelled matrix whose value at EVERY
    (outcome name, cue name) is the Rescorla–Wagner specification on the
    policy-processed events, and reports the number of events. -/
theorem ndlModel_eq_spec (magic version : Nat) (hm : magic < 4294967296) (hv : version < 4294967296)
    (cfg : NdlCfg) (alpha β₁ β₂ lam : R) (es es' : List (Event String String))
    (hcfg : CfgOK cfg (countNames es).2.length)
    (hp : applyPolicyAll cfg.policy es = some es') (hfit : Fits32 es) :
    ∃ w, ndlModel magic version cfg alpha β₁ β₂ lam none es = .ok (w, es.length) ∧
      ∀ o c, w.get o c = rwLearn (fun _ => alpha) β₁ β₂ lam (fun _ _ => (0 : R)) es' o c := by
  rw [ndlModel_none]
  set cues := (countNames es).1 with hcues
  set outs := (countNames es).2 with houts
  have hmemc : ∀ e ∈ es, ∀ c ∈ e.cues, c ∈ cues := fun e he c hc => (countNames_mem es e he).1 c hc
  have hmemo : ∀ e ∈ es, ∀ o ∈ e.outcomes, o ∈ outs := fun e he o ho => (countNames_mem es e he).2 o ho
  obtain ⟨vals', hrun, hget⟩ := ndlCore_spec magic version hm hv cfg alpha β₁ β₂ lam cues outs hcfg
    hfit.nCues hfit.nOuts (Array.replicate (outs.length * cues.length) 0) (by simp [Nat.mul_comm])
    es es' hp hmemc hmemo hfit.nEvents hfit.perEvent (fun _ _ => 0)
    (fun o c _ _ => by rw [rowFn_replicate_zero])
  have hes' : ∀ e' ∈ es', (∀ c ∈ e'.cues, c ∈ cues) ∧ (∀ o ∈ e'.outcomes, o ∈ outs) := by
    intro e' he'
    obtain ⟨e, he, hpe⟩ := applyPolicyAll_mem cfg.policy es es' hp e' he'
    obtain ⟨s1, s2, _, _⟩ := applyPolicy_sub cfg.policy e e' hpe
    exact ⟨fun c hc => hmemc e he c ((s1 c).mp hc), fun o ho => hmemo e he o ((s2 o).mp ho)⟩
  refine ⟨⟨outs, cues, vals'⟩, hrun, ?_⟩
  intro o c
  by_cases ho : o ∈ outs
  · by_cases hc : c ∈ cues
    · exact hget o c ho hc
    · rw [LW.get_not_cue _ o c hc, rwLearn_unseen_cue]
      intro e he hce
      exact hc ((hes' e he).1 c hce)
  · rw [LW.get_not_outcome _ o c ho]
    have := rwLearn_unseen_outcome (fun _ => alpha) β₁ β₂ lam (fun _ _ => (0 : R)) es' o
      (fun e he hoe => ho ((hes' e he).2 o hoe)) rfl
    rw [this]

/-- the labels of a result of `ndlCore` are the label lists it was given -/
theorem ndlCore_labels (magic version : Nat) (cfg : NdlCfg) (alpha β₁ β₂ lam : R) (cues outs : List String)
    (vals : Array R) (es : List (Event String String)) (r : LW R) (n : Nat)
    (h : ndlCore magic version cfg alpha β₁ β₂ lam cues outs vals es = .ok (r, n)) :
    r.cues = cues ∧ r.outcomes = outs := by
  unfold ndlCore at h
  by_cases h1 : cfg.perFile < 2
  · simp only [h1, if_true] at h; cases h
  · simp only [h1, if_false] at h
    cases hmk : makeChunks magic version cfg.policy (es.map (toIds cues outs)) cfg.perFile with
    | error e => simp only [hmk] at h; cases h
    | ok ft =>
      obtain ⟨files, total⟩ := ft
      simp only [hmk] at h
      cases hdec : decodeAll magic version files with
      | error e => simp only [hdec] at h; cases h
      | ok chunks =>
        simp only [hdec] at h
        cases hmeth : cfg.method with
        | threading =>
          simp only [hmeth] at h
          split at h
          · cases h
          · simp only [Except.ok.injEq, Prod.mk.injEq] at h
            obtain ⟨h, _⟩ := h
            subst h
            exact ⟨rfl, rfl⟩
        | openmp =>
          simp only [hmeth] at h
          split at h
          · cases h
          · split at h
            · cases h
            · simp only [Except.ok.injEq, Prod.mk.injEq] at h
              obtain ⟨h, _⟩ := h
              subst h
              exact ⟨rfl, rfl⟩

/-! ### error directions for `ndl.ndl` from scratch and continued -/

/-- **`events_per_temporary_file ≥ 2³²` ⇒ `OverflowError`**: for EVERY event file
    (zero events included), with or without `weights=`, every method and policy -/
theorem ndlModel_perFile_overflow (magic version : Nat) (cfg : NdlCfg) (alpha β₁ β₂ lam : R)
    (W0 : Option (LW R)) (es : List (Event String String)) (h : 4294967296 ≤ cfg.perFile) :
    ndlModel magic version cfg alpha β₁ β₂ lam W0 es = .error .other := by
  cases W0 with
  | none => rw [ndlModel_none]; exact ndlCore_perFile_overflow _ _ _ _ _ _ _ _ _ _ _ h
  | some w => rw [ndlModel_some]; exact ndlCore_perFile_overflow _ _ _ _ _ _ _ _ _ _ _ h

theorem mem_append_filter_new (old new : List String) (x : String) (h : x ∈ new) :
    x ∈ old ++ new.filter (fun c => !old.contains c) := by
  by_cases ho : x ∈ old
  · exact List.mem_append_left _ ho
  · apply List.mem_append_right
    rw [List.mem_filter]
    refine ⟨h, ?_⟩
    simp [ho]

/-- **`remove_duplicates=None` (or any policy that rejects): a repeated cue or
    outcome ANYWHERE in the file ⇒ `ValueError`** — every method, every
    `n_outcomes_per_job` (legal or not: the conversion comes first), every legal
    `events_per_temporary_file`, with or without initial weights -/
theorem ndlModel_dup_raises (magic version : Nat) (cfg : NdlCfg) (alpha β₁ β₂ lam : R)
    (W0 : Option (LW R)) (es : List (Event String String))
    (hper : 2 ≤ cfg.perFile) (hperU : cfg.perFile < 4294967296)
    (h : applyPolicyAll cfg.policy es = none) :
    ndlModel magic version cfg alpha β₁ β₂ lam W0 es = .error .value := by
  cases W0 with
  | none =>
    rw [ndlModel_none]
    exact ndlCore_dup_raises _ _ _ _ _ _ _ _ _ _ _ hper hperU
      (fun e he c hc => (countNames_mem es e he).1 c hc) (fun e he o ho => (countNames_mem es e he).2 o ho) h
  | some w =>
    rw [ndlModel_some]
    exact ndlCore_dup_raises _ _ _ _ _ _ _ _ _ _ _ hper hperU
      (fun e he c hc => mem_append_filter_new _ _ _ ((countNames_mem es e he).1 c hc))
      (fun e he o ho => mem_append_filter_new _ _ _ ((countNames_mem es e he).2 o ho)) h

/-- **illegal `n_outcomes_per_job`** (from scratch; conversion went through) -/
theorem ndlModel_perJob_errors (magic version : Nat) (hm : magic < 4294967296) (hv : version < 4294967296)
    (cfg : NdlCfg) (alpha β₁ β₂ lam : R) (hper : 2 ≤ cfg.perFile) (hperU : cfg.perFile < 4294967296)
    (es es' : List (Event String String)) (hp : applyPolicyAll cfg.policy es = some es') (hfit : Fits32 es) :
    (cfg.method = .threading → cfg.perJob < 1 →
      ndlModel magic version cfg alpha β₁ β₂ lam none es = .error .value) ∧
    (cfg.method = .openmp → 4294967296 ≤ cfg.perJob →
      ndlModel magic version cfg alpha β₁ β₂ lam none es = .error .other) ∧
    (cfg.method = .openmp → cfg.perJob < 1 → es ≠ [] →
      ndlModel magic version cfg alpha β₁ β₂ lam none es = .error .other) := by
  rw [ndlModel_none]
  exact ndlCore_perJob_errors magic version hm hv cfg alpha β₁ β₂ lam _ _ hper hperU hfit.nCues hfit.nOuts _
    es es' hp (fun e he c hc => (countNames_mem es e he).1 c hc)
    (fun e he o ho => (countNames_mem es e he).2 o ho) hfit.nEvents hfit.perEvent

end Pyndl
