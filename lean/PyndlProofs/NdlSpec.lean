import PyndlModel.Ndl
import PyndlProofs.SeqSchedule
import PyndlProofs.Bytes
import PyndlProofs.Chunking
import PyndlProofs.Laws
import PyndlProofs.Continue

set_option linter.unusedSectionVars false
set_option linter.unusedSimpArgs false
set_option linter.unusedVariables false

namespace Pyndl
open List

variable {R : Type} [CommRing R]

/-! ## first-occurrence de-duplication -/

theorem mem_dedupKeepFirst {α : Type} [DecidableEq α] (xs : List α) (a : α) :
    a ∈ dedupKeepFirst xs ↔ a ∈ xs := by
  induction xs with
  | nil => simp [dedupKeepFirst]
  | cons x xs ih =>
    simp only [dedupKeepFirst, List.mem_cons, List.mem_filter, ih, decide_eq_true_eq]
    constructor
    · rintro (h | ⟨h, _⟩)
      · exact Or.inl h
      · exact Or.inr h
    · rintro (h | h)
      · exact Or.inl h
      · by_cases hax : a = x
        · exact Or.inl hax
        · exact Or.inr ⟨h, hax⟩

theorem nodup_dedupKeepFirst {α : Type} [DecidableEq α] (xs : List α) : (dedupKeepFirst xs).Nodup := by
  induction xs with
  | nil => simp [dedupKeepFirst]
  | cons x xs ih =>
    simp only [dedupKeepFirst, List.nodup_cons, List.mem_filter, decide_eq_true_eq, ne_eq,
      not_true_eq_false, and_false, not_false_eq_true, true_and]
    exact ih.filter _

/-! ## renaming with a map that is injective only on the names that occur -/

theorem count_map_injOn {α β : Type} [DecidableEq α] [DecidableEq β] (f : α → β) (c : α) (cs : List α)
    (h : ∀ x ∈ cs, f x = f c → x = c) : (cs.map f).count (f c) = cs.count c := by
  induction cs with
  | nil => simp
  | cons d cs ih =>
    have ih' := ih (fun x hx => h x (by simp [hx]))
    by_cases hd : d = c
    · subst hd; simp [ih']
    · have : ¬ f d = f c := fun e => hd (h d (by simp) e)
      simp only [List.map_cons]
      rw [List.count_cons_of_ne this, List.count_cons_of_ne hd, ih']

theorem mem_map_injOn {α β : Type} (g : α → β) (o : α) (os : List α)
    (h : ∀ x ∈ os, g x = g o → x = o) : g o ∈ os.map g ↔ o ∈ os := by
  constructor
  · intro hm
    obtain ⟨x, hx, e⟩ := List.mem_map.mp hm
    exact (h x hx e) ▸ hx
  · exact fun hm => List.mem_map.mpr ⟨o, hm, rfl⟩

/-- renaming equivariance for maps injective on a set `S`/`T` that contains the
    names of all events and the query point -/
theorem rwLearn_rename_on {ι κ ι' κ' : Type} [DecidableEq ι] [DecidableEq κ] [DecidableEq ι'] [DecidableEq κ']
    (f : ι → ι') (g : κ → κ') (S : ι → Prop) (T : κ → Prop)
    (hf : ∀ a b, S a → S b → f a = f b → a = b) (hg : ∀ a b, T a → T b → g a = g b → a = b)
    (alpha β₁ β₂ lam : R) (W : κ → ι → R) (W' : κ' → ι' → R)
    (es : List (Event ι κ)) (hes : ∀ e ∈ es, (∀ c ∈ e.cues, S c) ∧ (∀ o ∈ e.outcomes, T o))
    (hW : ∀ o c, T o → S c → W' (g o) (f c) = W o c) (o : κ) (c : ι) (ho : T o) (hc : S c) :
    rwLearn (fun _ => alpha) β₁ β₂ lam W' (es.map (fun e => ⟨e.cues.map f, e.outcomes.map g⟩)) (g o) (f c)
      = rwLearn (fun _ => alpha) β₁ β₂ lam W es o c := by
  induction es generalizing W W' with
  | nil => exact hW o c ho hc
  | cons e es ih =>
    simp only [List.map_cons, rwLearn_cons]
    have he := hes e (by simp)
    refine ih _ _ (fun x hx => hes x (by simp [hx])) ?_
    intro o c ho hc
    simp only [rwStep, rwRow_apply, rwU]
    have h1 : (e.cues.map f).count (f c) = e.cues.count c :=
      count_map_injOn f c e.cues (fun x hx e' => hf x c (he.1 x hx) hc e')
    have h2 : ((e.cues.map f).map (W' (g o))).sum = (e.cues.map (W o)).sum := by
      rw [List.map_map]; congr 1; apply List.map_congr_left; intro x hx; exact hW o x ho (he.1 x hx)
    have h3 : decide (g o ∈ e.outcomes.map g) = decide (o ∈ e.outcomes) := by
      congr 1; exact propext (mem_map_injOn g o e.outcomes (fun x hx e' => hg x o (he.2 x hx) ho e'))
    rw [h1, h2, h3, hW o c ho hc]

/-! ## rows and columns the events never mention keep their initial value -/

theorem rwLearn_unseen_cue {ι κ : Type} [DecidableEq ι] [DecidableEq κ] (α : ι → R) (β₁ β₂ lam : R)
    (W : κ → ι → R) (es : List (Event ι κ)) (o : κ) (c : ι) (h : ∀ e ∈ es, c ∉ e.cues) :
    rwLearn α β₁ β₂ lam W es o c = W o c := by
  induction es generalizing W with
  | nil => rfl
  | cons e es ih =>
    rw [rwLearn_cons, ih _ (fun x hx => h x (by simp [hx]))]
    simp only [rwStep]
    exact rwRow_absent α β₁ β₂ lam (W o) e.cues _ c (h e (by simp))

theorem rwLearn_unseen_outcome {ι κ : Type} [DecidableEq ι] [DecidableEq κ] (α : ι → R) (β₁ β₂ lam : R)
    (W : κ → ι → R) (es : List (Event ι κ)) (o : κ) (h : ∀ e ∈ es, o ∉ e.outcomes)
    (hz : W o = fun _ => 0) : rwLearn α β₁ β₂ lam W es o = fun _ => 0 := by
  induction es generalizing W with
  | nil => exact hz
  | cons e es ih =>
    rw [rwLearn_cons]
    refine ih _ (fun x hx => h x (by simp [hx])) ?_
    simp only [rwStep, hz, h e (by simp), decide_false]
    exact unseen_row_stays_zero α β₁ β₂ lam e.cues

/-! ## the duplicate policy commutes with the id maps -/

theorem hasDup_map_injOn {α β : Type} [DecidableEq α] [DecidableEq β] (f : α → β) (xs : List α)
    (h : ∀ a ∈ xs, ∀ b ∈ xs, f a = f b → a = b) : hasDup (xs.map f) = hasDup xs := by
  induction xs with
  | nil => rfl
  | cons x xs ih =>
    simp only [List.map_cons, hasDup]
    rw [ih (fun a ha b hb => h a (by simp [ha]) b (by simp [hb]))]
    congr 1
    have : f x ∈ xs.map f ↔ x ∈ xs :=
      mem_map_injOn f x xs (fun y hy e => h y (by simp [hy]) x (by simp) e)
    exact decide_eq_decide.mpr this

theorem dedupKeepFirst_map_injOn {α β : Type} [DecidableEq α] [DecidableEq β] (f : α → β) (xs : List α)
    (h : ∀ a ∈ xs, ∀ b ∈ xs, f a = f b → a = b) :
    dedupKeepFirst (xs.map f) = (dedupKeepFirst xs).map f := by
  induction xs with
  | nil => rfl
  | cons x xs ih =>
    have hx : ∀ a ∈ xs, ∀ b ∈ xs, f a = f b → a = b := fun a ha b hb => h a (by simp [ha]) b (by simp [hb])
    simp only [List.map_cons, dedupKeepFirst, ih hx, List.filter_map]
    congr 2
    apply List.filter_congr
    intro y hy
    have hy' : y ∈ xs := (mem_dedupKeepFirst xs y).mp hy
    simp only [Function.comp, ne_eq, decide_not]
    congr 1
    apply decide_eq_decide.mpr
    constructor
    · intro e; exact h y (by simp [hy']) x (by simp) e
    · intro e; rw [e]

end Pyndl

namespace Pyndl
open List

variable {R : Type} [CommRing R]

/-! ## policy applied event-wise; windows -/

theorem applyPolicyAll_length {ι κ : Type} [DecidableEq ι] [DecidableEq κ] (p : DupPolicy)
    (xs ys : List (Event ι κ)) (h : applyPolicyAll p xs = some ys) : ys.length = xs.length := by
  induction xs generalizing ys with
  | nil => simp [applyPolicyAll] at h; subst h; rfl
  | cons x xs ih =>
    simp only [applyPolicyAll] at h
    cases h1 : applyPolicy p x with
    | none => simp [h1] at h
    | some x' =>
      simp only [h1] at h
      cases h2 : applyPolicyAll p xs with
      | none => simp [h2] at h
      | some r =>
        simp only [h2, Option.some.injEq] at h; subst h
        simp [ih r h2]

theorem applyPolicyAll_drop {ι κ : Type} [DecidableEq ι] [DecidableEq κ] (p : DupPolicy)
    (xs ys : List (Event ι κ)) (h : applyPolicyAll p xs = some ys) (k : Nat) :
    applyPolicyAll p (xs.drop k) = some (ys.drop k) := by
  induction k generalizing xs ys with
  | zero => simpa using h
  | succ k ih =>
    cases xs with
    | nil => simp [applyPolicyAll] at h; subst h; simp [applyPolicyAll]
    | cons x xs =>
      simp only [applyPolicyAll] at h
      cases h1 : applyPolicy p x with
      | none => simp [h1] at h
      | some x' =>
        simp only [h1] at h
        cases h2 : applyPolicyAll p xs with
        | none => simp [h2] at h
        | some r =>
          simp only [h2, Option.some.injEq] at h; subst h
          simpa using ih xs r h2

theorem applyPolicyAll_take {ι κ : Type} [DecidableEq ι] [DecidableEq κ] (p : DupPolicy)
    (xs ys : List (Event ι κ)) (h : applyPolicyAll p xs = some ys) (k : Nat) :
    applyPolicyAll p (xs.take k) = some (ys.take k) := by
  induction k generalizing xs ys with
  | zero => simp [applyPolicyAll]
  | succ k ih =>
    cases xs with
    | nil => simp [applyPolicyAll] at h; subst h; simp [applyPolicyAll]
    | cons x xs =>
      simp only [applyPolicyAll] at h
      cases h1 : applyPolicy p x with
      | none => simp [h1] at h
      | some x' =>
        simp only [h1] at h
        cases h2 : applyPolicyAll p xs with
        | none => simp [h2] at h
        | some r =>
          simp only [h2, Option.some.injEq] at h; subst h
          simp [applyPolicyAll, h1, ih xs r h2]

theorem windowEvents_go_ok (p : DupPolicy) (win win' : List (Event Nat Nat)) (idx : Nat)
    (h : applyPolicyAll p win = some win') : windowEvents.go p idx win = .ok win' := by
  induction win generalizing win' idx with
  | nil => simp [applyPolicyAll] at h; subst h; rfl
  | cons e win ih =>
    simp only [applyPolicyAll] at h
    cases h1 : applyPolicy p e with
    | none => simp [h1] at h
    | some e' =>
      simp only [h1] at h
      cases h2 : applyPolicyAll p win with
      | none => simp [h2] at h
      | some r =>
        simp only [h2, Option.some.injEq] at h; subst h
        simp [windowEvents.go, h1, ih r (idx + 1) h2]

theorem windowEvents_ok (p : DupPolicy) (ids ids' : List (Event Nat Nat))
    (h : applyPolicyAll p ids = some ids') (per j : Nat) :
    windowEvents p ids (j * per) ((j + 1) * per) = .ok (chunkOf per ids' j) := by
  unfold windowEvents chunkOf
  have e : (j + 1) * per - j * per = per := by
    rw [Nat.add_mul, Nat.one_mul, Nat.add_sub_cancel_left]
  rw [e]
  exact windowEvents_go_ok p _ _ _ (applyPolicyAll_take p _ _ (applyPolicyAll_drop p ids ids' h (j * per)) per)

theorem chunk_nonempty {α : Type} (xs : List α) (per j : Nat) (hp : 1 ≤ per) (hj : j < nChunks xs.length per) :
    chunkOf per xs j ≠ [] := by
  have h1 : (j + 1) * per ≤ xs.length + per - 1 := by
    unfold nChunks at hj
    have := Nat.mul_le_of_le_div per (j + 1) (xs.length + per - 1) (by omega)
    simpa [Nat.mul_comm] using this
  have h2 : j * per < xs.length := by
    have : (j + 1) * per = j * per + per := by ring
    omega
  intro hnil
  have := congrArg List.length hnil
  rw [length_chunkOf] at this
  simp at this
  omega

/-- `write_events` for a non-empty window leaves exactly the encoded window -/
theorem writeEvents_chunk (magic version : Nat) (p : DupPolicy) (ids ids' : List (Event Nat Nat))
    (h : applyPolicyAll p ids = some ids') (per j : Nat) (hne : chunkOf per ids' j ≠ []) :
    ∃ r, writeEvents magic version p ids (j * per) ((j + 1) * per)
        = (some (encodeChunk magic version (chunkOf per ids' j)), r) ∧
      (r = .ok (chunkOf per ids' j).length ∨ r = .stopped (chunkOf per ids' j).length) := by
  unfold writeEvents
  rw [windowEvents_ok p ids ids' h per j]
  have hlen : (chunkOf per ids' j).length ≠ 0 := fun e => hne (List.length_eq_zero_iff.mp e)
  simp only [hlen, if_false]
  split
  · exact ⟨_, rfl, Or.inr rfl⟩
  · exact ⟨_, rfl, Or.inl rfl⟩

theorem makeChunks_go_ok (magic version : Nat) (p : DupPolicy) (ids ids' : List (Event Nat Nat))
    (h : applyPolicyAll p ids = some ids') (per : Nat) (fuel j : Nat) (files : List Bytes) (total : Nat)
    (hne : ∀ k, j ≤ k → k < j + fuel → chunkOf per ids' k ≠ []) :
    makeChunks.go magic version p ids per fuel j files total
      = .ok (files.reverse ++ (List.range' j fuel).map (fun k => encodeChunk magic version (chunkOf per ids' k)),
             total + ((List.range' j fuel).map (fun k => (chunkOf per ids' k).length)).sum) := by
  induction fuel generalizing j files total with
  | zero => simp [makeChunks.go]
  | succ fuel ih =>
    obtain ⟨r, hw, hr⟩ := writeEvents_chunk magic version p ids ids' h per j (hne j (Nat.le_refl _) (by omega))
    simp only [makeChunks.go, hw]
    rcases hr with rfl | rfl
    · simp only
      rw [ih (j + 1) _ _ (fun k h1 h2 => hne k (by omega) (by omega))]
      simp [List.range'_succ, Nat.add_assoc]
    · simp only
      rw [ih (j + 1) _ _ (fun k h1 h2 => hne k (by omega) (by omega))]
      simp [List.range'_succ, Nat.add_assoc]

theorem sum_chunk_lengths {α : Type} (xs : List α) (per : Nat) (hp : 1 ≤ per) :
    ((List.range (nChunks xs.length per)).map (fun k => (chunkOf per xs k).length)).sum = xs.length := by
  have h := chunks_flatten xs per hp _ (nChunks_covers xs.length per hp)
  have := congrArg List.length h
  rw [List.length_flatten, List.map_map] at this
  exact this

/-- **the conversion stage**: for events the policy accepts, the chunk files in
    numeric order are the encoded windows of the policy-processed events, and
    the reported count is the number of events -/
theorem makeChunks_ok (magic version : Nat) (p : DupPolicy) (ids ids' : List (Event Nat Nat))
    (h : applyPolicyAll p ids = some ids') (per : Nat) (hp : 1 ≤ per) :
    makeChunks magic version p ids per
      = .ok ((List.range (nChunks ids.length per)).map (fun k => encodeChunk magic version (chunkOf per ids' k)),
             ids.length) := by
  unfold makeChunks
  have hl := applyPolicyAll_length p ids ids' h
  rw [makeChunks_go_ok magic version p ids ids' h per _ 0 [] 0
    (fun k _ hk => chunk_nonempty ids' per k hp (by rw [hl]; omega))]
  simp only [List.reverse_nil, List.nil_append, Nat.zero_add, List.range_eq_range']
  congr 2
  have := sum_chunk_lengths ids' per hp
  rw [hl, List.range_eq_range'] at this
  exact this

/-- the policy rejects ⇒ the conversion raises `ValueError` -/
theorem makeChunks_go_error (magic version : Nat) (p : DupPolicy) (ids : List (Event Nat Nat)) (per fuel j : Nat)
    (files : List Bytes) (total : Nat)
    (hbad : ∃ k, j ≤ k ∧ k < j + fuel ∧ ∃ i, windowEvents p ids (k * per) ((k + 1) * per) = .error i) :
    makeChunks.go magic version p ids per fuel j files total = .error .value := by
  induction fuel generalizing j files total with
  | zero => obtain ⟨k, h1, h2, _⟩ := hbad; omega
  | succ fuel ih =>
    simp only [makeChunks.go]
    cases hw : windowEvents p ids (j * per) ((j + 1) * per) with
    | error i => simp [writeEvents, hw]
    | ok win =>
      have hrest : ∃ k, j + 1 ≤ k ∧ k < j + 1 + fuel ∧ ∃ i, windowEvents p ids (k * per) ((k + 1) * per) = .error i := by
        obtain ⟨k, h1, h2, i, hi⟩ := hbad
        by_cases hk : k = j
        · subst hk; rw [hw] at hi; cases hi
        · exact ⟨k, by omega, by omega, i, hi⟩
      simp only [writeEvents, hw]
      split
      · rfl
      · exact ih (j + 1) _ _ hrest
      · exact ih (j + 1) _ _ hrest
      · exact ih (j + 1) _ _ hrest

end Pyndl

namespace Pyndl
open List

variable {R : Type} [CommRing R]

/-! ## decoding what was encoded -/

theorem decodeAll_encode (magic version : Nat) (hm : magic < 4294967296) (hv : version < 4294967296)
    (chunks : List (List (Event Nat Nat)))
    (hw : ∀ c ∈ chunks, c.length < 4294967296 ∧ Wf32 c) :
    decodeAll magic version (chunks.map (encodeChunk magic version)) = .ok chunks := by
  induction chunks with
  | nil => rfl
  | cons c cs ih =>
    have hc := hw c (by simp)
    have hpy := decodeChunkPy_encodeChunk magic version hm hv c hc.1 hc.2
    rw [← decodeChunkKernel_eq_py] at hpy
    simp only [List.map_cons, decodeAll]
    cases hk : decodeChunkKernel magic version (encodeChunk magic version c) with
    | error e => rw [hk] at hpy; cases hpy
    | ok r =>
      rw [hk] at hpy
      simp only [Except.map, Except.ok.injEq] at hpy
      obtain ⟨es, hist⟩ := r
      simp only at hpy
      subst hpy
      simp only [ih (fun x hx => hw x (by simp [hx]))]

/-! ## policy-processed events keep their names and get no longer -/

theorem dedup_sub {α : Type} [DecidableEq α] (xs : List α) : (dedupKeepFirst xs).length ≤ xs.length := by
  induction xs with
  | nil => simp [dedupKeepFirst]
  | cons x xs ih =>
    simp only [dedupKeepFirst, List.length_cons]
    have := List.length_filter_le (fun y => decide (y ≠ x)) (dedupKeepFirst xs)
    omega

theorem applyPolicy_sub {ι κ : Type} [DecidableEq ι] [DecidableEq κ] (p : DupPolicy) (e e' : Event ι κ)
    (h : applyPolicy p e = some e') :
    (∀ c, c ∈ e'.cues ↔ c ∈ e.cues) ∧ (∀ o, o ∈ e'.outcomes ↔ o ∈ e.outcomes) ∧
    e'.cues.length ≤ e.cues.length ∧ e'.outcomes.length ≤ e.outcomes.length := by
  cases p with
  | error =>
    simp only [applyPolicy] at h
    split at h
    · cases h
    · cases h; exact ⟨fun _ => Iff.rfl, fun _ => Iff.rfl, Nat.le_refl _, Nat.le_refl _⟩
  | dedup =>
    simp only [applyPolicy, Option.some.injEq] at h
    subst h
    exact ⟨fun c => mem_dedupKeepFirst _ c, fun o => mem_dedupKeepFirst _ o, dedup_sub _, dedup_sub _⟩
  | keep =>
    simp only [applyPolicy, Option.some.injEq] at h
    subst h
    exact ⟨fun _ => Iff.rfl, fun _ => Iff.rfl, Nat.le_refl _, Nat.le_refl _⟩

theorem applyPolicyAll_mem {ι κ : Type} [DecidableEq ι] [DecidableEq κ] (p : DupPolicy)
    (xs ys : List (Event ι κ)) (h : applyPolicyAll p xs = some ys) :
    ∀ e' ∈ ys, ∃ e ∈ xs, applyPolicy p e = some e' := by
  induction xs generalizing ys with
  | nil => simp [applyPolicyAll] at h; subst h; simp
  | cons x xs ih =>
    simp only [applyPolicyAll] at h
    cases h1 : applyPolicy p x with
    | none => simp [h1] at h
    | some x' =>
      simp only [h1] at h
      cases h2 : applyPolicyAll p xs with
      | none => simp [h2] at h
      | some r =>
        simp only [h2, Option.some.injEq] at h; subst h
        intro e' he'
        simp only [List.mem_cons] at he'
        rcases he' with rfl | he'
        · exact ⟨x, by simp, h1⟩
        · obtain ⟨e, he, hp⟩ := ih r h2 e' he'
          exact ⟨e, by simp [he], hp⟩

/-- the duplicate policy on names and on ids (an injective renaming of the
    names that occur) give corresponding results -/
theorem applyPolicy_map {ι κ ι' κ' : Type} [DecidableEq ι] [DecidableEq κ] [DecidableEq ι'] [DecidableEq κ']
    (f : ι → ι') (g : κ → κ') (p : DupPolicy) (e : Event ι κ)
    (hf : ∀ a ∈ e.cues, ∀ b ∈ e.cues, f a = f b → a = b)
    (hg : ∀ a ∈ e.outcomes, ∀ b ∈ e.outcomes, g a = g b → a = b) :
    applyPolicy p (⟨e.cues.map f, e.outcomes.map g⟩ : Event ι' κ')
      = (applyPolicy p e).map (fun e' => ⟨e'.cues.map f, e'.outcomes.map g⟩) := by
  cases p with
  | error =>
    simp only [applyPolicy, hasDup_map_injOn f e.cues hf, hasDup_map_injOn g e.outcomes hg]
    split <;> rfl
  | dedup =>
    simp only [applyPolicy, dedupKeepFirst_map_injOn f e.cues hf, dedupKeepFirst_map_injOn g e.outcomes hg,
      Option.map_some]
  | keep => rfl

theorem applyPolicyAll_map {ι κ ι' κ' : Type} [DecidableEq ι] [DecidableEq κ] [DecidableEq ι'] [DecidableEq κ']
    (f : ι → ι') (g : κ → κ') (p : DupPolicy) (es es' : List (Event ι κ))
    (hf : ∀ e ∈ es, ∀ a ∈ e.cues, ∀ b ∈ e.cues, f a = f b → a = b)
    (hg : ∀ e ∈ es, ∀ a ∈ e.outcomes, ∀ b ∈ e.outcomes, g a = g b → a = b)
    (h : applyPolicyAll p es = some es') :
    applyPolicyAll p (es.map (fun e => (⟨e.cues.map f, e.outcomes.map g⟩ : Event ι' κ')))
      = some (es'.map (fun e => ⟨e.cues.map f, e.outcomes.map g⟩)) := by
  induction es generalizing es' with
  | nil => simp [applyPolicyAll] at h; subst h; rfl
  | cons e es ih =>
    simp only [applyPolicyAll] at h
    cases h1 : applyPolicy p e with
    | none => simp [h1] at h
    | some e' =>
      simp only [h1] at h
      cases h2 : applyPolicyAll p es with
      | none => simp [h2] at h
      | some r =>
        simp only [h2, Option.some.injEq] at h; subst h
        simp only [List.map_cons, applyPolicyAll, applyPolicy_map f g p e (hf e (by simp)) (hg e (by simp)), h1,
          Option.map_some, ih r (fun x hx => hf x (by simp [hx])) (fun x hx => hg x (by simp [hx])) h2]

end Pyndl

namespace Pyndl
open List

variable {R : Type} [CommRing R]

/-- size side conditions of the 32-bit chunk format and of the shape guard of
    `ndl.ndl` (it raises ValueError / OverflowError outside) -/
structure Fits32 (es : List (Event String String)) : Prop where
  nEvents : es.length < 4294967296
  nCues : (countNames es).1.length < 4294967296
  nOuts : (countNames es).2.length < 4294967296
  perEvent : ∀ e ∈ es, e.cues.length < 4294967296 ∧ e.outcomes.length < 4294967296

theorem rowFn_replicate_zero (n k o : Nat) : rowFn n (Array.replicate k (0 : R)) o = fun _ => 0 := by
  funext c
  unfold rowFn
  split
  · simp only [Array.getD_eq_getD_getElem?]
    by_cases h : flatIdx n o c < k
    · simp [h]
    · simp [h]
  · rfl

theorem toIds_eq (cues outs : List String) (e : Event String String) :
    toIds cues outs e = ⟨e.cues.map (cues.idxOf ·), e.outcomes.map (outs.idxOf ·)⟩ := rfl

theorem countNames_mem (es : List (Event String String)) (e : Event String String) (he : e ∈ es) :
    (∀ c ∈ e.cues, c ∈ (countNames es).1) ∧ (∀ o ∈ e.outcomes, o ∈ (countNames es).2) := by
  unfold countNames
  constructor
  · intro c hc
    exact (mem_dedupKeepFirst _ c).mpr (List.mem_flatMap.mpr ⟨e, he, hc⟩)
  · intro o ho
    exact (mem_dedupKeepFirst _ o).mpr (List.mem_flatMap.mpr ⟨e, he, ho⟩)

theorem idxOf_injOn (l : List String) (a b : String) (ha : a ∈ l) (hb : b ∈ l)
    (h : l.idxOf a = l.idxOf b) : a = b := (List.idxOf_inj ha).mp h

/-- **`ndl.ndl` = specification, end to end** (training from scratch): for every
    event list the duplicate policy accepts, every method, every
    `n_outcomes_per_job ≥ 1`, every `events_per_temporary_file ≥ 2`, the model
    of `ndl.ndl` — counting, id maps, duplicate policy on ids, binary chunk
    files (encode, numeric order, kernel reader), kernels per part, labelling —
    returns a labelled matrix whose value at EVERY (outcome name, cue name) is
    the Rescorla–Wagner specification on the policy-processed events, and
    reports the number of events. -/
theorem ndlModel_eq_spec (magic version : Nat) (hm : magic < 4294967296) (hv : version < 4294967296)
    (cfg : NdlCfg) (hper : 2 ≤ cfg.perFile) (hjob : 1 ≤ cfg.perJob) (alpha β₁ β₂ lam : R)
    (es es' : List (Event String String)) (hp : applyPolicyAll cfg.policy es = some es') (hfit : Fits32 es) :
    ∃ w, ndlModel magic version cfg alpha β₁ β₂ lam none es = .ok (w, es.length) ∧
      ∀ o c, w.get o c = rwLearn (fun _ => alpha) β₁ β₂ lam (fun _ _ => (0 : R)) es' o c := by
  -- names and ids
  rcases hcn : countNames es with ⟨cues, outs⟩
  have hmemc : ∀ e ∈ es, ∀ c ∈ e.cues, c ∈ cues := fun e he c hc => by
    have := (countNames_mem es e he).1 c hc; rw [hcn] at this; exact this
  have hmemo : ∀ e ∈ es, ∀ o ∈ e.outcomes, o ∈ outs := fun e he o ho => by
    have := (countNames_mem es e he).2 o ho; rw [hcn] at this; exact this
  have hnc : cues.length < 4294967296 := by have := hfit.nCues; rw [hcn] at this; exact this
  have hno : outs.length < 4294967296 := by have := hfit.nOuts; rw [hcn] at this; exact this
  have hndo : outs.Nodup := by
    have : outs = (countNames es).2 := by rw [hcn]
    rw [this]; exact nodup_dedupKeepFirst _
  set f : String → Nat := (cues.idxOf ·) with hf
  set g : String → Nat := (outs.idxOf ·) with hg
  have hmap : es.map (toIds cues outs) = es.map (fun e => (⟨e.cues.map f, e.outcomes.map g⟩ : Event Nat Nat)) := rfl
  -- policy on ids
  have hpid : applyPolicyAll cfg.policy (es.map (toIds cues outs))
      = some (es'.map (fun e => (⟨e.cues.map f, e.outcomes.map g⟩ : Event Nat Nat))) := by
    rw [hmap]
    apply applyPolicyAll_map f g cfg.policy es es' _ _ hp
    · intro e he a ha b hb hab
      exact idxOf_injOn cues a b (hmemc e he a ha) (hmemc e he b hb) hab
    · intro e he a ha b hb hab
      exact idxOf_injOn outs a b (hmemo e he a ha) (hmemo e he b hb) hab
  set ids' := es'.map (fun e => (⟨e.cues.map f, e.outcomes.map g⟩ : Event Nat Nat)) with hids'
  -- members of es' come from members of es
  have hes' : ∀ e' ∈ es', (∀ c ∈ e'.cues, c ∈ cues) ∧ (∀ o ∈ e'.outcomes, o ∈ outs) ∧
      e'.cues.length < 4294967296 ∧ e'.outcomes.length < 4294967296 := by
    intro e' he'
    obtain ⟨e, he, hpe⟩ := applyPolicyAll_mem cfg.policy es es' hp e' he'
    obtain ⟨s1, s2, s3, s4⟩ := applyPolicy_sub cfg.policy e e' hpe
    have hb := hfit.perEvent e he
    exact ⟨fun c hc => hmemc e he c ((s1 c).mp hc), fun o ho => hmemo e he o ((s2 o).mp ho),
      by omega, by omega⟩
  -- conversion + decoding
  have hper1 : 1 ≤ cfg.perFile := by omega
  have hlen : (es.map (toIds cues outs)).length = es.length := by simp
  have hmk := makeChunks_ok magic version cfg.policy (es.map (toIds cues outs)) ids' hpid cfg.perFile hper1
  rw [hlen] at hmk
  set chunks := (List.range (nChunks es.length cfg.perFile)).map (chunkOf cfg.perFile ids') with hchunks
  have hfiles : (List.range (nChunks es.length cfg.perFile)).map
      (fun k => encodeChunk magic version (chunkOf cfg.perFile ids' k)) = chunks.map (encodeChunk magic version) := by
    rw [hchunks, List.map_map]; rfl
  have hlen' : ids'.length = es.length := by
    rw [hids', List.length_map]; exact applyPolicyAll_length cfg.policy es es' hp
  have hflat : chunks.flatten = ids' := by
    rw [hchunks]
    exact chunks_flatten ids' cfg.perFile hper1 _ (by rw [hlen']; exact nChunks_covers es.length cfg.perFile hper1)
  have hidwf : ∀ e ∈ ids', EventWf e ∧ (∀ c ∈ e.cues, c < cues.length) := by
    intro e he
    rw [hids'] at he
    obtain ⟨e', he', rfl⟩ := List.mem_map.mp he
    obtain ⟨a1, a2, a3, a4⟩ := hes' e' he'
    refine ⟨⟨?_, ?_, by simpa using a3, by simpa using a4⟩, ?_⟩
    · intro i hi
      obtain ⟨c, hc, rfl⟩ := List.mem_map.mp hi
      have := List.idxOf_lt_length_iff.mpr (a1 c hc)
      show cues.idxOf c < 4294967296
      omega
    · intro i hi
      obtain ⟨o, ho, rfl⟩ := List.mem_map.mp hi
      have := List.idxOf_lt_length_iff.mpr (a2 o ho)
      show outs.idxOf o < 4294967296
      omega
    · intro i hi
      obtain ⟨c, hc, rfl⟩ := List.mem_map.mp hi
      exact List.idxOf_lt_length_iff.mpr (a1 c hc)
  have hchunkwf : ∀ c ∈ chunks, c.length < 4294967296 ∧ Wf32 c := by
    intro c hc
    have hsub : ∀ e ∈ c, e ∈ ids' := by
      intro e he
      rw [← hflat]; exact List.mem_flatten.mpr ⟨c, hc, he⟩
    constructor
    · rw [hchunks] at hc
      obtain ⟨k, _, rfl⟩ := List.mem_map.mp hc
      rw [length_chunkOf]
      have := hfit.nEvents
      have : min cfg.perFile (ids'.length - k * cfg.perFile) ≤ ids'.length := by omega
      omega
    · intro e he; exact (hidwf e (hsub e he)).1
  have hdec := decodeAll_encode magic version hm hv chunks hchunkwf
  -- learning
  set n := cues.length with hn
  set nOut := outs.length with hnOut
  have hw0 : (Array.replicate (nOut * n) (0 : R)).size = n * nOut := by simp [Nat.mul_comm]
  have hcuesok : ∀ e ∈ chunks.flatten, ∀ c ∈ e.cues, c < n := by
    intro e he; rw [hflat] at he; exact (hidwf e he).2
  have hrows : ∀ o ∈ List.range nOut, o < nOut := fun o ho => List.mem_range.mp ho
  -- unfold the model
  let vals' : Array R := match cfg.method with
    | .threading => learnThreadingSeq alpha β₁ β₂ lam n chunks (List.range nOut) cfg.perJob (Array.replicate (nOut * n) 0)
    | .openmp => learnOpenmpSeq alpha β₁ β₂ lam n chunks (List.range nOut) cfg.perJob (Array.replicate (nOut * n) 0)
  have hrow : ∀ i, i < nOut →
      rowFn n vals' i = rwLearn (fun _ => alpha) β₁ β₂ lam (fun _ _ => (0 : R)) ids' i := by
    intro i hi
    have hz : (fun o => rowFn n (Array.replicate (nOut * n) (0 : R)) o) = fun _ _ => (0 : R) := by
      funext o; exact rowFn_replicate_zero n _ o
    show rowFn n (match cfg.method with
      | .threading => learnThreadingSeq alpha β₁ β₂ lam n chunks (List.range nOut) cfg.perJob (Array.replicate (nOut * n) 0)
      | .openmp => learnOpenmpSeq alpha β₁ β₂ lam n chunks (List.range nOut) cfg.perJob (Array.replicate (nOut * n) 0)) i = _
    cases cfg.method with
    | threading =>
      simp only
      rw [learnThreadingSeq_eq_spec alpha β₁ β₂ lam n nOut chunks (List.range nOut) cfg.perJob hjob
        List.nodup_range hrows hcuesok _ hw0 i (List.mem_range.mpr hi), hflat, hz]
    | openmp =>
      simp only
      rw [learnOpenmpSeq_eq_spec alpha β₁ β₂ lam n nOut chunks (List.range nOut) cfg.perJob hjob
        List.nodup_range hrows hcuesok _ hw0 i (List.mem_range.mpr hi), hflat, hz]
  refine ⟨⟨outs, cues, vals'⟩, ?_, ?_⟩
  · unfold ndlModel
    simp only [hcn]
    have h1 : ¬ cfg.perFile < 2 := by omega
    have h2 : ¬ cfg.perJob < 1 := by omega
    simp only [h1, if_false, hmk, hfiles, hdec, h2]
    show Except.ok _ = Except.ok _
    congr 2
  · intro o c
    by_cases ho : o ∈ outs
    · by_cases hc : c ∈ cues
      · have hi : outs.idxOf o < nOut := List.idxOf_lt_length_iff.mpr ho
        have hj : cues.idxOf c < n := List.idxOf_lt_length_iff.mpr hc
        have hget : (LW.get ⟨outs, cues, vals'⟩ o c : R) = rowFn n vals' (outs.idxOf o) (cues.idxOf c) := by
          unfold LW.get rowFn flatIdx
          have hi' : outs.idxOf o < outs.length := hi
          have hj' : cues.idxOf c < cues.length := hj
          simp only [hj]
          rw [if_pos ⟨hi', hj'⟩, if_pos trivial, Nat.mul_comm]
        rw [hget, hrow _ hi, hids']
        exact rwLearn_rename_on f g (· ∈ cues) (· ∈ outs)
          (fun a b ha hb h => idxOf_injOn cues a b ha hb h)
          (fun a b ha hb h => idxOf_injOn outs a b ha hb h)
          alpha β₁ β₂ lam (fun _ _ => 0) (fun _ _ => 0) es'
          (fun e he => ⟨(hes' e he).1, (hes' e he).2.1⟩) (fun _ _ _ _ => rfl) o c ho hc
      · rw [LW.get_not_cue _ o c hc, rwLearn_unseen_cue]
        intro e he hce
        exact hc ((hes' e he).1 c hce)
    · rw [LW.get_not_outcome _ o c ho]
      have := rwLearn_unseen_outcome (fun _ => alpha) β₁ β₂ lam (fun _ _ => (0 : R)) es' o
        (fun e he hoe => ho ((hes' e he).2.1 o hoe)) rfl
      rw [this]

end Pyndl
