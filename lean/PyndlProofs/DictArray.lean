import PyndlProofs.NdlSpec

set_option linter.unusedSectionVars false
set_option linter.unusedSimpArgs false
set_option linter.unusedVariables false

namespace Pyndl
open List

variable {R : Type} [CommRing R]

/-! ## dict → DataArray (`ndl.data_array`, ndl.py:488-538) -/

theorem getD_flatMap_rows (outs cues : List String) (f : String → String → R) (i j : Nat)
    (hi : i < outs.length) (hj : j < cues.length) :
    (outs.flatMap (fun o => cues.map (fun c => f o c))).toArray.getD (i * cues.length + j) 0
      = f outs[i] cues[j] := by
  induction outs generalizing i with
  | nil => simp at hi
  | cons o outs ih =>
    simp only [List.flatMap_cons, Array.getD_eq_getD_getElem?, List.getElem?_toArray]
    cases i with
    | zero =>
      simp only [Nat.zero_mul, Nat.zero_add, List.getElem_cons_zero]
      rw [List.getElem?_append_left (by simpa using hj)]
      simp [hj]
    | succ i =>
      have hi' : i < outs.length := by simpa using hi
      have hlen : (cues.map (fun c => f o c)).length ≤ (i + 1) * cues.length + j := by
        simp only [List.length_map]
        have : (i + 1) * cues.length = i * cues.length + cues.length := by ring
        omega
      rw [List.getElem?_append_right hlen]
      have : (i + 1) * cues.length + j - (cues.map (fun c => f o c)).length = i * cues.length + j := by
        simp only [List.length_map]
        have : (i + 1) * cues.length = i * cues.length + cues.length := by ring
        omega
      rw [this]
      have := ih i hi'
      simp only [Array.getD_eq_getD_getElem?, List.getElem?_toArray] at this
      rw [this]
      simp

theorem alGet_not_key (row : List (String × R)) (c : String) (h : c ∉ row.map (·.1)) : alGet row c = 0 := by
  induction row with
  | nil => rfl
  | cons kv row ih =>
    obtain ⟨k, v⟩ := kv
    simp only [List.map_cons, List.mem_cons, not_or] at h
    have : ¬ k = c := fun e => h.1 e.symm
    simp [alGet, this, ih h.2]

theorem wdRow_mem (W : WDict String String R) (o : String) (c : String)
    (h : c ∈ (wdRow W o).map (·.1)) : c ∈ W.flatMap (fun r => r.2.map (·.1)) := by
  induction W with
  | nil => simp [wdRow] at h
  | cons kr W ih =>
    obtain ⟨k, r⟩ := kr
    simp only [wdRow] at h
    simp only [List.flatMap_cons, List.mem_append]
    by_cases hk : k = o
    · simp only [hk, if_true] at h; exact Or.inl h
    · simp only [hk, if_false] at h; exact Or.inr (ih h)

/-- **the DataArray built from a weight dict denotes the same weights** (zeros
    filled in; rows = dict keys, columns = union of the row keys, in any order —
    here first occurrence) -/
theorem lwFromDict_get (W : WDict String String R) (o c : String) :
    (lwFromDict W).get o c = wdAbs W o c := by
  unfold lwFromDict LW.get
  simp only
  set outs := dedupKeepFirst (W.map (·.1)) with houts
  set cues := dedupKeepFirst (W.flatMap (fun r => r.2.map (·.1))) with hcues
  by_cases ho : o ∈ outs
  · by_cases hc : c ∈ cues
    · have hi : outs.idxOf o < outs.length := List.idxOf_lt_length_iff.mpr ho
      have hj : cues.idxOf c < cues.length := List.idxOf_lt_length_iff.mpr hc
      rw [if_pos ⟨hi, hj⟩, getD_flatMap_rows outs cues (fun o c => wdAbs W o c) _ _ hi hj]
      simp [List.getElem_idxOf]
    · have hj : ¬ (cues.idxOf c < cues.length) := by rw [List.idxOf_lt_length_iff]; exact hc
      have : ¬ (outs.idxOf o < outs.length ∧ cues.idxOf c < cues.length) := fun h => hj h.2
      rw [if_neg this]
      unfold wdAbs
      symm
      apply alGet_not_key
      intro hm
      exact hc ((mem_dedupKeepFirst _ c).mpr (wdRow_mem W o c hm))
  · have hi : ¬ (outs.idxOf o < outs.length) := by rw [List.idxOf_lt_length_iff]; exact ho
    have : ¬ (outs.idxOf o < outs.length ∧ cues.idxOf c < cues.length) := fun h => hi h.1
    rw [if_neg this]
    unfold wdAbs
    have hk : o ∉ W.map (·.1) := fun h => ho ((mem_dedupKeepFirst _ o).mpr h)
    rw [wdRow_not_key W o hk]
    rfl

end Pyndl
