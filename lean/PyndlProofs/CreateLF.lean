/-
  Helper lemmas for C09, second invariant (model: PyndlModel/Create.lean):
  a character `d` that is neither the blank nor `#` and that occurs neither in
  the (stripped) raw lines nor in the lower-casing table does not occur in any
  written token.  Instantiated with `d = '\n'` (and `'\r'`) in PyndlProps/C09.lean.

  The structure is parallel to the cleanliness proof in PyndlProofs/Create.lean
  (`CleanWord`, `CleanEv`): the same streaming invariants `runLine_inv`,
  `runDocument_inv` are used with `Q := FreeWord d`, `P := FreeEv d`.  Every
  cleaning step either deletes characters (`strip`, `split(" ")`, marker
  removal), replaces characters by the blank (special characters, symbol
  filter), substitutes table entries (`lower`) or inserts `#` (n-gram phrase).
  Core Lean only.
-/
import PyndlProofs.Create

namespace Pyndl.Create
open List

/-! ### where the characters of each cleaning step come from -/

/-- `str.lower()` via the table: a character of the result is a character of
    the argument or a character of some table entry. -/
theorem mem_lowerStr {t : Tables} {s : List Char} {c : Char} (h : c ∈ lowerStr t s) :
    c ∈ s ∨ ∃ p ∈ t.lower, c ∈ p.2 := by
  simp only [lowerStr, List.mem_flatMap] at h
  obtain ⟨a, ha, hc⟩ := h
  split at hc
  · rename_i p hp
    exact Or.inr ⟨p, List.mem_of_find?_eq_some hp, hc⟩
  · simp only [List.mem_singleton] at hc
    subst hc
    exact Or.inl ha

/-- `special_chars.sub(' ', line)` only introduces blanks. -/
theorem mem_removeSpecial_src {s : List Char} {c : Char} (h : c ∈ removeSpecial s) :
    c = ' ' ∨ c ∈ s := by
  simp only [removeSpecial, List.mem_map] at h
  obtain ⟨d, hd, rfl⟩ := h
  split
  · exact Or.inl rfl
  · exact Or.inr hd

/-- `process_line`: a character of the result is the blank, a character of the
    line, or (only with `lower_case=True`) a character of the lowered line. -/
theorem mem_processLineG_src {ops : TextOps} {lc : Bool} {a : Allowed} {line : List Char} {c : Char}
    (h : c ∈ processLineG ops lc a line) :
    c = ' ' ∨ (lc = false ∧ c ∈ line) ∨ (lc = true ∧ c ∈ ops.lower line) := by
  simp only [processLineG] at h
  rcases mem_filterSymbols h with h | h
  · exact Or.inl h
  · rcases mem_removeSpecial_src h with h | h
    · exact Or.inl h
    · cases lc with
      | false => exact Or.inr (Or.inl ⟨rfl, by simpa [lowered] using h⟩)
      | true => exact Or.inr (Or.inr ⟨rfl, by simpa [lowered] using h⟩)

/-- `process_line` with the tables: a character of the result is the blank, a
    character of the line, or (only with `lower_case=True`) a character of a
    table entry. -/
theorem mem_processLine_src {t : Tables} {lc : Bool} {a : Allowed} {line : List Char} {c : Char}
    (h : c ∈ processLine t lc a line) :
    c = ' ' ∨ c ∈ line ∨ (lc = true ∧ ∃ p ∈ t.lower, c ∈ p.2) := by
  rcases mem_processLineG_src (ops := t.ops) h with h | ⟨_, h⟩ | ⟨hl, h⟩
  · exact Or.inl h
  · exact Or.inr (Or.inl h)
  · rcases mem_lowerStr h with h | h
    · exact Or.inr (Or.inl h)
    · exact Or.inr (Or.inr ⟨hl, h⟩)

/-- `context_pattern.split`: the pieces (text pieces and marker pieces) consist
    of characters of the input (`cur` is the text piece being accumulated). -/
theorem mem_splitAux : ∀ (fuel : Nat) (cs cur : List Char) (piece : List Char),
    piece ∈ splitAux fuel cs cur → ∀ c ∈ piece, c ∈ cs ∨ c ∈ cur
  | 0, _, cur, piece, h => by
    simp only [splitAux, List.mem_singleton] at h
    subst h
    intro c hc
    exact Or.inr (List.mem_reverse.mp hc)
  | _ + 1, [], cur, piece, h => by
    simp only [splitAux, List.mem_singleton] at h
    subst h
    intro c hc
    exact Or.inr (List.mem_reverse.mp hc)
  | fuel + 1, x :: rest, cur, piece, h => by
    simp only [splitAux] at h
    split at h
    · intro c hc
      rcases List.mem_cons.mp h with rfl | h
      · exact Or.inr (List.mem_reverse.mp hc)
      · rcases List.mem_cons.mp h with rfl | h
        · exact Or.inl (List.mem_of_mem_take hc)
        · rcases mem_splitAux fuel _ [] piece h c hc with h' | h'
          · exact Or.inl (List.mem_of_mem_drop h')
          · simp at h'
    · intro c hc
      rcases mem_splitAux fuel rest (x :: cur) piece h c hc with h' | h'
      · exact Or.inl (List.mem_cons_of_mem _ h')
      · rcases List.mem_cons.mp h' with rfl | h'
        · exact Or.inl List.mem_cons_self
        · exact Or.inr h'

theorem mem_contextSplit {s piece : List Char} (h : piece ∈ contextSplit s) :
    ∀ c ∈ piece, c ∈ s := by
  intro c hc
  rcases mem_splitAux _ _ _ piece h c hc with h' | h'
  · exact h'
  · simp at h'

theorem mem_evens {α : Type} : ∀ {l : List α} {a : α}, a ∈ evens l → a ∈ l
  | [], _, h => by simp [evens] at h
  | [_], _, h => by simpa [evens] using h
  | x :: _ :: rest, a, h => by
    simp only [evens, List.mem_cons] at h
    rcases h with rfl | h
    · exact List.mem_cons_self
    · exact List.mem_cons_of_mem _ (List.mem_cons_of_mem _ (mem_evens h))

/-- `context_pattern.sub("", s)` only deletes. -/
theorem mem_removeMarkers {s : List Char} {c : Char} (h : c ∈ removeMarkers s) : c ∈ s := by
  simp only [removeMarkers, List.mem_flatten] at h
  obtain ⟨piece, hp, hc⟩ := h
  exact mem_contextSplit (mem_evens hp) c hc

/-! ### the invariant -/

/-- the word does not contain the character `d` -/
def FreeWord (d : Char) (w : Word) : Prop := d ∉ w

/-- no written token of the event contains the character `d` -/
def FreeEv (d : Char) (ev : Ev Word) : Prop :=
  (∀ tok ∈ ev.cues, d ∉ tok) ∧ (∀ tok ∈ ev.outcomes, d ∉ tok)

/-- the hypothesis on the lower-casing FUNCTION: lowering never introduces `d`.
    (True of `str.lower` for `d = '\n'`, `'\r'`: a Python-level fact, listed in
    DESIGN §7.)  Only needed with `lower_case=True`. -/
def LowerKeeps (d : Char) (ops : TextOps) : Prop := ∀ s, d ∉ s → d ∉ ops.lower s

/-- the hypothesis on the lower-casing table: no entry maps a character to a
    string containing `d`.  Only needed with `lower_case=True`. -/
def LowerFree (d : Char) (t : Tables) : Prop := ∀ p ∈ t.lower, d ∉ p.2

instance (d : Char) (t : Tables) : Decidable (LowerFree d t) :=
  inferInstanceAs (Decidable (∀ p ∈ t.lower, d ∉ p.2))

/-- the decidable table hypothesis implies the hypothesis on the function -/
theorem LowerFree.keeps {d : Char} {t : Tables} (h : LowerFree d t) : LowerKeeps d t.ops := by
  intro s hs hd
  rcases mem_lowerStr (t := t) hd with h' | ⟨p, hp, hdp⟩
  · exact hs h'
  · exact h p hp hdp

theorem genWords_processLineG_free {d : Char} (hsp : d ≠ ' ') {ops : TextOps} {lc : Bool} {a : Allowed}
    (hlow : lc = true → LowerKeeps d ops) {line : List Char} (hline : d ∉ line) :
    ∀ w ∈ genWordsG ops.isWs (processLineG ops lc a line), FreeWord d w := by
  intro w hw hd
  have h1 := ((mem_genWordsG hw).2 d hd).2
  rcases mem_processLineG_src h1 with h | ⟨_, h⟩ | ⟨hl, h⟩
  · exact hsp h
  · exact hline h
  · exact hlow hl line hline h

theorem lineWordsG_free {d : Char} (hsp : d ≠ ' ') {ops : TextOps} {lc : Bool} {a : Allowed}
    (hlow : lc = true → LowerKeeps d ops) {raw : List Char} (hraw : d ∉ strip ops.isWs raw) :
    ∀ w ∈ lineWordsG ops lc a raw, FreeWord d w :=
  genWords_processLineG_free hsp hlow hraw

theorem elemWordsG_free {d : Char} (hsp : d ≠ ' ') {ops : TextOps} {lc : Bool} {a : Allowed}
    (hlow : lc = true → LowerKeeps d ops) {piece : List Char} (hpiece : d ∉ piece) {ws : List Word}
    (h : elemWordsG ops lc a piece = some ws) : ∀ w ∈ ws, FreeWord d w := by
  simp only [elemWordsG] at h
  split at h
  · simp at h
  · simp only [Option.some.injEq] at h
    subst h
    exact genWords_processLineG_free hsp hlow (fun hd => hpiece (mem_removeMarkers (mem_strip hd)))

theorem docLineElemsG_free {d : Char} (hsp : d ≠ ' ') {ops : TextOps} {lc : Bool} {a : Allowed}
    (hlow : lc = true → LowerKeeps d ops) {raw : List Char} (hraw : d ∉ strip ops.isWs raw) :
    ElemsOk (FreeWord d) (docLineElemsG ops lc a raw) := by
  intro e he ws hws
  simp only [docLineElemsG] at he
  split at he
  · simp only [List.mem_singleton] at he
    subst he
    simp only [Option.some.injEq] at hws
    subst hws
    exact genWords_processLineG_free hsp hlow hraw
  · simp only [List.mem_map] at he
    obtain ⟨p, hp, rfl⟩ := he
    exact elemWordsG_free hsp hlow (fun hd => hraw (mem_contextSplit hp d hd)) hws

/-! ### `d`-free words give `d`-free events -/

/-- n-gram cues: pieces of `#w1#…#wk#`; any `n` (also `n = 0`: the empty
    token contains nothing). -/
theorem ngram_free {d : Char} (hh : d ≠ '#') {n : Nat} {toks : List Word}
    (ht : ∀ tok ∈ toks, FreeWord d tok) {g : List Char} (hg : g ∈ ngrams n (phraseString toks)) :
    d ∉ g := by
  rw [ngrams_eq] at hg
  simp only [List.mem_map, List.mem_range] at hg
  obtain ⟨i, _, rfl⟩ := hg
  intro hd
  have hd' : d ∈ phraseString toks := List.mem_of_mem_drop (List.mem_of_mem_take hd)
  rcases mem_phraseString hd' with h | ⟨tok, htok, hdt⟩
  · exact hh h
  · exact ht tok htok hdt

theorem processWords_free {d : Char} (hh : d ≠ '#') (o : Options) (words : List Word)
    (hw : ∀ w ∈ words, FreeWord d w) : ∀ ev ∈ processWords o words, FreeEv d ev := by
  intro ev hev
  simp only [processWords, processOccurrences] at hev
  have hocc := genOccurrences_mem o.event o.cue words
  cases hcue : o.cue with
  | ngrams n =>
    rw [hcue] at hev hocc
    simp only [List.mem_filterMap] at hev
    obtain ⟨occ, hmem, hsome⟩ := hev
    have htoks : ∀ tok ∈ occ.1 ++ occ.2, FreeWord d tok := fun tok ht => hw tok (hocc occ hmem tok ht)
    simp only [ngramsToWord1] at hsome
    split at hsome
    · simp at hsome
    · split at hsome
      · simp only [Option.some.injEq] at hsome
        subst hsome
        refine ⟨fun tok ht => ?_, fun tok ht => ?_⟩
        · exact ngram_free hh htoks (List.mem_eraseDups.mp ht)
        · exact htoks tok (List.mem_eraseDups.mp ht)
      · simp only [Option.some.injEq] at hsome
        subst hsome
        exact ⟨fun tok ht => ngram_free hh htoks ht, fun tok ht => htoks tok ht⟩
  | wordToWord =>
    rw [hcue] at hev hocc
    simp only [List.mem_filterMap] at hev
    obtain ⟨occ, hmem, hsome⟩ := hev
    have htoks : ∀ tok ∈ occ.1 ++ occ.2, FreeWord d tok := fun tok ht => hw tok (hocc occ hmem tok ht)
    simp only [wordCues1] at hsome
    split at hsome
    · simp at hsome
    · split at hsome
      · simp only [Option.some.injEq] at hsome
        subst hsome
        refine ⟨fun tok ht => ?_, fun tok ht => ?_⟩
        · exact htoks tok (List.mem_append_left _ (List.mem_eraseDups.mp ht))
        · exact htoks tok (List.mem_append_right _ (List.mem_eraseDups.mp ht))
      · simp only [Option.some.injEq] at hsome
        subst hsome
        exact ⟨fun tok ht => htoks tok (List.mem_append_left _ ht),
               fun tok ht => htoks tok (List.mem_append_right _ ht)⟩

/-- **the invariant for the whole run**, for arbitrary `TextOps`.  `d` is
    neither the blank (which the special-character replacement and the symbol
    filter introduce) nor `#` (which the n-gram phrase introduces); `d` does not
    occur in any raw line after `line.strip()`; with `lower_case=True`, lowering
    never introduces `d`.  Then `d` occurs in no written token.  No hypothesis
    on the whitespace set and none on the n-gram size. -/
theorem createEventsG_free {d : Char} (hsp : d ≠ ' ') (hh : d ≠ '#') (ops : TextOps) (o : Options)
    (hlow : o.lowerCase = true → LowerKeeps d ops)
    (rawLines : List (List Char)) (hraw : ∀ raw ∈ rawLines, d ∉ strip ops.isWs raw) :
    ∀ ev ∈ createEventsG ops o rawLines, FreeEv d ev := by
  intro ev hev
  simp only [createEventsG] at hev
  split at hev
  · refine runLine_inv (processWords o) (FreeWord d) (FreeEv d) (processWords_free hh o) _ ?_ ev hev
    intro l hl
    simp only [List.mem_map] at hl
    obtain ⟨raw, hr, rfl⟩ := hl
    exact lineWordsG_free hsp hlow (hraw raw hr)
  · refine runDocument_inv (processWords o) (FreeWord d) (FreeEv d) (processWords_free hh o) _ ?_ ev hev
    intro l hl
    simp only [List.mem_map] at hl
    obtain ⟨raw, hr, rfl⟩ := hl
    exact docLineElemsG_free hsp hlow (hraw raw hr)

theorem createEventsG_free_raw {d : Char} (hsp : d ≠ ' ') (hh : d ≠ '#') (ops : TextOps) (o : Options)
    (hlow : o.lowerCase = true → LowerKeeps d ops)
    (rawLines : List (List Char)) (hraw : ∀ raw ∈ rawLines, d ∉ raw) :
    ∀ ev ∈ createEventsG ops o rawLines, FreeEv d ev :=
  createEventsG_free hsp hh ops o hlow rawLines (fun raw hr hd => hraw raw hr (mem_strip hd))

/-- the tables instance (hypothesis on the table: decidable). -/
theorem createEvents_free {d : Char} (hsp : d ≠ ' ') (hh : d ≠ '#') (t : Tables) (o : Options)
    (hlow : o.lowerCase = true → LowerFree d t)
    (rawLines : List (List Char)) (hraw : ∀ raw ∈ rawLines, d ∉ strip t.isWs raw) :
    ∀ ev ∈ createEvents t o rawLines, FreeEv d ev := by
  rw [createEvents_eq_G]
  exact createEventsG_free hsp hh t.ops o (fun h => (hlow h).keeps) rawLines hraw

/-- the same with the hypothesis on the raw lines themselves (`strip` only
    deletes). -/
theorem createEvents_free_raw {d : Char} (hsp : d ≠ ' ') (hh : d ≠ '#') (t : Tables) (o : Options)
    (hlow : o.lowerCase = true → LowerFree d t)
    (rawLines : List (List Char)) (hraw : ∀ raw ∈ rawLines, d ∉ raw) :
    ∀ ev ∈ createEvents t o rawLines, FreeEv d ev :=
  createEvents_free hsp hh t o hlow rawLines (fun raw hr hd => hraw raw hr (mem_strip hd))

end Pyndl.Create
