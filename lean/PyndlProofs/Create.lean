/-
  Helper lemmas for C09 (model: PyndlModel/Create.lean).  Core Lean only.

  Includes the comparison of the two code paths of `filter_symbols`
  (`filterRegex`: `re.sub` with the negated set; `filterCallable`: the index loop
  over a copy): `subChar_eq_map`, `filterCallable_loop`, `filterSymbols_eq_map`,
  `filterRegex_eq_filterCallable`.
-/
import PyndlModel.Create

namespace Pyndl.Create
open List

section Token
variable {ω : Type}

/-! ### slices -/

theorem pySlice_nat (l : List ω) (s e : Nat) :
    pySlice l (s : Int) (e : Int) = (l.drop s).take (e - s) := by
  simp [pySlice]

theorem mem_pySlice {l : List ω} {s e : Int} {x : ω} (h : x ∈ pySlice l s e) : x ∈ l :=
  List.mem_of_mem_drop (List.mem_of_mem_take h)

theorem take_drop_infix (l : List ω) (s k : Nat) : (l.drop s).take k <:+: l :=
  ⟨l.take s, (l.drop s).drop k, by
    rw [List.append_assoc, List.take_append_drop, List.take_append_drop]⟩

theorem pySlice_infix (l : List ω) (s e : Int) : pySlice l s e <:+: l :=
  take_drop_infix l _ _

/-! ### consecutive_words -/

/-- the window with index `k` (0-based position in the output) for window
    length `L`: `words[max(k+1-L, 0) : min(k+1, |words|)]` -/
def window (L : Nat) (words : List ω) (k : Nat) : List ω :=
  (words.drop (k + 1 - L)).take (min (k + 1) words.length - (k + 1 - L))

theorem genConsecutive_eq (n : Nat) (words : List ω) :
    genConsecutive (n : Int) words =
      (List.range (words.length + min n words.length - 1)).map
        (fun k => (window (min n words.length) words k, [])) := by
  simp only [genConsecutive, intRange, List.map_map]
  have hc : ((words.length : Int) - (1 - min (n : Int) (words.length : Int))).toNat
      = words.length + min n words.length - 1 := by omega
  rw [hc]
  apply List.map_congr_left
  intro k hk
  have hk' : k < words.length + min n words.length - 1 := List.mem_range.mp hk
  simp only [Function.comp, pySlice, window]
  have h1 : (max (1 - min (n : Int) (words.length : Int) + (k : Int)) 0).toNat
      = k + 1 - min n words.length := by omega
  have h2 : (min (1 - min (n : Int) (words.length : Int) + (k : Int) + min (n : Int) (words.length : Int))
      (words.length : Int)).toNat = min (k + 1) words.length := by omega
  rw [h1, h2]

theorem window_length (L : Nat) (words : List ω) (k : Nat) (hL : L ≤ words.length)
    (hk : k < words.length + L - 1) (hL1 : 1 ≤ L) :
    (window L words k).length = min (k + 1) words.length - (k + 1 - L) ∧
    1 ≤ (window L words k).length ∧ (window L words k).length ≤ L := by
  simp only [window, List.length_take, List.length_drop]
  omega

/-- a non-positive `number_of_words` produces only empty cue strings (which
    `process_occurrences` skips). -/
theorem genConsecutive_nonpos (n : Int) (hn : n ≤ 0) (words : List ω) :
    ∀ occ ∈ genConsecutive n words, occ = ([], []) := by
  intro occ h
  simp only [genConsecutive, intRange, List.mem_map, List.mem_range] at h
  obtain ⟨ii, ⟨k, hk, rfl⟩, rfl⟩ := h
  simp only [pySlice]
  have : (min (1 - min n (words.length : Int) + (k : Int) + min n (words.length : Int)) (words.length : Int)).toNat
      - (max (1 - min n (words.length : Int) + (k : Int)) 0).toNat = 0 := by omega
  rw [this]; simp

theorem genConsecutive_mem_infix (n : Int) (words : List ω) :
    ∀ occ ∈ genConsecutive n words, occ.1 <:+: words ∧ occ.2 = [] := by
  intro occ h
  simp only [genConsecutive, List.mem_map] at h
  obtain ⟨ii, _, rfl⟩ := h
  exact ⟨pySlice_infix _ _ _, rfl⟩

/-! ### word_to_word -/

theorem enumFrom_getElem? (k : Nat) (ws : List ω) (i : Nat) :
    (enumFrom k ws)[i]? = ws[i]?.map (fun w => (k + i, w)) := by
  induction ws generalizing k i with
  | nil => simp [enumFrom]
  | cons w ws ih =>
    cases i with
    | zero => simp [enumFrom]
    | succ i =>
      simp only [enumFrom, List.getElem?_cons_succ, ih]
      cases ws[i]? with
      | none => rfl
      | some v => simp only [Option.map_some]; congr 2; omega

theorem enumFrom_length (k : Nat) (ws : List ω) : (enumFrom k ws).length = ws.length := by
  induction ws generalizing k with
  | nil => rfl
  | cons w ws ih => simp [enumFrom, ih]

theorem mem_enumFrom {k : Nat} {ws : List ω} {p : Nat × ω} (h : p ∈ enumFrom k ws) : p.2 ∈ ws := by
  induction ws generalizing k with
  | nil => simp [enumFrom] at h
  | cons w ws ih =>
    simp only [enumFrom, List.mem_cons] at h
    rcases h with rfl | h
    · simp
    · exact List.mem_cons_of_mem _ (ih h)

/-- the declarative form of one `word_to_word` occurrence: the last `before`
    words of the prefix, the first `after` words of the suffix. -/
theorem w2wAt_eq (before after : Nat) (words : List ω) (i : Nat) (w : ω) (hi : i < words.length) :
    w2wAt before after words i w =
      ((words.take i).drop (i - before) ++ (words.drop (i + 1)).take after, [w]) := by
  simp only [w2wAt]
  have h1 : max (0 : Int) ((i : Int) - (before : Int)) = ((i - before : Nat) : Int) := by omega
  have h2 : (i : Int) + 1 = ((i + 1 : Nat) : Int) := by omega
  have h3 : min (words.length : Int) (((i + 1 : Nat) : Int) + (after : Int))
      = ((min words.length (i + 1 + after) : Nat) : Int) := by omega
  rw [h1, h2, h3, pySlice_nat, pySlice_nat, List.drop_take]
  congr 2
  rw [List.take_eq_take_iff, List.length_drop]
  omega

theorem genWordToWord_length (before after : Nat) (words : List ω) :
    (genWordToWord before after words).length = words.length := by
  simp [genWordToWord, enumFrom_length]

theorem genWordToWord_getElem? (before after : Nat) (words : List ω) (i : Nat) (hi : i < words.length) :
    (genWordToWord before after words)[i]? =
      some ((words.take i).drop (i - before) ++ (words.drop (i + 1)).take after, [words[i]]) := by
  simp only [genWordToWord, List.getElem?_map, enumFrom_getElem?, List.getElem?_eq_getElem hi,
    Option.map_some, Nat.zero_add]
  rw [w2wAt_eq _ _ _ _ _ hi]

/-! ### every occurrence only uses words of its own context -/

theorem genOccurrences_mem (es : EventStructure) (cs : CueStructure) (words : List ω) :
    ∀ occ ∈ genOccurrences es cs words, ∀ w, w ∈ occ.1 ++ occ.2 → w ∈ words := by
  intro occ hocc w hw
  cases es with
  | consecutiveWords n =>
    simp only [genOccurrences, genConsecutive, List.mem_map] at hocc
    obtain ⟨ii, _, rfl⟩ := hocc
    simp only [List.append_nil] at hw
    exact mem_pySlice hw
  | wordToWord b a =>
    simp only [genOccurrences, genWordToWord, List.mem_map] at hocc
    obtain ⟨p, hp, rfl⟩ := hocc
    simp only [w2wAt, List.mem_append, List.mem_singleton] at hw
    rcases hw with (hw | hw) | rfl
    · exact mem_pySlice hw
    · exact mem_pySlice hw
    · exact mem_enumFrom hp
  | line =>
    cases cs with
    | ngrams n =>
      simp only [genOccurrences, List.mem_singleton] at hocc
      subst hocc; simpa using hw
    | wordToWord =>
      simp only [genOccurrences, List.mem_singleton] at hocc
      subst hocc; simpa using hw

end Token

/-! ### n-grams -/

theorem ngrams_eq (n : Nat) (p : List Char) :
    ngrams n p = (List.range (p.length + 1 - n)).map (fun i => (p.drop i).take n) := by
  simp only [ngrams, intRange, List.map_map]
  have : ((p.length : Int) - (n : Int) + 1 - 0).toNat = p.length + 1 - n := by omega
  rw [this]
  apply List.map_congr_left
  intro k _
  simp

theorem mem_ngrams_iff (n : Nat) (p g : List Char) (hn : n ≤ p.length) :
    g ∈ ngrams n p ↔ g.length = n ∧ g <:+: p := by
  rw [ngrams_eq]
  simp only [List.mem_map, List.mem_range]
  constructor
  · rintro ⟨i, hi, rfl⟩
    refine ⟨?_, take_drop_infix p i n⟩
    simp only [List.length_take, List.length_drop]; omega
  · rintro ⟨hl, s, t, rfl⟩
    refine ⟨s.length, ?_, ?_⟩
    · simp only [List.length_append] at hn ⊢; omega
    · rw [List.append_assoc, List.drop_left, ← hl, List.take_left]

theorem ngrams_length (n : Nat) (p : List Char) : (ngrams n p).length = p.length + 1 - n := by
  simp [ngrams_eq]

/-! ### the streaming machine -/

section Stream
variable {ω : Type}

/-- the shape of `context1, *contexts = context_pattern.split(line)`:
    `[t0, m1, t1, …, mk, tk]` with every marker element reduced to `none`. -/
def wellShaped : List (Option (List ω)) → Bool
  | [_] => true
  | _ :: none :: rest => wellShaped rest
  | _ => false

/-- `[t1, …, tk] ↦ [none, t1, …, none, tk]` -/
def withMarkers : List (Option (List ω)) → List (Option (List ω))
  | [] => []
  | t :: ts => none :: t :: withMarkers ts

theorem wellShaped_exists : ∀ (l : List (Option (List ω))), wellShaped l = true →
    ∃ e0 ts, l = e0 :: withMarkers ts
  | [], h => by simp [wellShaped] at h
  | [e], _ => ⟨e, [], rfl⟩
  | e :: none :: rest, h => by
    have h' : wellShaped rest = true := by simpa [wellShaped] using h
    obtain ⟨e0, ts, rfl⟩ := wellShaped_exists rest h'
    exact ⟨e, e0 :: ts, rfl⟩
  | _ :: some _ :: _, h => by simp [wellShaped] at h

theorem evens_withMarkers (e0 : Option (List ω)) (ts : List (Option (List ω))) :
    evens (e0 :: withMarkers ts) = e0 :: ts := by
  induction ts generalizing e0 with
  | nil => rfl
  | cons t ts ih => simp only [withMarkers, evens, ih]

variable (pw : List ω → List (Ev ω))

theorem betweenLoop_shape (hnil : pw [] = []) (ts : List (Option (List ω))) :
    ∀ (t : Option (List ω)) (w : List ω) (out : List (Ev ω)),
    ∃ closed w' last, betweenLoop pw (none :: t :: withMarkers ts) w out
        = (w', out ++ closed.flatMap pw, some last) ∧
      ∀ rest, groupContexts (lineItems (t :: ts) ++ rest) [] =
        closed ++ groupContexts rest (w' ++ last.getD []) := by
  induction ts with
  | nil =>
    intro t w out
    refine ⟨[], [], t, ?_, ?_⟩
    · simp [withMarkers, betweenLoop]
    · intro rest; simp [lineItems, groupContexts]
  | cons t2 ts ih =>
    intro t w out
    cases t with
    | none =>
      obtain ⟨closed, w', last, h1, h2⟩ := ih t2 [] out
      refine ⟨[] :: closed, w', last, ?_, ?_⟩
      · simp only [withMarkers, betweenLoop] at h1 ⊢
        rw [h1]; simp [hnil]
      · intro rest
        simp only [lineItems, List.cons_append, groupContexts, Option.getD_none, List.append_nil]
        rw [h2]
    | some ws =>
      obtain ⟨closed, w', last, h1, h2⟩ := ih t2 ([] ++ ws) (out ++ pw ([] ++ ws))
      refine ⟨ws :: closed, w', last, ?_, ?_⟩
      · simp only [withMarkers, betweenLoop] at h1 ⊢
        rw [h1]; simp
      · intro rest
        simp only [lineItems, List.cons_append, groupContexts, Option.getD_some, List.nil_append]
        rw [h2]

theorem docStep_shape (hnil : pw [] = []) (e0 : Option (List ω)) (ts : List (Option (List ω)))
    (w : List ω) (out : List (Ev ω)) :
    ∃ closed w', docStep pw (w, out) (e0 :: withMarkers ts) = (w', out ++ closed.flatMap pw) ∧
      ∀ rest, groupContexts (lineItems (e0 :: ts) ++ rest) w = closed ++ groupContexts rest w' := by
  cases ts with
  | nil =>
    refine ⟨[], w ++ e0.getD [], ?_, ?_⟩
    · simp [withMarkers, docStep]
    · intro rest; simp [lineItems, groupContexts]
  | cons t ts =>
    obtain ⟨closed, w', last, h1, h2⟩ :=
      betweenLoop_shape pw hnil ts t (w ++ e0.getD []) (out ++ pw (w ++ e0.getD []))
    refine ⟨(w ++ e0.getD []) :: closed, w' ++ last.getD [], ?_, ?_⟩
    · simp only [withMarkers, docStep] at h1 ⊢
      rw [h1]; simp
    · intro rest
      simp only [lineItems, List.cons_append, groupContexts]
      rw [h2]

theorem foldl_docStep (hnil : pw [] = []) (lines : List (List (Option (List ω))))
    (hs : ∀ l ∈ lines, wellShaped l = true) (w : List ω) (out : List (Ev ω)) :
    (lines.foldl (docStep pw) (w, out)).2 ++ pw (lines.foldl (docStep pw) (w, out)).1 =
      out ++ (groupContexts (lines.flatMap (fun l => lineItems (evens l))) w).flatMap pw := by
  induction lines generalizing w out with
  | nil => simp [groupContexts]
  | cons l lines ih =>
    obtain ⟨e0, ts, rfl⟩ := wellShaped_exists l (hs l (List.mem_cons_self))
    obtain ⟨closed, w', h1, h2⟩ := docStep_shape pw hnil e0 ts w out
    simp only [List.foldl_cons, h1, List.flatMap_cons, evens_withMarkers]
    rw [ih (fun l hl => hs l (List.mem_cons_of_mem _ hl)), h2]
    simp [List.append_assoc]

theorem runLine_eq (lines : List (List ω)) (out : List (Ev ω)) :
    lines.foldl (fun out words => out ++ pw words) out = out ++ lines.flatMap pw := by
  induction lines generalizing out with
  | nil => simp
  | cons l lines ih => simp [ih, List.append_assoc]

end Stream


/-! ### character level: which characters can occur in a token -/

/-- a word as produced by `gen_words(process_line(…))`: non-empty, no blank,
    none of `#`, `_`, TAB. -/
def CleanWord (w : Word) : Prop := w ≠ [] ∧ ∀ c ∈ w, c ≠ ' ' ∧ isSpecial c = false

/-- a written event: cue tokens are non-empty without blank, `_`, TAB (n-gram
    cues contain `#`); outcome tokens are clean words. -/
def CleanEv (ev : Ev Word) : Prop :=
  (∀ tok ∈ ev.cues, tok ≠ [] ∧ ∀ c ∈ tok, c ≠ ' ' ∧ c ≠ '_' ∧ c ≠ '\t') ∧
  (∀ tok ∈ ev.outcomes, CleanWord tok)

theorem isSpecial_false {c : Char} (h : isSpecial c = false) : c ≠ '#' ∧ c ≠ '_' ∧ c ≠ '\t' := by
  simp only [isSpecial, Bool.or_eq_false_iff, beq_eq_false_iff_ne] at h
  exact ⟨h.1.1, h.1.2, h.2⟩

theorem mem_removeSpecial {s : List Char} {c : Char} (h : c ∈ removeSpecial s) :
    isSpecial c = false := by
  simp only [removeSpecial, List.mem_map] at h
  obtain ⟨d, _, rfl⟩ := h
  by_cases hs : isSpecial d = true
  · simp only [hs, if_true]; decide
  · simp only [hs]; simpa using hs

/-! #### the two branches of `filter_symbols` compute the same map -/

/-- `re.sub` with a one-character pattern is a per-character map. -/
theorem subChar_eq_map (pat : Char → Bool) (repl : Char) (s : List Char) :
    subChar pat repl s = s.map fun c => if pat c then repl else c := by
  induction s with
  | nil => rfl
  | cons c cs ih => by_cases h : pat c = true <;> simp [subChar, h, ih]

/-- the regex branch replaces exactly the characters outside the set -/
theorem filterRegex_eq_map (items : List (Char × Char)) (repl : Char) (s : List Char) :
    filterRegex items repl s = s.map fun c => if inRanges items c then c else repl := by
  rw [filterRegex, subChar_eq_map]
  apply List.map_congr_left
  intro c _
  simp only [negClassMatches, inRanges]
  by_cases h : (items.any fun r => decide (r.1.toNat ≤ c.toNat) && decide (c.toNat ≤ r.2.toNat)) = true
  · simp [h]
  · simp [h]

/-- the state of the index loop after the first `n` indices: the first `n`
    positions are filtered, the rest is still the copy of the line -/
theorem filterCallable_loop (allowed : Char → Bool) (repl : Char) (line : List Char) :
    ∀ n, n ≤ line.length →
      (List.range n).foldl (filterCallableStep allowed repl line) line
      = (line.take n).map (fun c => if allowed c then c else repl) ++ line.drop n := by
  intro n
  induction n with
  | zero => intro _; simp
  | succ n ih =>
    intro hn
    have hlt : n < line.length := hn
    rw [List.range_succ, List.foldl_append, ih (Nat.le_of_lt hlt)]
    simp only [List.foldl_cons, List.foldl_nil, filterCallableStep, List.getElem?_eq_getElem hlt]
    have htake : line.take (n + 1) = line.take n ++ [line[n]] := by
      rw [List.take_add_one, List.getElem?_eq_getElem hlt]; rfl
    have hdrop : line.drop n = line[n] :: line.drop (n + 1) := (List.getElem_cons_drop hlt).symm
    have hlen : ((line.take n).map fun c => if allowed c then c else repl).length = n := by
      simp [Nat.min_eq_left (Nat.le_of_lt hlt)]
    by_cases ha : allowed line[n] = true
    · simp only [ha, if_true]
      rw [htake, List.map_append, List.append_assoc, hdrop]
      simp [ha]
    · simp only [ha]
      rw [htake, List.map_append, List.append_assoc]
      conv => lhs; rw [hdrop]
      rw [List.set_append_right _ _ (by rw [hlen]; exact Nat.le_refl n), hlen, Nat.sub_self]
      simp only [ha, ↓reduceIte, List.map_cons, List.map_nil, List.cons_append, List.nil_append,
        List.set_cons_zero, Bool.false_eq_true]

/-- the callable branch replaces exactly the characters the callable rejects -/
theorem filterCallable_eq_map (allowed : Char → Bool) (repl : Char) (s : List Char) :
    filterCallable allowed repl s = s.map fun c => if allowed c then c else repl := by
  have := filterCallable_loop allowed repl s s.length (Nat.le_refl _)
  simpa [filterCallable] using this

/-- **both branches are the per-character map of the denotation `Allowed.ok`** -/
theorem filterSymbols_eq_map (a : Allowed) (s : List Char) :
    filterSymbols a s = s.map fun c => if a.ok c then c else ' ' := by
  cases a with
  | all => simp [filterSymbols, Allowed.ok]
  | expr e => rw [filterSymbols, filterRegex_eq_map]; rfl
  | table rs => rw [filterSymbols, filterCallable_eq_map]; rfl

/-- **the regex branch and the callable branch agree** whenever the callable
    accepts exactly the characters of the set (two different code paths of
    `filter_symbols`). -/
theorem filterRegex_eq_filterCallable (items : List (Char × Char)) (allowed : Char → Bool)
    (h : ∀ c, allowed c = inRanges items c) (repl : Char) (s : List Char) :
    filterRegex items repl s = filterCallable allowed repl s := by
  rw [filterRegex_eq_map, filterCallable_eq_map]
  apply List.map_congr_left
  intro c _
  rw [h c]

theorem mem_filterSymbols {a : Allowed} {s : List Char} {c : Char} (h : c ∈ filterSymbols a s) :
    c = ' ' ∨ c ∈ s := by
  rw [filterSymbols_eq_map, List.mem_map] at h
  obtain ⟨d, hd, rfl⟩ := h
  split
  · exact Or.inr hd
  · exact Or.inl rfl

theorem mem_processLineG {ops : TextOps} {lc : Bool} {a : Allowed} {line : List Char} {c : Char}
    (h : c ∈ processLineG ops lc a line) : isSpecial c = false := by
  simp only [processLineG] at h
  rcases mem_filterSymbols h with rfl | h
  · decide
  · exact mem_removeSpecial h

theorem mem_processLine {t : Tables} {lc : Bool} {a : Allowed} {line : List Char} {c : Char}
    (h : c ∈ processLine t lc a line) : isSpecial c = false := mem_processLineG h

theorem mem_splitSpace {s : List Char} {w : List Char} (h : w ∈ splitSpace s) :
    ∀ c ∈ w, c ≠ ' ' ∧ c ∈ s := by
  induction s generalizing w with
  | nil =>
    simp only [splitSpace, List.mem_singleton] at h
    subst h; intro c hc; simp at hc
  | cons d ds ih =>
    simp only [splitSpace] at h
    split at h
    · rcases List.mem_cons.mp h with rfl | h
      · intro c hc; simp at hc
      · intro c hc
        have := ih h c hc
        exact ⟨this.1, List.mem_cons_of_mem _ this.2⟩
    · rename_i hd
      split at h
      · simp only [List.mem_singleton] at h
        subst h
        intro c hc
        simp only [List.mem_singleton] at hc
        subst hc
        exact ⟨hd, List.mem_cons_self⟩
      · rename_i w0 ws heq
        have hmem : ∀ v, v ∈ w0 :: ws → v ∈ splitSpace ds := by intro v hv; rw [heq]; exact hv
        rcases List.mem_cons.mp h with rfl | h
        · intro c hc
          rcases List.mem_cons.mp hc with rfl | hc
          · exact ⟨hd, List.mem_cons_self⟩
          · have := ih (hmem w0 List.mem_cons_self) c hc
            exact ⟨this.1, List.mem_cons_of_mem _ this.2⟩
        · intro c hc
          have := ih (hmem w (List.mem_cons_of_mem _ h)) c hc
          exact ⟨this.1, List.mem_cons_of_mem _ this.2⟩

theorem mem_strip {f : Char → Bool} {s : List Char} {c : Char} (h : c ∈ strip f s) : c ∈ s := by
  simp only [strip, List.mem_reverse] at h
  have h1 := (List.dropWhile_suffix f).subset h
  rw [List.mem_reverse] at h1
  exact (List.dropWhile_suffix f).subset h1

theorem mem_genWordsG {isWs : Char → Bool} {line : List Char} {w : Word} (h : w ∈ genWordsG isWs line) :
    w ≠ [] ∧ ∀ c ∈ w, c ≠ ' ' ∧ c ∈ line := by
  simp only [genWordsG, List.mem_filterMap] at h
  obtain ⟨p, hp, hw⟩ := h
  split at hw
  · simp at hw
  · rename_i hne
    simp only [Option.some.injEq] at hw
    subst hw
    refine ⟨?_, fun c hc => mem_splitSpace hp c (mem_strip hc)⟩
    intro h0; rw [h0] at hne; simp at hne

theorem mem_genWords {t : Tables} {line : List Char} {w : Word} (h : w ∈ genWords t line) :
    w ≠ [] ∧ ∀ c ∈ w, c ≠ ' ' ∧ c ∈ line := mem_genWordsG h

theorem genWords_processLineG_clean {ops : TextOps} {lc : Bool} {a : Allowed} {line : List Char} {w : Word}
    (h : w ∈ genWordsG ops.isWs (processLineG ops lc a line)) : CleanWord w := by
  obtain ⟨h1, h2⟩ := mem_genWordsG h
  exact ⟨h1, fun c hc => ⟨(h2 c hc).1, mem_processLineG (h2 c hc).2⟩⟩

theorem genWords_processLine_clean {t : Tables} {lc : Bool} {a : Allowed} {line : List Char} {w : Word}
    (h : w ∈ genWords t (processLine t lc a line)) : CleanWord w :=
  genWords_processLineG_clean (ops := t.ops) h

theorem lineWordsG_clean {ops : TextOps} {lc : Bool} {a : Allowed} {raw : List Char} :
    ∀ w ∈ lineWordsG ops lc a raw, CleanWord w :=
  fun _ h => genWords_processLineG_clean h

theorem lineWords_clean {t : Tables} {lc : Bool} {a : Allowed} {raw : List Char} :
    ∀ w ∈ lineWords t lc a raw, CleanWord w := lineWordsG_clean (ops := t.ops)

theorem elemWordsG_clean {ops : TextOps} {lc : Bool} {a : Allowed} {piece : List Char} {ws : List Word}
    (h : elemWordsG ops lc a piece = some ws) : ∀ w ∈ ws, CleanWord w := by
  simp only [elemWordsG] at h
  split at h
  · simp at h
  · simp only [Option.some.injEq] at h
    subst h
    exact fun _ hw => genWords_processLineG_clean hw

theorem elemWords_clean {t : Tables} {lc : Bool} {a : Allowed} {piece : List Char} {ws : List Word}
    (h : elemWords t lc a piece = some ws) : ∀ w ∈ ws, CleanWord w := elemWordsG_clean (ops := t.ops) h

theorem docLineElemsG_clean {ops : TextOps} {lc : Bool} {a : Allowed} {raw : List Char} :
    ∀ e ∈ docLineElemsG ops lc a raw, ∀ ws, e = some ws → ∀ w ∈ ws, CleanWord w := by
  intro e he ws hws
  simp only [docLineElemsG] at he
  split at he
  · simp only [List.mem_singleton] at he
    subst he
    simp only [Option.some.injEq] at hws
    subst hws
    exact fun _ hw => genWords_processLineG_clean hw
  · simp only [List.mem_map] at he
    obtain ⟨p, _, rfl⟩ := he
    exact elemWordsG_clean hws

theorem docLineElems_clean {t : Tables} {lc : Bool} {a : Allowed} {raw : List Char} :
    ∀ e ∈ docLineElems t lc a raw, ∀ ws, e = some ws → ∀ w ∈ ws, CleanWord w :=
  docLineElemsG_clean (ops := t.ops)

/-! ### invariants of the streaming machine -/

section Inv
variable {ω : Type} (pw : List ω → List (Ev ω)) (Q : ω → Prop) (P : Ev ω → Prop)

def ElemsOk (Q : ω → Prop) (cs : List (Option (List ω))) : Prop :=
  ∀ e ∈ cs, ∀ ws, e = some ws → ∀ x ∈ ws, Q x

theorem ElemsOk.tail {Q : ω → Prop} {c : Option (List ω)} {cs : List (Option (List ω))}
    (h : ElemsOk Q (c :: cs)) : ElemsOk Q cs :=
  fun e he => h e (List.mem_cons_of_mem _ he)

theorem getD_ok {Q : ω → Prop} {e : Option (List ω)} (h : ∀ ws, e = some ws → ∀ x ∈ ws, Q x) :
    ∀ x ∈ e.getD [], Q x := by
  cases e with
  | none => intro x hx; simp at hx
  | some ws => exact h ws rfl

theorem betweenLoop_inv (hpw : ∀ ws, (∀ w ∈ ws, Q w) → ∀ ev ∈ pw ws, P ev) :
    ∀ (cs : List (Option (List ω))) (w : List ω) (out : List (Ev ω)),
      ElemsOk Q cs → (∀ x ∈ w, Q x) → (∀ ev ∈ out, P ev) →
      (∀ x ∈ (betweenLoop pw cs w out).1, Q x) ∧ (∀ ev ∈ (betweenLoop pw cs w out).2.1, P ev) ∧
      (∀ l, (betweenLoop pw cs w out).2.2 = some l → ∀ ws, l = some ws → ∀ x ∈ ws, Q x)
  | [], w, out, _, hw, ho => by simp only [betweenLoop]; exact ⟨hw, ho, by simp⟩
  | [l], w, out, hcs, hw, ho => by
    simp only [betweenLoop]
    refine ⟨hw, ho, ?_⟩
    intro l' hl'
    simp only [Option.some.injEq] at hl'
    subst hl'
    exact hcs l List.mem_cons_self
  | none :: c2 :: rest, w, out, hcs, _, ho => by
    simp only [betweenLoop]
    exact betweenLoop_inv hpw (c2 :: rest) [] out hcs.tail (by simp) ho
  | some ws :: c2 :: rest, w, out, hcs, _, ho => by
    simp only [betweenLoop, List.nil_append]
    have hws : ∀ x ∈ ws, Q x := hcs (some ws) List.mem_cons_self ws rfl
    refine betweenLoop_inv hpw (c2 :: rest) ws (out ++ pw ws) hcs.tail hws ?_
    intro ev hev
    rcases List.mem_append.mp hev with h | h
    · exact ho ev h
    · exact hpw ws hws ev h

theorem docStep_inv (hpw : ∀ ws, (∀ w ∈ ws, Q w) → ∀ ev ∈ pw ws, P ev)
    (st : List ω × List (Ev ω)) (elems : List (Option (List ω)))
    (he : ElemsOk Q elems) (hw : ∀ x ∈ st.1, Q x) (ho : ∀ ev ∈ st.2, P ev) :
    (∀ x ∈ (docStep pw st elems).1, Q x) ∧ (∀ ev ∈ (docStep pw st elems).2, P ev) := by
  match elems, he with
  | [], _ => exact ⟨hw, ho⟩
  | [e], he =>
    simp only [docStep]
    refine ⟨?_, ho⟩
    intro x hx
    rcases List.mem_append.mp hx with h | h
    · exact hw x h
    · exact getD_ok (he e List.mem_cons_self) x h
  | e0 :: c :: cs, he =>
    have hw1 : ∀ x ∈ st.1 ++ e0.getD [], Q x := by
      intro x hx
      rcases List.mem_append.mp hx with h | h
      · exact hw x h
      · exact getD_ok (he e0 List.mem_cons_self) x h
    have ho1 : ∀ ev ∈ st.2 ++ pw (st.1 ++ e0.getD []), P ev := by
      intro ev hev
      rcases List.mem_append.mp hev with h | h
      · exact ho ev h
      · exact hpw _ hw1 ev h
    have := betweenLoop_inv pw Q P hpw (c :: cs) _ _ he.tail hw1 ho1
    simp only [docStep]
    generalize betweenLoop pw (c :: cs) (st.1 ++ e0.getD []) (st.2 ++ pw (st.1 ++ e0.getD [])) = r at this
    obtain ⟨w', out', l⟩ := r
    cases l with
    | none => exact ⟨this.1, this.2.1⟩
    | some last =>
      refine ⟨?_, this.2.1⟩
      intro x hx
      rcases List.mem_append.mp hx with h | h
      · exact this.1 x h
      · exact getD_ok (this.2.2 last rfl) x h

theorem runDocument_inv (hpw : ∀ ws, (∀ w ∈ ws, Q w) → ∀ ev ∈ pw ws, P ev)
    (lines : List (List (Option (List ω)))) (hl : ∀ l ∈ lines, ElemsOk Q l) :
    ∀ ev ∈ runDocument pw lines, P ev := by
  have key : ∀ (lines : List (List (Option (List ω)))) (st : List ω × List (Ev ω)),
      (∀ l ∈ lines, ElemsOk Q l) → (∀ x ∈ st.1, Q x) → (∀ ev ∈ st.2, P ev) →
      (∀ x ∈ (lines.foldl (docStep pw) st).1, Q x) ∧ (∀ ev ∈ (lines.foldl (docStep pw) st).2, P ev) := by
    intro lines
    induction lines with
    | nil => intro st _ hw ho; exact ⟨hw, ho⟩
    | cons l ls ih =>
      intro st hl hw ho
      have h1 := docStep_inv pw Q P hpw st l (hl l List.mem_cons_self) hw ho
      exact ih _ (fun l' hl' => hl l' (List.mem_cons_of_mem _ hl')) h1.1 h1.2
  have := key lines ([], []) hl (by simp) (by simp)
  intro ev hev
  simp only [runDocument] at hev
  rcases List.mem_append.mp hev with h | h
  · exact this.2 ev h
  · exact hpw _ this.1 ev h

theorem runLine_inv (hpw : ∀ ws, (∀ w ∈ ws, Q w) → ∀ ev ∈ pw ws, P ev)
    (lines : List (List ω)) (hl : ∀ l ∈ lines, ∀ x ∈ l, Q x) :
    ∀ ev ∈ runLine pw lines, P ev := by
  intro ev hev
  have : runLine pw lines = lines.flatMap pw := by simpa [runLine] using runLine_eq pw lines []
  rw [this, List.mem_flatMap] at hev
  obtain ⟨l, hl', hev⟩ := hev
  exact hpw l (hl l hl') ev hev

end Inv

/-! ### clean words give clean events -/

theorem mem_joinHash {toks : List Word} {c : Char} (h : c ∈ joinHash toks) :
    c = '#' ∨ ∃ tok ∈ toks, c ∈ tok := by
  match toks, h with
  | [], h => simp [joinHash] at h
  | [w], h => exact Or.inr ⟨w, List.mem_cons_self, by simpa [joinHash] using h⟩
  | w :: v :: vs, h =>
    simp only [joinHash, List.mem_append, List.mem_cons] at h
    rcases h with h | rfl | h
    · exact Or.inr ⟨w, List.mem_cons_self, h⟩
    · exact Or.inl rfl
    · rcases mem_joinHash (toks := v :: vs) (by simpa [joinHash] using h) with h | ⟨tok, ht, hc⟩
      · exact Or.inl h
      · exact Or.inr ⟨tok, List.mem_cons_of_mem _ ht, hc⟩

theorem mem_phraseString {toks : List Word} {c : Char} (h : c ∈ phraseString toks) :
    c = '#' ∨ ∃ tok ∈ toks, c ∈ tok := by
  simp only [phraseString, List.mem_cons, List.mem_append, List.not_mem_nil, or_false] at h
  rcases h with rfl | h | rfl
  · exact Or.inl rfl
  · exact mem_joinHash h
  · exact Or.inl rfl

theorem ngram_clean {n : Nat} (hn : 1 ≤ n) {toks : List Word} (ht : ∀ tok ∈ toks, CleanWord tok)
    {g : List Char} (hg : g ∈ ngrams n (phraseString toks)) :
    g ≠ [] ∧ ∀ c ∈ g, c ≠ ' ' ∧ c ≠ '_' ∧ c ≠ '\t' := by
  rw [ngrams_eq] at hg
  simp only [List.mem_map, List.mem_range] at hg
  obtain ⟨i, hi, rfl⟩ := hg
  constructor
  · intro h0
    have : ((phraseString toks).drop i |>.take n).length = 0 := by rw [h0]; rfl
    simp only [List.length_take, List.length_drop] at this
    omega
  · intro c hc
    have hc' : c ∈ phraseString toks := List.mem_of_mem_drop (List.mem_of_mem_take hc)
    rcases mem_phraseString hc' with rfl | ⟨tok, htok, hct⟩
    · decide
    · have := (ht tok htok).2 c hct
      have h2 := isSpecial_false this.2
      exact ⟨this.1, h2.2.1, h2.2.2⟩

theorem cleanWord_tok {w : Word} (h : CleanWord w) : w ≠ [] ∧ ∀ c ∈ w, c ≠ ' ' ∧ c ≠ '_' ∧ c ≠ '\t' :=
  ⟨h.1, fun c hc => ⟨(h.2 c hc).1, (isSpecial_false (h.2 c hc).2).2.1, (isSpecial_false (h.2 c hc).2).2.2⟩⟩

theorem processWords_clean (o : Options) (hn : ∀ n, o.cue = .ngrams n → 1 ≤ n) (words : List Word)
    (hw : ∀ w ∈ words, CleanWord w) : ∀ ev ∈ processWords o words, CleanEv ev := by
  intro ev hev
  simp only [processWords, processOccurrences] at hev
  have hocc := genOccurrences_mem o.event o.cue words
  cases hcue : o.cue with
  | ngrams n =>
    have hn1 := hn n hcue
    rw [hcue] at hev hocc
    simp only [List.mem_filterMap] at hev
    obtain ⟨occ, hmem, hsome⟩ := hev
    have htoks : ∀ tok ∈ occ.1 ++ occ.2, CleanWord tok := fun tok ht => hw tok (hocc occ hmem tok ht)
    simp only [ngramsToWord1] at hsome
    split at hsome
    · simp at hsome
    · split at hsome
      · simp only [Option.some.injEq] at hsome
        subst hsome
        refine ⟨fun tok ht => ?_, fun tok ht => ?_⟩
        · exact ngram_clean hn1 htoks (List.mem_eraseDups.mp ht)
        · exact htoks tok (List.mem_eraseDups.mp ht)
      · simp only [Option.some.injEq] at hsome
        subst hsome
        exact ⟨fun tok ht => ngram_clean hn1 htoks ht, fun tok ht => htoks tok ht⟩
  | wordToWord =>
    rw [hcue] at hev hocc
    simp only [List.mem_filterMap] at hev
    obtain ⟨occ, hmem, hsome⟩ := hev
    have htoks : ∀ tok ∈ occ.1 ++ occ.2, CleanWord tok := fun tok ht => hw tok (hocc occ hmem tok ht)
    simp only [wordCues1] at hsome
    split at hsome
    · simp at hsome
    · split at hsome
      · simp only [Option.some.injEq] at hsome
        subst hsome
        refine ⟨fun tok ht => ?_, fun tok ht => ?_⟩
        · exact cleanWord_tok (htoks tok (List.mem_append_left _ (List.mem_eraseDups.mp ht)))
        · exact htoks tok (List.mem_append_right _ (List.mem_eraseDups.mp ht))
      · simp only [Option.some.injEq] at hsome
        subst hsome
        exact ⟨fun tok ht => cleanWord_tok (htoks tok (List.mem_append_left _ ht)),
               fun tok ht => htoks tok (List.mem_append_right _ ht)⟩

/-- the tables instance is the general function at `t.ops` -/
theorem createEvents_eq_G (t : Tables) (o : Options) (rawLines : List (List Char)) :
    createEvents t o rawLines = createEventsG t.ops o rawLines := by
  unfold createEvents createEventsG
  cases o.context <;> rfl

theorem createEventsG_clean (ops : TextOps) (o : Options) (hn : ∀ n, o.cue = .ngrams n → 1 ≤ n)
    (rawLines : List (List Char)) : ∀ ev ∈ createEventsG ops o rawLines, CleanEv ev := by
  intro ev hev
  simp only [createEventsG] at hev
  split at hev
  · refine runLine_inv (processWords o) CleanWord CleanEv (processWords_clean o hn) _ ?_ ev hev
    intro l hl
    simp only [List.mem_map] at hl
    obtain ⟨raw, _, rfl⟩ := hl
    exact lineWordsG_clean
  · refine runDocument_inv (processWords o) CleanWord CleanEv (processWords_clean o hn) _ ?_ ev hev
    intro l hl
    simp only [List.mem_map] at hl
    obtain ⟨raw, _, rfl⟩ := hl
    exact docLineElemsG_clean

theorem createEvents_clean (t : Tables) (o : Options) (hn : ∀ n, o.cue = .ngrams n → 1 ≤ n)
    (rawLines : List (List Char)) : ∀ ev ∈ createEvents t o rawLines, CleanEv ev := by
  rw [createEvents_eq_G]; exact createEventsG_clean t.ops o hn rawLines


/-! ### the shape of `context_pattern.split(line)` -/

theorem matchPat_length : ∀ (p : List (Option Char)) (s : List Char),
    matchPat p s = true → p.length ≤ s.length
  | [], _, _ => by simp
  | _ :: _, [], h => by simp [matchPat] at h
  | none :: p, _ :: s, h => by
    simp only [matchPat] at h
    have := matchPat_length p s h
    simp only [List.length_cons]; omega
  | some a :: p, c :: s, h => by
    simp only [matchPat, Bool.and_eq_true] at h
    have := matchPat_length p s h.2
    simp only [List.length_cons]; omega

theorem matchPat_take : ∀ (p : List (Option Char)) (s : List Char),
    matchPat p s = true → matchPat p (s.take p.length) = true
  | [], _, _ => by simp [matchPat]
  | _ :: _, [], h => by simp [matchPat] at h
  | none :: p, _ :: s, h => by
    simp only [matchPat] at h
    simp only [List.length_cons, List.take_succ_cons, matchPat]
    exact matchPat_take p s h
  | some a :: p, c :: s, h => by
    simp only [matchPat, Bool.and_eq_true] at h
    simp only [List.length_cons, List.take_succ_cons, matchPat, Bool.and_eq_true]
    exact ⟨h.1, matchPat_take p s h.2⟩

theorem isMarkerAt_take {s : List Char} (h : isMarkerAt s = true) :
    isMarkerAt (s.take markerLen) = true ∧ markerLen ≤ s.length := by
  have hl : markerLower.length = markerLen := by decide
  have hu : markerUpper.length = markerLen := by decide
  simp only [isMarkerAt, Bool.or_eq_true] at h ⊢
  rcases h with h | h
  · exact ⟨Or.inl (hl ▸ matchPat_take _ _ h), hl ▸ matchPat_length _ _ h⟩
  · exact ⟨Or.inr (hu ▸ matchPat_take _ _ h), hu ▸ matchPat_length _ _ h⟩

theorem splitAux_nil (fuel : Nat) (cur : List Char) : splitAux fuel [] cur = [cur.reverse] := by
  cases fuel <;> simp [splitAux]

/-- `process_context` turns a marker element into the empty string. -/
theorem removeMarkers_marker {s : List Char} (h : isMarkerAt s = true) :
    removeMarkers (s.take markerLen) = [] := by
  obtain ⟨h1, h2⟩ := isMarkerAt_take h
  have hlen : (s.take markerLen).length = markerLen := by
    simp only [List.length_take]; omega
  generalize s.take markerLen = m at h1 hlen
  cases m with
  | nil => simp [markerLen] at hlen
  | cons c rest =>
    have hd : (c :: rest).drop markerLen = [] := List.drop_eq_nil_of_le (by omega)
    have ht : (c :: rest).take markerLen = c :: rest := List.take_of_length_le (by omega)
    simp only [removeMarkers, contextSplit, splitAux, h1, if_true, hd, ht, splitAux_nil]
    simp [evens]

theorem elemWordsG_marker (ops : TextOps) (lc : Bool) (a : Allowed) {s : List Char}
    (h : isMarkerAt s = true) : elemWordsG ops lc a (s.take markerLen) = none := by
  simp [elemWordsG, removeMarkers_marker h, strip]

theorem elemWords_marker (t : Tables) (lc : Bool) (a : Allowed) {s : List Char}
    (h : isMarkerAt s = true) : elemWords t lc a (s.take markerLen) = none :=
  elemWordsG_marker t.ops lc a h

/-- `[(m1, t1), …] ↦ [m1, t1, …]` -/
def interleave : List (List Char × List Char) → List (List Char)
  | [] => []
  | p :: r => p.1 :: p.2 :: interleave r

theorem splitAux_shape : ∀ (fuel : Nat) (cs cur : List Char),
    ∃ t0 ms, splitAux fuel cs cur = t0 :: interleave ms ∧
      ∀ p ∈ ms, ∃ s, isMarkerAt s = true ∧ p.1 = s.take markerLen
  | 0, _, cur => ⟨cur.reverse, [], rfl, by simp⟩
  | _ + 1, [], cur => ⟨cur.reverse, [], by simp [splitAux, interleave], by simp⟩
  | fuel + 1, c :: rest, cur => by
    simp only [splitAux]
    split
    · rename_i hm
      obtain ⟨t0, ms, h1, h2⟩ := splitAux_shape fuel ((c :: rest).drop markerLen) []
      refine ⟨cur.reverse, ((c :: rest).take markerLen, t0) :: ms, by simp [interleave, h1], ?_⟩
      intro p hp
      rcases List.mem_cons.mp hp with rfl | hp
      · exact ⟨c :: rest, hm, rfl⟩
      · exact h2 p hp
    · exact splitAux_shape fuel rest (c :: cur)

theorem wellShaped_map_interleave (f : List Char → Option (List Word))
    (ms : List (List Char × List Char)) (hm : ∀ p ∈ ms, f p.1 = none) (t0 : List Char) :
    wellShaped ((t0 :: interleave ms).map f) = true := by
  induction ms generalizing t0 with
  | nil => simp [interleave, wellShaped]
  | cons p r ih =>
    have hp : f p.1 = none := hm p List.mem_cons_self
    simp only [interleave, List.map_cons, hp, wellShaped]
    exact ih (fun q hq => hm q (List.mem_cons_of_mem _ hq)) p.2

/-- every line of a corpus has the `[t0, marker, t1, …, marker, tk]` shape the
    token-level theorem `stream_eq_contexts` asks for. -/
theorem docLineElemsG_wellShaped (ops : TextOps) (lc : Bool) (a : Allowed) (raw : List Char) :
    wellShaped (docLineElemsG ops lc a raw) = true := by
  obtain ⟨t0, ms, h1, h2⟩ := splitAux_shape ((strip ops.isWs raw).length + 1) (strip ops.isWs raw) []
  have key : wellShaped ((contextSplit (strip ops.isWs raw)).map (elemWordsG ops lc a)) = true := by
    rw [contextSplit, h1]
    refine wellShaped_map_interleave _ ms (fun p hp => ?_) t0
    obtain ⟨s, hs, hp1⟩ := h2 p hp
    rw [hp1]; exact elemWordsG_marker ops lc a hs
  simp only [docLineElemsG]
  split
  · rfl
  · exact key

theorem docLineElems_wellShaped (t : Tables) (lc : Bool) (a : Allowed) (raw : List Char) :
    wellShaped (docLineElems t lc a raw) = true := docLineElemsG_wellShaped t.ops lc a raw

end Pyndl.Create
