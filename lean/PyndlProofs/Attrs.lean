/-
  PyndlProofs.Attrs — helper lemmas for C16 (run metadata).  No Mathlib needed.
-/
import PyndlModel.Attrs

namespace Pyndl.Attrs
open List

/-! ## association lists -/

section Get
variable {β γ : Type}

theorem get?_map_val (f : Key → β → γ) (a : List (Key × β)) (k : Key) :
    get? (a.map (fun kv => (kv.1, f kv.1 kv.2))) k = (get? a k).map (f k) := by
  induction a with
  | nil => rfl
  | cons hd tl ih =>
    obtain ⟨k', v⟩ := hd
    simp only [List.map_cons, get?]
    by_cases h : k' = k
    · subst h; simp
    · simp only [if_neg h]; exact ih

theorem get?_append_some (a b : List (Key × β)) (k : Key) (v : β) (h : get? a k = some v) :
    get? (a ++ b) k = some v := by
  induction a with
  | nil => simp [get?] at h
  | cons hd tl ih =>
    obtain ⟨k', v'⟩ := hd
    simp only [List.cons_append, get?] at h ⊢
    by_cases hk : k' = k
    · simpa [hk] using h
    · simp only [if_neg hk] at h ⊢; exact ih h

theorem get?_append_none (a b : List (Key × β)) (k : Key) (h : get? a k = none) :
    get? (a ++ b) k = get? b k := by
  induction a with
  | nil => rfl
  | cons hd tl ih =>
    obtain ⟨k', v'⟩ := hd
    simp only [List.cons_append, get?] at h ⊢
    by_cases hk : k' = k
    · simp [hk] at h
    · simp only [if_neg hk] at h ⊢; exact ih h

theorem get?_filter_key (p : Key → Bool) (a : List (Key × β)) (k : Key) :
    get? (a.filter (fun kv => p kv.1)) k = if p k then get? a k else none := by
  induction a with
  | nil => simp [get?]
  | cons hd tl ih =>
    obtain ⟨k', v⟩ := hd
    by_cases hp : p k' = true
    · rw [List.filter_cons_of_pos (by simpa using hp)]
      simp only [get?]
      by_cases hk : k' = k
      · subst hk; simp [hp]
      · simp only [if_neg hk]; exact ih
    · rw [List.filter_cons_of_neg (by simpa using hp)]
      rw [ih]
      simp only [get?]
      by_cases hk : k' = k
      · subst hk; simp [hp]
      · simp only [if_neg hk]

theorem hasKey_map_val (f : Key → β → γ) (a : List (Key × β)) (k : Key) :
    hasKey (a.map (fun kv => (kv.1, f kv.1 kv.2))) k = hasKey a k := by
  simp only [hasKey, get?_map_val, Option.isSome_map]

theorem hasKey_congr (a : List (Key × β)) (b : List (Key × γ)) (k : Key)
    (h : a.map (·.1) = b.map (·.1)) : hasKey a k = hasKey b k := by
  induction a generalizing b with
  | nil =>
    cases b with
    | nil => rfl
    | cons _ _ => simp at h
  | cons hd tl ih =>
    cases b with
    | nil => simp at h
    | cons hb tb =>
      obtain ⟨k', v⟩ := hd
      obtain ⟨k'', v'⟩ := hb
      simp only [List.map_cons, List.cons.injEq] at h
      obtain ⟨h1, h2⟩ := h
      subst h1
      simp only [hasKey, get?]
      by_cases hk : k' = k
      · simp [hk]
      · simp only [if_neg hk]; exact ih tb h2

end Get

/-! ## new entries of one call -/

theorem get?_newAttrs (c : Call) (k : Key) :
    get? (newAttrs c) k = (get? c.raw k).map (padRight c.width) := by
  unfold newAttrs
  exact get?_map_val (fun _ v => padRight c.width v) c.raw k

theorem hasKey_newAttrs (c : Call) (k : Key) : hasKey (newAttrs c) k = hasKey c.raw k := by
  simp only [hasKey, get?_newAttrs, Option.isSome_map]

theorem entryOf_of_raw (c : Call) (k : Key) (v : Str) (h : get? c.raw k = some v) :
    entryOf k c = padRight c.width v := by
  simp [entryOf, get?_newAttrs, h]

theorem entryOf_of_lacks (c : Call) (k : Key) (h : get? c.raw k = none) : entryOf k c = [] := by
  simp [entryOf, get?_newAttrs, h]

/-- the two key sets: which `_attributes` a call uses. -/
def sameKeySet : Call → Call → Bool
  | .ndl _, .ndl _ => true
  | .wh _, .wh _ => true
  | _, _ => false

theorem hasKey_of_sameKeySet (c c' : Call) (k : Key) (h : sameKeySet c c' = true) :
    hasKey (newAttrs c) k = hasKey (newAttrs c') k := by
  rw [hasKey_newAttrs, hasKey_newAttrs]
  apply hasKey_congr
  cases c <;> cases c' <;> simp [sameKeySet] at h <;> rfl

/-! ## one merge, seen at one key -/

/-- entry-list view of one more call at key `k`. -/
def stepE (k : Key) (acc : Option (List Str)) (c : Call) : Option (List Str) :=
  match get? (newAttrs c) k with
  | some v => some (acc.getD [[]] ++ [v])
  | none => acc.map (· ++ [[]])

/-- stored-string view of one more call at key `k`. -/
def stepS (k : Key) (acc : Option Str) (c : Call) : Option Str :=
  match get? (newAttrs c) k with
  | some v => some (acc.getD [] ++ sep ++ v)
  | none => acc.map (· ++ sep ++ [])

theorem get?_mergeE (old : AttrsE) (c : Call) (k : Key) :
    get? (mergeE old (newAttrs c)) k = stepE k (get? old k) c := by
  unfold mergeE stepE
  have h1 := get?_map_val (fun k' (v : Str) => (get? old k').getD [[]] ++ [v]) (newAttrs c) k
  cases hn : get? (newAttrs c) k with
  | some v =>
    rw [hn] at h1
    exact get?_append_some _ _ k _ h1
  | none =>
    rw [hn] at h1
    rw [get?_append_none _ _ k h1]
    have h2 := get?_map_val (fun _ (es : List Str) => es ++ [[]])
      (old.filter (fun kv => !(hasKey (newAttrs c) kv.1))) k
    rw [h2, get?_filter_key (fun k' => !(hasKey (newAttrs c) k')) old k]
    simp [hasKey, hn]

theorem get?_merge (old : Attrs) (c : Call) (k : Key) :
    get? (merge old (newAttrs c)) k = stepS k (get? old k) c := by
  unfold merge stepS
  have h1 := get?_map_val (fun k' (v : Str) => (get? old k').getD [] ++ sep ++ v) (newAttrs c) k
  cases hn : get? (newAttrs c) k with
  | some v =>
    rw [hn] at h1
    exact get?_append_some _ _ k _ h1
  | none =>
    rw [hn] at h1
    rw [get?_append_none _ _ k h1]
    have h2 := get?_map_val (fun _ (s : Str) => s ++ sep ++ [])
      (old.filter (fun kv => !(hasKey (newAttrs c) kv.1))) k
    rw [h2, get?_filter_key (fun k' => !(hasKey (newAttrs c) k')) old k]
    simp [hasKey, hn]

/-! ## chains -/

theorem runChain_cons (c₀ : Call) (rest : List Call) :
    runChain (c₀ :: rest)
      = some (rest.foldl (fun a c => merge a (newAttrs c)) (newAttrs c₀)) := by
  have h : ∀ (a : Attrs) (r : List Call),
      r.foldl (fun acc c => some (attributes c acc)) (some a)
        = some (r.foldl (fun a c => merge a (newAttrs c)) a) := by
    intro a r
    induction r generalizing a with
    | nil => rfl
    | cons c r ih => simp only [List.foldl_cons, attributes]; exact ih _
  simp only [runChain, List.foldl_cons, attributes]
  exact h _ _

theorem get?_foldl_merge (k : Key) (a : Attrs) (rest : List Call) :
    get? (rest.foldl (fun a c => merge a (newAttrs c)) a) k
      = rest.foldl (stepS k) (get? a k) := by
  induction rest generalizing a with
  | nil => rfl
  | cons c r ih => simp only [List.foldl_cons]; rw [ih, get?_merge]

theorem get?_foldl_mergeE (k : Key) (a : AttrsE) (rest : List Call) :
    get? (rest.foldl (fun a c => mergeE a (newAttrs c)) a) k
      = rest.foldl (stepE k) (get? a k) := by
  induction rest generalizing a with
  | nil => rfl
  | cons c r ih => simp only [List.foldl_cons]; rw [ih, get?_mergeE]

theorem get?_runChainE (k : Key) (c₀ : Call) (rest : List Call) :
    get? (runChainE c₀ rest) k
      = rest.foldl (stepE k) ((get? (newAttrs c₀) k).map (fun v => [v])) := by
  unfold runChainE
  rw [get?_foldl_mergeE]
  congr 1
  exact get?_map_val (fun _ (v : Str) => [v]) (newAttrs c₀) k

theorem stepE_some (k : Key) (es : List Str) (c : Call) :
    stepE k (some es) c = some (es ++ [entryOf k c]) := by
  unfold stepE entryOf
  cases get? (newAttrs c) k <;> simp

theorem foldl_stepE_some (k : Key) (es : List Str) (rest : List Call) :
    rest.foldl (stepE k) (some es) = some (es ++ rest.map (entryOf k)) := by
  induction rest generalizing es with
  | nil => simp
  | cons c r ih =>
    simp only [List.foldl_cons, stepE_some, ih, List.map_cons, List.append_assoc,
      List.singleton_append]

/-- the exact entry list of a key the first calls lack: nothing until the
    first call `c` that has the key; that call writes `'' | entry`, so the
    list is one `''` (not one per earlier call) followed by one entry per call
    from `c` on. -/
theorem foldl_stepE_none (k : Key) (rest : List Call) :
    rest.foldl (stepE k) none
      = match rest.dropWhile (fun c => !(hasKey (newAttrs c) k)) with
        | [] => none
        | c :: r => some ([] :: (c :: r).map (entryOf k)) := by
  induction rest with
  | nil => rfl
  | cons c r ih =>
    simp only [List.foldl_cons]
    cases hn : get? (newAttrs c) k with
    | some v =>
      have hk : (!(hasKey (newAttrs c) k)) = false := by simp [hasKey, hn]
      rw [List.dropWhile_cons_of_neg (by simp [hk])]
      have : stepE k none c = some [[], v] := by simp [stepE, hn]
      rw [this, foldl_stepE_some]
      simp [entryOf, hn]
    | none =>
      have hk : (!(hasKey (newAttrs c) k)) = true := by simp [hasKey, hn]
      have hd : (c :: r).dropWhile (fun c => !(hasKey (newAttrs c) k))
          = r.dropWhile (fun c => !(hasKey (newAttrs c) k)) := by
        rw [List.dropWhile_cons]; simp only [hk, if_true]
      rw [hd]
      have : stepE k none c = none := by simp [stepE, hn]
      rw [this]; exact ih

theorem dropWhile_eq_nil_of_all {α : Type} (p : α → Bool) (l : List α)
    (h : ∀ x ∈ l, p x = true) : l.dropWhile p = [] := by
  induction l with
  | nil => rfl
  | cons a r ih =>
    rw [List.dropWhile_cons, if_pos (h a (by simp))]
    exact ih (fun x hx => h x (List.mem_cons_of_mem _ hx))

/-! ## string form vs entry lists -/

theorem joinSep_snoc (es : List Str) (v : Str) (h : es ≠ []) :
    joinSep (es ++ [v]) = joinSep es ++ sep ++ v := by
  induction es with
  | nil => exact absurd rfl h
  | cons x r ih =>
    cases r with
    | nil => simp [joinSep]
    | cons y r' =>
      have := ih (by simp)
      simp only [List.cons_append, joinSep] at this ⊢
      rw [this]; simp [List.append_assoc]

theorem stepS_map_joinSep (k : Key) (acc : Option (List Str)) (c : Call)
    (hne : ∀ es, acc = some es → es ≠ []) :
    stepS k (acc.map joinSep) c = (stepE k acc c).map joinSep ∧
      ∀ es, stepE k acc c = some es → es ≠ [] := by
  unfold stepS stepE
  cases get? (newAttrs c) k with
  | some v =>
    cases acc with
    | none => simp [joinSep]
    | some es => simp [joinSep_snoc es v (hne es rfl)]
  | none =>
    cases acc with
    | none => simp
    | some es => simp [joinSep_snoc es [] (hne es rfl)]

theorem foldl_stepS_map_joinSep (k : Key) (acc : Option (List Str)) (rest : List Call)
    (hne : ∀ es, acc = some es → es ≠ []) :
    rest.foldl (stepS k) (acc.map joinSep) = (rest.foldl (stepE k) acc).map joinSep := by
  induction rest generalizing acc with
  | nil => rfl
  | cons c r ih =>
    simp only [List.foldl_cons]
    obtain ⟨h1, h2⟩ := stepS_map_joinSep k acc c hne
    rw [h1]; exact ih _ h2

/-- the stored string of every key is the `' | '`-join of its entry list. -/
theorem stored_eq_join (k : Key) (c₀ : Call) (rest : List Call) :
    (runChain (c₀ :: rest)).bind (fun a => get? a k)
      = (get? (runChainE c₀ rest) k).map joinSep := by
  rw [runChain_cons, get?_runChainE]
  simp only [Option.bind_some]
  rw [get?_foldl_merge]
  rw [← foldl_stepS_map_joinSep]
  · congr 1
    cases get? (newAttrs c₀) k <;> simp [joinSep]
  · intro es h
    cases hg : get? (newAttrs c₀) k with
    | none => simp [hg] at h
    | some v => simp [hg] at h; subst h; simp

/-! ## split ∘ join -/

theorem startsSep_cons_true (c : Char) (l : Str) (h : startsSep (c :: l) = true) :
    ∃ r, l = '|' :: r := by
  match l, h with
  | c2 :: c3 :: r, h =>
    simp only [startsSep, Bool.and_eq_true, beq_iff_eq] at h
    exact ⟨c3 :: r, by rw [h.1.2]⟩

theorem splitBarAux_noBar (x : Str) (acc : Str) (h : '|' ∉ x) :
    splitBarAux x 0 acc = [acc.reverse ++ x] := by
  induction x generalizing acc with
  | nil => simp [splitBarAux]
  | cons c tl ih =>
    have hs : startsSep (c :: tl) = false := by
      cases hh : startsSep (c :: tl) with
      | false => rfl
      | true =>
        obtain ⟨r, hr⟩ := startsSep_cons_true c tl hh
        subst hr; simp at h
    have ht : '|' ∉ tl := fun hm => h (List.mem_cons_of_mem _ hm)
    simp only [splitBarAux, hs]
    rw [if_neg (by simp), ih _ ht]
    simp

theorem splitBarAux_sep (t acc : Str) :
    splitBarAux (sep ++ t) 0 acc = acc.reverse :: splitBarAux t 0 [] := by
  simp [sep, splitBarAux, startsSep]

theorem splitBarAux_append_sep (x t acc : Str) (h : '|' ∉ x) :
    splitBarAux (x ++ sep ++ t) 0 acc = (acc.reverse ++ x) :: splitBarAux t 0 [] := by
  induction x generalizing acc with
  | nil => simpa using splitBarAux_sep t acc
  | cons c tl ih =>
    have ht : '|' ∉ tl := fun hm => h (List.mem_cons_of_mem _ hm)
    have hs : startsSep (c :: (tl ++ sep ++ t)) = false := by
      cases hh : startsSep (c :: (tl ++ sep ++ t)) with
      | false => rfl
      | true =>
        obtain ⟨r, hr⟩ := startsSep_cons_true c _ hh
        cases tl with
        | nil => simp [sep] at hr
        | cons d tl' =>
          simp only [List.cons_append, List.cons.injEq] at hr
          rw [hr.1] at h; simp at h
    simp only [List.cons_append, List.append_assoc] at hs ⊢
    simp only [splitBarAux, hs]
    rw [if_neg (by simp)]
    have := ih (c :: acc) ht
    simp only [List.append_assoc] at this
    rw [this]; simp

/-- `split(' | ')` inverts the `' | '`-join when no entry contains `'|'`. -/
theorem splitBar_joinSep (xs : List Str) (hne : xs ≠ []) (h : ∀ x ∈ xs, '|' ∉ x) :
    splitBar (joinSep xs) = xs := by
  induction xs with
  | nil => exact absurd rfl hne
  | cons x r ih =>
    cases r with
    | nil =>
      simp only [joinSep, splitBar]
      rw [splitBarAux_noBar x [] (h x (by simp))]; simp
    | cons y r' =>
      simp only [joinSep, splitBar]
      rw [splitBarAux_append_sep x _ [] (h x (by simp))]
      have := ih (by simp) (fun z hz => h z (List.mem_cons_of_mem _ hz))
      simp only [splitBar] at this
      rw [this]; simp

/-! ## padding and stripping -/

/-- "no trailing space". -/
def NoTrailingSpace (v : Str) : Prop := v.getLast? ≠ some ' '

theorem dropWhile_replicate_append (n : Nat) (l : Str) :
    (List.replicate n ' ' ++ l).dropWhile (fun c => c == ' ') = l.dropWhile (fun c => c == ' ') := by
  induction n with
  | zero => simp
  | succ n ih => simp [List.replicate_succ, ih]

theorem rstrip_padRight (w : Nat) (v : Str) (h : NoTrailingSpace v) :
    rstrip (padRight w v) = v := by
  unfold rstrip padRight
  rw [List.reverse_append, List.reverse_replicate, dropWhile_replicate_append]
  have : v.reverse.dropWhile (fun c => c == ' ') = v.reverse := by
    cases hr : v.reverse with
    | nil => rfl
    | cons a l =>
      have ha : a ≠ ' ' := by
        intro hEq
        apply h
        rw [← List.head?_reverse, hr, hEq]; rfl
      simp [ha]
  rw [this, List.reverse_reverse]

theorem bar_not_mem_padRight (w : Nat) (v : Str) (h : '|' ∉ v) : '|' ∉ padRight w v := by
  unfold padRight
  intro hm
  rcases List.mem_append.mp hm with h1 | h1
  · exact h h1
  · have := (List.mem_replicate.mp h1).2
    exact absurd this (by decide)

/-! ## chains from ARBITRARY starting attrs (a first call that brings user attributes) -/

/-- a chain of calls whose first call is handed weights carrying the attrs `a`
    (`none`: `weights=None`, or weights without attrs handling); `runChain` is the
    case `a = none` -/
def runChainFrom (a : Option Attrs) (cs : List Call) : Option Attrs :=
  cs.foldl (fun acc c => some (attributes c acc)) a

theorem runChain_eq_from (cs : List Call) : runChain cs = runChainFrom none cs := rfl

theorem runChainFrom_some (a : Attrs) (cs : List Call) :
    runChainFrom (some a) cs = some (cs.foldl (fun a c => merge a (newAttrs c)) a) := by
  unfold runChainFrom
  induction cs generalizing a with
  | nil => rfl
  | cons c r ih => simp only [List.foldl_cons, attributes]; exact ih _

theorem runChainFrom_append (a : Option Attrs) (xs ys : List Call) :
    runChainFrom a (xs ++ ys) = runChainFrom (runChainFrom a xs) ys := by
  simp [runChainFrom, List.foldl_append]

/-- the stored string of key `k` after a chain from given attrs, as a fold of
    `stepS` (one step per call) -/
theorem get?_runChainFrom_some (a₀ : Attrs) (cs : List Call) (k : Key) :
    (runChainFrom (some a₀) cs).bind (fun a => get? a k) = cs.foldl (stepS k) (get? a₀ k) := by
  rw [runChainFrom_some]
  simp only [Option.bind_some]
  exact get?_foldl_merge k a₀ cs

/-- **a key the given attrs carry**: if its stored string is the `' | '`-join of
    the entries `es₀` (one entry: a plain user value), then after ANY chain of
    calls its stored string is the join of `es₀` followed by exactly one entry
    per call, in call order (`''` for a call whose key set lacks the key) -/
theorem stored_from_present (a₀ : Attrs) (cs : List Call) (k : Key) (es₀ : List Str)
    (h0 : get? a₀ k = some (joinSep es₀)) (hne : es₀ ≠ []) :
    (runChainFrom (some a₀) cs).bind (fun a => get? a k)
      = some (joinSep (es₀ ++ cs.map (entryOf k))) := by
  rw [get?_runChainFrom_some, h0]
  have := foldl_stepS_map_joinSep k (some es₀) cs (fun es h => by cases h; exact hne)
  simp only [Option.map_some] at this
  rw [this, foldl_stepE_some]
  rfl

/-- **a key the given attrs lack**: nothing until the first call that writes it;
    that call stores `'' | entry`, every later call appends one entry -/
theorem stored_from_absent (a₀ : Attrs) (cs : List Call) (k : Key) (h0 : get? a₀ k = none) :
    (runChainFrom (some a₀) cs).bind (fun a => get? a k)
      = match cs.dropWhile (fun c => !(hasKey (newAttrs c) k)) with
        | [] => none
        | c :: r => some (joinSep ([] :: (c :: r).map (entryOf k))) := by
  rw [get?_runChainFrom_some, h0]
  have := foldl_stepS_map_joinSep k none cs (fun es h => by cases h)
  simp only [Option.map_none] at this
  rw [this, foldl_stepE_none]
  cases cs.dropWhile (fun c => !(hasKey (newAttrs c) k)) <;> rfl

/-- the entries a chain from `weights=None` stores under a key its first call
    writes: one per call, in call order -/
theorem stored_chain_present (c₀ : Call) (rest : List Call) (k : Key)
    (hk : hasKey (newAttrs c₀) k = true) :
    stored (c₀ :: rest) k = some (joinSep ((c₀ :: rest).map (entryOf k))) := by
  obtain ⟨v, hv⟩ := Option.isSome_iff_exists.mp hk
  have hE : get? (runChainE c₀ rest) k = some ((c₀ :: rest).map (entryOf k)) := by
    rw [get?_runChainE, hv]
    simp only [Option.map_some, foldl_stepE_some, List.map_cons, List.singleton_append]
    simp [entryOf, hv]
  unfold stored
  rw [stored_eq_join, hE]
  rfl

theorem bar_not_mem_entryOf (c : Call) (k : Key) (h : ∀ v, get? c.raw k = some v → '|' ∉ v) :
    '|' ∉ entryOf k c := by
  cases hr : get? c.raw k with
  | none => rw [entryOf_of_lacks c k hr]; simp
  | some v' =>
    rw [entryOf_of_raw c k v' hr]
    exact bar_not_mem_padRight _ _ (h v' hr)

/-! ## save/load is the identity of the model -/

theorem runOps_eq_runChain (ops : List Op) : runOps ops = runChain (calls ops) := by
  have h : ∀ (acc : Option Attrs) (ops : List Op),
      ops.foldl (fun acc op => match op with
        | .call c => some (attributes c acc)
        | .saveLoad => acc) acc
      = (calls ops).foldl (fun acc c => some (attributes c acc)) acc := by
    intro acc ops
    induction ops generalizing acc with
    | nil => rfl
    | cons op r ih =>
      cases op with
      | call c => simp only [List.foldl_cons, calls]; exact ih _
      | saveLoad => simp only [List.foldl_cons, calls]; exact ih _
  exact h none ops

end Pyndl.Attrs
