import PyndlProofs.Kernel
import Mathlib.Data.List.Count
import Mathlib.Algebra.BigOperators.Group.List.Basic

set_option linter.unusedSectionVars false
set_option linter.unusedSimpArgs false

namespace Pyndl
open List

variable {R : Type} [CommRing R]
variable {ι κ : Type} [DecidableEq ι] [DecidableEq κ]

theorem rwLearn_cons (α : ι → R) (β₁ β₂ lam : R) (W : κ → ι → R) (e : Event ι κ) (es : List (Event ι κ)) :
    rwLearn α β₁ β₂ lam W (e :: es) = rwLearn α β₁ β₂ lam (rwStep α β₁ β₂ lam W e) es := rfl

theorem rwLearn_append (α : ι → R) (β₁ β₂ lam : R) (W : κ → ι → R) (xs ys : List (Event ι κ)) :
    rwLearn α β₁ β₂ lam W (xs ++ ys) = rwLearn α β₁ β₂ lam (rwLearn α β₁ β₂ lam W xs) ys := by
  simp [rwLearn, List.foldl_append]

theorem sum_map_add (w v : ι → R) (cs : List ι) :
    (cs.map (fun c => w c + v c)).sum = (cs.map w).sum + (cs.map v).sum := by
  induction cs with
  | nil => simp
  | cons c cs ih => simp [ih]; ring

theorem sum_map_mul (k : R) (w : ι → R) (cs : List ι) :
    (cs.map (fun c => k * w c)).sum = k * (cs.map w).sum := by
  induction cs with
  | nil => simp
  | cons c cs ih => simp [ih]; ring

/-- affine in the initial row: λ-learning of `w + v` = λ-learning of `w` plus 0-learning of `v` -/
theorem rwRow_add (α : ι → R) (β₁ β₂ lam : R) (w v : ι → R) (cs : List ι) (p : Bool) (c : ι) :
    rwRow α β₁ β₂ lam (fun c => w c + v c) cs p c
      = rwRow α β₁ β₂ lam w cs p c + rwRow α β₁ β₂ 0 v cs p c := by
  simp only [rwRow_apply, rwU, sum_map_add]
  cases p <;> simp <;> ring

theorem rwRow_smul (α : ι → R) (β₁ β₂ lam k : R) (w : ι → R) (cs : List ι) (p : Bool) (c : ι) :
    rwRow α β₁ β₂ (k * lam) (fun c => k * w c) cs p c = k * rwRow α β₁ β₂ lam w cs p c := by
  simp only [rwRow_apply, rwU, sum_map_mul]
  cases p <;> simp <;> ring

theorem rwLearn_add (α : ι → R) (β₁ β₂ lam : R) (W V : κ → ι → R) (es : List (Event ι κ)) (o : κ) (c : ι) :
    rwLearn α β₁ β₂ lam (fun o c => W o c + V o c) es o c
      = rwLearn α β₁ β₂ lam W es o c + rwLearn α β₁ β₂ 0 V es o c := by
  induction es generalizing W V with
  | nil => rfl
  | cons e es ih =>
    simp only [rwLearn_cons]
    have : rwStep α β₁ β₂ lam (fun o c => W o c + V o c) e
        = fun o c => rwStep α β₁ β₂ lam W e o c + rwStep α β₁ β₂ 0 V e o c := by
      funext o c
      simp only [rwStep]
      exact rwRow_add α β₁ β₂ lam (W o) (V o) e.cues _ c
    rw [this, ih]

theorem rwLearn_smul (α : ι → R) (β₁ β₂ lam k : R) (W : κ → ι → R) (es : List (Event ι κ)) (o : κ) (c : ι) :
    rwLearn α β₁ β₂ (k * lam) (fun o c => k * W o c) es o c = k * rwLearn α β₁ β₂ lam W es o c := by
  induction es generalizing W with
  | nil => rfl
  | cons e es ih =>
    simp only [rwLearn_cons]
    have : rwStep α β₁ β₂ (k * lam) (fun o c => k * W o c) e
        = fun o c => k * rwStep α β₁ β₂ lam W e o c := by
      funext o c
      simp only [rwStep]
      exact rwRow_smul α β₁ β₂ lam k (W o) e.cues _ c
    rw [this, ih]

/-- renaming: values read at renamed positions are the original values -/
theorem rwLearn_rename {ι' κ' : Type} [DecidableEq ι'] [DecidableEq κ']
    (f : ι → ι') (g : κ → κ') (hf : Function.Injective f) (hg : Function.Injective g)
    (α : ι → R) (α' : ι' → R) (hα : ∀ c, α' (f c) = α c) (β₁ β₂ lam : R)
    (W : κ → ι → R) (W' : κ' → ι' → R) (hW : ∀ o c, W' (g o) (f c) = W o c)
    (es : List (Event ι κ)) (o : κ) (c : ι) :
    rwLearn α' β₁ β₂ lam W' (es.map (fun e => ⟨e.cues.map f, e.outcomes.map g⟩)) (g o) (f c)
      = rwLearn α β₁ β₂ lam W es o c := by
  induction es generalizing W W' with
  | nil => exact hW o c
  | cons e es ih =>
    simp only [List.map_cons, rwLearn_cons]
    apply ih
    intro o c
    simp only [rwStep, rwRow_apply, rwU]
    have h1 : (e.cues.map f).count (f c) = e.cues.count c := List.count_map_of_injective _ f hf c
    have h2 : ((e.cues.map f).map (W' (g o))).sum = (e.cues.map (W o)).sum := by
      rw [List.map_map]; congr 1; apply List.map_congr_left; intro x _; exact hW o x
    have h3 : decide (g o ∈ e.outcomes.map g) = decide (o ∈ e.outcomes) := by
      congr 1; exact propext (List.mem_map_of_injective hg)
    rw [h1, h2, h3, hW, hα]

theorem rwRow_beta2_zero (α : ι → R) (β₁ lam : R) (w : ι → R) (cs : List ι) :
    rwRow α β₁ 0 lam w cs false = w := by
  funext c; simp [rwRow_apply, rwU]

theorem rwRow_alpha_zero (β₁ β₂ lam : R) (w : ι → R) (cs : List ι) (p : Bool) :
    rwRow (fun _ => (0 : R)) β₁ β₂ lam w cs p = w := by
  funext c; simp [rwRow_apply]

theorem rwLearn_alpha_zero (β₁ β₂ lam : R) (W : κ → ι → R) (es : List (Event ι κ)) :
    rwLearn (fun _ => (0 : R)) β₁ β₂ lam W es = W := by
  induction es generalizing W with
  | nil => rfl
  | cons e es ih =>
    rw [rwLearn_cons]
    have : rwStep (fun _ => (0 : R)) β₁ β₂ lam W e = W := by
      funext o; simp only [rwStep]; exact rwRow_alpha_zero β₁ β₂ lam (W o) e.cues _
    rw [this, ih]

/-- **per-cue α = 0**: a cue whose learning rate is 0 keeps its weight in every
    row, whatever the other cues' learning rates are -/
theorem rwLearn_alpha_zero_cue (α : ι → R) (β₁ β₂ lam : R) (W : κ → ι → R) (es : List (Event ι κ))
    (o : κ) (c : ι) (h : α c = 0) : rwLearn α β₁ β₂ lam W es o c = W o c := by
  induction es generalizing W with
  | nil => rfl
  | cons e es ih =>
    rw [rwLearn_cons, ih]
    simp only [rwStep, rwRow_apply, h, zero_mul, mul_zero, add_zero]

/-- **β₂ = 0, sequence form**: the events that do not contain outcome `o` can be
    removed from the sequence without changing row `o` -/
theorem rwLearn_beta2_zero_filter (α : ι → R) (β₁ lam : R) (W : κ → ι → R) (es : List (Event ι κ)) (o : κ) :
    rwLearn α β₁ 0 lam W es o
      = rwLearn α β₁ 0 lam W (es.filter (fun e => decide (o ∈ e.outcomes))) o := by
  rw [rwLearn_row, rwLearn_row]
  generalize W o = r
  induction es generalizing r with
  | nil => rfl
  | cons e es ih =>
    by_cases h : o ∈ e.outcomes
    · rw [List.filter_cons_of_pos (by simpa using h)]
      simp only [List.foldl_cons]
      exact ih _
    · rw [List.filter_cons_of_neg (by simpa using h)]
      simp only [List.foldl_cons, h, decide_false]
      rw [rwRow_beta2_zero]
      exact ih _

/-- … in particular a row whose outcome occurs in no event is untouched -/
theorem rwLearn_beta2_zero_absent (α : ι → R) (β₁ lam : R) (W : κ → ι → R) (es : List (Event ι κ)) (o : κ)
    (h : ∀ e ∈ es, o ∉ e.outcomes) : rwLearn α β₁ 0 lam W es o = W o := by
  rw [rwLearn_beta2_zero_filter]
  have : es.filter (fun e => decide (o ∈ e.outcomes)) = [] := by
    apply List.filter_eq_nil_iff.mpr
    intro e he
    simpa using h e he
  rw [this]
  rfl

end Pyndl
