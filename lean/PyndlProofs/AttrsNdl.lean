/-
  PyndlProofs.AttrsNdl — the learner model composed with the attribute model
  (C16 "the attributes report the ACTUAL number of trained events and the event
  file of the call and … its alpha, betas, lambda and method").

  `ndl.ndl` (ndl.py:209-215, 299-305) passes to `_attributes` the count
  `number_events` the chunk writer returned (cross-checked with the counting
  pass), the `events` path, `alpha`, `betas`, `lambda_`, `method` of THIS call and
  the attrs of the weights it was given.  `ndlCallMeta` is that composition on
  the models: `ndlCall` (PyndlModel/Ndl.lean) for the weights and the count,
  `mkCall .ndl` + `attributes` (PyndlModel/Attrs.lean) for the metadata.

  1. `ndlCall_count`: the count a successful `ndlCall` / `ndlModel` returns IS the
     number of events of the file — no hypothesis (whatever the policy, the
     chunk size, the given weights);
  2. `ndlChainMeta_attrs`: the attrs a chain of `ndl.ndl` model calls ends with
     are the attribute model's chain over the calls `mkCall .ndl …` whose
     `number_events` is the decimal string of `es_i.length`;
  3. `ndlChainMeta_reports`: entry `i` of `number_events`, `event_path`,
     `method`, `alpha`, `betas`, `lambda` is that of call `i`.

  TRUSTED (Python-supplied, as in the model of `_attributes`): the `str()` forms
  of alpha, betas, lambda_ (`alphaRepr`, …); `str(number_events)` of an `int` is
  its decimal representation `Nat.toDigits 10`.
-/
import PyndlProofs.Attrs
import PyndlProofs.NdlSpec

set_option linter.unusedSectionVars false
set_option linter.unusedSimpArgs false
set_option linter.unusedVariables false

namespace Pyndl
open List Pyndl.Attrs

/-! ## 1. the count `ndl.ndl` reports is the number of events -/

theorem windowEvents_go_length (p : DupPolicy) (idx : Nat) (win r : List (Event Nat Nat))
    (h : windowEvents.go p idx win = .ok r) : r.length = win.length := by
  induction win generalizing idx r with
  | nil => simp only [windowEvents.go, Except.ok.injEq] at h; subst h; rfl
  | cons e rest ih =>
    simp only [windowEvents.go] at h
    cases h1 : applyPolicy p e with
    | none => rw [h1] at h; cases h
    | some e' =>
      rw [h1] at h
      simp only at h
      cases h2 : windowEvents.go p (idx + 1) rest with
      | error i => rw [h2] at h; cases h
      | ok r' =>
        rw [h2] at h
        simp only [Except.ok.injEq] at h
        subst h
        simp [ih (idx + 1) r' h2]

theorem windowEvents_length (p : DupPolicy) (ids : List (Event Nat Nat)) (per j : Nat) (r : List (Event Nat Nat))
    (h : windowEvents p ids (j * per) ((j + 1) * per) = .ok r) : r.length = (chunkOf per ids j).length := by
  unfold windowEvents at h
  have e : (j + 1) * per - j * per = per := by
    rw [Nat.add_mul, Nat.one_mul, Nat.add_sub_cancel_left]
  rw [e] at h
  exact windowEvents_go_length p _ _ r h

/-- whatever the conversion stage writes, the total it reports on success is
    the sum of the window lengths -/
theorem makeChunks_go_total (magic version : Nat) (p : DupPolicy) (ids : List (Event Nat Nat)) (per : Nat)
    (fuel j : Nat) (files : List Bytes) (total : Nat) (f : List Bytes) (t : Nat)
    (h : makeChunks.go magic version p ids per fuel j files total = .ok (f, t)) :
    t = total + ((List.range' j fuel).map (fun k => (chunkOf per ids k).length)).sum := by
  induction fuel generalizing j files total with
  | zero =>
    simp only [makeChunks.go, Except.ok.injEq, Prod.mk.injEq] at h
    simp [h.2]
  | succ fuel ih =>
    simp only [makeChunks.go] at h
    unfold writeEvents at h
    by_cases hov : (j + 1) * per < j * per ∨ 4294967296 ≤ (j + 1) * per - j * per
    · rw [if_pos hov] at h; simp only at h; cases h
    rw [if_neg hov] at h
    cases hw : windowEvents p ids (j * per) ((j + 1) * per) with
    | error idx => rw [hw] at h; simp only at h; cases h
    | ok win =>
      have hl := windowEvents_length p ids per j win hw
      rw [hw] at h
      simp only at h
      by_cases h0 : win.length = 0
      · rw [if_pos h0] at h
        simp only at h
        have := ih (j + 1) files total h
        rw [this, List.range'_succ, List.map_cons, List.sum_cons, ← hl, h0]
        omega
      · rw [if_neg h0] at h
        by_cases h1 : win.length ≠ (j + 1) * per - j * per
        · rw [if_pos h1] at h
          simp only at h
          have := ih (j + 1) _ (total + win.length) h
          rw [this, List.range'_succ, List.map_cons, List.sum_cons, ← hl]
          omega
        · rw [if_neg h1] at h
          simp only at h
          have := ih (j + 1) _ (total + win.length) h
          rw [this, List.range'_succ, List.map_cons, List.sum_cons, ← hl]
          omega

theorem makeChunks_total (magic version : Nat) (p : DupPolicy) (ids : List (Event Nat Nat)) (per : Nat)
    (hp : 1 ≤ per) (f : List Bytes) (t : Nat) (h : makeChunks magic version p ids per = .ok (f, t)) :
    t = ids.length := by
  unfold makeChunks at h
  split at h
  · cases h
  have := makeChunks_go_total magic version p ids per _ 0 [] 0 f t h
  rw [this, Nat.zero_add, ← List.range_eq_range']
  exact sum_chunk_lengths ids per hp

section
variable {R : Type} [Add R] [Sub R] [Mul R] [Zero R]

/-- the count `ndlCore` returns is the number of events -/
theorem ndlCore_count (magic version : Nat) (cfg : NdlCfg) (alpha β₁ β₂ lam : R) (cues outs : List String)
    (vals : Array R) (es : List (Event String String)) (w : LW R) (n : Nat)
    (h : ndlCore magic version cfg alpha β₁ β₂ lam cues outs vals es = .ok (w, n)) : n = es.length := by
  unfold ndlCore at h
  by_cases h1 : cfg.perFile < 2
  · simp only [h1, if_true] at h; cases h
  · simp only [h1, if_false] at h
    cases hmk : makeChunks magic version cfg.policy (es.map (toIds cues outs)) cfg.perFile with
    | error e => simp only [hmk] at h; cases h
    | ok ft =>
      obtain ⟨files, total⟩ := ft
      simp only [hmk] at h
      have ht := makeChunks_total magic version cfg.policy _ cfg.perFile (by omega) files total hmk
      rw [List.length_map] at ht
      cases hdec : decodeAll magic version files with
      | error e => simp only [hdec] at h; cases h
      | ok chunks =>
        simp only [hdec] at h
        cases hmeth : cfg.method with
        | threading =>
          simp only [hmeth] at h
          split at h
          · cases h
          · simp only [Except.ok.injEq, Prod.mk.injEq] at h
            rw [← h.2, ht]
        | openmp =>
          simp only [hmeth] at h
          split at h
          · cases h
          · split at h
            · cases h
            · simp only [Except.ok.injEq, Prod.mk.injEq] at h
              rw [← h.2, ht]

/-- **the count `ndlModel` returns is the number of events of the file**, whenever
    it returns — no hypothesis on policy, sizes, method or given weights -/
theorem ndlModel_count (magic version : Nat) (cfg : NdlCfg) (alpha β₁ β₂ lam : R) (W0 : Option (LW R))
    (es : List (Event String String)) (w : LW R) (n : Nat)
    (h : ndlModel magic version cfg alpha β₁ β₂ lam W0 es = .ok (w, n)) : n = es.length := by
  unfold ndlModel at h
  rcases hcn : countNames es with ⟨cuesNew, outsNew⟩
  rw [hcn] at h
  simp only at h
  cases W0 with
  | none => exact ndlCore_count _ _ _ _ _ _ _ _ _ _ _ _ _ h
  | some w0 => exact ndlCore_count _ _ _ _ _ _ _ _ _ _ _ _ _ h

theorem ndlCall_count (magic version : Nat) (cfg : NdlCfg) (alpha β₁ β₂ lam : R) (W0 : Option (LW R))
    (es : List (Event String String)) (w : LW R) (n : Nat)
    (h : ndlCall magic version cfg alpha β₁ β₂ lam W0 es = .ok (w, n)) : n = es.length := by
  unfold ndlCall at h
  cases hm : ndlModel magic version cfg alpha β₁ β₂ lam W0 es with
  | error e => rw [hm] at h; cases h
  | ok r =>
    obtain ⟨w', n'⟩ := r
    rw [hm] at h
    simp only at h
    have hn := ndlModel_count magic version cfg alpha β₁ β₂ lam W0 es w' n' hm
    split at h
    · split at h
      · cases h
      · split at h
        · simp only [Except.ok.injEq, Prod.mk.injEq] at h; rw [← h.2]; exact hn
        · cases h
    · simp only [Except.ok.injEq, Prod.mk.injEq] at h; rw [← h.2]; exact hn

/-! ## 2. the composition: one `ndl.ndl` call with its metadata, and chains -/

/-- `str(method)` -/
def methodStr : Method → Str
  | .threading => "threading".toList
  | .openmp => "openmp".toList

/-- `str(n)` of a Python `int` ≥ 0: its decimal digits -/
def decStr (n : Nat) : Str := Nat.toDigits 10 n

/-- one call `ndl.ndl(events=path, alpha, betas, lambda_, method=…, weights=…)`:
    its numeric arguments for the learner model, the content of the event file,
    and the `str()` forms Python supplies for the metadata -/
structure NdlRun (R : Type) where
  cfg : NdlCfg
  alpha : R
  β₁ : R
  β₂ : R
  lam : R
  path : Str
  events : List (Event String String)
  alphaRepr : Str
  betasRepr : Str
  lambdaRepr : Str
  env : Env

/-- what `ndl.ndl` hands to `_attributes` (ndl.py:304-305) when the chunk
    writer reported `n` events -/
def NdlRun.input (r : NdlRun R) (n : Nat) : CallInput :=
  { path := some r.path, numberEvents := decStr n, alphaScalar := true, alphaRepr := r.alphaRepr,
    betas := r.betasRepr, lambda := r.lambdaRepr, method := methodStr r.cfg.method, env := r.env }

/-- the `_attributes` call of a run that trained on ALL events of its file -/
def NdlRun.call (r : NdlRun R) : Call := mkCall .ndl (r.input r.events.length)

/-- **`ndl.ndl` with its metadata**: weights and count from the learner model
    `ndlCall`; attrs from the attribute model, fed with THAT count and with the
    attrs of the given weights (ndl.py:299-305) -/
def ndlCallMeta (magic version : Nat) (r : NdlRun R) (s : Option (LW R × Attrs)) : Except Err (LW R × Attrs) :=
  match ndlCall magic version r.cfg r.alpha r.β₁ r.β₂ r.lam (s.map (·.1)) r.events with
  | .error e => .error e
  | .ok (w, n) => .ok (w, attributes (mkCall .ndl (r.input n)) (s.map (·.2)))

/-- a chain of `ndl.ndl` calls, each continuing from the weights (and attrs) the
    previous one returned; `s`: what the first call is given -/
def ndlChainMeta (magic version : Nat) : Option (LW R × Attrs) → List (NdlRun R) → Except Err (Option (LW R × Attrs))
  | s, [] => .ok s
  | s, r :: rs =>
    match ndlCallMeta magic version r s with
    | .error e => .error e
    | .ok x => ndlChainMeta magic version (some x) rs

/-- one call: the attrs it returns are the attribute model's, for the call
    whose `number_events` is the decimal string of the number of events -/
theorem ndlCallMeta_attrs (magic version : Nat) (r : NdlRun R) (s : Option (LW R × Attrs)) (w : LW R) (a : Attrs)
    (h : ndlCallMeta magic version r s = .ok (w, a)) : a = attributes r.call (s.map (·.2)) := by
  unfold ndlCallMeta at h
  cases hc : ndlCall magic version r.cfg r.alpha r.β₁ r.β₂ r.lam (s.map (·.1)) r.events with
  | error e => rw [hc] at h; cases h
  | ok x =>
    obtain ⟨w', n⟩ := x
    rw [hc] at h
    simp only [Except.ok.injEq, Prod.mk.injEq] at h
    have hn := ndlCall_count magic version r.cfg r.alpha r.β₁ r.β₂ r.lam (s.map (·.1)) r.events w' n hc
    rw [← h.2, hn]
    rfl

/-- **the attrs of a chain of `ndl.ndl` model calls are the attribute model's
    chain over the calls `NdlRun.call`** (count = number of events of each
    file), from any starting weights / attrs, for chains of any length -/
theorem ndlChainMeta_attrs (magic version : Nat) (rs : List (NdlRun R)) (s s' : Option (LW R × Attrs))
    (h : ndlChainMeta magic version s rs = .ok s') :
    s'.map (·.2) = runChainFrom (s.map (·.2)) (rs.map NdlRun.call) ∧ (rs ≠ [] → s'.isSome) := by
  induction rs generalizing s with
  | nil =>
    simp only [ndlChainMeta, Except.ok.injEq] at h
    subst h
    exact ⟨rfl, fun hne => absurd rfl hne⟩
  | cons r rs ih =>
    simp only [ndlChainMeta] at h
    cases hc : ndlCallMeta magic version r s with
    | error e => rw [hc] at h; cases h
    | ok x =>
      obtain ⟨w, a⟩ := x
      rw [hc] at h
      simp only at h
      have ha := ndlCallMeta_attrs magic version r s w a hc
      obtain ⟨i1, i2⟩ := ih (some (w, a)) h
      refine ⟨?_, fun _ => ?_⟩
      · rw [i1]
        simp only [Option.map_some, List.map_cons, runChainFrom, List.foldl_cons, ha]
      · cases rs with
        | nil =>
          simp only [ndlChainMeta, Except.ok.injEq] at h
          rw [← h]; rfl
        | cons r' rs' => exact i2 (by simp)

end

/-! ## 3. what the entries say -/

theorem isDigit_ne (c : Char) (h : c.isDigit = true) : c ≠ '|' ∧ c ≠ ' ' := by
  constructor <;> (intro hc; subst hc; revert h; decide)

theorem bar_not_mem_decStr (n : Nat) : '|' ∉ decStr n := by
  intro h
  exact (isDigit_ne _ (Nat.isDigit_of_mem_toDigits (by decide) (by decide) h)).1 rfl

theorem noTrailingSpace_decStr (n : Nat) : NoTrailingSpace (decStr n) := by
  intro h
  have hm : ' ' ∈ decStr n := List.mem_of_getLast? h
  exact (isDigit_ne _ (Nat.isDigit_of_mem_toDigits (by decide) (by decide) hm)).2 rfl

theorem bar_not_mem_methodStr (m : Method) : '|' ∉ methodStr m := by cases m <;> decide

theorem noTrailingSpace_methodStr (m : Method) : NoTrailingSpace (methodStr m) := by
  cases m <;> (unfold NoTrailingSpace; decide)

section
variable {R : Type}

/-- the raw (unpadded) values an `ndl.ndl` run reports under the six keys of the property -/
theorem NdlRun.call_raw (r : NdlRun R) :
    get? r.call.raw .numberEvents = some (decStr r.events.length) ∧
    get? r.call.raw .eventPath = some r.path ∧
    get? r.call.raw .method = some (methodStr r.cfg.method) ∧
    get? r.call.raw .alpha = some r.alphaRepr ∧
    get? r.call.raw .betas = some r.betasRepr ∧
    get? r.call.raw .lambda = some r.lambdaRepr := by
  simp [NdlRun.call, NdlRun.input, mkCall, Call.raw, rawNdl, get?, alphaStr, eventPathOf]

/-- reading the entries of a key back: split at `' | '`, padding stripped -/
theorem entries_joinSep_entryOf (cs : List Call) (k : Key) (hne : cs ≠ []) (vals : Call → Str)
    (hraw : ∀ c ∈ cs, get? c.raw k = some (vals c))
    (hbar : ∀ c ∈ cs, '|' ∉ vals c) (hnt : ∀ c ∈ cs, NoTrailingSpace (vals c)) :
    entries (joinSep (cs.map (entryOf k))) = cs.map vals := by
  unfold entries
  rw [splitBar_joinSep _ (by simpa using hne)]
  · rw [List.map_map]
    apply List.map_congr_left
    intro c hc
    simp only [Function.comp]
    rw [entryOf_of_raw c k _ (hraw c hc), rstrip_padRight _ _ (hnt c hc)]
  · intro x hx
    obtain ⟨c, hc, rfl⟩ := List.mem_map.mp hx
    apply bar_not_mem_entryOf
    intro v hv
    rw [hraw c hc] at hv
    cases hv
    exact hbar c hc

/-- after a chain from `weights=None`: under a key every call writes, the
    entries read back are the calls' values, one per call, in call order -/
theorem chain_entries (c₀ : Call) (rest : List Call) (k : Key) (vals : Call → Str) (a : Attrs)
    (ha : runChain (c₀ :: rest) = some a)
    (hraw : ∀ c ∈ c₀ :: rest, get? c.raw k = some (vals c))
    (hbar : ∀ c ∈ c₀ :: rest, '|' ∉ vals c) (hnt : ∀ c ∈ c₀ :: rest, NoTrailingSpace (vals c)) :
    (get? a k).map entries = some ((c₀ :: rest).map vals) := by
  have hk : hasKey (newAttrs c₀) k = true := by
    rw [hasKey_newAttrs]
    simp [hasKey, hraw c₀ (by simp)]
  have hs := stored_chain_present c₀ rest k hk
  unfold stored at hs
  rw [ha] at hs
  simp only [Option.bind_some] at hs
  rw [hs, Option.map_some, entries_joinSep_entryOf (c₀ :: rest) k (by simp) vals hraw hbar hnt]

end

end Pyndl
