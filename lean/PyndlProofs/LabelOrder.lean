/-
  PyndlProofs.LabelOrder — the learned weights do not depend on the ORDER in
  which the counting stage enumerates the names (= the id maps), nor on the
  order of the ids inside an event.

  `ndl.ndl` takes its id maps from `count.cues_outcomes(events, n_jobs=…)`:
  `cues = list(cues.keys())`.  For `n_jobs = 1` the keys come in order of first
  occurrence (`countNames`, what `ndlModel` fixes); for `n_jobs > 1` the
  per-process `Counter`s are merged and the key order is another duplicate-free
  enumeration of the same names.  With `remove_duplicates=True` the writer
  iterates over `set(cue_ids)`: the order of the de-duplicated ids inside an
  event is hash order.  `ndlModelWith` takes both as PARAMETERS; the theorems
  below hold for all of them, so "independent of `n_jobs` of the counting stage
  / of `PYTHONHASHSEED`" is a theorem about the generalised model and
  `ndlModel` is one instance (`ndlModelWith_countNames`).
-/
import PyndlProofs.NdlCall
import PyndlProofs.PermEvents

set_option linter.unusedSectionVars false
set_option linter.unusedVariables false

namespace Pyndl
open List

variable {R : Type} [CommRing R]

/-- `ndl.ndl` from scratch with GIVEN label lists `cues`, `outs` (the key order of
    the counting stage) and a reordering `reorder` of the ids inside every event
    (the iteration order of `set(ids)`) -/
def ndlModelWith (reorder : Event Nat Nat → Event Nat Nat) (magic version : Nat) (cfg : NdlCfg)
    (alpha β₁ β₂ lam : R) (cues outs : List String) (es : List (Event String String)) :
    Except Err (LW R × Nat) :=
  ndlCoreWith reorder magic version cfg alpha β₁ β₂ lam cues outs
    (Array.replicate (outs.length * cues.length) 0) es

/-- `ndlModel` is the instance "first-occurrence order, ids as written" -/
theorem ndlModelWith_countNames (magic version : Nat) (cfg : NdlCfg) (alpha β₁ β₂ lam : R)
    (es : List (Event String String)) :
    ndlModelWith id magic version cfg alpha β₁ β₂ lam (countNames es).1 (countNames es).2 es
      = ndlModel magic version cfg alpha β₁ β₂ lam none es := by
  unfold ndlModelWith
  rw [ndlCoreWith_id, ndlModel_none]

/-- **`ndl.ndl` = specification for EVERY label order and EVERY order of the ids
    inside an event.**  `cues`, `outs`: any lists that contain the names of the
    events (the real ones are duplicate-free enumerations of exactly these names;
    neither is needed); `reorder`: any function that permutes the cues and the
    outcomes of an event.  The result is labelled with the given lists and its
    value at EVERY (outcome name, cue name) is the specification on the
    policy-processed events — the same right-hand side as in `ndlModel_eq_spec`,
    which mentions neither `cues`, `outs` nor `reorder`. -/
theorem ndlModelWith_eq_spec (reorder : Event Nat Nat → Event Nat Nat)
    (hre : ∀ e, (reorder e).cues ~ e.cues ∧ (reorder e).outcomes ~ e.outcomes)
    (magic version : Nat) (hm : magic < 4294967296) (hv : version < 4294967296)
    (cfg : NdlCfg) (alpha β₁ β₂ lam : R) (cues outs : List String) (hcfg : CfgOK cfg outs.length)
    (hnc : cues.length < 4294967296) (hno : outs.length < 4294967296)
    (es es' : List (Event String String)) (hp : applyPolicyAll cfg.policy es = some es')
    (hmemc : ∀ e ∈ es, ∀ c ∈ e.cues, c ∈ cues) (hmemo : ∀ e ∈ es, ∀ o ∈ e.outcomes, o ∈ outs)
    (hn : es.length < 4294967296)
    (hpe : ∀ e ∈ es, e.cues.length < 4294967296 ∧ e.outcomes.length < 4294967296) :
    ∃ w, ndlModelWith reorder magic version cfg alpha β₁ β₂ lam cues outs es = .ok (w, es.length) ∧
      w.cues = cues ∧ w.outcomes = outs ∧
      ∀ o c, w.get o c = rwLearn (fun _ => alpha) β₁ β₂ lam (fun _ _ => (0 : R)) es' o c := by
  obtain ⟨vals', hrun, hget⟩ := ndlCoreWith_spec reorder hre magic version hm hv cfg alpha β₁ β₂ lam cues outs
    hcfg hnc hno (Array.replicate (outs.length * cues.length) 0) (by simp [Nat.mul_comm])
    es es' hp hmemc hmemo hn hpe (fun _ _ => 0) (fun o c _ _ => by rw [rowFn_replicate_zero])
  have hes' : ∀ e' ∈ es', (∀ c ∈ e'.cues, c ∈ cues) ∧ (∀ o ∈ e'.outcomes, o ∈ outs) := by
    intro e' he'
    obtain ⟨e, he, hpe'⟩ := applyPolicyAll_mem cfg.policy es es' hp e' he'
    obtain ⟨s1, s2, _, _⟩ := applyPolicy_sub cfg.policy e e' hpe'
    exact ⟨fun c hc => hmemc e he c ((s1 c).mp hc), fun o ho => hmemo e he o ((s2 o).mp ho)⟩
  refine ⟨⟨outs, cues, vals'⟩, hrun, rfl, rfl, ?_⟩
  intro o c
  by_cases ho : o ∈ outs
  · by_cases hc : c ∈ cues
    · exact hget o c ho hc
    · rw [LW.get_not_cue _ o c hc, rwLearn_unseen_cue]
      intro e he hce
      exact hc ((hes' e he).1 c hce)
  · rw [LW.get_not_outcome _ o c ho]
    have := rwLearn_unseen_outcome (fun _ => alpha) β₁ β₂ lam (fun _ _ => (0 : R)) es' o
      (fun e he hoe => ho ((hes' e he).2 o hoe)) rfl
    rw [this]

/-- **independence of the counting order and of the hash seed**: for label lists
    that are PERMUTATIONS of the names in first-occurrence order (what any
    `n_jobs` of the counting stage produces) and any order of the ids inside the
    events, the generalised model and `ndlModel` both succeed, report the same
    number of events, and denote the SAME weight function — only the order of
    the labels (rows / columns of the array) differs. -/
theorem ndlModelWith_order_irrelevant (reorder : Event Nat Nat → Event Nat Nat)
    (hre : ∀ e, (reorder e).cues ~ e.cues ∧ (reorder e).outcomes ~ e.outcomes)
    (magic version : Nat) (hm : magic < 4294967296) (hv : version < 4294967296)
    (cfg : NdlCfg) (alpha β₁ β₂ lam : R) (es es' : List (Event String String))
    (cues outs : List String) (hpc : cues ~ (countNames es).1) (hpo : outs ~ (countNames es).2)
    (hcfg : CfgOK cfg (countNames es).2.length)
    (hp : applyPolicyAll cfg.policy es = some es') (hfit : Fits32 es) :
    ∃ w w₀, ndlModelWith reorder magic version cfg alpha β₁ β₂ lam cues outs es = .ok (w, es.length) ∧
      ndlModel magic version cfg alpha β₁ β₂ lam none es = .ok (w₀, es.length) ∧
      w.cues = cues ∧ w.outcomes = outs ∧
      ∀ o c, w.get o c = w₀.get o c := by
  obtain ⟨w₀, h₀, g₀⟩ := ndlModel_eq_spec magic version hm hv cfg alpha β₁ β₂ lam es es' hcfg hp hfit
  obtain ⟨w, h, lc, lo, g⟩ := ndlModelWith_eq_spec reorder hre magic version hm hv cfg alpha β₁ β₂ lam cues outs
    (by rw [hpo.length_eq]; exact hcfg) (by rw [hpc.length_eq]; exact hfit.nCues)
    (by rw [hpo.length_eq]; exact hfit.nOuts) es es' hp
    (fun e he c hc => hpc.mem_iff.mpr ((countNames_mem es e he).1 c hc))
    (fun e he o ho => hpo.mem_iff.mpr ((countNames_mem es e he).2 o ho))
    hfit.nEvents hfit.perEvent
  exact ⟨w, w₀, h, h₀, lc, lo, fun o c => by rw [g o c, g₀ o c]⟩

/-! ## the same for events that differ in the order INSIDE the events

`create_event_file(remove_duplicates=True)` writes `set(cues)`, i.e. the real
event file agrees with the model's only up to the order of the cues and of the
outcomes inside each event (`EventsPerm`).  The generalised model on ANY such
list, with any label order and any id order, denotes the same weights. -/

/-- **`EventsPerm` lists give the same `ndl.ndl` weights.**  `es₁`: the events as
    the models have them; `es₂`: any list that agrees with it event by event up
    to the order inside the events (`h`); label lists `cues`, `outs`: any
    permutations of the names (of either list — they have the same names);
    `reorder`: any per-event reordering of the ids.  All hypotheses are on `es₁`.
    Then the generalised model on `es₂` succeeds, is labelled as given, and is at
    every pair of names the specification on the policy-processed `es₁`. -/
theorem ndlModelWith_events_perm (reorder : Event Nat Nat → Event Nat Nat)
    (hre : ∀ e, (reorder e).cues ~ e.cues ∧ (reorder e).outcomes ~ e.outcomes)
    (magic version : Nat) (hm : magic < 4294967296) (hv : version < 4294967296)
    (cfg : NdlCfg) (alpha β₁ β₂ lam : R) (es₁ es₁' es₂ : List (Event String String)) (h : EventsPerm es₁ es₂)
    (cues outs : List String) (hpc : cues ~ (countNames es₁).1) (hpo : outs ~ (countNames es₁).2)
    (hcfg : CfgOK cfg (countNames es₁).2.length)
    (hp : applyPolicyAll cfg.policy es₁ = some es₁') (hfit : Fits32 es₁) :
    ∃ w, ndlModelWith reorder magic version cfg alpha β₁ β₂ lam cues outs es₂ = .ok (w, es₂.length) ∧
      w.cues = cues ∧ w.outcomes = outs ∧
      ∀ o c, w.get o c = rwLearn (fun _ => alpha) β₁ β₂ lam (fun _ _ => (0 : R)) es₁' o c := by
  obtain ⟨es₂', hp₂, hperm'⟩ := applyPolicyAll_perm_some cfg.policy es₁ es₂ es₁' h hp
  obtain ⟨pc, po⟩ := countNames_perm h
  have hfit₂ := fits32_perm h hfit
  obtain ⟨w, hw, lc, lo, g⟩ := ndlModelWith_eq_spec reorder hre magic version hm hv cfg alpha β₁ β₂ lam cues outs
    (by rw [hpo.length_eq]; exact hcfg) (by rw [hpc.length_eq]; exact hfit.nCues)
    (by rw [hpo.length_eq]; exact hfit.nOuts) es₂ es₂' hp₂
    (fun e he c hc => hpc.mem_iff.mpr (pc.mem_iff.mpr ((countNames_mem es₂ e he).1 c hc)))
    (fun e he o ho => hpo.mem_iff.mpr (po.mem_iff.mpr ((countNames_mem es₂ e he).2 o ho)))
    hfit₂.nEvents hfit₂.perEvent
  refine ⟨w, hw, lc, lo, fun o c => ?_⟩
  rw [g o c, rwLearn_perm_events (fun _ => alpha) β₁ β₂ lam _ es₁' es₂' hperm']

/-! ## continued learning: the order of the APPENDED labels

With `weights=` the code appends the new names as
`list(set(cues) - set(old_cues))` (ndl.py:175-178): a Python `set` difference,
i.e. in hash order, where `ndlModel (some w)` appends them in order of first
occurrence.  `ndlModelContWith` takes the appended lists as PARAMETERS. -/

/-- `ndl.ndl(weights=w)` with GIVEN lists of appended labels `newCues`, `newOuts`
    (any enumeration of the new names) and a per-event reordering of the ids -/
def ndlModelContWith (reorder : Event Nat Nat → Event Nat Nat) (magic version : Nat) (cfg : NdlCfg)
    (alpha β₁ β₂ lam : R) (w : LW R) (newCues newOuts : List String) (es : List (Event String String)) :
    Except Err (LW R × Nat) :=
  ndlCoreWith reorder magic version cfg alpha β₁ β₂ lam (w.cues ++ newCues) (w.outcomes ++ newOuts)
    (extendVals w.vals w.outcomes.length w.cues.length (w.outcomes ++ newOuts).length (w.cues ++ newCues).length) es

/-- `ndlModel (some w)` is the instance "new names in first-occurrence order, ids as written" -/
theorem ndlModelContWith_first_occurrence (magic version : Nat) (cfg : NdlCfg) (alpha β₁ β₂ lam : R) (w : LW R)
    (es : List (Event String String)) :
    ndlModelContWith id magic version cfg alpha β₁ β₂ lam w
        ((countNames es).1.filter (fun c => !w.cues.contains c))
        ((countNames es).2.filter (fun o => !w.outcomes.contains o)) es
      = ndlModel magic version cfg alpha β₁ β₂ lam (some w) es := by
  unfold ndlModelContWith
  rw [ndlCoreWith_id, ndlModel_some]

theorem filter_new_of_disjoint (old new : List String) (h : ∀ c ∈ new, c ∉ old) :
    new.filter (fun c => !old.contains c) = new := by
  apply List.filter_eq_self.mpr
  intro c hc
  simp [h c hc]

/-- **continued `ndl.ndl` = specification continued, for EVERY order of the
    appended labels and every order of the ids inside an event.**  `newCues`,
    `newOuts`: any lists disjoint from the given labels such that all names of
    the events are labels (the real ones enumerate exactly the new names, each
    once, in hash order; neither exactness nor `Nodup` is needed).  The result
    is labelled `w.cues ++ newCues`, `w.outcomes ++ newOuts` and its value at
    EVERY pair of names is `rwLearn` continued from the weight function `w`
    denotes — a right-hand side that mentions neither the appended lists nor
    `reorder`. -/
theorem ndlModelContWith_eq_spec (reorder : Event Nat Nat → Event Nat Nat)
    (hre : ∀ e, (reorder e).cues ~ e.cues ∧ (reorder e).outcomes ~ e.outcomes)
    (magic version : Nat) (hm : magic < 4294967296) (hv : version < 4294967296)
    (cfg : NdlCfg) (alpha β₁ β₂ lam : R) (w : LW R) (newCues newOuts : List String)
    (hdc : ∀ c ∈ newCues, c ∉ w.cues) (hdo : ∀ o ∈ newOuts, o ∉ w.outcomes)
    (hcfg : CfgOK cfg (w.outcomes ++ newOuts).length)
    (hnc : (w.cues ++ newCues).length < 4294967296) (hno : (w.outcomes ++ newOuts).length < 4294967296)
    (es es' : List (Event String String)) (hp : applyPolicyAll cfg.policy es = some es')
    (hmemc : ∀ e ∈ es, ∀ c ∈ e.cues, c ∈ w.cues ++ newCues)
    (hmemo : ∀ e ∈ es, ∀ o ∈ e.outcomes, o ∈ w.outcomes ++ newOuts)
    (hn : es.length < 4294967296)
    (hpe : ∀ e ∈ es, e.cues.length < 4294967296 ∧ e.outcomes.length < 4294967296) :
    ∃ r, ndlModelContWith reorder magic version cfg alpha β₁ β₂ lam w newCues newOuts es = .ok (r, es.length) ∧
      r.cues = w.cues ++ newCues ∧ r.outcomes = w.outcomes ++ newOuts ∧
      ∀ o c, r.get o c = rwLearn (fun _ => alpha) β₁ β₂ lam (fun o c => w.get o c) es' o c := by
  unfold ndlModelContWith
  set cues := w.cues ++ newCues with hcues
  set outs := w.outcomes ++ newOuts with houts
  have hinit : ∀ o c, o ∈ outs → c ∈ cues →
      rowFn cues.length (extendVals w.vals w.outcomes.length w.cues.length outs.length cues.length)
        (outs.idxOf o) (cues.idxOf c) = w.get o c := by
    intro o c ho hc
    have hi : outs.idxOf o < outs.length := List.idxOf_lt_length_iff.mpr ho
    have hj : cues.idxOf c < cues.length := List.idxOf_lt_length_iff.mpr hc
    have hext := extendLW_get w newCues newOuts o c
    rw [← hext]
    unfold extendLW LW.get rowFn flatIdx
    simp only [filter_new_of_disjoint _ _ hdc, filter_new_of_disjoint _ _ hdo]
    simp only [hj, if_true]
    have hi' : (w.outcomes ++ newOuts).idxOf o < (w.outcomes ++ newOuts).length := hi
    have hj' : (w.cues ++ newCues).idxOf c < (w.cues ++ newCues).length := hj
    rw [if_pos ⟨hi', hj'⟩, Nat.mul_comm]
  obtain ⟨vals', hrun, hget⟩ := ndlCoreWith_spec reorder hre magic version hm hv cfg alpha β₁ β₂ lam cues outs hcfg
    hnc hno _ (by rw [size_extendVals, Nat.mul_comm])
    es es' hp hmemc hmemo hn hpe (fun o c => w.get o c) hinit
  have hes' : ∀ e' ∈ es', (∀ c ∈ e'.cues, c ∈ cues) ∧ (∀ o ∈ e'.outcomes, o ∈ outs) := by
    intro e' he'
    obtain ⟨e, he, hpe'⟩ := applyPolicyAll_mem cfg.policy es es' hp e' he'
    obtain ⟨s1, s2, _, _⟩ := applyPolicy_sub cfg.policy e e' hpe'
    exact ⟨fun c hc => hmemc e he c ((s1 c).mp hc), fun o ho => hmemo e he o ((s2 o).mp ho)⟩
  refine ⟨⟨outs, cues, vals'⟩, hrun, rfl, rfl, ?_⟩
  intro o c
  by_cases ho : o ∈ outs
  · by_cases hc : c ∈ cues
    · exact hget o c ho hc
    · have hcw : c ∉ w.cues := fun h => hc (List.mem_append_left _ h)
      rw [LW.get_not_cue _ o c hc, rwLearn_unseen_cue _ _ _ _ _ _ o c
        (fun e he hce => hc ((hes' e he).1 c hce)), LW.get_not_cue w o c hcw]
  · have how : o ∉ w.outcomes := fun h => ho (List.mem_append_left _ h)
    rw [LW.get_not_outcome _ o c ho]
    have hz : (fun c => w.get o c) = fun _ => (0 : R) := by
      funext c'; exact LW.get_not_outcome w o c' how
    have := rwLearn_unseen_outcome (fun _ => alpha) β₁ β₂ lam (fun o c => w.get o c) es' o
      (fun e he hoe => ho ((hes' e he).2 o hoe)) hz
    rw [this]

/-- **with `weights=`, the order of the appended labels (the hash order of
    `set(cues) - set(old_cues)`) and the order of the ids inside the events are
    irrelevant**: for `newCues`, `newOuts` any PERMUTATIONS of the new names in
    first-occurrence order, the generalised model and `ndlModel (some w)` both
    succeed, report the same count, and denote the SAME weight function; the
    labels are the given ones followed by `newCues` / `newOuts`. -/
theorem ndlModelContWith_order_irrelevant (reorder : Event Nat Nat → Event Nat Nat)
    (hre : ∀ e, (reorder e).cues ~ e.cues ∧ (reorder e).outcomes ~ e.outcomes)
    (magic version : Nat) (hm : magic < 4294967296) (hv : version < 4294967296)
    (cfg : NdlCfg) (alpha β₁ β₂ lam : R) (w : LW R) (es es' : List (Event String String))
    (newCues newOuts : List String)
    (hpc : newCues ~ (countNames es).1.filter (fun c => !w.cues.contains c))
    (hpo : newOuts ~ (countNames es).2.filter (fun o => !w.outcomes.contains o))
    (hcfg : CfgOK cfg (mergedOutcomes w es).length)
    (hp : applyPolicyAll cfg.policy es = some es') (hfit : Fits32With w es) :
    ∃ r r₀, ndlModelContWith reorder magic version cfg alpha β₁ β₂ lam w newCues newOuts es = .ok (r, es.length) ∧
      ndlModel magic version cfg alpha β₁ β₂ lam (some w) es = .ok (r₀, es.length) ∧
      r.cues = w.cues ++ newCues ∧ r.outcomes = w.outcomes ++ newOuts ∧
      ∀ o c, r.get o c = r₀.get o c := by
  obtain ⟨r₀, h₀, g₀⟩ := ndlModel_continue_eq_spec magic version hm hv cfg alpha β₁ β₂ lam w es es' hcfg hp hfit
  have hdc : ∀ c ∈ newCues, c ∉ w.cues := by
    intro c hc hcw
    have := (List.mem_filter.mp (hpc.mem_iff.mp hc)).2
    simp [hcw] at this
  have hdo : ∀ o ∈ newOuts, o ∉ w.outcomes := by
    intro o ho how
    have := (List.mem_filter.mp (hpo.mem_iff.mp ho)).2
    simp [how] at this
  have hlc : (w.cues ++ newCues).length
      = (w.cues ++ (countNames es).1.filter (fun c => !w.cues.contains c)).length := by
    rw [List.length_append, List.length_append, hpc.length_eq]
  have hlo : (w.outcomes ++ newOuts).length
      = (w.outcomes ++ (countNames es).2.filter (fun o => !w.outcomes.contains o)).length := by
    rw [List.length_append, List.length_append, hpo.length_eq]
  have hmemc : ∀ e ∈ es, ∀ c ∈ e.cues, c ∈ w.cues ++ newCues := by
    intro e he c hc
    rcases List.mem_append.mp (mem_append_filter_new w.cues _ c ((countNames_mem es e he).1 c hc)) with h | h
    · exact List.mem_append_left _ h
    · exact List.mem_append_right _ (hpc.mem_iff.mpr h)
  have hmemo : ∀ e ∈ es, ∀ o ∈ e.outcomes, o ∈ w.outcomes ++ newOuts := by
    intro e he o ho
    rcases List.mem_append.mp (mem_append_filter_new w.outcomes _ o ((countNames_mem es e he).2 o ho)) with h | h
    · exact List.mem_append_left _ h
    · exact List.mem_append_right _ (hpo.mem_iff.mpr h)
  obtain ⟨r, h, lc, lo, g⟩ := ndlModelContWith_eq_spec reorder hre magic version hm hv cfg alpha β₁ β₂ lam w
    newCues newOuts hdc hdo (by rw [hlo]; exact hcfg) (by rw [hlc]; exact hfit.nCues)
    (by rw [hlo]; exact hfit.nOuts) es es' hp hmemc hmemo hfit.nEvents hfit.perEvent
  exact ⟨r, r₀, h, h₀, lc, lo, fun o c => by rw [g o c, g₀ o c]⟩

end Pyndl
