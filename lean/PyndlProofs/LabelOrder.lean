/-
  PyndlProofs.LabelOrder — the learned weights do not depend on the ORDER in
  which the counting stage enumerates the names (= the id maps), nor on the
  order of the ids inside an event.

  `ndl.ndl` takes its id maps from `count.cues_outcomes(events, n_jobs=…)`:
  `cues = list(cues.keys())`.  For `n_jobs = 1` the keys come in order of first
  occurrence (`countNames`, what `ndlModel` fixes); for `n_jobs > 1` the
  per-process `Counter`s are merged and the key order is another duplicate-free
  enumeration of the same names.  With `remove_duplicates=True` the writer
  iterates over `set(cue_ids)`: the order of the de-duplicated ids inside an
  event is hash order.  `ndlModelWith` takes both as PARAMETERS; the theorems
  below hold for all of them, so "independent of `n_jobs` of the counting stage
  / of `PYTHONHASHSEED`" is a theorem about the generalised model and
  `ndlModel` is one instance (`ndlModelWith_countNames`).
-/
import PyndlProofs.NdlCall

set_option linter.unusedSectionVars false
set_option linter.unusedVariables false

namespace Pyndl
open List

variable {R : Type} [CommRing R]

/-- `ndl.ndl` from scratch with GIVEN label lists `cues`, `outs` (the key order of
    the counting stage) and a reordering `reorder` of the ids inside every event
    (the iteration order of `set(ids)`) -/
def ndlModelWith (reorder : Event Nat Nat → Event Nat Nat) (magic version : Nat) (cfg : NdlCfg)
    (alpha β₁ β₂ lam : R) (cues outs : List String) (es : List (Event String String)) :
    Except Err (LW R × Nat) :=
  ndlCoreWith reorder magic version cfg alpha β₁ β₂ lam cues outs
    (Array.replicate (outs.length * cues.length) 0) es

/-- `ndlModel` is the instance "first-occurrence order, ids as written" -/
theorem ndlModelWith_countNames (magic version : Nat) (cfg : NdlCfg) (alpha β₁ β₂ lam : R)
    (es : List (Event String String)) :
    ndlModelWith id magic version cfg alpha β₁ β₂ lam (countNames es).1 (countNames es).2 es
      = ndlModel magic version cfg alpha β₁ β₂ lam none es := by
  unfold ndlModelWith
  rw [ndlCoreWith_id, ndlModel_none]

/-- **`ndl.ndl` = specification for EVERY label order and EVERY order of the ids
    inside an event.**  `cues`, `outs`: any lists that contain the names of the
    events (the real ones are duplicate-free enumerations of exactly these names;
    neither is needed); `reorder`: any function that permutes the cues and the
    outcomes of an event.  The result is labelled with the given lists and its
    value at EVERY (outcome name, cue name) is the specification on the
    policy-processed events — the same right-hand side as in `ndlModel_eq_spec`,
    which mentions neither `cues`, `outs` nor `reorder`. -/
theorem ndlModelWith_eq_spec (reorder : Event Nat Nat → Event Nat Nat)
    (hre : ∀ e, (reorder e).cues ~ e.cues ∧ (reorder e).outcomes ~ e.outcomes)
    (magic version : Nat) (hm : magic < 4294967296) (hv : version < 4294967296)
    (cfg : NdlCfg) (alpha β₁ β₂ lam : R) (cues outs : List String) (hcfg : CfgOK cfg outs.length)
    (hnc : cues.length < 4294967296) (hno : outs.length < 4294967296)
    (es es' : List (Event String String)) (hp : applyPolicyAll cfg.policy es = some es')
    (hmemc : ∀ e ∈ es, ∀ c ∈ e.cues, c ∈ cues) (hmemo : ∀ e ∈ es, ∀ o ∈ e.outcomes, o ∈ outs)
    (hn : es.length < 4294967296)
    (hpe : ∀ e ∈ es, e.cues.length < 4294967296 ∧ e.outcomes.length < 4294967296) :
    ∃ w, ndlModelWith reorder magic version cfg alpha β₁ β₂ lam cues outs es = .ok (w, es.length) ∧
      w.cues = cues ∧ w.outcomes = outs ∧
      ∀ o c, w.get o c = rwLearn (fun _ => alpha) β₁ β₂ lam (fun _ _ => (0 : R)) es' o c := by
  obtain ⟨vals', hrun, hget⟩ := ndlCoreWith_spec reorder hre magic version hm hv cfg alpha β₁ β₂ lam cues outs
    hcfg hnc hno (Array.replicate (outs.length * cues.length) 0) (by simp [Nat.mul_comm])
    es es' hp hmemc hmemo hn hpe (fun _ _ => 0) (fun o c _ _ => by rw [rowFn_replicate_zero])
  have hes' : ∀ e' ∈ es', (∀ c ∈ e'.cues, c ∈ cues) ∧ (∀ o ∈ e'.outcomes, o ∈ outs) := by
    intro e' he'
    obtain ⟨e, he, hpe'⟩ := applyPolicyAll_mem cfg.policy es es' hp e' he'
    obtain ⟨s1, s2, _, _⟩ := applyPolicy_sub cfg.policy e e' hpe'
    exact ⟨fun c hc => hmemc e he c ((s1 c).mp hc), fun o ho => hmemo e he o ((s2 o).mp ho)⟩
  refine ⟨⟨outs, cues, vals'⟩, hrun, rfl, rfl, ?_⟩
  intro o c
  by_cases ho : o ∈ outs
  · by_cases hc : c ∈ cues
    · exact hget o c ho hc
    · rw [LW.get_not_cue _ o c hc, rwLearn_unseen_cue]
      intro e he hce
      exact hc ((hes' e he).1 c hce)
  · rw [LW.get_not_outcome _ o c ho]
    have := rwLearn_unseen_outcome (fun _ => alpha) β₁ β₂ lam (fun _ _ => (0 : R)) es' o
      (fun e he hoe => ho ((hes' e he).2 o hoe)) rfl
    rw [this]

/-- **independence of the counting order and of the hash seed**: for label lists
    that are PERMUTATIONS of the names in first-occurrence order (what any
    `n_jobs` of the counting stage produces) and any order of the ids inside the
    events, the generalised model and `ndlModel` both succeed, report the same
    number of events, and denote the SAME weight function — only the order of
    the labels (rows / columns of the array) differs. -/
theorem ndlModelWith_order_irrelevant (reorder : Event Nat Nat → Event Nat Nat)
    (hre : ∀ e, (reorder e).cues ~ e.cues ∧ (reorder e).outcomes ~ e.outcomes)
    (magic version : Nat) (hm : magic < 4294967296) (hv : version < 4294967296)
    (cfg : NdlCfg) (alpha β₁ β₂ lam : R) (es es' : List (Event String String))
    (cues outs : List String) (hpc : cues ~ (countNames es).1) (hpo : outs ~ (countNames es).2)
    (hcfg : CfgOK cfg (countNames es).2.length)
    (hp : applyPolicyAll cfg.policy es = some es') (hfit : Fits32 es) :
    ∃ w w₀, ndlModelWith reorder magic version cfg alpha β₁ β₂ lam cues outs es = .ok (w, es.length) ∧
      ndlModel magic version cfg alpha β₁ β₂ lam none es = .ok (w₀, es.length) ∧
      w.cues = cues ∧ w.outcomes = outs ∧
      ∀ o c, w.get o c = w₀.get o c := by
  obtain ⟨w₀, h₀, g₀⟩ := ndlModel_eq_spec magic version hm hv cfg alpha β₁ β₂ lam es es' hcfg hp hfit
  obtain ⟨w, h, lc, lo, g⟩ := ndlModelWith_eq_spec reorder hre magic version hm hv cfg alpha β₁ β₂ lam cues outs
    (by rw [hpo.length_eq]; exact hcfg) (by rw [hpc.length_eq]; exact hfit.nCues)
    (by rw [hpo.length_eq]; exact hfit.nOuts) es es' hp
    (fun e he c hc => hpc.mem_iff.mpr ((countNames_mem es e he).1 c hc))
    (fun e he o ho => hpo.mem_iff.mpr ((countNames_mem es e he).2 o ho))
    hfit.nEvents hfit.perEvent
  exact ⟨w, w₀, h, h₀, lc, lo, fun o c => by rw [g o c, g₀ o c]⟩

end Pyndl
