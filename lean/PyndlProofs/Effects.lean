import PyndlModel.Effects

set_option linter.unusedSectionVars false
set_option linter.unusedSimpArgs false
set_option linter.unusedVariables false

namespace Pyndl.Effects
open List

theorem mem_rmtree (d p : Path) (w : World) : p ∈ rmtree d w ↔ p ∈ w ∧ below d p = false := by
  simp [rmtree]

theorem below_self (d : Path) : below d d = true := by
  simp [below]

/-- **the bracket leaves nothing behind**: for every body that only works below
    its directory, every exit (return or raise at any point), and every initial
    world in which the fresh directory does not exist yet, the world afterwards
    is the world before — outside entries unchanged, the directory gone. -/
theorem bracket_clean (d : Path) (body : Path → World → World × Exit) (hb : OnlyBelow d body)
    (w : World) (hfresh : ∀ p ∈ w, below d p = false) (p : Path) :
    p ∈ (bracket d body w).1 ↔ p ∈ w := by
  unfold bracket
  simp only [mem_rmtree]
  constructor
  · rintro ⟨h1, h2⟩
    have := (hb (d :: w) p h2).mp h1
    simp only [List.mem_cons] at this
    rcases this with rfl | h
    · rw [below_self] at h2; cases h2
    · exact h
  · intro h
    have h2 := hfresh p h
    exact ⟨(hb (d :: w) p h2).mpr (by simp [h]), h2⟩

/-- the exit of the body is the exit of the call: a raise is never swallowed -/
theorem bracket_exit (d : Path) (body : Path → World → World × Exit) (w : World) :
    (bracket d body w).2 = (body d (d :: w)).2 := rfl

/-- nested brackets (spool directory around the learner's own chunk directory)
    are clean as well -/
theorem bracket_nested (d₁ d₂ : Path) (body : Path → World → World × Exit)
    (hb : OnlyBelow d₂ body) (hsub : below d₁ d₂ = true) :
    OnlyBelow d₁ (fun _ w => bracket d₂ body w) := by
  intro w p hp
  have hp2 : below d₂ p = false := by
    cases h' : below d₂ p with
    | false => rfl
    | true =>
      have : below d₁ p = true := by
        unfold below at *
        exact List.isPrefixOf_iff_prefix.mpr
          ((List.isPrefixOf_iff_prefix.mp hsub).trans (List.isPrefixOf_iff_prefix.mp h'))
      rw [this] at hp; cases hp
  show p ∈ (bracket d₂ body w).1 ↔ p ∈ w
  unfold bracket
  simp only [mem_rmtree, hp2, and_true]
  rw [hb (d₂ :: w) p hp2]
  simp only [List.mem_cons]
  constructor
  · rintro (rfl | h)
    · rw [below_self] at hp2; cases hp2
    · exact h
  · exact fun h => Or.inr h

end Pyndl.Effects

namespace Pyndl.Effects
open List

theorem below_append (d : Path) (name : String) : below d (d ++ [name]) = true := by
  simp [below]

theorem chunkBody_onlyBelow (created : List String) (e : Exit) (d : Path) :
    OnlyBelow d (chunkBody created e) := by
  intro w p hp
  simp only [chunkBody, List.mem_append, List.mem_map]
  constructor
  · rintro (⟨name, _, rfl⟩ | h)
    · rw [below_append] at hp; cases hp
    · exact h
  · exact fun h => Or.inr h

/-- a path call of a learner: whatever chunk files were created and however the
    call ended, the world afterwards is the world before -/
theorem pathCall_clean (created : List String) (e : Exit) (d : Path) (w : World)
    (hfresh : ∀ p ∈ w, below d p = false) (p : Path) :
    p ∈ (bracket d (chunkBody created e) w).1 ↔ p ∈ w :=
  bracket_clean d _ (chunkBody_onlyBelow created e d) w hfresh p

end Pyndl.Effects

namespace Pyndl.Effects
open List

/-- generator input (after the repair of F7): spool directory and chunk
    directory are both gone afterwards, whatever the exit, and nothing else
    changed -/
theorem generatorCall_clean (s d : Path) (created : List String) (e : Exit) (w : World)
    (hs : ∀ p ∈ w, below s p = false) (hd : ∀ p ∈ w, below d p = false) (p : Path) :
    p ∈ (generatorCall s d created e w).1 ↔ p ∈ w := by
  unfold generatorCall bracket chunkBody
  simp only [mem_rmtree, List.mem_append, List.mem_map, List.mem_cons]
  constructor
  · rintro ⟨⟨h, hpd⟩, hps⟩
    rcases h with ⟨name, _, rfl⟩ | rfl | rfl | rfl | h
    · rw [below_append] at hpd; cases hpd
    · rw [below_self] at hpd; cases hpd
    · rw [below_append] at hps; cases hps
    · rw [below_self] at hps; cases hps
    · exact h
  · intro h
    exact ⟨⟨Or.inr (Or.inr (Or.inr (Or.inr h))), hd p h⟩, hs p h⟩

theorem generatorCall_exit (s d : Path) (created : List String) (e : Exit) (w : World) :
    (generatorCall s d created e w).2 = e := rfl

end Pyndl.Effects

/-! ## sibling brackets (the real layout of generator input) -/

namespace Pyndl.Effects
open List

theorem below_trans_false {s d p : Path} (hsd : below s d = false) (hds : below d s = false)
    (hs : below s p = true) : below d p = false := by
  cases h : below d p with
  | false => rfl
  | true =>
    unfold below at *
    have h1 := List.isPrefixOf_iff_prefix.mp hs
    have h2 := List.isPrefixOf_iff_prefix.mp h
    rcases List.prefix_or_prefix_of_prefix h1 h2 with h3 | h3
    · have := List.isPrefixOf_iff_prefix.mpr h3; rw [this] at hsd; cases hsd
    · have := List.isPrefixOf_iff_prefix.mpr h3; rw [this] at hds; cases hds

/-- **sibling brackets are clean.** Outer temporary directory `s`, a first step
    that works only below `s` and may raise, then (only if it returned) a second
    bracket for a directory `d` that is NOT below `s` and not above it — the
    layout of `ndl.ndl` with generator input — around a body that works only
    below `d`: afterwards the set of existing paths is the one before. -/
theorem bracket_siblings_clean (s d : Path) (first body : Path → World → World × Exit)
    (hf : OnlyBelow s first) (hb : OnlyBelow d body)
    (hsd : below s d = false) (hds : below d s = false) (w : World)
    (hs : ∀ p ∈ w, below s p = false) (hd : ∀ p ∈ w, below d p = false) (p : Path) :
    p ∈ (bracket s (fun s w => seqBody (first s) (bracket d body) w) w).1 ↔ p ∈ w := by
  have hout : ∀ (w1 : World), (∀ q, below s q = false → (q ∈ w1 ↔ q ∈ s :: w)) →
      (p ∈ rmtree s w1 ↔ p ∈ w) := by
    intro w1 h1
    rw [mem_rmtree]
    constructor
    · rintro ⟨hp, hps⟩
      have := (h1 p hps).mp hp
      rcases List.mem_cons.mp this with rfl | h
      · rw [below_self] at hps; cases hps
      · exact h
    · intro hp
      exact ⟨(h1 p (hs p hp)).mpr (List.mem_cons_of_mem _ hp), hs p hp⟩
  unfold bracket
  simp only
  unfold seqBody
  have hfirst := hf (s :: w)
  rcases hfw : first s (s :: w) with ⟨w1, e1⟩
  rw [hfw] at hfirst
  simp only at hfirst
  cases e1 with
  | raised => exact hout w1 hfirst
  | returned =>
    simp only
    have hfresh : ∀ q ∈ w1, below d q = false := by
      intro q hq
      cases hsq : below s q with
      | true => exact below_trans_false hsd hds hsq
      | false =>
        have := (hfirst q hsq).mp hq
        rcases List.mem_cons.mp this with rfl | h
        · exact hds
        · exact hd q h
    have hinner : ∀ q, q ∈ (bracket d body w1).1 ↔ q ∈ w1 := bracket_clean d body hb w1 hfresh
    unfold bracket at hinner
    simp only at hinner
    apply hout
    intro q hq
    rw [hinner q]
    exact hfirst q hq

theorem spool_onlyBelow (spooled : List String) (e : Exit) (s : Path) :
    OnlyBelow s (fun s w => (spooled.map (fun name => s ++ [name]) ++ w, e)) := by
  intro w p hp
  simp only [List.mem_append, List.mem_map]
  constructor
  · rintro (⟨name, _, rfl⟩ | h)
    · rw [below_append] at hp; cases hp
    · exact h
  · exact fun h => Or.inr h

/-- generator input, spooling may raise: clean for every pair of exits -/
theorem generatorCallS_clean (s d : Path) (spooled : List String) (spoolExit : Exit)
    (created : List String) (e : Exit) (w : World)
    (hsd : below s d = false) (hds : below d s = false)
    (hs : ∀ p ∈ w, below s p = false) (hd : ∀ p ∈ w, below d p = false) (p : Path) :
    p ∈ (generatorCallS s d spooled spoolExit created e w).1 ↔ p ∈ w :=
  bracket_siblings_clean s d (fun s w => (spooled.map (fun name => s ++ [name]) ++ w, spoolExit))
    (chunkBody created e) (spool_onlyBelow spooled spoolExit s) (chunkBody_onlyBelow created e d)
    hsd hds w hs hd p

/-- the exit the caller sees: the spooling exception if spooling raised,
    otherwise the exit of the learner -/
theorem generatorCallS_exit (s d : Path) (spooled : List String) (spoolExit : Exit)
    (created : List String) (e : Exit) (w : World) :
    (generatorCallS s d spooled spoolExit created e w).2
      = (match spoolExit with | .raised => .raised | .returned => e) := by
  cases spoolExit <;> rfl

theorem generatorCall_eq (s d : Path) (created : List String) (e : Exit) (w : World) :
    generatorCall s d created e w = generatorCallS s d ["events.tab.gz"] .returned created e w := rfl

/-! ## worlds with contents -/

theorem get_put (fs : FS) (q p : Path) (n : Node) :
    (fs.put q n).get p = if q = p then some n else fs.get p := by
  unfold FS.put FS.get
  by_cases h : q = p
  · simp [List.find?_cons, h]
  · have : (q == p) = false := by simpa using h
    simp [List.find?_cons, this, h]

theorem get_filter (f : Path → Bool) (fs : FS) (p : Path) :
    FS.get (fs.filter (fun x => f x.1)) p = if f p then fs.get p else none := by
  unfold FS.get
  induction fs with
  | nil => simp
  | cons x fs ih =>
    by_cases hx : x.1 = p
    · subst hx
      by_cases hf : f x.1 = true
      · simp [List.filter_cons, hf, List.find?_cons]
      · have hf' : f x.1 = false := by simpa using hf
        rw [List.filter_cons, if_neg hf, ih]
        simp [hf']
    · have hne : (x.1 == p) = false := by simpa using hx
      by_cases hf : f x.1 = true
      · rw [List.filter_cons, if_pos hf, List.find?_cons, hne, List.find?_cons, hne]
        exact ih
      · rw [List.filter_cons, if_neg hf, List.find?_cons, hne]
        exact ih

theorem get_del (fs : FS) (q p : Path) : (fs.del q).get p = if q = p then none else fs.get p := by
  unfold FS.del
  rw [get_filter (fun x => x != q) fs p]
  by_cases h : q = p
  · subst h; simp
  · have : (p != q) = true := by simpa using (fun e => h e.symm)
    simp [this, h]

theorem get_rmtreeC (d : Path) (fs : FS) (p : Path) :
    (rmtreeC d fs).get p = if below d p then none else fs.get p := by
  unfold rmtreeC
  rw [get_filter (fun x => !below d x) fs p]
  cases below d p <;> simp

/-- a world none of whose entries lies at or below `d` has nothing at or below
    `d` (turns the decidable check of a concrete `FS` into the `hfresh`
    hypothesis of the theorems with contents) -/
theorem fresh_of_entries (d : Path) (fs : FS) (h : ∀ x ∈ fs, below d x.1 = false) :
    ∀ p, below d p = true → fs.get p = none := by
  intro p hp
  unfold FS.get
  cases hf : List.find? (fun x => x.1 == p) fs with
  | none => rfl
  | some x =>
    have hx := List.mem_of_find?_eq_some hf
    have hxp : x.1 = p := by simpa using List.find?_some hf
    rw [← hxp, h x hx] at hp
    cases hp

/-- **the bracket restores the world, contents included**: if the body leaves
    everything outside `d` as it was and nothing existed at or below `d`, then
    after the call every path has the node (existence, kind, bytes) it had before. -/
theorem bracketC_clean (d : Path) (body : Path → FS → FS × Exit) (hb : OnlyBelowC d body)
    (fs : FS) (hfresh : ∀ p, below d p = true → fs.get p = none) (p : Path) :
    (bracketC d body fs).1.get p = fs.get p := by
  unfold bracketC
  simp only
  rw [get_rmtreeC]
  cases hp : below d p with
  | true => simp [hfresh p hp]
  | false =>
    simp only [Bool.false_eq_true, if_false]
    rw [hb (fs.put d .dir) p hp, get_put]
    have : d ≠ p := by intro e; rw [← e, below_self] at hp; cases hp
    simp [this]

theorem bracketC_exit (d : Path) (body : Path → FS → FS × Exit) (fs : FS) :
    (bracketC d body fs).2 = (body d (fs.put d .dir)).2 := rfl

theorem runOp_get (d : Path) (fs : FS) (op : Op) (p : Path) (hp : below d p = false) :
    (runOp d fs op).get p = fs.get p := by
  cases op with
  | write name bytes =>
    simp only [runOp, get_put]
    have : d ++ [name] ≠ p := by intro e; rw [← e, below_append] at hp; cases hp
    simp [this]
  | remove name =>
    simp only [runOp, get_del]
    have : d ++ [name] ≠ p := by intro e; rw [← e, below_append] at hp; cases hp
    simp [this]

theorem runOps_get (d : Path) : ∀ (ops : List Op) (fs : FS) (p : Path), below d p = false →
    (runOps d ops fs).get p = fs.get p
  | [], _, _, _ => rfl
  | op :: ops, fs, p, hp => by
    unfold runOps
    rw [List.foldl_cons]
    have := runOps_get d ops (runOp d fs op) p hp
    unfold runOps at this
    rw [this, runOp_get d fs op p hp]

/-- the modelled bodies never touch anything outside their directory -/
theorem opsBody_onlyBelowC (ops : List Op) (e : Exit) (d : Path) : OnlyBelowC d (opsBody ops e) :=
  fun fs p hp => runOps_get d ops fs p hp

/-- sibling brackets on worlds with contents -/
theorem bracketC_siblings_clean (s d : Path) (first body : Path → FS → FS × Exit)
    (hf : OnlyBelowC s first) (hb : OnlyBelowC d body)
    (hsd : below s d = false) (hds : below d s = false) (fs : FS)
    (hs : ∀ p, below s p = true → fs.get p = none) (hd : ∀ p, below d p = true → fs.get p = none)
    (p : Path) :
    (bracketC s (fun s fs => seqBody (first s) (bracketC d body) fs) fs).1.get p = fs.get p := by
  have hout : ∀ (fs1 : FS), (∀ q, below s q = false → fs1.get q = (fs.put s .dir).get q) →
      (rmtreeC s fs1).get p = fs.get p := by
    intro fs1 h1
    rw [get_rmtreeC]
    cases hp : below s p with
    | true => simp [hs p hp]
    | false =>
      simp only [Bool.false_eq_true, if_false]
      rw [h1 p hp, get_put]
      have : s ≠ p := by intro e; rw [← e, below_self] at hp; cases hp
      simp [this]
  unfold bracketC
  simp only
  unfold seqBody
  have hfirst := hf (fs.put s .dir)
  rcases hfw : first s (fs.put s .dir) with ⟨fs1, e1⟩
  rw [hfw] at hfirst
  simp only at hfirst
  cases e1 with
  | raised => exact hout fs1 hfirst
  | returned =>
    simp only
    have hfresh : ∀ q, below d q = true → fs1.get q = none := by
      intro q hq
      have hsq : below s q = false := by
        cases h : below s q with
        | false => rfl
        | true => rw [below_trans_false hsd hds h] at hq; cases hq
      rw [hfirst q hsq, get_put]
      have : s ≠ q := by intro e; rw [← e, hds] at hq; cases hq
      simp [this, hd q hq]
    have hinner : ∀ q, (bracketC d body fs1).1.get q = fs1.get q := bracketC_clean d body hb fs1 hfresh
    unfold bracketC at hinner
    simp only at hinner
    apply hout
    intro q hq
    rw [hinner q]
    exact hfirst q hq

end Pyndl.Effects
