import PyndlModel.Effects

set_option linter.unusedSectionVars false
set_option linter.unusedSimpArgs false
set_option linter.unusedVariables false

namespace Pyndl.Effects
open List

theorem mem_rmtree (d p : Path) (w : World) : p ∈ rmtree d w ↔ p ∈ w ∧ below d p = false := by
  simp [rmtree]

theorem below_self (d : Path) : below d d = true := by
  simp [below]

/-- **the bracket leaves nothing behind**: for every body that only works below
    its directory, every exit (return or raise at any point), and every initial
    world in which the fresh directory does not exist yet, the world afterwards
    is the world before — outside entries unchanged, the directory gone. -/
theorem bracket_clean (d : Path) (body : Path → World → World × Exit) (hb : OnlyBelow d body)
    (w : World) (hfresh : ∀ p ∈ w, below d p = false) (p : Path) :
    p ∈ (bracket d body w).1 ↔ p ∈ w := by
  unfold bracket
  simp only [mem_rmtree]
  constructor
  · rintro ⟨h1, h2⟩
    have := (hb (d :: w) p h2).mp h1
    simp only [List.mem_cons] at this
    rcases this with rfl | h
    · rw [below_self] at h2; cases h2
    · exact h
  · intro h
    have h2 := hfresh p h
    exact ⟨(hb (d :: w) p h2).mpr (by simp [h]), h2⟩

/-- the exit of the body is the exit of the call: a raise is never swallowed -/
theorem bracket_exit (d : Path) (body : Path → World → World × Exit) (w : World) :
    (bracket d body w).2 = (body d (d :: w)).2 := rfl

/-- nested brackets (spool directory around the learner's own chunk directory)
    are clean as well -/
theorem bracket_nested (d₁ d₂ : Path) (body : Path → World → World × Exit)
    (hb : OnlyBelow d₂ body) (hsub : below d₁ d₂ = true) :
    OnlyBelow d₁ (fun _ w => bracket d₂ body w) := by
  intro w p hp
  have hp2 : below d₂ p = false := by
    cases h' : below d₂ p with
    | false => rfl
    | true =>
      have : below d₁ p = true := by
        unfold below at *
        exact List.isPrefixOf_iff_prefix.mpr
          ((List.isPrefixOf_iff_prefix.mp hsub).trans (List.isPrefixOf_iff_prefix.mp h'))
      rw [this] at hp; cases hp
  show p ∈ (bracket d₂ body w).1 ↔ p ∈ w
  unfold bracket
  simp only [mem_rmtree, hp2, and_true]
  rw [hb (d₂ :: w) p hp2]
  simp only [List.mem_cons]
  constructor
  · rintro (rfl | h)
    · rw [below_self] at hp2; cases hp2
    · exact h
  · exact fun h => Or.inr h

end Pyndl.Effects

namespace Pyndl.Effects
open List

theorem below_append (d : Path) (name : String) : below d (d ++ [name]) = true := by
  simp [below]

theorem chunkBody_onlyBelow (created : List String) (e : Exit) (d : Path) :
    OnlyBelow d (chunkBody created e) := by
  intro w p hp
  simp only [chunkBody, List.mem_append, List.mem_map]
  constructor
  · rintro (⟨name, _, rfl⟩ | h)
    · rw [below_append] at hp; cases hp
    · exact h
  · exact fun h => Or.inr h

/-- a path call of a learner: whatever chunk files were created and however the
    call ended, the world afterwards is the world before -/
theorem pathCall_clean (created : List String) (e : Exit) (d : Path) (w : World)
    (hfresh : ∀ p ∈ w, below d p = false) (p : Path) :
    p ∈ (bracket d (chunkBody created e) w).1 ↔ p ∈ w :=
  bracket_clean d _ (chunkBody_onlyBelow created e d) w hfresh p

end Pyndl.Effects

namespace Pyndl.Effects
open List

/-- generator input (after the repair of F7): spool directory and chunk
    directory are both gone afterwards, whatever the exit, and nothing else
    changed -/
theorem generatorCall_clean (s d : Path) (created : List String) (e : Exit) (w : World)
    (hs : ∀ p ∈ w, below s p = false) (hd : ∀ p ∈ w, below d p = false) (p : Path) :
    p ∈ (generatorCall s d created e w).1 ↔ p ∈ w := by
  unfold generatorCall bracket chunkBody
  simp only [mem_rmtree, List.mem_append, List.mem_map, List.mem_cons]
  constructor
  · rintro ⟨⟨h, hpd⟩, hps⟩
    rcases h with ⟨name, _, rfl⟩ | rfl | rfl | rfl | h
    · rw [below_append] at hpd; cases hpd
    · rw [below_self] at hpd; cases hpd
    · rw [below_append] at hps; cases hps
    · rw [below_self] at hps; cases hps
    · exact h
  · intro h
    exact ⟨⟨Or.inr (Or.inr (Or.inr (Or.inr h))), hd p h⟩, hs p h⟩

theorem generatorCall_exit (s d : Path) (created : List String) (e : Exit) (w : World) :
    (generatorCall s d created e w).2 = e := rfl

end Pyndl.Effects
