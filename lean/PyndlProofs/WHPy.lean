/-
  PyndlProofs.WHPy — `dict_wh` and `wh.wh(method='numpy')` (models in
  PyndlModel/WHPy.lean) are the Widrow–Hoff specification `whR2RSpecFrom` /
  `whR2RSpec` of C08 on event lists whose events have exactly one cue and one
  outcome after the duplicate policy — hence equal to the OpenMP model
  `whModel .r2r`; continuation from given weights; the error branches.
-/
import PyndlModel.WHPy
import PyndlProofs.WHChain
import PyndlProofs.DictArray
import PyndlProofs.Dict

set_option linter.unusedSectionVars false
set_option linter.unusedSimpArgs false
set_option linter.unusedVariables false

namespace Pyndl
open List

variable {R : Type} [CommRing R]

/-! ## one event: policy, then the two assertions -/

/-- an event with exactly one cue and one outcome -/
def IsSingle (e : Event String String) : Prop := e.cues.length = 1 ∧ e.outcomes.length = 1

instance (e : Event String String) : Decidable (IsSingle e) := by unfold IsSingle; infer_instance

theorem isSingle_iff (e : Event String String) : IsSingle e ↔ ∃ c o, e = ⟨[c], [o]⟩ := by
  constructor
  · rintro ⟨h1, h2⟩
    obtain ⟨cs, os⟩ := e
    match cs, os, h1, h2 with
    | [c], [o], _, _ => exact ⟨c, o, rfl⟩
  · rintro ⟨c, o, rfl⟩; exact ⟨rfl, rfl⟩

/-- accepted by the policy and single ⇒ the loop body is reached with that cue / outcome -/
theorem singleEvent_ok (p : DupPolicy) (e : Event String String) (c o : String)
    (hp : applyPolicy p e = some ⟨[c], [o]⟩) : singleEvent p e = .ok (c, o) := by
  simp [singleEvent, hp]

/-- **the error branches of one event**, in the order of the code: `ValueError`
    (policy), then `AssertionError` for `len(outcomes) != 1`, then for
    `len(cues) != 1` -/
theorem singleEvent_cases (p : DupPolicy) (e : Event String String) :
    (applyPolicy p e = none → singleEvent p e = .error (.std .value)) ∧
    (∀ e', applyPolicy p e = some e' → e'.outcomes.length ≠ 1 → singleEvent p e = .error .assertion) ∧
    (∀ e', applyPolicy p e = some e' → e'.outcomes.length = 1 → e'.cues.length ≠ 1 →
      singleEvent p e = .error .assertion) ∧
    (∀ e', applyPolicy p e = some e' → IsSingle e' →
      ∃ c o, e' = ⟨[c], [o]⟩ ∧ singleEvent p e = .ok (c, o)) := by
  refine ⟨fun h => by simp [singleEvent, h], ?_, ?_, ?_⟩
  · intro e' h hl
    obtain ⟨cs, os⟩ := e'
    simp only [singleEvent, h]
    match os, hl with
    | [], _ => rfl
    | _ :: _ :: _, _ => rfl
    | [o], hl => simp at hl
  · intro e' h hl hc
    obtain ⟨cs, os⟩ := e'
    simp only [singleEvent, h]
    match os, hl with
    | [o], _ =>
      match cs, hc with
      | [], _ => rfl
      | _ :: _ :: _, _ => rfl
      | [c], hc => simp at hc
  · intro e' h hs
    obtain ⟨c, o, rfl⟩ := (isSingle_iff e').mp hs
    exact ⟨c, o, rfl, singleEvent_ok p e c o h⟩

theorem applyPolicyAll_cons_some {ι κ : Type} [DecidableEq ι] [DecidableEq κ] (p : DupPolicy)
    (e : Event ι κ) (es es' : List (Event ι κ)) (h : applyPolicyAll p (e :: es) = some es') :
    ∃ e' t', applyPolicy p e = some e' ∧ applyPolicyAll p es = some t' ∧ es' = e' :: t' := by
  simp only [applyPolicyAll] at h
  cases h1 : applyPolicy p e with
  | none => simp [h1] at h
  | some e' =>
    simp only [h1] at h
    cases h2 : applyPolicyAll p es with
    | none => simp [h2] at h
    | some t' =>
      simp only [h2, Option.some.injEq] at h
      exact ⟨e', t', rfl, rfl, h.symm⟩

/-! ## table rows by label -/

theorem map_eq_range_map_getD {β : Type} (l : List String) (f : String → β) :
    l.map f = (List.range l.length).map (fun i => f (l.getD i "")) := by
  apply List.ext_getElem
  · simp
  · intro i h1 h2
    have hi : i < l.length := by simpa using h1
    simp [List.getD_eq_getElem?_getD, List.getElem?_eq_getElem hi]

theorem getD_eq_getElem' (l : List String) (i : Nat) (hi : i < l.length) : l.getD i "" = l[i] := by
  simp [List.getD_eq_getElem?_getD, List.getElem?_eq_getElem hi]

/-- with distinct dimension labels, the entry read by label is the entry at
    the label's position: `tabInput` of the one-name list -/
theorem tabAt_eq_tabInput (t : VecTable R) (hn : t.dims.Nodup) (name : String) (k : Nat)
    (hk : k < t.dims.length) : tabAt t name (t.dims.getD k "") = tabInput t [name] k := by
  unfold tabAt tabInput
  rw [getD_eq_getElem' _ _ hk, List.Nodup.idxOf_getElem hn k hk]
  simp

/-! ## `dict_wh` -/

/-- the weight dict read at the labels of two lists, by position (as
    `LW.atLabels`): cell `(d, k)` = `W[rows[d]][cols[k]]`, 0 outside -/
def wdAtLabels (W : WDict String String R) (rows cols : List String) : Nat → Nat → R := fun d k =>
  if d < rows.length ∧ k < cols.length then wdAbs W (rows.getD d "") (cols.getD k "") else 0

/-- the row update of `dict_wh`, read through the keys -/
theorem dictWhRow_get (eta : R) (cdims : List String) (hn : cdims.Nodup) (cvec : String → R) (t : R)
    (row : List (String × R)) (kl : String) :
    alGet (dictWhRow eta cdims cvec t row) kl
      = if kl ∈ cdims then
          alGet row kl + cvec kl * (eta * (t - (cdims.map (fun k => cvec k * alGet row k)).sum))
        else alGet row kl := by
  unfold dictWhRow
  simp only
  rw [dictUpd_abs cvec _ row cdims]
  have hadd := addCues_apply cvec (eta * (t - cdims.foldl (fun acc k => acc + cvec k * alGet row k) 0))
    (alGet row) cdims kl
  unfold addCues at hadd
  rw [hadd]
  have hsum : cdims.foldl (fun acc k => acc + cvec k * alGet row k) 0
      = (cdims.map (fun k => cvec k * alGet row k)).sum := by
    have := sumOver_eq (fun k => cvec k * alGet row k) cdims
    unfold sumOver at this
    exact this
  rw [hsum]
  by_cases hm : kl ∈ cdims
  · rw [if_pos hm, List.count_eq_one_of_mem hn hm]; simp
  · rw [if_neg hm, List.count_eq_zero_of_not_mem hm]; simp

/-- one event of `dict_wh`, read through the keys, at EVERY pair of labels -/
theorem dictWhEvent_get (eta : R) (ct ot : VecTable R) (hnc : ct.dims.Nodup) (hno : ot.dims.Nodup)
    (W : WDict String String R) (c o dl kl : String) :
    wdAbs (dictWhEvent eta ct ot W c o) dl kl
      = if dl ∈ ot.dims ∧ kl ∈ ct.dims then
          wdAbs W dl kl + tabAt ct c kl *
            (eta * (tabAt ot o dl - (ct.dims.map (fun k => tabAt ct c k * wdAbs W dl k)).sum))
        else wdAbs W dl kl := by
  unfold dictWhEvent
  by_cases he : ct.dims.isEmpty = true
  · have : ct.dims = [] := List.isEmpty_iff.mp he
    simp [he, this]
  · simp only [he, Bool.false_eq_true, if_false]
    unfold wdAbs
    rw [fold_setRow (fun dl row => dictWhRow eta ct.dims (tabAt ct c) (tabAt ot o dl) row) ot.dims hno W dl]
    by_cases hd : dl ∈ ot.dims
    · rw [if_pos hd, dictWhRow_get eta ct.dims hnc]
      by_cases hk : kl ∈ ct.dims
      · rw [if_pos hk, if_pos ⟨hd, hk⟩]
      · rw [if_neg hk, if_neg (fun h => hk h.2)]
    · rw [if_neg hd, if_neg (fun h => hd h.1)]

/-- **one event of `dict_wh` = one delta-rule step** on every outcome vector
    dimension, by position -/
theorem dictWhEvent_row (eta : R) (ct ot : VecTable R) (hnc : ct.dims.Nodup) (hno : ot.dims.Nodup)
    (W : WDict String String R) (c o : String) (d : Nat) (hd : d < ot.dims.length) :
    wdAtLabels (dictWhEvent eta ct ot W c o) ot.dims ct.dims d
      = whRowReal ct.dims.length (tabInput ct [c]) (fun a => eta * (tabInput ot [o] d - a))
          (wdAtLabels W ot.dims ct.dims d) := by
  funext k
  unfold wdAtLabels whRowReal
  by_cases hk : k < ct.dims.length
  · simp only [hd, hk, and_self, true_and, if_true]
    have hdm : ot.dims.getD d "" ∈ ot.dims := by rw [getD_eq_getElem' _ _ hd]; exact List.getElem_mem hd
    have hkm : ct.dims.getD k "" ∈ ct.dims := by rw [getD_eq_getElem' _ _ hk]; exact List.getElem_mem hk
    rw [dictWhEvent_get eta ct ot hnc hno, if_pos ⟨hdm, hkm⟩, tabAt_eq_tabInput ct hnc c k hk,
      tabAt_eq_tabInput ot hno o d hd, map_eq_range_map_getD ct.dims]
    have hsum : ((List.range ct.dims.length).map (fun i => tabAt ct c (ct.dims.getD i "") *
          wdAbs W (ot.dims.getD d "") (ct.dims.getD i ""))).sum
        = ((List.range ct.dims.length).map (fun k => tabInput ct [c] k *
          if k < ct.dims.length then wdAbs W (ot.dims.getD d "") (ct.dims.getD k "") else 0)).sum := by
      congr 1
      apply List.map_congr_left
      intro j hj
      have hj' := List.mem_range.mp hj
      rw [tabAt_eq_tabInput ct hnc c j hj', if_pos hj']
    rw [hsum]
    ring
  · simp only [hk, and_false, if_false]

/-- the whole loop: the delta-rule recursion from the given weight dict on the
    table's labels, every other entry of the dict untouched -/
theorem dictWhLoop_spec (p : DupPolicy) (eta : R) (ct ot : VecTable R)
    (hnc : ct.dims.Nodup) (hno : ot.dims.Nodup)
    (es es' : List (Event String String)) (W : WDict String String R)
    (htabc : ∀ e ∈ es, ∀ c ∈ e.cues, c ∈ ct.names)
    (htabo : ∀ e ∈ es, ∀ o ∈ e.outcomes, o ∈ ot.names)
    (hp : applyPolicyAll p es = some es') (hs : ∀ e ∈ es', IsSingle e) :
    ∃ D, dictWhLoop p eta ct ot W es = .ok D ∧
      (∀ d, d < ot.dims.length →
        wdAtLabels D ot.dims ct.dims d = whR2RSpecFrom eta ct ot (wdAtLabels W ot.dims ct.dims) es' d) ∧
      (∀ dl kl, ¬ (dl ∈ ot.dims ∧ kl ∈ ct.dims) → wdAbs D dl kl = wdAbs W dl kl) := by
  induction es generalizing es' W with
  | nil =>
    simp only [applyPolicyAll, Option.some.injEq] at hp
    subst hp
    exact ⟨W, rfl, fun d _ => rfl, fun _ _ _ => rfl⟩
  | cons e es ih =>
    obtain ⟨e', t', hpe, hpt, rfl⟩ := applyPolicyAll_cons_some p e es es' hp
    obtain ⟨c, o, rfl, hse⟩ := (singleEvent_cases p e).2.2.2 e' hpe (hs e' (by simp))
    obtain ⟨s1, s2, _, _⟩ := applyPolicy_sub p e _ hpe
    have hc : c ∈ ct.names := htabc e (by simp) c ((s1 c).mp (by simp))
    have ho : o ∈ ot.names := htabo e (by simp) o ((s2 o).mp (by simp))
    obtain ⟨D, hD, hrow, hother⟩ := ih t' (dictWhEvent eta ct ot W c o)
      (fun x hx => htabc x (by simp [hx])) (fun x hx => htabo x (by simp [hx])) hpt
      (fun x hx => hs x (by simp [hx]))
    refine ⟨D, ?_, ?_, ?_⟩
    · simp only [dictWhLoop, hse]
      have h1 : ct.names.contains c = true := by simpa using hc
      have h2 : ot.names.contains o = true := by simpa using ho
      simp only [h1, h2, Bool.not_true, Bool.false_eq_true, if_false]
      exact hD
    · intro d hd
      rw [hrow d hd]
      unfold whR2RSpecFrom
      rw [List.foldl_cons, dictWhEvent_row eta ct ot hnc hno W c o d hd]
    · intro dl kl hn
      rw [hother dl kl hn, dictWhEvent_get eta ct ot hnc hno, if_neg hn]

/-- `weights=None` (the empty dict) denotes all zeros -/
theorem wdAtLabels_nil (rows cols : List String) :
    wdAtLabels ([] : WDict String String R) rows cols = fun _ _ => 0 := by
  funext d k
  unfold wdAtLabels wdAbs
  simp [wdRow, alGet]

/-- **`dict_wh` = the Widrow–Hoff specification, continued from the given
    `WeightDict`**, read through the labels at EVERY pair of keys -/
theorem dictWhModel_continue_get (p : DupPolicy) (eta : R) (ct ot : VecTable R)
    (hnc : ct.dims.Nodup) (hno : ot.dims.Nodup)
    (W0 : WDict String String R) (es es' : List (Event String String))
    (htabc : ∀ e ∈ es, ∀ c ∈ e.cues, c ∈ ct.names)
    (htabo : ∀ e ∈ es, ∀ o ∈ e.outcomes, o ∈ ot.names)
    (hp : applyPolicyAll p es = some es') (hs : ∀ e ∈ es', IsSingle e) :
    ∃ D, dictWhModel p eta ct ot W0 es = .ok D ∧
      ∀ dlo dlc, wdAbs D dlo dlc = if dlo ∈ ot.dims ∧ dlc ∈ ct.dims
        then whR2RSpecFrom eta ct ot (wdAtLabels W0 ot.dims ct.dims) es'
          (ot.dims.idxOf dlo) (ct.dims.idxOf dlc)
        else wdAbs W0 dlo dlc := by
  obtain ⟨D, hD, hrow, hother⟩ := dictWhLoop_spec p eta ct ot hnc hno es es' W0 htabc htabo hp hs
  refine ⟨D, hD, ?_⟩
  intro dlo dlc
  by_cases h : dlo ∈ ot.dims ∧ dlc ∈ ct.dims
  · rw [if_pos h]
    have hd := List.idxOf_lt_length_iff.mpr h.1
    have hk := List.idxOf_lt_length_iff.mpr h.2
    rw [← hrow _ hd]
    unfold wdAtLabels
    rw [if_pos ⟨hd, hk⟩, getD_eq_getElem' _ _ hd, getD_eq_getElem' _ _ hk]
    simp [List.getElem_idxOf]
  · rw [if_neg h, hother dlo dlc h]

/-- … from `weights=None`: `whR2RSpec`, zero off the tables' labels -/
theorem dictWhModel_get (p : DupPolicy) (eta : R) (ct ot : VecTable R)
    (hnc : ct.dims.Nodup) (hno : ot.dims.Nodup)
    (es es' : List (Event String String))
    (htabc : ∀ e ∈ es, ∀ c ∈ e.cues, c ∈ ct.names)
    (htabo : ∀ e ∈ es, ∀ o ∈ e.outcomes, o ∈ ot.names)
    (hp : applyPolicyAll p es = some es') (hs : ∀ e ∈ es', IsSingle e) :
    ∃ D, dictWhModel p eta ct ot [] es = .ok D ∧
      ∀ dlo dlc, wdAbs D dlo dlc = if dlo ∈ ot.dims ∧ dlc ∈ ct.dims
        then whR2RSpec eta ct ot es' (ot.dims.idxOf dlo) (ct.dims.idxOf dlc) else 0 := by
  obtain ⟨D, hD, h⟩ := dictWhModel_continue_get p eta ct ot hnc hno [] es es' htabc htabo hp hs
  refine ⟨D, hD, ?_⟩
  intro dlo dlc
  rw [h dlo dlc, wdAtLabels_nil, whR2RSpec_eq_from]
  simp [wdAbs, wdRow, alGet]

/-- two calls of `dict_wh`, the second continuing from the first one's dict,
    ARE one call over the concatenated events (the loop is a fold) -/
theorem dictWhLoop_append (p : DupPolicy) (eta : R) (ct ot : VecTable R)
    (W : WDict String String R) (xs ys : List (Event String String)) :
    dictWhLoop p eta ct ot W (xs ++ ys) =
      match dictWhLoop p eta ct ot W xs with
      | .error x => .error x
      | .ok D => dictWhLoop p eta ct ot D ys := by
  induction xs generalizing W with
  | nil => rfl
  | cons e xs ih =>
    simp only [List.cons_append, dictWhLoop]
    cases singleEvent p e with
    | error x => rfl
    | ok co =>
      obtain ⟨c, o⟩ := co
      simp only
      split
      · rfl
      · split
        · rfl
        · exact ih _

/-- the error branches of the loop: the FIRST event that is not accepted
    decides, whatever follows -/
theorem dictWhLoop_error (p : DupPolicy) (eta : R) (ct ot : VecTable R)
    (W : WDict String String R) (xs : List (Event String String)) (bad : Event String String)
    (ys : List (Event String String)) (D : WDict String String R)
    (hxs : dictWhLoop p eta ct ot W xs = .ok D) :
    (∀ x, singleEvent p bad = .error x → dictWhLoop p eta ct ot W (xs ++ bad :: ys) = .error x) ∧
    (∀ c o, singleEvent p bad = .ok (c, o) → c ∉ ct.names →
      dictWhLoop p eta ct ot W (xs ++ bad :: ys) = .error (.std .key)) ∧
    (∀ c o, singleEvent p bad = .ok (c, o) → o ∉ ot.names →
      dictWhLoop p eta ct ot W (xs ++ bad :: ys) = .error (.std .key)) := by
  refine ⟨?_, ?_, ?_⟩
  · intro x hx
    rw [dictWhLoop_append, hxs]
    simp [dictWhLoop, hx]
  · intro c o hco hc
    rw [dictWhLoop_append, hxs]
    have : ct.names.contains c = false := by simpa using hc
    simp only [dictWhLoop, hco, this, Bool.not_false, if_true]
  · intro c o hco ho
    rw [dictWhLoop_append, hxs]
    have : ot.names.contains o = false := by simpa using ho
    simp only [dictWhLoop, hco, this]
    split <;> rfl

/-! ## `wh.wh(method='numpy')` -/

theorem whNumpyStep_size (eta : R) (ct ot : VecTable R) (w : Array R) (c o : String) :
    (whNumpyStep eta ct ot w c o).size = ot.dims.length * ct.dims.length := by
  simp [whNumpyStep]

/-- **one event of the numpy loop = one delta-rule step on every row** of the
    matrix (`W += eta (o_vec − W c_vec) c_vec^T`, row `d`) -/
theorem whNumpyStep_row (eta : R) (ct ot : VecTable R) (w : Array R) (c o : String) (d : Nat)
    (hd : d < ot.dims.length) :
    rowFn ct.dims.length (whNumpyStep eta ct ot w c o) d
      = whRowReal ct.dims.length (tabInput ct [c]) (fun a => eta * (tabInput ot [o] d - a))
          (rowFn ct.dims.length w d) := by
  funext k
  by_cases hk : k < ct.dims.length
  · have hidx : flatIdx ct.dims.length d k < ot.dims.length * ct.dims.length := by
      have := flatIdx_lt (nCues := ct.dims.length) (nOut := ot.dims.length) hd hk
      rwa [Nat.mul_comm] at this
    have hdiv : flatIdx ct.dims.length d k / ct.dims.length = d := by
      unfold flatIdx; rw [Nat.mul_add_div (by omega), Nat.div_eq_of_lt hk, Nat.add_zero]
    have hmod : flatIdx ct.dims.length d k % ct.dims.length = k := by
      unfold flatIdx; rw [Nat.mul_add_mod, Nat.mod_eq_of_lt hk]
    have hc : ∀ j, ct.vals.getD (ct.dims.length * ct.names.idxOf c + j) 0 = tabInput ct [c] j := by
      intro j; simp [tabInput]
    have ho : ot.vals.getD (ot.dims.length * ot.names.idxOf o + d) 0 = tabInput ot [o] d := by
      simp [tabInput]
    have hsum : ((List.range ct.dims.length).map
          (fun j => w.getD (flatIdx ct.dims.length d j) 0 * tabInput ct [c] j)).sum
        = ((List.range ct.dims.length).map (fun j => tabInput ct [c] j *
            (if j < ct.dims.length then w.getD (flatIdx ct.dims.length d j) 0 else 0))).sum := by
      congr 1
      apply List.map_congr_left
      intro j hj
      rw [if_pos (List.mem_range.mp hj), mul_comm]
    unfold rowFn whRowReal
    simp only [hk, if_true]
    unfold whNumpyStep
    simp only
    rw [getD_ofFn, dif_pos hidx]
    simp only [hdiv, hmod]
    rw [getD_ofFn, dif_pos hd]
    simp only [hc, ho]
    rw [foldl_add_eq_sum, zero_add, hsum]
  · unfold rowFn whRowReal
    simp only [hk, if_false]

/-- the whole numpy loop: every row is the delta-rule recursion from the row
    of the initial matrix -/
theorem whNumpyLoop_spec (p : DupPolicy) (eta : R) (ct ot : VecTable R)
    (es es' : List (Event String String)) (w : Array R)
    (hsz : w.size = ot.dims.length * ct.dims.length)
    (hp : applyPolicyAll p es = some es') (hs : ∀ e ∈ es', IsSingle e) :
    ∃ w', whNumpyLoop p eta ct ot w es = .ok w' ∧ w'.size = ot.dims.length * ct.dims.length ∧
      ∀ d, d < ot.dims.length →
        rowFn ct.dims.length w' d
          = whR2RSpecFrom eta ct ot (fun d => rowFn ct.dims.length w d) es' d := by
  induction es generalizing es' w with
  | nil =>
    simp only [applyPolicyAll, Option.some.injEq] at hp
    subst hp
    exact ⟨w, rfl, hsz, fun d _ => rfl⟩
  | cons e es ih =>
    obtain ⟨e', t', hpe, hpt, rfl⟩ := applyPolicyAll_cons_some p e es es' hp
    obtain ⟨c, o, rfl, hse⟩ := (singleEvent_cases p e).2.2.2 e' hpe (hs e' (by simp))
    obtain ⟨w', hw', hsz', hrow⟩ := ih t' (whNumpyStep eta ct ot w c o) (whNumpyStep_size eta ct ot w c o) hpt
      (fun x hx => hs x (by simp [hx]))
    refine ⟨w', by simp only [whNumpyLoop, hse]; exact hw', hsz', ?_⟩
    intro d hd
    rw [hrow d hd]
    unfold whR2RSpecFrom
    dsimp only
    rw [List.foldl_cons, whNumpyStep_row eta ct ot w c o d hd]

/-- the error branches of the numpy loop: the first event that is not accepted decides -/
theorem whNumpyLoop_append (p : DupPolicy) (eta : R) (ct ot : VecTable R)
    (w : Array R) (xs ys : List (Event String String)) :
    whNumpyLoop p eta ct ot w (xs ++ ys) =
      match whNumpyLoop p eta ct ot w xs with
      | .error x => .error x
      | .ok w' => whNumpyLoop p eta ct ot w' ys := by
  induction xs generalizing w with
  | nil => rfl
  | cons e xs ih =>
    simp only [List.cons_append, whNumpyLoop]
    cases singleEvent p e with
    | error x => rfl
    | ok co => obtain ⟨c, o⟩ := co; exact ih _

/-- **`wh.wh(method='numpy', weights=w)`** for given weights whose labels are a
    permutation of the tables' dimension labels: the hypotheses and the
    conclusion of `whModel_r2r_continue_perm`, plus `hs` (single events) -/
theorem whNumpyModel_continue_perm (p : DupPolicy) (eta : R) (ct ot : VecTable R)
    (w : LW R) (es es' : List (Event String String))
    (htabc : ∀ e ∈ es, ∀ c ∈ e.cues, c ∈ ct.names)
    (htabo : ∀ e ∈ es, ∀ o ∈ e.outcomes, o ∈ ot.names)
    (hp : applyPolicyAll p es = some es') (hs : ∀ e ∈ es', IsSingle e)
    (hpo : w.outcomes.Perm ot.dims) (hpc : w.cues.Perm ct.dims)
    (hno : ot.dims.Nodup) (hnc : ct.dims.Nodup) :
    ∃ r, whNumpyModel p eta ct ot (some w) es = .ok r ∧
      r.outcomes = ot.dims ∧ r.cues = ct.dims ∧
      r.vals.size = r.outcomes.length * r.cues.length ∧
      ∀ d, d < ot.dims.length →
        r.byPos d = whR2RSpecFrom eta ct ot (w.atLabels ot.dims ct.dims) es' d := by
  have hchkc := (tableCheck_cues_iff ct.names es).mpr htabc
  have hchko := (tableCheck_outcomes_iff ot.names es).mpr htabo
  rcases hcn : countNames es with ⟨cuesEv, outsEv⟩
  rw [hcn] at hchkc hchko
  simp only at hchkc hchko
  have hleno : w.outcomes.length = ot.dims.length := hpo.length_eq
  have hlenc : w.cues.length = ct.dims.length := hpc.length_eq
  have hwno : w.outcomes.Nodup := hpo.nodup_iff.mpr hno
  have hwnc : w.cues.Nodup := hpc.nodup_iff.mpr hnc
  have hal1 : ¬ alignRaises ot.dims w.outcomes := not_alignRaises_nodup _ _ hno hwno
  have hal2 : ¬ alignRaises ct.dims w.cues := not_alignRaises_nodup _ _ hnc hwnc
  have hloc1 : locAxis w.outcomes ot.dims = none :=
    locAxis_eq_none _ _ hwno (fun d hd => hpo.mem_iff.mpr hd)
  have hloc2 : locAxis w.cues ct.dims = none :=
    locAxis_eq_none _ _ hwnc (fun d hd => hpc.mem_iff.mpr hd)
  obtain ⟨w', hw', hsz', hrow⟩ := whNumpyLoop_spec p eta ct ot es es' (realignVals w ot.dims ct.dims)
    (size_realignVals w ot.dims ct.dims) hp hs
  refine ⟨⟨ot.dims, ct.dims, w'⟩, ?_, rfl, rfl, hsz', ?_⟩
  · unfold whNumpyModel r2rInitWeights
    rw [hcn]
    simp only [hchkc, hchko, hleno, hlenc, if_false, Bool.false_eq_true, ne_eq,
      not_true_eq_false, or_self, if_neg hal1, if_neg hal2, hloc1, hloc2, hw']
  · intro d hd
    rw [LW.byPos_eq_rowFn _ d hd]
    simp only
    rw [hrow d hd]
    have : (fun d => rowFn ct.dims.length (realignVals w ot.dims ct.dims) d) d
        = w.atLabels ot.dims ct.dims d := rowFn_realignVals w ot.dims ct.dims d hd
    unfold whR2RSpecFrom
    rw [this]

/-- **`wh.wh(method='numpy')` from `weights=None` = `whR2RSpec`** (no hypothesis
    on the dimension labels) -/
theorem whNumpyModel_eq_spec (p : DupPolicy) (eta : R) (ct ot : VecTable R)
    (es es' : List (Event String String))
    (htabc : ∀ e ∈ es, ∀ c ∈ e.cues, c ∈ ct.names)
    (htabo : ∀ e ∈ es, ∀ o ∈ e.outcomes, o ∈ ot.names)
    (hp : applyPolicyAll p es = some es') (hs : ∀ e ∈ es', IsSingle e) :
    ∃ r, whNumpyModel p eta ct ot none es = .ok r ∧
      r.outcomes = ot.dims ∧ r.cues = ct.dims ∧
      r.vals.size = r.outcomes.length * r.cues.length ∧
      ∀ d, d < ot.dims.length → r.byPos d = whR2RSpec eta ct ot es' d := by
  have hchkc := (tableCheck_cues_iff ct.names es).mpr htabc
  have hchko := (tableCheck_outcomes_iff ot.names es).mpr htabo
  rcases hcn : countNames es with ⟨cuesEv, outsEv⟩
  rw [hcn] at hchkc hchko
  simp only at hchkc hchko
  obtain ⟨w', hw', hsz', hrow⟩ := whNumpyLoop_spec p eta ct ot es es'
    (Array.replicate (ot.dims.length * ct.dims.length) 0) (by simp) hp hs
  refine ⟨⟨ot.dims, ct.dims, w'⟩, ?_, rfl, rfl, hsz', ?_⟩
  · unfold whNumpyModel r2rInitWeights
    rw [hcn]
    simp only [hchkc, hchko, if_false, Bool.false_eq_true, hw']
  · intro d hd
    rw [LW.byPos_eq_rowFn _ d hd]
    simp only
    rw [hrow d hd, whR2RSpec_eq_from]
    unfold whR2RSpecFrom
    dsimp only
    rw [rowFn_replicate_zero]

/-- the table check of the numpy branch: a name without a vector ⇒ `ValueError`
    before anything else (also before an `AssertionError` of an earlier event) -/
theorem whNumpyModel_tableError (p : DupPolicy) (eta : R) (ct ot : VecTable R)
    (W0 : Option (LW R)) (es : List (Event String String))
    (hbad : (∃ e ∈ es, ∃ c ∈ e.cues, c ∉ ct.names) ∨ (∃ e ∈ es, ∃ o ∈ e.outcomes, o ∉ ot.names)) :
    whNumpyModel p eta ct ot W0 es = .error (.std .value) := by
  have hchk : (countNames es).2.any (fun o => !ot.names.contains o) = true ∨
      (countNames es).1.any (fun c => !ct.names.contains c) = true := by
    rcases hbad with ⟨e, he, c, hc, hn⟩ | ⟨e, he, o, ho, hn⟩
    · right
      cases h : (countNames es).1.any (fun c => !ct.names.contains c) with
      | true => rfl
      | false => exact absurd ((tableCheck_cues_iff ct.names es).mp h e he c hc) hn
    · left
      cases h : (countNames es).2.any (fun o => !ot.names.contains o) with
      | true => rfl
      | false => exact absurd ((tableCheck_outcomes_iff ot.names es).mp h e he o ho) hn
  rcases hcn : countNames es with ⟨cuesEv, outs⟩
  rw [hcn] at hchk
  unfold whNumpyModel
  rw [hcn]
  simp only
  rcases hchk with h | h
  · simp only [h, if_true]
  · cases h' : outs.any (fun o => !ot.names.contains o) with
    | true => simp only [if_true]
    | false => simp only [h, if_true, Bool.false_eq_true, if_false]

/-- the event errors of the numpy branch (tables fine, `weights=None`): the
    first event that is not accepted decides -/
theorem whNumpyModel_eventError (p : DupPolicy) (eta : R) (ct ot : VecTable R)
    (xs : List (Event String String)) (bad : Event String String) (ys : List (Event String String))
    (xs' : List (Event String String)) (x : PyErr)
    (htabc : ∀ e ∈ xs ++ bad :: ys, ∀ c ∈ e.cues, c ∈ ct.names)
    (htabo : ∀ e ∈ xs ++ bad :: ys, ∀ o ∈ e.outcomes, o ∈ ot.names)
    (hp : applyPolicyAll p xs = some xs') (hs : ∀ e ∈ xs', IsSingle e)
    (hbad : singleEvent p bad = .error x) :
    whNumpyModel p eta ct ot none (xs ++ bad :: ys) = .error x := by
  have hchkc := (tableCheck_cues_iff ct.names _).mpr htabc
  have hchko := (tableCheck_outcomes_iff ot.names _).mpr htabo
  rcases hcn : countNames (xs ++ bad :: ys) with ⟨cuesEv, outsEv⟩
  rw [hcn] at hchkc hchko
  simp only at hchkc hchko
  obtain ⟨w', hw', _, _⟩ := whNumpyLoop_spec p eta ct ot xs xs'
    (Array.replicate (ot.dims.length * ct.dims.length) 0) (by simp) hp hs
  unfold whNumpyModel r2rInitWeights
  rw [hcn]
  simp only [hchkc, hchko, if_false, Bool.false_eq_true, whNumpyLoop_append, hw', whNumpyLoop, hbad]

/-! ## equal to the OpenMP model -/

/-- two labelled matrices with the same labels, full value arrays and the same
    rows by position are EQUAL -/
theorem LW.ext_byPos (a b : LW R) (ho : a.outcomes = b.outcomes) (hc : a.cues = b.cues)
    (hsa : a.vals.size = a.outcomes.length * a.cues.length)
    (hsb : b.vals.size = b.outcomes.length * b.cues.length)
    (h : ∀ d, d < a.outcomes.length → a.byPos d = b.byPos d) : a = b := by
  obtain ⟨ao, ac, av⟩ := a
  obtain ⟨bo, bc, bv⟩ := b
  simp only at ho hc hsa hsb h
  subst ho hc
  congr 1
  apply Array.ext
  · rw [hsa, hsb]
  · intro i h1 h2
    have hi : i < ao.length * ac.length := by rw [← hsa]; exact h1
    have hpos : 0 < ac.length := by
      rcases Nat.eq_zero_or_pos ac.length with h0 | h0
      · rw [h0] at hi; simp at hi
      · exact h0
    have hd : i / ac.length < ao.length := Nat.div_lt_of_lt_mul (by rwa [Nat.mul_comm] at hi)
    have hk : i % ac.length < ac.length := Nat.mod_lt _ hpos
    have hdm : i / ac.length * ac.length + i % ac.length = i := by
      rw [Nat.mul_comm]; exact Nat.div_add_mod i ac.length
    have := congrFun (h _ hd) (i % ac.length)
    unfold LW.byPos at this
    simp only [hd, hk, and_self, if_true, hdm] at this
    simpa [Array.getD_eq_getD_getElem?, h1, h2] using this

/-- **numpy = OpenMP, from `weights=None`**: on event lists whose events have
    exactly one cue and one outcome after the policy, `wh.wh(method='numpy')`
    returns THE SAME labelled matrix as `wh.wh(method='openmp')`, for every
    `n_outcomes_per_job ≥ 1` -/
theorem whNumpyModel_eq_whModel (p : DupPolicy) (eta β₁ β₂ lam : R) (ct ot : VecTable R)
    (chunk : Nat) (hc : 1 ≤ chunk) (es es' : List (Event String String))
    (htabc : ∀ e ∈ es, ∀ c ∈ e.cues, c ∈ ct.names)
    (htabo : ∀ e ∈ es, ∀ o ∈ e.outcomes, o ∈ ot.names)
    (hp : applyPolicyAll p es = some es') (hs : ∀ e ∈ es', IsSingle e) :
    ∃ r, whNumpyModel p eta ct ot none es = .ok r ∧
      whModel .r2r p eta β₁ β₂ lam (some ct) (some ot) chunk none es = .ok r := by
  obtain ⟨r, h1, h2, h3, h4, h5⟩ := whNumpyModel_eq_spec p eta ct ot es es' htabc htabo hp hs
  obtain ⟨r', g1, g2, g3, g4, g5⟩ :=
    whModel_r2r_eq_spec_names p eta β₁ β₂ lam ct ot chunk hc es es' htabc htabo hp
  have : r = r' := by
    apply LW.ext_byPos r r' (h2.trans g2.symm) (h3.trans g3.symm) h4
      (by rw [g4, g2, g3, Nat.mul_comm])
    intro d hd
    rw [h2] at hd
    rw [h5 d hd]
    funext k
    unfold LW.byPos
    rw [g2, g3]
    by_cases hk : k < ct.dims.length
    · rw [if_pos ⟨hd, hk⟩, g5 d hd k hk]
    · rw [if_neg (fun h => hk h.2)]
      unfold whR2RSpec
      exact (foldl_invariant (fun r : Nat → R => r k = 0) _ es'
        (fun r hr e _ => by simp only [whRowReal, hk, if_false]; exact hr) (fun _ => 0) rfl)
  exact ⟨r, h1, this ▸ g1⟩

/-- **numpy = OpenMP, continued from given weights** (labels a permutation of
    the tables' dimension labels) -/
theorem whNumpyModel_eq_whModel_continue (p : DupPolicy) (eta β₁ β₂ lam : R) (ct ot : VecTable R)
    (chunk : Nat) (hc : 1 ≤ chunk) (w : LW R) (es es' : List (Event String String))
    (htabc : ∀ e ∈ es, ∀ c ∈ e.cues, c ∈ ct.names)
    (htabo : ∀ e ∈ es, ∀ o ∈ e.outcomes, o ∈ ot.names)
    (hp : applyPolicyAll p es = some es') (hs : ∀ e ∈ es', IsSingle e)
    (hpo : w.outcomes.Perm ot.dims) (hpc : w.cues.Perm ct.dims)
    (hno : ot.dims.Nodup) (hnc : ct.dims.Nodup) :
    ∃ r, whNumpyModel p eta ct ot (some w) es = .ok r ∧
      whModel .r2r p eta β₁ β₂ lam (some ct) (some ot) chunk (some w) es = .ok r := by
  obtain ⟨r, h1, h2, h3, h4, h5⟩ :=
    whNumpyModel_continue_perm p eta ct ot w es es' htabc htabo hp hs hpo hpc hno hnc
  obtain ⟨r', g1, g2, g3, g4, g5⟩ :=
    whModel_r2r_continue_perm p eta β₁ β₂ lam ct ot chunk hc w es es' htabc htabo hp hpo hpc hno hnc
  have : r = r' := by
    apply LW.ext_byPos r r' (h2.trans g2.symm) (h3.trans g3.symm) h4 g4
    intro d hd
    rw [h2] at hd
    rw [h5 d hd, g5 d hd]
  exact ⟨r, h1, this ▸ g1⟩

/-- **`dict_wh` = OpenMP, from `weights=None`**, read through the labels at
    EVERY pair of keys — also after `make_data_array=True` -/
theorem dictWhModel_eq_whModel (p : DupPolicy) (eta β₁ β₂ lam : R) (ct ot : VecTable R)
    (hnc : ct.dims.Nodup) (hno : ot.dims.Nodup)
    (chunk : Nat) (hc : 1 ≤ chunk) (es es' : List (Event String String))
    (htabc : ∀ e ∈ es, ∀ c ∈ e.cues, c ∈ ct.names)
    (htabo : ∀ e ∈ es, ∀ o ∈ e.outcomes, o ∈ ot.names)
    (hp : applyPolicyAll p es = some es') (hs : ∀ e ∈ es', IsSingle e) :
    ∃ D r, dictWhModel p eta ct ot [] es = .ok D ∧
      dictWhModelArray p eta ct ot [] es = .ok (lwFromDict D) ∧
      whModel .r2r p eta β₁ β₂ lam (some ct) (some ot) chunk none es = .ok r ∧
      (∀ dlo dlc, wdAbs D dlo dlc = r.get dlo dlc) ∧
      (∀ dlo dlc, (lwFromDict D).get dlo dlc = r.get dlo dlc) := by
  obtain ⟨D, hD, hget⟩ := dictWhModel_get p eta ct ot hnc hno es es' htabc htabo hp hs
  obtain ⟨r, g1, g2, g3, g4, g5⟩ :=
    whModel_r2r_eq_spec_names p eta β₁ β₂ lam ct ot chunk hc es es' htabc htabo hp
  have hall : ∀ dlo dlc, wdAbs D dlo dlc = r.get dlo dlc := by
    intro dlo dlc
    rw [hget, LW.get_eq_byPos, g2, g3]
    by_cases h : dlo ∈ ot.dims ∧ dlc ∈ ct.dims
    · have hd := List.idxOf_lt_length_iff.mpr h.1
      have hk := List.idxOf_lt_length_iff.mpr h.2
      rw [if_pos h, if_pos h]
      unfold LW.byPos
      rw [g2, g3, if_pos ⟨hd, hk⟩, g5 _ hd _ hk]
    · rw [if_neg h, if_neg h]
  refine ⟨D, r, hD, by simp [dictWhModelArray, hD], g1, hall, ?_⟩
  intro dlo dlc
  rw [lwFromDict_get, hall]

/-! ## two calls, the second continuing from the first one's result -/

/-- `dict_wh` twice (the second call gets the first one's `WeightDict`) IS
    `dict_wh` once over the concatenated events — same dict, same error -/
theorem dictWhModel_two_calls (p : DupPolicy) (eta : R) (ct ot : VecTable R)
    (W0 D1 : WDict String String R) (xs ys : List (Event String String))
    (h1 : dictWhModel p eta ct ot W0 xs = .ok D1) :
    dictWhModel p eta ct ot D1 ys = dictWhModel p eta ct ot W0 (xs ++ ys) := by
  unfold dictWhModel at *
  rw [dictWhLoop_append, h1]

/-- `wh.wh(method='numpy')` twice (the second call gets the first one's
    DataArray as `weights=`; the duplicate policies may differ): both calls
    succeed and the final matrix is `whR2RSpec` over the concatenated
    policy-processed events — by `whR2RSpecFrom_append` -/
theorem whNumpyModel_two_calls (p₁ p₂ : DupPolicy) (eta : R) (ct ot : VecTable R)
    (hno : ot.dims.Nodup) (hnc : ct.dims.Nodup)
    (xs xs' ys ys' : List (Event String String))
    (htabc : ∀ e ∈ xs ++ ys, ∀ c ∈ e.cues, c ∈ ct.names)
    (htabo : ∀ e ∈ xs ++ ys, ∀ o ∈ e.outcomes, o ∈ ot.names)
    (hpx : applyPolicyAll p₁ xs = some xs') (hsx : ∀ e ∈ xs', IsSingle e)
    (hpy : applyPolicyAll p₂ ys = some ys') (hsy : ∀ e ∈ ys', IsSingle e) :
    ∃ r₁ r₂, whNumpyModel p₁ eta ct ot none xs = .ok r₁ ∧
      whNumpyModel p₂ eta ct ot (some r₁) ys = .ok r₂ ∧
      r₂.outcomes = ot.dims ∧ r₂.cues = ct.dims ∧
      ∀ d, d < ot.dims.length → r₂.byPos d = whR2RSpec eta ct ot (xs' ++ ys') d := by
  obtain ⟨r₁, a1, a2, a3, a4, a5⟩ := whNumpyModel_eq_spec p₁ eta ct ot xs xs'
    (fun e he => htabc e (by simp [he])) (fun e he => htabo e (by simp [he])) hpx hsx
  obtain ⟨r₂, b1, b2, b3, b4, b5⟩ := whNumpyModel_continue_perm p₂ eta ct ot r₁ ys ys'
    (fun e he => htabc e (by simp [he])) (fun e he => htabo e (by simp [he])) hpy hsy
    (a2 ▸ List.Perm.refl _) (a3 ▸ List.Perm.refl _) hno hnc
  refine ⟨r₁, r₂, a1, b1, b2, b3, ?_⟩
  intro d hd
  rw [b5 d hd, whR2RSpec_eq_from, whR2RSpecFrom_append]
  apply whR2RSpecFrom_congr
  rw [← a2, ← a3, LW.atLabels_self r₁ (a2 ▸ hno) (a3 ▸ hnc), a5 d hd, whR2RSpec_eq_from]

end Pyndl
