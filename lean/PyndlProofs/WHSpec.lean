/-
  PyndlProofs.WHSpec — `pyndl.wh.wh` end to end, started from scratch
  (`weights=None`): the model `whModel` of `wh.py` returns the labelled matrix
  whose rows are the Widrow–Hoff delta-rule recursion over the
  (policy-processed) events in order, for every chunk size
  (`n_outcomes_per_job`) ≥ 1.

  Template: `PyndlProofs.NdlSpec.ndlModel_eq_spec`.
-/
import PyndlModel.WHModel
import PyndlProofs.WH
import PyndlProofs.NdlSpec

set_option linter.unusedSectionVars false
set_option linter.unusedSimpArgs false
set_option linter.unusedVariables false

namespace Pyndl
open List

variable {R : Type} [CommRing R]

/-! ## the duplicate policy on id events (`applyPolicyIds`) -/

/-- `applyPolicyIds` is `applyPolicyAll` with `none` reported as `ValueError` -/
theorem applyPolicyIds_eq (p : DupPolicy) (ids : List (Event Nat Nat)) :
    applyPolicyIds p ids = match applyPolicyAll p ids with
      | none => .error .value
      | some r => .ok r := by
  induction ids with
  | nil => rfl
  | cons e es ih =>
    simp only [applyPolicyIds, applyPolicyAll]
    cases h1 : applyPolicy p e with
    | none => rfl
    | some e' =>
      simp only [ih]
      cases h2 : applyPolicyAll p es with
      | none => rfl
      | some r => rfl

theorem applyPolicyIds_ok_iff (p : DupPolicy) (ids ids' : List (Event Nat Nat)) :
    applyPolicyIds p ids = .ok ids' ↔ applyPolicyAll p ids = some ids' := by
  rw [applyPolicyIds_eq]
  cases h : applyPolicyAll p ids with
  | none => simp
  | some r => simp

/-- the only error `applyPolicyIds` can report is `ValueError` (a duplicate
    under `remove_duplicates=None`) -/
theorem applyPolicyIds_error (p : DupPolicy) (ids : List (Event Nat Nat)) (x : Err)
    (h : applyPolicyIds p ids = .error x) : x = .value ∧ applyPolicyAll p ids = none := by
  rw [applyPolicyIds_eq] at h
  cases h2 : applyPolicyAll p ids with
  | none => rw [h2] at h; simp only [Except.error.injEq] at h; exact ⟨h.symm, rfl⟩
  | some r => rw [h2] at h; cases h

/-! ## the table check -/

/-- the check `set(cues_from_events) - set(cues)` (wh.py) is empty iff every cue
    of every event is a name of the cue table -/
theorem tableCheck_cues_iff (names : List String) (es : List (Event String String)) :
    (countNames es).1.any (fun c => !names.contains c) = false ↔ ∀ e ∈ es, ∀ c ∈ e.cues, c ∈ names := by
  constructor
  · intro h e he c hc
    have hm := (countNames_mem es e he).1 c hc
    have := List.any_eq_false.mp h c hm
    simpa using this
  · intro h
    apply List.any_eq_false.mpr
    intro c hc
    unfold countNames at hc
    have hc' := (mem_dedupKeepFirst _ c).mp hc
    obtain ⟨e, he, hce⟩ := List.mem_flatMap.mp hc'
    simpa using h e he c hce

/-- the same for the outcome side (`set(outcomes_from_events) - set(outcomes)`) -/
theorem tableCheck_outcomes_iff (names : List String) (es : List (Event String String)) :
    (countNames es).2.any (fun o => !names.contains o) = false ↔ ∀ e ∈ es, ∀ o ∈ e.outcomes, o ∈ names := by
  constructor
  · intro h e he o ho
    have hm := (countNames_mem es e he).2 o ho
    have := List.any_eq_false.mp h o hm
    simpa using this
  · intro h
    apply List.any_eq_false.mpr
    intro o ho
    unfold countNames at ho
    have ho' := (mem_dedupKeepFirst _ o).mp ho
    obtain ⟨e, he, hoe⟩ := List.mem_flatMap.mp ho'
    simpa using h e he o hoe

/-- reading cell `(i, k)` of a row-major matrix with `n` columns is `rowFn` -/
theorem getD_eq_rowFn (n : Nat) (w : Array R) (i k : Nat) (hk : k < n) :
    w.getD (i * n + k) 0 = rowFn n w i k := by
  unfold rowFn flatIdx
  rw [if_pos hk, Nat.mul_comm]

/-! ## shape of the result of an OpenMP entry point -/

theorem foldl_invariant {α β : Type} (P : β → Prop) (g : β → α → β) (l : List α)
    (h : ∀ b, P b → ∀ a ∈ l, P (g b a)) (b : β) (hb : P b) : P (l.foldl g b) := by
  induction l generalizing b with
  | nil => exact hb
  | cons a l ih =>
    simp only [List.foldl_cons]
    exact ih (fun b hb x hx => h b hb x (by simp [hx])) _ (h b hb a (by simp))

/-- a row kernel keeps the size of the flat weight array -/
theorem learnOmpWith_size {n nOut : Nat} {ok : Event Nat Nat → Prop}
    {step : Array R → Nat → Event Nat Nat → Array R}
    {f : Nat → (Nat → R) → Event Nat Nat → (Nat → R)} (h : RowStep n nOut ok step f)
    (files : List (List (Event Nat Nat))) (chunk : Nat) (hc : 1 ≤ chunk)
    (hev : ∀ e ∈ files.flatten, ok e) (w : Array R) (hw : w.size = n * nOut) :
    (learnOmpWith step files (List.range nOut) chunk w).size = n * nOut := by
  have hfl := ompParts_flatten (List.range nOut) chunk hc
  unfold learnOmpWith
  refine foldl_invariant (fun w => w.size = n * nOut) _ files ?_ w hw
  intro w hw es hes
  refine foldl_invariant (fun w => w.size = n * nOut) _ _ ?_ w hw
  intro w hw part hpart
  refine foldl_invariant (fun w => w.size = n * nOut) _ es ?_ w hw
  intro w hw e he
  refine foldl_invariant (fun w => w.size = n * nOut) _ part ?_ w hw
  intro w hw o ho
  have hmem : o ∈ (ompParts (List.range nOut) chunk).flatten := List.mem_flatten.mpr ⟨part, hpart, ho⟩
  rw [hfl] at hmem
  exact (h.spec w hw o (List.mem_range.mp hmem) e (hev e (List.mem_flatten.mpr ⟨es, hes, he⟩))).1

/-! ## real cue vectors → binary outcomes (`_wh_real_to_binary`) -/

/-- **`wh.wh` (real cue vectors → binary outcomes) = delta rule on the id
    events, end to end**, training from scratch.

    Hypotheses and their Python counterparts (wh.py `_wh_real_to_binary`):
    * `hc : 1 ≤ chunk` — `n_outcomes_per_job ≥ 1` (the OpenMP entry point is
      called with this chunk size; the model reports an error otherwise);
    * `htab` — every cue of every event is a row label of `cue_vectors`
      (otherwise `set(cues_from_events) - set(cues)` is non-empty and wh.py
      raises `ValueError`, see `whModel_r2b_tableError`);
    * `hp` — the duplicate policy (`remove_duplicates`) accepts the events after
      the id maps: cue id = row position in the cue table, outcome id =
      position in counting order (`outcome_map`);
    * `events_per_temporary_file` does not occur: the kernel reads the chunk
      files one after the other, the model concatenates (one "file").

    Conclusion: the call succeeds; the outcome labels are the outcomes in
    counting order, the cue labels are the cue vector dimensions, and the row
    of every outcome `o` is the delta-rule recursion `whRowReal` over the
    policy-processed id events in order, started from zero — independently of
    `chunk`. -/
theorem whModel_r2b_eq_spec (p : DupPolicy) (eta β₁ β₂ lam : R) (ct : VecTable R)
    (chunk : Nat) (hc : 1 ≤ chunk) (es : List (Event String String)) (ids' : List (Event Nat Nat))
    (htab : ∀ e ∈ es, ∀ c ∈ e.cues, c ∈ ct.names)
    (hp : applyPolicyIds p (es.map (toIds ct.names (countNames es).2)) = .ok ids') :
    ∃ w, whModel .r2b p eta β₁ β₂ lam (some ct) none chunk none es = .ok w ∧
      w.outcomes = (countNames es).2 ∧ w.cues = ct.dims ∧
      w.vals.size = ct.dims.length * (countNames es).2.length ∧
      ∀ o ∈ (countNames es).2, ∀ k, k < ct.dims.length →
        w.vals.getD ((countNames es).2.idxOf o * ct.dims.length + k) 0
          = (ids'.foldl (fun r e => whRowReal ct.dims.length
              (fun k => summedCue ct.vals ct.dims.length k e.cues)
              (fun a => if (countNames es).2.idxOf o ∈ e.outcomes then β₁ * (lam - a) else β₂ * (0 - a)) r)
              (fun _ => 0)) k := by
  have hchk := (tableCheck_cues_iff ct.names es).mpr htab
  rcases hcn : countNames es with ⟨cuesEv, outs⟩
  rw [hcn] at hchk hp
  simp only at hchk hp ⊢
  have hw0 : (Array.replicate (outs.length * ct.dims.length) (0 : R)).size = ct.dims.length * outs.length := by
    rw [Array.size_replicate, Nat.mul_comm]
  have hstep := whR2B_rowstep β₁ β₂ lam ct.vals ct.dims.length outs.length
  have hrow := fun i hi => learnOmpWith_row hstep [ids'] chunk hc (fun _ _ => trivial) _ hw0 i hi
  have hsize : (learnOmpWith
      (fun w ii e => whR2BRowEvent β₁ β₂ lam ct.vals ct.dims.length w ii e.cues e.outcomes)
      [ids'] (List.range outs.length) chunk (Array.replicate (outs.length * ct.dims.length) (0 : R))).size
        = ct.dims.length * outs.length := by
    exact learnOmpWith_size hstep [ids'] chunk hc (fun _ _ => trivial) _ hw0
  refine ⟨⟨outs, ct.dims, learnOmpWith
      (fun w ii e => whR2BRowEvent β₁ β₂ lam ct.vals ct.dims.length w ii e.cues e.outcomes)
      [ids'] (List.range outs.length) chunk (Array.replicate (outs.length * ct.dims.length) (0 : R))⟩,
    ?_, rfl, rfl, hsize, ?_⟩
  · unfold whModel
    rw [hcn]
    have h2 : ¬ chunk < 1 := by omega
    simp only [hchk, hp, h2, if_false, Bool.false_eq_true]
  · intro o ho k hk
    have hi : outs.idxOf o < outs.length := List.idxOf_lt_length_iff.mpr ho
    rw [getD_eq_rowFn _ _ _ _ hk, hrow _ hi, rowFn_replicate_zero]
    simp only [List.flatten_cons, List.flatten_nil, List.append_nil]

/-- the table check of `_wh_real_to_binary` fails ⇒ `ValueError`, whatever else -/
theorem whModel_r2b_tableError (p : DupPolicy) (eta β₁ β₂ lam : R) (ct : VecTable R)
    (chunk : Nat) (W0 : Option (LW R)) (es : List (Event String String))
    (hbad : ∃ e ∈ es, ∃ c ∈ e.cues, c ∉ ct.names) :
    whModel .r2b p eta β₁ β₂ lam (some ct) none chunk W0 es = .error .value := by
  have hchk : (countNames es).1.any (fun c => !ct.names.contains c) = true := by
    cases h : (countNames es).1.any (fun c => !ct.names.contains c) with
    | true => rfl
    | false =>
      obtain ⟨e, he, c, hc, hn⟩ := hbad
      exact absurd ((tableCheck_cues_iff ct.names es).mp h e he c hc) hn
  rcases hcn : countNames es with ⟨cuesEv, outs⟩
  rw [hcn] at hchk
  unfold whModel
  rw [hcn]
  simp only [hchk, if_true]

/-- the policy rejects (a duplicate under `remove_duplicates=None`) ⇒ `ValueError` -/
theorem whModel_r2b_policyError (p : DupPolicy) (eta β₁ β₂ lam : R) (ct : VecTable R)
    (chunk : Nat) (es : List (Event String String))
    (htab : ∀ e ∈ es, ∀ c ∈ e.cues, c ∈ ct.names)
    (hp : applyPolicyAll p (es.map (toIds ct.names (countNames es).2)) = none) :
    whModel .r2b p eta β₁ β₂ lam (some ct) none chunk none es = .error .value := by
  have hchk := (tableCheck_cues_iff ct.names es).mpr htab
  have hp' : applyPolicyIds p (es.map (toIds ct.names (countNames es).2)) = .error .value := by
    rw [applyPolicyIds_eq, hp]
  rcases hcn : countNames es with ⟨cuesEv, outs⟩
  rw [hcn] at hchk hp'
  simp only at hchk hp'
  unfold whModel
  rw [hcn]
  simp only [hchk, hp', if_false, Bool.false_eq_true]

/-! ## the specification on names -/

/-- the input vector of an event: the sum of the table rows of the named items,
    dimension `k` (`vals[nDims * position(name) + k]`, row-major table) -/
def tabInput (t : VecTable R) (names : List String) (k : Nat) : R :=
  (names.map (fun c => t.vals.getD (t.dims.length * t.names.idxOf c + k) 0)).sum

theorem summedCue_map_idxOf (t : VecTable R) (names : List String) (k : Nat) :
    summedCue t.vals t.dims.length k (names.map (t.names.idxOf ·)) = tabInput t names k := by
  unfold summedCue tabInput
  rw [foldl_add_eq_sum, zero_add, List.map_map]
  rfl

theorem summedOut_map_idxOf (t : VecTable R) (names : List String) (d : Nat) :
    summedOut t.vals t.dims.length d (names.map (t.names.idxOf ·)) = tabInput t names d := by
  unfold summedOut tabInput
  rw [foldl_add_eq_sum, zero_add, List.map_map]
  rfl

theorem foldl_congr_mem {α β : Type} (f g : β → α → β) (l : List α)
    (h : ∀ b, ∀ a ∈ l, f b a = g b a) (b : β) : l.foldl f b = l.foldl g b := by
  induction l generalizing b with
  | nil => rfl
  | cons a l ih =>
    simp only [List.foldl_cons]
    rw [h b a (by simp)]
    exact ih (fun b x hx => h b x (by simp [hx])) _

/-- Widrow–Hoff, real cue vectors → binary outcomes, ON NAMES: the weight row of
    outcome `o` (a function of the cue vector dimension) after the events `es`,
    started from zero.  Input of an event = sum of the cue vectors of its cues
    (with multiplicity); target = `lam` if `o` is among its outcomes, else 0,
    with learning rates `β₁` / `β₂`. -/
def whR2BSpec (β₁ β₂ lam : R) (ct : VecTable R) (es : List (Event String String)) (o : String) : Nat → R :=
  es.foldl (fun r e => whRowReal ct.dims.length (tabInput ct e.cues)
    (fun a => if o ∈ e.outcomes then β₁ * (lam - a) else β₂ * (0 - a)) r) (fun _ => 0)

/-- the policy on names and the policy on ids correspond, for id maps that are
    positions in lists containing all names of the events -/
theorem applyPolicyIds_toIds (p : DupPolicy) (cues outs : List String) (es es' : List (Event String String))
    (hcs : ∀ e ∈ es, ∀ c ∈ e.cues, c ∈ cues) (hos : ∀ e ∈ es, ∀ o ∈ e.outcomes, o ∈ outs)
    (hp : applyPolicyAll p es = some es') :
    applyPolicyIds p (es.map (toIds cues outs)) = .ok (es'.map (toIds cues outs)) := by
  rw [applyPolicyIds_ok_iff]
  exact applyPolicyAll_map (cues.idxOf ·) (outs.idxOf ·) p es es'
    (fun e he a ha b hb hab => idxOf_injOn cues a b (hcs e he a ha) (hcs e he b hb) hab)
    (fun e he a ha b hb hab => idxOf_injOn outs a b (hos e he a ha) (hos e he b hb) hab) hp

/-- the policy rejects on names ⇒ it rejects on ids -/
theorem applyPolicyAll_toIds_none (p : DupPolicy) (cues outs : List String) (es : List (Event String String))
    (hcs : ∀ e ∈ es, ∀ c ∈ e.cues, c ∈ cues) (hos : ∀ e ∈ es, ∀ o ∈ e.outcomes, o ∈ outs)
    (hp : applyPolicyAll p es = none) : applyPolicyAll p (es.map (toIds cues outs)) = none := by
  induction es with
  | nil => simp [applyPolicyAll] at hp
  | cons e es ih =>
    have hm : applyPolicy p (toIds cues outs e) = (applyPolicy p e).map
        (fun e' => (⟨e'.cues.map (cues.idxOf ·), e'.outcomes.map (outs.idxOf ·)⟩ : Event Nat Nat)) :=
      applyPolicy_map (cues.idxOf ·) (outs.idxOf ·) p e
        (fun a ha b hb hab => idxOf_injOn cues a b (hcs e (by simp) a ha) (hcs e (by simp) b hb) hab)
        (fun a ha b hb hab => idxOf_injOn outs a b (hos e (by simp) a ha) (hos e (by simp) b hb) hab)
    simp only [List.map_cons, applyPolicyAll] at hp ⊢
    rw [hm]
    cases h1 : applyPolicy p e with
    | none => rfl
    | some e' =>
      rw [h1] at hp
      simp only [Option.map_some]
      cases h2 : applyPolicyAll p es with
      | none =>
        have := ih (fun x hx => hcs x (by simp [hx])) (fun x hx => hos x (by simp [hx])) h2
        rw [this]
      | some r => rw [h2] at hp; cases hp

/-- policy-processed events only mention names of the original events -/
theorem applyPolicyAll_names (p : DupPolicy) (es es' : List (Event String String))
    (hp : applyPolicyAll p es = some es') (S T : String → Prop)
    (hcs : ∀ e ∈ es, ∀ c ∈ e.cues, S c) (hos : ∀ e ∈ es, ∀ o ∈ e.outcomes, T o) :
    ∀ e' ∈ es', (∀ c ∈ e'.cues, S c) ∧ (∀ o ∈ e'.outcomes, T o) := by
  intro e' he'
  obtain ⟨e, he, hpe⟩ := applyPolicyAll_mem p es es' hp e' he'
  obtain ⟨s1, s2, _, _⟩ := applyPolicy_sub p e e' hpe
  exact ⟨fun c hc => hcs e he c ((s1 c).mp hc), fun o ho => hos e he o ((s2 o).mp ho)⟩

/-- **`wh.wh` (real cue vectors → binary outcomes) = Widrow–Hoff specification on
    names, end to end**, training from scratch: if all event cues are in the cue
    table (`htab`, else `ValueError`) and the duplicate policy accepts the events
    (`hp`, else `ValueError`), then for every `n_outcomes_per_job ≥ 1` the call
    succeeds, labels the rows by the outcomes in counting order and the columns
    by the cue vector dimensions, and the row of every outcome is `whR2BSpec`
    on the policy-processed events. -/
theorem whModel_r2b_eq_spec_names (p : DupPolicy) (eta β₁ β₂ lam : R) (ct : VecTable R)
    (chunk : Nat) (hc : 1 ≤ chunk) (es es' : List (Event String String))
    (htab : ∀ e ∈ es, ∀ c ∈ e.cues, c ∈ ct.names)
    (hp : applyPolicyAll p es = some es') :
    ∃ w, whModel .r2b p eta β₁ β₂ lam (some ct) none chunk none es = .ok w ∧
      w.outcomes = (countNames es).2 ∧ w.cues = ct.dims ∧
      w.vals.size = ct.dims.length * (countNames es).2.length ∧
      ∀ o ∈ (countNames es).2, ∀ k, k < ct.dims.length →
        w.vals.getD ((countNames es).2.idxOf o * ct.dims.length + k) 0 = whR2BSpec β₁ β₂ lam ct es' o k := by
  have hos : ∀ e ∈ es, ∀ o ∈ e.outcomes, o ∈ (countNames es).2 := fun e he => (countNames_mem es e he).2
  have hpid := applyPolicyIds_toIds p ct.names (countNames es).2 es es' htab hos hp
  obtain ⟨w, h1, h2, h3, h4, h5⟩ := whModel_r2b_eq_spec p eta β₁ β₂ lam ct chunk hc es _ htab hpid
  refine ⟨w, h1, h2, h3, h4, ?_⟩
  intro o ho k hk
  rw [h5 o ho k hk, List.foldl_map]
  unfold whR2BSpec
  have hes' := applyPolicyAll_names p es es' hp (· ∈ ct.names) (· ∈ (countNames es).2) htab hos
  refine congrFun (foldl_congr_mem _ _ es' ?_ _) k
  intro r e he
  have hmem : (countNames es).2.idxOf o ∈ (toIds ct.names (countNames es).2 e).outcomes ↔ o ∈ e.outcomes :=
    mem_map_injOn ((countNames es).2.idxOf ·) o e.outcomes
      (fun x hx hxo => idxOf_injOn _ x o ((hes' e he).2 x hx) ho hxo)
  have hin : (fun k => summedCue ct.vals ct.dims.length k (toIds ct.names (countNames es).2 e).cues)
      = tabInput ct e.cues := by
    funext k; exact summedCue_map_idxOf ct e.cues k
  rw [hin]
  simp only [hmem]

/-- the policy rejects the events (a cue or outcome occurs twice in an event under
    `remove_duplicates=None`) ⇒ `ValueError` -/
theorem whModel_r2b_policyError_names (p : DupPolicy) (eta β₁ β₂ lam : R) (ct : VecTable R)
    (chunk : Nat) (es : List (Event String String))
    (htab : ∀ e ∈ es, ∀ c ∈ e.cues, c ∈ ct.names)
    (hp : applyPolicyAll p es = none) :
    whModel .r2b p eta β₁ β₂ lam (some ct) none chunk none es = .error .value :=
  whModel_r2b_policyError p eta β₁ β₂ lam ct chunk es htab
    (applyPolicyAll_toIds_none p ct.names (countNames es).2 es htab
      (fun e he => (countNames_mem es e he).2) hp)

/-! ## real cue vectors → real outcome vectors (`_wh_real_to_real`) -/

/-- **`wh.wh` (real cue vectors → real outcome vectors) = delta rule on the id
    events, end to end**, training from scratch.

    Hypotheses (wh.py `_wh_real_to_real`): `htabo` / `htabc` — every outcome /
    cue of every event is a row label of `outcome_vectors` / `cue_vectors` (else
    the two set-difference checks raise `ValueError`); `hp` — the duplicate
    policy accepts the id events (ids = row positions in the two tables);
    `hc` — `n_outcomes_per_job ≥ 1`.

    Conclusion: rows are labelled by the outcome vector dimensions, columns by
    the cue vector dimensions, and row `d` is the delta-rule recursion with
    input = summed cue vectors and target = dimension `d` of the summed outcome
    vectors, learning rate `eta`, from zero. -/
theorem whModel_r2r_eq_spec (p : DupPolicy) (eta β₁ β₂ lam : R) (ct ot : VecTable R)
    (chunk : Nat) (hc : 1 ≤ chunk) (es : List (Event String String)) (ids' : List (Event Nat Nat))
    (htabc : ∀ e ∈ es, ∀ c ∈ e.cues, c ∈ ct.names)
    (htabo : ∀ e ∈ es, ∀ o ∈ e.outcomes, o ∈ ot.names)
    (hp : applyPolicyIds p (es.map (toIds ct.names ot.names)) = .ok ids') :
    ∃ w, whModel .r2r p eta β₁ β₂ lam (some ct) (some ot) chunk none es = .ok w ∧
      w.outcomes = ot.dims ∧ w.cues = ct.dims ∧
      w.vals.size = ct.dims.length * ot.dims.length ∧
      ∀ d, d < ot.dims.length → ∀ k, k < ct.dims.length →
        w.vals.getD (d * ct.dims.length + k) 0
          = (ids'.foldl (fun r e => whRowReal ct.dims.length
              (fun k => summedCue ct.vals ct.dims.length k e.cues)
              (fun a => eta * (summedOut ot.vals ot.dims.length d e.outcomes - a)) r)
              (fun _ => 0)) k := by
  have hchkc := (tableCheck_cues_iff ct.names es).mpr htabc
  have hchko := (tableCheck_outcomes_iff ot.names es).mpr htabo
  rcases hcn : countNames es with ⟨cuesEv, outsEv⟩
  rw [hcn] at hchkc hchko
  simp only at hchkc hchko
  have hw0 : (Array.replicate (ot.dims.length * ct.dims.length) (0 : R)).size
      = ct.dims.length * ot.dims.length := by
    rw [Array.size_replicate, Nat.mul_comm]
  have hstep := whR2R_rowstep eta ct.vals ot.vals ct.dims.length ot.dims.length
  have hrow := fun i hi => learnOmpWith_row hstep [ids'] chunk hc (fun _ _ => trivial) _ hw0 i hi
  have hsize := learnOmpWith_size hstep [ids'] chunk hc (fun _ _ => trivial) _ hw0
  refine ⟨⟨ot.dims, ct.dims, learnOmpWith
      (fun w d e => whR2RRowEvent eta ct.vals ot.vals ct.dims.length ot.dims.length w d e.cues e.outcomes)
      [ids'] (List.range ot.dims.length) chunk (Array.replicate (ot.dims.length * ct.dims.length) (0 : R))⟩,
    ?_, rfl, rfl, hsize, ?_⟩
  · unfold whModel
    rw [hcn]
    have h2 : ¬ chunk < 1 := by omega
    simp only [hchkc, hchko, hp, h2, if_false, Bool.false_eq_true]
  · intro d hd k hk
    rw [getD_eq_rowFn _ _ _ _ hk, hrow _ hd, rowFn_replicate_zero]
    simp only [List.flatten_cons, List.flatten_nil, List.append_nil]

/-- Widrow–Hoff, real cue vectors → real outcome vectors, ON NAMES: weight row of
    outcome dimension `d` after the events `es`, from zero. -/
def whR2RSpec (eta : R) (ct ot : VecTable R) (es : List (Event String String)) (d : Nat) : Nat → R :=
  es.foldl (fun r e => whRowReal ct.dims.length (tabInput ct e.cues)
    (fun a => eta * (tabInput ot e.outcomes d - a)) r) (fun _ => 0)

/-- **`wh.wh` (real → real) = Widrow–Hoff specification on names, end to end** -/
theorem whModel_r2r_eq_spec_names (p : DupPolicy) (eta β₁ β₂ lam : R) (ct ot : VecTable R)
    (chunk : Nat) (hc : 1 ≤ chunk) (es es' : List (Event String String))
    (htabc : ∀ e ∈ es, ∀ c ∈ e.cues, c ∈ ct.names)
    (htabo : ∀ e ∈ es, ∀ o ∈ e.outcomes, o ∈ ot.names)
    (hp : applyPolicyAll p es = some es') :
    ∃ w, whModel .r2r p eta β₁ β₂ lam (some ct) (some ot) chunk none es = .ok w ∧
      w.outcomes = ot.dims ∧ w.cues = ct.dims ∧
      w.vals.size = ct.dims.length * ot.dims.length ∧
      ∀ d, d < ot.dims.length → ∀ k, k < ct.dims.length →
        w.vals.getD (d * ct.dims.length + k) 0 = whR2RSpec eta ct ot es' d k := by
  have hpid := applyPolicyIds_toIds p ct.names ot.names es es' htabc htabo hp
  obtain ⟨w, h1, h2, h3, h4, h5⟩ := whModel_r2r_eq_spec p eta β₁ β₂ lam ct ot chunk hc es _ htabc htabo hpid
  refine ⟨w, h1, h2, h3, h4, ?_⟩
  intro d hd k hk
  rw [h5 d hd k hk, List.foldl_map]
  unfold whR2RSpec
  refine congrFun (foldl_congr_mem _ _ es' ?_ _) k
  intro r e he
  have hin : (fun k => summedCue ct.vals ct.dims.length k (toIds ct.names ot.names e).cues)
      = tabInput ct e.cues := by
    funext k; exact summedCue_map_idxOf ct e.cues k
  have hout : summedOut ot.vals ot.dims.length d (toIds ct.names ot.names e).outcomes
      = tabInput ot e.outcomes d := summedOut_map_idxOf ot e.outcomes d
  rw [hin, hout]

theorem whModel_r2r_tableError (p : DupPolicy) (eta β₁ β₂ lam : R) (ct ot : VecTable R)
    (chunk : Nat) (W0 : Option (LW R)) (es : List (Event String String))
    (hbad : (∃ e ∈ es, ∃ c ∈ e.cues, c ∉ ct.names) ∨ (∃ e ∈ es, ∃ o ∈ e.outcomes, o ∉ ot.names)) :
    whModel .r2r p eta β₁ β₂ lam (some ct) (some ot) chunk W0 es = .error .value := by
  have hchk : (countNames es).2.any (fun o => !ot.names.contains o) = true ∨
      (countNames es).1.any (fun c => !ct.names.contains c) = true := by
    rcases hbad with ⟨e, he, c, hc, hn⟩ | ⟨e, he, o, ho, hn⟩
    · right
      cases h : (countNames es).1.any (fun c => !ct.names.contains c) with
      | true => rfl
      | false => exact absurd ((tableCheck_cues_iff ct.names es).mp h e he c hc) hn
    · left
      cases h : (countNames es).2.any (fun o => !ot.names.contains o) with
      | true => rfl
      | false => exact absurd ((tableCheck_outcomes_iff ot.names es).mp h e he o ho) hn
  rcases hcn : countNames es with ⟨cuesEv, outs⟩
  rw [hcn] at hchk
  unfold whModel
  rw [hcn]
  simp only
  rcases hchk with h | h
  · simp only [h, if_true]
  · cases h' : outs.any (fun o => !ot.names.contains o) with
    | true => simp only [if_true]
    | false => simp only [h, if_true, Bool.false_eq_true, if_false]

/-! ## binary cues → real outcome vectors (`_wh_binary_to_real`) -/

/-- policy-processed id events only mention cue ids of the original id events -/
theorem applyPolicyIds_cues_lt (p : DupPolicy) (ids ids' : List (Event Nat Nat)) (n : Nat)
    (hp : applyPolicyIds p ids = .ok ids') (h : ∀ e ∈ ids, ∀ c ∈ e.cues, c < n) :
    ∀ e' ∈ ids', ∀ c ∈ e'.cues, c < n := by
  intro e' he' c hc
  obtain ⟨e, he, hpe⟩ := applyPolicyAll_mem p ids ids' ((applyPolicyIds_ok_iff p ids ids').mp hp) e' he'
  obtain ⟨s1, _, _, _⟩ := applyPolicy_sub p e e' hpe
  exact h e he c ((s1 c).mp hc)

/-- **`wh.wh` (binary cues → real outcome vectors) = delta rule on the id events,
    end to end**, training from scratch.

    Hypotheses (wh.py `_wh_binary_to_real`): `htabo` — every outcome of every
    event is a row label of `outcome_vectors` (else `ValueError`); `hp` — the
    duplicate policy accepts the id events (cue id = position in counting
    order (`cue_map`), outcome id = row position in the outcome table);
    `hc` — `n_outcomes_per_job ≥ 1`.

    Conclusion: rows are labelled by the outcome vector dimensions, columns by
    the cues in counting order, and row `d` is the recursion `whRowBin` (cue
    indicator with multiplicity as input, dimension `d` of the summed outcome
    vectors as target, learning rate `eta`) over the id events, from zero. -/
theorem whModel_b2r_eq_spec (p : DupPolicy) (eta β₁ β₂ lam : R) (ot : VecTable R)
    (chunk : Nat) (hc : 1 ≤ chunk) (es : List (Event String String)) (ids' : List (Event Nat Nat))
    (htabo : ∀ e ∈ es, ∀ o ∈ e.outcomes, o ∈ ot.names)
    (hp : applyPolicyIds p (es.map (toIds (countNames es).1 ot.names)) = .ok ids') :
    ∃ w, whModel .b2r p eta β₁ β₂ lam none (some ot) chunk none es = .ok w ∧
      w.outcomes = ot.dims ∧ w.cues = (countNames es).1 ∧
      w.vals.size = (countNames es).1.length * ot.dims.length ∧
      ∀ d, d < ot.dims.length → ∀ j, j < (countNames es).1.length →
        w.vals.getD (d * (countNames es).1.length + j) 0
          = (ids'.foldl (fun r e => whRowBin
              (fun a => eta * (summedOut ot.vals ot.dims.length d e.outcomes - a)) r e.cues)
              (fun _ => 0)) j := by
  have hchko := (tableCheck_outcomes_iff ot.names es).mpr htabo
  have hcs : ∀ e ∈ es, ∀ c ∈ e.cues, c ∈ (countNames es).1 := fun e he => (countNames_mem es e he).1
  rcases hcn : countNames es with ⟨cues, outsEv⟩
  rw [hcn] at hchko hp hcs
  simp only at hchko hp hcs ⊢
  have hw0 : (Array.replicate (ot.dims.length * cues.length) (0 : R)).size = cues.length * ot.dims.length := by
    rw [Array.size_replicate, Nat.mul_comm]
  have hlt : ∀ e' ∈ ids', ∀ c ∈ e'.cues, c < cues.length := by
    apply applyPolicyIds_cues_lt p _ ids' cues.length hp
    intro e he c hc
    obtain ⟨e0, he0, rfl⟩ := List.mem_map.mp he
    obtain ⟨c0, hc0, rfl⟩ := List.mem_map.mp hc
    exact List.idxOf_lt_length_iff.mpr (hcs e0 he0 c0 hc0)
  have hev : ∀ e ∈ [ids'].flatten, ∀ c ∈ e.cues, c < cues.length := by
    intro e he
    simp only [List.flatten_cons, List.flatten_nil, List.append_nil] at he
    exact hlt e he
  have hstep := whB2R_rowstep eta ot.vals ot.dims.length cues.length
  have hrow := fun i hi => learnOmpWith_row hstep [ids'] chunk hc hev _ hw0 i hi
  have hsize := learnOmpWith_size hstep [ids'] chunk hc hev _ hw0
  refine ⟨⟨ot.dims, cues, learnOmpWith
      (fun w d e => whB2RRowEvent eta ot.vals ot.dims.length cues.length w d e.cues e.outcomes)
      [ids'] (List.range ot.dims.length) chunk (Array.replicate (ot.dims.length * cues.length) (0 : R))⟩,
    ?_, rfl, rfl, hsize, ?_⟩
  · unfold whModel
    rw [hcn]
    have h2 : ¬ chunk < 1 := by omega
    simp only [hchko, hp, h2, if_false, Bool.false_eq_true]
  · intro d hd j hj
    rw [getD_eq_rowFn _ _ _ _ hj, hrow _ hd, rowFn_replicate_zero]
    simp only [List.flatten_cons, List.flatten_nil, List.append_nil]

/-- Widrow–Hoff, binary cues → real outcome vectors, ON NAMES: weight row of
    outcome dimension `d` (a function of the cue name) after the events `es`,
    from zero: every cue of the event (with multiplicity) moves by
    `eta * (target_d - activation)`. -/
def whB2RSpec (eta : R) (ot : VecTable R) (es : List (Event String String)) (d : Nat) : String → R :=
  es.foldl (fun r e => fun c =>
    r c + (e.cues.count c : R) * (eta * (tabInput ot e.outcomes d - (e.cues.map r).sum))) (fun _ => 0)

/-- the id-level recursion is the name-level recursion read through the cue id map -/
theorem whB2R_rename (eta : R) (ot : VecTable R) (cues : List String) (d : Nat)
    (es : List (Event String String)) (hcs : ∀ e ∈ es, ∀ c ∈ e.cues, c ∈ cues)
    (W : String → R) (W' : Nat → R) (hW : ∀ c ∈ cues, W' (cues.idxOf c) = W c) (c : String) (hc : c ∈ cues) :
    ((es.map (toIds cues ot.names)).foldl (fun r e => whRowBin
        (fun a => eta * (summedOut ot.vals ot.dims.length d e.outcomes - a)) r e.cues) W') (cues.idxOf c)
      = (es.foldl (fun r e => fun c =>
          r c + (e.cues.count c : R) * (eta * (tabInput ot e.outcomes d - (e.cues.map r).sum))) W) c := by
  induction es generalizing W W' with
  | nil => exact hW c hc
  | cons e es ih =>
    simp only [List.map_cons, List.foldl_cons]
    refine ih (fun x hx => hcs x (by simp [hx])) _ _ ?_
    intro c hc
    have he := hcs e (by simp)
    have h1 : ((toIds cues ot.names e).cues).count (cues.idxOf c) = e.cues.count c :=
      count_map_injOn (cues.idxOf ·) c e.cues (fun x hx hxc => idxOf_injOn cues x c (he x hx) hc hxc)
    have h2 : ((toIds cues ot.names e).cues.map W').sum = (e.cues.map W).sum := by
      show ((e.cues.map (cues.idxOf ·)).map W').sum = _
      rw [List.map_map]
      congr 1
      apply List.map_congr_left
      intro x hx
      exact hW x (he x hx)
    have h3 : summedOut ot.vals ot.dims.length d (toIds cues ot.names e).outcomes = tabInput ot e.outcomes d :=
      summedOut_map_idxOf ot e.outcomes d
    simp only [whRowBin]
    rw [h1, h2, h3, hW c hc]

/-- **`wh.wh` (binary → real) = Widrow–Hoff specification on names, end to end** -/
theorem whModel_b2r_eq_spec_names (p : DupPolicy) (eta β₁ β₂ lam : R) (ot : VecTable R)
    (chunk : Nat) (hc : 1 ≤ chunk) (es es' : List (Event String String))
    (htabo : ∀ e ∈ es, ∀ o ∈ e.outcomes, o ∈ ot.names)
    (hp : applyPolicyAll p es = some es') :
    ∃ w, whModel .b2r p eta β₁ β₂ lam none (some ot) chunk none es = .ok w ∧
      w.outcomes = ot.dims ∧ w.cues = (countNames es).1 ∧
      w.vals.size = (countNames es).1.length * ot.dims.length ∧
      ∀ d, d < ot.dims.length → ∀ c ∈ (countNames es).1,
        w.vals.getD (d * (countNames es).1.length + (countNames es).1.idxOf c) 0
          = whB2RSpec eta ot es' d c := by
  have hcs : ∀ e ∈ es, ∀ c ∈ e.cues, c ∈ (countNames es).1 := fun e he => (countNames_mem es e he).1
  have hpid := applyPolicyIds_toIds p (countNames es).1 ot.names es es' hcs htabo hp
  obtain ⟨w, h1, h2, h3, h4, h5⟩ := whModel_b2r_eq_spec p eta β₁ β₂ lam ot chunk hc es _ htabo hpid
  refine ⟨w, h1, h2, h3, h4, ?_⟩
  intro d hd c hcm
  have hes' := applyPolicyAll_names p es es' hp (· ∈ (countNames es).1) (· ∈ ot.names) hcs htabo
  rw [h5 d hd _ (List.idxOf_lt_length_iff.mpr hcm)]
  exact whB2R_rename eta ot (countNames es).1 d es' (fun e he => (hes' e he).1) _ _ (fun _ _ => rfl) c hcm

theorem whModel_b2r_tableError (p : DupPolicy) (eta β₁ β₂ lam : R) (ot : VecTable R)
    (chunk : Nat) (W0 : Option (LW R)) (es : List (Event String String))
    (hbad : ∃ e ∈ es, ∃ o ∈ e.outcomes, o ∉ ot.names) :
    whModel .b2r p eta β₁ β₂ lam none (some ot) chunk W0 es = .error .value := by
  have hchk : (countNames es).2.any (fun o => !ot.names.contains o) = true := by
    cases h : (countNames es).2.any (fun o => !ot.names.contains o) with
    | true => rfl
    | false =>
      obtain ⟨e, he, o, ho, hn⟩ := hbad
      exact absurd ((tableCheck_outcomes_iff ot.names es).mp h e he o ho) hn
  rcases hcn : countNames es with ⟨cuesEv, outs⟩
  rw [hcn] at hchk
  unfold whModel
  rw [hcn]
  simp only [hchk, if_true]

/-! ## the remaining error cases and the labelled read-out -/

theorem whModel_r2r_policyError_names (p : DupPolicy) (eta β₁ β₂ lam : R) (ct ot : VecTable R)
    (chunk : Nat) (es : List (Event String String))
    (htabc : ∀ e ∈ es, ∀ c ∈ e.cues, c ∈ ct.names)
    (htabo : ∀ e ∈ es, ∀ o ∈ e.outcomes, o ∈ ot.names)
    (hp : applyPolicyAll p es = none) :
    whModel .r2r p eta β₁ β₂ lam (some ct) (some ot) chunk none es = .error .value := by
  have hchkc := (tableCheck_cues_iff ct.names es).mpr htabc
  have hchko := (tableCheck_outcomes_iff ot.names es).mpr htabo
  have hp' : applyPolicyIds p (es.map (toIds ct.names ot.names)) = .error .value := by
    rw [applyPolicyIds_eq, applyPolicyAll_toIds_none p ct.names ot.names es htabc htabo hp]
  rcases hcn : countNames es with ⟨cuesEv, outs⟩
  rw [hcn] at hchkc hchko
  simp only at hchkc hchko
  unfold whModel
  rw [hcn]
  simp only [hchkc, hchko, hp', if_false, Bool.false_eq_true]

theorem whModel_b2r_policyError_names (p : DupPolicy) (eta β₁ β₂ lam : R) (ot : VecTable R)
    (chunk : Nat) (es : List (Event String String))
    (htabo : ∀ e ∈ es, ∀ o ∈ e.outcomes, o ∈ ot.names)
    (hp : applyPolicyAll p es = none) :
    whModel .b2r p eta β₁ β₂ lam none (some ot) chunk none es = .error .value := by
  have hchko := (tableCheck_outcomes_iff ot.names es).mpr htabo
  have hp' : applyPolicyIds p (es.map (toIds (countNames es).1 ot.names)) = .error .value := by
    rw [applyPolicyIds_eq, applyPolicyAll_toIds_none p (countNames es).1 ot.names es
      (fun e he => (countNames_mem es e he).1) htabo hp]
  rcases hcn : countNames es with ⟨cuesEv, outs⟩
  rw [hcn] at hchko hp'
  simp only at hchko hp'
  unfold whModel
  rw [hcn]
  simp only [hchko, hp', if_false, Bool.false_eq_true]

/-- a row whose outcome never occurs stays zero under the real → binary rule -/
theorem whR2BSpec_unseen (β₁ β₂ lam : R) (ct : VecTable R) (es : List (Event String String)) (o : String)
    (h : ∀ e ∈ es, o ∉ e.outcomes) : whR2BSpec β₁ β₂ lam ct es o = fun _ => 0 := by
  unfold whR2BSpec
  induction es with
  | nil => rfl
  | cons e es ih =>
    simp only [List.foldl_cons]
    have hz : whRowReal ct.dims.length (tabInput ct e.cues)
        (fun a => if o ∈ e.outcomes then β₁ * (lam - a) else β₂ * (0 - a)) (fun _ => (0 : R)) = fun _ => 0 := by
      funext k
      have hs : ((List.range ct.dims.length).map (fun k => tabInput ct e.cues k * (0 : R))).sum = 0 := by
        apply List.sum_eq_zero
        intro x hx
        obtain ⟨j, _, rfl⟩ := List.mem_map.mp hx
        exact mul_zero _
      simp only [whRowReal, if_neg (h e (by simp))]
      rw [hs]
      simp only [sub_zero, mul_zero, zero_mul, add_zero, ite_self]
    rw [hz]
    exact ih (fun x hx => h x (by simp [hx]))

/-- **real → binary, read through the labels**: the returned labelled matrix read
    at EVERY (outcome name, cue-dimension label) is the specification: the
    Widrow–Hoff row of the outcome at the position of the label, and 0 for
    labels that are no cue dimension. -/
theorem whModel_r2b_get (p : DupPolicy) (eta β₁ β₂ lam : R) (ct : VecTable R)
    (chunk : Nat) (hc : 1 ≤ chunk) (es es' : List (Event String String))
    (htab : ∀ e ∈ es, ∀ c ∈ e.cues, c ∈ ct.names)
    (hp : applyPolicyAll p es = some es') :
    ∃ w, whModel .r2b p eta β₁ β₂ lam (some ct) none chunk none es = .ok w ∧
      ∀ o d, w.get o d = if d ∈ ct.dims then whR2BSpec β₁ β₂ lam ct es' o (ct.dims.idxOf d) else 0 := by
  obtain ⟨w, h1, h2, h3, _, h5⟩ := whModel_r2b_eq_spec_names p eta β₁ β₂ lam ct chunk hc es es' htab hp
  refine ⟨w, h1, ?_⟩
  intro o d
  by_cases hd : d ∈ ct.dims
  · rw [if_pos hd]
    have hj : ct.dims.idxOf d < ct.dims.length := List.idxOf_lt_length_iff.mpr hd
    by_cases ho : o ∈ (countNames es).2
    · have hi : (countNames es).2.idxOf o < (countNames es).2.length := List.idxOf_lt_length_iff.mpr ho
      rw [← h5 o ho _ hj]
      unfold LW.get
      rw [h2, h3]
      simp only
      rw [if_pos ⟨hi, hj⟩]
    · rw [LW.get_not_outcome w o d (by rw [h2]; exact ho)]
      have hes' := applyPolicyAll_names p es es' hp (fun _ => True) (· ∈ (countNames es).2)
        (fun _ _ _ _ => trivial) (fun e he => (countNames_mem es e he).2)
      rw [whR2BSpec_unseen β₁ β₂ lam ct es' o (fun e he hoe => ho ((hes' e he).2 o hoe))]
  · rw [if_neg hd]
    exact LW.get_not_cue w o d (by rw [h3]; exact hd)

/-- `n_outcomes_per_job < 1`: the model reports an error once the checks and the
    policy have passed (all three flavours share this shape; stated for real → binary) -/
theorem whModel_r2b_chunkError (p : DupPolicy) (eta β₁ β₂ lam : R) (ct : VecTable R)
    (es : List (Event String String)) (ids' : List (Event Nat Nat))
    (htab : ∀ e ∈ es, ∀ c ∈ e.cues, c ∈ ct.names)
    (hp : applyPolicyIds p (es.map (toIds ct.names (countNames es).2)) = .ok ids') :
    whModel .r2b p eta β₁ β₂ lam (some ct) none 0 none es = .error .other := by
  have hchk := (tableCheck_cues_iff ct.names es).mpr htab
  rcases hcn : countNames es with ⟨cuesEv, outs⟩
  rw [hcn] at hchk hp
  simp only at hchk hp
  unfold whModel
  rw [hcn]
  simp only [hchk, hp, if_false, Bool.false_eq_true, Nat.lt_one_iff, if_true]

end Pyndl
