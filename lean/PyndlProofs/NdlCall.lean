import PyndlProofs.NdlContinue

/-!
  `ndlCall` = `ndl.ndl` as called (PyndlModel/Ndl.lean): `ndlModel` plus the
  behaviour on an event file with zero events (no chunk file ⇒ a called kernel
  entry point reports `INITIAL_ERROR_CODE` ⇒ `IOError`, cf.
  `learnChunksB2B_nil`).  For a non-empty event list it IS `ndlModel`, so every
  `ndlModel` theorem is a theorem about the call; errors of `ndlModel` are
  errors of the call.
-/

set_option linter.unusedSectionVars false
set_option linter.unusedVariables false

namespace Pyndl

section
variable {R : Type} [Add R] [Sub R] [Mul R] [Zero R]

theorem ndlCall_nonempty (magic version : Nat) (cfg : NdlCfg) (alpha β₁ β₂ lam : R) (W0 : Option (LW R))
    (es : List (Event String String)) (hne : es ≠ []) :
    ndlCall magic version cfg alpha β₁ β₂ lam W0 es = ndlModel magic version cfg alpha β₁ β₂ lam W0 es := by
  unfold ndlCall
  have h : es.isEmpty = false := by
    cases es with
    | nil => exact absurd rfl hne
    | cons _ _ => rfl
  cases hm : ndlModel magic version cfg alpha β₁ β₂ lam W0 es with
  | error e => rfl
  | ok r =>
    obtain ⟨w, n⟩ := r
    simp only [h, Bool.false_eq_true, if_false]

/-- an error of `ndlModel` (argument checks, conversion) is the error of the call -/
theorem ndlCall_error (magic version : Nat) (cfg : NdlCfg) (alpha β₁ β₂ lam : R) (W0 : Option (LW R))
    (es : List (Event String String)) (e : Err)
    (h : ndlModel magic version cfg alpha β₁ β₂ lam W0 es = .error e) :
    ndlCall magic version cfg alpha β₁ β₂ lam W0 es = .error e := by
  unfold ndlCall
  rw [h]

/-- whatever `ndlCall` returns, `ndlModel` returned it as well: the call never
    invents a result -/
theorem ndlCall_ok (magic version : Nat) (cfg : NdlCfg) (alpha β₁ β₂ lam : R) (W0 : Option (LW R))
    (es : List (Event String String)) (r : LW R × Nat)
    (h : ndlCall magic version cfg alpha β₁ β₂ lam W0 es = .ok r) :
    ndlModel magic version cfg alpha β₁ β₂ lam W0 es = .ok r := by
  unfold ndlCall at h
  cases hm : ndlModel magic version cfg alpha β₁ β₂ lam W0 es with
  | error e => rw [hm] at h; cases h
  | ok r' =>
    obtain ⟨w, n⟩ := r'
    rw [hm] at h
    simp only at h
    split at h
    · split at h
      · cases h
      · split at h
        · exact h
        · cases h
    · exact h

/-- **zero events, OpenMP**: whenever the argument checks pass, the call raises `IOError` -/
theorem ndlCall_empty_openmp (magic version : Nat) (cfg : NdlCfg) (hm : cfg.method = .openmp)
    (alpha β₁ β₂ lam : R) (W0 : Option (LW R)) (r : LW R × Nat)
    (h : ndlModel magic version cfg alpha β₁ β₂ lam W0 [] = .ok r) :
    ndlCall magic version cfg alpha β₁ β₂ lam W0 [] = .error .io := by
  unfold ndlCall
  rw [h]
  obtain ⟨w, n⟩ := r
  simp only [List.isEmpty_nil, if_true, hm]

/-- **zero events, threading**: `IOError` iff there is at least one outcome row to train
    (possible only with `weights=`); otherwise the (empty or given) matrix is returned -/
theorem ndlCall_empty_threading (magic version : Nat) (cfg : NdlCfg) (hm : cfg.method = .threading)
    (alpha β₁ β₂ lam : R) (W0 : Option (LW R)) (w : LW R) (n : Nat)
    (h : ndlModel magic version cfg alpha β₁ β₂ lam W0 [] = .ok (w, n)) :
    ndlCall magic version cfg alpha β₁ β₂ lam W0 [] =
      if w.outcomes.isEmpty then .ok (w, n) else .error .io := by
  unfold ndlCall
  rw [h]
  simp only [List.isEmpty_nil, if_true, hm]

end

section
variable {R : Type} [CommRing R]

/-! ### the success theorems, for the CALL -/

/-- **`ndl.ndl` as called = specification** (from scratch, at least one event) -/
theorem ndlCall_eq_spec (magic version : Nat) (hm : magic < 4294967296) (hv : version < 4294967296)
    (cfg : NdlCfg) (alpha β₁ β₂ lam : R) (es es' : List (Event String String)) (hne : es ≠ [])
    (hcfg : CfgOK cfg (countNames es).2.length)
    (hp : applyPolicyAll cfg.policy es = some es') (hfit : Fits32 es) :
    ∃ w, ndlCall magic version cfg alpha β₁ β₂ lam none es = .ok (w, es.length) ∧
      ∀ o c, w.get o c = rwLearn (fun _ => alpha) β₁ β₂ lam (fun _ _ => (0 : R)) es' o c := by
  rw [ndlCall_nonempty _ _ _ _ _ _ _ _ _ hne]
  exact ndlModel_eq_spec magic version hm hv cfg alpha β₁ β₂ lam es es' hcfg hp hfit

/-- **`ndl.ndl(weights=w)` as called = specification continued** (at least one event) -/
theorem ndlCall_continue_eq_spec (magic version : Nat) (hm : magic < 4294967296) (hv : version < 4294967296)
    (cfg : NdlCfg) (alpha β₁ β₂ lam : R) (w : LW R) (es es' : List (Event String String)) (hne : es ≠ [])
    (hcfg : CfgOK cfg (mergedOutcomes w es).length)
    (hp : applyPolicyAll cfg.policy es = some es') (hfit : Fits32With w es) :
    ∃ r, ndlCall magic version cfg alpha β₁ β₂ lam (some w) es = .ok (r, es.length) ∧
      ∀ o c, r.get o c = rwLearn (fun _ => alpha) β₁ β₂ lam (fun o c => w.get o c) es' o c := by
  rw [ndlCall_nonempty _ _ _ _ _ _ _ _ _ hne]
  exact ndlModel_continue_eq_spec magic version hm hv cfg alpha β₁ β₂ lam w es es' hcfg hp hfit

/-! ### the error directions, for the CALL -/

/-- `events_per_temporary_file ≥ 2³²` ⇒ `OverflowError` (`.other`), always -/
theorem ndlCall_perFile_overflow (magic version : Nat) (cfg : NdlCfg) (alpha β₁ β₂ lam : R)
    (W0 : Option (LW R)) (es : List (Event String String)) (h : 4294967296 ≤ cfg.perFile) :
    ndlCall magic version cfg alpha β₁ β₂ lam W0 es = .error .other :=
  ndlCall_error _ _ _ _ _ _ _ _ _ _ (ndlModel_perFile_overflow magic version cfg alpha β₁ β₂ lam W0 es h)

/-- a duplicate the policy rejects, anywhere in the file ⇒ `ValueError` -/
theorem ndlCall_dup_raises (magic version : Nat) (cfg : NdlCfg) (alpha β₁ β₂ lam : R)
    (W0 : Option (LW R)) (es : List (Event String String))
    (hper : 2 ≤ cfg.perFile) (hperU : cfg.perFile < 4294967296)
    (h : applyPolicyAll cfg.policy es = none) :
    ndlCall magic version cfg alpha β₁ β₂ lam W0 es = .error .value :=
  ndlCall_error _ _ _ _ _ _ _ _ _ _ (ndlModel_dup_raises magic version cfg alpha β₁ β₂ lam W0 es hper hperU h)

/-! ### zero events -/

/-- the conversion of zero events writes no file and reports 0 -/
theorem makeChunks_nil (magic version : Nat) (p : DupPolicy) (per : Nat) (hp : 1 ≤ per) (hU : per < 4294967296) :
    makeChunks magic version p [] per = .ok ([], 0) := by
  unfold makeChunks
  rw [if_neg (by omega)]
  have : nChunks ([] : List (Event Nat Nat)).length per = 0 := by
    unfold nChunks
    simp only [List.length_nil, Nat.zero_add]
    exact Nat.div_eq_of_lt (by omega)
  rw [this]
  rfl

/-- on zero events `ndlCore` passes the argument checks and returns labels and
    (for OpenMP: also values) as given -/
theorem ndlCore_nil (magic version : Nat) (cfg : NdlCfg) (alpha β₁ β₂ lam : R) (cues outs : List String)
    (vals : Array R) (hper : 2 ≤ cfg.perFile) (hperU : cfg.perFile < 4294967296)
    (hjt : cfg.method = .threading → 1 ≤ cfg.perJob)
    (hjo : cfg.method = .openmp → cfg.perJob < 4294967296) :
    ∃ v, ndlCore magic version cfg alpha β₁ β₂ lam cues outs vals [] = .ok (⟨outs, cues, v⟩, 0) := by
  unfold ndlCore
  have h1 : ¬ cfg.perFile < 2 := by omega
  simp only [h1, if_false, List.map_nil, makeChunks_nil magic version cfg.policy cfg.perFile (by omega) hperU,
    decodeAll]
  cases hmeth : cfg.method with
  | threading =>
    have h2 : ¬ cfg.perJob < 1 := by have := hjt hmeth; omega
    simp only [h2, if_false]
    exact ⟨_, rfl⟩
  | openmp =>
    have h3 : ¬ 4294967296 ≤ cfg.perJob := by have := hjo hmeth; omega
    simp only [h3, if_false, List.isEmpty_nil, Bool.not_true, Bool.false_eq_true, and_false]
    exact ⟨_, rfl⟩

/-- **an event file with ZERO events makes `ndl.ndl` raise `IOError`** — with
    OpenMP always, with threading as soon as there is an outcome row to train
    (`weights=` with at least one outcome) — whenever the argument checks pass -/
theorem ndlCall_nil_raises (magic version : Nat) (cfg : NdlCfg) (alpha β₁ β₂ lam : R) (W0 : Option (LW R))
    (hper : 2 ≤ cfg.perFile) (hperU : cfg.perFile < 4294967296)
    (hjt : cfg.method = .threading → 1 ≤ cfg.perJob)
    (hjo : cfg.method = .openmp → cfg.perJob < 4294967296)
    (hne : cfg.method = .openmp ∨ ∃ w, W0 = some w ∧ w.outcomes ≠ []) :
    ndlCall magic version cfg alpha β₁ β₂ lam W0 [] = .error .io := by
  have hok : ∃ r, ndlModel magic version cfg alpha β₁ β₂ lam W0 [] = .ok (r, 0) ∧
      r.outcomes = (match W0 with | none => [] | some w => w.outcomes) := by
    cases W0 with
    | none =>
      rw [ndlModel_none]
      obtain ⟨v, hv⟩ := ndlCore_nil magic version cfg alpha β₁ β₂ lam (countNames []).1 (countNames []).2
        (Array.replicate ((countNames []).2.length * (countNames []).1.length) 0) hper hperU hjt hjo
      exact ⟨_, hv, rfl⟩
    | some w =>
      rw [ndlModel_some]
      obtain ⟨v, hv⟩ := ndlCore_nil magic version cfg alpha β₁ β₂ lam
        (w.cues ++ (countNames []).1.filter (fun c => !w.cues.contains c))
        (w.outcomes ++ (countNames []).2.filter (fun o => !w.outcomes.contains o))
        (extendVals w.vals w.outcomes.length w.cues.length
          (w.outcomes ++ (countNames []).2.filter (fun o => !w.outcomes.contains o)).length
          (w.cues ++ (countNames []).1.filter (fun c => !w.cues.contains c)).length) hper hperU hjt hjo
      refine ⟨_, hv, ?_⟩
      simp [countNames, dedupKeepFirst]
  obtain ⟨r, hr, hout⟩ := hok
  cases hm : cfg.method with
  | openmp => exact ndlCall_empty_openmp _ _ cfg hm alpha β₁ β₂ lam W0 _ hr
  | threading =>
    rw [ndlCall_empty_threading _ _ cfg hm alpha β₁ β₂ lam W0 r _ hr]
    rcases hne with h | ⟨w, hw, hwo⟩
    · rw [hm] at h; cases h
    · subst hw
      simp only at hout
      have : r.outcomes.isEmpty = false := by
        rw [hout]
        cases h : w.outcomes with
        | nil => exact absurd h hwo
        | cons _ _ => rfl
      simp [this]

end

end Pyndl
