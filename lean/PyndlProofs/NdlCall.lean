import PyndlProofs.NdlContinue

/-!
  `ndlCall` = `ndl.ndl` as called (PyndlModel/Ndl.lean): `ndlModel` plus the
  behaviour on an event file with zero events (no chunk file ⇒ a called kernel
  entry point reports `INITIAL_ERROR_CODE` ⇒ `IOError`).  For a non-empty event
  list it IS `ndlModel`, so every `ndlModel` theorem is a theorem about the call.
-/

namespace Pyndl

variable {R : Type} [Add R] [Sub R] [Mul R] [Zero R]

theorem ndlCall_nonempty (magic version : Nat) (cfg : NdlCfg) (alpha β₁ β₂ lam : R) (W0 : Option (LW R))
    (es : List (Event String String)) (hne : es ≠ []) :
    ndlCall magic version cfg alpha β₁ β₂ lam W0 es = ndlModel magic version cfg alpha β₁ β₂ lam W0 es := by
  unfold ndlCall
  have h : es.isEmpty = false := by
    cases es with
    | nil => exact absurd rfl hne
    | cons _ _ => rfl
  cases hm : ndlModel magic version cfg alpha β₁ β₂ lam W0 es with
  | error e => rfl
  | ok r =>
    obtain ⟨w, n⟩ := r
    simp only [h, Bool.false_eq_true, if_false]

/-- whatever `ndlCall` returns, `ndlModel` returned it as well: the call never
    invents a result -/
theorem ndlCall_ok (magic version : Nat) (cfg : NdlCfg) (alpha β₁ β₂ lam : R) (W0 : Option (LW R))
    (es : List (Event String String)) (r : LW R × Nat)
    (h : ndlCall magic version cfg alpha β₁ β₂ lam W0 es = .ok r) :
    ndlModel magic version cfg alpha β₁ β₂ lam W0 es = .ok r := by
  unfold ndlCall at h
  cases hm : ndlModel magic version cfg alpha β₁ β₂ lam W0 es with
  | error e => rw [hm] at h; cases h
  | ok r' =>
    obtain ⟨w, n⟩ := r'
    rw [hm] at h
    simp only at h
    split at h
    · split at h
      · cases h
      · split at h
        · exact h
        · cases h
    · exact h

/-- **zero events, OpenMP**: whenever the argument checks pass, the call raises `IOError` -/
theorem ndlCall_empty_openmp (magic version : Nat) (cfg : NdlCfg) (hm : cfg.method = .openmp)
    (alpha β₁ β₂ lam : R) (W0 : Option (LW R)) (r : LW R × Nat)
    (h : ndlModel magic version cfg alpha β₁ β₂ lam W0 [] = .ok r) :
    ndlCall magic version cfg alpha β₁ β₂ lam W0 [] = .error .io := by
  unfold ndlCall
  rw [h]
  obtain ⟨w, n⟩ := r
  simp only [List.isEmpty_nil, if_true, hm]

/-- **zero events, threading**: `IOError` iff there is at least one outcome row to train
    (possible only with `weights=`); otherwise the (empty or given) matrix is returned -/
theorem ndlCall_empty_threading (magic version : Nat) (cfg : NdlCfg) (hm : cfg.method = .threading)
    (alpha β₁ β₂ lam : R) (W0 : Option (LW R)) (w : LW R) (n : Nat)
    (h : ndlModel magic version cfg alpha β₁ β₂ lam W0 [] = .ok (w, n)) :
    ndlCall magic version cfg alpha β₁ β₂ lam W0 [] =
      if w.outcomes.isEmpty then .ok (w, n) else .error .io := by
  unfold ndlCall
  rw [h]
  simp only [List.isEmpty_nil, if_true, hm]

end Pyndl
