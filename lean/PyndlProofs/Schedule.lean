import PyndlProofs.Kernel

set_option linter.unusedSectionVars false
set_option linter.unusedSimpArgs false

namespace Pyndl
open List

variable {R : Type} [CommRing R]

/-! ## Projections of the per-part programs -/

theorem rows_filter_eq (rows : List Nat) (hn : rows.Nodup) (o : Nat) (part file : Nat) (e : Event Nat Nat) :
    ((rows.map (fun o' => (⟨part, file, o', e⟩ : MicroStep))).filter (fun st => st.row = o)).map (·.ev)
      = if o ∈ rows then [e] else [] := by
  induction rows with
  | nil => simp
  | cons r rows ih =>
    have hn' := (List.nodup_cons.mp hn)
    simp only [List.map_cons, List.filter_cons]
    by_cases h : r = o
    · subst h
      have : r ∉ rows := hn'.1
      simp [ih hn'.2, this]
    · have h' : ¬ o = r := fun e => h e.symm
      simp [h, h', ih hn'.2]

theorem fileProgram_proj (part file : Nat) (rows : List Nat) (hn : rows.Nodup) (o : Nat)
    (es : List (Event Nat Nat)) :
    ((fileProgram part file rows es).filter (fun st => st.row = o)).map (·.ev)
      = if o ∈ rows then es else [] := by
  unfold fileProgram
  induction es with
  | nil => simp
  | cons e es ih =>
    simp only [List.flatMap_cons, List.filter_append, List.map_append, ih, rows_filter_eq rows hn]
    by_cases h : o ∈ rows <;> simp [h]

theorem partProgramFrom_proj (part : Nat) (rows : List Nat) (hn : rows.Nodup) (o : Nat) (k : Nat)
    (files : List (List (Event Nat Nat))) :
    ((partProgramFrom part rows k files).filter (fun st => st.row = o)).map (·.ev)
      = if o ∈ rows then files.flatten else [] := by
  induction files generalizing k with
  | nil => simp [partProgramFrom]
  | cons es rest ih =>
    simp only [partProgramFrom, List.filter_append, List.map_append, ih, fileProgram_proj part k rows hn]
    by_cases h : o ∈ rows <;> simp [h]

theorem fileProgram_mem (part file : Nat) (rows : List Nat) (es : List (Event Nat Nat)) (st : MicroStep)
    (h : st ∈ fileProgram part file rows es) : st.part = part ∧ st.row ∈ rows ∧ st.ev ∈ es := by
  unfold fileProgram at h
  simp only [List.mem_flatMap, List.mem_map] at h
  obtain ⟨e, he, o, ho, rfl⟩ := h
  exact ⟨rfl, ho, he⟩

theorem partProgramFrom_mem (part : Nat) (rows : List Nat) (k : Nat) (files : List (List (Event Nat Nat)))
    (st : MicroStep) (h : st ∈ partProgramFrom part rows k files) :
    st.part = part ∧ st.row ∈ rows ∧ st.ev ∈ files.flatten := by
  induction files generalizing k with
  | nil => simp [partProgramFrom] at h
  | cons es rest ih =>
    simp only [partProgramFrom, List.mem_append] at h
    rcases h with h | h
    · obtain ⟨a, b, c⟩ := fileProgram_mem part k rows es st h
      exact ⟨a, b, by simp [c]⟩
    · obtain ⟨a, b, c⟩ := ih (k + 1) h
      exact ⟨a, b, by simp [c]⟩

/-! ## Valid schedules

A sequence of tagged micro-steps is an interleaving of the sequential programs
`P_k` (one per part, every step of `P_k` tagged `k`) iff every tag is in range
and filtering by tag `k` gives back `P_k`. That characterisation is used as the
definition. -/

/-- `method='threading'`: each worker takes parts from the queue; a part's
    kernel call runs through all files. Any interleaving of the part programs. -/
def ValidThreading (parts : List (List Nat)) (files : List (List (Event Nat Nat)))
    (s : List MicroStep) : Prop :=
  (∀ st ∈ s, st.part < parts.length) ∧
  ∀ k, k < parts.length → s.filter (fun st => st.part = k) = partProgram k (parts.getD k []) files

/-- `method='openmp'`: one `parallel` block per file (implicit barrier at its
    end); inside it any interleaving of the per-part programs of that file. -/
def ValidOpenmpFrom (parts : List (List Nat)) : Nat → List (List (Event Nat Nat)) → List MicroStep → Prop
  | _, [], s => s = []
  | f, es :: rest, s => ∃ s₁ s₂, s = s₁ ++ s₂ ∧
      (∀ st ∈ s₁, st.part < parts.length) ∧
      (∀ k, k < parts.length → s₁.filter (fun st => st.part = k) = fileProgram k f (parts.getD k []) es) ∧
      ValidOpenmpFrom parts (f + 1) rest s₂

def ValidOpenmp (parts : List (List Nat)) (files : List (List (Event Nat Nat))) (s : List MicroStep) : Prop :=
  ValidOpenmpFrom parts 0 files s

/-- the parts are duplicate-free and pairwise disjoint -/
structure PartsOk (parts : List (List Nat)) : Prop where
  nodup : ∀ k, k < parts.length → (parts.getD k []).Nodup
  disjoint : ∀ i j, i < parts.length → j < parts.length → i ≠ j →
    ∀ x, x ∈ parts.getD i [] → x ∉ parts.getD j []

theorem filter_owner {parts : List (List Nat)} (hp : PartsOk parts) (s : List MicroStep)
    (k : Nat) (hk : k < parts.length) (o : Nat) (ho : o ∈ parts.getD k [])
    (hin : ∀ st ∈ s, st.part < parts.length ∧ st.row ∈ parts.getD st.part []) :
    s.filter (fun st => st.row = o) = (s.filter (fun st => st.part = k)).filter (fun st => st.row = o) := by
  rw [List.filter_filter]
  apply List.filter_congr
  intro st hst
  obtain ⟨h1, h2⟩ := hin st hst
  by_cases hr : st.row = o
  · have : st.part = k := by
      by_contra hne
      exact hp.disjoint st.part k h1 hk hne st.row h2 (hr ▸ ho)
    simp [hr, this]
  · simp [hr]

theorem threading_proj {parts : List (List Nat)} (hp : PartsOk parts)
    (files : List (List (Event Nat Nat))) (s : List MicroStep) (hv : ValidThreading parts files s)
    (k : Nat) (hk : k < parts.length) (o : Nat) (ho : o ∈ parts.getD k []) :
    (s.filter (fun st => st.row = o)).map (·.ev) = files.flatten := by
  have hin : ∀ st ∈ s, st.part < parts.length ∧ st.row ∈ parts.getD st.part [] := by
    intro st hst
    have h1 := hv.1 st hst
    refine ⟨h1, ?_⟩
    have : st ∈ s.filter (fun x => x.part = st.part) := by simp [hst]
    rw [hv.2 st.part h1] at this
    exact (partProgramFrom_mem _ _ _ _ st this).2.1
  rw [filter_owner hp s k hk o ho hin, hv.2 k hk]
  unfold partProgram
  rw [partProgramFrom_proj k _ (hp.nodup k hk) o 0 files, if_pos ho]

theorem openmp_proj {parts : List (List Nat)} (hp : PartsOk parts)
    (files : List (List (Event Nat Nat))) (f : Nat) (s : List MicroStep)
    (hv : ValidOpenmpFrom parts f files s)
    (k : Nat) (hk : k < parts.length) (o : Nat) (ho : o ∈ parts.getD k []) :
    (s.filter (fun st => st.row = o)).map (·.ev) = files.flatten := by
  induction files generalizing f s with
  | nil => simp [ValidOpenmpFrom] at hv; subst hv; simp
  | cons es rest ih =>
    obtain ⟨s₁, s₂, rfl, h1, h2, h3⟩ := hv
    have hin : ∀ st ∈ s₁, st.part < parts.length ∧ st.row ∈ parts.getD st.part [] := by
      intro st hst
      have a := h1 st hst
      refine ⟨a, ?_⟩
      have : st ∈ s₁.filter (fun x => x.part = st.part) := by simp [hst]
      rw [h2 st.part a] at this
      exact (fileProgram_mem _ _ _ _ st this).2.1
    simp only [List.filter_append, List.map_append, List.flatten_cons]
    rw [ih (f + 1) s₂ h3, filter_owner hp s₁ k hk o ho hin, h2 k hk,
      fileProgram_proj k f _ (hp.nodup k hk) o es, if_pos ho]

/-- every step of a valid schedule is well-formed when the parts and the
    events are -/
theorem threading_steps_ok {parts : List (List Nat)} (files : List (List (Event Nat Nat)))
    (n nOut : Nat) (hrows : ∀ k, k < parts.length → ∀ o ∈ parts.getD k [], o < nOut)
    (hcues : ∀ e ∈ files.flatten, ∀ c ∈ e.cues, c < n)
    (s : List MicroStep) (hv : ValidThreading parts files s) :
    ∀ st ∈ s, StepOk n nOut st := by
  intro st hst
  have h1 := hv.1 st hst
  have : st ∈ s.filter (fun x => x.part = st.part) := by simp [hst]
  rw [hv.2 st.part h1] at this
  obtain ⟨_, b, c⟩ := partProgramFrom_mem _ _ _ _ st this
  exact ⟨hrows st.part h1 st.row b, hcues st.ev c⟩

theorem openmp_steps_ok {parts : List (List Nat)} (files : List (List (Event Nat Nat)))
    (n nOut : Nat) (hrows : ∀ k, k < parts.length → ∀ o ∈ parts.getD k [], o < nOut)
    (hcues : ∀ e ∈ files.flatten, ∀ c ∈ e.cues, c < n) (f : Nat)
    (s : List MicroStep) (hv : ValidOpenmpFrom parts f files s) :
    ∀ st ∈ s, StepOk n nOut st := by
  induction files generalizing f s with
  | nil => simp [ValidOpenmpFrom] at hv; subst hv; simp
  | cons es rest ih =>
    obtain ⟨s₁, s₂, rfl, h1, h2, h3⟩ := hv
    intro st hst
    rcases List.mem_append.mp hst with h | h
    · have a := h1 st h
      have : st ∈ s₁.filter (fun x => x.part = st.part) := by simp [h]
      rw [h2 st.part a] at this
      obtain ⟨_, b, c⟩ := fileProgram_mem _ _ _ _ st this
      exact ⟨hrows st.part a st.row b, hcues st.ev (by simp [c])⟩
    · exact ih (fun e he => hcues e (by simp [he])) (f + 1) s₂ h3 st h

/-- **Schedule independence (threading).** For every valid interleaving of the
    part programs, every row owned by some part holds the specification's
    result over all events of all files in order. -/
theorem threading_schedule_independent {parts : List (List Nat)} (hp : PartsOk parts)
    (files : List (List (Event Nat Nat))) (n nOut : Nat) (alpha β₁ β₂ lam : R)
    (hrows : ∀ k, k < parts.length → ∀ o ∈ parts.getD k [], o < nOut)
    (hcues : ∀ e ∈ files.flatten, ∀ c ∈ e.cues, c < n)
    (w : Array R) (hw : w.size = n * nOut)
    (s : List MicroStep) (hv : ValidThreading parts files s)
    (k : Nat) (hk : k < parts.length) (o : Nat) (ho : o ∈ parts.getD k []) :
    rowFn n (execSteps alpha β₁ β₂ lam n w s) o
      = rwLearn (fun _ => alpha) β₁ β₂ lam (fun o => rowFn n w o) files.flatten o :=
  exec_row_eq_spec n nOut alpha β₁ β₂ lam s (threading_steps_ok files n nOut hrows hcues s hv) w hw o _
    (threading_proj hp files s hv k hk o ho)

/-- **Schedule independence (OpenMP).** -/
theorem openmp_schedule_independent {parts : List (List Nat)} (hp : PartsOk parts)
    (files : List (List (Event Nat Nat))) (n nOut : Nat) (alpha β₁ β₂ lam : R)
    (hrows : ∀ k, k < parts.length → ∀ o ∈ parts.getD k [], o < nOut)
    (hcues : ∀ e ∈ files.flatten, ∀ c ∈ e.cues, c < n)
    (w : Array R) (hw : w.size = n * nOut)
    (s : List MicroStep) (hv : ValidOpenmp parts files s)
    (k : Nat) (hk : k < parts.length) (o : Nat) (ho : o ∈ parts.getD k []) :
    rowFn n (execSteps alpha β₁ β₂ lam n w s) o
      = rwLearn (fun _ => alpha) β₁ β₂ lam (fun o => rowFn n w o) files.flatten o :=
  exec_row_eq_spec n nOut alpha β₁ β₂ lam s (openmp_steps_ok files n nOut hrows hcues 0 s hv) w hw o _
    (openmp_proj hp files 0 s hv k hk o ho)

/-- a row that no part owns is never touched, whatever the schedule -/
theorem unowned_row_untouched {parts : List (List Nat)} (files : List (List (Event Nat Nat)))
    (n nOut : Nat) (alpha β₁ β₂ lam : R)
    (hrows : ∀ k, k < parts.length → ∀ o ∈ parts.getD k [], o < nOut)
    (hcues : ∀ e ∈ files.flatten, ∀ c ∈ e.cues, c < n)
    (w : Array R) (hw : w.size = n * nOut)
    (s : List MicroStep) (hv : ValidThreading parts files s)
    (o : Nat) (ho : ∀ k, k < parts.length → o ∉ parts.getD k []) :
    rowFn n (execSteps alpha β₁ β₂ lam n w s) o = rowFn n w o := by
  rw [(exec_row n nOut alpha β₁ β₂ lam s (threading_steps_ok files n nOut hrows hcues s hv) w hw o).2]
  have : s.filter (fun st => st.row = o) = [] := by
    rw [List.filter_eq_nil_iff]
    intro st hst
    have h1 := hv.1 st hst
    have hm : st ∈ s.filter (fun x => x.part = st.part) := by simp [hst]
    rw [hv.2 st.part h1] at hm
    have := (partProgramFrom_mem _ _ _ _ st hm).2.1
    simp only [decide_eq_true_eq]
    intro e
    exact ho st.part h1 (e ▸ this)
  simp [this, rowLearn]

end Pyndl
