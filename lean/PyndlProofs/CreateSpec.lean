/-
  Helper lemmas for C09 (model: PyndlModel/Create.lean), third part:

  * the specification of `context_pattern.split` (`contextSplit`): the fuel is
    sufficient, nothing is dropped, the odd elements are markers, no marker
    starts inside an even element, and these facts determine the result;
  * what a failing call has written: the events left behind by a late failure
    are a prefix of what the complete run writes, and — in closed form — exactly
    the events of the lines before the fault (`'line'`, `writtenBeforeG_line`)
    resp. `process_words` of every context closed by a marker before the fault
    (`'document'`, `writtenBeforeG_document`, `closedContexts`, `itemsBefore`);
    a callable's fault position is a text piece (`firstFault_document_even`);
  * two `allowed_symbols` values that filter alike give the same run
    (`createEventsG_congr_allowed`; the two filter code paths are compared in
    PyndlProofs/Create.lean, `filterRegex_eq_filterCallable`);
  * the cleaning clauses: every character of a written token passed the symbol
    filter / comes out of the lowering function; `remove_duplicates`;
    `event_structure='line'`.

  Core Lean only.
-/
import PyndlProofs.Create
import PyndlProofs.CreateLF

namespace Pyndl.Create
open List

/-! ## `context_pattern.split` -/

/-- **the fuel is sufficient**: beyond `cs.length + 1` the result does not
    depend on it. -/
theorem splitAux_fuel : ∀ (f1 f2 : Nat) (cs cur : List Char), cs.length < f1 → cs.length < f2 →
    splitAux f1 cs cur = splitAux f2 cs cur
  | 0, _, _, _, h, _ => by omega
  | _ + 1, 0, _, _, _, h => by omega
  | n + 1, m + 1, [], cur, _, _ => by simp [splitAux]
  | n + 1, m + 1, c :: rest, cur, h1, h2 => by
    simp only [splitAux]
    split
    · rename_i hm
      have hl := (isMarkerAt_take hm).2
      have hd : ((c :: rest).drop markerLen).length < n := by
        simp only [List.length_drop, List.length_cons, markerLen] at *; omega
      have hd' : ((c :: rest).drop markerLen).length < m := by
        simp only [List.length_drop, List.length_cons, markerLen] at *; omega
      rw [splitAux_fuel n m _ [] hd hd']
    · simp only [List.length_cons] at h1 h2
      exact splitAux_fuel n m rest (c :: cur) (by omega) (by omega)

/-- **nothing is dropped**: the elements (text pieces and markers, in order)
    concatenate to the accumulated piece followed by the rest of the input. -/
theorem splitAux_flatten : ∀ (fuel : Nat) (cs cur : List Char), cs.length < fuel →
    (splitAux fuel cs cur).flatten = cur.reverse ++ cs
  | 0, _, _, h => by omega
  | _ + 1, [], cur, _ => by simp [splitAux]
  | n + 1, c :: rest, cur, h => by
    simp only [splitAux]
    split
    · rename_i hm
      have hl := (isMarkerAt_take hm).2
      have hd : ((c :: rest).drop markerLen).length < n := by
        simp only [List.length_drop, List.length_cons, markerLen] at *; omega
      simp only [List.flatten_cons, splitAux_flatten n _ [] hd, List.reverse_nil, List.nil_append,
        List.take_append_drop]
    · simp only [List.length_cons] at h
      rw [splitAux_flatten n rest (c :: cur) (by omega)]
      simp

/-- `''.join(context_pattern.split(s)) == s` -/
theorem contextSplit_flatten (s : List Char) : (contextSplit s).flatten = s := by
  simpa [contextSplit] using splitAux_flatten (s.length + 1) s [] (by omega)

/-- the result is the same for every fuel that exceeds the length -/
theorem contextSplit_fuel (s : List Char) (fuel : Nat) (h : s.length < fuel) :
    splitAux fuel s [] = contextSplit s :=
  splitAux_fuel fuel (s.length + 1) s [] h (by omega)

/-- no match of the pattern starts at any position of `piece` when `piece` is
    followed by `rest` (the match may extend into `rest`) -/
def NoMarkerIn (piece rest : List Char) : Prop :=
  ∀ i, i < piece.length → isMarkerAt (piece.drop i ++ rest) = false

/-- **the specification of `re.split` with one capturing group**, leftmost
    non-overlapping matches: the list is `[t0, m1, t1, …, mk, tk]`, every `mj`
    is a match (21 characters), and no match starts inside a `tj` — not even
    one that would run into the following marker. -/
def SplitOK : List (List Char) → Prop
  | [] => False
  | [t] => NoMarkerIn t []
  | t :: m :: rest =>
    NoMarkerIn t (m ++ rest.flatten) ∧ isMarkerAt m = true ∧ m.length = markerLen ∧ SplitOK rest

theorem splitAux_ok : ∀ (fuel : Nat) (cs cur : List Char), cs.length < fuel →
    (∀ i, i < cur.length → isMarkerAt (cur.reverse.drop i ++ cs) = false) →
    SplitOK (splitAux fuel cs cur)
  | 0, _, _, h, _ => by omega
  | _ + 1, [], cur, _, hc => by
    simp only [splitAux, SplitOK]
    intro i hi
    have := hc i (by simpa using hi)
    simpa using this
  | n + 1, c :: rest, cur, h, hc => by
    simp only [splitAux]
    split
    · rename_i hm
      obtain ⟨hm1, hl⟩ := isMarkerAt_take hm
      have hd : ((c :: rest).drop markerLen).length < n := by
        simp only [List.length_drop, List.length_cons, markerLen] at *; omega
      refine ⟨?_, hm1, ?_, splitAux_ok n _ [] hd (by simp)⟩
      · intro i hi
        rw [splitAux_flatten n _ [] hd]
        simp only [List.reverse_nil, List.nil_append, List.take_append_drop]
        exact hc i (by simpa using hi)
      · simp only [List.length_take]; omega
    · rename_i hm
      simp only [List.length_cons] at h
      refine splitAux_ok n rest (c :: cur) (by omega) ?_
      intro i hi
      simp only [List.length_cons] at hi
      simp only [List.reverse_cons]
      by_cases hlt : i < cur.length
      · rw [List.drop_append_of_le_length (by simpa using Nat.le_of_lt hlt)]
        simpa using hc i hlt
      · have : i = cur.length := by omega
        subst this
        rw [List.drop_append_of_le_length (by simp)]
        have : cur.reverse.drop cur.length = [] := List.drop_eq_nil_of_le (by simp)
        rw [this]
        simpa using hm

/-- `context_pattern.split(s)` satisfies the specification -/
theorem contextSplit_ok (s : List Char) : SplitOK (contextSplit s) :=
  splitAux_ok (s.length + 1) s [] (by omega) (by simp)

theorem matchPat_append : ∀ (p : List (Option Char)) (s x : List Char),
    matchPat p s = true → matchPat p (s ++ x) = true
  | [], _, _, _ => by simp [matchPat]
  | _ :: _, [], _, h => by simp [matchPat] at h
  | none :: p, _ :: s, x, h => by
    simp only [matchPat] at h
    simp only [List.cons_append, matchPat]
    exact matchPat_append p s x h
  | some a :: p, c :: s, x, h => by
    simp only [matchPat, Bool.and_eq_true] at h
    simp only [List.cons_append, matchPat, Bool.and_eq_true]
    exact ⟨h.1, matchPat_append p s x h.2⟩

theorem isMarkerAt_append {m : List Char} (h : isMarkerAt m = true) (x : List Char) :
    isMarkerAt (m ++ x) = true := by
  simp only [isMarkerAt, Bool.or_eq_true] at h ⊢
  rcases h with h | h
  · exact Or.inl (matchPat_append _ _ _ h)
  · exact Or.inr (matchPat_append _ _ _ h)

private theorem append_eq_len {α : Type} {a b c d : List α} (h : a ++ b = c ++ d)
    (hl : a.length = c.length) : a = c ∧ b = d := by
  have := List.append_inj h hl
  exact this

/-- two lists that both satisfy the specification and concatenate to the same
    string are equal -/
theorem SplitOK_unique : ∀ (l l' : List (List Char)), SplitOK l → SplitOK l' →
    l.flatten = l'.flatten → l = l'
  | [], _, h, _, _ => by simp [SplitOK] at h
  | _, [], _, h, _ => by simp [SplitOK] at h
  | [t], [t'], _, _, hf => by simpa using hf
  | [t], t' :: m' :: rest', h, h', hf => by
    exfalso
    simp only [SplitOK] at h h'
    obtain ⟨_, hm', hl', _⟩ := h'
    simp only [List.flatten_cons, List.flatten_nil, List.append_nil] at hf
    have hlen : t'.length < t.length := by
      rw [hf]; simp only [List.length_append]; simp only [markerLen] at hl'; omega
    have := h t'.length hlen
    rw [hf, List.drop_left, List.append_nil] at this
    rw [isMarkerAt_append hm'] at this
    exact Bool.noConfusion this
  | t :: m :: rest, [t'], h, h', hf => by
    exfalso
    simp only [SplitOK] at h h'
    obtain ⟨_, hm, hl, _⟩ := h
    simp only [List.flatten_cons, List.flatten_nil, List.append_nil] at hf
    have hlen : t.length < t'.length := by
      rw [← hf]; simp only [List.length_append]; simp only [markerLen] at hl; omega
    have := h' t.length hlen
    rw [← hf, List.drop_left, List.append_nil] at this
    rw [isMarkerAt_append hm] at this
    exact Bool.noConfusion this
  | t :: m :: rest, t' :: m' :: rest', h, h', hf => by
    simp only [SplitOK] at h h'
    obtain ⟨hn, hm, hl, hr⟩ := h
    obtain ⟨hn', hm', hl', hr'⟩ := h'
    simp only [List.flatten_cons] at hf
    have hlen : t.length = t'.length := by
      rcases Nat.lt_trichotomy t.length t'.length with hlt | heq | hgt
      · exfalso
        have := hn' t.length hlt
        have e : t'.drop t.length ++ (m' ++ rest'.flatten) = m ++ rest.flatten := by
          have h1 : (t' ++ (m' ++ rest'.flatten)).drop t.length = t'.drop t.length ++ (m' ++ rest'.flatten) :=
            List.drop_append_of_le_length (Nat.le_of_lt hlt)
          rw [← h1, ← hf, List.drop_left]
        rw [e, isMarkerAt_append hm] at this
        exact Bool.noConfusion this
      · exact heq
      · exfalso
        have := hn t'.length hgt
        have e : t.drop t'.length ++ (m ++ rest.flatten) = m' ++ rest'.flatten := by
          have h1 : (t ++ (m ++ rest.flatten)).drop t'.length = t.drop t'.length ++ (m ++ rest.flatten) :=
            List.drop_append_of_le_length (Nat.le_of_lt hgt)
          rw [← h1, hf, List.drop_left]
        rw [e, isMarkerAt_append hm'] at this
        exact Bool.noConfusion this
    obtain ⟨e1, e2⟩ := append_eq_len hf hlen
    obtain ⟨e3, e4⟩ := append_eq_len e2 (by rw [hl, hl'])
    have := SplitOK_unique rest rest' hr hr' e4
    rw [e1, e3, this]

/-- **`contextSplit` is THE list with these properties**: any splitter whose
    output concatenates to the input, has markers at the odd positions and no
    marker start inside an even element, returns `contextSplit s` — a splitter
    that misses a marker does not satisfy the specification. -/
theorem contextSplit_unique (s : List Char) (l : List (List Char)) (hl : SplitOK l)
    (hf : l.flatten = s) : l = contextSplit s :=
  SplitOK_unique l (contextSplit s) hl (contextSplit_ok s) (by rw [hf, contextSplit_flatten])

/-- a text without a match is not split -/
theorem contextSplit_of_noMarker (s : List Char) (h : NoMarkerIn s []) : contextSplit s = [s] :=
  (contextSplit_unique s [s] h (by simp)).symm

/-- the text elements of a split contain no match: `process_context` (which
    removes markers from an element) is the identity on them -/
theorem SplitOK.local : ∀ {l : List (List Char)}, SplitOK l → ∀ t ∈ evens l, NoMarkerIn t []
  | [], h, _, _ => by simp [SplitOK] at h
  | [t], h, t', ht => by
    simp only [evens, List.mem_singleton] at ht
    subst ht; exact h
  | t :: m :: rest, h, t', ht => by
    simp only [SplitOK] at h
    simp only [evens, List.mem_cons] at ht
    rcases ht with rfl | ht
    · intro i hi
      have h1 := h.1 i hi
      -- a match at the head of `t'.drop i` alone would also be one with more text behind it
      cases hm : isMarkerAt (t'.drop i ++ []) with
      | false => rfl
      | true =>
        rw [List.append_nil] at hm
        rw [isMarkerAt_append hm] at h1
        exact Bool.noConfusion h1
    · exact SplitOK.local h.2.2.2 t' ht

theorem removeMarkers_of_noMarker (s : List Char) (h : NoMarkerIn s []) : removeMarkers s = s := by
  simp [removeMarkers, contextSplit_of_noMarker s h, evens]

/-- `process_context` does nothing to a text element of the split -/
theorem removeMarkers_text_piece (s t : List Char) (ht : t ∈ evens (contextSplit s)) :
    removeMarkers t = t :=
  removeMarkers_of_noMarker t ((contextSplit_ok s).local t ht)

/-! ## what a failing call has written -/

section Partial
variable {ω : Type} (pw : List ω → List (Ev ω))

theorem betweenLoop_out_prefix : ∀ (cs : List (Option (List ω))) (w : List ω) (out : List (Ev ω)),
    out <+: (betweenLoop pw cs w out).2.1
  | [], _, out => by simp [betweenLoop]
  | [_], _, out => by simp [betweenLoop]
  | none :: c2 :: rest, _, out => by
    simp only [betweenLoop]; exact betweenLoop_out_prefix (c2 :: rest) [] out
  | some ws :: c2 :: rest, _, out => by
    simp only [betweenLoop]
    exact (List.prefix_append out _).trans (betweenLoop_out_prefix (c2 :: rest) _ _)

theorem docStep_out_prefix (st : List ω × List (Ev ω)) (elems : List (Option (List ω))) :
    st.2 <+: (docStep pw st elems).2 := by
  match elems with
  | [] => simp [docStep]
  | [e] => simp [docStep]
  | e0 :: c :: cs =>
    simp only [docStep]
    have := betweenLoop_out_prefix pw (c :: cs) (st.1 ++ e0.getD []) (st.2 ++ pw (st.1 ++ e0.getD []))
    generalize betweenLoop pw (c :: cs) (st.1 ++ e0.getD []) (st.2 ++ pw (st.1 ++ e0.getD [])) = r at this
    obtain ⟨w', out', l⟩ := r
    cases l <;> exact (List.prefix_append st.2 _).trans this

theorem foldl_docStep_out_prefix (lines : List (List (Option (List ω)))) :
    ∀ (st : List ω × List (Ev ω)), st.2 <+: (lines.foldl (docStep pw) st).2 := by
  induction lines with
  | nil => intro st; simp
  | cons l ls ih =>
    intro st
    simp only [List.foldl_cons]
    exact (docStep_out_prefix pw st l).trans (ih _)

/-- an exception in element `j` of the `while` loop: what was emitted is a prefix
    of what the loop emits when it runs to its end -/
theorem betweenLoop_trunc : ∀ (cs : List (Option (List ω))) (j : Nat) (w : List ω) (out : List (Ev ω)),
    j < cs.length →
    (betweenLoop pw (cs.take j ++ [none]) w out).2.1 <+: (betweenLoop pw cs w out).2.1
  | [], _, _, _, h => by simp at h
  | [l], j, w, out, h => by
    have : j = 0 := by simpa using h
    subst this
    simp [betweenLoop]
  | c :: c2 :: rest, 0, w, out, _ => by
    simp only [List.take_zero, List.nil_append, betweenLoop]
    exact betweenLoop_out_prefix pw (c :: c2 :: rest) w out
  | c :: c2 :: rest, j + 1, w, out, h => by
    have hj : j < (c2 :: rest).length := by simpa using h
    have ih := betweenLoop_trunc (c2 :: rest) j
    -- the truncated tail is again a non-empty list
    obtain ⟨x, xs, hx⟩ : ∃ x xs, (c2 :: rest).take j ++ [none] = x :: xs := by
      cases hh : (c2 :: rest).take j ++ [none] with
      | nil => simp at hh
      | cons x xs => exact ⟨x, xs, rfl⟩
    simp only [List.take_succ_cons, List.cons_append]
    rw [hx]
    cases c with
    | none =>
      simp only [betweenLoop]
      rw [← hx]; exact ih [] out hj
    | some ws =>
      simp only [betweenLoop]
      rw [← hx]; exact ih _ _ hj

/-- an exception in element `i` of a line: what `docStep` had emitted is a
    prefix of what it emits on the whole line -/
theorem docStep_trunc (st : List ω × List (Ev ω)) (elems : List (Option (List ω))) (i : Nat)
    (hi : i < elems.length) :
    (docStep pw st (elems.take i ++ [none])).2 <+: (docStep pw st elems).2 := by
  match elems, i, hi with
  | [], _, h => simp at h
  | [e], i, h =>
    have : i = 0 := by simpa using h
    subst this
    simp [docStep]
  | e0 :: c :: cs, 0, _ =>
    simp only [List.take_zero, List.nil_append]
    have : (docStep pw st [none]).2 = st.2 := by simp [docStep]
    rw [this]
    exact docStep_out_prefix pw st _
  | e0 :: c :: cs, i + 1, h =>
    have hj : i < (c :: cs).length := by simpa using h
    obtain ⟨x, xs, hx⟩ : ∃ x xs, (c :: cs).take i ++ [none] = x :: xs := by
      cases hh : (c :: cs).take i ++ [none] with
      | nil => simp at hh
      | cons x xs => exact ⟨x, xs, rfl⟩
    simp only [List.take_succ_cons, List.cons_append]
    rw [hx]
    simp only [docStep]
    rw [← hx]
    have := betweenLoop_trunc pw (c :: cs) i (st.1 ++ e0.getD []) (st.2 ++ pw (st.1 ++ e0.getD [])) hj
    generalize betweenLoop pw (c :: cs) (st.1 ++ e0.getD []) (st.2 ++ pw (st.1 ++ e0.getD [])) = r at this
    generalize betweenLoop pw ((c :: cs).take i ++ [none]) (st.1 ++ e0.getD [])
      (st.2 ++ pw (st.1 ++ e0.getD [])) = r' at this
    obtain ⟨w', out', l⟩ := r
    obtain ⟨w'', out'', l'⟩ := r'
    cases l <;> cases l' <;> exact this

/-- the machine stopped before the final flush has emitted a prefix of the
    complete run -/
theorem partialDocument_prefix (lines : List (List (Option (List ω)))) :
    partialDocument pw lines <+: runDocument pw lines := by
  simp only [partialDocument, runDocument]
  exact List.prefix_append _ _

/-- **late failure, `'document'`**: an exception while line `k` is processed, in
    its element `i`, leaves a prefix of the events of the complete run. -/
theorem partialDocument_trunc_prefix (lines : List (List (Option (List ω)))) (k i : Nat)
    (hk : k < lines.length) (hi : i < (lines[k]).length) :
    partialDocument pw (lines.take k ++ [(lines[k]).take i ++ [none]]) <+: runDocument pw lines := by
  have hsplit : lines = lines.take k ++ lines[k] :: lines.drop (k + 1) := by
    rw [List.getElem_cons_drop, List.take_append_drop]
  refine List.IsPrefix.trans ?_ (partialDocument_prefix pw lines)
  conv => rhs; rw [hsplit]
  simp only [partialDocument, List.foldl_append, List.foldl_cons, List.foldl_nil]
  exact (docStep_trunc pw _ _ i hi).trans (foldl_docStep_out_prefix pw _ _)

/-- … and an exception of the line iterator after all of `lines` were read
    (a `UnicodeDecodeError`): everything but the final flush. -/
theorem partialDocument_end (lines : List (List (Option (List ω)))) :
    partialDocument pw (lines ++ [[none]]) = partialDocument pw lines := by
  simp [partialDocument, List.foldl_append, docStep]

theorem runLine_take_prefix (lines : List (List ω)) (k : Nat) :
    runLine pw (lines.take k) <+: runLine pw lines := by
  have h1 : runLine pw (lines.take k) = (lines.take k).flatMap pw := by
    simpa [runLine] using runLine_eq pw (lines.take k) []
  have h2 : runLine pw lines = lines.flatMap pw := by
    simpa [runLine] using runLine_eq pw lines []
  rw [h1, h2]
  conv => rhs; rw [← List.take_append_drop k lines, List.flatMap_append]
  exact List.prefix_append _ _

end Partial

/-- **what a late failure leaves is a prefix of the complete run**: for every
    fault position `(k, i)` that exists (`k` a line, `i` an element of its
    split; or `k` past the last line), the events written before the fault are
    an initial segment of the events the same call writes when nothing fails. -/
theorem writtenBeforeG_prefix (ops : TextOps) (o : Options) (rawLines : List (List Char)) (k i : Nat)
    (hki : o.context = .document →
            (k < rawLines.length ∧
              i < (docLineElemsG ops o.lowerCase o.allowed (rawLines.getD k [])).length)
            ∨ (rawLines.length ≤ k ∧ i = 0)) :
    writtenBeforeG ops o rawLines k i <+: createEventsG ops o rawLines := by
  unfold writtenBeforeG createEventsG
  cases hctx : o.context with
  | line =>
    simp only []
    rw [List.map_take]
    exact runLine_take_prefix _ _ k
  | document =>
    simp only []
    rcases hki hctx with ⟨hk, hi⟩ | ⟨hk, rfl⟩
    · have hk' : k < (rawLines.map (docLineElemsG ops o.lowerCase o.allowed)).length := by simpa using hk
      have hget : (rawLines.map (docLineElemsG ops o.lowerCase o.allowed))[k]
          = docLineElemsG ops o.lowerCase o.allowed (rawLines.getD k []) := by
        simp [List.getD_eq_getElem?_getD, List.getElem?_eq_getElem hk]
      have := partialDocument_trunc_prefix (processWords o)
        (rawLines.map (docLineElemsG ops o.lowerCase o.allowed)) k i hk' (by rw [hget]; exact hi)
      rw [hget] at this
      rw [List.map_take]
      exact this
    · rw [List.take_of_length_le hk]
      simp only [List.take_zero, List.nil_append]
      rw [partialDocument_end]
      exact partialDocument_prefix _ _

/-! ### the exact content of the left-over file, in closed form -/

section Closed
variable {ω : Type} (pw : List ω → List (Ev ω))

/-- the contexts CLOSED by a marker: all contexts of the item stream but the
    last one, which is still open (it is the carry-over buffer of the machine) -/
def closedContexts (items : List (Item ω)) : List (List ω) := (groupContexts items []).dropLast

theorem groupContexts_ne_nil : ∀ (items : List (Item ω)) (cur : List ω), groupContexts items cur ≠ []
  | [], _ => by simp [groupContexts]
  | .chunk ws :: rest, cur => by simpa [groupContexts] using groupContexts_ne_nil rest (cur ++ ws)
  | .boundary :: rest, cur => by simp [groupContexts]

/-- a trailing empty chunk changes nothing -/
theorem groupContexts_snoc_chunk_nil : ∀ (items : List (Item ω)) (cur : List ω),
    groupContexts (items ++ [.chunk []]) cur = groupContexts items cur
  | [], cur => by simp [groupContexts]
  | .chunk ws :: rest, cur => by
    simpa [groupContexts] using groupContexts_snoc_chunk_nil rest (cur ++ ws)
  | .boundary :: rest, cur => by
    simpa [groupContexts] using groupContexts_snoc_chunk_nil rest []

/-- **the machine before the final flush has written exactly the closed
    contexts** (for lines of the `re.split` shape). -/
theorem foldl_docStep_closed (hnil : pw [] = []) (lines : List (List (Option (List ω))))
    (hs : ∀ l ∈ lines, wellShaped l = true) (w : List ω) (out : List (Ev ω)) :
    (lines.foldl (docStep pw) (w, out)).2 =
      out ++ ((groupContexts (lines.flatMap (fun l => lineItems (evens l))) w).dropLast).flatMap pw := by
  induction lines generalizing w out with
  | nil => simp [groupContexts]
  | cons l lines ih =>
    obtain ⟨e0, ts, rfl⟩ := wellShaped_exists l (hs l (List.mem_cons_self))
    obtain ⟨closed, w', h1, h2⟩ := docStep_shape pw hnil e0 ts w out
    simp only [List.foldl_cons, h1, List.flatMap_cons, evens_withMarkers]
    rw [ih (fun l hl => hs l (List.mem_cons_of_mem _ hl)), h2,
      List.dropLast_append_of_ne_nil (groupContexts_ne_nil _ _)]
    simp [List.append_assoc]

theorem partialDocument_eq_closed (hnil : pw [] = []) (lines : List (List (Option (List ω))))
    (hs : ∀ l ∈ lines, wellShaped l = true) :
    partialDocument pw lines
      = (closedContexts (lines.flatMap (fun l => lineItems (evens l)))).flatMap pw := by
  simpa [partialDocument, closedContexts] using foldl_docStep_closed pw hnil lines hs [] []

/-- the items of the text pieces `t0 … t(j-1)` of a line, each followed by the
    marker that closes it -/
def closedItems (ts : List (Option (List ω))) : List (Item ω) :=
  ts.flatMap fun t => [.chunk (t.getD []), .boundary]

theorem lineItems_snoc : ∀ (ts : List (Option (List ω))) (x : Option (List ω)),
    lineItems (ts ++ [x]) = closedItems ts ++ [.chunk (x.getD [])]
  | [], x => by simp [lineItems, closedItems]
  | [t], x => by simp [lineItems, closedItems]
  | t :: t2 :: rest, x => by
    have := lineItems_snoc (t2 :: rest) x
    simp only [List.cons_append] at this
    simp only [List.cons_append, lineItems, this, closedItems, List.flatMap_cons]
    simp

/-- a line of the `re.split` shape, cut in front of its text piece `j` (element
    `2j`), with an empty piece in its place: again of that shape, and its text
    pieces are the first `j` text pieces followed by the empty one -/
theorem truncated_line : ∀ (j : Nat) (e0 : Option (List ω)) (ts : List (Option (List ω))), j ≤ ts.length →
    wellShaped ((e0 :: withMarkers ts).take (2 * j) ++ [none]) = true ∧
    evens ((e0 :: withMarkers ts).take (2 * j) ++ [none]) = (e0 :: ts).take j ++ [none]
  | 0, _, _, _ => by simp [wellShaped, evens]
  | j + 1, e0, [], h => by simp at h
  | j + 1, e0, t :: ts, h => by
    have hj : j ≤ ts.length := by simpa using h
    have h2 : 2 * (j + 1) = (2 * j + 1) + 1 := by omega
    obtain ⟨ih1, ih2⟩ := truncated_line j t ts hj
    have hrw : (e0 :: withMarkers (t :: ts)).take (2 * (j + 1)) ++ [none]
        = e0 :: none :: ((t :: withMarkers ts).take (2 * j) ++ [none]) := by
      rw [h2]; simp [withMarkers]
    rw [hrw]
    refine ⟨by simpa [wellShaped] using ih1, ?_⟩
    simp only [evens, ih2, List.take_succ_cons, List.cons_append]

theorem withMarkers_length (ts : List (Option (List ω))) : (withMarkers ts).length = 2 * ts.length := by
  induction ts with
  | nil => rfl
  | cons t ts ih => simp only [withMarkers, List.length_cons, ih]; omega

/-- the item stream the machine has consumed when it reaches text piece `j` of
    line `k`: all items of the lines before `k`, and the first `j` text pieces of
    line `k`, each followed by its marker.  (`k` past the last line, `j = 0`:
    the items of all lines.) -/
def itemsBefore (elemLines : List (List (Option (List ω)))) (k j : Nat) : List (Item ω) :=
  (elemLines.take k).flatMap (fun l => lineItems (evens l))
    ++ closedItems ((evens (elemLines.getD k [])).take j)

/-- **late failure, `'document'`, closed form**: an exception in text piece `j`
    (element `2j`) of line `k` leaves exactly `process_words` of every context
    that a marker has closed before that point — nothing of the open context. -/
theorem partialDocument_trunc_closed (hnil : pw [] = []) (lines : List (List (Option (List ω))))
    (hs : ∀ l ∈ lines, wellShaped l = true) (k j : Nat)
    (hk : k < lines.length) (hj : 2 * j < (lines[k]).length) :
    partialDocument pw (lines.take k ++ [(lines[k]).take (2 * j) ++ [none]])
      = (closedContexts (itemsBefore lines k j)).flatMap pw := by
  obtain ⟨e0, ts, hl⟩ := wellShaped_exists lines[k] (hs _ (List.getElem_mem hk))
  have hjt : j ≤ ts.length := by
    rw [hl] at hj; simp only [List.length_cons, withMarkers_length] at hj; omega
  obtain ⟨t1, t2⟩ := truncated_line j e0 ts hjt
  rw [partialDocument_eq_closed pw hnil]
  · simp only [closedContexts, itemsBefore, List.flatMap_append, List.flatMap_cons, List.flatMap_nil,
      List.append_nil]
    rw [hl, t2, lineItems_snoc, Option.getD_none, ← List.append_assoc, groupContexts_snoc_chunk_nil]
    have : lines.getD k [] = e0 :: withMarkers ts := by
      rw [List.getD_eq_getElem?_getD, List.getElem?_eq_getElem hk, Option.getD_some, hl]
    rw [this, evens_withMarkers]
  · intro l hmem
    rcases List.mem_append.mp hmem with h | h
    · exact hs l (List.mem_of_mem_take h)
    · rw [List.mem_singleton] at h
      rw [h, hl]; exact t1

/-- … and an exception of the line iterator after all lines: every closed
    context, nothing of the open one. -/
theorem partialDocument_end_closed (hnil : pw [] = []) (lines : List (List (Option (List ω))))
    (hs : ∀ l ∈ lines, wellShaped l = true) (k : Nat) (hk : lines.length ≤ k) :
    partialDocument pw (lines ++ [[none]]) = (closedContexts (itemsBefore lines k 0)).flatMap pw := by
  rw [partialDocument_end, partialDocument_eq_closed pw hnil lines hs]
  simp [itemsBefore, closedItems, List.take_of_length_le hk]

end Closed

/-- **`'line'`, closed form**: what is left are exactly the events of the lines
    before the fault — the file a complete call on the corpus `lines[:k]` writes. -/
theorem writtenBeforeG_line (ops : TextOps) (o : Options) (hc : o.context = .line)
    (rawLines : List (List Char)) (k i : Nat) :
    writtenBeforeG ops o rawLines k i = createEventsG ops o (rawLines.take k) := by
  simp only [writtenBeforeG, createEventsG, hc]

/-- `process_words([])` writes nothing, for every option combination. -/
theorem processWords_nil' (o : Options) : processWords o [] = [] := by
  cases o with
  | mk al ctx ev cue lc rd =>
    cases ev with
    | consecutiveWords n =>
      have h0 : intRange (1 - min n 0) 0 = [] := by
        simp only [intRange]
        have : ((0 : Int) - (1 - min n 0)).toNat = 0 := by omega
        rw [this]; rfl
      cases cue <;> simp [processWords, genOccurrences, genConsecutive, h0, processOccurrences]
    | wordToWord b a =>
      cases cue <;> simp [processWords, genOccurrences, genWordToWord, enumFrom, processOccurrences]
    | line =>
      cases cue <;> simp [processWords, genOccurrences, processOccurrences, ngramsToWord1, wordCues1]

/-- **`'document'`, closed form**: a fault in text piece `j` (element `2j` of the
    split) of line `k` — or after the last line (`rawLines.length ≤ k`, `j = 0`:
    the `UnicodeDecodeError` of the line iterator) — leaves exactly
    `process_words` of every context closed by a marker before that point:
    the markers of the lines before `k` and the first `j` markers of line `k`.
    Nothing of the open context (the carry-over buffer) is written. -/
theorem writtenBeforeG_document (ops : TextOps) (o : Options) (hc : o.context = .document)
    (rawLines : List (List Char)) (k j : Nat)
    (hkj : (k < rawLines.length ∧
              2 * j < (docLineElemsG ops o.lowerCase o.allowed (rawLines.getD k [])).length)
            ∨ (rawLines.length ≤ k ∧ j = 0)) :
    writtenBeforeG ops o rawLines k (2 * j)
      = (closedContexts (itemsBefore (rawLines.map (docLineElemsG ops o.lowerCase o.allowed)) k j)).flatMap
          (processWords o) := by
  have hs : ∀ l ∈ rawLines.map (docLineElemsG ops o.lowerCase o.allowed), wellShaped l = true := by
    intro l hl
    simp only [List.mem_map] at hl
    obtain ⟨raw, _, rfl⟩ := hl
    exact docLineElemsG_wellShaped ops o.lowerCase o.allowed raw
  simp only [writtenBeforeG, hc]
  rcases hkj with ⟨hk, hj⟩ | ⟨hk, rfl⟩
  · have hk' : k < (rawLines.map (docLineElemsG ops o.lowerCase o.allowed)).length := by simpa using hk
    have hget : (rawLines.map (docLineElemsG ops o.lowerCase o.allowed))[k]
        = docLineElemsG ops o.lowerCase o.allowed (rawLines.getD k []) := by
      simp [List.getD_eq_getElem?_getD, List.getElem?_eq_getElem hk]
    have := partialDocument_trunc_closed (processWords o) (processWords_nil' o) _ hs k j hk'
      (by rw [hget]; exact hj)
    rw [hget, ← List.map_take] at this
    exact this
  · have := partialDocument_end_closed (processWords o) (processWords_nil' o) _ hs k (by simpa using hk)
    rw [List.take_of_length_le hk]
    simpa using this

/-! ### where the callable raises -/

theorem seenG_length (ops : TextOps) (lc : Bool) (a : Allowed) (raw : List Char) :
    (seenG ops lc .document raw).length = (docLineElemsG ops lc a raw).length := by
  simp only [seenG, docLineElemsG]
  split <;> simp

theorem firstFault_spec (raises : Char → Bool) (ops : TextOps) (lc : Bool) (ctx : ContextStructure) :
    ∀ (lines : List (List Char)) (k0 k i : Nat),
      firstFault raises ops lc ctx k0 lines = some (k, i) →
      k0 ≤ k ∧ k - k0 < lines.length ∧ i < (seenG ops lc ctx (lines.getD (k - k0) [])).length
  | [], _, _, _, h => by simp [firstFault] at h
  | raw :: rest, k0, k, i, h => by
    simp only [firstFault] at h
    split at h
    · rename_i j hj
      simp only [Option.some.injEq, Prod.mk.injEq] at h
      obtain ⟨rfl, rfl⟩ := h
      refine ⟨Nat.le_refl _, by simp, ?_⟩
      simp only [Nat.sub_self, List.getD_cons_zero]
      exact (List.findIdx?_eq_some_iff_getElem.mp hj).1
    · obtain ⟨h1, h2, h3⟩ := firstFault_spec raises ops lc ctx rest (k0 + 1) k i h
      refine ⟨by omega, by simp only [List.length_cons]; omega, ?_⟩
      have : k - k0 = (k - (k0 + 1)) + 1 := by omega
      rw [this, List.getD_cons_succ]
      exact h3

/-- the elements at odd positions of `t0 :: [m1, t1, …]` are the `mj` -/
theorem interleave_odd (t0 : List Char) : ∀ (ms : List (List Char × List Char)) (i : Nat),
    (t0 :: interleave ms)[2 * i + 1]? = (ms[i]?).map (·.1)
  | [], i => by simp [interleave]
  | p :: r, 0 => by simp [interleave]
  | p :: r, i + 1 => by
    have : 2 * (i + 1) + 1 = (2 * i + 1) + 1 + 1 := by omega
    rw [this]
    simp only [interleave, List.getElem?_cons_succ]
    exact interleave_odd p.2 r i

/-- the callable is never handed a character of a marker element: the strings
    seen at the odd positions of a split are empty -/
theorem seenG_odd (ops : TextOps) (lc : Bool) (raw : List Char) (i : Nat)
    (hi : 2 * i + 1 < (seenG ops lc .document raw).length) :
    (seenG ops lc .document raw)[2 * i + 1] = [] := by
  obtain ⟨t0, ms, h1, h2⟩ := splitAux_shape ((strip ops.isWs raw).length + 1) (strip ops.isWs raw) []
  have hcs : contextSplit (strip ops.isWs raw) = t0 :: interleave ms := h1
  have key : ∀ (f : List Char → List Char), (∀ s, isMarkerAt s = true → f (s.take markerLen) = []) →
      ∀ x, ((t0 :: interleave ms).map f)[2 * i + 1]? = some x → x = [] := by
    intro f hf x hx
    rw [List.getElem?_map, interleave_odd] at hx
    cases hm : ms[i]? with
    | none => simp [hm] at hx
    | some p =>
      simp only [hm, Option.map_some, Option.some.injEq] at hx
      obtain ⟨s', hs', hp⟩ := h2 p (List.mem_of_getElem? hm)
      rw [← hx, hp]; exact hf s' hs'
  have hget : (seenG ops lc .document raw)[2 * i + 1]? = some (seenG ops lc .document raw)[2 * i + 1] :=
    List.getElem?_eq_getElem hi
  revert hget hi
  simp only [seenG, hcs]
  cases ms with
  | nil => intro hi; simp [interleave] at hi
  | cons p r =>
    simp only [interleave]
    intro hi hget
    refine key _ ?_ _ hget
    intro s' hs'
    simp [removeMarkers_marker hs', strip]

/-- **a fault position of a callable is a TEXT piece**: in `'document'` contexts
    the element index is even (`i = 2j`, `j` = number of markers of the line
    already passed). -/
theorem firstFault_document_even (raises : Char → Bool) (ops : TextOps) (lc : Bool) :
    ∀ (lines : List (List Char)) (k0 k i : Nat),
      firstFault raises ops lc .document k0 lines = some (k, i) → i % 2 = 0
  | [], _, _, _, h => by simp [firstFault] at h
  | raw :: rest, k0, k, i, h => by
    simp only [firstFault] at h
    split at h
    · rename_i j hj
      simp only [Option.some.injEq, Prod.mk.injEq] at h
      obtain ⟨_, rfl⟩ := h
      obtain ⟨hlt, hany⟩ := (List.findIdx?_eq_some_iff_getElem.mp hj)
      rcases Nat.mod_two_eq_zero_or_one j with h0 | hodd
      · exact h0
      exfalso
      have hany := hany.1
      have hj2 : j = 2 * (j / 2) + 1 := by omega
      have h0 := seenG_odd ops lc raw (j / 2) (by omega)
      have : (seenG ops lc .document raw)[j] = [] := by
        have e : (seenG ops lc .document raw)[j]? = (seenG ops lc .document raw)[2 * (j / 2) + 1]? := by
          rw [← hj2]
        rw [List.getElem?_eq_getElem hlt, List.getElem?_eq_getElem (by omega)] at e
        rw [Option.some.inj e, h0]
      rw [this] at hany
      simp at hany
    · exact firstFault_document_even raises ops lc rest (k0 + 1) k i h

/-- a callable that never raises has no fault position -/
theorem firstFault_never (ops : TextOps) (lc : Bool) (ctx : ContextStructure) :
    ∀ (lines : List (List Char)) (k0 : Nat), firstFault (fun _ => false) ops lc ctx k0 lines = none
  | [], _ => rfl
  | raw :: rest, k0 => by
    simp only [firstFault]
    have : (seenG ops lc ctx raw).findIdx? (fun s => s.any fun _ => false) = none := by
      rw [List.findIdx?_eq_none_iff]
      intro s _
      simp
    rw [this]
    exact firstFault_never ops lc ctx rest (k0 + 1)

/-! ## the cleaning clauses -/

/-- the symbol filter: what comes out is the blank or passed the test -/
theorem mem_filterSymbols_ok {a : Allowed} {s : List Char} {c : Char} (h : c ∈ filterSymbols a s) :
    c = ' ' ∨ a.ok c = true := by
  rw [filterSymbols_eq_map, List.mem_map] at h
  obtain ⟨d, _, rfl⟩ := h
  split
  · rename_i hd; exact Or.inr hd
  · exact Or.inl rfl

/-! ### two `allowed_symbols` values that filter alike give the same run -/

theorem lineWordsG_congr {a a' : Allowed} (h : filterSymbols a = filterSymbols a') (ops : TextOps) (lc : Bool) :
    lineWordsG ops lc a = lineWordsG ops lc a' := by
  funext raw; simp only [lineWordsG, processLineG, h]

theorem docLineElemsG_congr {a a' : Allowed} (h : filterSymbols a = filterSymbols a') (ops : TextOps)
    (lc : Bool) : docLineElemsG ops lc a = docLineElemsG ops lc a' := by
  have he : elemWordsG ops lc a = elemWordsG ops lc a' := by
    funext piece; simp only [elemWordsG, processLineG, h]
  funext raw; simp only [docLineElemsG, processLineG, h, he]

theorem createEventsG_congr_allowed (ops : TextOps) (a a' : Allowed) (h : filterSymbols a = filterSymbols a')
    (ctx : ContextStructure) (es : EventStructure) (cs : CueStructure) (lc rd : Bool)
    (rawLines : List (List Char)) :
    createEventsG ops ⟨a, ctx, es, cs, lc, rd⟩ rawLines = createEventsG ops ⟨a', ctx, es, cs, lc, rd⟩ rawLines := by
  cases ctx
  · simp only [createEventsG, docLineElemsG_congr h]; rfl
  · simp only [createEventsG, lineWordsG_congr h]; rfl

theorem writtenBeforeG_congr_allowed (ops : TextOps) (a a' : Allowed) (h : filterSymbols a = filterSymbols a')
    (ctx : ContextStructure) (es : EventStructure) (cs : CueStructure) (lc rd : Bool)
    (rawLines : List (List Char)) (k i : Nat) :
    writtenBeforeG ops ⟨a, ctx, es, cs, lc, rd⟩ rawLines k i
      = writtenBeforeG ops ⟨a', ctx, es, cs, lc, rd⟩ rawLines k i := by
  cases ctx
  · simp only [writtenBeforeG, docLineElemsG_congr h]; rfl
  · simp only [writtenBeforeG, lineWordsG_congr h]; rfl

section Chars
variable (P : Char → Prop)

/-- every character of the word satisfies `P` -/
def WordAll (w : Word) : Prop := ∀ c ∈ w, P c

/-- outcome tokens consist of `P`-characters, cue tokens of `P`-characters and
    `#` (n-gram cues are pieces of `#w1#…#wk#`) -/
def EvAll (ev : Ev Word) : Prop :=
  (∀ tok ∈ ev.outcomes, ∀ c ∈ tok, P c) ∧ (∀ tok ∈ ev.cues, ∀ c ∈ tok, P c ∨ c = '#')

theorem ngram_chars {n : Nat} {toks : List Word} (ht : ∀ tok ∈ toks, WordAll P tok) {g : List Char}
    (hg : g ∈ ngrams n (phraseString toks)) : ∀ c ∈ g, P c ∨ c = '#' := by
  rw [ngrams_eq] at hg
  simp only [List.mem_map, List.mem_range] at hg
  obtain ⟨i, _, rfl⟩ := hg
  intro c hc
  have hc' : c ∈ phraseString toks := List.mem_of_mem_drop (List.mem_of_mem_take hc)
  rcases mem_phraseString hc' with h | ⟨tok, htok, hct⟩
  · exact Or.inr h
  · exact Or.inl (ht tok htok c hct)

theorem processWords_chars (o : Options) (words : List Word) (hw : ∀ w ∈ words, WordAll P w) :
    ∀ ev ∈ processWords o words, EvAll P ev := by
  intro ev hev
  simp only [processWords, processOccurrences] at hev
  have hocc := genOccurrences_mem o.event o.cue words
  cases hcue : o.cue with
  | ngrams n =>
    rw [hcue] at hev hocc
    simp only [List.mem_filterMap] at hev
    obtain ⟨occ, hmem, hsome⟩ := hev
    have htoks : ∀ tok ∈ occ.1 ++ occ.2, WordAll P tok := fun tok ht => hw tok (hocc occ hmem tok ht)
    simp only [ngramsToWord1] at hsome
    split at hsome
    · simp at hsome
    · split at hsome
      · simp only [Option.some.injEq] at hsome
        subst hsome
        refine ⟨fun tok ht => ?_, fun tok ht => ?_⟩
        · exact htoks tok (List.mem_eraseDups.mp ht)
        · exact ngram_chars P htoks (List.mem_eraseDups.mp ht)
      · simp only [Option.some.injEq] at hsome
        subst hsome
        exact ⟨fun tok ht => htoks tok ht, fun tok ht => ngram_chars P htoks ht⟩
  | wordToWord =>
    rw [hcue] at hev hocc
    simp only [List.mem_filterMap] at hev
    obtain ⟨occ, hmem, hsome⟩ := hev
    have htoks : ∀ tok ∈ occ.1 ++ occ.2, WordAll P tok := fun tok ht => hw tok (hocc occ hmem tok ht)
    simp only [wordCues1] at hsome
    split at hsome
    · simp at hsome
    · split at hsome
      · simp only [Option.some.injEq] at hsome
        subst hsome
        refine ⟨fun tok ht => ?_, fun tok ht c hc => Or.inl ?_⟩
        · exact htoks tok (List.mem_append_right _ (List.mem_eraseDups.mp ht))
        · exact htoks tok (List.mem_append_left _ (List.mem_eraseDups.mp ht)) c hc
      · simp only [Option.some.injEq] at hsome
        subst hsome
        exact ⟨fun tok ht => htoks tok (List.mem_append_right _ ht),
               fun tok ht c hc => Or.inl (htoks tok (List.mem_append_left _ ht) c hc)⟩

/-- **transfer principle**: a property `P` of every non-blank character that
    `process_line` can return (for the lines/pieces of this call) holds of every
    character of every outcome token, and of every character other than `#` of
    every cue token. -/
theorem createEventsG_chars (ops : TextOps) (o : Options)
    (hP : ∀ (line : List Char) (c : Char), c ∈ processLineG ops o.lowerCase o.allowed line → c ≠ ' ' → P c)
    (rawLines : List (List Char)) : ∀ ev ∈ createEventsG ops o rawLines, EvAll P ev := by
  have hwords : ∀ (line : List Char), ∀ w ∈ genWordsG ops.isWs (processLineG ops o.lowerCase o.allowed line),
      WordAll P w := by
    intro line w hw c hc
    obtain ⟨h1, h2⟩ := (mem_genWordsG hw).2 c hc
    exact hP line c h2 h1
  intro ev hev
  simp only [createEventsG] at hev
  split at hev
  · refine runLine_inv (processWords o) (WordAll P) (EvAll P) (processWords_chars P o) _ ?_ ev hev
    intro l hl
    simp only [List.mem_map] at hl
    obtain ⟨raw, _, rfl⟩ := hl
    exact hwords _
  · refine runDocument_inv (processWords o) (WordAll P) (EvAll P) (processWords_chars P o) _ ?_ ev hev
    intro l hl
    simp only [List.mem_map] at hl
    obtain ⟨raw, _, rfl⟩ := hl
    intro e he ws hws
    simp only [docLineElemsG] at he
    split at he
    · simp only [List.mem_singleton] at he
      subst he
      simp only [Option.some.injEq] at hws
      subst hws
      exact hwords _
    · simp only [List.mem_map] at he
      obtain ⟨p, _, rfl⟩ := he
      simp only [elemWordsG] at hws
      split at hws
      · simp at hws
      · simp only [Option.some.injEq] at hws
        subst hws
        exact hwords _

end Chars

/-! ## `remove_duplicates` -/

theorem dedup_nodup : ∀ (l : List Word), (dedup l).Nodup
  | [] => by simp [dedup]
  | a :: as => by
    have hl : (as.filter fun b => !b == a).length < (a :: as).length :=
      Nat.lt_succ_of_le (List.length_filter_le _ _)
    have ih := dedup_nodup (as.filter fun b => !b == a)
    simp only [dedup] at ih
    simp only [dedup, List.eraseDups_cons, List.nodup_cons]
    refine ⟨?_, ih⟩
    intro hm
    have := (List.mem_filter.mp (List.mem_eraseDups.mp hm)).2
    simp at this
termination_by l => l.length

theorem mem_dedup {l : List Word} {w : Word} : w ∈ dedup l ↔ w ∈ l := List.mem_eraseDups

theorem dedup_sublist : ∀ (l : List Word), (dedup l).Sublist l
  | [] => by simp [dedup]
  | a :: as => by
    have hl : (as.filter fun b => !b == a).length < (a :: as).length :=
      Nat.lt_succ_of_le (List.length_filter_le _ _)
    have ih := dedup_sublist (as.filter fun b => !b == a)
    simp only [dedup] at ih
    simp only [dedup, List.eraseDups_cons]
    exact (ih.trans List.filter_sublist).cons_cons a
termination_by l => l.length

/-- what `remove_duplicates=True` does to one written event -/
def dedupEv (ev : Ev Word) : Ev Word := ⟨dedup ev.cues, dedup ev.outcomes⟩

theorem processWords_dedup (al : Allowed) (ctx : ContextStructure) (es : EventStructure)
    (cs : CueStructure) (lc : Bool) (words : List Word) :
    processWords ⟨al, ctx, es, cs, lc, true⟩ words
      = (processWords ⟨al, ctx, es, cs, lc, false⟩ words).map dedupEv := by
  simp only [processWords, processOccurrences]
  cases cs with
  | ngrams n =>
    simp only [List.map_filterMap]
    congr 1
    funext occ
    simp only [ngramsToWord1]
    split <;> simp [dedupEv]
  | wordToWord =>
    simp only [List.map_filterMap]
    congr 1
    funext occ
    simp only [wordCues1]
    split <;> simp [dedupEv]

section Nat
variable {ω : Type} (pw : List ω → List (Ev ω)) (f : Ev ω → Ev ω)

theorem betweenLoop_map : ∀ (cs : List (Option (List ω))) (w : List ω) (out : List (Ev ω)),
    betweenLoop (fun ws => (pw ws).map f) cs w (out.map f)
      = ((betweenLoop pw cs w out).1, (betweenLoop pw cs w out).2.1.map f, (betweenLoop pw cs w out).2.2)
  | [], _, _ => by simp [betweenLoop]
  | [_], _, _ => by simp [betweenLoop]
  | none :: c2 :: rest, _, out => by
    simp only [betweenLoop]; exact betweenLoop_map (c2 :: rest) [] out
  | some ws :: c2 :: rest, _, out => by
    simp only [betweenLoop]
    have := betweenLoop_map (c2 :: rest) ([] ++ ws) (out ++ pw ([] ++ ws))
    simp only [List.map_append] at this
    exact this

theorem docStep_map (st : List ω × List (Ev ω)) (elems : List (Option (List ω))) :
    docStep (fun ws => (pw ws).map f) (st.1, st.2.map f) elems
      = ((docStep pw st elems).1, (docStep pw st elems).2.map f) := by
  match elems with
  | [] => simp [docStep]
  | [e] => simp [docStep]
  | e0 :: c :: cs =>
    simp only [docStep]
    have := betweenLoop_map pw f (c :: cs) (st.1 ++ e0.getD []) (st.2 ++ pw (st.1 ++ e0.getD []))
    simp only [List.map_append] at this
    rw [this]
    generalize betweenLoop pw (c :: cs) (st.1 ++ e0.getD []) (st.2 ++ pw (st.1 ++ e0.getD [])) = r
    obtain ⟨w', out', l⟩ := r
    cases l <;> rfl

theorem foldl_docStep_map (lines : List (List (Option (List ω)))) :
    ∀ (st : List ω × List (Ev ω)),
      lines.foldl (docStep (fun ws => (pw ws).map f)) (st.1, st.2.map f)
        = ((lines.foldl (docStep pw) st).1, (lines.foldl (docStep pw) st).2.map f) := by
  induction lines with
  | nil => intro st; rfl
  | cons l ls ih =>
    intro st
    simp only [List.foldl_cons]
    rw [docStep_map pw f st l]
    exact ih (docStep pw st l)

/-- the streaming machine commutes with a per-event map -/
theorem runDocument_map (lines : List (List (Option (List ω)))) :
    runDocument (fun ws => (pw ws).map f) lines = (runDocument pw lines).map f := by
  simp only [runDocument]
  have := foldl_docStep_map pw f lines ([], [])
  simp only [List.map_nil] at this
  rw [this]
  simp

theorem runLine_map (lines : List (List ω)) :
    runLine (fun ws => (pw ws).map f) lines = (runLine pw lines).map f := by
  have h1 : runLine (fun ws => (pw ws).map f) lines = lines.flatMap (fun ws => (pw ws).map f) := by
    simpa [runLine] using runLine_eq (fun ws => (pw ws).map f) lines []
  have h2 : runLine pw lines = lines.flatMap pw := by simpa [runLine] using runLine_eq pw lines []
  rw [h1, h2, List.map_flatMap]

end Nat

/-- **`remove_duplicates=True`** writes, event by event, the de-duplicated cue
    and outcome lists of what `remove_duplicates=False` writes: same number of
    events, same order. -/
theorem createEventsG_dedup (ops : TextOps) (al : Allowed) (ctx : ContextStructure)
    (es : EventStructure) (cs : CueStructure) (lc : Bool) (rawLines : List (List Char)) :
    createEventsG ops ⟨al, ctx, es, cs, lc, true⟩ rawLines
      = (createEventsG ops ⟨al, ctx, es, cs, lc, false⟩ rawLines).map dedupEv := by
  have hpw : processWords ⟨al, ctx, es, cs, lc, true⟩
      = fun ws => (processWords ⟨al, ctx, es, cs, lc, false⟩ ws).map dedupEv := by
    funext ws; exact processWords_dedup al ctx es cs lc ws
  simp only [createEventsG]
  cases ctx with
  | line => simp only []; rw [hpw]; exact runLine_map _ _ _
  | document => simp only []; rw [hpw]; exact runDocument_map _ _ _

end Pyndl.Create
