import PyndlProofs.Partition

set_option linter.unusedSectionVars false
set_option linter.unusedSimpArgs false

namespace Pyndl
open List

variable {R : Type} [CommRing R]

/-! ## the sequential reference schedules computed by the driver are valid schedules -/

theorem execSteps_append (alpha β₁ β₂ lam : R) (n : Nat) (w : Array R) (s t : List MicroStep) :
    execSteps alpha β₁ β₂ lam n w (s ++ t) = execSteps alpha β₁ β₂ lam n (execSteps alpha β₁ β₂ lam n w s) t := by
  simp [execSteps, List.foldl_append]

theorem kernelEvent_eq_exec (alpha β₁ β₂ lam : R) (n : Nat) (part file : Nat) (rows : List Nat) (w : Array R)
    (e : Event Nat Nat) :
    kernelEvent alpha β₁ β₂ lam n rows w e
      = execSteps alpha β₁ β₂ lam n w (rows.map (fun o => (⟨part, file, o, e⟩ : MicroStep))) := by
  simp [kernelEvent, execSteps, List.foldl_map]

theorem kernelFile_eq_exec (alpha β₁ β₂ lam : R) (n : Nat) (part file : Nat) (rows : List Nat) (w : Array R)
    (es : List (Event Nat Nat)) :
    kernelFile alpha β₁ β₂ lam n rows w es
      = execSteps alpha β₁ β₂ lam n w (fileProgram part file rows es) := by
  unfold kernelFile fileProgram
  induction es generalizing w with
  | nil => rfl
  | cons e es ih =>
    simp only [List.foldl_cons, List.flatMap_cons, execSteps_append]
    rw [ih, kernelEvent_eq_exec alpha β₁ β₂ lam n part file]

theorem kernelPart_eq_exec (alpha β₁ β₂ lam : R) (n : Nat) (part k : Nat) (rows : List Nat) (w : Array R)
    (files : List (List (Event Nat Nat))) :
    kernelPart alpha β₁ β₂ lam n files w rows
      = execSteps alpha β₁ β₂ lam n w (partProgramFrom part rows k files) := by
  unfold kernelPart
  induction files generalizing w k with
  | nil => rfl
  | cons es rest ih =>
    simp only [List.foldl_cons, partProgramFrom, execSteps_append]
    rw [ih, kernelFile_eq_exec alpha β₁ β₂ lam n part k]

def seqThreadingFrom (files : List (List (Event Nat Nat))) : Nat → List (List Nat) → List MicroStep
  | _, [] => []
  | k, rows :: rest => partProgram k rows files ++ seqThreadingFrom files (k + 1) rest

theorem learnThreading_fold (alpha β₁ β₂ lam : R) (n : Nat) (files : List (List (Event Nat Nat)))
    (parts : List (List Nat)) (k : Nat) (w : Array R) :
    parts.foldl (kernelPart alpha β₁ β₂ lam n files) w
      = execSteps alpha β₁ β₂ lam n w (seqThreadingFrom files k parts) := by
  induction parts generalizing w k with
  | nil => rfl
  | cons rows rest ih =>
    simp only [List.foldl_cons, seqThreadingFrom, execSteps_append]
    rw [ih (k + 1), kernelPart_eq_exec alpha β₁ β₂ lam n k 0]
    rfl

theorem partProgramFrom_filter_self (part : Nat) (rows : List Nat) (k : Nat) (files : List (List (Event Nat Nat))) :
    (partProgramFrom part rows k files).filter (fun st => st.part = part) = partProgramFrom part rows k files := by
  rw [List.filter_eq_self]
  intro st hst
  simp [(partProgramFrom_mem part rows k files st hst).1]

theorem partProgramFrom_filter_other (part j : Nat) (hne : part ≠ j) (rows : List Nat) (k : Nat)
    (files : List (List (Event Nat Nat))) :
    (partProgramFrom part rows k files).filter (fun st => st.part = j) = [] := by
  rw [List.filter_eq_nil_iff]
  intro st hst
  simp [(partProgramFrom_mem part rows k files st hst).1, hne]

theorem seqThreadingFrom_filter (files : List (List (Event Nat Nat))) (k0 : Nat) (parts : List (List Nat))
    (j : Nat) :
    (seqThreadingFrom files k0 parts).filter (fun st => st.part = j)
      = if k0 ≤ j ∧ j < k0 + parts.length then partProgram j (parts.getD (j - k0) []) files else [] := by
  induction parts generalizing k0 with
  | nil => simp [seqThreadingFrom]
  | cons rows rest ih =>
    simp only [seqThreadingFrom, List.filter_append, ih (k0 + 1), List.length_cons]
    by_cases h : k0 = j
    · subst h
      simp only [partProgram, partProgramFrom_filter_self]
      simp
    · simp only [partProgram, partProgramFrom_filter_other k0 j h, List.nil_append]
      by_cases h2 : k0 + 1 ≤ j ∧ j < k0 + 1 + rest.length
      · have h3 : k0 ≤ j ∧ j < k0 + (rest.length + 1) := by omega
        rw [if_pos h2, if_pos h3]
        have : j - k0 = (j - (k0 + 1)) + 1 := by omega
        rw [this, List.getD_cons_succ]
      · have h3 : ¬ (k0 ≤ j ∧ j < k0 + (rest.length + 1)) := by omega
        rw [if_neg h2, if_neg h3]

theorem seqThreadingFrom_part (files : List (List (Event Nat Nat))) (k0 : Nat) (parts : List (List Nat)) :
    ∀ st ∈ seqThreadingFrom files k0 parts, k0 ≤ st.part ∧ st.part < k0 + parts.length := by
  induction parts generalizing k0 with
  | nil => simp [seqThreadingFrom]
  | cons rows rest ih =>
    intro st hst
    simp only [seqThreadingFrom, List.mem_append] at hst
    rcases hst with h | h
    · have := (partProgramFrom_mem k0 rows 0 files st h).1
      simp only [List.length_cons]; omega
    · have := ih (k0 + 1) st h
      simp only [List.length_cons]; omega

theorem seqThreading_valid (files : List (List (Event Nat Nat))) (parts : List (List Nat)) :
    ValidThreading parts files (seqThreadingFrom files 0 parts) := by
  refine ⟨fun st hst => by have := seqThreadingFrom_part files 0 parts st hst; omega, ?_⟩
  intro k hk
  rw [seqThreadingFrom_filter]
  simp [hk]

/-- **the value the driver computes for `method='threading'` is the
    specification** on every row of `all_outcome_indices`. -/
theorem learnThreadingSeq_eq_spec (alpha β₁ β₂ lam : R) (n nOut : Nat)
    (files : List (List (Event Nat Nat))) (allOutcomes : List Nat) (perJob : Nat) (hj : 1 ≤ perJob)
    (hnd : allOutcomes.Nodup) (hrows : ∀ o ∈ allOutcomes, o < nOut)
    (hcues : ∀ e ∈ files.flatten, ∀ c ∈ e.cues, c < n)
    (w : Array R) (hw : w.size = n * nOut) (o : Nat) (ho : o ∈ allOutcomes) :
    rowFn n (learnThreadingSeq alpha β₁ β₂ lam n files allOutcomes perJob w) o
      = rwLearn (fun _ => alpha) β₁ β₂ lam (fun o => rowFn n w o) files.flatten o := by
  unfold learnThreadingSeq
  rw [learnThreading_fold alpha β₁ β₂ lam n files _ 0]
  have hfl := sliceList_flatten allOutcomes perJob hj
  have hp : PartsOk (sliceList allOutcomes perJob) := partsOk_of_nodup_flatten _ (by rw [hfl]; exact hnd)
  obtain ⟨k, hk, hok⟩ := mem_flatten_getD (parts := sliceList allOutcomes perJob) (by rw [hfl]; exact ho)
  refine threading_schedule_independent hp files n nOut alpha β₁ β₂ lam ?_ hcues w hw _
    (seqThreading_valid files _) k hk o hok
  intro k hk o ho
  have := getD_mem_flatten hk ho
  rw [hfl] at this
  exact hrows o this

end Pyndl

namespace Pyndl
open List

variable {R : Type} [CommRing R]

def seqFileFrom (file : Nat) (es : List (Event Nat Nat)) : Nat → List (List Nat) → List MicroStep
  | _, [] => []
  | k, rows :: rest => fileProgram k file rows es ++ seqFileFrom file es (k + 1) rest

def seqOpenmpFrom (parts : List (List Nat)) : Nat → List (List (Event Nat Nat)) → List MicroStep
  | _, [] => []
  | f, es :: rest => seqFileFrom f es 0 parts ++ seqOpenmpFrom parts (f + 1) rest

theorem fileProgram_filter_self (part file : Nat) (rows : List Nat) (es : List (Event Nat Nat)) :
    (fileProgram part file rows es).filter (fun st => st.part = part) = fileProgram part file rows es := by
  rw [List.filter_eq_self]
  intro st hst
  simp [(fileProgram_mem part file rows es st hst).1]

theorem fileProgram_filter_other (part j : Nat) (hne : part ≠ j) (file : Nat) (rows : List Nat)
    (es : List (Event Nat Nat)) :
    (fileProgram part file rows es).filter (fun st => st.part = j) = [] := by
  rw [List.filter_eq_nil_iff]
  intro st hst
  simp [(fileProgram_mem part file rows es st hst).1, hne]

theorem seqFileFrom_filter (file : Nat) (es : List (Event Nat Nat)) (k0 : Nat) (parts : List (List Nat)) (j : Nat) :
    (seqFileFrom file es k0 parts).filter (fun st => st.part = j)
      = if k0 ≤ j ∧ j < k0 + parts.length then fileProgram j file (parts.getD (j - k0) []) es else [] := by
  induction parts generalizing k0 with
  | nil => simp [seqFileFrom]
  | cons rows rest ih =>
    simp only [seqFileFrom, List.filter_append, ih (k0 + 1), List.length_cons]
    by_cases h : k0 = j
    · subst h
      simp only [fileProgram_filter_self]
      simp
    · simp only [fileProgram_filter_other k0 j h, List.nil_append]
      by_cases h2 : k0 + 1 ≤ j ∧ j < k0 + 1 + rest.length
      · have h3 : k0 ≤ j ∧ j < k0 + (rest.length + 1) := by omega
        rw [if_pos h2, if_pos h3]
        have : j - k0 = (j - (k0 + 1)) + 1 := by omega
        rw [this, List.getD_cons_succ]
      · have h3 : ¬ (k0 ≤ j ∧ j < k0 + (rest.length + 1)) := by omega
        rw [if_neg h2, if_neg h3]

theorem seqFileFrom_part (file : Nat) (es : List (Event Nat Nat)) (k0 : Nat) (parts : List (List Nat)) :
    ∀ st ∈ seqFileFrom file es k0 parts, k0 ≤ st.part ∧ st.part < k0 + parts.length := by
  induction parts generalizing k0 with
  | nil => simp [seqFileFrom]
  | cons rows rest ih =>
    intro st hst
    simp only [seqFileFrom, List.mem_append] at hst
    rcases hst with h | h
    · have := (fileProgram_mem k0 file rows es st h).1
      simp only [List.length_cons]; omega
    · have := ih (k0 + 1) st h
      simp only [List.length_cons]; omega

theorem seqOpenmp_valid (parts : List (List Nat)) (f : Nat) (files : List (List (Event Nat Nat))) :
    ValidOpenmpFrom parts f files (seqOpenmpFrom parts f files) := by
  induction files generalizing f with
  | nil => simp [ValidOpenmpFrom, seqOpenmpFrom]
  | cons es rest ih =>
    refine ⟨seqFileFrom f es 0 parts, seqOpenmpFrom parts (f + 1) rest, rfl, ?_, ?_, ih (f + 1)⟩
    · intro st hst
      have := seqFileFrom_part f es 0 parts st hst; omega
    · intro k hk
      rw [seqFileFrom_filter]
      simp [hk]

theorem openmpFile_fold (alpha β₁ β₂ lam : R) (n : Nat) (file : Nat) (es : List (Event Nat Nat))
    (parts : List (List Nat)) (k : Nat) (w : Array R) :
    parts.foldl (fun w rows => kernelFile alpha β₁ β₂ lam n rows w es) w
      = execSteps alpha β₁ β₂ lam n w (seqFileFrom file es k parts) := by
  induction parts generalizing w k with
  | nil => rfl
  | cons rows rest ih =>
    simp only [List.foldl_cons, seqFileFrom, execSteps_append]
    rw [ih (k + 1), kernelFile_eq_exec alpha β₁ β₂ lam n k file]

theorem learnOpenmp_fold (alpha β₁ β₂ lam : R) (n : Nat) (parts : List (List Nat))
    (files : List (List (Event Nat Nat))) (f : Nat) (w : Array R) :
    files.foldl (fun w es => parts.foldl (fun w rows => kernelFile alpha β₁ β₂ lam n rows w es) w) w
      = execSteps alpha β₁ β₂ lam n w (seqOpenmpFrom parts f files) := by
  induction files generalizing w f with
  | nil => rfl
  | cons es rest ih =>
    simp only [List.foldl_cons, seqOpenmpFrom, execSteps_append]
    rw [ih (f + 1), openmpFile_fold alpha β₁ β₂ lam n f es parts 0]

/-- **the value the driver computes for `method='openmp'` is the specification**. -/
theorem learnOpenmpSeq_eq_spec (alpha β₁ β₂ lam : R) (n nOut : Nat)
    (files : List (List (Event Nat Nat))) (allOutcomes : List Nat) (chunk : Nat) (hj : 1 ≤ chunk)
    (hnd : allOutcomes.Nodup) (hrows : ∀ o ∈ allOutcomes, o < nOut)
    (hcues : ∀ e ∈ files.flatten, ∀ c ∈ e.cues, c < n)
    (w : Array R) (hw : w.size = n * nOut) (o : Nat) (ho : o ∈ allOutcomes) :
    rowFn n (learnOpenmpSeq alpha β₁ β₂ lam n files allOutcomes chunk w) o
      = rwLearn (fun _ => alpha) β₁ β₂ lam (fun o => rowFn n w o) files.flatten o := by
  unfold learnOpenmpSeq
  rw [learnOpenmp_fold alpha β₁ β₂ lam n _ files 0]
  have hfl := ompParts_flatten allOutcomes chunk hj
  have hp : PartsOk (ompParts allOutcomes chunk) := partsOk_of_nodup_flatten _ (by rw [hfl]; exact hnd)
  obtain ⟨k, hk, hok⟩ := mem_flatten_getD (parts := ompParts allOutcomes chunk) (by rw [hfl]; exact ho)
  refine openmp_schedule_independent hp files n nOut alpha β₁ β₂ lam ?_ hcues w hw _
    (seqOpenmp_valid _ 0 files) k hk o hok
  intro k hk o ho
  have := getD_mem_flatten hk ho
  rw [hfl] at this
  exact hrows o this

end Pyndl
