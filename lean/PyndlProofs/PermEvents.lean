/-
  PyndlProofs.PermEvents — event lists that agree EVENT BY EVENT up to the order
  of the cues and of the outcomes inside each event (`EventsPerm`).

  This is the relation between what the models write / read (first-occurrence
  order) and what the code does wherever a Python `set` is iterated:
  `create_event_file(remove_duplicates=True)` writes `set(cues)`, `write_events
  (remove_duplicates=True)` writes `set(cue_ids)`; it is also the relation the
  C13 law `cue_shuffle` checks between two real runs.

  Here: the duplicate policy respects it (`applyPolicyAll_perm`: accepted /
  rejected alike, results related again), the counted names are the same up to
  order (`countNames_perm`), `FileEvents` and the 32-bit conditions transfer.
-/
import PyndlProofs.NdlSpec

set_option linter.unusedSectionVars false
set_option linter.unusedVariables false

namespace Pyndl
open List

/-- event by event the same cues and the same outcomes as multisets -/
def EventsPerm {ι κ : Type} (es₁ es₂ : List (Event ι κ)) : Prop :=
  List.Forall₂ (fun a b => a.cues ~ b.cues ∧ a.outcomes ~ b.outcomes) es₁ es₂

theorem EventsPerm.refl {ι κ : Type} (es : List (Event ι κ)) : EventsPerm es es := by
  induction es with
  | nil => exact List.Forall₂.nil
  | cons e es ih => exact List.Forall₂.cons ⟨List.Perm.refl _, List.Perm.refl _⟩ ih

theorem EventsPerm.symm {ι κ : Type} {es₁ es₂ : List (Event ι κ)} (h : EventsPerm es₁ es₂) :
    EventsPerm es₂ es₁ := by
  induction h with
  | nil => exact List.Forall₂.nil
  | cons hab _ ih => exact List.Forall₂.cons ⟨hab.1.symm, hab.2.symm⟩ ih

theorem EventsPerm.length_eq {ι κ : Type} {es₁ es₂ : List (Event ι κ)} (h : EventsPerm es₁ es₂) :
    es₁.length = es₂.length := List.Forall₂.length_eq h

/-- a per-event reordering function gives an `EventsPerm` list -/
theorem EventsPerm.of_map {ι κ : Type} (ρ : Event ι κ → Event ι κ)
    (hρ : ∀ e, (ρ e).cues ~ e.cues ∧ (ρ e).outcomes ~ e.outcomes) (es : List (Event ι κ)) :
    EventsPerm es (es.map ρ) := by
  induction es with
  | nil => exact List.Forall₂.nil
  | cons e es ih => exact List.Forall₂.cons ⟨(hρ e).1.symm, (hρ e).2.symm⟩ ih

section Policy
variable {α : Type} [DecidableEq α]

theorem hasDup_eq_true_iff (l : List α) : hasDup l = true ↔ ¬ l.Nodup := by
  induction l with
  | nil => simp [hasDup]
  | cons x xs ih =>
    simp only [hasDup, Bool.or_eq_true, decide_eq_true_eq, ih, List.nodup_cons, not_and_or, not_not]

theorem hasDup_perm {l l' : List α} (h : l ~ l') : hasDup l = hasDup l' := by
  have : hasDup l = true ↔ hasDup l' = true := by
    rw [hasDup_eq_true_iff, hasDup_eq_true_iff, h.nodup_iff]
  cases h1 : hasDup l <;> cases h2 : hasDup l' <;> simp_all

/-- `set(xs)` in any two iteration orders: the first-occurrence lists of two
    permutations are permutations of each other -/
theorem dedupKeepFirst_perm {l l' : List α} (h : l ~ l') : dedupKeepFirst l ~ dedupKeepFirst l' :=
  (List.perm_ext_iff_of_nodup (nodup_dedupKeepFirst l) (nodup_dedupKeepFirst l')).mpr
    (fun a => by rw [mem_dedupKeepFirst, mem_dedupKeepFirst, h.mem_iff])

end Policy

section
variable {ι κ : Type} [DecidableEq ι] [DecidableEq κ]

theorem applyPolicy_perm (p : DupPolicy) (e₁ e₂ : Event ι κ)
    (h : e₁.cues ~ e₂.cues ∧ e₁.outcomes ~ e₂.outcomes) :
    (applyPolicy p e₁ = none ∧ applyPolicy p e₂ = none) ∨
    ∃ a b, applyPolicy p e₁ = some a ∧ applyPolicy p e₂ = some b ∧ a.cues ~ b.cues ∧ a.outcomes ~ b.outcomes := by
  cases p with
  | error =>
    simp only [applyPolicy, hasDup_perm h.1, hasDup_perm h.2]
    by_cases hd : (hasDup e₂.cues || hasDup e₂.outcomes) = true
    · left; simp [hd]
    · right; exact ⟨e₁, e₂, by simp [hd], by simp [hd], h.1, h.2⟩
  | dedup =>
    right
    exact ⟨_, _, rfl, rfl, dedupKeepFirst_perm h.1, dedupKeepFirst_perm h.2⟩
  | keep =>
    right
    exact ⟨e₁, e₂, rfl, rfl, h.1, h.2⟩

/-- **the duplicate policy does not see the order inside an event**: `EventsPerm`
    lists are accepted or rejected alike, and the processed lists are `EventsPerm`
    again (for `True`: `set` in any order) -/
theorem applyPolicyAll_perm (p : DupPolicy) (es₁ es₂ : List (Event ι κ)) (h : EventsPerm es₁ es₂) :
    (applyPolicyAll p es₁ = none ∧ applyPolicyAll p es₂ = none) ∨
    ∃ a b, applyPolicyAll p es₁ = some a ∧ applyPolicyAll p es₂ = some b ∧ EventsPerm a b := by
  induction h with
  | nil => right; exact ⟨[], [], rfl, rfl, List.Forall₂.nil⟩
  | @cons e₁ e₂ t₁ t₂ hab _ ih =>
    rcases applyPolicy_perm p e₁ e₂ hab with ⟨n1, n2⟩ | ⟨a, b, ha, hb, hc, ho⟩
    · left; simp [applyPolicyAll, n1, n2]
    · rcases ih with ⟨n1, n2⟩ | ⟨ta, tb, hta, htb, hperm⟩
      · left; simp [applyPolicyAll, ha, hb, n1, n2]
      · right
        exact ⟨a :: ta, b :: tb, by simp [applyPolicyAll, ha, hta], by simp [applyPolicyAll, hb, htb],
          List.Forall₂.cons ⟨hc, ho⟩ hperm⟩

theorem applyPolicyAll_perm_some (p : DupPolicy) (es₁ es₂ es₁' : List (Event ι κ)) (h : EventsPerm es₁ es₂)
    (hp : applyPolicyAll p es₁ = some es₁') :
    ∃ es₂', applyPolicyAll p es₂ = some es₂' ∧ EventsPerm es₁' es₂' := by
  rcases applyPolicyAll_perm p es₁ es₂ h with ⟨n1, _⟩ | ⟨a, b, ha, hb, hab⟩
  · rw [hp] at n1; cases n1
  · rw [hp] at ha
    cases ha
    exact ⟨b, hb, hab⟩

end

/-! ## names, `FileEvents`, sizes -/

theorem EventsPerm.mem_cues {es₁ es₂ : List (Event String String)} (h : EventsPerm es₁ es₂) (c : String) :
    c ∈ es₁.flatMap (·.cues) ↔ c ∈ es₂.flatMap (·.cues) := by
  induction h with
  | nil => rfl
  | cons hab _ ih => simp only [List.flatMap_cons, List.mem_append, hab.1.mem_iff, ih]

theorem EventsPerm.mem_outcomes {es₁ es₂ : List (Event String String)} (h : EventsPerm es₁ es₂) (o : String) :
    o ∈ es₁.flatMap (·.outcomes) ↔ o ∈ es₂.flatMap (·.outcomes) := by
  induction h with
  | nil => rfl
  | cons hab _ ih => simp only [List.flatMap_cons, List.mem_append, hab.2.mem_iff, ih]

/-- the counted names of `EventsPerm` lists are the same names, possibly in another order -/
theorem countNames_perm {es₁ es₂ : List (Event String String)} (h : EventsPerm es₁ es₂) :
    (countNames es₁).1 ~ (countNames es₂).1 ∧ (countNames es₁).2 ~ (countNames es₂).2 := by
  unfold countNames
  constructor
  · exact (List.perm_ext_iff_of_nodup (nodup_dedupKeepFirst _) (nodup_dedupKeepFirst _)).mpr
      (fun a => by rw [mem_dedupKeepFirst, mem_dedupKeepFirst, h.mem_cues])
  · exact (List.perm_ext_iff_of_nodup (nodup_dedupKeepFirst _) (nodup_dedupKeepFirst _)).mpr
      (fun a => by rw [mem_dedupKeepFirst, mem_dedupKeepFirst, h.mem_outcomes])

theorem EventsPerm.forall_transfer {es₁ es₂ : List (Event String String)} (h : EventsPerm es₁ es₂)
    (P : Event String String → Prop)
    (hP : ∀ a b : Event String String, a.cues ~ b.cues → a.outcomes ~ b.outcomes → P a → P b)
    (h1 : ∀ e ∈ es₁, P e) : ∀ e ∈ es₂, P e := by
  induction h with
  | nil => intro e he; cases he
  | @cons a b t₁ t₂ hab _ ih =>
    intro e he
    rcases List.mem_cons.mp he with rfl | he
    · exact hP a _ hab.1 hab.2 (h1 a (List.mem_cons_self))
    · exact ih (fun e he => h1 e (List.mem_cons_of_mem _ he)) e he

theorem fileEvents_perm {es₁ es₂ : List (Event String String)} (h : EventsPerm es₁ es₂)
    (hf : FileEvents es₁) : FileEvents es₂ :=
  h.forall_transfer (fun e => e.cues ≠ [] ∧ e.outcomes ≠ [])
    (fun a b hc ho ⟨h1, h2⟩ => ⟨fun hb => h1 (List.Perm.eq_nil (hb ▸ hc)), fun hb => h2 (List.Perm.eq_nil (hb ▸ ho))⟩) hf

theorem fits32_perm {es₁ es₂ : List (Event String String)} (h : EventsPerm es₁ es₂) (hf : Fits32 es₁) :
    Fits32 es₂ := by
  obtain ⟨pc, po⟩ := countNames_perm h
  refine ⟨by rw [← h.length_eq]; exact hf.nEvents, by rw [← pc.length_eq]; exact hf.nCues,
    by rw [← po.length_eq]; exact hf.nOuts, ?_⟩
  exact h.forall_transfer (fun e => e.cues.length < 4294967296 ∧ e.outcomes.length < 4294967296)
    (fun a b hc ho ⟨h1, h2⟩ => ⟨by rw [← hc.length_eq]; exact h1, by rw [← ho.length_eq]; exact h2⟩) hf.perEvent

end Pyndl
