/-
  PyndlProofs.Pipeline2 — the remaining stages behind the filtered file
  (feeds the second half of C15).

  `Pipeline.lean` ends in `events_from_file → dict_ndl`.  Here the SAME
  filtered file (`unlines out`) is followed into

    * the counting stage `cues_outcomes` (`pipeline_counts`),
    * the `ndl.ndl` model (`pipeline_ndl`; counting, id maps, duplicate policy on
      ids, binary chunk files, kernels, labelling — `ndlCall_eq_spec`: the CALL,
      hence `hne`: the filter leaves at least one event, else `ndl.ndl` raises
      `IOError`; `hcfg`: legal chunking arguments `CfgOK`), and its
      agreement with `dict_ndl` on every pair of names (`pipeline_ndl_dict_agree`),
    * `activation()` on the learned weights, dict path and matrix path
      (`pipeline_activation_dict`, `pipeline_activation_matrix`).

  Two representations of a Python `str` meet here: the text model has
  `Str = List Char`, the `ndl.ndl` / activation models have `String`.  `toS`
  (`String.ofList` on every token) and `wdToS` (the same on the keys of a weight
  dict) are the change of representation; `String.ofList` is a bijection, so
  "all `String` names" and "all `List Char` names" are the same quantifier.
-/
import PyndlProofs.Pipeline
import PyndlProofs.NdlSpec
import PyndlProofs.NdlCall
import PyndlProofs.Activation

set_option linter.unusedSectionVars false
set_option linter.unusedSimpArgs false
set_option linter.unusedVariables false

namespace Pyndl.Pipeline
open Pyndl Pyndl.Text List

/-! ## writer → filter → reader, without a learner behind it -/

/-- the file part of `writer_filter_reader_learner`: no duplicate policy, no
    learner.  Every later stage starts from the `parseFile` equation. -/
theorem writer_filter_reader
    (ca oa : Filter.SideArgs Char) (rc ro : Filter.Rule Char)
    (hc : Filter.selectRule ca = .ok rc) (ho : Filter.selectRule oa = .ok ro)
    (hrc : RuleImgWf rc) (hro : RuleImgWf ro) (hnil : RuleNilSafe ro)
    (chunk : Nat) (hn : 1 ≤ chunk)
    (es : List TEvent) (h : ∀ e ∈ es, EventWf e) :
    ∃ out,
      Filter.filterEventFile '\t' '_' ca oa chunk (readLines (renderFile false es)) = .ok out ∧
      out = renderLines false (es.filterMap (filterEvent rc ro)) ∧
      parseFile 0 1 (unlines out) = some ((es.filterMap (filterEvent rc ro)).map normalise) := by
  obtain ⟨out, hout, hlines, hfile⟩ := filter_written_file ca oa rc ro hc ho hnil chunk hn es h
  refine ⟨out, hout, hlines, ?_⟩
  rw [hfile]
  exact parse_render false _ (filterMap_filterEvent_wf rc ro hrc hro es h)

/-! ## (A) the counting stage behind the filter -/

/-- **writer → filter → `cues_outcomes`.**  For every number of counting
    processes `n ≥ 1` the counts of the filtered file are the counts of the
    token-level filtered events (an empty outcome list counted as one
    occurrence of the outcome `""`, as `events_from_file` reads it). -/
theorem pipeline_counts
    (ca oa : Filter.SideArgs Char) (rc ro : Filter.Rule Char)
    (hc : Filter.selectRule ca = .ok rc) (ho : Filter.selectRule oa = .ok ro)
    (hrc : RuleImgWf rc) (hro : RuleImgWf ro) (hnil : RuleNilSafe ro)
    (chunk : Nat) (hn : 1 ≤ chunk)
    (es : List TEvent) (h : ∀ e ∈ es, EventWf e) (n : Nat) (hn1 : 1 ≤ n) :
    ∃ out r,
      Filter.filterEventFile '\t' '_' ca oa chunk (readLines (renderFile false es)) = .ok out ∧
      cuesOutcomes n (unlines out) = some r ∧
      r.n = ((es.filterMap (filterEvent rc ro)).length : Int) ∧
      (∀ x, cGet r.cues x
          = (((es.filterMap (filterEvent rc ro)).map normalise).map (fun e => e.cues.count x)).sum) ∧
      (∀ x, cGet r.outcomes x
          = (((es.filterMap (filterEvent rc ro)).map normalise).map (fun e => e.outcomes.count x)).sum) := by
  obtain ⟨out, hout, _, hparse⟩ := writer_filter_reader ca oa rc ro hc ho hrc hro hnil chunk hn es h
  obtain ⟨r, hr, h1, h2, h3⟩ := Text.cuesOutcomes_exact n hn1 (unlines out) _ hparse
  refine ⟨out, r, hout, hr, ?_, h2, h3⟩
  rw [h1, length_map]

/-! ## the two representations of `str` -/

/-- an event of the text model (`List Char` tokens) as an event of the
    `ndl.ndl` / activation models (`String` tokens). -/
def toS (e : TEvent) : Event String String :=
  ⟨e.cues.map String.ofList, e.outcomes.map String.ofList⟩

theorem toS_eq (e : TEvent) :
    toS e = ⟨e.cues.map String.ofList, e.outcomes.map String.ofList⟩ := rfl

theorem map_toS (es : List TEvent) :
    es.map toS = es.map (fun e => (⟨e.cues.map String.ofList, e.outcomes.map String.ofList⟩ :
      Event String String)) := rfl

theorem ofList_inj' (a b : Str) (h : String.ofList a = String.ofList b) : a = b :=
  String.ofList_injective h

theorem toS_injective : Function.Injective toS := by
  intro a b hab
  obtain ⟨ac, ao⟩ := a
  obtain ⟨bc, bo⟩ := b
  simp only [toS, Event.mk.injEq] at hab
  have hinj : Function.Injective String.ofList := fun _ _ h => String.ofList_injective h
  rw [(List.map_injective_iff.mpr hinj) hab.1, (List.map_injective_iff.mpr hinj) hab.2]

/-- the duplicate policy does not see the representation. -/
theorem applyPolicy_toS (p : DupPolicy) (e : TEvent) :
    applyPolicy p (toS e) = (applyPolicy p e).map toS :=
  applyPolicy_map String.ofList String.ofList p e
    (fun a _ b _ hab => ofList_inj' a b hab) (fun a _ b _ hab => ofList_inj' a b hab)

theorem applyPolicyAll_toS (p : DupPolicy) (es es' : List TEvent)
    (h : applyPolicyAll p es = some es') : applyPolicyAll p (es.map toS) = some (es'.map toS) :=
  applyPolicyAll_map String.ofList String.ofList p es es'
    (fun _ _ a _ b _ hab => ofList_inj' a b hab) (fun _ _ a _ b _ hab => ofList_inj' a b hab) h

/-- the empty weight dict denotes the zero matrix. -/
theorem wdAbs_nil {R : Type} [CommRing R] {ι κ : Type} [DecidableEq ι] [DecidableEq κ] :
    wdAbs ([] : WDict ι κ R) = fun _ _ => 0 := rfl

/-- the specification does not see the representation (constant `α`, as in
    `ndl.ndl`). -/
theorem rwLearn_toS {R : Type} [CommRing R] (alpha β₁ β₂ lam : R) (es : List TEvent) (o c : Str) :
    rwLearn (fun _ => alpha) β₁ β₂ lam (fun _ _ => (0 : R)) (es.map toS) (String.ofList o) (String.ofList c)
      = rwLearn (fun _ => alpha) β₁ β₂ lam (fun _ _ => (0 : R)) es o c :=
  rwLearn_rename_on String.ofList String.ofList (fun _ => True) (fun _ => True)
    (fun a b _ _ hab => ofList_inj' a b hab) (fun a b _ _ hab => ofList_inj' a b hab)
    alpha β₁ β₂ lam (fun _ _ => 0) (fun _ _ => 0) es
    (fun _ _ => ⟨fun _ _ => trivial, fun _ _ => trivial⟩) (fun _ _ _ _ => rfl) o c trivial trivial

/-! ## (B) `ndl.ndl` behind the filter -/

/-- the labels of the matrix `ndl.ndl` returns (training from scratch) are the
    names of the events in order of first occurrence. -/
theorem ndlModel_labels {R : Type} [CommRing R] (magic version : Nat) (cfg : NdlCfg)
    (alpha β₁ β₂ lam : R) (es : List (Event String String)) (w : LW R) (k : Nat)
    (h : ndlCall magic version cfg alpha β₁ β₂ lam none es = .ok (w, k)) :
    w.cues = (countNames es).1 ∧ w.outcomes = (countNames es).2 := by
  have h' := ndlCall_ok _ _ _ _ _ _ _ _ _ _ h
  rw [ndlModel_none] at h'
  exact ndlCore_labels _ _ _ _ _ _ _ _ _ _ _ _ _ h'

/-- **writer → filter → reader → `ndl.ndl`.**  The model of `ndl.ndl` on the
    events parsed from the filtered file (tokens as `String`s) succeeds, reports
    the number of parsed events, and its labelled matrix is, at EVERY pair of
    names, the Rescorla–Wagner specification on the policy-processed token-level
    filtered events. -/
theorem pipeline_ndl {R : Type} [CommRing R]
    (magic version : Nat) (hm : magic < 4294967296) (hv : version < 4294967296)
    (cfg : NdlCfg) (alpha β₁ β₂ lam : R)
    (ca oa : Filter.SideArgs Char) (rc ro : Filter.Rule Char)
    (hc : Filter.selectRule ca = .ok rc) (ho : Filter.selectRule oa = .ok ro)
    (hrc : RuleImgWf rc) (hro : RuleImgWf ro) (hnil : RuleNilSafe ro)
    (chunk : Nat) (hn : 1 ≤ chunk)
    (es es' : List TEvent) (h : ∀ e ∈ es, EventWf e)
    (hp : applyPolicyAll cfg.policy ((es.filterMap (filterEvent rc ro)).map normalise) = some es')
    (hfit : Fits32 (((es.filterMap (filterEvent rc ro)).map normalise).map toS))
    (hcfg : CfgOK cfg (countNames (((es.filterMap (filterEvent rc ro)).map normalise).map toS)).2.length)
    (hne : es.filterMap (filterEvent rc ro) ≠ []) :
    ∃ out parsed w,
      Filter.filterEventFile '\t' '_' ca oa chunk (readLines (renderFile false es)) = .ok out ∧
      parseFile 0 1 (unlines out) = some parsed ∧
      parsed = (es.filterMap (filterEvent rc ro)).map normalise ∧
      ndlCall magic version cfg alpha β₁ β₂ lam none (parsed.map toS) = .ok (w, parsed.length) ∧
      (∀ o c : String, w.get o c
          = rwLearn (fun _ => alpha) β₁ β₂ lam (fun _ _ => (0 : R)) (es'.map toS) o c) ∧
      (∀ o c : Str, w.get (String.ofList o) (String.ofList c)
          = rwLearn (fun _ => alpha) β₁ β₂ lam (wdAbs ([] : WDict Str Str R)) es' o c) := by
  obtain ⟨out, hout, _, hparse⟩ := writer_filter_reader ca oa rc ro hc ho hrc hro hnil chunk hn es h
  have hne' : ((es.filterMap (filterEvent rc ro)).map normalise).map toS ≠ [] := by
    intro h0
    apply hne
    have := congrArg List.length h0
    simp only [length_map, length_nil] at this
    exact List.length_eq_zero_iff.mp this
  obtain ⟨w, hw, hget⟩ := ndlCall_eq_spec magic version hm hv cfg alpha β₁ β₂ lam
    (((es.filterMap (filterEvent rc ro)).map normalise).map toS) (es'.map toS) hne' hcfg
    (applyPolicyAll_toS cfg.policy _ es' hp) hfit
  refine ⟨out, _, w, hout, hparse, rfl, ?_, hget, ?_⟩
  · rw [hw, length_map]
  · intro o c
    rw [hget, rwLearn_toS, wdAbs_nil]

/-- **`ndl.ndl` and `dict_ndl` agree behind the filter**: on the events parsed
    from the same filtered file both learners succeed, and the labelled matrix
    and the weight dict denote the same function of (outcome name, cue name) —
    stated for the `List Char` names through `String.ofList` and for all
    `String` names through `String.toList` (the same statement:
    `String.ofList` is a bijection). -/
theorem pipeline_ndl_dict_agree {R : Type} [CommRing R]
    (magic version : Nat) (hm : magic < 4294967296) (hv : version < 4294967296)
    (cfg : NdlCfg) (alpha β₁ β₂ lam : R)
    (ca oa : Filter.SideArgs Char) (rc ro : Filter.Rule Char)
    (hc : Filter.selectRule ca = .ok rc) (ho : Filter.selectRule oa = .ok ro)
    (hrc : RuleImgWf rc) (hro : RuleImgWf ro) (hnil : RuleNilSafe ro)
    (chunk : Nat) (hn : 1 ≤ chunk)
    (es es' : List TEvent) (h : ∀ e ∈ es, EventWf e)
    (hp : applyPolicyAll cfg.policy ((es.filterMap (filterEvent rc ro)).map normalise) = some es')
    (hfit : Fits32 (((es.filterMap (filterEvent rc ro)).map normalise).map toS))
    (hcfg : CfgOK cfg (countNames (((es.filterMap (filterEvent rc ro)).map normalise).map toS)).2.length)
    (hne : es.filterMap (filterEvent rc ro) ≠ []) :
    ∃ out parsed W w,
      Filter.filterEventFile '\t' '_' ca oa chunk (readLines (renderFile false es)) = .ok out ∧
      parseFile 0 1 (unlines out) = some parsed ∧
      parsed = (es.filterMap (filterEvent rc ro)).map normalise ∧
      dictNdl cfg.policy (fun _ => alpha) β₁ β₂ lam [] parsed = some W ∧
      ndlCall magic version cfg alpha β₁ β₂ lam none (parsed.map toS) = .ok (w, parsed.length) ∧
      (∀ o c : Str, w.get (String.ofList o) (String.ofList c) = wdAbs W o c) ∧
      (∀ o c : String, w.get o c = wdAbs W o.toList c.toList) := by
  obtain ⟨out, parsed, w, hout, hparse, hparsed, hw, _, hget⟩ :=
    pipeline_ndl magic version hm hv cfg alpha β₁ β₂ lam ca oa rc ro hc ho hrc hro hnil
      chunk hn es es' h hp hfit hcfg hne
  subst hparsed
  obtain ⟨W, hW, habs⟩ := Pyndl.dictNdl_eq_spec cfg.policy (fun _ => alpha) β₁ β₂ lam
    ([] : WDict Str Str R) _ es' hp
  have key : ∀ o c : Str, w.get (String.ofList o) (String.ofList c) = wdAbs W o c := by
    intro o c; rw [hget, habs]
  refine ⟨out, _, W, w, hout, hparse, rfl, hW, hw, key, ?_⟩
  intro o c
  have := key o.toList c.toList
  rwa [String.ofList_toList, String.ofList_toList] at this

/-! ## (C) `activation()` on the learned weights -/

/-- a weight dict with `List Char` keys as a weight dict with `String` keys
    (the dict `dict_ndl` returns, as `activation()` receives it). -/
def wdToS {R : Type} (W : WDict Str Str R) : WDict String String R :=
  W.map (fun p => (String.ofList p.1, p.2.map (fun q => (String.ofList q.1, q.2))))

theorem alGet_mapKeys {R : Type} [Zero R] (row : List (Str × R)) (c : Str) :
    alGet (row.map (fun q => (String.ofList q.1, q.2))) (String.ofList c) = alGet row c := by
  induction row with
  | nil => rfl
  | cons q row ih =>
    obtain ⟨k, x⟩ := q
    simp only [map_cons, alGet, ih]
    by_cases hk : k = c
    · simp [hk]
    · have : ¬ String.ofList k = String.ofList c := fun e => hk (ofList_inj' k c e)
      simp [hk, this]

theorem wdRow_wdToS {R : Type} (W : WDict Str Str R) (o : Str) :
    wdRow (wdToS W) (String.ofList o) = (wdRow W o).map (fun q => (String.ofList q.1, q.2)) := by
  induction W with
  | nil => rfl
  | cons p W ih =>
    obtain ⟨k, r⟩ := p
    have ih' : wdRow (map (fun p => (String.ofList p.1, map (fun q => (String.ofList q.1, q.2)) p.2)) W)
        (String.ofList o) = (wdRow W o).map (fun q => (String.ofList q.1, q.2)) := ih
    simp only [wdToS, map_cons, wdRow, ih']
    by_cases hk : k = o
    · simp [hk]
    · have : ¬ String.ofList k = String.ofList o := fun e => hk (ofList_inj' k o e)
      simp [hk, this]

/-- the change of representation does not change what the dict denotes. -/
theorem wdAbs_wdToS {R : Type} [Zero R] (W : WDict Str Str R) (o c : Str) :
    wdAbs (wdToS W) (String.ofList o) (String.ofList c) = wdAbs W o c := by
  simp only [wdAbs, wdRow_wdToS, alGet_mapKeys]

/-- dict path of `activation()` on a converted dict: the sum of what the dict
    denotes, for ANY cue list (a `defaultdict` row never raises). -/
theorem dictRowAct_wdToS {R : Type} [CommRing R] (W : WDict Str Str R) (o : Str) (cs : List Str) :
    dictRowAct false (wdRow (wdToS W) (String.ofList o)) (cs.map String.ofList)
      = .ok (sumOver (wdAbs W o) cs) := by
  rw [dictRowAct_eq_sum, sumOver_eq, sumOver_eq, map_map]
  congr 2
  apply map_congr_left
  intro c _
  exact wdAbs_wdToS W o c

/-- every event the policy accepts has its processed counterpart. -/
theorem applyPolicyAll_each {ι κ : Type} [DecidableEq ι] [DecidableEq κ] (p : DupPolicy)
    (xs ys : List (Event ι κ)) (h : applyPolicyAll p xs = some ys) :
    ∀ e ∈ xs, ∃ e' ∈ ys, applyPolicy p e = some e' := by
  induction xs generalizing ys with
  | nil => intro e he; cases he
  | cons x xs ih =>
    simp only [applyPolicyAll] at h
    cases h1 : applyPolicy p x with
    | none => simp [h1] at h
    | some x' =>
      simp only [h1] at h
      cases h2 : applyPolicyAll p xs with
      | none => simp [h2] at h
      | some r =>
        simp only [h2, Option.some.injEq] at h; subst h
        intro e he
        simp only [mem_cons] at he
        rcases he with rfl | he
        · exact ⟨x', by simp, h1⟩
        · obtain ⟨e', he', hpe⟩ := ih r h2 e he
          exact ⟨e', by simp [he'], hpe⟩

/-- `activation()`'s duplicate handling of the cues is the learner's: for an
    event the policy accepts, the cue collection the activation uses is the cue
    list of the policy-processed event. -/
theorem actCues_of_applyPolicy (p : DupPolicy) (e e' : Event String String)
    (h : applyPolicy p e = some e') : actCues p e.cues = .ok e'.cues := by
  cases p with
  | error =>
    simp only [applyPolicy] at h
    split at h
    · cases h
    · rename_i hd
      cases h
      have : hasDup e.cues = false := by
        cases hx : hasDup e.cues with
        | false => rfl
        | true => simp [hx] at hd
      simp [actCues, this]
  | dedup =>
    simp only [applyPolicy, Option.some.injEq] at h
    subst h; rfl
  | keep =>
    simp only [applyPolicy, Option.some.injEq] at h
    subst h; rfl

theorem actCues_toS (p : DupPolicy) (e e' : TEvent) (h : applyPolicy p e = some e') :
    actCues p (toS e).cues = .ok (toS e').cues :=
  actCues_of_applyPolicy p (toS e) (toS e') (by rw [applyPolicy_toS, h]; rfl)

/-- **… → `dict_ndl` → `activation()` (dict path).**  On the weight dict `W`
    the learner returns for the filtered file,

    * for EVERY outcome and EVERY cue list the dict path of `activation()`
      returns the sum, over the cue occurrences, of the Rescorla–Wagner
      weights `rwLearn` on the policy-processed filtered events;
    * for every parsed (training) event, `activation()` under the learner's own
      `remove_duplicates` does not raise and uses exactly the cues of the
      policy-processed event `e'` — so the activation it reports for `e'` is
      the very sum `sumOver (rwLearn … o) e'.cues` the learner's update rule
      subtracts from the target (`step_delta`). -/
theorem pipeline_activation_dict {R : Type} [CommRing R] (p : DupPolicy)
    (α : Str → R) (β₁ β₂ lam : R)
    (ca oa : Filter.SideArgs Char) (rc ro : Filter.Rule Char)
    (hc : Filter.selectRule ca = .ok rc) (ho : Filter.selectRule oa = .ok ro)
    (hrc : RuleImgWf rc) (hro : RuleImgWf ro) (hnil : RuleNilSafe ro)
    (chunk : Nat) (hn : 1 ≤ chunk)
    (es es' : List TEvent) (h : ∀ e ∈ es, EventWf e)
    (hp : applyPolicyAll p ((es.filterMap (filterEvent rc ro)).map normalise) = some es') :
    ∃ out parsed W,
      Filter.filterEventFile '\t' '_' ca oa chunk (readLines (renderFile false es)) = .ok out ∧
      parseFile 0 1 (unlines out) = some parsed ∧
      parsed = (es.filterMap (filterEvent rc ro)).map normalise ∧
      dictNdl p α β₁ β₂ lam [] parsed = some W ∧
      (∀ (o : Str) (cs : List Str),
        dictRowAct false (wdRow (wdToS W) (String.ofList o)) (cs.map String.ofList)
          = .ok (sumOver (rwLearn α β₁ β₂ lam (wdAbs ([] : WDict Str Str R)) es' o) cs)) ∧
      (∀ e ∈ parsed, ∃ e' ∈ es', applyPolicy p e = some e' ∧
        actCues p (toS e).cues = .ok (toS e').cues ∧
        ∀ o : Str, dictRowAct false (wdRow (wdToS W) (String.ofList o)) (toS e').cues
          = .ok (sumOver (rwLearn α β₁ β₂ lam (wdAbs ([] : WDict Str Str R)) es' o) e'.cues)) := by
  obtain ⟨out, parsed, W, h1, _, h3, h4, h5, h6⟩ :=
    writer_filter_reader_learner p α β₁ β₂ lam ca oa rc ro hc ho hrc hro hnil chunk hn es es' h hp
  have hall : ∀ (o : Str) (cs : List Str),
      dictRowAct false (wdRow (wdToS W) (String.ofList o)) (cs.map String.ofList)
        = .ok (sumOver (rwLearn α β₁ β₂ lam (wdAbs ([] : WDict Str Str R)) es' o) cs) := by
    intro o cs
    rw [dictRowAct_wdToS, h6]
  refine ⟨out, parsed, W, h1, h3, h4, h5, hall, ?_⟩
  intro e he
  rw [h4] at he
  obtain ⟨e', he', hpe⟩ := applyPolicyAll_each p _ es' hp e he
  exact ⟨e', he', hpe, actCues_toS p e e' hpe, fun o => hall o e'.cues⟩

/-- all cues of the policy-processed events are labels of the matrix. -/
theorem policy_cues_labelled (p : DupPolicy) (es es' : List (Event String String))
    (hp : applyPolicyAll p es = some es') :
    ∀ e' ∈ es', ∀ c ∈ e'.cues, c ∈ (countNames es).1 := by
  intro e' he' c hc
  obtain ⟨e, he, hpe⟩ := applyPolicyAll_mem p es es' hp e' he'
  exact (countNames_mem es e he).1 c (((applyPolicy_sub p e e' hpe).1 c).mp hc)

theorem cueIndices_all (ig : Bool) (labels cs : List String) (h : ∀ c ∈ cs, c ∈ labels) :
    cueIndices ig labels cs = .ok (cs.map (labels.idxOf ·)) := by
  induction cs with
  | nil => rfl
  | cons c cs ih =>
    have hc : labels.contains c = true := by simpa using h c (by simp)
    simp only [cueIndices, hc, if_true, ih (fun x hx => h x (by simp [hx])), map_cons]

/-- **… → `ndl.ndl` → `activation()` (matrix path).**  On the labelled matrix
    `w` that `ndl.ndl` returns for the filtered file: its outcome labels are
    duplicate free, and for every parsed (training) event, under the learner's
    own `remove_duplicates`, with or without `ignore_missing_cues`:
    `activation()` does not raise, every cue is a label (nothing is skipped),
    and entry `i` of the event's activation column is the sum, over the cues of
    the policy-processed event `e'`, of the Rescorla–Wagner weights of the
    outcome labelled `i`. -/
theorem pipeline_activation_matrix {R : Type} [CommRing R]
    (magic version : Nat) (hm : magic < 4294967296) (hv : version < 4294967296)
    (cfg : NdlCfg) (alpha β₁ β₂ lam : R)
    (ca oa : Filter.SideArgs Char) (rc ro : Filter.Rule Char)
    (hc : Filter.selectRule ca = .ok rc) (ho : Filter.selectRule oa = .ok ro)
    (hrc : RuleImgWf rc) (hro : RuleImgWf ro) (hnil : RuleNilSafe ro)
    (chunk : Nat) (hn : 1 ≤ chunk)
    (es es' : List TEvent) (h : ∀ e ∈ es, EventWf e)
    (hp : applyPolicyAll cfg.policy ((es.filterMap (filterEvent rc ro)).map normalise) = some es')
    (hfit : Fits32 (((es.filterMap (filterEvent rc ro)).map normalise).map toS))
    (hcfg : CfgOK cfg (countNames (((es.filterMap (filterEvent rc ro)).map normalise).map toS)).2.length)
    (hne : es.filterMap (filterEvent rc ro) ≠ []) (ig : Bool) :
    ∃ out parsed w,
      Filter.filterEventFile '\t' '_' ca oa chunk (readLines (renderFile false es)) = .ok out ∧
      parseFile 0 1 (unlines out) = some parsed ∧
      parsed = (es.filterMap (filterEvent rc ro)).map normalise ∧
      ndlCall magic version cfg alpha β₁ β₂ lam none (parsed.map toS) = .ok (w, parsed.length) ∧
      w.outcomes.Nodup ∧
      (∀ e ∈ parsed, ∃ e' ∈ es', applyPolicy cfg.policy e = some e' ∧
        actCues cfg.policy (toS e).cues = .ok (toS e').cues ∧
        cueIndices ig w.cues (toS e').cues = .ok ((toS e').cues.map (w.cues.idxOf ·)) ∧
        ∀ (i : Nat) (hi : i < w.outcomes.length),
          (actColumn w ((toS e').cues.map (w.cues.idxOf ·))).getD i 0
            = sumOver (rwLearn (fun _ => alpha) β₁ β₂ lam (wdAbs ([] : WDict Str Str R)) es'
                (w.outcomes[i]).toList) e'.cues) := by
  obtain ⟨out, parsed, w, hout, hparse, hparsed, hw, _, hget⟩ :=
    pipeline_ndl magic version hm hv cfg alpha β₁ β₂ lam ca oa rc ro hc ho hrc hro hnil
      chunk hn es es' h hp hfit hcfg hne
  obtain ⟨hlc, hlo⟩ := ndlModel_labels magic version cfg alpha β₁ β₂ lam _ w _ hw
  have hnd : w.outcomes.Nodup := by rw [hlo]; exact nodup_dedupKeepFirst _
  refine ⟨out, parsed, w, hout, hparse, hparsed, hw, hnd, ?_⟩
  intro e he
  have hpS : applyPolicyAll cfg.policy (parsed.map toS) = some (es'.map toS) := by
    rw [hparsed]; exact applyPolicyAll_toS cfg.policy _ es' hp
  have he0 := he
  rw [hparsed] at he0
  obtain ⟨e', he', hpe⟩ := applyPolicyAll_each cfg.policy _ es' hp e he0
  have hlab : ∀ c ∈ (toS e').cues, c ∈ w.cues := by
    rw [hlc]
    exact policy_cues_labelled cfg.policy _ _ hpS (toS e') (mem_map.mpr ⟨e', he', rfl⟩)
  refine ⟨e', he', hpe, actCues_toS cfg.policy e e' hpe, cueIndices_all ig w.cues _ hlab, ?_⟩
  intro i hi
  rw [actColumn_eq_sum w hnd (toS e').cues hlab i hi, sumOver_eq, sumOver_eq]
  show ((e'.cues.map String.ofList).map (w.get w.outcomes[i])).sum = _
  rw [map_map]
  congr 1
  apply map_congr_left
  intro c _
  have := hget (w.outcomes[i]).toList c
  rw [String.ofList_toList] at this
  exact this

/-- the whole matrix path over a list of events the policy accepts whose
    processed cues are labels: one column per event, nothing raises. -/
theorem activationMatrix_policy {R : Type} [CommRing R] (p : DupPolicy) (ig : Bool) (w : LW R)
    (xs xs' : List (Event String String)) (hp : applyPolicyAll p xs = some xs')
    (hlab : ∀ e' ∈ xs', ∀ c ∈ e'.cues, c ∈ w.cues) :
    activationMatrix p ig w (xs.map (·.cues))
      = .ok (xs'.map (fun e' => actColumn w (e'.cues.map (w.cues.idxOf ·)))) := by
  induction xs generalizing xs' with
  | nil => simp [applyPolicyAll] at hp; subst hp; rfl
  | cons x xs ih =>
    simp only [applyPolicyAll] at hp
    cases h1 : applyPolicy p x with
    | none => simp [h1] at hp
    | some x' =>
      simp only [h1] at hp
      cases h2 : applyPolicyAll p xs with
      | none => simp [h2] at hp
      | some r =>
        simp only [h2, Option.some.injEq] at hp; subst hp
        simp only [map_cons, activationMatrix, actCues_of_applyPolicy p x x' h1,
          cueIndices_all ig w.cues x'.cues (hlab x' (by simp)),
          ih r h2 (fun e' he' => hlab e' (by simp [he']))]

/-- **interface (5) at the end of the pipeline.**  If learning is continued
    with one further event `e` on the weights `dict_ndl` returned for the
    filtered file, every weight moves by
    `multiplicity · α · β · (target − A)`, where `A` is the value the dict path
    of `activation()` returns for `e`'s cues on that very dict. -/
theorem pipeline_next_step {R : Type} [CommRing R] (p : DupPolicy)
    (α : Str → R) (β₁ β₂ lam : R)
    (ca oa : Filter.SideArgs Char) (rc ro : Filter.Rule Char)
    (hc : Filter.selectRule ca = .ok rc) (ho : Filter.selectRule oa = .ok ro)
    (hrc : RuleImgWf rc) (hro : RuleImgWf ro) (hnil : RuleNilSafe ro)
    (chunk : Nat) (hn : 1 ≤ chunk)
    (es es' : List TEvent) (h : ∀ e ∈ es, EventWf e)
    (hp : applyPolicyAll p ((es.filterMap (filterEvent rc ro)).map normalise) = some es') :
    ∃ out parsed W,
      Filter.filterEventFile '\t' '_' ca oa chunk (readLines (renderFile false es)) = .ok out ∧
      parseFile 0 1 (unlines out) = some parsed ∧
      parsed = (es.filterMap (filterEvent rc ro)).map normalise ∧
      dictNdl p α β₁ β₂ lam [] parsed = some W ∧
      wdAbs W = rwLearn α β₁ β₂ lam (wdAbs ([] : WDict Str Str R)) es' ∧
      ∀ (e : TEvent) (o c : Str), ∃ A,
        dictRowAct false (wdRow (wdToS W) (String.ofList o)) (toS e).cues = .ok A ∧
        rwStep α β₁ β₂ lam (wdAbs W) e o c - wdAbs W o c
          = (e.cues.count c : R) * (α c *
              (if o ∈ e.outcomes then β₁ * (lam - A) else β₂ * (0 - A))) := by
  obtain ⟨out, parsed, W, h1, _, h3, h4, h5, h6⟩ :=
    writer_filter_reader_learner p α β₁ β₂ lam ca oa rc ro hc ho hrc hro hnil chunk hn es es' h hp
  refine ⟨out, parsed, W, h1, h3, h4, h5, h6, ?_⟩
  intro e o c
  have hcnt : ∀ l : List Str, @count Str instBEq c l = @count Str instBEqOfDecidableEq c l := by
    intro l
    induction l with
    | nil => rfl
    | cons x l ih => simp only [count_cons, ih, beq_iff_eq]
  refine ⟨sumOver (wdAbs W o) e.cues, dictRowAct_wdToS W o e.cues, ?_⟩
  rw [hcnt]
  have hstep := Pyndl.step_delta α β₁ β₂ lam (wdAbs W) e o c
  by_cases hoe : o ∈ e.outcomes
  · rw [if_pos hoe] at hstep ⊢; exact hstep
  · rw [if_neg hoe] at hstep ⊢; exact hstep

/-! ## the counted names are the labels of the matrix -/

theorem sum_count_pos {α : Type} [BEq α] [LawfulBEq α] {β : Type} (f : β → List α) (xs : List β) (x : α) :
    0 < (xs.map (fun e => (f e).count x)).sum ↔ ∃ e ∈ xs, x ∈ f e := by
  induction xs with
  | nil => simp
  | cons e xs ih =>
    rw [map_cons, sum_cons]
    simp only [mem_cons, exists_eq_or_imp]
    rw [← ih, ← count_pos_iff]
    omega

theorem mem_countNames_toS (parsed : List TEvent) (x : Str) :
    (String.ofList x ∈ (countNames (parsed.map toS)).1 ↔ ∃ e ∈ parsed, x ∈ e.cues) ∧
    (String.ofList x ∈ (countNames (parsed.map toS)).2 ↔ ∃ e ∈ parsed, x ∈ e.outcomes) := by
  have hinj : ∀ (l : List Str), String.ofList x ∈ l.map String.ofList ↔ x ∈ l := fun l =>
    mem_map_injOn String.ofList x l (fun y _ e => ofList_inj' y x e)
  unfold countNames
  simp only [mem_dedupKeepFirst, mem_flatMap, mem_map]
  constructor
  · constructor
    · rintro ⟨_, ⟨e, he, rfl⟩, hx⟩
      exact ⟨e, he, (hinj e.cues).mp hx⟩
    · rintro ⟨e, he, hx⟩
      exact ⟨toS e, ⟨e, he, rfl⟩, (hinj e.cues).mpr hx⟩
  · constructor
    · rintro ⟨_, ⟨e, he, rfl⟩, hx⟩
      exact ⟨e, he, (hinj e.outcomes).mp hx⟩
    · rintro ⟨e, he, hx⟩
      exact ⟨toS e, ⟨e, he, rfl⟩, (hinj e.outcomes).mpr hx⟩

/-! ## everything behind one filtered file -/

/-- **writer → filter → { counting, `dict_ndl`, `ndl.ndl`, `activation()` }** in
    ONE statement about ONE file `unlines out`: the conjunction of
    `pipeline_counts`, `writer_filter_reader_learner`, `pipeline_ndl_dict_agree`,
    `pipeline_activation_dict` and `pipeline_activation_matrix` with shared
    witnesses (`α` constant, as `ndl.ndl` has it). -/
theorem writer_filter_all {R : Type} [CommRing R]
    (magic version : Nat) (hm : magic < 4294967296) (hv : version < 4294967296)
    (cfg : NdlCfg) (alpha β₁ β₂ lam : R)
    (ca oa : Filter.SideArgs Char) (rc ro : Filter.Rule Char)
    (hc : Filter.selectRule ca = .ok rc) (ho : Filter.selectRule oa = .ok ro)
    (hrc : RuleImgWf rc) (hro : RuleImgWf ro) (hnil : RuleNilSafe ro)
    (chunk : Nat) (hn : 1 ≤ chunk)
    (es es' : List TEvent) (h : ∀ e ∈ es, EventWf e)
    (hp : applyPolicyAll cfg.policy ((es.filterMap (filterEvent rc ro)).map normalise) = some es')
    (hfit : Fits32 (((es.filterMap (filterEvent rc ro)).map normalise).map toS))
    (hcfg : CfgOK cfg (countNames (((es.filterMap (filterEvent rc ro)).map normalise).map toS)).2.length)
    (hne : es.filterMap (filterEvent rc ro) ≠ [])
    (n : Nat) (hn1 : 1 ≤ n) (ig : Bool) :
    ∃ out parsed r W w,
      -- the filter and the reader
      Filter.filterEventFile '\t' '_' ca oa chunk (readLines (renderFile false es)) = .ok out ∧
      parseFile 0 1 (unlines out) = some parsed ∧
      parsed = (es.filterMap (filterEvent rc ro)).map normalise ∧
      -- counting
      cuesOutcomes n (unlines out) = some r ∧ r.n = (parsed.length : Int) ∧
      (∀ x, cGet r.cues x = (parsed.map (fun e => e.cues.count x)).sum) ∧
      (∀ x, cGet r.outcomes x = (parsed.map (fun e => e.outcomes.count x)).sum) ∧
      -- the two learners
      dictNdl cfg.policy (fun _ => alpha) β₁ β₂ lam [] parsed = some W ∧
      wdAbs W = rwLearn (fun _ => alpha) β₁ β₂ lam (wdAbs ([] : WDict Str Str R)) es' ∧
      ndlCall magic version cfg alpha β₁ β₂ lam none (parsed.map toS) = .ok (w, parsed.length) ∧
      (∀ o c : String, w.get o c = wdAbs W o.toList c.toList) ∧
      -- the labels of the matrix are the names the counting stage reports
      w.cues.Nodup ∧ w.outcomes.Nodup ∧
      (∀ x : Str, String.ofList x ∈ w.cues ↔ 0 < cGet r.cues x) ∧
      (∀ x : Str, String.ofList x ∈ w.outcomes ↔ 0 < cGet r.outcomes x) ∧
      -- activations of the training events, both paths
      activationMatrix cfg.policy ig w ((parsed.map toS).map (·.cues))
        = .ok ((es'.map toS).map (fun e' => actColumn w (e'.cues.map (w.cues.idxOf ·)))) ∧
      (∀ e ∈ parsed, ∃ e' ∈ es', applyPolicy cfg.policy e = some e' ∧
        actCues cfg.policy (toS e).cues = .ok (toS e').cues ∧
        (∀ o : Str, dictRowAct false (wdRow (wdToS W) (String.ofList o)) (toS e').cues
          = .ok (sumOver (wdAbs W o) e'.cues)) ∧
        ∀ (i : Nat) (hi : i < w.outcomes.length),
          (actColumn w ((toS e').cues.map (w.cues.idxOf ·))).getD i 0
            = sumOver (wdAbs W (w.outcomes[i]).toList) e'.cues) := by
  obtain ⟨out, hout, _, hparse⟩ := writer_filter_reader ca oa rc ro hc ho hrc hro hnil chunk hn es h
  obtain ⟨r, hr, c1, c2, c3⟩ := Text.cuesOutcomes_exact n hn1 (unlines out) _ hparse
  obtain ⟨out2, parsed2, W, w, hout2, _, hparsed2, hW, hw, _, hagree⟩ :=
    pipeline_ndl_dict_agree magic version hm hv cfg alpha β₁ β₂ lam ca oa rc ro hc ho hrc hro
      hnil chunk hn es es' h hp hfit hcfg hne
  subst hparsed2
  obtain ⟨W2, hW2, habs⟩ := Pyndl.dictNdl_eq_spec cfg.policy (fun _ => alpha) β₁ β₂ lam
    ([] : WDict Str Str R) _ es' hp
  have hWW : W2 = W := by rw [hW] at hW2; exact (Option.some.inj hW2).symm
  subst hWW
  obtain ⟨hlc, hlo⟩ := ndlModel_labels magic version cfg alpha β₁ β₂ lam _ w _ hw
  have hnd : w.outcomes.Nodup := by rw [hlo]; exact nodup_dedupKeepFirst _
  have hpS := applyPolicyAll_toS cfg.policy _ es' hp
  have hlabAll : ∀ e' ∈ es'.map toS, ∀ c ∈ e'.cues, c ∈ w.cues := by
    rw [hlc]; exact policy_cues_labelled cfg.policy _ _ hpS
  have hndc : w.cues.Nodup := by rw [hlc]; exact nodup_dedupKeepFirst _
  have hcl : ∀ x : Str, String.ofList x ∈ w.cues ↔ 0 < cGet r.cues x := by
    intro x
    rw [hlc, c2, (mem_countNames_toS _ x).1]
    exact (sum_count_pos (fun e : TEvent => e.cues) _ x).symm
  have hol : ∀ x : Str, String.ofList x ∈ w.outcomes ↔ 0 < cGet r.outcomes x := by
    intro x
    rw [hlo, c3, (mem_countNames_toS _ x).2]
    exact (sum_count_pos (fun e : TEvent => e.outcomes) _ x).symm
  refine ⟨out, _, r, W2, w, hout, hparse, rfl, hr, c1, c2, c3, hW, habs, hw, hagree,
    hndc, hnd, hcl, hol, activationMatrix_policy cfg.policy ig w _ _ hpS hlabAll, ?_⟩
  intro e he
  obtain ⟨e', he', hpe⟩ := applyPolicyAll_each cfg.policy _ es' hp e he
  have hlab := hlabAll (toS e') (mem_map.mpr ⟨e', he', rfl⟩)
  refine ⟨e', he', hpe, actCues_toS cfg.policy e e' hpe, fun o => dictRowAct_wdToS W2 o e'.cues, ?_⟩
  intro i hi
  rw [actColumn_eq_sum w hnd (toS e').cues hlab i hi, sumOver_eq, sumOver_eq]
  show ((e'.cues.map String.ofList).map (w.get w.outcomes[i])).sum = _
  rw [map_map]
  congr 1
  apply map_congr_left
  intro c _
  show w.get w.outcomes[i] (String.ofList c) = _
  rw [hagree, String.toList_ofList]

/-- **corpus → creator → writer → filter → { counting, `dict_ndl`, `ndl.ndl`,
    `activation()` }**: `writer_filter_all` for the events `create_event_file`
    writes (`hes`). -/
theorem pipeline_all {R : Type} [CommRing R]
    (magic version : Nat) (hm : magic < 4294967296) (hv : version < 4294967296)
    (cfg : NdlCfg) (alpha β₁ β₂ lam : R)
    (t : Create.Tables) (o : Create.Options)
    (hng : ∀ n, o.cue = .ngrams n → 1 ≤ n ∧ n ≤ 3) (rawLines : List (List Char))
    (hraw : ∀ raw ∈ rawLines, '\n' ∉ raw ∧ '\r' ∉ raw)
    (hlower : o.lowerCase = true → ∀ p ∈ t.lower, '\n' ∉ p.2 ∧ '\r' ∉ p.2)
    (ca oa : Filter.SideArgs Char) (rc ro : Filter.Rule Char)
    (hc : Filter.selectRule ca = .ok rc) (ho : Filter.selectRule oa = .ok ro)
    (hrc : RuleImgWf rc) (hro : RuleImgWf ro) (hnil : RuleNilSafe ro)
    (chunk : Nat) (hn : 1 ≤ chunk)
    (es es' : List TEvent) (hes : es = (Create.createEvents t o rawLines).map toTEvent)
    (hp : applyPolicyAll cfg.policy ((es.filterMap (filterEvent rc ro)).map normalise) = some es')
    (hfit : Fits32 (((es.filterMap (filterEvent rc ro)).map normalise).map toS))
    (hcfg : CfgOK cfg (countNames (((es.filterMap (filterEvent rc ro)).map normalise).map toS)).2.length)
    (hne : es.filterMap (filterEvent rc ro) ≠ [])
    (n : Nat) (hn1 : 1 ≤ n) (ig : Bool) :
    ∃ out parsed r W w,
      Filter.filterEventFile '\t' '_' ca oa chunk (readLines (renderFile false es)) = .ok out ∧
      parseFile 0 1 (unlines out) = some parsed ∧
      parsed = (es.filterMap (filterEvent rc ro)).map normalise ∧
      cuesOutcomes n (unlines out) = some r ∧ r.n = (parsed.length : Int) ∧
      (∀ x, cGet r.cues x = (parsed.map (fun e => e.cues.count x)).sum) ∧
      (∀ x, cGet r.outcomes x = (parsed.map (fun e => e.outcomes.count x)).sum) ∧
      dictNdl cfg.policy (fun _ => alpha) β₁ β₂ lam [] parsed = some W ∧
      wdAbs W = rwLearn (fun _ => alpha) β₁ β₂ lam (wdAbs ([] : WDict Str Str R)) es' ∧
      ndlCall magic version cfg alpha β₁ β₂ lam none (parsed.map toS) = .ok (w, parsed.length) ∧
      (∀ o c : String, w.get o c = wdAbs W o.toList c.toList) ∧
      w.cues.Nodup ∧ w.outcomes.Nodup ∧
      (∀ x : Str, String.ofList x ∈ w.cues ↔ 0 < cGet r.cues x) ∧
      (∀ x : Str, String.ofList x ∈ w.outcomes ↔ 0 < cGet r.outcomes x) ∧
      activationMatrix cfg.policy ig w ((parsed.map toS).map (·.cues))
        = .ok ((es'.map toS).map (fun e' => actColumn w (e'.cues.map (w.cues.idxOf ·)))) ∧
      (∀ e ∈ parsed, ∃ e' ∈ es', applyPolicy cfg.policy e = some e' ∧
        actCues cfg.policy (toS e).cues = .ok (toS e').cues ∧
        (∀ o : Str, dictRowAct false (wdRow (wdToS W) (String.ofList o)) (toS e').cues
          = .ok (sumOver (wdAbs W o) e'.cues)) ∧
        ∀ (i : Nat) (hi : i < w.outcomes.length),
          (actColumn w ((toS e').cues.map (w.cues.idxOf ·))).getD i 0
            = sumOver (wdAbs W (w.outcomes[i]).toList) e'.cues) := by
  have hwf : ∀ e ∈ es, EventWf e := by
    intro e he
    rw [hes] at he
    obtain ⟨ev, hev, rfl⟩ := mem_map.mp he
    exact createEvents_eventWf t o hng rawLines hraw hlower ev hev
  exact writer_filter_all magic version hm hv cfg alpha β₁ β₂ lam ca oa rc ro hc ho hrc hro
    hnil chunk hn es es' hwf hp hfit hcfg hne n hn1 ig

end Pyndl.Pipeline
