import PyndlProofs.RW
import PyndlModel.Kernel
import Mathlib.Tactic.Ring

set_option linter.unusedSectionVars false
set_option linter.unusedSimpArgs false

namespace Pyndl
open List

variable {R : Type} [CommRing R]

/-- the weight row `o` of a flat array as a total function of the cue id -/
def rowFn (nCues : Nat) (w : Array R) (o : Nat) : Nat → R :=
  fun c => if c < nCues then w.getD (flatIdx nCues o c) 0 else 0

theorem flatIdx_lt {nCues nOut o c : Nat} (ho : o < nOut) (hc : c < nCues) :
    flatIdx nCues o c < nCues * nOut := by
  unfold flatIdx
  calc nCues * o + c < nCues * o + nCues := by omega
    _ = nCues * (o + 1) := by ring
    _ ≤ nCues * nOut := Nat.mul_le_mul_left _ ho

theorem flatIdx_inj {n o c o' c' : Nat} (hc : c < n) (hc' : c' < n)
    (h : flatIdx n o c = flatIdx n o' c') : o = o' ∧ c = c' := by
  unfold flatIdx at h
  have hn : 0 < n := by omega
  have h1 : (n * o + c) / n = o := by
    rw [Nat.mul_add_div hn, Nat.div_eq_of_lt hc]; simp
  have h2 : (n * o' + c') / n = o' := by
    rw [Nat.mul_add_div hn, Nat.div_eq_of_lt hc']; simp
  have h3 : (n * o + c) % n = c := by
    rw [Nat.mul_add_mod]; exact Nat.mod_eq_of_lt hc
  have h4 : (n * o' + c') % n = c' := by
    rw [Nat.mul_add_mod]; exact Nat.mod_eq_of_lt hc'
  constructor
  · rw [← h1, ← h2, h]
  · rw [← h3, ← h4, h]

theorem getD_setIfInBounds (w : Array R) (i j : Nat) (v : R) :
    (w.setIfInBounds i v).getD j 0 = if i = j ∧ i < w.size then v else w.getD j 0 := by
  simp only [Array.getD_eq_getD_getElem?, Array.getElem?_setIfInBounds]
  by_cases h : i = j
  · subst h
    by_cases h2 : i < w.size
    · simp [h2]
    · simp [h2]
  · simp [h]

/-- one in-place cell update, seen row-wise -/
theorem rowFn_set_same (n nOut : Nat) (w : Array R) (hs : w.size = n * nOut) (o c : Nat)
    (ho : o < nOut) (hc : c < n) (v : R) :
    rowFn n (w.setIfInBounds (flatIdx n o c) v) o = upd (rowFn n w o) c v := by
  funext x
  unfold rowFn upd
  by_cases hx : x < n
  · simp only [hx, if_true, getD_setIfInBounds]
    have hlt : flatIdx n o c < w.size := hs ▸ flatIdx_lt ho hc
    by_cases hxc : x = c
    · subst hxc; simp [hlt]
    · have : ¬ flatIdx n o c = flatIdx n o x := fun e => hxc ((flatIdx_inj hc hx e).2).symm
      simp [this, hxc]
  · have : x ≠ c := fun e => hx (e ▸ hc)
    simp [hx, this]

theorem rowFn_set_other (n : Nat) (w : Array R) (o o' c : Nat) (hc : c < n) (hne : o' ≠ o) (v : R) :
    rowFn n (w.setIfInBounds (flatIdx n o c) v) o' = rowFn n w o' := by
  funext x
  unfold rowFn
  by_cases hx : x < n
  · simp only [hx, if_true, getD_setIfInBounds]
    have : ¬ flatIdx n o c = flatIdx n o' x := fun e => hne ((flatIdx_inj hc hx e).1).symm
    simp [this]
  · simp [hx]

theorem kernel_sum (n : Nat) (w : Array R) (o : Nat) (cues : List Nat) (hc : ∀ c ∈ cues, c < n) (a : R) :
    cues.foldl (fun acc c => acc + w.getD (flatIdx n o c) 0) a
      = cues.foldl (fun acc c => acc + rowFn n w o c) a := by
  induction cues generalizing a with
  | nil => rfl
  | cons c cs ih =>
    simp only [List.foldl_cons]
    have h1 : c < n := hc c (by simp)
    rw [ih (fun x hx => hc x (by simp [hx]))]
    simp [rowFn, h1]

theorem kernel_update (n nOut : Nat) (alpha u : R) (o : Nat) (ho : o < nOut) (cues : List Nat)
    (hc : ∀ c ∈ cues, c < n) (w : Array R) (hs : w.size = n * nOut) :
    let w' := cues.foldl (fun w c =>
        w.setIfInBounds (flatIdx n o c) (w.getD (flatIdx n o c) 0 + alpha * u)) w
    w'.size = n * nOut ∧
    rowFn n w' o = addCues (fun _ => alpha) u (rowFn n w o) cues ∧
    ∀ o', o' ≠ o → rowFn n w' o' = rowFn n w o' := by
  induction cues generalizing w with
  | nil => exact ⟨hs, rfl, fun _ _ => rfl⟩
  | cons c cs ih =>
    have h1 : c < n := hc c (by simp)
    have hcs : ∀ x ∈ cs, x < n := fun x hx => hc x (by simp [hx])
    simp only [List.foldl_cons]
    have hs' : (w.setIfInBounds (flatIdx n o c) (w.getD (flatIdx n o c) 0 + alpha * u)).size = n * nOut := by
      simp [hs]
    obtain ⟨i1, i2, i3⟩ := ih hcs _ hs'
    refine ⟨i1, ?_, ?_⟩
    · rw [i2, rowFn_set_same n nOut w hs o c ho h1]
      unfold addCues
      simp only [List.foldl_cons]
      congr 1
      simp [rowFn, h1]
    · intro o' hne
      rw [i3 o' hne, rowFn_set_other n w o o' c h1 hne]

/-- **one micro-step is the specification's row update** on its own row and
    the identity on every other row. -/
theorem kernelRowEvent_spec (n nOut : Nat) (alpha β₁ β₂ lam : R) (w : Array R)
    (hs : w.size = n * nOut) (o : Nat) (ho : o < nOut) (cues outcomes : List Nat)
    (hc : ∀ c ∈ cues, c < n) :
    let w' := kernelRowEvent alpha β₁ β₂ lam n w o cues outcomes
    w'.size = n * nOut ∧
    rowFn n w' o = rwRow (fun _ => alpha) β₁ β₂ lam (rowFn n w o) cues (decide (o ∈ outcomes)) ∧
    ∀ o', o' ≠ o → rowFn n w' o' = rowFn n w o' := by
  unfold kernelRowEvent
  simp only
  rw [kernel_sum n w o cues hc]
  have hel : isElementOf o outcomes = decide (o ∈ outcomes) := by
    unfold isElementOf
    induction outcomes with
    | nil => simp
    | cons x xs ih =>
      simp only [List.any_cons, ih, List.mem_cons, Bool.decide_or]
      congr 1
      by_cases h : x = o
      · subst h; simp
      · have : ¬ o = x := fun e => h e.symm
        simp [h, this]
  rw [hel]
  have := kernel_update n nOut alpha
    (if decide (o ∈ outcomes) = true then β₁ * (lam - foldl (fun acc c => acc + rowFn n w o c) 0 cues)
      else β₂ * (0 - foldl (fun acc c => acc + rowFn n w o c) 0 cues)) o ho cues hc w hs
  simpa [rwRow, sumOver] using this

end Pyndl

namespace Pyndl
open List

variable {R : Type} [CommRing R]

/-- the specification's row recursion -/
def rowLearn (alpha β₁ β₂ lam : R) (o : Nat) (r : Nat → R) (es : List (Event Nat Nat)) : Nat → R :=
  es.foldl (fun r e => rwRow (fun _ => alpha) β₁ β₂ lam r e.cues (decide (o ∈ e.outcomes))) r

theorem rwLearn_row {ι κ : Type} [DecidableEq ι] [DecidableEq κ] (α : ι → R) (β₁ β₂ lam : R)
    (W : κ → ι → R) (es : List (Event ι κ)) (o : κ) :
    rwLearn α β₁ β₂ lam W es o
      = es.foldl (fun r e => rwRow α β₁ β₂ lam r e.cues (decide (o ∈ e.outcomes))) (W o) := by
  unfold rwLearn
  induction es generalizing W with
  | nil => rfl
  | cons e es ih => simp only [List.foldl_cons]; rw [ih]; rfl

def StepOk (n nOut : Nat) (st : MicroStep) : Prop :=
  st.row < nOut ∧ ∀ c ∈ st.ev.cues, c < n

/-- **read/write locality**: after any sequence of micro-steps, row `o` is the
    row recursion over exactly those steps that address row `o`, in their
    order. -/
theorem exec_row (n nOut : Nat) (alpha β₁ β₂ lam : R) (s : List MicroStep)
    (hok : ∀ st ∈ s, StepOk n nOut st) (w : Array R) (hw : w.size = n * nOut) (o : Nat) :
    (execSteps alpha β₁ β₂ lam n w s).size = n * nOut ∧
    rowFn n (execSteps alpha β₁ β₂ lam n w s) o
      = rowLearn alpha β₁ β₂ lam o (rowFn n w o) ((s.filter (fun st => st.row = o)).map (·.ev)) := by
  induction s generalizing w with
  | nil => exact ⟨hw, rfl⟩
  | cons st s ih =>
    have hst := hok st (by simp)
    have hrest : ∀ x ∈ s, StepOk n nOut x := fun x hx => hok x (by simp [hx])
    obtain ⟨k1, k2, k3⟩ := kernelRowEvent_spec n nOut alpha β₁ β₂ lam w hw st.row hst.1
      st.ev.cues st.ev.outcomes hst.2
    unfold execSteps at *
    simp only [List.foldl_cons]
    obtain ⟨i1, i2⟩ := ih hrest _ k1
    refine ⟨i1, ?_⟩
    rw [i2]
    by_cases h : st.row = o
    · subst h
      simp only [List.filter_cons, decide_true, if_true, List.map_cons, rowLearn, List.foldl_cons, k2]
    · have h' : o ≠ st.row := fun e => h e.symm
      simp only [List.filter_cons, h, decide_false, Bool.false_eq_true, if_false, k3 o h']

/-- a schedule in which row `o` sees exactly the events `es`, in order, gives
    the specification's row `o`. -/
theorem exec_row_eq_spec (n nOut : Nat) (alpha β₁ β₂ lam : R) (s : List MicroStep)
    (hok : ∀ st ∈ s, StepOk n nOut st) (w : Array R) (hw : w.size = n * nOut) (o : Nat)
    (es : List (Event Nat Nat)) (hproj : (s.filter (fun st => st.row = o)).map (·.ev) = es) :
    rowFn n (execSteps alpha β₁ β₂ lam n w s) o
      = rwLearn (fun _ => alpha) β₁ β₂ lam (fun o => rowFn n w o) es o := by
  rw [(exec_row n nOut alpha β₁ β₂ lam s hok w hw o).2, hproj, rwLearn_row]
  rfl

end Pyndl
