import PyndlModel.Chunking
import PyndlModel.Ndl
import PyndlProofs.Partition
import Mathlib.Data.List.Sort
import Mathlib.Algebra.BigOperators.Group.List.Basic

set_option linter.unusedSectionVars false
set_option linter.unusedSimpArgs false
set_option linter.unusedVariables false

namespace Pyndl
open List

/-! ## chunks -/

theorem chunks_flatten {α : Type} (es : List α) (per : Nat) (hp : 1 ≤ per) (k : Nat)
    (hk : es.length ≤ k * per) :
    ((List.range k).map (chunkOf per es)).flatten = es := by
  have := windows_flatten es per k
  unfold chunkOf
  rw [this]
  exact List.take_of_length_le hk

theorem length_chunkOf {α : Type} (es : List α) (per j : Nat) :
    (chunkOf per es j).length = min per (es.length - j * per) := by
  simp [chunkOf, List.length_take, List.length_drop]

theorem nChunks_covers (n per : Nat) (hp : 1 ≤ per) : n ≤ nChunks n per * per := by
  unfold nChunks
  have h := Nat.div_add_mod (n + per - 1) per
  have hm := Nat.mod_lt (n + per - 1) (show 0 < per by omega)
  rw [Nat.mul_comm] at h
  omega

/-! ## file names and the numeric sort key -/

theorem chunkKey_chunkName (i : Nat) : chunkKey (chunkName i) = i := by
  unfold chunkKey chunkName
  have h9 : ("events_0_".toList).length = 9 := by decide
  have h4 : (".dat".toList).length = 4 := by decide
  rw [List.append_assoc, List.drop_left' h9]
  simp only [List.length_append, h9, h4]
  have : 9 + ((Nat.toDigits 10 i).length + 4) - 9 - 4 = (Nat.toDigits 10 i).length := by omega
  rw [this, List.take_left']
  · exact Nat.ofDigitChars_ten_toDigits
  · rfl

theorem chunkName_injective : Function.Injective chunkName := by
  intro a b h
  have := congrArg chunkKey h
  rwa [chunkKey_chunkName, chunkKey_chunkName] at this

/-- whatever order `os.listdir` returns the chunk files in, sorting them by
    the numeric key gives numeric order — for any number of chunks. -/
theorem sorted_by_key_is_numeric (k : Nat) (l : List (List Char))
    (hperm : l ~ (List.range k).map chunkName)
    (hsorted : (l.map chunkKey).Pairwise (· ≤ ·)) :
    l = (List.range k).map chunkName := by
  have hkeys : l.map chunkKey ~ List.range k := by
    have := hperm.map chunkKey
    rwa [List.map_map, show (chunkKey ∘ chunkName) = id from funext chunkKey_chunkName, List.map_id] at this
  have hr : (List.range k).Pairwise (· ≤ ·) := by
    have := List.pairwise_lt_range (n := k)
    exact this.imp (fun h => Nat.le_of_lt h)
  have heq : l.map chunkKey = List.range k :=
    List.Perm.eq_of_pairwise (fun a b _ _ h1 h2 => Nat.le_antisymm h1 h2) hsorted hr hkeys
  have hname : ∀ x ∈ l, chunkName (chunkKey x) = x := by
    intro x hx
    have := hperm.subset hx
    simp only [List.mem_map] at this
    obtain ⟨i, _, rfl⟩ := this
    rw [chunkKey_chunkName]
  calc l = l.map (fun x => chunkName (chunkKey x)) := by
        conv_lhs => rw [← List.map_id l]
        exact List.map_congr_left (fun x hx => (hname x hx).symm)
    _ = (l.map chunkKey).map chunkName := by rw [List.map_map]; rfl
    _ = (List.range k).map chunkName := by rw [heq]

/-! ## job results -/

theorem jobResult_count (n per j : Nat) {α : Type} (es : List α) (hn : es.length = n) :
    (jobResult n per j).count = (chunkOf per es j).length := by
  simp [jobResult, length_chunkOf, hn]

theorem jobResult_closes_iff (n per j : Nat) (hp : 1 ≤ per) :
    (jobResult n per j).closes = true ↔ n / per ≤ j := by
  simp only [jobResult, decide_eq_true_eq]
  constructor
  · intro h
    by_contra hlt
    have hlt := Nat.lt_of_not_le hlt
    have h1 : (j + 1) * per ≤ n := by
      calc (j + 1) * per ≤ (n / per) * per := Nat.mul_le_mul_right _ hlt
        _ ≤ n := Nat.div_mul_le_self n per
    have : (j + 1) * per = j * per + per := by ring
    have h2 : per ≤ n - j * per := by omega
    rw [Nat.min_eq_left h2] at h
    omega
  · intro h
    have h1 : n < (n / per + 1) * per := by
      have := Nat.lt_div_mul_add (a := n) (b := per) (by omega)
      have e : (n / per + 1) * per = n / per * per + per := by ring
      omega
    have h2 : (n / per + 1) * per ≤ (j + 1) * per := Nat.mul_le_mul_right _ (by omega)
    have : (j + 1) * per = j * per + per := by ring
    have h3 : n - j * per < per := by omega
    exact Nat.lt_of_le_of_lt (Nat.min_le_right _ _) h3

theorem jobResult_count_zero (n per j : Nat) (hp : 1 ≤ per) (hj : n / per < j) :
    (jobResult n per j).count = 0 := by
  simp only [jobResult]
  have h1 : n < (n / per + 1) * per := by
    have := Nat.lt_div_mul_add (a := n) (b := per) (by omega)
    have e : (n / per + 1) * per = n / per * per + per := by ring
    omega
  have h2 : (n / per + 1) * per ≤ j * per := Nat.mul_le_mul_right _ (by omega)
  have : n - j * per = 0 := by omega
  rw [this]; simp

theorem sum_counts_prefix (n per : Nat) (hp : 1 ≤ per) (k : Nat) (hk : k ≤ n / per + 1) :
    ((List.range k).map (fun j => (jobResult n per j).count)).sum = min n (k * per) := by
  induction k with
  | zero => simp
  | succ k ih =>
    rw [List.range_succ, List.map_append, List.sum_append, ih (by omega)]
    simp only [List.map_cons, List.map_nil, List.sum_cons, List.sum_nil, Nat.add_zero, jobResult]
    have hk' : k ≤ n / per := by omega
    have h1 : k * per ≤ n := by
      calc k * per ≤ (n / per) * per := Nat.mul_le_mul_right _ hk'
        _ ≤ n := Nat.div_mul_le_self n per
    have : (k + 1) * per = k * per + per := by ring
    rw [this]
    omega

/-- the counts of all jobs up to (and beyond) the first closing one add up to
    the number of events -/
theorem sum_counts_all (n per : Nat) (hp : 1 ≤ per) :
    ((List.range (n / per + 1)).map (fun j => (jobResult n per j).count)).sum = n := by
  rw [sum_counts_prefix n per hp _ (Nat.le_refl _)]
  have h1 : n < (n / per + 1) * per := by
    have := Nat.lt_div_mul_add (a := n) (b := per) (by omega)
    have e : (n / per + 1) * per = n / per * per + per := by ring
    omega
  omega

/-- pre-repair rule (F1): when `per` divides `n`, no job ever closes the pool -/
theorem old_rule_never_closes (n per : Nat) (hp : 1 ≤ per) (hdiv : per ∣ n) (j : Nat) :
    (jobResultOld n per j).closes = false := by
  simp only [jobResultOld, decide_eq_false_iff_not, not_and, not_lt]
  intro hpos
  obtain ⟨q, rfl⟩ := hdiv
  by_cases hj : j < q
  · have : per * q - j * per = (q - j) * per := by
      rw [Nat.sub_mul, Nat.mul_comm per q]
    rw [this]
    have : per ≤ (q - j) * per := Nat.le_mul_of_pos_left per (by omega)
    omega
  · have : per * q ≤ j * per := by rw [Nat.mul_comm]; exact Nat.mul_le_mul_right _ (by omega)
    have : per * q - j * per = 0 := by omega
    rw [this] at hpos; simp at hpos

end Pyndl

namespace Pyndl
open List

/-! ## the submit loop terminates for every completion oracle -/

theorem tSubmit_lt_succ (delay : Nat → Nat) (burst j : Nat) :
    tSubmit delay burst j < tSubmit delay burst (j + 1) := by
  simp only [tSubmit]
  split <;> omega

theorem tSubmit_mono (delay : Nat → Nat) (burst : Nat) {i j : Nat} (h : i ≤ j) :
    tSubmit delay burst i ≤ tSubmit delay burst j := by
  induction j with
  | zero => have : i = 0 := by omega
            subst this; exact Nat.le_refl _
  | succ j ih =>
    by_cases hij : i = j + 1
    · subst hij; exact Nat.le_refl _
    · exact Nat.le_trans (ih (by omega)) (Nat.le_of_lt (tSubmit_lt_succ delay burst j))

theorem le_tSubmit (delay : Nat → Nat) (burst j : Nat) : j ≤ tSubmit delay burst j := by
  induction j with
  | zero => exact Nat.zero_le _
  | succ j ih => have := tSubmit_lt_succ delay burst j; omega

theorem foldl_min_le_init (f : Nat → Nat) (l : List Nat) (m : Nat) :
    l.foldl (fun m j => min m (f j)) m ≤ m := by
  induction l generalizing m with
  | nil => exact Nat.le_refl _
  | cons x l ih => simp only [List.foldl_cons]; exact Nat.le_trans (ih _) (Nat.min_le_left _ _)

theorem le_foldl_min (f : Nat → Nat) (l : List Nat) (m b : Nat) (hm : b ≤ m) (hl : ∀ x ∈ l, b ≤ f x) :
    b ≤ l.foldl (fun m j => min m (f j)) m := by
  induction l generalizing m with
  | nil => exact hm
  | cons x l ih =>
    simp only [List.foldl_cons]
    exact ih _ (Nat.le_min.mpr ⟨hm, hl x (by simp)⟩) (fun y hy => hl y (by simp [hy]))

theorem closeTime_bounds (n per burst : Nat) (hp : 1 ≤ per) (delay : Nat → Nat) (horizon : Nat) :
    tSubmit delay burst (n / per) ≤ closeTime n per burst delay horizon ∧
    closeTime n per burst delay horizon ≤ tDone delay burst (n / per) := by
  unfold closeTime
  refine ⟨?_, foldl_min_le_init _ _ _⟩
  apply le_foldl_min
  · unfold tDone; omega
  · intro j hj
    simp only [List.mem_filter, List.mem_range] at hj
    have := (jobResult_closes_iff n per j hp).mp hj.2
    have := tSubmit_mono delay burst this
    unfold tDone; omega

theorem sum_filter_counts (n per : Nat) (hp : 1 ≤ per) (P : Nat → Bool) (H : Nat)
    (hH : n / per ≤ H) (hP : ∀ j, j ≤ n / per → P j = true) :
    (((List.range (H + 1)).filter P).map (fun j => (jobResult n per j).count)).sum = n := by
  obtain ⟨d, rfl⟩ : ∃ d, H = n / per + d := ⟨H - n / per, by omega⟩
  have hsplit : List.range (n / per + d + 1) = List.range (n / per + 1) ++ (List.range d).map (· + (n / per + 1)) := by
    have : n / per + d + 1 = (n / per + 1) + d := by omega
    rw [this, List.range_add]
    congr 1
    apply List.map_congr_left; intro a _; omega
  rw [hsplit, List.filter_append, List.map_append, List.sum_append]
  have h1 : (List.range (n / per + 1)).filter P = List.range (n / per + 1) := by
    rw [List.filter_eq_self]
    intro j hj
    exact hP j (by simp at hj; omega)
  rw [h1, sum_counts_all n per hp]
  have h2 : ((((List.range d).map (· + (n / per + 1))).filter P).map
      (fun j => (jobResult n per j).count)).sum = 0 := by
    apply List.sum_eq_zero
    intro x hx
    simp only [List.mem_map, List.mem_filter] at hx
    obtain ⟨j, ⟨⟨i, _, rfl⟩, _⟩, rfl⟩ := hx
    exact jobResult_count_zero n per _ hp (by omega)
  rw [h2]; rfl

/-- **termination and exact count for every completion oracle**: for every
    delay function (every completion order), every `events_per_file ≥ 1`, every
    throttle burst ≥ 1 and every number of events — exact multiples of
    `events_per_file` included — the pool is closed no later than job `n / per`
    completes, finitely many jobs were submitted by then, and the counts
    reported by their callbacks add up to exactly `n`. -/
theorem submit_loop_terminates (n per burst : Nat) (hp : 1 ≤ per) (delay : Nat → Nat) :
    let H := tDone delay burst (n / per)
    let r := simulate n per burst delay H
    r.1 ≤ H ∧ n / per + 1 ≤ r.2.1 ∧ r.2.1 ≤ H + 1 ∧ r.2.2 = n := by
  intro H r
  obtain ⟨hlo, hhi⟩ := closeTime_bounds n per burst hp delay H
  have hJH : n / per ≤ H := by
    have := le_tSubmit delay burst (n / per)
    show n / per ≤ tDone delay burst (n / per)
    unfold tDone; omega
  refine ⟨hhi, ?_, ?_, ?_⟩
  · show n / per + 1 ≤ ((List.range (H + 1)).filter _).length
    have hsub : List.range (n / per + 1) <+ (List.range (H + 1)).filter
        (fun j => decide (tSubmit delay burst j ≤ closeTime n per burst delay H)) := by
      have h1 : List.range (n / per + 1) <+ List.range (H + 1) :=
        List.range_sublist.mpr (by omega)
      have := h1.filter (fun j => decide (tSubmit delay burst j ≤ closeTime n per burst delay H))
      rwa [List.filter_eq_self.mpr] at this
      intro j hj
      simp only [List.mem_range] at hj
      have := tSubmit_mono delay burst (show j ≤ n / per by omega)
      simp only [decide_eq_true_eq]; omega
    have := hsub.length_le
    simpa using this
  · show ((List.range (H + 1)).filter _).length ≤ H + 1
    have := List.length_filter_le (fun j => decide (tSubmit delay burst j ≤ closeTime n per burst delay H))
      (List.range (H + 1))
    simpa using this
  · show (((List.range (H + 1)).filter _).map _).sum = n
    apply sum_filter_counts n per hp _ H hJH
    intro j hj
    have := tSubmit_mono delay burst hj
    simp only [decide_eq_true_eq]; omega

end Pyndl

namespace Pyndl
open List

/-- **a failing conversion job makes the call raise, for every completion
    order**: the first closing job `f0` is always submitted (everything that
    could close the pool earlier is submitted after it), it completes, its
    error is recorded, and the caller raises after the join — no later than
    `tDone f0`. -/
theorem convert_raises (n per burst : Nat) (delay : Nat → Nat) (failing : Nat → Bool) (f0 : Nat)
    (hfirst : ∀ j, j < f0 → closesF n per failing j = false) (hfail : failing f0 = true) :
    let H := tDone delay burst f0
    let r := simulateF n per burst delay failing f0 H
    r.1 ≤ H ∧ r.2.1 = true := by
  intro H r
  have hlo : tSubmit delay burst f0 ≤ r.1 := by
    show tSubmit delay burst f0 ≤ List.foldl _ _ _
    apply le_foldl_min
    · unfold tDone; omega
    · intro j hj
      simp only [List.mem_filter, List.mem_range] at hj
      have hge : f0 ≤ j := by
        by_contra hlt
        have := hfirst j (by omega)
        rw [this] at hj; exact absurd hj.2 (by simp)
      have := tSubmit_mono delay burst hge
      unfold tDone; omega
  refine ⟨foldl_min_le_init _ _ _, ?_⟩
  show List.any _ failing = true
  rw [List.any_eq_true]
  refine ⟨f0, ?_, hfail⟩
  simp only [List.mem_filter, List.mem_range, decide_eq_true_eq]
  have h1 := le_tSubmit delay burst f0
  refine ⟨?_, hlo⟩
  show f0 < tDone delay burst f0 + 1
  unfold tDone; omega

/-- without a failing job nothing is raised -/
theorem convert_no_fault (n per burst : Nat) (delay : Nat → Nat) (f0 H : Nat) :
    (simulateF n per burst delay (fun _ => false) f0 H).2.1 = false := by
  simp [simulateF]

end Pyndl
