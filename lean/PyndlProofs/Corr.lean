/-
  PyndlProofs.Corr — helper lemmas for C18 (model: PyndlModel.Corr).
  Algebra over a field / ordered field; the `prange` as a fold of cell writes.
  The last section is over ℝ with `Real.sqrt`.
-/
import PyndlModel.Corr
import Mathlib.Tactic.Ring
import Mathlib.Tactic.FieldSimp
import Mathlib.Tactic.Linarith
import Mathlib.Algebra.BigOperators.Group.List.Basic
import Mathlib.Algebra.Order.Field.Basic
import Mathlib.Analysis.Real.Sqrt
import Mathlib.Algebra.BigOperators.Group.List.Lemmas

set_option linter.unusedSectionVars false
set_option linter.unusedSimpArgs false

namespace Pyndl.Corr
open List

/-! ## sums -/

section Field
variable {K : Type} [Field K]

theorem foldl_add_eq (x : List K) (a : K) : x.foldl (· + ·) a = a + x.sum := by
  induction x generalizing a with
  | nil => simp
  | cons v x ih => simp only [List.foldl_cons, List.sum_cons]; rw [ih]; ring

theorem sumL_eq_sum (x : List K) : sumL x = x.sum := by
  simp [sumL, foldl_add_eq]

theorem dot_foldl (ps : List (K × K)) (a : K) :
    ps.foldl (fun s p => s + p.1 * p.2) a = a + (ps.map (fun p => p.1 * p.2)).sum := by
  induction ps generalizing a with
  | nil => simp
  | cons p ps ih => simp only [List.foldl_cons, List.map_cons, List.sum_cons]; rw [ih]; ring

theorem dot_eq_sum (x y : List K) : dot x y = ((x.zip y).map (fun p => p.1 * p.2)).sum := by
  simp [dot, dot_foldl]

/-- expanding the centred products of a list of pairs -/
theorem sum_centred (ps : List (K × K)) (a b : K) :
    (ps.map (fun p => (p.1 - a) * (p.2 - b))).sum
      = (ps.map (fun p => p.1 * p.2)).sum - b * (ps.map Prod.fst).sum - a * (ps.map Prod.snd).sum
        + (ps.length : K) * a * b := by
  induction ps with
  | nil => simp
  | cons p ps ih =>
    simp only [List.map_cons, List.sum_cons, List.length_cons, Nat.cast_succ]
    rw [ih]; ring

theorem mean_mul_length (x : List K) (h : (x.length : K) ≠ 0) :
    (x.length : K) * mean x = x.sum := by
  unfold mean; rw [sumL_eq_sum]; field_simp

/-- `Σ x y − n x̄ ȳ = Σ (x − x̄)(y − ȳ)` -/
theorem nom_eq_cov (x y : List K) (hl : x.length = y.length) (hn : (y.length : K) ≠ 0) :
    nom x y = cov x y := by
  have hx : (x.length : K) ≠ 0 := by rw [hl]; exact hn
  unfold nom nomWith cov
  simp only [sumL_eq_sum]
  rw [sum_centred, dot_eq_sum]
  have h1 : ((x.zip y).map Prod.fst) = x := List.map_fst_zip (by omega)
  have h2 : ((x.zip y).map Prod.snd) = y := List.map_snd_zip (by omega)
  have h3 : (x.zip y).length = y.length := by simp [hl]
  rw [h1, h2, h3, ← mean_mul_length x hx, ← mean_mul_length y hn, hl]
  ring

/-- `ssq` as the covariance of a column with itself -/
theorem ssq_eq_sum (x : List K) : ssq x = (x.map (fun v => (v - mean x) * (v - mean x))).sum := by
  simp [ssq, sumL_eq_sum]

end Field

/-! ## ordered field: the rejection rule -/

section Ordered
variable {K : Type} [Field K] [LinearOrder K] [IsStrictOrderedRing K]

theorem sum_sq_nonneg (x : List K) (m : K) : 0 ≤ (x.map (fun v => (v - m) * (v - m))).sum := by
  induction x with
  | nil => simp
  | cons v x ih =>
    simp only [List.map_cons, List.sum_cons]
    have := mul_self_nonneg (v - m)
    linarith

theorem sum_sq_eq_zero_iff (x : List K) (m : K) :
    (x.map (fun v => (v - m) * (v - m))).sum = 0 ↔ ∀ v ∈ x, v = m := by
  induction x with
  | nil => simp
  | cons v x ih =>
    simp only [List.map_cons, List.sum_cons, List.mem_cons, forall_eq_or_imp]
    have h1 := mul_self_nonneg (v - m)
    have h2 := sum_sq_nonneg x m
    constructor
    · intro h
      have hv : (v - m) * (v - m) = 0 := by linarith
      have hs : (x.map (fun v => (v - m) * (v - m))).sum = 0 := by linarith
      refine ⟨?_, ih.mp hs⟩
      have := mul_self_eq_zero.mp hv
      linarith
    · rintro ⟨hv, hx⟩
      rw [ih.mpr hx, hv]; simp

theorem ssq_nonneg (x : List K) : 0 ≤ ssq x := by
  rw [ssq_eq_sum]; exact sum_sq_nonneg x _

theorem sum_const (x : List K) (c : K) (h : ∀ v ∈ x, v = c) : x.sum = (x.length : K) * c := by
  induction x with
  | nil => simp
  | cons v x ih =>
    simp only [List.sum_cons, List.length_cons, Nat.cast_succ]
    rw [ih (fun u hu => h u (List.mem_cons_of_mem _ hu)), h v (List.mem_cons_self)]
    ring

theorem mean_const (x : List K) (c : K) (hne : x ≠ []) (h : ∀ v ∈ x, v = c) : mean x = c := by
  have hl : (x.length : K) ≠ 0 := by
    have : x.length ≠ 0 := by simpa using hne
    exact_mod_cast this
  unfold mean; rw [sumL_eq_sum, sum_const x c h]; field_simp

/-- `Σ (x − x̄)² = 0 ↔` all entries equal -/
theorem ssq_eq_zero_iff (x : List K) (hne : x ≠ []) :
    ssq x = 0 ↔ ∀ u ∈ x, ∀ v ∈ x, u = v := by
  rw [ssq_eq_sum, sum_sq_eq_zero_iff]
  constructor
  · intro h u hu v hv; rw [h u hu, h v hv]
  · intro h
    obtain ⟨c, hc⟩ : ∃ c, c ∈ x := by
      cases x with
      | nil => exact absurd rfl hne
      | cons c _ => exact ⟨c, List.mem_cons_self⟩
    have hm : mean x = c := mean_const x c hne (fun v hv => h v hv c hc)
    intro v hv; rw [hm]; exact h v hv c hc

/-- `np.std(column, ddof=1)² = 0 ↔` the column is constant (n ≥ 2) -/
theorem var1_eq_zero_iff (x : List K) (hn : 2 ≤ x.length) :
    var1 x = 0 ↔ ∀ u ∈ x, ∀ v ∈ x, u = v := by
  have hne : x ≠ [] := by intro h; simp [h] at hn
  have hd : (((x.length - 1 : Nat)) : K) ≠ 0 := by
    have : x.length - 1 ≠ 0 := by omega
    exact_mod_cast this
  unfold var1
  rw [div_eq_zero_iff]
  constructor
  · rintro (h | h)
    · exact (ssq_eq_zero_iff x hne).mp h
    · exact absurd h hd
  · intro h; exact Or.inl ((ssq_eq_zero_iff x hne).mpr h)

theorem var1_nonneg (x : List K) : 0 ≤ var1 x := by
  unfold var1
  exact div_nonneg (ssq_nonneg x) (Nat.cast_nonneg _)

end Ordered

/-! ## the model's rejection rule on finite columns = constancy -/

section Cls
variable {R : Type} [DecidableEq R]

theorem all_eqv_fin (c : R) (xs : List R) :
    ((xs.map Ext.fin).all (fun v => Ext.eqv v (Ext.fin c)) = true) ↔ ∀ v ∈ xs, v = c := by
  simp [List.all_eq_true, Ext.eqv]

theorem all_isSome_fin (xs : List R) :
    (xs.map Ext.fin).all (fun v => v.toFin?.isSome) = true := by
  simp [List.all_eq_true, Ext.toFin?]

theorem stdClass_fin_cons (c : R) (rest : List R) :
    stdClass ((c :: rest).map Ext.fin)
      = if ((c :: rest).map Ext.fin).all (fun v => Ext.eqv v (Ext.fin c)) then .zero else .pos := by
  have h := all_isSome_fin (c :: rest)
  simp only [List.map_cons] at h ⊢
  unfold stdClass
  simp only [h, if_true]

theorem stdClass_fin_zero_iff (xs : List R) (hne : xs ≠ []) :
    stdClass (xs.map Ext.fin) = .zero ↔ ∀ u ∈ xs, ∀ v ∈ xs, u = v := by
  cases xs with
  | nil => exact absurd rfl hne
  | cons c rest =>
    rw [stdClass_fin_cons]
    have h := all_eqv_fin c (c :: rest)
    by_cases hc : ((c :: rest).map Ext.fin).all (fun v => Ext.eqv v (Ext.fin c)) = true
    · rw [if_pos hc]
      have hv := h.mp hc
      exact ⟨fun _ u hu v hv' => by rw [hv u hu, hv v hv'], fun _ => rfl⟩
    · rw [if_neg hc]
      constructor
      · intro h'; cases h'
      · intro hall
        exact absurd (h.mpr (fun v hv => hall v hv c List.mem_cons_self)) hc

theorem stdClass_fin_pos_iff (xs : List R) (hne : xs ≠ []) :
    stdClass (xs.map Ext.fin) = .pos ↔ ¬ ∀ u ∈ xs, ∀ v ∈ xs, u = v := by
  rw [← stdClass_fin_zero_iff xs hne]
  cases xs with
  | nil => exact absurd rfl hne
  | cons c rest =>
    rw [stdClass_fin_cons]
    by_cases hc : ((c :: rest).map Ext.fin).all (fun v => Ext.eqv v (Ext.fin c)) = true
    · rw [if_pos hc]; simp
    · rw [if_neg hc]; simp

/-- a column with a NaN or an infinity is never classified `pos` -/
theorem stdClass_nonfinite (col : List (Ext R)) (h : ∃ v ∈ col, v.toFin? = none) :
    stdClass col ≠ .pos := by
  cases col with
  | nil => simp [stdClass]
  | cons c rest =>
    unfold stdClass
    show (if ((c :: rest).all fun v => v.eqv c) = true then StdClass.zero
      else if ((c :: rest).all fun v => v.toFin?.isSome) = true then StdClass.pos else StdClass.nan)
        ≠ StdClass.pos
    by_cases hc : (c :: rest).all (fun v => Ext.eqv v c) = true
    · rw [if_pos hc]; simp
    · rw [if_neg hc]
      have : ¬ ((c :: rest).all (fun v => v.toFin?.isSome) = true) := by
        intro hall
        obtain ⟨v, hv, hnone⟩ := h
        have := (List.all_eq_true.mp hall) v hv
        rw [hnone] at this; simp at this
      rw [if_neg this]; simp

theorem anyDegenerate_eq_false_iff (sem act : List (List (Ext R))) :
    anyDegenerate sem act = false ↔
      (∀ jj < nCols sem, stdClass (colOf .nan sem jj) = .pos) ∧
      (∀ ii < nCols act, stdClass (colOf .nan act ii) = .pos) := by
  simp [anyDegenerate, colClasses, List.any_eq_false]

end Cls

/-! ## the `prange`: a fold of cell writes -/

section Prange
variable {β : Type}

theorem runWrites_get (cell : Nat → Nat → β) (C : Grid β) (ws : List (Nat × Nat)) (a b : Nat) :
    (runWrites cell C ws).get a b = if (a, b) ∈ ws then cell a b else C.get a b := by
  unfold runWrites
  induction ws generalizing C with
  | nil => simp
  | cons p ws ih =>
    simp only [List.foldl_cons]
    rw [ih]
    by_cases h : (a, b) ∈ ws
    · simp [h]
    · simp only [h, if_false, List.mem_cons, or_false]
      by_cases hp : (a, b) = p
      · subst hp; simp [writeCell, upd2]
      · rw [if_neg hp]
        have : ¬ (a = p.1 ∧ b = p.2) := by
          rintro ⟨h1, h2⟩; exact hp (Prod.ext h1 h2)
        simp [writeCell, upd2, this]

theorem runChunks_eq_runWrites (cell : Nat → Nat → β) (nOut : Nat) (C : Grid β)
    (chunks : List (List Nat)) :
    runChunks cell nOut C chunks = runWrites cell C (chunks.flatten.flatMap (iterWrites nOut)) := by
  simp only [runChunks, runWrites, List.foldl_flatMap, List.foldl_flatten]
  rfl

theorem mem_iterWrites (nOut : Nat) (l : List Nat) (a b : Nat) :
    (a, b) ∈ l.flatMap (iterWrites nOut) ↔ a < nOut ∧ b ∈ l := by
  simp only [List.mem_flatMap, iterWrites, List.mem_map, List.mem_range, Prod.mk.injEq]
  constructor
  · rintro ⟨ii, hii, jj, hjj, rfl, rfl⟩; exact ⟨hjj, hii⟩
  · rintro ⟨ha, hb⟩; exact ⟨b, hb, a, ha, rfl, rfl⟩

theorem chunkAux_flatten {α : Type} (c : Nat) (hc : 1 ≤ c) (fuel : Nat) (l : List α)
    (h : l.length ≤ fuel) : (chunkAux c fuel l).flatten = l := by
  induction fuel generalizing l with
  | zero =>
    have : l = [] := List.length_eq_zero_iff.mp (by omega)
    subst this; simp [chunkAux]
  | succ fuel ih =>
    unfold chunkAux
    by_cases he : l.isEmpty = true
    · rw [if_pos he]; simp [List.isEmpty_iff.mp he]
    · rw [if_neg he, List.flatten_cons, ih (l.drop c) (by rw [List.length_drop]; omega)]
      exact List.take_append_drop c l

theorem prangeChunks_flatten (n c : Nat) (hc : 1 ≤ c) : (prangeChunks n c).flatten = List.range n :=
  chunkAux_flatten c hc n (List.range n) (by simp)

/-- every chunk has at most `chunksize` iterations -/
theorem chunkAux_length_le {α : Type} (c fuel : Nat) (l : List α) :
    ∀ ch ∈ chunkAux c fuel l, ch.length ≤ c := by
  induction fuel generalizing l with
  | zero => simp [chunkAux]
  | succ fuel ih =>
    unfold chunkAux
    by_cases he : l.isEmpty = true
    · rw [if_pos he]; simp
    · rw [if_neg he]
      intro ch hch
      rcases List.mem_cons.mp hch with rfl | h
      · simp [List.length_take]
      · exact ih _ ch h

theorem map_getD_range {α : Type} (l : List α) (d : α) :
    (List.range l.length).map (fun k => l.getD k d) = l := by
  apply List.ext_getElem
  · simp
  · intro i h1 h2
    simp only [List.getElem_map, List.getElem_range]
    simp [List.getD_eq_getElem?_getD, h2]

/-- the chunks handed out in any order `order` (a permutation of the chunk
    indices) contain exactly the iterations `0 … n-1` -/
theorem mem_sched (n c : Nat) (hc : 1 ≤ c) (order : List Nat)
    (ho : order.Perm (List.range (prangeChunks n c).length)) (b : Nat) :
    b ∈ (order.map (fun k => (prangeChunks n c).getD k [])).flatten ↔ b < n := by
  have hp := (ho.map (fun k => (prangeChunks n c).getD k [])).flatten
  rw [map_getD_range, prangeChunks_flatten n c hc] at hp
  rw [hp.mem_iff, List.mem_range]

theorem toMat_congr (C : Grid β) (cell : Nat → Nat → β) (nOut nEv : Nat)
    (h : ∀ a b, a < nOut → b < nEv → C.get a b = cell a b) :
    C.toMat nOut nEv = directMat cell nOut nEv := by
  unfold Grid.toMat directMat
  apply List.map_congr_left
  intro a ha
  apply List.map_congr_left
  intro b hb
  exact h a b (List.mem_range.mp ha) (List.mem_range.mp hb)

/-- for every `chunksize ≥ 1` and every order in which the dynamic schedule hands
    the chunks out, the kernel returns the matrix computed cell by cell -/
theorem kernelRun_eq_direct (z : β) (cell : Nat → Nat → β) (nOut nEv c : Nat)
    (hc : 1 ≤ c) (order : List Nat) (ho : order.Perm (List.range (prangeChunks nEv c).length)) :
    kernelRun z cell nOut nEv c order = directMat cell nOut nEv := by
  unfold kernelRun
  apply toMat_congr
  intro a b ha hb
  rw [runChunks_eq_runWrites, runWrites_get]
  have : (a, b) ∈ (List.map (fun k => (prangeChunks nEv c).getD k []) order).flatten.flatMap (iterWrites nOut) := by
    rw [mem_iterWrites]; exact ⟨ha, (mem_sched nEv c hc order ho b).mpr hb⟩
  rw [if_pos this]

theorem directMat_congr (cell cell' : Nat → Nat → β) (nOut nEv : Nat)
    (h : ∀ a b, a < nOut → b < nEv → cell a b = cell' a b) :
    directMat cell nOut nEv = directMat cell' nOut nEv := by
  unfold directMat
  apply List.map_congr_left
  intro a ha
  apply List.map_congr_left
  intro b hb
  exact h a b (List.mem_range.mp ha) (List.mem_range.mp hb)

end Prange

/-! ## `correlation()` on non-degenerate matrices, for an arbitrary cell function -/

section Compose
variable {R : Type} [DecidableEq R] [Zero R]

theorem colOf_length {α : Type} (d : α) (M : List (List α)) (j : Nat) : (colOf d M j).length = nRows M := by
  simp [colOf, nRows]

theorem finCol_length (col : List (Ext R)) : (finCol col).length = col.length := by
  simp [finCol]

/-- a column classified "positive" has only finite entries … -/
theorem stdClass_pos_all_fin (col : List (Ext R)) (h : stdClass col = .pos) :
    ∀ v ∈ col, v.toFin?.isSome = true := by
  cases col with
  | nil => simp [stdClass] at h
  | cons c rest =>
    unfold stdClass at h
    change (if ((c :: rest).all fun v => v.eqv c) = true then StdClass.zero
      else if ((c :: rest).all fun v => v.toFin?.isSome) = true then StdClass.pos else StdClass.nan)
        = StdClass.pos at h
    by_cases hc : (c :: rest).all (fun v => Ext.eqv v c) = true
    · rw [if_pos hc] at h; cases h
    · rw [if_neg hc] at h
      by_cases hf : (c :: rest).all (fun v => v.toFin?.isSome) = true
      · exact List.all_eq_true.mp hf
      · rw [if_neg hf] at h; cases h

/-- … so it is the embedding of its finite entries -/
theorem stdClass_pos_eq_fin (col : List (Ext R)) (h : stdClass col = .pos) :
    col = (finCol col).map Ext.fin := by
  have hall := stdClass_pos_all_fin col h
  unfold finCol
  rw [List.map_map]
  conv_lhs => rw [← List.map_id col]
  apply List.map_congr_left
  intro v hv
  have := hall v hv
  cases v with
  | fin r => rfl
  | nan => simp [Ext.toFin?] at this
  | pinf => simp [Ext.toFin?] at this
  | ninf => simp [Ext.toFin?] at this

/-- a "positive" column is non-empty and its finite entries are not all equal -/
theorem stdClass_pos_not_const (col : List (Ext R)) (h : stdClass col = .pos) :
    ¬ ∀ u ∈ finCol col, ∀ v ∈ finCol col, u = v := by
  have he := stdClass_pos_eq_fin col h
  have hne : finCol col ≠ [] := by
    intro hnil
    rw [hnil] at he
    rw [he] at h
    simp [stdClass] at h
  rw [he] at h
  exact (stdClass_fin_pos_iff (finCol col) hne).mp h

/-- **`correlation()` on matrices with equal row count and only "positive"
    columns**: for every cell function, every `allow_nan`, every `chunksize ≥ 1`
    and every order of the chunks, the result is the matrix whose `(jj, ii)` cell
    is the cell function on (the finite entries of) column `jj` of `semantics`
    and column `ii` of `activations` -/
theorem correlation_ok_direct {β : Type} (z : β) (cellFn : List R → List R → β) (a : Bool)
    (sem act : List (List (Ext R))) (c : Nat) (hc : 1 ≤ c) (order : List Nat)
    (ho : order.Perm (List.range (prangeChunks (nCols act) c).length))
    (hr : nRows sem = nRows act)
    (hpos : (∀ jj < nCols sem, stdClass (colOf .nan sem jj) = .pos) ∧
      (∀ ii < nCols act, stdClass (colOf .nan act ii) = .pos)) :
    correlation z cellFn a sem act c order
      = .ok (directMat (fun jj ii =>
          some (cellFn (finCol (colOf .nan sem jj)) (finCol (colOf .nan act ii)))) (nCols sem) (nCols act)) := by
  have hdeg : anyDegenerate sem act = false := (anyDegenerate_eq_false_iff sem act).mpr hpos
  unfold correlation
  rw [if_neg (not_not.mpr hr)]
  simp only [hdeg, Bool.and_false, Bool.false_eq_true, if_false]
  rw [kernelRun_eq_direct _ _ _ _ c hc order ho]
  congr 1
  apply directMat_congr
  intro jj ii hjj hii
  have h1 : (colClasses sem).getD jj .nan = .pos := by
    unfold colClasses
    rw [List.getD_eq_getElem?_getD, List.getElem?_map, List.getElem?_range hjj]
    exact hpos.1 jj hjj
  have h2 : (colClasses act).getD ii .nan = .pos := by
    unfold colClasses
    rw [List.getD_eq_getElem?_getD, List.getElem?_map, List.getElem?_range hii]
    exact hpos.2 ii hii
  have h3 : ((List.range (nCols sem)).map (colOf .nan sem)).getD jj [] = colOf .nan sem jj := by
    rw [List.getD_eq_getElem?_getD, List.getElem?_map, List.getElem?_range hjj]; rfl
  have h4 : ((List.range (nCols act)).map (colOf .nan act)).getD ii [] = colOf .nan act ii := by
    rw [List.getD_eq_getElem?_getD, List.getElem?_map, List.getElem?_range hii]; rfl
  simp only [h1, h2, h3, h4, beq_self_eq_true, Bool.and_self, if_true]

end Compose

/-! ## field homomorphisms commute with the model (ℚ → ℝ: the driver's scalars) -/

section Hom
variable {K L : Type} [Field K] [Field L] (f : K →+* L)

theorem sumL_map (x : List K) : sumL (x.map f) = f (sumL x) := by
  rw [sumL_eq_sum, sumL_eq_sum, map_list_sum]

theorem mean_map (x : List K) : mean (x.map f) = f (mean x) := by
  unfold mean; rw [sumL_map, List.length_map, map_div₀, map_natCast]

theorem ssq_map (x : List K) : ssq (x.map f) = f (ssq x) := by
  unfold ssq
  simp only [mean_map]
  rw [← sumL_map, List.map_map, List.map_map]
  congr 1
  apply List.map_congr_left
  intro v _
  simp [map_mul, map_sub]

theorem var1_map (x : List K) : var1 (x.map f) = f (var1 x) := by
  unfold var1; rw [ssq_map, List.length_map, map_div₀, map_natCast]

theorem dot_map (x y : List K) : dot (x.map f) (y.map f) = f (dot x y) := by
  rw [dot_eq_sum, dot_eq_sum, map_list_sum, List.zip_map, List.map_map, List.map_map]
  congr 1
  apply List.map_congr_left
  intro p _
  simp [map_mul]

theorem nom_map (x y : List K) : nom (x.map f) (y.map f) = f (nom x y) := by
  unfold nom nomWith
  rw [dot_map, mean_map, mean_map, List.length_map, map_sub, map_mul, map_mul, map_natCast]

theorem den2_map (x y : List K) : den2 (x.map f) (y.map f) = f (den2 x y) := by
  unfold den2
  rw [var1_map, var1_map, List.length_map]
  simp [map_mul, map_sub]

theorem r2_map (x y : List K) : r2 (x.map f) (y.map f) = f (r2 x y) := by
  unfold r2; rw [nom_map, den2_map, map_div₀, map_mul]

end Hom

/-! ## over ℝ: the kernel's denominator and Pearson's -/

section Real

theorem cast_pred_real (n : Nat) (hn : 1 ≤ n) : (((n - 1 : Nat)) : ℝ) = (n : ℝ) - 1 := by
  rw [Nat.cast_sub hn]; simp

theorem scale_cancel (d a b s : ℝ) (hs0 : s ≠ 0) (hss : s * s = d) :
    d * (a / s) * (b / s) = a * b := by
  rw [← hss]; field_simp

/-- `(n−1)·√var₁ x·√var₁ y = √(Σ(x−x̄)² · Σ(y−ȳ)²)` -/
theorem den_eq_sqrt (x y : List ℝ) (hl : x.length = y.length) (hn : 2 ≤ y.length) :
    denWith y.length (std Real.sqrt x) (std Real.sqrt y) = Real.sqrt (ssq x * ssq y) := by
  unfold denWith std var1
  rw [hl, cast_pred_real y.length (by omega)]
  have hdpos : 0 < (y.length : ℝ) - 1 := by
    have : (2 : ℝ) ≤ (y.length : ℝ) := by exact_mod_cast hn
    linarith
  rw [Real.sqrt_div (ssq_nonneg x), Real.sqrt_div (ssq_nonneg y), Real.sqrt_mul (ssq_nonneg x)]
  exact scale_cancel _ _ _ _ (Real.sqrt_pos.mpr hdpos).ne' (Real.mul_self_sqrt hdpos.le)

/-- the square of the kernel's denominator is the root-free `den2` -/
theorem den_sq (x y : List ℝ) :
    denWith y.length (std Real.sqrt x) (std Real.sqrt y)
      * denWith y.length (std Real.sqrt x) (std Real.sqrt y) = den2 x y := by
  unfold denWith std den2
  have hx := Real.mul_self_sqrt (var1_nonneg x)
  have hy := Real.mul_self_sqrt (var1_nonneg y)
  calc ((y.length : ℝ) - 1) * Real.sqrt (var1 x) * Real.sqrt (var1 y)
        * (((y.length : ℝ) - 1) * Real.sqrt (var1 x) * Real.sqrt (var1 y))
      = ((y.length : ℝ) - 1) * ((y.length : ℝ) - 1) * (Real.sqrt (var1 x) * Real.sqrt (var1 x))
          * (Real.sqrt (var1 y) * Real.sqrt (var1 y)) := by ring
    _ = _ := by rw [hx, hy]

end Real

end Pyndl.Corr
