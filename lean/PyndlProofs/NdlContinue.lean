import PyndlProofs.NdlSpec

set_option linter.unusedSectionVars false
set_option linter.unusedSimpArgs false
set_option linter.unusedVariables false

namespace Pyndl
open List

variable {R : Type} [CommRing R]

/-- size side conditions for continued learning: the merged label lists and the
    events fit the 32-bit format -/
structure Fits32With (w : LW R) (es : List (Event String String)) : Prop where
  nEvents : es.length < 4294967296
  nCues : (w.cues ++ (countNames es).1.filter (fun c => !w.cues.contains c)).length < 4294967296
  nOuts : (w.outcomes ++ (countNames es).2.filter (fun o => !w.outcomes.contains o)).length < 4294967296
  perEvent : ∀ e ∈ es, e.cues.length < 4294967296 ∧ e.outcomes.length < 4294967296

theorem mem_append_filter_new (old new : List String) (x : String) (h : x ∈ new) :
    x ∈ old ++ new.filter (fun c => !old.contains c) := by
  by_cases ho : x ∈ old
  · exact List.mem_append_left _ ho
  · apply List.mem_append_right
    rw [List.mem_filter]
    refine ⟨h, ?_⟩
    simp [ho]

theorem size_extendVals (old : Array R) (a b c d : Nat) : (extendVals old a b c d).size = c * d := by
  simp [extendVals]

/-- **continued `ndl.ndl` = specification continued from the given weights**:
    with `weights = w` (any labelled matrix), the model returns a matrix whose
    value at every (outcome, cue) is `rwLearn` started from the weight
    function `w` denotes — also when the events bring new cues and outcomes. -/
theorem ndlModel_continue_eq_spec (magic version : Nat) (hm : magic < 4294967296) (hv : version < 4294967296)
    (cfg : NdlCfg) (hper : 2 ≤ cfg.perFile) (hjob : 1 ≤ cfg.perJob) (alpha β₁ β₂ lam : R)
    (w : LW R) (es es' : List (Event String String))
    (hp : applyPolicyAll cfg.policy es = some es') (hfit : Fits32With w es) :
    ∃ r, ndlModel magic version cfg alpha β₁ β₂ lam (some w) es = .ok (r, es.length) ∧
      ∀ o c, r.get o c = rwLearn (fun _ => alpha) β₁ β₂ lam (fun o c => w.get o c) es' o c := by
  rcases hcn : countNames es with ⟨cuesNew, outsNew⟩
  set cues := w.cues ++ cuesNew.filter (fun c => !w.cues.contains c) with hcues
  set outs := w.outcomes ++ outsNew.filter (fun o => !w.outcomes.contains o) with houts
  have hmemc : ∀ e ∈ es, ∀ c ∈ e.cues, c ∈ cues := fun e he c hc => by
    have := (countNames_mem es e he).1 c hc; rw [hcn] at this
    exact mem_append_filter_new _ _ _ this
  have hmemo : ∀ e ∈ es, ∀ o ∈ e.outcomes, o ∈ outs := fun e he o ho => by
    have := (countNames_mem es e he).2 o ho; rw [hcn] at this
    exact mem_append_filter_new _ _ _ this
  have hnc : cues.length < 4294967296 := by have := hfit.nCues; rw [hcn] at this; exact this
  have hno : outs.length < 4294967296 := by have := hfit.nOuts; rw [hcn] at this; exact this
  set f : String → Nat := (cues.idxOf ·) with hf
  set g : String → Nat := (outs.idxOf ·) with hg
  have hmap : es.map (toIds cues outs) = es.map (fun e => (⟨e.cues.map f, e.outcomes.map g⟩ : Event Nat Nat)) := rfl
  have hpid : applyPolicyAll cfg.policy (es.map (toIds cues outs))
      = some (es'.map (fun e => (⟨e.cues.map f, e.outcomes.map g⟩ : Event Nat Nat))) := by
    rw [hmap]
    apply applyPolicyAll_map f g cfg.policy es es' _ _ hp
    · intro e he a ha b hb hab
      exact idxOf_injOn cues a b (hmemc e he a ha) (hmemc e he b hb) hab
    · intro e he a ha b hb hab
      exact idxOf_injOn outs a b (hmemo e he a ha) (hmemo e he b hb) hab
  set ids' := es'.map (fun e => (⟨e.cues.map f, e.outcomes.map g⟩ : Event Nat Nat)) with hids'
  have hes' : ∀ e' ∈ es', (∀ c ∈ e'.cues, c ∈ cues) ∧ (∀ o ∈ e'.outcomes, o ∈ outs) ∧
      e'.cues.length < 4294967296 ∧ e'.outcomes.length < 4294967296 := by
    intro e' he'
    obtain ⟨e, he, hpe⟩ := applyPolicyAll_mem cfg.policy es es' hp e' he'
    obtain ⟨s1, s2, s3, s4⟩ := applyPolicy_sub cfg.policy e e' hpe
    have hb := hfit.perEvent e he
    exact ⟨fun c hc => hmemc e he c ((s1 c).mp hc), fun o ho => hmemo e he o ((s2 o).mp ho),
      by omega, by omega⟩
  have hper1 : 1 ≤ cfg.perFile := by omega
  have hlen : (es.map (toIds cues outs)).length = es.length := by simp
  have hmk := makeChunks_ok magic version cfg.policy (es.map (toIds cues outs)) ids' hpid cfg.perFile hper1
  rw [hlen] at hmk
  set chunks := (List.range (nChunks es.length cfg.perFile)).map (chunkOf cfg.perFile ids') with hchunks
  have hfiles : (List.range (nChunks es.length cfg.perFile)).map
      (fun k => encodeChunk magic version (chunkOf cfg.perFile ids' k)) = chunks.map (encodeChunk magic version) := by
    rw [hchunks, List.map_map]; rfl
  have hlen' : ids'.length = es.length := by
    rw [hids', List.length_map]; exact applyPolicyAll_length cfg.policy es es' hp
  have hflat : chunks.flatten = ids' := by
    rw [hchunks]
    exact chunks_flatten ids' cfg.perFile hper1 _ (by rw [hlen']; exact nChunks_covers es.length cfg.perFile hper1)
  have hidwf : ∀ e ∈ ids', EventWf e ∧ (∀ c ∈ e.cues, c < cues.length) := by
    intro e he
    rw [hids'] at he
    obtain ⟨e', he', rfl⟩ := List.mem_map.mp he
    obtain ⟨a1, a2, a3, a4⟩ := hes' e' he'
    refine ⟨⟨?_, ?_, by simpa using a3, by simpa using a4⟩, ?_⟩
    · intro i hi
      obtain ⟨c, hc, rfl⟩ := List.mem_map.mp hi
      have := List.idxOf_lt_length_iff.mpr (a1 c hc)
      show cues.idxOf c < 4294967296
      omega
    · intro i hi
      obtain ⟨o, ho, rfl⟩ := List.mem_map.mp hi
      have := List.idxOf_lt_length_iff.mpr (a2 o ho)
      show outs.idxOf o < 4294967296
      omega
    · intro i hi
      obtain ⟨c, hc, rfl⟩ := List.mem_map.mp hi
      exact List.idxOf_lt_length_iff.mpr (a1 c hc)
  have hchunkwf : ∀ c ∈ chunks, c.length < 4294967296 ∧ Wf32 c := by
    intro c hc
    have hsub : ∀ e ∈ c, e ∈ ids' := by
      intro e he
      rw [← hflat]; exact List.mem_flatten.mpr ⟨c, hc, he⟩
    constructor
    · rw [hchunks] at hc
      obtain ⟨k, _, rfl⟩ := List.mem_map.mp hc
      rw [length_chunkOf]
      have := hfit.nEvents
      have : min cfg.perFile (ids'.length - k * cfg.perFile) ≤ ids'.length := by omega
      omega
    · intro e he; exact (hidwf e (hsub e he)).1
  have hdec := decodeAll_encode magic version hm hv chunks hchunkwf
  set n := cues.length with hn
  set nOut := outs.length with hnOut
  let vals0 : Array R := extendVals w.vals w.outcomes.length w.cues.length nOut n
  have hw0 : vals0.size = n * nOut := by
    show (extendVals w.vals w.outcomes.length w.cues.length nOut n).size = n * nOut
    rw [size_extendVals, Nat.mul_comm]
  have hcuesok : ∀ e ∈ chunks.flatten, ∀ c ∈ e.cues, c < n := by
    intro e he; rw [hflat] at he; exact (hidwf e he).2
  have hrows : ∀ o ∈ List.range nOut, o < nOut := fun o ho => List.mem_range.mp ho
  let vals' : Array R := match cfg.method with
    | .threading => learnThreadingSeq alpha β₁ β₂ lam n chunks (List.range nOut) cfg.perJob vals0
    | .openmp => learnOpenmpSeq alpha β₁ β₂ lam n chunks (List.range nOut) cfg.perJob vals0
  have hrow : ∀ i, i < nOut →
      rowFn n vals' i = rwLearn (fun _ => alpha) β₁ β₂ lam (fun o => rowFn n vals0 o) ids' i := by
    intro i hi
    show rowFn n (match cfg.method with
      | .threading => learnThreadingSeq alpha β₁ β₂ lam n chunks (List.range nOut) cfg.perJob vals0
      | .openmp => learnOpenmpSeq alpha β₁ β₂ lam n chunks (List.range nOut) cfg.perJob vals0) i = _
    cases cfg.method with
    | threading =>
      simp only
      rw [learnThreadingSeq_eq_spec alpha β₁ β₂ lam n nOut chunks (List.range nOut) cfg.perJob hjob
        List.nodup_range hrows hcuesok _ hw0 i (List.mem_range.mpr hi), hflat]
    | openmp =>
      simp only
      rw [learnOpenmpSeq_eq_spec alpha β₁ β₂ lam n nOut chunks (List.range nOut) cfg.perJob hjob
        List.nodup_range hrows hcuesok _ hw0 i (List.mem_range.mpr hi), hflat]
  -- the extended initial array denotes the given weights
  have hinit : ∀ o c, o ∈ outs → c ∈ cues → rowFn n vals0 (outs.idxOf o) (cues.idxOf c) = w.get o c := by
    intro o c ho hc
    have hi : outs.idxOf o < nOut := List.idxOf_lt_length_iff.mpr ho
    have hj : cues.idxOf c < n := List.idxOf_lt_length_iff.mpr hc
    have hext := extendLW_get w cuesNew outsNew o c
    rw [← hext]
    unfold extendLW LW.get rowFn flatIdx
    simp only [hj, if_true]
    have hi' : (w.outcomes ++ outsNew.filter (fun o => !w.outcomes.contains o)).idxOf o
        < (w.outcomes ++ outsNew.filter (fun o => !w.outcomes.contains o)).length := hi
    have hj' : (w.cues ++ cuesNew.filter (fun c => !w.cues.contains c)).idxOf c
        < (w.cues ++ cuesNew.filter (fun c => !w.cues.contains c)).length := hj
    rw [if_pos ⟨hi', hj'⟩, Nat.mul_comm]
  refine ⟨⟨outs, cues, vals'⟩, ?_, ?_⟩
  · unfold ndlModel
    simp only [hcn]
    have h1 : ¬ cfg.perFile < 2 := by omega
    have h2 : ¬ cfg.perJob < 1 := by omega
    have hmk' := hmk
    simp only [hcues, houts] at hmk'
    simp only [h1, if_false, hmk']
    have hdec' := hdec
    rw [← hfiles] at hdec'
    simp only [hdec', h2, if_false]
    rfl
  · intro o c
    by_cases ho : o ∈ outs
    · by_cases hc : c ∈ cues
      · have hi : outs.idxOf o < nOut := List.idxOf_lt_length_iff.mpr ho
        have hj : cues.idxOf c < n := List.idxOf_lt_length_iff.mpr hc
        have hget : (LW.get ⟨outs, cues, vals'⟩ o c : R) = rowFn n vals' (outs.idxOf o) (cues.idxOf c) := by
          unfold LW.get rowFn flatIdx
          have hi' : outs.idxOf o < outs.length := hi
          have hj' : cues.idxOf c < cues.length := hj
          simp only [hj]
          rw [if_pos ⟨hi', hj'⟩, if_pos trivial, Nat.mul_comm]
        rw [hget, hrow _ hi, hids']
        exact rwLearn_rename_on f g (· ∈ cues) (· ∈ outs)
          (fun a b ha hb h => idxOf_injOn cues a b ha hb h)
          (fun a b ha hb h => idxOf_injOn outs a b ha hb h)
          alpha β₁ β₂ lam (fun o c => w.get o c) (fun i j => rowFn n vals0 i j) es'
          (fun e he => ⟨(hes' e he).1, (hes' e he).2.1⟩) (fun o c ho hc => hinit o c ho hc) o c ho hc
      · have hcw : c ∉ w.cues := fun h => hc (List.mem_append_left _ h)
        rw [LW.get_not_cue _ o c hc, rwLearn_unseen_cue _ _ _ _ _ _ o c
          (fun e he hce => hc ((hes' e he).1 c hce)), LW.get_not_cue w o c hcw]
    · have how : o ∉ w.outcomes := fun h => ho (List.mem_append_left _ h)
      rw [LW.get_not_outcome _ o c ho]
      have hz : (fun c => w.get o c) = fun _ => (0 : R) := by
        funext c'; exact LW.get_not_outcome w o c' how
      have := rwLearn_unseen_outcome (fun _ => alpha) β₁ β₂ lam (fun o c => w.get o c) es' o
        (fun e he hoe => ho ((hes' e he).2.1 o hoe)) hz
      rw [this]

end Pyndl
