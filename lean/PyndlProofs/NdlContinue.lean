import PyndlProofs.NdlSpec

set_option linter.unusedSectionVars false
set_option linter.unusedSimpArgs false
set_option linter.unusedVariables false

namespace Pyndl
open List

variable {R : Type} [CommRing R]

/-- size side conditions for continued learning: the merged label lists and the
    events fit the 32-bit format -/
structure Fits32With (w : LW R) (es : List (Event String String)) : Prop where
  nEvents : es.length < 4294967296
  nCues : (w.cues ++ (countNames es).1.filter (fun c => !w.cues.contains c)).length < 4294967296
  nOuts : (w.outcomes ++ (countNames es).2.filter (fun o => !w.outcomes.contains o)).length < 4294967296
  perEvent : ∀ e ∈ es, e.cues.length < 4294967296 ∧ e.outcomes.length < 4294967296

/-- the merged outcome labels of a continued call: old labels, then the new names -/
def mergedOutcomes (w : LW R) (es : List (Event String String)) : List String :=
  w.outcomes ++ (countNames es).2.filter (fun o => !w.outcomes.contains o)

/-- the merged cue labels of a continued call: old labels, then the new names -/
def mergedCues (w : LW R) (es : List (Event String String)) : List String :=
  w.cues ++ (countNames es).1.filter (fun c => !w.cues.contains c)

theorem size_extendVals (old : Array R) (a b c d : Nat) : (extendVals old a b c d).size = c * d := by
  simp [extendVals]

/-- **continued `ndl.ndl` = specification continued from the given weights**:
    with `weights = w` (a labelled matrix), the model returns a matrix whose
    value at every (outcome, cue) is `rwLearn` started from the weight
    function `w` denotes — also when the events bring new cues and outcomes.
    `hcfg`: legal chunking arguments w.r.t. the MERGED outcome labels (OpenMP:
    `n_outcomes_per_job < 2³²` and no wrap-around of the part bounds). -/
theorem ndlModel_continue_eq_spec (magic version : Nat) (hm : magic < 4294967296) (hv : version < 4294967296)
    (cfg : NdlCfg) (alpha β₁ β₂ lam : R)
    (w : LW R) (es es' : List (Event String String))
    (hcfg : CfgOK cfg (mergedOutcomes w es).length)
    (hp : applyPolicyAll cfg.policy es = some es') (hfit : Fits32With w es) :
    ∃ r, ndlModel magic version cfg alpha β₁ β₂ lam (some w) es = .ok (r, es.length) ∧
      ∀ o c, r.get o c = rwLearn (fun _ => alpha) β₁ β₂ lam (fun o c => w.get o c) es' o c := by
  rw [ndlModel_some]
  set cuesNew := (countNames es).1 with hcn1
  set outsNew := (countNames es).2 with hcn2
  set cues := w.cues ++ cuesNew.filter (fun c => !w.cues.contains c) with hcues
  set outs := w.outcomes ++ outsNew.filter (fun o => !w.outcomes.contains o) with houts
  have hmemc : ∀ e ∈ es, ∀ c ∈ e.cues, c ∈ cues := fun e he c hc =>
    mem_append_filter_new _ _ _ ((countNames_mem es e he).1 c hc)
  have hmemo : ∀ e ∈ es, ∀ o ∈ e.outcomes, o ∈ outs := fun e he o ho =>
    mem_append_filter_new _ _ _ ((countNames_mem es e he).2 o ho)
  -- the extended initial array denotes the given weights
  have hinit : ∀ o c, o ∈ outs → c ∈ cues →
      rowFn cues.length (extendVals w.vals w.outcomes.length w.cues.length outs.length cues.length)
        (outs.idxOf o) (cues.idxOf c) = w.get o c := by
    intro o c ho hc
    have hi : outs.idxOf o < outs.length := List.idxOf_lt_length_iff.mpr ho
    have hj : cues.idxOf c < cues.length := List.idxOf_lt_length_iff.mpr hc
    have hext := extendLW_get w cuesNew outsNew o c
    rw [← hext]
    unfold extendLW LW.get rowFn flatIdx
    simp only [hj, if_true]
    have hi' : (w.outcomes ++ outsNew.filter (fun o => !w.outcomes.contains o)).idxOf o
        < (w.outcomes ++ outsNew.filter (fun o => !w.outcomes.contains o)).length := hi
    have hj' : (w.cues ++ cuesNew.filter (fun c => !w.cues.contains c)).idxOf c
        < (w.cues ++ cuesNew.filter (fun c => !w.cues.contains c)).length := hj
    rw [if_pos ⟨hi', hj'⟩, Nat.mul_comm]
  obtain ⟨vals', hrun, hget⟩ := ndlCore_spec magic version hm hv cfg alpha β₁ β₂ lam cues outs hcfg
    hfit.nCues hfit.nOuts _ (by rw [size_extendVals, Nat.mul_comm])
    es es' hp hmemc hmemo hfit.nEvents hfit.perEvent (fun o c => w.get o c) hinit
  have hes' : ∀ e' ∈ es', (∀ c ∈ e'.cues, c ∈ cues) ∧ (∀ o ∈ e'.outcomes, o ∈ outs) := by
    intro e' he'
    obtain ⟨e, he, hpe⟩ := applyPolicyAll_mem cfg.policy es es' hp e' he'
    obtain ⟨s1, s2, _, _⟩ := applyPolicy_sub cfg.policy e e' hpe
    exact ⟨fun c hc => hmemc e he c ((s1 c).mp hc), fun o ho => hmemo e he o ((s2 o).mp ho)⟩
  refine ⟨⟨outs, cues, vals'⟩, hrun, ?_⟩
  intro o c
  by_cases ho : o ∈ outs
  · by_cases hc : c ∈ cues
    · exact hget o c ho hc
    · have hcw : c ∉ w.cues := fun h => hc (List.mem_append_left _ h)
      rw [LW.get_not_cue _ o c hc, rwLearn_unseen_cue _ _ _ _ _ _ o c
        (fun e he hce => hc ((hes' e he).1 c hce)), LW.get_not_cue w o c hcw]
  · have how : o ∉ w.outcomes := fun h => ho (List.mem_append_left _ h)
    rw [LW.get_not_outcome _ o c ho]
    have hz : (fun c => w.get o c) = fun _ => (0 : R) := by
      funext c'; exact LW.get_not_outcome w o c' how
    have := rwLearn_unseen_outcome (fun _ => alpha) β₁ β₂ lam (fun o c => w.get o c) es' o
      (fun e he hoe => ho ((hes' e he).2 o hoe)) hz
    rw [this]

/-- **illegal `n_outcomes_per_job`** (continued call; conversion went through) -/
theorem ndlModel_continue_perJob_errors (magic version : Nat) (hm : magic < 4294967296)
    (hv : version < 4294967296) (cfg : NdlCfg) (alpha β₁ β₂ lam : R)
    (hper : 2 ≤ cfg.perFile) (hperU : cfg.perFile < 4294967296) (w : LW R)
    (es es' : List (Event String String)) (hp : applyPolicyAll cfg.policy es = some es')
    (hfit : Fits32With w es) :
    (cfg.method = .threading → cfg.perJob < 1 →
      ndlModel magic version cfg alpha β₁ β₂ lam (some w) es = .error .value) ∧
    (cfg.method = .openmp → 4294967296 ≤ cfg.perJob →
      ndlModel magic version cfg alpha β₁ β₂ lam (some w) es = .error .other) ∧
    (cfg.method = .openmp → cfg.perJob < 1 → es ≠ [] →
      ndlModel magic version cfg alpha β₁ β₂ lam (some w) es = .error .other) := by
  rw [ndlModel_some]
  exact ndlCore_perJob_errors magic version hm hv cfg alpha β₁ β₂ lam _ _ hper hperU hfit.nCues hfit.nOuts _
    es es' hp (fun e he c hc => mem_append_filter_new _ _ _ ((countNames_mem es e he).1 c hc))
    (fun e he o ho => mem_append_filter_new _ _ _ ((countNames_mem es e he).2 o ho))
    hfit.nEvents hfit.perEvent

end Pyndl
